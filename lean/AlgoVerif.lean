import AlgoVerif.Common
