import AlgoVerif.Model.C07
/-!
# Model of handing a sort a sub-slice `a[lo:hi]` of a larger slice

Every sort of `/repo/sort` and `/repo/radixsort` works in place on the slice it is given. A caller may give it a
sub-slice of a larger backing array (whose capacity reaches to the end of that array) and, later, another sub-slice
that overlaps the first. Slices are values in the Model: the sort sees exactly the elements `lo … hi-1`, and the
caller's array afterwards holds the sorted block between the untouched elements before `lo` and from `hi` on.
Core only.
-/
namespace AlgoVerif.C07

variable {α : Type}

/-- `f(a[lo:hi])` for an in-place sort `f`; the slice expression panics unless `0 ≤ lo ≤ hi ≤ len(a)`
(the harness passes slices whose capacity equals their length). -/
def onSub (f : Array α → Outcome (Array α)) (a : Array α) (lo hi : Int) : Outcome (Array α) :=
  if 0 ≤ lo ∧ lo ≤ hi ∧ hi ≤ a.size then do
    let b ← f (a.extract lo.toNat hi.toNat)
    .ok (a.extract 0 lo.toNat ++ b ++ a.extract hi.toNat a.size)
  else .panic

end AlgoVerif.C07
