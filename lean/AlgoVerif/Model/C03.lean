import AlgoVerif.Model.C02Run
import AlgoVerif.Model.C02Hash
import AlgoVerif.Generated.C03CallSites
/-!
# C03: the library-internal users of the hash tables

* the options of every constructor call site of /repo (`Generated/C03CallSites.lean`, rewritten from the source
  on every check) as `Opts` of the Model of C02 (`staticOpts`), and
* Models of the two users the property names: `grammar.Productions` (`grammar/production.go`: `NewProductions`,
  `Add`, `Get`, `RemoveAll`) and `lr.ParsingTable` (`parser/lr/parsing_table.go`: `NewParsingTable`, `AddACTION`,
  `SetGOTO`, `ACTION`, `GOTO`), written over the table Model of C02 and **constructed with the options of their
  call sites**: a change of the `HashOpts` literal in the Go source changes these Models.

A production is represented by (head, body id), an action by an id; the sets (`set.Set[*Production]`,
`set.Set[*Action]`) are duplicate-free lists.  The values stored in the tables are pointers in Go (a set, a row
table) that are mutated after `Get` returned them; the Model writes the new value back into the slot `Get`
found (`OA.modify`) — no table operation of the Go code corresponds to that, and none is performed.
`HashNonTerminal`, `HashTerminal` = `hash.HashFuncForString(nil)`, `HashState` = `hash.HashFuncForInt(nil)`
(`Model/C02Hash.lean`).
-/
namespace AlgoVerif.C03
open AlgoVerif AlgoVerif.C02 AlgoVerif.Generated

abbrev Bytes := AlgoVerif.C02.Hash.Bytes

/-! ## call sites -/

def capOf : C03Cap → Option Nat
  | .dflt => some 0
  | .lit n => some n
  | _ => none

def lfOf : C03LF → Option LF
  | .dflt => some ⟨0, 1⟩
  | .lit a b => some ⟨a, b⟩
  | _ => none

/-- the `HashOpts` value a call site passes, when all three fields are known statically -/
def staticOpts (s : C03CallSite) : Option Opts :=
  match capOf s.cap, lfOf s.minLF, lfOf s.maxLF with
  | some c, some a, some b => some ⟨c, a, b⟩
  | _, _, _ => none

def findSite (file fn : String) (idx : Nat) : Option C03CallSite :=
  C03CallSites.find? fun s => s.file == file && s.fn == fn && s.idx == idx

/-- open-addressing kind of a constructor -/
def oaKind : C03Ctor → Option Kind
  | .quadratic => some .quad
  | .double => some .dbl
  | _ => none

/-- kind and options of a named call site that builds an open-addressing table with static options -/
def oaSite (file fn : String) (idx : Nat) : Option (Kind × Opts) :=
  match findSite file fn idx with
  | some s =>
    match oaKind s.ctor, staticOpts s with
    | some k, some o => some (k, o)
    | _, _ => none
  | none => none

/-! ## values behind pointers -/

variable {K V σ : Type} [DecidableEq K]

/-- index of the slot in which the loop of `Get` finds `key` -/
def getIdxLoop (t : OATable K V) (h : UInt64) (key : K) : Nat → Nat → Outcome (Option Nat)
  | 0, _ => .diverge
  | fuel + 1, i =>
    let idx := probeIdx t.kind t.m t.p h i
    match t.slots[idx]? with
    | none => .panic
    | some none => .ok none
    | some (some e) =>
      if !e.deleted && e.key = key then .ok (some idx)
      else getIdxLoop t h key fuel (i + 1)

/-- the value that `Get(key)` returned is a pointer and is mutated by `f`: same slot, new value -/
def modify (hash : K → UInt64) (t : OATable K V) (key : K) (f : V → V) : Outcome (OATable K V) :=
  match getIdxLoop t (mix (hash key)) key t.m 0 with
  | .ok (some idx) =>
    match t.slots[idx]? with
    | some (some e) => .ok { t with slots := t.slots.setIfInBounds idx (some { e with val := f e.val }) }
    | _ => .panic
  | .ok none => .panic
  | .panic => .panic
  | .diverge => .diverge

/-- `set.Add` on a duplicate-free list -/
def setAdd (l : List Nat) (x : Nat) : List Nat := if l.contains x then l else l ++ [x]

def hashString : Bytes → UInt64 := Hash.forString
def hashState : Int → UInt64 := Hash.forInt

/-! ## `grammar.Productions` -/

structure Productions where
  table : OATable Bytes (List Nat)

/-- `NewProductions()` -/
def Productions.new : Outcome Productions :=
  match oaSite "grammar/production.go" "NewProductions" 0 with
  | some (k, o) =>
    match (OA.new k o : Outcome (OATable Bytes (List Nat))) with
    | .ok t => .ok ⟨t⟩
    | .panic => .panic
    | .diverge => .diverge
  | none => .panic

/-- `Add(q)` for one production:
`if _, ok := p.table.Get(q.Head); !ok { p.table.Put(q.Head, set.New(EqProduction)) }; list, _ := p.table.Get(q.Head); list.Add(q)` -/
def Productions.add (sh : Shuffle σ) (p : Productions) (g : σ) (head : Bytes) (body : Nat) : Outcome (Productions × σ) :=
  match OA.get hashString p.table head with
  | .ok r =>
    let r1 : Outcome (OATable Bytes (List Nat) × σ) :=
      match r with
      | some _ => .ok (p.table, g)
      | none => OA.put sh hashString depth p.table g head []
    match r1 with
    | .ok (t1, g1) =>
      match OA.get hashString t1 head with
      | .ok (some _) =>
        match modify hashString t1 head (fun l => setAdd l body) with
        | .ok t2 => .ok (⟨t2⟩, g1)
        | .panic => .panic
        | .diverge => .diverge
      | .ok none => .panic
      | .panic => .panic
      | .diverge => .diverge
    | .panic => .panic
    | .diverge => .diverge
  | .panic => .panic
  | .diverge => .diverge

/-- `Get(head)`: the set, or nil -/
def Productions.get (p : Productions) (head : Bytes) : Outcome (Option (List Nat)) :=
  OA.get hashString p.table head

/-- `RemoveAll(head)` = `p.table.Delete(head)` -/
def Productions.removeAll (sh : Shuffle σ) (p : Productions) (g : σ) (head : Bytes) : Outcome (Productions × σ) :=
  match OA.delete sh hashString depth p.table g head with
  | .ok (t, g1, _) => .ok (⟨t⟩, g1)
  | .panic => .panic
  | .diverge => .diverge

/-! ## `lr.ParsingTable` -/

abbrev ActRow := OATable Bytes (List Nat)
abbrev GotoRow := OATable Bytes Int

structure LRTable where
  actions : OATable Int ActRow
  gotos : OATable Int GotoRow

def okOr {α : Type} (o : Option (Outcome α)) : Outcome α :=
  match o with
  | some r => r
  | none => .panic

/-- `NewParsingTable(…)`: two tables keyed by state -/
def LRTable.new : Outcome LRTable :=
  match oaSite "parser/lr/parsing_table.go" "NewParsingTable" 0, oaSite "parser/lr/parsing_table.go" "NewParsingTable" 1 with
  | some (k0, o0), some (k1, o1) =>
    match (OA.new k0 o0 : Outcome (OATable Int ActRow)), (OA.new k1 o1 : Outcome (OATable Int GotoRow)) with
    | .ok a, .ok b => .ok ⟨a, b⟩
    | .diverge, _ => .diverge
    | _, .diverge => .diverge
    | _, _ => .panic
  | _, _ => .panic

/-- the row table created inside `AddACTION` / `SetGOTO` -/
def newRow {W : Type} (fn : String) : Outcome (OATable Bytes W) :=
  match oaSite "parser/lr/parsing_table.go" fn 0 with
  | some (k, o) => OA.new k o
  | none => .panic

/-- `AddACTION(s, a, action)`; the result is `actions.Size() == 1` -/
def LRTable.addAction (sh : Shuffle σ) (t : LRTable) (g : σ) (s : Int) (a : Bytes) (act : Nat) :
    Outcome (LRTable × σ × Bool) :=
  match OA.get hashState t.actions s with
  | .ok r =>
    let r1 : Outcome (OATable Int ActRow × σ) :=
      match r with
      | some _ => .ok (t.actions, g)
      | none =>
        match (newRow "ParsingTable.AddACTION" : Outcome ActRow) with
        | .ok row => OA.put sh hashState depth t.actions g s row
        | .panic => .panic
        | .diverge => .diverge
    match r1 with
    | .ok (outer, g1) =>
      match OA.get hashState outer s with
      | .ok (some row) =>
        match OA.get hashString row a with
        | .ok ra =>
          let r2 : Outcome (ActRow × σ) :=
            match ra with
            | some _ => .ok (row, g1)
            | none => OA.put sh hashString depth row g1 a []
          match r2 with
          | .ok (row1, g2) =>
            match OA.get hashString row1 a with
            | .ok (some acts) =>
              match modify hashString row1 a (fun l => setAdd l act) with
              | .ok row2 =>
                match modify hashState outer s (fun _ => row2) with
                | .ok outer2 => .ok ({ t with actions := outer2 }, g2, (setAdd acts act).length == 1)
                | .panic => .panic
                | .diverge => .diverge
              | .panic => .panic
              | .diverge => .diverge
            | .ok none => .panic
            | .panic => .panic
            | .diverge => .diverge
          | .panic => .panic
          | .diverge => .diverge
        | .panic => .panic
        | .diverge => .diverge
      | .ok none => .panic
      | .panic => .panic
      | .diverge => .diverge
    | .panic => .panic
    | .diverge => .diverge
  | .panic => .panic
  | .diverge => .diverge

/-- `SetGOTO(s, A, next)` (`ErrState = -1` is not stored) -/
def LRTable.setGoto (sh : Shuffle σ) (t : LRTable) (g : σ) (s : Int) (A : Bytes) (next : Int) : Outcome (LRTable × σ) :=
  if next = -1 then .ok (t, g)
  else
    match OA.get hashState t.gotos s with
    | .ok r =>
      let r1 : Outcome (OATable Int GotoRow × σ) :=
        match r with
        | some _ => .ok (t.gotos, g)
        | none =>
          match (newRow "ParsingTable.SetGOTO" : Outcome GotoRow) with
          | .ok row => OA.put sh hashState depth t.gotos g s row
          | .panic => .panic
          | .diverge => .diverge
      match r1 with
      | .ok (outer, g1) =>
        match OA.get hashState outer s with
        | .ok (some row) =>
          match OA.put sh hashString depth row g1 A next with
          | .ok (row1, g2) =>
            match modify hashState outer s (fun _ => row1) with
            | .ok outer2 => .ok ({ t with gotos := outer2 }, g2)
            | .panic => .panic
            | .diverge => .diverge
          | .panic => .panic
          | .diverge => .diverge
        | .ok none => .panic
        | .panic => .panic
        | .diverge => .diverge
      | .panic => .panic
      | .diverge => .diverge
    | .panic => .panic
    | .diverge => .diverge

/-- the set behind `ACTION(s, a)` (`getActions`): `none` = no row or no entry -/
def LRTable.actionSet (t : LRTable) (s : Int) (a : Bytes) : Outcome (Option (List Nat)) :=
  match OA.get hashState t.actions s with
  | .ok (some row) => OA.get hashString row a
  | .ok none => .ok none
  | .panic => .panic
  | .diverge => .diverge

/-- `GOTO(s, A)`: `none` = error result -/
def LRTable.goto (t : LRTable) (s : Int) (A : Bytes) : Outcome (Option Int) :=
  match OA.get hashState t.gotos s with
  | .ok (some row) =>
    match OA.get hashString row A with
    | .ok (some st) => .ok (if st = -1 then none else some st)
    | .ok none => .ok none
    | .panic => .panic
    | .diverge => .diverge
  | .ok none => .ok none
  | .panic => .panic
  | .diverge => .diverge

end AlgoVerif.C03
