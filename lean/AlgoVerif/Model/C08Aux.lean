import AlgoVerif.Model.C08
/-!
# Model of the helpers of `/repo/grammar/{symbol,string,production}.go` and of the queries of `cfg.go` that the
transformations of `Model/C08.lean` rest on (shared by C08 and C09)

* the orders: `CmpSymbol`, `CmpString` (`cmpString`), `CmpProduction` (`cmpProduction`) as three-way comparisons over
  `bodyLt` / `prodLt` of `Model/C08.lean` — the orders in which `OrderNonTerminals`, `OrderProductionSet`, `LeftFactor`
  and BIN walk their inputs — and `OrderTerminals`;
* the hashes: `HashSymbol`, `HashString`, `HashProduction` (FNV-1, 64 bit, over the renderings `String()`),
  `HashTerminal`, `HashNonTerminal` (FNV-1 over the name);
* `WriteString` on a writer that fails; `String.HasPrefix / HasSuffix / Prepend / AnyMatch`, `LongestCommonPrefixOf`;
* `CFG.Symbols`, `CFG.Equal`, `CFG.IsCNF` (the list of offending productions), `Productions.AnyMatch / AllMatch /
  SelectMatch` for named predicates.

`Verify()`'s error list is `verifyErrors` of `Model/C10Ext.lean`.  Core Lean only.
-/
namespace AlgoVerif.C08
open AlgoVerif AlgoVerif.Gram

/-! ## three-way comparisons -/

/-- `-1 / 0 / 1` from a strict order, the way the Go comparators are written (`<` first, then `>`) -/
def cmpOfLt {α : Type} (lt : α → α → Bool) (a b : α) : Int :=
  if lt a b then -1 else if lt b a then 1 else 0

def strLt (a b : String) : Bool := decide (a < b)

/-- `CmpSymbol`: terminals before non-terminals, then the renderings -/
def cmpSymbol (l r : SSym) : Int :=
  if !isNT l && isNT r then -1
  else if isNT l && !isNT r then 1
  else cmpOfLt strLt (symStr l) (symStr r)

/-- `CmpString` -/
def cmpBody (l r : List SSym) : Int := cmpOfLt bodyLt l r

/-- `CmpProduction` -/
def cmpProd (l r : SProd) : Int := cmpOfLt prodLt l r

/-- `OrderTerminals`: the names, sorted -/
def orderT (g : G) : List String := sortBy strLt g.terms

/-! ## FNV-1, 64 bit (`hash/fnv.New64`) -/

def fnvOffset : UInt64 := 14695981039346656037
def fnvPrime : UInt64 := 1099511628211

def fnv64 (bytes : List UInt8) : UInt64 :=
  bytes.foldl (fun h b => (h * fnvPrime) ^^^ b.toUInt64) fnvOffset

def utf8 (s : String) : List UInt8 := s.toUTF8.toList

/-- `HashSymbol` -/
def hashSymbol (s : SSym) : UInt64 := fnv64 (utf8 (symStr s))

/-- `HashString`: the renderings of the symbols written one after the other (no separator) -/
def hashBody (b : List SSym) : UInt64 := fnv64 (b.flatMap fun s => utf8 (symStr s))

/-- `HashProduction`: the head, then the body as `HashString` writes it -/
def hashProd (p : SProd) : UInt64 := fnv64 (utf8 p.head ++ p.body.flatMap fun s => utf8 (symStr s))

/-- `HashTerminal` / `HashNonTerminal`: the bytes of the name -/
def hashName (n : String) : UInt64 := fnv64 (utf8 n)

/-! ## `WriteString` -/

/-- `WriteString(w, body)` on a writer whose `Write` number `k` (counting from 0) accepts half of the bytes and
returns an error: the total written and whether an error came back -/
def writeString (k : Nat) : List SSym → Nat → Nat → Nat × Bool
  | [], _, total => (total, false)
  | s :: rest, i, total =>
    let n := (utf8 (symStr s)).length
    if i = k then (total + n / 2, true) else writeString k rest (i + 1) (total + n)

/-! ## `String` helpers (`grammar/string.go`) -/

/-- `s.HasPrefix(p)` -/
def hasPrefix (s p : List SSym) : Bool := p.isPrefixOf s

/-- `s.HasSuffix(p)` -/
def hasSuffix (s p : List SSym) : Bool := p.isSuffixOf s

/-- the inner loop of `LongestCommonPrefixOf`: shorten `lcp` from the right until `s` starts with it -/
def shrinkTo (s : List SSym) : Nat → List SSym → List SSym
  | 0, lcp => lcp
  | n + 1, lcp => if hasPrefix s lcp then lcp else shrinkTo s n lcp.dropLast

/-- `LongestCommonPrefixOf(ss...)` -/
def longestCommonPrefix : List (List SSym) → List SSym
  | [] => []
  | s :: rest => rest.foldl (fun lcp t => shrinkTo t (lcp.length + 1) lcp) s

/-! ## queries on the grammar -/

/-- `CFG.Symbols()` -/
def symbols (g : G) : List SSym := g.terms.map Sym.term ++ g.nonterms.map Sym.nonterm

def sameSet {α : Type} [DecidableEq α] (a b : List α) : Bool :=
  a.all (fun x => decide (x ∈ b)) && b.all (fun x => decide (x ∈ a))

/-- `CFG.Equal` (the four components; the three sets as sets) -/
def equalG (g h : G) : Bool :=
  sameSet g.terms h.terms && sameSet g.nonterms h.nonterms && sameSet g.prods h.prods && decide (g.start = h.start)

/-- the productions `IsCNF()` reports: neither `A → B C`, nor `A → a`, nor `S → ε` -/
def cnfErrors (g : G) : List SProd :=
  g.prods.filter fun p => !isBinary p && !isTerminalProd p && !(p.body.isEmpty && p.head = g.start)

/-- the named predicates of the `match` op -/
def namedPred (name : String) : Option (SProd → Bool) :=
  match name with
  | "empty" => some fun p => p.body.isEmpty
  | "single" => some isSingle
  | "leftrec" => some isLeftRec
  | "binary" => some isBinary
  | "termprod" => some isTerminalProd
  | "true" => some fun _ => true
  | "false" => some fun _ => false
  | _ =>
    match name.splitOn "=" with
    | ["head", A] => some fun p => p.head = A
    | _ => none

end AlgoVerif.C08
