import AlgoVerif.Common
import AlgoVerif.Spec.C01
/-!
# Model of `symboltable/{bst,avl,red_black}.go` (C01 and C15)

One node type serves the three trees (`bstNode`, `avlNode`, `rbNode`): the BST ignores `height` and
`red`, the AVL tree ignores `red`, the LLRB tree ignores `height`.  The query half of the three Go
files is token-for-token the same after renaming (checked by `diff` while writing this file, and by
the correspondence run of every check, which exercises every query on all three trees), so queries
are modelled once.

Conventions: a Go method that mutates through a pointer returns the new tree; a dereference whose
safety is not syntactically guarded in the Go code (`n.right.left`, `rotateLeft` on a node without a
right child, `flipColors` on a node without two children, `_select` returning nil) yields
`Outcome.panic`; the LLRB `_delete/_deleteMin/_deleteMax` recurse on a child of the *transformed*
node, so they take a fuel argument (initialised to `size root`) and yield `Outcome.diverge` when it
runs out.  The comparator, the value equality and every predicate are parameters.
-/
namespace AlgoVerif.C01

/-- `bstNode` / `avlNode` / `rbNode`.  `size` = `n.size`, `height` = `avlNode.height`,
`red` = `rbNode.color`. -/
inductive Tree (K V : Type) where
  | nil
  | node (l : Tree K V) (k : K) (v : V) (size : Nat) (height : Nat) (red : Bool) (r : Tree K V)
  deriving Repr, Inhabited

variable {K V : Type}

namespace Tree

/-- `t._size(n)` -/
def sz : Tree K V → Nat
  | nil => 0
  | node _ _ _ s _ _ _ => s

/-- `avl._height(n)`: the cached height -/
def ht : Tree K V → Nat
  | nil => 0
  | node _ _ _ _ h _ _ => h

/-- `redBlack.isRed(n)` -/
def isRed : Tree K V → Bool
  | nil => false
  | node _ _ _ _ _ c _ => c

def isNil : Tree K V → Bool
  | nil => true
  | _ => false

/-- `bst._height(n)` / `redBlack._height(n)`: recomputed on every call -/
def realHeight : Tree K V → Nat
  | nil => 0
  | node l _ _ _ _ _ r => 1 + max l.realHeight r.realHeight

/-- number of nodes -/
def nodes : Tree K V → Nat
  | nil => 0
  | node l _ _ _ _ _ r => 1 + l.nodes + r.nodes

/-- in-order listing (the abstraction function of C01) -/
def toList : Tree K V → List (K × V)
  | nil => []
  | node l k v _ _ _ r => l.toList ++ (k, v) :: r.toList

end Tree

open Tree

/-! ## traversal (shared `_traverse`) -/

/-- `f() && g()` on state-passing visitors -/
@[inline] def andThen {σ : Type} (f g : σ → Bool × σ) : σ → Bool × σ := fun s =>
  match f s with
  | (true, s') => g s'
  | (false, s') => (false, s')

/-- `t._traverse(n, order, visit)`; the visitor may carry state (`σ`) and stop the walk by returning
`false`. -/
def traverse {σ : Type} (order : Order) (visit : K → V → σ → Bool × σ) : Tree K V → σ → Bool × σ
  | nil => fun s => (true, s)
  | node l k v _ _ _ r =>
    match order with
    | .vlr => andThen (visit k v) (andThen (traverse order visit l) (traverse order visit r))
    | .vrl => andThen (visit k v) (andThen (traverse order visit r) (traverse order visit l))
    | .lvr | .ascending => andThen (traverse order visit l) (andThen (visit k v) (traverse order visit r))
    | .rvl | .descending => andThen (traverse order visit r) (andThen (visit k v) (traverse order visit l))
    | .lrv => andThen (traverse order visit l) (andThen (traverse order visit r) (visit k v))
    | .rlv => andThen (traverse order visit r) (andThen (traverse order visit l) (visit k v))
    | .other => fun s => (false, s)

/-! ## queries (shared by the three trees) -/

/-- `_get` -/
def get (cmp : K → K → Int) : Tree K V → K → Option V
  | nil, _ => none
  | node l k v _ _ _ r, key =>
    let c := cmp key k
    if c < 0 then get cmp l key
    else if c > 0 then get cmp r key
    else some v

/-- `_min(n)` for the non-nil node `n = (l, k, v, …)` -/
def minOf : Tree K V → K → V → K × V
  | nil, k, v => (k, v)
  | node l k v _ _ _ _, _, _ => minOf l k v

/-- `_max(n)` for the non-nil node `n = (…, k, v, r)` -/
def maxOf : Tree K V → K → V → K × V
  | nil, k, v => (k, v)
  | node _ k v _ _ _ r, _, _ => maxOf r k v

/-- `Min()` -/
def minKV : Tree K V → Option (K × V)
  | nil => none
  | node l k v _ _ _ _ => some (minOf l k v)

/-- `Max()` -/
def maxKV : Tree K V → Option (K × V)
  | nil => none
  | node _ k v _ _ _ r => some (maxOf r k v)

/-- `_floor` (returns the node's key-value or nil) -/
def floor (cmp : K → K → Int) : Tree K V → K → Option (K × V)
  | nil, _ => none
  | node l k v _ _ _ r, key =>
    let c := cmp key k
    if c = 0 then some (k, v)
    else if c < 0 then floor cmp l key
    else match floor cmp r key with
      | some m => some m
      | none => some (k, v)

/-- `_ceiling` -/
def ceiling (cmp : K → K → Int) : Tree K V → K → Option (K × V)
  | nil, _ => none
  | node l k v _ _ _ r, key =>
    let c := cmp key k
    if c = 0 then some (k, v)
    else if c > 0 then ceiling cmp r key
    else match ceiling cmp l key with
      | some m => some m
      | none => some (k, v)

/-- `_select` (rank already known to be ≥ 0) -/
def selectNode : Tree K V → Nat → Option (K × V)
  | nil, _ => none
  | node l k v _ _ _ r, rank =>
    let s := l.sz
    if rank < s then selectNode l rank
    else if rank > s then selectNode r (rank - s - 1)
    else some (k, v)

/-- `Select(rank)`: the guard uses the cached size; `_select` returning nil would be dereferenced -/
def select (t : Tree K V) (rank : Int) : Outcome (Option (K × V)) :=
  if rank < 0 ∨ rank ≥ (t.sz : Int) then .ok none
  else match selectNode t rank.toNat with
    | some kv => .ok (some kv)
    | none => .panic

/-- `_rank` -/
def rank (cmp : K → K → Int) : Tree K V → K → Nat
  | nil, _ => 0
  | node l k _ _ _ _ r, key =>
    let c := cmp key k
    if c < 0 then rank cmp l key
    else if c > 0 then 1 + l.sz + rank cmp r key
    else l.sz

/-- `_range` (the appended key-values; `kvs[0:len]` is the whole slice) -/
def range (cmp : K → K → Int) : Tree K V → K → K → List (K × V)
  | nil, _, _ => []
  | node l k v _ _ _ r, lo, hi =>
    let cmpLo := cmp lo k
    let cmpHi := cmp hi k
    (if cmpLo < 0 then range cmp l lo hi else []) ++
    (if cmpLo ≤ 0 ∧ cmpHi ≥ 0 then [(k, v)] else []) ++
    (if cmpHi > 0 then range cmp r lo hi else [])

/-- `RangeSize(lo, hi)` -/
def rangeSize (cmp : K → K → Int) (t : Tree K V) (lo hi : K) : Int :=
  if cmp lo hi > 0 then 0
  else if (get cmp t hi).isSome then 1 + (rank cmp t hi : Int) - (rank cmp t lo : Int)
  else (rank cmp t hi : Int) - (rank cmp t lo : Int)

/-- the visitor the harness passes to `Traverse`: collect, stop after `limit` pairs (`0` = never) -/
def collectVisit (limit : Nat) (k : K) (v : V) (acc : List (K × V)) : Bool × List (K × V) :=
  let acc' := acc ++ [(k, v)]
  (limit = 0 || acc'.length < limit, acc')

/-- `Traverse(order, visit)` with the collecting visitor -/
def traverseCollect (order : Order) (limit : Nat) (t : Tree K V) : List (K × V) :=
  (traverse order (collectVisit limit) t []).2

/-- `All()` consumed to the end -/
def all (t : Tree K V) : List (K × V) :=
  (traverse .ascending (collectVisit 0) t []).2

/-- `for k, v := range t.All() { …; if len(acc) >= limit { break } }` (`0` = never breaks) -/
def allUntil (limit : Nat) (t : Tree K V) : List (K × V) :=
  (traverse .ascending (collectVisit limit) t []).2

/-- `Equal(rhs)` when the dynamic type of `rhs` is not the receiver's: `t2, ok := rhs.(*bst[K, V]); if !ok
{ return false }`, whatever `rhs` holds -/
def equalOtherKind : Bool := false

/-- `t.Equal(rhs)` for two tables of the same concrete type: `cmp` is the receiver's `t.cmpKey`, `cmp2` is
`t2.cmpKey` (`t2.Get` looks a key up with the comparator `t2` was constructed with, which need not be the
receiver's), `eqVal` is the receiver's `t.eqVal` in both passes -/
def equal (cmp cmp2 : K → K → Int) (eqVal : V → V → Bool) (t t2 : Tree K V) : Bool :=
  (traverse .ascending (fun k v (_ : Unit) =>
      (match get cmp2 t2 k with
       | some val => eqVal v val
       | none => false, ())) t ()).1 &&
  (traverse .ascending (fun k v (_ : Unit) =>
      (match get cmp t k with
       | some val => eqVal v val
       | none => false, ())) t2 ()).1

/-- `AnyMatch(p)` -/
def anyMatch (p : K → V → Bool) (t : Tree K V) : Bool :=
  !(traverse .vlr (fun k v (_ : Unit) => (!p k v, ())) t ()).1

/-- `AllMatch(p)` -/
def allMatch (p : K → V → Bool) (t : Tree K V) : Bool :=
  (traverse .vlr (fun k v (_ : Unit) => (p k v, ())) t ()).1

/-- `FirstMatch(p)` -/
def firstMatch (p : K → V → Bool) (t : Tree K V) : Option (K × V) :=
  (traverse .vlr (fun k v (st : Option (K × V)) =>
      if p k v then (false, some (k, v)) else (true, st)) t none).2

/-! ## BST mutators (`bst.go`) -/

/-- `_put` -/
def bstPut (cmp : K → K → Int) : Tree K V → K → V → Tree K V
  | nil, key, val => node nil key val 1 0 false nil
  | node l k v _ h c r, key, val =>
    let cv := cmp key k
    if cv < 0 then
      let l' := bstPut cmp l key val
      node l' k v (1 + l'.sz + r.sz) h c r
    else if cv > 0 then
      let r' := bstPut cmp r key val
      node l k v (1 + l.sz + r'.sz) h c r'
    else
      node l k val (1 + l.sz + r.sz) h c r

/-- `_deleteMin(n)` for the non-nil node `n = (l, k, v, h, c, r)`: (new subtree, removed pair) -/
def bstDeleteMin : Tree K V → K → V → Nat → Bool → Tree K V → Tree K V × (K × V)
  | nil, k, v, _, _, r => (r, (k, v))
  | node ll lk lv _ lh lc lr, k, v, h, c, r =>
    let (l', m) := bstDeleteMin ll lk lv lh lc lr
    (node l' k v (1 + l'.sz + r.sz) h c r, m)

/-- `_deleteMax(n)` for the non-nil node `n = (l, k, v, h, c, r)` -/
def bstDeleteMax : Tree K V → K → V → Nat → Bool → Tree K V → Tree K V × (K × V)
  | l, k, v, _, _, nil => (l, (k, v))
  | l, k, v, h, c, node rl rk rv _ rh rc rr =>
    let (r', m) := bstDeleteMax rl rk rv rh rc rr
    (node l k v (1 + l.sz + r'.sz) h c r', m)

/-- `_delete` (Hibbard): (new subtree, removed value) -/
def bstDelete (cmp : K → K → Int) : Tree K V → K → Tree K V × Option V
  | nil, _ => (nil, none)
  | node l k v _ h c r, key =>
    let cv := cmp key k
    if cv < 0 then
      let (l', res) := bstDelete cmp l key
      (node l' k v (1 + l'.sz + r.sz) h c r, res)
    else if cv > 0 then
      let (r', res) := bstDelete cmp r key
      (node l k v (1 + l.sz + r'.sz) h c r', res)
    else
      match l, r with
      | nil, _ => (r, some v)
      | _, nil => (l, some v)
      | _, node rl rk rv _ rh rc rr =>
        -- m := n; n = _min(m.right); n.right, _ = _deleteMin(m.right); n.left = m.left
        let (mk, mv) := minOf rl rk rv
        let r' := (bstDeleteMin rl rk rv rh rc rr).1
        (node l mk mv (1 + l.sz + r'.sz) 0 false r', some v)

/-! ## AVL mutators (`avl.go`) -/

/-- `rotateLeft(n)`; panics when `n` or `n.right` is nil -/
def avlRotateLeft : Tree K V → Outcome (Tree K V)
  | node a k v s _ c (node b rk rv _ _ rc d) =>
    let n' := node a k v (1 + a.sz + b.sz) (1 + max a.ht b.ht) c b
    .ok (node n' rk rv s (1 + max n'.ht d.ht) rc d)
  | _ => .panic

/-- `rotateRight(n)`; panics when `n` or `n.left` is nil -/
def avlRotateRight : Tree K V → Outcome (Tree K V)
  | node (node a lk lv _ _ lc b) k v s _ c d =>
    let n' := node b k v (1 + b.sz + d.sz) (1 + max b.ht d.ht) c d
    .ok (node a lk lv s (1 + max a.ht n'.ht) lc n')
  | _ => .panic

/-- `balanceFactor(n)`; panics on nil -/
def balanceFactor : Tree K V → Outcome Int
  | nil => .panic
  | node l _ _ _ _ _ r => .ok ((l.ht : Int) - (r.ht : Int))

/-- `balance(n)` -/
def avlBalance (n : Tree K V) : Outcome (Tree K V) := do
  let bf ← balanceFactor n
  match n with
  | nil => .panic
  | node l k v s h c r =>
    if bf = 2 then
      let bl ← balanceFactor l
      let l' ← if bl = -1 then avlRotateLeft l else pure l
      avlRotateRight (node l' k v s h c r)
    else if bf = -2 then
      let br ← balanceFactor r
      let r' ← if br = 1 then avlRotateRight r else pure r
      avlRotateLeft (node l k v s h c r')
    else
      pure n

/-- `n.size = …; n.height = …` -/
def avlFix (l : Tree K V) (k : K) (v : V) (c : Bool) (r : Tree K V) : Tree K V :=
  node l k v (1 + l.sz + r.sz) (1 + max l.ht r.ht) c r

/-- `_put` -/
def avlPut (cmp : K → K → Int) : Tree K V → K → V → Outcome (Tree K V)
  | nil, key, val => .ok (node nil key val 1 1 false nil)
  | node l k v s h c r, key, val =>
    let cv := cmp key k
    if cv < 0 then do
      let l' ← avlPut cmp l key val
      avlBalance (avlFix l' k v c r)
    else if cv > 0 then do
      let r' ← avlPut cmp r key val
      avlBalance (avlFix l k v c r')
    else
      .ok (node l k val s h c r)

/-- `_deleteMin(n)`; panics on nil -/
def avlDeleteMin : Tree K V → Outcome (Tree K V × (K × V))
  | nil => .panic
  | node l k v _ _ c r =>
    match l with
    | nil => .ok (r, (k, v))
    | node .. => do
      let (l', m) ← avlDeleteMin l
      let n' ← avlBalance (avlFix l' k v c r)
      pure (n', m)

/-- `_deleteMax(n)`; panics on nil -/
def avlDeleteMax : Tree K V → Outcome (Tree K V × (K × V))
  | nil => .panic
  | node l k v _ _ c r =>
    match r with
    | nil => .ok (l, (k, v))
    | node .. => do
      let (r', m) ← avlDeleteMax r
      let n' ← avlBalance (avlFix l k v c r')
      pure (n', m)

/-- `_delete` -/
def avlDelete (cmp : K → K → Int) : Tree K V → K → Outcome (Tree K V × Option V)
  | nil, _ => .ok (nil, none)
  | node l k v _ _ c r, key =>
    let cv := cmp key k
    if cv < 0 then do
      let (l', res) ← avlDelete cmp l key
      let n' ← avlBalance (avlFix l' k v c r)
      pure (n', res)
    else if cv > 0 then do
      let (r', res) ← avlDelete cmp r key
      let n' ← avlBalance (avlFix l k v c r')
      pure (n', res)
    else
      match l, r with
      | nil, _ => .ok (r, some v)
      | _, nil => .ok (l, some v)
      | _, node rl rk rv _ _ _ _ => do
        -- m := n; n = _min(m.right); n.right, _ = _deleteMin(m.right); n.left = m.left
        let (mk, mv) := minOf rl rk rv
        let (r', _) ← avlDeleteMin r
        let n' ← avlBalance (avlFix l mk mv false r')
        pure (n', some v)

/-! ## LLRB mutators (`red_black.go`) -/

/-- `rotateLeft(n)` -/
def rbRotateLeft : Tree K V → Outcome (Tree K V)
  | node a k v s h c (node b rk rv _ rh _ d) =>
    .ok (node (node a k v (1 + a.sz + b.sz) h true b) rk rv s rh c d)
  | _ => .panic

/-- `rotateRight(n)` -/
def rbRotateRight : Tree K V → Outcome (Tree K V)
  | node (node a lk lv _ lh _ b) k v s h c d =>
    .ok (node a lk lv s lh c (node b k v (1 + b.sz + d.sz) h true d))
  | _ => .panic

/-- `flipColors(n)` -/
def rbFlipColors : Tree K V → Outcome (Tree K V)
  | node (node a lk lv ls lh lc b) k v s h c (node e rk rv rs rh rc d) =>
    .ok (node (node a lk lv ls lh (!lc) b) k v s h (!c) (node e rk rv rs rh (!rc) d))
  | _ => .panic

/-- `n.left` -/
def leftOf : Tree K V → Outcome (Tree K V)
  | nil => .panic
  | node l _ _ _ _ _ _ => .ok l

/-- `n.right` -/
def rightOf : Tree K V → Outcome (Tree K V)
  | nil => .panic
  | node _ _ _ _ _ _ r => .ok r

/-- `n.left = x` -/
def setLeft (n : Tree K V) (x : Tree K V) : Outcome (Tree K V) :=
  match n with
  | nil => .panic
  | node _ k v s h c r => .ok (node x k v s h c r)

/-- `n.right = x` -/
def setRight (n : Tree K V) (x : Tree K V) : Outcome (Tree K V) :=
  match n with
  | nil => .panic
  | node l k v s h c _ => .ok (node l k v s h c x)

/-- `n.size = 1 + size(n.left) + size(n.right)` -/
def rbFixSize : Tree K V → Outcome (Tree K V)
  | nil => .panic
  | node l k v _ h c r => .ok (node l k v (1 + l.sz + r.sz) h c r)

/-- `if isRed(n.right) [&& !isRed(n.left)] { n = rotateLeft(n) }`; `_put` has the second conjunct
(`strict = true`), `balance` does not (`strict = false`) -/
def rbFix1 (strict : Bool) (n : Tree K V) : Outcome (Tree K V) := do
  let r ← rightOf n
  let l ← leftOf n
  if r.isRed && (!strict || !l.isRed) then rbRotateLeft n else pure n

/-- `if isRed(n.left) && isRed(n.left.left) { n = rotateRight(n) }`: `&&` short-circuits, `n.left.left` is
only read when `n.left` is red (hence non-nil) -/
def rbFix2 (n : Tree K V) : Outcome (Tree K V) := do
  let l ← leftOf n
  if l.isRed then do
    let ll ← leftOf l
    if ll.isRed then rbRotateRight n else pure n
  else pure n

/-- `if isRed(n.left) && isRed(n.right) { flipColors(n) }` -/
def rbFix3 (n : Tree K V) : Outcome (Tree K V) := do
  let l ← leftOf n
  let r ← rightOf n
  if l.isRed && r.isRed then rbFlipColors n else pure n

/-- the fix-up sequence shared by `_put` (`strict = true`) and `balance` (`strict = false`), followed by
`n.size = 1 + size(n.left) + size(n.right)` -/
def rbFixUp (strict : Bool) (n : Tree K V) : Outcome (Tree K V) := do
  let n ← rbFix1 strict n
  let n ← rbFix2 n
  let n ← rbFix3 n
  rbFixSize n

/-- `balance(n)` -/
def rbBalance (n : Tree K V) : Outcome (Tree K V) := rbFixUp false n

/-- `moveRedLeft(n)` -/
def rbMoveRedLeft (n : Tree K V) : Outcome (Tree K V) := do
  let n ← rbFlipColors n
  let r ← rightOf n
  let rl ← leftOf r
  if rl.isRed then do
    let r' ← rbRotateRight r
    let n ← setRight n r'
    let n ← rbRotateLeft n
    rbFlipColors n
  else pure n

/-- `moveRedRight(n)` -/
def rbMoveRedRight (n : Tree K V) : Outcome (Tree K V) := do
  let n ← rbFlipColors n
  let l ← leftOf n
  let ll ← leftOf l
  if ll.isRed then do
    let n ← rbRotateRight n
    rbFlipColors n
  else pure n

/-- `_put` -/
def rbPut (cmp : K → K → Int) : Tree K V → K → V → Outcome (Tree K V)
  | nil, key, val => .ok (node nil key val 1 0 true nil)
  | node l k v s h c r, key, val =>
    let cv := cmp key k
    if cv < 0 then do
      let l' ← rbPut cmp l key val
      rbFixUp true (node l' k v s h c r)
    else if cv > 0 then do
      let r' ← rbPut cmp r key val
      rbFixUp true (node l k v s h c r')
    else
      rbFixUp true (node l k val s h c r)

/-- `t.root.color = black` (after `_put`: root is never nil; a nil root would be dereferenced) -/
def blacken : Tree K V → Outcome (Tree K V)
  | nil => .panic
  | node l k v s h _ r => .ok (node l k v s h false r)

/-- `if t.root != nil { t.root.color = black }` -/
def blackenIfAny : Tree K V → Tree K V
  | nil => nil
  | node l k v s h _ r => node l k v s h false r

/-- `if !isRed(root.left) && !isRed(root.right) { root.color = red }` (root non-nil) -/
def reddenRoot : Tree K V → Tree K V
  | nil => nil
  | node l k v s h c r => if !l.isRed && !r.isRed then node l k v s h true r else node l k v s h c r

/-- `Put` -/
def rbPutRoot (cmp : K → K → Int) (t : Tree K V) (key : K) (val : V) : Outcome (Tree K V) := do
  let t' ← rbPut cmp t key val
  blacken t'

/-- `!isRed(n.left) && !isRed(n.left.left)` with Go's short-circuit evaluation -/
def needMoveLeft (n : Tree K V) : Outcome Bool := do
  let l ← leftOf n
  if l.isRed then pure false
  else do
    let ll ← leftOf l
    pure (!ll.isRed)

/-- `!isRed(n.right) && !isRed(n.right.left)` -/
def needMoveRight (n : Tree K V) : Outcome Bool := do
  let r ← rightOf n
  if r.isRed then pure false
  else do
    let rl ← leftOf r
    pure (!rl.isRed)

/-- key and value of a non-nil node -/
def kvOf : Tree K V → Outcome (K × V)
  | nil => .panic
  | node _ k v _ _ _ _ => .ok (k, v)

/-- `_deleteMin(n)` -/
def rbDeleteMin : Nat → Tree K V → Outcome (Tree K V × (K × V))
  | 0, _ => .diverge
  | fuel + 1, n => do
    let l ← leftOf n
    if l.isNil then
      let r ← rightOf n
      let kv ← kvOf n
      pure (r, kv)
    else
      let mv ← needMoveLeft n
      let n ← if mv then rbMoveRedLeft n else pure n
      let l ← leftOf n
      let (l', m) ← rbDeleteMin fuel l
      let n ← setLeft n l'
      let n ← rbBalance n
      pure (n, m)

/-- `_deleteMax(n)` -/
def rbDeleteMax : Nat → Tree K V → Outcome (Tree K V × (K × V))
  | 0, _ => .diverge
  | fuel + 1, n => do
    let l ← leftOf n
    let n ← if l.isRed then rbRotateRight n else pure n
    let r ← rightOf n
    if r.isNil then
      let l ← leftOf n
      let kv ← kvOf n
      pure (l, kv)
    else
      let mv ← needMoveRight n
      let n ← if mv then rbMoveRedRight n else pure n
      let r ← rightOf n
      let (r', m) ← rbDeleteMax fuel r
      let n ← setRight n r'
      let n ← rbBalance n
      pure (n, m)

/-- `n.key, n.val = k, v` -/
def setKV (n : Tree K V) (kv : K × V) : Outcome (Tree K V) :=
  match n with
  | nil => .panic
  | node l _ _ s h c r => .ok (node l kv.1 kv.2 s h c r)

/-- `_delete(n, key)` (n non-nil; a nil `n` is dereferenced at once) -/
def rbDelete (cmp : K → K → Int) : Nat → Tree K V → K → Outcome (Tree K V × Option V)
  | 0, _, _ => .diverge
  | fuel + 1, n, key => do
    let (k, _) ← kvOf n
    if cmp key k < 0 then
      let mv ← needMoveLeft n
      let n ← if mv then rbMoveRedLeft n else pure n
      let l ← leftOf n
      let (l', res) ← rbDelete cmp fuel l key
      let n ← setLeft n l'
      let n ← rbBalance n
      pure (n, res)
    else
      let l ← leftOf n
      let n ← if l.isRed then rbRotateRight n else pure n
      let (k, v) ← kvOf n
      let r ← rightOf n
      if cmp key k = 0 ∧ r.isNil then
        pure (nil, some v)
      else
        let mv ← needMoveRight n
        let n ← if mv then rbMoveRedRight n else pure n
        let (k, v) ← kvOf n
        if cmp key k = 0 then
          let r ← rightOf n
          let (r', m) ← rbDeleteMin fuel r
          let n ← setRight n r'
          let n ← setKV n m
          let n ← rbBalance n
          pure (n, some v)
        else
          let r ← rightOf n
          let (r', res) ← rbDelete cmp fuel r key
          let n ← setRight n r'
          let n ← rbBalance n
          pure (n, res)

/-- `Delete(key)` -/
def rbDeleteRoot (cmp : K → K → Int) (t : Tree K V) (key : K) : Outcome (Tree K V × Option V) :=
  match t with
  | nil => .ok (nil, none)
  | node .. =>
    match get cmp t key with
    | none => .ok (t, none)
    | some _ => do
      let t := reddenRoot t
      let (t', res) ← rbDelete cmp t.sz t key
      pure (blackenIfAny t', res)

/-- `DeleteMin()` -/
def rbDeleteMinRoot (t : Tree K V) : Outcome (Tree K V × Option (K × V)) :=
  match t with
  | nil => .ok (nil, none)
  | node .. => do
    let t := reddenRoot t
    let (t', m) ← rbDeleteMin t.sz t
    pure (blackenIfAny t', some m)

/-- `DeleteMax()` -/
def rbDeleteMaxRoot (t : Tree K V) : Outcome (Tree K V × Option (K × V)) :=
  match t with
  | nil => .ok (nil, none)
  | node .. => do
    let t := reddenRoot t
    let (t', m) ← rbDeleteMax t.sz t
    pure (blackenIfAny t', some m)

/-! ## the three tables as one state machine -/

inductive Kind where
  | bst | avl | rb
  deriving DecidableEq, Repr, Inhabited

/-- `Put` -/
def put (kind : Kind) (cmp : K → K → Int) (t : Tree K V) (key : K) (val : V) : Outcome (Tree K V) :=
  match kind with
  | .bst => .ok (bstPut cmp t key val)
  | .avl => avlPut cmp t key val
  | .rb => rbPutRoot cmp t key val

/-- `Delete` -/
def delete (kind : Kind) (cmp : K → K → Int) (t : Tree K V) (key : K) : Outcome (Tree K V × Option V) :=
  match kind with
  | .bst => .ok (bstDelete cmp t key)
  | .avl => avlDelete cmp t key
  | .rb => rbDeleteRoot cmp t key

/-- `DeleteMin` -/
def deleteMin (kind : Kind) (t : Tree K V) : Outcome (Tree K V × Option (K × V)) :=
  match kind with
  | .bst =>
    match t with
    | nil => .ok (nil, none)
    | node l k v _ h c r => let (t', m) := bstDeleteMin l k v h c r; .ok (t', some m)
  | .avl =>
    match t with
    | nil => .ok (nil, none)
    | node .. => do let (t', m) ← avlDeleteMin t; pure (t', some m)
  | .rb => rbDeleteMinRoot t

/-- `DeleteMax` -/
def deleteMax (kind : Kind) (t : Tree K V) : Outcome (Tree K V × Option (K × V)) :=
  match kind with
  | .bst =>
    match t with
    | nil => .ok (nil, none)
    | node l k v _ h c r => let (t', m) := bstDeleteMax l k v h c r; .ok (t', some m)
  | .avl =>
    match t with
    | nil => .ok (nil, none)
    | node .. => do let (t', m) ← avlDeleteMax t; pure (t', some m)
  | .rb => rbDeleteMaxRoot t

/-- `Height()` -/
def height (kind : Kind) (t : Tree K V) : Nat :=
  match kind with
  | .avl => t.ht
  | _ => t.realHeight

/-- the `SelectMatch` / `PartitionMatch` visitor: `Put` into one of two fresh tables -/
def partitionVisit (kind : Kind) (cmp : K → K → Int) (p : K → V → Bool) (k : K) (v : V)
    (st : Outcome (Tree K V × Tree K V)) : Bool × Outcome (Tree K V × Tree K V) :=
  (true, do
    let (m, u) ← st
    if p k v then
      let m' ← put kind cmp m k v
      pure (m', u)
    else
      let u' ← put kind cmp u k v
      pure (m, u'))

/-- `PartitionMatch(p)`: (matched, unmatched).  `SelectMatch(p)` is its first component (the Go code of
`SelectMatch` is `PartitionMatch` without the else branch). -/
def partitionMatch (kind : Kind) (cmp : K → K → Int) (p : K → V → Bool) (t : Tree K V) :
    Outcome (Tree K V × Tree K V) :=
  (traverse .vlr (partitionVisit kind cmp p) t (.ok (nil, nil))).2

/-- the `SelectMatch` visitor -/
def selectVisit (kind : Kind) (cmp : K → K → Int) (p : K → V → Bool) (k : K) (v : V)
    (st : Outcome (Tree K V)) : Bool × Outcome (Tree K V) :=
  (true, do
    let m ← st
    if p k v then put kind cmp m k v else pure m)

/-- `SelectMatch(p)` -/
def selectMatch (kind : Kind) (cmp : K → K → Int) (p : K → V → Bool) (t : Tree K V) :
    Outcome (Tree K V) :=
  (traverse .vlr (selectVisit kind cmp p) t (.ok nil)).2

/-- a table object (`bst` / `avl` / `redBlack`): `cmpKey`, `eqVal` and `root` -/
structure Table (K V : Type) where
  cmp : K → K → Int
  eqVal : V → V → Bool
  root : Tree K V

/-- the same object with a new root (a mutator ran) -/
def Table.set (t : Table K V) (r : Tree K V) : Table K V := { t with root := r }

/-- `NewBST(cmp, eqVal)` / `NewAVL(cmp, eqVal)` / `NewRedBlack(cmp, eqVal)` -/
def Table.new (cmp : K → K → Int) (eqVal : V → V → Bool) : Table K V := ⟨cmp, eqVal, nil⟩

/-- three table objects `(a, b, c)`; every one carries the comparator and the value equality it was
constructed with -/
abbrev State (K V : Type) := Table K V × Table K V × Table K V

/-- one call on the Model.  The receiver is `s.1`; `SelectMatch`/`PartitionMatch` construct their results
with the receiver's `cmpKey` and `eqVal`; `Equal` looks keys of the receiver up in the argument with the
argument's comparator and vice versa. -/
def step (kind : Kind) (s : State K V) : Op K V → Outcome (State K V × Out K V)
  | .put k v => do let a ← put kind s.1.cmp s.1.root k v; pure ((s.1.set a, s.2), .unit)
  | .delete k => do let (a, r) ← delete kind s.1.cmp s.1.root k; pure ((s.1.set a, s.2), .optV r)
  | .deleteMin => do let (a, r) ← deleteMin kind s.1.root; pure ((s.1.set a, s.2), .optKV r)
  | .deleteMax => do let (a, r) ← deleteMax kind s.1.root; pure ((s.1.set a, s.2), .optKV r)
  | .deleteAll => pure ((s.1.set nil, s.2), .unit)
  | .swap => pure ((s.2.1, s.1, s.2.2), .unit)
  | .swapC => pure ((s.2.2, s.2.1, s.1), .unit)
  | .size => pure (s, .nat s.1.root.sz)
  | .isEmpty => pure (s, .bool s.1.root.isNil)
  | .height => pure (s, .nat (height kind s.1.root))
  | .get k => pure (s, .optV (get s.1.cmp s.1.root k))
  | .min => pure (s, .optKV (minKV s.1.root))
  | .max => pure (s, .optKV (maxKV s.1.root))
  | .floor k => pure (s, .optKV (floor s.1.cmp s.1.root k))
  | .ceiling k => pure (s, .optKV (ceiling s.1.cmp s.1.root k))
  | .select i => do let r ← select s.1.root i; pure (s, .optKV r)
  | .rank k => pure (s, .nat (rank s.1.cmp s.1.root k))
  | .range lo hi => pure (s, .list (range s.1.cmp s.1.root lo hi))
  | .rangeSize lo hi => pure (s, .int (rangeSize s.1.cmp s.1.root lo hi))
  | .all => pure (s, .list (all s.1.root))
  | .allUntil limit => pure (s, .list (allUntil limit s.1.root))
  | .traverse o limit => pure (s, .list (traverseCollect o limit s.1.root))
  | .equal => pure (s, .bool (equal s.1.cmp s.2.1.cmp s.1.eqVal s.1.root s.2.1.root))
  | .equalSelf => pure (s, .bool (equal s.1.cmp s.1.cmp s.1.eqVal s.1.root s.1.root))
  | .equalOther => pure (s, .bool equalOtherKind)
  | .anyMatch p => pure (s, .bool (anyMatch p s.1.root))
  | .allMatch p => pure (s, .bool (allMatch p s.1.root))
  | .firstMatch p => pure (s, .optKV (firstMatch p s.1.root))
  | .selectMatch p => do
    let m ← selectMatch kind s.1.cmp p s.1.root
    pure ((s.1, s.1.set m, s.2.2), .list (all m))
  | .partitionMatch p => do
    let (m, u) ← partitionMatch kind s.1.cmp p s.1.root
    pure ((s.1, s.1.set m, s.1.set u), .list2 (all m) (all u))

/-- run a history from a given state, collecting the outputs -/
def runFrom (kind : Kind) : State K V → List (Op K V) → Outcome (State K V × List (Out K V))
  | s, [] => .ok (s, [])
  | s, op :: ops => do
    let (s', o) ← step kind s op
    let (s'', os) ← runFrom kind s' ops
    pure (s'', o :: os)

/-- the comparators the harness instantiates `cmpKey` with (`generic.NewCompareFunc[int]()` and its
reverse), and its `eqVal` -/
def cmpAsc (a b : Int) : Int := if a < b then -1 else if a > b then 1 else 0
def cmpDesc (a b : Int) : Int := if a > b then -1 else if a < b then 1 else 0
/-- comparators whose results are not normalised to -1/0/+1 (the code must test the sign, not a constant) -/
def cmpDiff (a b : Int) : Int := a - b
def cmpDiff7 (a b : Int) : Int := 7 * (a - b)
def cmpRDiff (a b : Int) : Int := b - a
def cmpRDiff3 (a b : Int) : Int := 3 * (b - a)
/-- by a key first, then ascending: `sort.Slice` style lexicographic comparator -/
def cmpLex (f : Int → Int) (a b : Int) : Int :=
  if f a < f b then -1 else if f a > f b then 1 else cmpAsc a b
/-- `|a|` -/
def absI (a : Int) : Int := if a < 0 then -a else a
/-- by absolute value, then negative before positive: `0, -1, 1, -2, 2, …` -/
def cmpAbsSign : Int → Int → Int := cmpLex absI
/-- `0` for even, `1` for odd keys (`%` as in Go: truncated) -/
def parityI (a : Int) : Int := if Int.tmod a 2 = 0 then 0 else 1
/-- even keys before odd keys, each group ascending -/
def cmpEvenOdd : Int → Int → Int := cmpLex parityI
def eqInt (a b : Int) : Bool := a == b
/-- value equalities other than `==`: same parity; anything goes -/
def eqParity (a b : Int) : Bool := Int.tmod (a - b) 2 == 0
def eqAny (_ _ : Int) : Bool := true

/-- run a history on three tables; the theorems instantiate them with fresh ones,
`Table.new cmpA eqA`, `Table.new cmpB eqB`, `Table.new cmpC eqC` (`New…(cmp, eqVal)` three times, each
with its own arguments) -/
def run (kind : Kind) (a b c : Table K V) (ops : List (Op K V)) : Outcome (State K V × List (Out K V)) :=
  runFrom kind (a, b, c) ops

/-- the usual set-up: the three tables constructed with the same comparator and value equality -/
def run1 (kind : Kind) (cmp : K → K → Int) (eqVal : V → V → Bool) (ops : List (Op K V)) :
    Outcome (State K V × List (Out K V)) :=
  run kind (.new cmp eqVal) (.new cmp eqVal) (.new cmp eqVal) ops

end AlgoVerif.C01
