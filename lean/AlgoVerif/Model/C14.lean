import AlgoVerif.Common
import AlgoVerif.Generated.Consts
/-!
# Model of `graph/{graph,undirected,directed,weighted_undirected,weighted_directed}.go` — part 1

Graphs, the three traversals with their visitor callbacks, `Paths`, `Orders`, `ConnectedComponents`,
`StronglyConnectedComponents` (Kosaraju), `DirectedCycle`, `Topological`.
(Part 2, `Model/C14W.lean`: the indexed binary heap, eager Prim, Dijkstra.  Part 3, `Model/C14S.lean`: graph objects
with state, histories, accessors, `Reverse()`.)

Conventions

* One `Graph` type for the four Go graph types.  The four copies of `traverseDFS`, `traverseDFSi`,
  `traverseBFS`, `Paths`, `Orders`, `ConnectedComponents`/`StronglyConnectedComponents` in the Go
  package are the same text modulo how the neighbour is obtained from an adjacency entry
  (`w` itself / `e.To()` / `e.Other(v)`) and the weight handed to `EdgePreOrder` (`0` / `e.Weight()`).
  An adjacency entry here is an `Arc`: the edge as stored by Go (`e`, with weight `0` for the
  unweighted types) plus the neighbour `to`, computed when the entry is appended:
  entries of `adj[v]` of an undirected graph have `v ∈ {e.v, e.w}`, so `e.Other(v)` is `e.w` for the
  entry appended to `adj[e.v]` and `e.v` for the one appended to `adj[e.w]` (for a self-loop both are
  `e.w = e.v`), which is exactly what `addEdgeUndirected` stores.
* `adj[v]` is a `List Arc` in insertion order (Go: `append`).
* `list.Stack` / `list.Queue` (block-linked, `listNodeSize = 1024` per block) are modelled by their
  abstract sequences (`List`, push/pop at the head; enqueue at the back, dequeue at the head) — the
  object C18's refinement theorems are about; the correspondence runs cross the 1024 boundary.
* `visited []bool`, `edgeTo []int`, `id []int` … are `Array`s; an index outside the array is
  `Outcome.panic`.  Recursion and `for !empty` loops take fuel; running out is `Outcome.diverge`.
* This file treats a graph as a value (`n` and `adj`).  The graph *objects* with their counters `e`, `ins`,
  `AddEdge` histories, the accessors and `Reverse()` as a method returning a new object are part 3,
  `Model/C14S.lean`.
-/
namespace AlgoVerif.C14

/-- `UndirectedEdge{v, w, weight}` / `DirectedEdge{from, to, weight}`; `[2]int{v, w}` with weight 0 -/
structure Edge where
  a : Nat
  b : Nat
  w : Int
  deriving DecidableEq, Repr, Inhabited

/-- the zero value `DirectedEdge{}` / `UndirectedEdge{}` -/
def Edge.zero : Edge := ⟨0, 0, 0⟩

/-- adjacency entry: the neighbour and the stored edge -/
structure Arc where
  to : Nat
  e : Edge
  deriving DecidableEq, Repr, Inhabited

structure Graph where
  n : Nat
  adj : Array (List Arc)
  deriving Repr

/-- `listNodeSize` (block size of the stacks/queues behind DFSi, BFS, `To`, `PathTo`): regenerated from
the source; the Model abstracts the blocks away, the constant is kept so a change is visible. -/
def listNodeSize : Nat := AlgoVerif.Generated.graph_listNodeSize

/-- `NewDirected(V)` … : `adj[i] = make([]T, 0)` -/
def Graph.new (n : Nat) : Graph := ⟨n, Array.replicate n []⟩

/-- `func (g *T) isVertexValid(v int) bool { return v >= 0 && v < g.v }` -/
def Graph.isVertexValid (g : Graph) (v : Int) : Bool := decide (0 ≤ v) && decide (v < (g.n : Int))

/-- `g.adj[v] = append(g.adj[v], x)` -/
def Graph.addArc (g : Graph) (v : Nat) (x : Arc) : Graph :=
  { g with adj := g.adj.modify v (· ++ [x]) }

/-- `Directed.AddEdge(v, w)` / `WeightedDirected.AddEdge(e)` -/
def Graph.addEdgeDirected (g : Graph) (v w : Int) (wt : Int) : Graph :=
  if g.isVertexValid v && g.isVertexValid w then
    g.addArc v.toNat ⟨w.toNat, ⟨v.toNat, w.toNat, wt⟩⟩
  else g

/-- `Undirected.AddEdge(v, w)` / `WeightedUndirected.AddEdge(e)`:
`adj[v] = append(adj[v], e); adj[w] = append(adj[w], e)` (a self-loop is appended twice) -/
def Graph.addEdgeUndirected (g : Graph) (v w : Int) (wt : Int) : Graph :=
  if g.isVertexValid v && g.isVertexValid w then
    let e : Edge := ⟨v.toNat, w.toNat, wt⟩
    (g.addArc v.toNat ⟨w.toNat, e⟩).addArc w.toNat ⟨v.toNat, e⟩
  else g

/-- `Reverse()`: `for v := 0; v < V; v++ { for _, w := range adj[v] { rev.AddEdge(w, v) } }` -/
def Graph.reverse (g : Graph) : Graph :=
  (List.range g.n).foldl
    (fun rev v => (g.adj.getD v []).foldl
      (fun rev x => rev.addEdgeDirected (x.to : Int) (v : Int) x.e.w) rev)
    (Graph.new g.n)

/-! ## Visitors and traversals -/

/-- `Visitors{VertexPreOrder, VertexPostOrder, EdgePreOrder}`; `σ` is what the closures mutate -/
structure Visitors (σ : Type) where
  pre : Option (Nat → σ → σ × Bool) := none
  post : Option (Nat → σ → σ × Bool) := none
  edge : Option (Nat → Nat → Int → σ → σ × Bool) := none

/-- `if visitors != nil && visitors.F != nil { if !visitors.F(v) { return } }` — `false` = return -/
def callV {σ : Type} (f : Option (Nat → σ → σ × Bool)) (v : Nat) (s : σ) : σ × Bool :=
  match f with
  | none => (s, true)
  | some f => f v s

def callE {σ : Type} (f : Option (Nat → Nat → Int → σ → σ × Bool)) (v w : Nat) (wt : Int) (s : σ) : σ × Bool :=
  match f with
  | none => (s, true)
  | some f => f v w wt s

/-- traversal state: the `visited` slice and whatever the visitor closures mutate -/
structure TState (σ : Type) where
  visited : Array Bool
  s : σ

variable {σ : Type}

/-- The `for _, w := range g.adj[v]` loop of `traverseDFS`.  `rec` is the recursive call.
Result `false`: the frame executed `return` (a visitor answered `false`). -/
def dfsLoop (rec : Nat → TState σ → Outcome (TState σ)) (vis : Visitors σ) (v : Nat) :
    List Arc → TState σ → Outcome (TState σ × Bool)
  | [], st => .ok (st, true)
  | x :: rest, st =>
    match st.visited[x.to]? with
    | none => .panic
    | some true => dfsLoop rec vis v rest st
    | some false =>
      let r := callE vis.edge v x.to x.e.w st.s
      if r.2 then
        match rec x.to { st with s := r.1 } with
        | .ok st' => dfsLoop rec vis v rest st'
        | .panic => .panic
        | .diverge => .diverge
      else .ok ({ st with s := r.1 }, false)

/-- `traverseDFS(v, visited, visitors)`; fuel = remaining recursion depth -/
def dfs (g : Graph) (vis : Visitors σ) : Nat → Nat → TState σ → Outcome (TState σ)
  | 0, _, _ => .diverge
  | fuel + 1, v, st =>
    if v < st.visited.size then
      let visited := st.visited.set! v true
      let r := callV vis.pre v st.s
      if r.2 then
        match g.adj[v]? with
        | none => .panic
        | some l =>
          match dfsLoop (dfs g vis fuel) vis v l ⟨visited, r.1⟩ with
          | .ok (st', true) => .ok { st' with s := (callV vis.post v st'.s).1 }
          | .ok (st', false) => .ok st'
          | .panic => .panic
          | .diverge => .diverge
      else .ok ⟨visited, r.1⟩
    else .panic

/-- The inner `for _, w := range g.adj[v]` loop of `traverseDFSi` / `traverseBFS`
(`push` is `stack.Push` or `queue.Enqueue`). -/
def iterInner (push : Nat → List Nat → List Nat) (vis : Visitors σ) (v : Nat) :
    List Arc → TState σ → List Nat → Outcome (TState σ × List Nat × Bool)
  | [], st, fr => .ok (st, fr, true)
  | x :: rest, st, fr =>
    match st.visited[x.to]? with
    | none => .panic
    | some true => iterInner push vis v rest st fr
    | some false =>
      let visited := st.visited.set! x.to true
      let fr := push x.to fr
      let r := callV vis.pre x.to st.s
      if r.2 then
        let r2 := callE vis.edge v x.to x.e.w r.1
        if r2.2 then iterInner push vis v rest ⟨visited, r2.1⟩ fr
        else .ok (⟨visited, r2.1⟩, fr, false)
      else .ok (⟨visited, r.1⟩, fr, false)

/-- `for !stack.IsEmpty() { v, _ := stack.Pop(); … }` (and the same with the queue) -/
def iterLoop (push : Nat → List Nat → List Nat) (g : Graph) (vis : Visitors σ) :
    Nat → TState σ → List Nat → Outcome (TState σ)
  | _, st, [] => .ok st
  | 0, _, _ :: _ => .diverge
  | fuel + 1, st, v :: fr =>
    let r := callV vis.post v st.s
    if r.2 then
      match g.adj[v]? with
      | none => .panic
      | some l =>
        match iterInner push vis v l { st with s := r.1 } fr with
        | .ok (st', fr', true) => iterLoop push g vis fuel st' fr'
        | .ok (st', _, false) => .ok st'
        | .panic => .panic
        | .diverge => .diverge
    else .ok { st with s := r.1 }

/-- `traverseDFSi` / `traverseBFS` up to the choice of container -/
def iter (push : Nat → List Nat → List Nat) (g : Graph) (vis : Visitors σ) (s : Nat) (st : TState σ) :
    Outcome (TState σ) :=
  if s < st.visited.size then
    let visited := st.visited.set! s true
    let r := callV vis.pre s st.s
    if r.2 then iterLoop push g vis (g.n + 1) ⟨visited, r.1⟩ (push s [])
    else .ok ⟨visited, r.1⟩
  else .panic

/-- `stack.Push` on the abstract stack (top = head) -/
def pushStack (w : Nat) (l : List Nat) : List Nat := w :: l
/-- `queue.Enqueue` on the abstract queue (front = head) -/
def pushQueue (w : Nat) (l : List Nat) : List Nat := l ++ [w]

inductive Strategy | dfs | dfsi | bfs
  deriving DecidableEq, Repr

/-- `switch strategy { case DFS: g.traverseDFS … case DFSi: … case BFS: … }` -/
def traverse (g : Graph) (strat : Strategy) (vis : Visitors σ) (s : Nat) (st : TState σ) :
    Outcome (TState σ) :=
  match strat with
  | .dfs => dfs g vis (g.n + 1) s st
  | .dfsi => iter pushStack g vis s st
  | .bfs => iter pushQueue g vis s st

/-! ## Paths -/

structure Paths where
  s : Int
  visited : Array Bool
  edgeTo : Array Nat
  deriving Repr

/-- `EdgePreOrder: func(v, w int, _ float64) bool { p.edgeTo[w] = v; return true }`
(`w` has just been read from `visited`, a slice of the same length, so the store is in range) -/
def pathsVisitors : Visitors (Array Nat) :=
  { edge := some fun v w _ et => (et.set! w v, true) }

/-- `func (g *T) Paths(s int, strategy TraversalStrategy) *Paths` -/
def Graph.paths (g : Graph) (s : Int) (strat : Strategy) : Outcome Paths :=
  let visited := Array.replicate g.n false
  let edgeTo := Array.replicate g.n 0
  if g.isVertexValid s then
    match traverse g strat pathsVisitors s.toNat ⟨visited, edgeTo⟩ with
    | .ok st => .ok ⟨s, st.visited, st.s⟩
    | .panic => .panic
    | .diverge => .diverge
  else .ok ⟨s, visited, edgeTo⟩

/-- `for x := v; x != p.s; x = p.edgeTo[x] { stack.Push(x) }`; the stack is returned top first -/
def Paths.toLoop (p : Paths) : Nat → Nat → List Nat → Outcome (List Nat)
  | 0, _, _ => .diverge
  | fuel + 1, x, stk =>
    if (x : Int) = p.s then .ok stk
    else
      match p.edgeTo[x]? with
      | none => .panic
      | some y => p.toLoop fuel y (x :: stk)

/-- `func (p *Paths) To(v int) ([]int, bool)`: push the chain, push `s`, pop everything -/
def Paths.to (p : Paths) (v : Int) : Outcome (Option (List Nat)) :=
  if 0 ≤ v then
    match p.visited[v.toNat]? with
    | none => .panic
    | some false => .ok none
    | some true =>
      match p.toLoop (p.visited.size + 1) v.toNat [] with
      | .ok stk => .ok (some (p.s.toNat :: stk))
      | .panic => .panic
      | .diverge => .diverge
  else .panic

/-! ## Orders -/

structure Orders where
  preRank : Array Nat
  postRank : Array Nat
  preOrder : Array Nat
  postOrder : Array Nat
  preCounter : Nat := 0
  postCounter : Nat := 0
  deriving Repr

def ordersVisitors : Visitors Orders :=
  { pre := some fun v o =>
      ({ o with preRank := o.preRank.set! v o.preCounter, preCounter := o.preCounter + 1,
                preOrder := o.preOrder.push v }, true)
    post := some fun v o =>
      ({ o with postRank := o.postRank.set! v o.postCounter, postCounter := o.postCounter + 1,
                postOrder := o.postOrder.push v }, true) }

/-- `for v := 0; v < g.V(); v++ { if !visited[v] { traverse(v) } }` over the vertices `vs` -/
def ordersLoop (g : Graph) (strat : Strategy) : List Nat → TState Orders → Outcome (TState Orders)
  | [], st => .ok st
  | v :: vs, st =>
    match st.visited[v]? with
    | none => .panic
    | some true => ordersLoop g strat vs st
    | some false =>
      match traverse g strat ordersVisitors v st with
      | .ok st' => ordersLoop g strat vs st'
      | .panic => .panic
      | .diverge => .diverge

/-- `func (g *T) Orders(strategy TraversalStrategy) *Orders` -/
def Graph.orders (g : Graph) (strat : Strategy) : Outcome Orders :=
  let o : Orders := { preRank := Array.replicate g.n 0, postRank := Array.replicate g.n 0,
                      preOrder := #[], postOrder := #[] }
  match ordersLoop g strat (List.range g.n) ⟨Array.replicate g.n false, o⟩ with
  | .ok st => .ok st.s
  | .panic => .panic
  | .diverge => .diverge

/-- `func (o *Orders) ReversePostOrder() []int` -/
def Orders.reversePostOrder (o : Orders) : List Nat := o.postOrder.toList.reverse

/-! ## ConnectedComponents / StronglyConnectedComponents -/

structure Components where
  count : Nat
  id : Array Nat
  deriving Repr, DecidableEq

/-- `VertexPreOrder: func(v int) bool { cc.id[v] = cc.count; return true }` with the current count -/
def idVisitors (count : Nat) : Visitors (Array Nat) :=
  { pre := some fun v id => (id.set! v count, true) }

/-- `for _, v := range order { if !visited[v] { g.traverseDFS(v, visited, visitors); count++ } }` -/
def compLoop (g : Graph) : List Nat → TState (Array Nat) → Nat → Outcome (TState (Array Nat) × Nat)
  | [], st, c => .ok (st, c)
  | v :: vs, st, c =>
    match st.visited[v]? with
    | none => .panic
    | some true => compLoop g vs st c
    | some false =>
      match dfs g (idVisitors c) (g.n + 1) v st with
      | .ok st' => compLoop g vs st' (c + 1)
      | .panic => .panic
      | .diverge => .diverge

def components (g : Graph) (order : List Nat) : Outcome Components :=
  match compLoop g order ⟨Array.replicate g.n false, Array.replicate g.n 0⟩ 0 with
  | .ok (st, c) => .ok ⟨c, st.s⟩
  | .panic => .panic
  | .diverge => .diverge

/-- `func (g *Undirected) ConnectedComponents()` (and the weighted copy) -/
def Graph.connectedComponents (g : Graph) : Outcome Components :=
  components g (List.range g.n)

/-- `func (g *Directed) StronglyConnectedComponents()` (and the weighted copy):
`order := g.Reverse().Orders(DFS).ReversePostOrder()` -/
def Graph.stronglyConnectedComponents (g : Graph) : Outcome Components :=
  match g.reverse.orders .dfs with
  | .ok o => components g o.reversePostOrder
  | .panic => .panic
  | .diverge => .diverge

/-- `func (c *ConnectedComponents) Components() [][]int` -/
def Components.components (c : Components) : Outcome (Array (List Nat)) :=
  let rec go : List (Nat × Nat) → Array (List Nat) → Outcome (Array (List Nat))
    | [], comps => .ok comps
    | (v, id) :: rest, comps =>
      if id < comps.size then go rest (comps.modify id (· ++ [v])) else .panic
  go ((List.range c.id.size).zip c.id.toList) (Array.replicate c.count [])

/-! ## DirectedCycle -/

structure DC where
  visited : Array Bool
  edgeTo : Array Nat
  onStack : Array Bool
  /-- `nil` or the stack (top first) -/
  cycle : Option (List Nat) := none
  deriving Repr

/-- `for x := v; x != w; x = c.edgeTo[x] { c.cycle.Push(x) }` -/
def dcChain (edgeTo : Array Nat) (w : Nat) : Nat → Nat → List Nat → Outcome (List Nat)
  | 0, _, _ => .diverge
  | fuel + 1, x, stk =>
    if x = w then .ok stk
    else
      match edgeTo[x]? with
      | none => .panic
      | some y => dcChain edgeTo w fuel y (x :: stk)

/-- the `for _, w := range g.adj[v]` loop of `DirectedCycle.dfs`; `false` = `return` (short circuit) -/
def dcLoop (rec : Nat → DC → Outcome DC) (v : Nat) : List Arc → DC → Outcome (DC × Bool)
  | [], c => .ok (c, true)
  | x :: rest, c =>
    if c.cycle.isSome then .ok (c, false)
    else
      match c.visited[x.to]? with
      | none => .panic
      | some false =>
        if x.to < c.edgeTo.size then
          match rec x.to { c with edgeTo := c.edgeTo.set! x.to v } with
          | .ok c' => dcLoop rec v rest c'
          | .panic => .panic
          | .diverge => .diverge
        else .panic
      | some true =>
        match c.onStack[x.to]? with
        | none => .panic
        | some false => dcLoop rec v rest c
        | some true =>
          match dcChain c.edgeTo x.to (c.visited.size + 1) v [] with
          | .ok stk => dcLoop rec v rest { c with cycle := some (v :: x.to :: stk) }
          | .panic => .panic
          | .diverge => .diverge

/-- `func (c *DirectedCycle) dfs(g *Directed, v int)` -/
def dcDfs (g : Graph) : Nat → Nat → DC → Outcome DC
  | 0, _, _ => .diverge
  | fuel + 1, v, c =>
    if v < c.onStack.size ∧ v < c.visited.size then
      let c := { c with onStack := c.onStack.set! v true, visited := c.visited.set! v true }
      match g.adj[v]? with
      | none => .panic
      | some l =>
        match dcLoop (dcDfs g fuel) v l c with
        | .ok (c', true) => .ok { c' with onStack := c'.onStack.set! v false }
        | .ok (c', false) => .ok c'
        | .panic => .panic
        | .diverge => .diverge
    else .panic

/-- `for v := 0; v < g.V(); v++ { if !c.visited[v] && c.cycle == nil { c.dfs(g, v) } }` -/
def dcOuter (g : Graph) : List Nat → DC → Outcome DC
  | [], c => .ok c
  | v :: vs, c =>
    match c.visited[v]? with
    | none => .panic
    | some true => dcOuter g vs c
    | some false =>
      if c.cycle.isSome then dcOuter g vs c
      else
        match dcDfs g (g.n + 1) v c with
        | .ok c' => dcOuter g vs c'
        | .panic => .panic
        | .diverge => .diverge

/-- `newDirectedCycle(g)` -/
def Graph.directedCycle (g : Graph) : Outcome DC :=
  dcOuter g (List.range g.n)
    { visited := Array.replicate g.n false, edgeTo := Array.replicate g.n 0,
      onStack := Array.replicate g.n false }

/-- `func (c *DirectedCycle) Cycle() ([]int, bool)`: pops the stack into a slice and pushes the vertices
back (since fix f332c7a), so every call returns the same list; `none` = `(nil, false)`.  The pop/push-back
round trip is not modelled step by step (it is the identity on the abstract stack); that repeated calls agree
is tested by the harness only. -/
def DC.cycleList (c : DC) : Option (List Nat) := c.cycle

/-! ## Topological -/

structure Topological where
  order : Option (List Nat)
  rank : Option (Array Nat)
  deriving Repr, DecidableEq

/-- `for i, v := range t.order { t.rank[v] = i }` -/
def rankLoop : List Nat → Nat → Array Nat → Outcome (Array Nat)
  | [], _, rank => .ok rank
  | v :: vs, i, rank => if v < rank.size then rankLoop vs (i + 1) (rank.set! v i) else .panic

/-- `func (g *Directed) Topological() *Topological`.  `Order()` returns a copy of `t.order` (fix f332c7a); the
Model's values cannot alias, so the copy itself is not modelled — tested by the harness only. -/
def Graph.topological (g : Graph) : Outcome Topological :=
  match g.directedCycle with
  | .panic => .panic
  | .diverge => .diverge
  | .ok c =>
    match c.cycleList with
    | some _ => .ok ⟨none, none⟩
    | none =>
      match g.orders .dfs with
      | .panic => .panic
      | .diverge => .diverge
      | .ok o =>
        let order := o.reversePostOrder
        match rankLoop order 0 (Array.replicate g.n 0) with
        | .ok rank => .ok ⟨some order, some rank⟩
        | .panic => .panic
        | .diverge => .diverge

end AlgoVerif.C14
