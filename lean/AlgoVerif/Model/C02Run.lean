import AlgoVerif.Model.C02
import AlgoVerif.Spec.C02
/-!
# C02/C03: operations, outputs and `run` for the four Models and for the Spec

A state is a pair of tables `A`, `B` of the same implementation and options (so that `Equal` can be
exercised) plus the state of the shuffle generator.  Every operation names the table it acts on
(`false` = `A`, `true` = `B`).
-/
namespace AlgoVerif.C02
variable {K V σ : Type} [DecidableEq K]

inductive Op (K V : Type) where
  | put (b : Bool) (k : K) (v : V)
  | get (b : Bool) (k : K)
  | delete (b : Bool) (k : K)
  | deleteAll (b : Bool)
  | size (b : Bool)
  | isEmpty (b : Bool)
  | all (b : Bool)
  /-- `A.Equal(B)` -/
  | equal
  deriving Repr

inductive Out (K V : Type) where
  | unit
  | val (o : Option V)
  | bool (b : Bool)
  | int (n : Int)
  | list (l : List (K × V))
  deriving Repr, DecidableEq

/-- the operations of one implementation -/
structure Impl (K V σ T : Type) where
  put : T → σ → K → V → Outcome (T × σ)
  get : T → K → Outcome (Option V)
  delete : T → σ → K → Outcome (T × σ × Option V)
  deleteAll : T → T
  size : T → Int
  all : T → σ → List (K × V) × σ
  equal : T → T → σ → Outcome (Bool × σ)

structure State (T σ : Type) where
  a : T
  b : T
  g : σ

def State.sel {T : Type} (s : State T σ) (b : Bool) : T := if b then s.b else s.a
def State.upd {T : Type} (s : State T σ) (b : Bool) (t : T) (g : σ) : State T σ :=
  if b then { s with b := t, g := g } else { s with a := t, g := g }

def step {T : Type} (I : Impl K V σ T) (s : State T σ) : Op K V → Outcome (State T σ × Out K V)
  | .put b k v =>
    match I.put (s.sel b) s.g k v with
    | .ok (t, g) => .ok (s.upd b t g, .unit)
    | .panic => .panic
    | .diverge => .diverge
  | .get b k =>
    match I.get (s.sel b) k with
    | .ok o => .ok (s, .val o)
    | .panic => .panic
    | .diverge => .diverge
  | .delete b k =>
    match I.delete (s.sel b) s.g k with
    | .ok (t, g, o) => .ok (s.upd b t g, .val o)
    | .panic => .panic
    | .diverge => .diverge
  | .deleteAll b => .ok (s.upd b (I.deleteAll (s.sel b)) s.g, .unit)
  | .size b => .ok (s, .int (I.size (s.sel b)))
  | .isEmpty b => .ok (s, .bool (I.size (s.sel b) == 0))
  | .all b => .ok ({ s with g := (I.all (s.sel b) s.g).2 }, .list (I.all (s.sel b) s.g).1)
  | .equal =>
    match I.equal s.a s.b s.g with
    | .ok (r, g) => .ok ({ s with g := g }, .bool r)
    | .panic => .panic
    | .diverge => .diverge

/-- Run a history; the trace stops with `panic` / `diverge` at the first operation that fails. -/
def runTrace {S ι ω : Type} (step : S → ι → Outcome (S × ω)) : S → List ι → List (Outcome ω)
  | _, [] => []
  | s, op :: ops =>
    match step s op with
    | .ok (s', o) => .ok o :: runTrace step s' ops
    | .panic => [.panic]
    | .diverge => [.diverge]

def run {T : Type} (I : Impl K V σ T) : State T σ → List (Op K V) → List (Outcome (Out K V)) :=
  runTrace (step I)

/-! ### the four implementations -/

def OA.impl (sh : Shuffle σ) (hash : K → UInt64) (eqVal : V → V → Bool) : Impl K V σ (OATable K V) where
  put := OA.put sh hash depth
  get := OA.get hash
  delete := OA.delete sh hash depth
  deleteAll := OA.deleteAll
  size := fun t => t.n
  all := OA.all sh
  equal := OA.equal sh hash eqVal

def Lin.impl (sh : Shuffle σ) (hash : K → UInt64) (eqVal : V → V → Bool) : Impl K V σ (LinTable K V) where
  put := Lin.put sh hash depth
  get := Lin.get hash
  delete := Lin.delete sh hash depth
  deleteAll := Lin.deleteAll
  size := fun t => t.n
  all := Lin.all sh
  equal := Lin.equal sh hash eqVal

def Chain.impl (sh : Shuffle σ) (hash : K → UInt64) (eqVal : V → V → Bool) : Impl K V σ (ChainTable K V) where
  put := Chain.put sh hash depth
  get := Chain.get hash
  delete := Chain.delete sh hash depth
  deleteAll := Chain.deleteAll
  size := fun t => t.n
  all := Chain.all sh
  equal := Chain.equal sh hash eqVal

/-- initial state: two tables built by the constructor with the same options -/
def initState {T : Type} (mk : Outcome T) (g : σ) : Outcome (State T σ) :=
  match mk with
  | .ok t => .ok ⟨t, t, g⟩
  | .panic => .panic
  | .diverge => .diverge

/-! ### the Spec -/
namespace Spec

structure SState (K V : Type) where
  a : Map K V
  b : Map K V

def SState.sel (s : SState K V) (b : Bool) : Map K V := if b then s.b else s.a
def SState.upd (s : SState K V) (b : Bool) (m : Map K V) : SState K V :=
  if b then { s with b := m } else { s with a := m }

def step (eqVal : V → V → Bool) (s : SState K V) : Op K V → SState K V × Out K V
  | .put b k v => (s.upd b ((s.sel b).insert k v), .unit)
  | .get b k => (s, .val ((s.sel b).lookup k))
  | .delete b k => (s.upd b ((s.sel b).erase k), .val ((s.sel b).lookup k))
  | .deleteAll b => (s.upd b [], .unit)
  | .size b => (s, .int (s.sel b).size)
  | .isEmpty b => (s, .bool ((s.sel b).size == 0))
  | .all b => (s, .list (s.sel b))
  | .equal => (s, .bool (Map.equal eqVal s.a s.b))

def run (eqVal : V → V → Bool) : SState K V → List (Op K V) → List (Out K V)
  | _, [] => []
  | s, op :: ops => (step eqVal s op).2 :: run eqVal (step eqVal s op).1 ops

end Spec

/-- outputs agree; listings are compared as multisets -/
def OutEquiv : Out K V → Out K V → Prop
  | .unit, .unit => True
  | .val a, .val b => a = b
  | .bool a, .bool b => a = b
  | .int a, .int b => a = b
  | .list a, .list b => a.Perm b
  | _, _ => False

/-- the Model's trace agrees with the Spec's: same length, every operation returned (`ok`, neither
`panic` nor `diverge`) an output equivalent to the Spec's -/
def Agree : List (Outcome (Out K V)) → List (Out K V) → Prop
  | [], [] => True
  | .ok o :: ms, s :: ss => OutEquiv o s ∧ Agree ms ss
  | _, _ => False

end AlgoVerif.C02
