import AlgoVerif.Common
import AlgoVerif.Generated.Consts
/-!
# Model of `automata/{automata,nfa,dfa,partition}.go`

Transcription of the Go code as it is in /repo's working tree (i.e. with the `Concat` and `Isomorphic`
fixes).  Conventions:

* `State` and `Symbol` are Go `int` / `rune`, here `Int`; `E = 0` is ε (value taken from the
  regenerated constant `Generated.automata_E`).
* `States` (`set.NewSorted`) is a strictly increasing `List Int` (`sins` = `sorted.add`; membership is a
  linear `contains` instead of the binary search — that the binary search agrees is C16's business).
* a Red-Black `symboltable` is a key-sorted association list (`aget`/`aput`), iterated front to back,
  which is the ascending order `All()` yields; `set.NewStable` is a list in insertion order.
* `list.SoftQueue` is the list of all values plus the `front` index; `list.Stack`/`list.Queue` are lists.
* loops that run "until empty / until no change" take fuel and return `Outcome.diverge` when it runs out;
  `generatePermutations` is structurally recursive (on `end − start`) and needs none.
* Go `map` iteration (only in `EliminateDeadStates` and the degree sequence) is order-irrelevant for the
  results that are observed (sets are sorted, degrees are sorted).
-/
namespace AlgoVerif.C13
open AlgoVerif

abbrev State := Int
abbrev Symbol := Int

/-- `const E Symbol = 0` -/
def E : Symbol := (Generated.automata_E : Int)

/-! ## sorted sets of states / symbols (`set.NewSorted`) -/

/-- `sorted.add` -/
def sins (x : Int) : List Int → List Int
  | [] => [x]
  | y :: ys => if x < y then x :: y :: ys else if x = y then y :: ys else y :: sins x ys

/-- `s.Add(vals...)` -/
def saddAll (s : List Int) (xs : List Int) : List Int := xs.foldl (fun acc x => sins x acc) s

/-- `NewStates(vals...)` -/
def mkSet (xs : List Int) : List Int := saddAll [] xs

/-- `s.Union(t)`: clone `s`, add every member of `t` -/
def sunion (a b : List Int) : List Int := saddAll a b

/-- `s.Difference(t)`: clone `s`, remove every member of `t` -/
def sdiff (a b : List Int) : List Int := a.filter (fun x => !b.contains x)

/-- `s.Equal(t)`: same size and every member of `s` is in `t` -/
def setEq (a b : List Int) : Bool := a.length == b.length && a.all (fun x => b.contains x)

/-! ## Red-Black symbol tables as sorted association lists -/

def aget {β : Type} (k : Int) : List (Int × β) → Option β
  | [] => none
  | (k', v) :: r => if k = k' then some v else aget k r

def aput {β : Type} (k : Int) (v : β) : List (Int × β) → List (Int × β)
  | [] => [(k, v)]
  | (k', v') :: r =>
    if k < k' then (k, v) :: (k', v') :: r
    else if k = k' then (k, v) :: r
    else (k', v') :: aput k v r

/-- `redBlack.Equal`: every pair of `t` is in `t2` with an `eqv`-equal value, and vice versa
(the second traversal calls `eqVal(n.val, val)` with `n` from `t2`). -/
def aEqual {β : Type} (eqv : β → β → Bool) (t t2 : List (Int × β)) : Bool :=
  t.all (fun kv => match aget kv.1 t2 with | some v2 => eqv kv.2 v2 | none => false) &&
  t2.all (fun kv => match aget kv.1 t with | some v1 => eqv kv.2 v1 | none => false)

/-! ## NFA -/

structure NFA where
  start : State
  final : List State
  trans : List (State × List (Symbol × List State))
  deriving DecidableEq, Repr, Inhabited

/-- `NewNFA(start, final)` -/
def NFA.new (start : State) (final : List State) : NFA := ⟨start, mkSet final, []⟩

/-- `n.next(s, a)`; `none` is Go's `nil` -/
def NFA.next (n : NFA) (s : State) (a : Symbol) : Option (List State) :=
  match aget s n.trans with
  | some st => aget a st
  | none => none

/-- `n.Add(s, a, next)` -/
def NFA.add (n : NFA) (s : State) (a : Symbol) (next : List State) : NFA :=
  let strans := (aget s n.trans).getD []
  let states := (aget a strans).getD []
  { n with trans := aput s (aput a (saddAll states next) strans) n.trans }

/-- every state that is the target of some transition, with repetitions (bounds the ε-closure loop) -/
def NFA.targets (n : NFA) : List State :=
  n.trans.flatMap (fun st => st.2.flatMap (fun e => e.2))

/-- the `for u := range next.All()` loop of `εClosure` -/
def closeStep (next : List State) (closure stack : List State) : List State × List State :=
  next.foldl (fun (cs : List State × List State) u =>
    if cs.1.contains u then cs else (sins u cs.1, u :: cs.2)) (closure, stack)

/-- the `for !stack.IsEmpty()` loop of `εClosure` (head of `stack` = top) -/
def NFA.closureLoop (n : NFA) : Nat → List State → List State → Outcome (List State)
  | _, closure, [] => .ok closure
  | 0, _, _ :: _ => .diverge
  | fuel + 1, closure, t :: stack =>
    match n.next t E with
    | some nx => n.closureLoop fuel (closeStep nx closure stack).1 (closeStep nx closure stack).2
    | none => n.closureLoop fuel closure stack

/-- fuel with which the closure loop provably returns (`closureLoop_ok`) -/
def NFA.closureFuel (n : NFA) (T : List State) : Nat := T.length + 2 * n.targets.length + 1

/-- `n.εClosure(T)` -/
def NFA.εClosure (n : NFA) (T : List State) : Outcome (List State) :=
  n.closureLoop (n.closureFuel T) T T.reverse

/-- body of the loop of `move`: `if next := n.next(s, a); next != nil { states = states.Union(next) }` -/
def NFA.moveStep (n : NFA) (a : Symbol) (acc : List State) (s : State) : List State :=
  match n.next s a with
  | some nx => sunion acc nx
  | none => acc

/-- `n.move(T, a)` -/
def NFA.move (n : NFA) (T : List State) (a : Symbol) : List State :=
  T.foldl (n.moveStep a) []

/-- the `for …; len(s) > 0; s = s[1:]` loop of `Accept` -/
def NFA.acceptLoop (n : NFA) : List State → List Symbol → Outcome (List State)
  | S, [] => .ok S
  | S, a :: w =>
    match n.εClosure (n.move S a) with
    | .ok S' => n.acceptLoop S' w
    | .panic => .panic
    | .diverge => .diverge

/-- `n.Accept(s)` -/
def NFA.accept (n : NFA) (w : List Symbol) : Outcome Bool :=
  match n.εClosure (mkSet [n.start]) with
  | .ok S0 =>
    match n.acceptLoop S0 w with
    | .ok S => .ok (S.any (fun s => n.final.contains s))
    | .panic => .panic
    | .diverge => .diverge
  | .panic => .panic
  | .diverge => .diverge

/-- `n.states()` -/
def NFA.states (n : NFA) : List State :=
  n.trans.foldl (fun acc st => st.2.foldl (fun acc e => sunion (sins st.1 acc) e.2) acc)
    (sunion (mkSet [n.start]) n.final)

/-- `n.symbols()` -/
def NFA.symbols (n : NFA) : List Symbol :=
  n.trans.foldl (fun acc st => st.2.foldl (fun acc e => if e.1 ≠ E then sins e.1 acc else acc) acc) []

/-- `n.Clone()` -/
def NFA.clone (n : NFA) : NFA :=
  n.trans.foldl (fun nfa st => st.2.foldl (fun nfa e => nfa.add st.1 e.1 e.2) nfa)
    ⟨n.start, n.final, []⟩

/-- `n.Equal(rhs)` -/
def NFA.equal (n rhs : NFA) : Bool :=
  n.start == rhs.start && setEq n.final rhs.final && aEqual (aEqual setEq) n.trans rhs.trans

/-! ## stateManager -/

structure SM where
  last : Int
  /-- `states[id][s]` as a list of `((id, s), t)` -/
  tbl : List ((Nat × Int) × Int)
  deriving Repr

def SM.new (last : Int) : SM := ⟨last, []⟩

def SM.find (m : SM) (id : Nat) (s : Int) : Option Int :=
  (m.tbl.find? (fun e => e.1 == (id, s))).map (·.2)

/-- `m.GetOrCreateState(id, s)` -/
def SM.get (m : SM) (id : Nat) (s : Int) : SM × Int :=
  match m.find id s with
  | some t => (m, t)
  | none => (⟨m.last + 1, m.tbl ++ [((id, s), m.last + 1)]⟩, m.last + 1)

/-- `for t := range states.All() { tt := sm.GetOrCreateState(id, t); next = append(next, tt) }` -/
def SM.mapList (m : SM) (id : Nat) (ts : List State) : SM × List State :=
  ts.foldl (fun (acc : SM × List State) t => ((acc.1.get id t).1, acc.2 ++ [(acc.1.get id t).2])) (m, [])

/-- the transition-copying loop shared by `Star`, `Union` and `CombineDFA`:
`for s, strans := range n.trans.All() { ss := sm.Get(id, s); for a, states := range strans.All() { … dst.Add(ss, a, next) } }` -/
def copyTrans (id : Nat) (n : NFA) (m : SM) (dst : NFA) : SM × NFA :=
  n.trans.foldl (fun (acc : SM × NFA) st =>
    let m1 := (acc.1.get id st.1).1
    let ss := (acc.1.get id st.1).2
    st.2.foldl (fun (acc : SM × NFA) e =>
      ((acc.1.mapList id e.2).1, acc.2.add ss e.1 (acc.1.mapList id e.2).2)) (m1, acc.2)) (m, dst)

/-- `n.Star()` -/
def NFA.star (n : NFA) : NFA :=
  let star := NFA.new 0 [1]
  let r := copyTrans 0 n (SM.new 1) star
  let m := (r.1.get 0 n.start).1
  let ss := (r.1.get 0 n.start).2
  let star := (r.2.add 0 E [ss]).add 0 E [1]
  (n.final.foldl (fun (acc : SM × NFA) f =>
    ((acc.1.get 0 f).1, ((acc.2.add (acc.1.get 0 f).2 E [ss]).add (acc.1.get 0 f).2 E [1]))) (m, star)).2

/-- body of the `for id, nfa := range nfas` loop of `Union` -/
def unionStep (acc : SM × NFA) (id : Nat) (nfa : NFA) : SM × NFA :=
  let r := copyTrans id nfa acc.1 acc.2
  let m := (r.1.get id nfa.start).1
  let ss := (r.1.get id nfa.start).2
  let u := r.2.add 0 E [ss]
  nfa.final.foldl (fun (acc : SM × NFA) f =>
    ((acc.1.get id f).1, acc.2.add (acc.1.get id f).2 E [1])) (m, u)

/-- fold with the index of the element (`for id, x := range xs`) -/
def foldlIdx {α β : Type} (f : β → Nat → α → β) (init : β) (xs : List α) (i : Nat := 0) : β :=
  match xs with
  | [] => init
  | x :: r => foldlIdx f (f init i x) r (i + 1)

/-- `n.Union(ns...)` with `nfas = n :: ns` -/
def NFA.union (nfas : List NFA) : NFA :=
  (foldlIdx unionStep (SM.new 1, NFA.new 0 [1]) nfas).2

/-- does some transition of `n` lead to `q`?  (the pre-scan of `Concat`) -/
def NFA.hasEdgeTo (n : NFA) (q : State) : Bool :=
  n.trans.any (fun st => st.2.any (fun e => e.2.contains q))

/-- loop state of `Concat`: state manager, the NFA under construction, `final` -/
structure ConcatSt where
  m : SM
  nfa : NFA
  final : List State

/-- body of the `for id, nfa := range nfas` loop of `Concat` (after the fix) -/
def concatStep (acc : ConcatSt) (id : Nat) (nfa : NFA) : ConcatSt :=
  -- var start []State; the pre-scan calls GetOrCreateState(id, nfa.Start) when an edge leads back to it
  let m0 := if nfa.hasEdgeTo nfa.start then (acc.m.get id nfa.start).1 else acc.m
  let start : List State := if nfa.hasEdgeTo nfa.start then [(acc.m.get id nfa.start).2] else []
  let r := nfa.trans.foldl (fun (a : SM × NFA) st =>
    let m1 := if st.1 = nfa.start then a.1 else (a.1.get id st.1).1
    let sp : List State := if st.1 = nfa.start then acc.final ++ start else [(a.1.get id st.1).2]
    st.2.foldl (fun (a : SM × NFA) e =>
      ((a.1.mapList id e.2).1,
        sp.foldl (fun c s => c.add s e.1 (a.1.mapList id e.2).2) a.2)) (m1, a.2)) (m0, acc.nfa)
  let fin := nfa.final.foldl (fun (a : SM × List State) f =>
    if f = nfa.start then (a.1, a.2 ++ acc.final ++ start)
    else ((a.1.get id f).1, a.2 ++ [(a.1.get id f).2])) (r.1, [])
  ⟨fin.1, r.2, fin.2⟩

/-- `n.Concat(ns...)` with `nfas = n :: ns` -/
def NFA.concat (nfas : List NFA) : NFA :=
  let r := foldlIdx concatStep ⟨SM.new 0, NFA.new 0 [0], [0]⟩ nfas
  { r.nfa with final := mkSet r.final }

/-! ## DFA -/

structure DFA where
  start : State
  final : List State
  trans : List (State × List (Symbol × State))
  deriving DecidableEq, Repr, Inhabited

/-- `NewDFA(start, final)` -/
def DFA.new (start : State) (final : List State) : DFA := ⟨start, mkSet final, []⟩

/-- `d.Next(s, a)`; `-1` when there is no transition -/
def DFA.next (d : DFA) (s : State) (a : Symbol) : State :=
  match aget s d.trans with
  | some st => (aget a st).getD (-1)
  | none => -1

/-- `d.Add(s, a, next)` -/
def DFA.add (d : DFA) (s : State) (a : Symbol) (t : State) : DFA :=
  { d with trans := aput s (aput a t ((aget s d.trans).getD [])) d.trans }

/-- `d.Accept(s)` -/
def DFA.accept (d : DFA) (w : List Symbol) : Bool :=
  d.final.contains (w.foldl d.next d.start)

/-- `d.states()` -/
def DFA.states (d : DFA) : List State :=
  d.trans.foldl (fun acc st => st.2.foldl (fun acc e => sins e.2 (sins st.1 acc)) acc)
    (sunion (mkSet [d.start]) d.final)

/-- `d.symbols()` -/
def DFA.symbols (d : DFA) : List Symbol :=
  d.trans.foldl (fun acc st => st.2.foldl (fun acc e => sins e.1 acc) acc) []

/-- `d.Clone()` -/
def DFA.clone (d : DFA) : DFA :=
  d.trans.foldl (fun dfa st => st.2.foldl (fun dfa e => dfa.add st.1 e.1 e.2) dfa) ⟨d.start, d.final, []⟩

/-- `d.Equal(rhs)` -/
def DFA.equal (d rhs : DFA) : Bool :=
  d.start == rhs.start && setEq d.final rhs.final &&
    aEqual (aEqual (fun (a b : Int) => a == b)) d.trans rhs.trans

/-- `d.ToNFA()` -/
def DFA.toNFA (d : DFA) : NFA :=
  d.trans.foldl (fun nfa st => st.2.foldl (fun nfa e => nfa.add st.1 e.1 [e.2]) nfa) ⟨d.start, d.final, []⟩

/-! ## subset construction (`ToDFA`) -/

/-- `Dstates.Contains(U)`: index of the first set equal to `U` -/
def sqFind (q : List (List State)) (U : List State) : Option Nat :=
  q.findIdx? (fun v => setEq v U)

/-- the `for _, a := range n.Symbols()` loop for the set `T` dequeued at index `i` -/
def subsetStep (n : NFA) (T : List State) (i : Nat) :
    List Symbol → List (List State) × DFA → Outcome (List (List State) × DFA)
  | [], acc => .ok acc
  | a :: syms, acc =>
    match n.εClosure (n.move T a) with
    | .ok U =>
      match sqFind acc.1 U with
      | some j => subsetStep n T i syms (acc.1, acc.2.add i a j)
      | none => subsetStep n T i syms (acc.1 ++ [U], acc.2.add i a acc.1.length)
    | .panic => .panic
    | .diverge => .diverge

/-- the `for T, i := Dstates.Dequeue(); i >= 0; …` loop -/
def subsetLoop (n : NFA) (syms : List Symbol) :
    Nat → List (List State) → Nat → DFA → Outcome (List (List State) × DFA)
  | fuel, q, front, dfa =>
    match q[front]? with
    | none => .ok (q, dfa)
    | some T =>
      match fuel with
      | 0 => .diverge
      | fuel + 1 =>
        match subsetStep n T front syms (q, dfa) with
        | .ok r => subsetLoop n syms fuel r.1 (front + 1) r.2
        | .panic => .panic
        | .diverge => .diverge

/-- `for i, S := range Dstates.Values() { for f := range n.Final.All() { if S.Contains(f) { Final.Add(i); break } } }` -/
def subsetFinals (final : List State) (q : List (List State)) : List State :=
  foldlIdx (fun acc i S => if final.any (fun f => S.contains f) then sins (i : Int) acc else acc) [] q

/-- fuel with which the subset construction provably returns -/
def NFA.subsetFuel (n : NFA) : Nat := 2 ^ n.states.length + 1

/-- the subset construction proper; returns `Dstates.Values()` as well -/
def NFA.subsets (n : NFA) : Outcome (List (List State) × DFA) :=
  match n.εClosure (mkSet [n.start]) with
  | .ok S0 =>
    match subsetLoop n n.symbols n.subsetFuel [S0] 0 (DFA.new 0 []) with
    | .ok r => .ok (r.1, { r.2 with final := subsetFinals n.final r.1 })
    | .panic => .panic
    | .diverge => .diverge
  | .panic => .panic
  | .diverge => .diverge

/-- `n.ToDFA()` -/
def NFA.toDFA (n : NFA) : Outcome DFA :=
  match n.subsets with
  | .ok r => .ok r.2
  | .panic => .panic
  | .diverge => .diverge

/-! ## partitions (`partition.go`) -/

structure Partition where
  /-- `(States, rep)` in insertion order (`set.NewStable`) -/
  groups : List (List Int × Int)
  nextRep : Int
  deriving Repr

def Partition.empty : Partition := ⟨[], 0⟩

/-- `p.Add(states)` for one group: `groups.Add` skips a group whose state set is already there, `nextRep++` regardless -/
def Partition.add (p : Partition) (states : List Int) : Partition :=
  if p.groups.any (fun g => setEq g.1 states) then ⟨p.groups, p.nextRep + 1⟩
  else ⟨p.groups ++ [(states, p.nextRep)], p.nextRep + 1⟩

/-- `p.Rep(s)` -/
def Partition.rep (p : Partition) (s : Int) : Int :=
  match p.groups.find? (fun g => g.1.contains s) with
  | some g => g.2
  | none => -1

/-- `p.Equal(rhs)` -/
def Partition.equal (p rhs : Partition) : Bool :=
  (p.groups.length == rhs.groups.length &&
    p.groups.all (fun g => rhs.groups.any (fun h => setEq h.1 g.1))) && p.nextRep == rhs.nextRep

/-- the inner part of `BuildGroupTrans` for one state: the map from symbols to the representatives of the
groups of the next states (`if rep := p.Rep(next); rep != -1 { Gstrans.Put(a, rep) }`) -/
def sigOf (p : Partition) (d : DFA) (s : State) : List (Symbol × State) :=
  match aget s d.trans with
  | some strans => strans.foldl (fun gs e => if p.rep e.2 ≠ -1 then aput e.1 (p.rep e.2) gs else gs) []
  | none => []

/-- `p.BuildGroupTrans(dfa, G)` -/
def Partition.buildGroupTrans (p : Partition) (d : DFA) (G : List State) : List (State × List (Symbol × State)) :=
  G.foldl (fun gt s => aput s (sigOf p d s) gt) []

/-- the inner `for j := 1; j < len(pairs); j++` loop -/
def collectSame (strans : List (Symbol × State)) (rest : List (State × List (Symbol × State))) (H : List State) : List State :=
  rest.foldl (fun H p => if aEqual (fun (a b : Int) => a == b) strans p.2 && !H.contains p.1 then sins p.1 H else H) H

/-- `p.PartitionAndAddGroups(Gtrans)` -/
def Partition.partitionAndAddGroups (p : Partition) (pairs : List (State × List (Symbol × State))) : Partition :=
  pairs.foldl (fun p pr =>
    if p.rep pr.1 = -1 then p.add (collectSame pr.2 (pairs.drop 1) (mkSet [pr.1])) else p) p

/-- one round: `Πnew` from `Π` -/
def refine (d : DFA) (P : Partition) : Partition :=
  P.groups.foldl (fun Pn G => Pn.partitionAndAddGroups (P.buildGroupTrans d G.1)) Partition.empty

/-- the `for { … if Πnew.Equal(Π) { break }; Π = Πnew }` loop -/
def refineLoop (d : DFA) : Nat → Partition → Outcome Partition
  | 0, _ => .diverge
  | fuel + 1, P => if (refine d P).equal P then .ok P else refineLoop d fuel (refine d P)

/-- step 4 of `Minimize`: build the DFA from the final partition -/
def buildMin (d : DFA) (P : Partition) : DFA :=
  let start := P.rep d.start
  let final := d.final.foldl (fun acc f => sins (P.rep f) acc) []
  P.groups.foldl (fun dfa G =>
    let s := G.1.headD 0   -- `FirstMatch(true)`; the zero value when the group is empty
    match aget s d.trans with
    | some v => v.foldl (fun dfa e => dfa.add G.2 e.1 (P.rep e.2)) dfa
    | none => dfa) ⟨start, final, []⟩

def DFA.minimizeFuel (d : DFA) : Nat := d.states.length + 3

/-- step 1 of `Minimize`: `Π.Add(NF, F)` -/
def DFA.initPartition (d : DFA) : Partition :=
  (Partition.empty.add (sdiff d.states d.final)).add d.final

/-- steps 2–3 of `Minimize`: the final partition -/
def DFA.minimizePartition (d : DFA) : Outcome Partition :=
  refineLoop d d.minimizeFuel d.initPartition

/-- `d.Minimize()` -/
def DFA.minimize (d : DFA) : Outcome DFA :=
  match d.minimizePartition with
  | .ok P => .ok (buildMin d P)
  | .panic => .panic
  | .diverge => .diverge

/-- the transition function as an `Option` (`Next` without the `-1` convention); used by the proofs and by `stableB` -/
def DFA.δ (d : DFA) (s a : Int) : Option Int :=
  match aget s d.trans with
  | some st => aget a st
  | none => none

/-- self-check evaluated by the driver on the final partition of every `min` op: the partition covers the
states, never mixes accepting and non-accepting states, and is closed block-wise under the transition
function (`Proofs/C13Min.lean`: `stable_of_stableB`, `buildMin_lang`). -/
def stableB (d : DFA) (P : Partition) : Bool :=
  d.states.all (fun s => P.rep s != -1) &&
  d.states.all (fun s => d.states.all (fun t => P.rep s != P.rep t ||
    ((d.final.contains s == d.final.contains t) &&
      d.symbols.all (fun a => (d.δ s a).map P.rep == (d.δ t a).map P.rep)))) &&
  P.groups.all (fun G => (G.1.isEmpty && d.states.all (fun s => P.rep s != G.2)) ||
    (d.states.contains (G.1.headD 0) && P.rep (G.1.headD 0) == G.2))

/-! ## EliminateDeadStates -/

/-- step 1: the reversed graph `adj[t] ∋ s` -/
def DFA.revAdj (d : DFA) : List (State × List State) :=
  d.trans.foldl (fun adj st => st.2.foldl (fun adj e => aput e.2 (sins st.1 ((aget e.2 adj).getD [])) adj) adj) []

/-- `dfs(adj, visited, s)`; `vis` is the set of states with `visited[s] == true` -/
def dfs (adj : List (State × List State)) : Nat → List State → State → Outcome (List State)
  | 0, _, _ => .diverge
  | fuel + 1, vis, s =>
    match aget s adj with
    | none => .ok (sins s vis)
    | some ts =>
      ts.foldl (fun (acc : Outcome (List State)) t =>
        match acc with
        | .ok v => if v.contains t then .ok v else dfs adj fuel v t
        | o => o) (.ok (sins s vis))

/-- `d.EliminateDeadStates()` -/
def DFA.elimDead (d : DFA) : Outcome DFA :=
  let adj := aput (-1) d.final d.revAdj
  match dfs adj (d.states.length + 2) [] (-1) with
  | .ok vis =>
    -- keys of `visited` that are still false
    let deads := (adj.map (·.1)).filter (fun s => !vis.contains s)
    .ok (d.trans.foldl (fun dfa st => st.2.foldl (fun dfa e =>
      if !deads.contains st.1 && !deads.contains e.2 then dfa.add st.1 e.1 e.2 else dfa) dfa) ⟨d.start, d.final, []⟩)
  | .panic => .panic
  | .diverge => .diverge

/-! ## ReindexStates -/

/-- the BFS loop; `visited` as a list, `queue` front first -/
def bfsLoop (d : DFA) : Nat → List State → List State → SM → Outcome SM
  | _, _, [], m => .ok m
  | 0, _, _ :: _, _ => .diverge
  | fuel + 1, visited, s :: queue, m =>
    match aget s d.trans with
    | some adj =>
      let r := adj.foldl (fun (acc : List State × List State × SM) e =>
        if acc.1.contains e.2 then acc else (e.2 :: acc.1, acc.2.1 ++ [e.2], (acc.2.2.get 0 e.2).1)) (visited, queue, m)
      bfsLoop d fuel r.1 r.2.1 r.2.2
    | none => bfsLoop d fuel visited queue m

/-- the state manager after the BFS from the start state -/
def DFA.bfsNumbering (d : DFA) : Outcome SM :=
  bfsLoop d (d.states.length + 2) [d.start] [d.start] ((SM.new (-1)).get 0 d.start).1

/-- the rebuilding part of `ReindexStates` -/
def reindexWith (d : DFA) (m : SM) : SM × DFA :=
  let start := (m.get 0 d.start).2
  let m := (m.get 0 d.start).1
  let rf := d.final.foldl (fun (acc : SM × List State) f => ((acc.1.get 0 f).1, sins (acc.1.get 0 f).2 acc.2)) (m, [])
  d.trans.foldl (fun (acc : SM × DFA) st =>
    let ss := (acc.1.get 0 st.1).2
    st.2.foldl (fun (acc : SM × DFA) e => ((acc.1.get 0 e.2).1, acc.2.add ss e.1 (acc.1.get 0 e.2).2))
      ((acc.1.get 0 st.1).1, acc.2)) (rf.1, ⟨start, rf.2, []⟩)

/-- `d.ReindexStates()` -/
def DFA.reindex (d : DFA) : Outcome DFA :=
  match d.bfsNumbering with
  | .ok m => .ok (reindexWith d m).2
  | .panic => .panic
  | .diverge => .diverge

/-! ## CombineDFA -/

/-- step 2 body: like `unionStep`, also recording `finalMap[id]` -/
def combineStep (acc : (SM × NFA) × List (List State)) (id : Nat) (nfa : NFA) : (SM × NFA) × List (List State) :=
  let r := copyTrans id nfa acc.1.1 acc.1.2
  let m := (r.1.get id nfa.start).1
  let ss := (r.1.get id nfa.start).2
  let u := r.2.add 0 E [ss]
  let r2 := nfa.final.foldl (fun (a : (SM × NFA) × List State) f =>
    (((a.1.1.get id f).1, a.1.2.add (a.1.1.get id f).2 E [1]), a.2 ++ [(a.1.1.get id f).2])) ((m, u), [])
  (r2.1, acc.2 ++ [r2.2])

/-- "Remap the final states from the union NFA to combined DFA" -/
def remapSubsets (q : List (List State)) (fm : List (List State)) : List (List State) :=
  fm.map (fun states => states.foldl (fun mapped f =>
    foldlIdx (fun mapped i S => if S.contains f then sins (i : Int) mapped else mapped) mapped q) [])

/-- `CombineDFA(ds...)` -/
def combineDFA (ds : List DFA) : Outcome (DFA × List (List State)) :=
  let ns := ds.map DFA.toNFA
  let u := foldlIdx combineStep ((SM.new 1, NFA.new 0 [1]), []) ns
  match u.1.2.subsets with
  | .ok r =>
    let fm := remapSubsets r.1 u.2
    match r.2.elimDead with
    | .ok combined =>
      match combined.bfsNumbering with
      | .ok m =>
        let rr := reindexWith combined m
        -- "Remap the final states from the old indices to new indices" (the state manager is threaded through)
        let fm2 := fm.foldl (fun (acc : SM × List (List State)) states =>
          let r := states.foldl (fun (a : SM × List State) f => ((a.1.get 0 f).1, sins (a.1.get 0 f).2 a.2)) (acc.1, [])
          (r.1, acc.2 ++ [r.2])) (rr.1, [])
        .ok (rr.2, fm2.2)
      | .panic => .panic
      | .diverge => .diverge
    | .panic => .panic
    | .diverge => .diverge
  | .panic => .panic
  | .diverge => .diverge

/-! ## Isomorphic -/

def insSorted (x : Int) : List Int → List Int
  | [] => [x]
  | y :: ys => if x ≤ y then x :: y :: ys else y :: insSorted x ys

/-- `sort.Quick3Way` on the degree slice: the sorted permutation -/
def sortInts (l : List Int) : List Int := l.foldl (fun acc x => insSorted x acc) []

/-- `totalDegrees[s]` for every state in `States()` order, then sorted -/
def NFA.sortedDegrees (n : NFA) : List Int :=
  let edges : List (State × State) := n.trans.flatMap (fun st => st.2.flatMap (fun e => e.2.map (fun t => (st.1, t))))
  sortInts (n.states.map (fun s => ((edges.filter (fun p => p.1 == s)).length + (edges.filter (fun p => p.2 == s)).length : Int)))

def DFA.sortedDegrees (d : DFA) : List Int :=
  let edges : List (State × State) := d.trans.flatMap (fun st => st.2.map (fun e => (st.1, e.2)))
  sortInts (d.states.map (fun s => ((edges.filter (fun p => p.1 == s)).length + (edges.filter (fun p => p.2 == s)).length : Int)))

def swapAt (l : List Int) (i j : Nat) : List Int :=
  match l[i]?, l[j]? with
  | some x, some y => (l.set i y).set j x
  | _, _ => l

/-- `generatePermutations(states, start, end, yield)` with `k = end − start`; returns `cont` -/
def genPerms (yield : List Int → Bool) : Nat → List Int → Nat → Bool
  | 0, states, _ => yield states
  | k + 1, states, start =>
    (List.range (k + 2)).all (fun i => genPerms yield k (swapAt states start (start + i)) (start + 1))

/-- `for i := range degrees1 { if degrees1[i] != degrees2[i] { return false } }`; `none` = index out of range -/
def degreesAgree : List Int → List Int → Option Bool
  | [], _ => some true
  | _ :: _, [] => none
  | x :: xs, y :: ys => if x ≠ y then some false else degreesAgree xs ys

/-- the bijection `states1[i] ↦ permutation[i]` applied to a state (`bijection[s]`, zero value if absent) -/
def bij (states1 perm : List State) (s : State) : State :=
  match states1.idxOf? s with
  | some i => perm.getD i 0
  | none => 0

/-- the NFA renamed along the bijection, as built inside `Isomorphic` -/
def NFA.permuted (n : NFA) (f : State → State) : NFA :=
  n.trans.foldl (fun p st => st.2.foldl (fun p e => p.add (f st.1) e.1 (e.2.map f)) p)
    (NFA.new (f n.start) (n.final.map f))

def DFA.permuted (d : DFA) (f : State → State) : DFA :=
  d.trans.foldl (fun p st => st.2.foldl (fun p e => p.add (f st.1) e.1 (f e.2)) p)
    (DFA.new (f d.start) (d.final.map f))

/-- `n.Isomorphic(rhs)` -/
def NFA.isomorphic (n rhs : NFA) : Outcome Bool :=
  if n.final.length ≠ rhs.final.length then .ok false
  else if n.states.length ≠ rhs.states.length then .ok false
  else if !setEq n.symbols rhs.symbols then .ok false
  else match degreesAgree n.sortedDegrees rhs.sortedDegrees with
    | none => .panic
    | some false => .ok false
    | some true =>
      if rhs.states.isEmpty then .ok false else
      .ok (!genPerms (fun perm => !(n.permuted (bij n.states perm)).equal rhs)
        (rhs.states.length - 1) rhs.states 0)

/-- `d.Isomorphic(rhs)` -/
def DFA.isomorphic (d rhs : DFA) : Outcome Bool :=
  if d.final.length ≠ rhs.final.length then .ok false
  else if d.states.length ≠ rhs.states.length then .ok false
  else if !setEq d.symbols rhs.symbols then .ok false
  else match degreesAgree d.sortedDegrees rhs.sortedDegrees with
    | none => .panic
    | some false => .ok false
    | some true =>
      if rhs.states.isEmpty then .ok false else
      .ok (!genPerms (fun perm => !(d.permuted (bij d.states perm)).equal rhs)
        (rhs.states.length - 1) rhs.states 0)

end AlgoVerif.C13
