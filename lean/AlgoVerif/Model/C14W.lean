import AlgoVerif.Model.C14
/-!
# Model of `graph/graph.go` — part 2: `MinimumSpanningTree` (eager Prim) and `ShortestPathTree`
(Dijkstra) over a private Model of `heap/indexed_binary.go`

* Weights are `Int`: the harness only generates integer-valued `float64` weights of small magnitude,
  on which `+` and `<` are exact; float rounding is outside the Model.
* `math.MaxFloat64` (the initial `distTo`) is `none` (= +∞): every generated weight and every sum of
  generated weights is far below it; `MaxFloat64 + w` is again `MaxFloat64` for such `w`, so a
  relaxation out of an unreached vertex never fires — as in the Model.
* The heap is `heap.NewIndexedBinary[float64, any](V, generic.NewCompareFunc[float64](), nil)`: a
  min-heap on the keys; the values are all `nil` and are not modelled.
-/
namespace AlgoVerif.C14

/-! ## indexedBinary (private copy; the public Model of the indexed heaps belongs to C05) -/

structure IHeap where
  /-- current number of items -/
  n : Nat
  /-- `heap []int`, 1-based, length cap+1 -/
  heap : Array Nat
  /-- `pos []int`, -1 = not on the heap -/
  pos : Array Int
  /-- `kvs []*KeyValue`, `none` = nil; only the key is kept -/
  kvs : Array (Option Int)
  deriving Repr

/-- `NewIndexedBinary(cap, cmp, nil)` -/
def IHeap.new (cap : Nat) : IHeap :=
  ⟨0, Array.replicate (cap + 1) 0, Array.replicate cap (-1), Array.replicate cap none⟩

/-- `generic.NewCompareFunc[float64]()` -/
def cmpKey (a b : Int) : Int := if a < b then -1 else if a > b then 1 else 0

/-- `func (h) compare(a, b int) int { i, j := h.heap[a], h.heap[b]; return cmp(h.kvs[i].Key, h.kvs[j].Key) }` -/
def IHeap.compare (h : IHeap) (a b : Nat) : Outcome Int :=
  match h.heap[a]?, h.heap[b]? with
  | some i, some j =>
    match h.kvs[i]?, h.kvs[j]? with
    | some (some ki), some (some kj) => .ok (cmpKey ki kj)
    | _, _ => .panic
  | _, _ => .panic

/-- `h.heap[i], h.heap[j] = h.heap[j], h.heap[i]; h.pos[h.heap[i]], h.pos[h.heap[j]] = i, j` -/
def IHeap.swap (h : IHeap) (i j : Nat) : Outcome IHeap :=
  match h.heap[i]?, h.heap[j]? with
  | some hi, some hj =>
    let heap := (h.heap.set! i hj).set! j hi
    match heap[i]?, heap[j]? with
    | some a, some b =>
      if a < h.pos.size ∧ b < h.pos.size then
        .ok { h with heap := heap, pos := (h.pos.set! a (i : Int)).set! b (j : Int) }
      else .panic
    | _, _ => .panic
  | _, _ => .panic

/-- `for ; k > 1 && h.compare(k/2, k) > 0; k /= 2 { h.swap(k, k/2) }` -/
def IHeap.promote : Nat → IHeap → Nat → Outcome IHeap
  | 0, _, _ => .diverge
  | fuel + 1, h, k =>
    if k > 1 then
      match h.compare (k / 2) k with
      | .ok c =>
        if c > 0 then
          match h.swap k (k / 2) with
          | .ok h' => IHeap.promote fuel h' (k / 2)
          | .panic => .panic
          | .diverge => .diverge
        else .ok h
      | .panic => .panic
      | .diverge => .diverge
    else .ok h

/-- `if j < h.n && h.compare(j+1, j) < 0 { j++ }` -/
def IHeap.smallerChild (h : IHeap) (j : Nat) : Outcome Nat :=
  if j < h.n then
    match h.compare (j + 1) j with
    | .ok c => .ok (if c < 0 then j + 1 else j)
    | .panic => .panic
    | .diverge => .diverge
  else .ok j

/-- `for j := 2*k; j <= h.n; k, j = j, 2*j { if j < h.n && compare(j+1, j) < 0 { j++ };
     if compare(k, j) < 0 { break }; swap(k, j) }` -/
def IHeap.demote : Nat → IHeap → Nat → Outcome IHeap
  | 0, _, _ => .diverge
  | fuel + 1, h, k =>
    if 2 * k ≤ h.n then
      match h.smallerChild (2 * k) with
      | .ok j =>
        match h.compare k j with
        | .ok c =>
          if c < 0 then .ok h
          else
            match h.swap k j with
            | .ok h' => IHeap.demote fuel h' j
            | .panic => .panic
            | .diverge => .diverge
        | .panic => .panic
        | .diverge => .diverge
      | .panic => .panic
      | .diverge => .diverge
    else .ok h

/-- `func (h) ContainsIndex(i int) bool { return 0 <= i && i < len(h.kvs) && h.pos[i] != -1 }` -/
def IHeap.containsIndex (h : IHeap) (i : Nat) : Outcome Bool :=
  if i < h.kvs.size then
    match h.pos[i]? with
    | some p => .ok (p != -1)
    | none => .panic
  else .ok false

def IHeap.isEmpty (h : IHeap) : Bool := h.n == 0

/-- `func (h) Insert(i int, key K, val V) bool` (the callers ignore the result) -/
def IHeap.insert (h : IHeap) (i : Nat) (key : Int) : Outcome IHeap :=
  match h.containsIndex i with
  | .panic => .panic
  | .diverge => .diverge
  | .ok c =>
    if i ≥ h.kvs.size ∨ c then .ok h
    else
      let n := h.n + 1
      if n < h.heap.size ∧ i < h.pos.size then
        let h' : IHeap := { n := n, heap := h.heap.set! n i, pos := h.pos.set! i (n : Int),
                            kvs := h.kvs.set! i (some key) }
        IHeap.promote (n + 1) h' n
      else .panic

/-- `func (h) ChangeKey(i int, key K) bool` -/
def IHeap.changeKey (h : IHeap) (i : Nat) (key : Int) : Outcome IHeap :=
  match h.containsIndex i with
  | .panic => .panic
  | .diverge => .diverge
  | .ok false => .ok h
  | .ok true =>
    match h.kvs[i]? with
    | some (some _) =>
      let h1 : IHeap := { h with kvs := h.kvs.set! i (some key) }
      match h1.pos[i]? with
      | none => .panic
      | some p =>
        if p < 0 then .panic
        else
          match IHeap.promote (p.toNat + 1) h1 p.toNat with
          | .ok h2 =>
            match h2.pos[i]? with
            | none => .panic
            | some p2 => if p2 < 0 then .panic else IHeap.demote (h2.n + 1) h2 p2.toNat
          | .panic => .panic
          | .diverge => .diverge
    | _ => .panic

/-- `func (h) Delete() (int, K, V, bool)`; `none` = heap empty (`-1, _, _, false`) -/
def IHeap.delete (h : IHeap) : Outcome (IHeap × Option (Nat × Int)) :=
  if h.n = 0 then .ok (h, none)
  else
    match h.heap[1]? with
    | none => .panic
    | some i =>
      match h.kvs[i]? with
      | none => .panic
      | some ext =>
        match h.swap 1 h.n with
        | .panic => .panic
        | .diverge => .diverge
        | .ok h1 =>
          let h2 : IHeap := { h1 with n := h1.n - 1 }
          match IHeap.demote (h2.n + 1) h2 1 with
          | .panic => .panic
          | .diverge => .diverge
          | .ok h3 =>
            if i < h3.pos.size ∧ i < h3.kvs.size then
              match ext with
              | some key => .ok ({ h3 with pos := h3.pos.set! i (-1), kvs := h3.kvs.set! i none }, some (i, key))
              | none => .panic
            else .panic

/-! ## MinimumSpanningTree (eager Prim) -/

structure MST where
  visited : Array Bool
  edgeTo : Array Edge
  /-- `none` = `math.MaxFloat64` -/
  distTo : Array (Option Int)
  pq : IHeap
  deriving Repr

/-- `a < b` where `b` may be `math.MaxFloat64` -/
def ltDist (a : Int) : Option Int → Bool
  | none => true
  | some b => decide (a < b)

/-- `if pq.ContainsIndex(w) { pq.ChangeKey(w, k) } else { pq.Insert(w, k, nil) }` -/
def IHeap.upsert (h : IHeap) (w : Nat) (k : Int) : Outcome IHeap :=
  match h.containsIndex w with
  | .ok true => h.changeKey w k
  | .ok false => h.insert w k
  | .panic => .panic
  | .diverge => .diverge

/-- the `for _, e := range g.Adj(v)` loop of `prim` -/
def primInner : List Arc → MST → Outcome MST
  | [], m => .ok m
  | x :: rest, m =>
    match m.visited[x.to]? with
    | none => .panic
    | some true => primInner rest m
    | some false =>
      match m.distTo[x.to]? with
      | none => .panic
      | some d =>
        if ltDist x.e.w d then
          if x.to < m.edgeTo.size then
            match m.pq.upsert x.to x.e.w with
            | .ok pq =>
              primInner rest { m with edgeTo := m.edgeTo.set! x.to x.e,
                                      distTo := m.distTo.set! x.to (some x.e.w), pq := pq }
            | .panic => .panic
            | .diverge => .diverge
          else .panic
        else primInner rest m

/-- `for !mst.pq.IsEmpty() { v, _, _, _ := mst.pq.Delete(); mst.visited[v] = true; … }` -/
def primLoop (g : Graph) : Nat → MST → Outcome MST
  | 0, m => if m.pq.isEmpty then .ok m else .diverge
  | fuel + 1, m =>
    if m.pq.isEmpty then .ok m
    else
      match m.pq.delete with
      | .panic => .panic
      | .diverge => .diverge
      | .ok (_, none) => .panic
      | .ok (pq, some (v, _)) =>
        if v < m.visited.size then
          -- `g.Adj(v)` returns nil for an invalid vertex
          primInner (g.adj.getD v []) { m with pq := pq, visited := m.visited.set! v true } >>= primLoop g fuel
        else .panic

/-- `func (mst *MinimumSpanningTree) prim(g, s)` -/
def prim (g : Graph) (m : MST) (s : Nat) : Outcome MST :=
  if s < m.distTo.size then
    match m.pq.insert s 0 with
    | .ok pq => primLoop g (g.n + 1) { m with distTo := m.distTo.set! s (some 0), pq := pq }
    | .panic => .panic
    | .diverge => .diverge
  else .panic

/-- `for v := 0; v < g.V(); v++ { if !mst.visited[v] { mst.prim(g, v) } }` -/
def mstOuter (g : Graph) : List Nat → MST → Outcome MST
  | [], m => .ok m
  | v :: vs, m =>
    match m.visited[v]? with
    | none => .panic
    | some true => mstOuter g vs m
    | some false =>
      match prim g m v with
      | .ok m' => mstOuter g vs m'
      | .panic => .panic
      | .diverge => .diverge

/-- `newMinimumSpanningTree(g)` -/
def Graph.minimumSpanningTree (g : Graph) : Outcome MST :=
  mstOuter g (List.range g.n)
    { visited := Array.replicate g.n false, edgeTo := Array.replicate g.n Edge.zero,
      distTo := Array.replicate g.n none, pq := IHeap.new g.n }

/-- `func (mst) Edges() []UndirectedEdge`: every `edgeTo[v]` different from the zero edge -/
def MST.edges (m : MST) : List Edge := m.edgeTo.toList.filter (· ≠ Edge.zero)

/-- `func (mst) Weight() float64` -/
def MST.weight (m : MST) : Int := m.edges.foldl (fun acc e => acc + e.w) 0

/-! ## ShortestPathTree (Dijkstra) -/

structure SPT where
  edgeTo : Array Edge
  distTo : Array (Option Int)
  pq : IHeap
  deriving Repr

/-- the `for _, e := range g.Adj(v)` loop of `dijkstra`
(`v, w := e.From(), e.To(); if dist := distTo[v] + e.Weight(); dist < distTo[w] { … }`) -/
def dijkstraInner : List Arc → SPT → Outcome SPT
  | [], t => .ok t
  | x :: rest, t =>
    match t.distTo[x.e.a]?, t.distTo[x.e.b]? with
    | some dv, some dw =>
      match dv with
      | none => dijkstraInner rest t        -- MaxFloat64 + w = MaxFloat64, never `<`
      | some dv =>
        let dist := dv + x.e.w
        if ltDist dist dw then
          if x.e.b < t.edgeTo.size then
            match t.pq.upsert x.e.b dist with
            | .ok pq =>
              dijkstraInner rest { edgeTo := t.edgeTo.set! x.e.b x.e,
                                   distTo := t.distTo.set! x.e.b (some dist), pq := pq }
            | .panic => .panic
            | .diverge => .diverge
          else .panic
        else dijkstraInner rest t
    | _, _ => .panic

/-- `for !spt.pq.IsEmpty() { v, _, _, _ := spt.pq.Delete(); … }` -/
def dijkstraLoop (g : Graph) : Nat → SPT → Outcome SPT
  | 0, t => if t.pq.isEmpty then .ok t else .diverge
  | fuel + 1, t =>
    if t.pq.isEmpty then .ok t
    else
      match t.pq.delete with
      | .panic => .panic
      | .diverge => .diverge
      | .ok (_, none) => .panic
      | .ok (pq, some (v, _)) =>
        dijkstraInner (g.adj.getD v []) { t with pq := pq } >>= dijkstraLoop g fuel

/-- `newShortestPathTree(g, s)`.  Fuel `fuel` = number of `Delete`s allowed; `g.n + 1` suffices when no
weight is negative (each vertex is deleted at most once). -/
def Graph.shortestPathTreeFuel (g : Graph) (fuel : Nat) (s : Int) : Outcome SPT :=
  let t : SPT := { edgeTo := Array.replicate g.n Edge.zero, distTo := Array.replicate g.n none,
                   pq := IHeap.new g.n }
  if 0 ≤ s ∧ s.toNat < t.distTo.size then
    match t.pq.insert s.toNat 0 with
    | .ok pq => dijkstraLoop g fuel { t with distTo := t.distTo.set! s.toNat (some 0), pq := pq }
    | .panic => .panic
    | .diverge => .diverge
  else .panic

def Graph.shortestPathTree (g : Graph) (s : Int) : Outcome SPT :=
  g.shortestPathTreeFuel (g.n + 1) s

/-- `for e := spt.edgeTo[v]; e != zero; e = spt.edgeTo[e.From()] { stack.Push(e) }` (stack top first) -/
def SPT.pathLoop (t : SPT) : Nat → Edge → List Edge → Outcome (List Edge)
  | 0, _, _ => .diverge
  | fuel + 1, e, stk =>
    if e = Edge.zero then .ok stk
    else
      match t.edgeTo[e.a]? with
      | none => .panic
      | some e' => t.pathLoop fuel e' (e :: stk)

/-- `func (spt) PathTo(v int) ([]DirectedEdge, float64, bool)`; `none` = `(nil, -1, false)` -/
def SPT.pathTo (t : SPT) (v : Int) : Outcome (Option (List Edge × Int)) :=
  if 0 ≤ v then
    match t.distTo[v.toNat]? with
    | none => .panic
    | some none => .ok none
    | some (some d) =>
      match t.edgeTo[v.toNat]? with
      | none => .panic
      | some e =>
        match t.pathLoop (t.edgeTo.size + 1) e [] with
        | .ok stk => .ok (some (stk, d))
        | .panic => .panic
        | .diverge => .diverge
  else .panic

end AlgoVerif.C14
