import AlgoVerif.Model.C16
/-!
# Model of the `format` field of `set/set.go`, `set/stable.go`, `set/sorted.go` (+ `set/format.go`)

`Model/C16.lean` describes a set object by its callback and its `members` slice.  The Go structs have a
third field, `format StringFormat[T]`, that only `String()` reads:

* `New` / `NewStable` / `NewSorted` store `defaultStringFormat[T]` (`format.go`),
* `NewWithFormat` / `NewStableWithFormat` / `NewSortedWithFormat` store their `format` argument,
* `Clone` and `CloneEmpty` copy `s.format` into the new object,
* no other method assigns it: `Add`, `Remove`, `RemoveAll` assign only `s.members`; `Union`, `Difference`
  return the `Clone()` they filled, `Intersection`, `SelectMatch`, `PartitionMatch` the `CloneEmpty()` they
  filled — so every result carries the **receiver's** format, whatever the operands' formats are.

Here a set object is a `FmtSet`: the `MSet` of `Model/C16.lean` plus the format, an arbitrary function from the
member slice to a string (`StringFormat`).  Each definition below is the Go method with the lines that touch
`format` written out; the member slice is computed by the functions of `Model/C16.lean` (the loops are not
repeated).  `stepX` is the register machine the line-protocol driver runs: `C16.stepOp` extended by the
constructors with initial values and a format, and by `String()`; `Props/C16.lean` proves that forgetting the
formats turns it into `C16.stepOp` step by step (`C16_format_is_ghost_state`), so every theorem about histories
of the functional Model holds for histories with formats.
-/
namespace AlgoVerif.C16

variable {α : Type} {σ : Type}

/-- `type StringFormat[T any] func([]T) string` -/
abbrev StringFormat (α : Type) := List α → String

/-- `format.go`: `vals[i] = fmt.Sprintf("%v", m)`; `fmt.Sprintf("{%s}", strings.Join(vals, ", "))`
(`pv` is `%v` of a member) -/
def defaultStringFormat (pv : α → String) : StringFormat α :=
  fun members => "{" ++ ", ".intercalate (members.map pv) ++ "}"

/-- a set object with all three fields: `members` + callback (`set`) and `format` -/
structure FmtSet (α : Type) where
  set : MSet α
  format : StringFormat α

/-- `func (s *set[T]) String() string { return s.format(s.members) }` -/
def FmtSet.string (s : FmtSet α) : String := s.format s.set.members

/-- `Add` assigns `s.members` only -/
def FmtSet.add (s : FmtSet α) (vs : List α) : Outcome (FmtSet α) := do
  let m ← s.set.add vs
  return { s with set := m }

/-- `Remove` assigns `s.members` only -/
def FmtSet.remove (s : FmtSet α) (vs : List α) : Outcome (FmtSet α) := do
  let m ← s.set.remove vs
  return { s with set := m }

/-- `RemoveAll`: `s.members = make([]T, 0)` -/
def FmtSet.removeAll (s : FmtSet α) : FmtSet α := { s with set := s.set.removeAll }

/-- `NewWithFormat` / `NewStableWithFormat` / `NewSortedWithFormat`:
`s := &set[T]{members: make([]T, 0), equal: equal, format: format}; s.Add(vals...); return s` -/
def FmtSet.newWithFormat (impl : Impl α) (format : StringFormat α) (vals : List α) : Outcome (FmtSet α) :=
  (FmtSet.mk (MSet.new impl) format).add vals

/-- `New` / `NewStable` / `NewSorted`: the same with `format: defaultStringFormat[T]` -/
def FmtSet.new (pv : α → String) (impl : Impl α) (vals : List α) : Outcome (FmtSet α) :=
  (FmtSet.mk (MSet.new impl) (defaultStringFormat pv)).add vals

/-- `Clone`: `t := &set[T]{members: make(…), equal: s.equal, format: s.format}; copy(…)` -/
def FmtSet.clone (s : FmtSet α) : FmtSet α := { set := s.set.clone, format := s.format }

/-- `CloneEmpty`: `&set[T]{members: make([]T, 0), equal: s.equal, format: s.format}` -/
def FmtSet.cloneEmpty (s : FmtSet α) : FmtSet α := { set := s.set.cloneEmpty, format := s.format }

/-- `t := s.Clone(); for _, set := range sets { for m := range set.All() { t.Add(m) } }; return t`
(the operands are only asked for `All()`: their formats are never read) -/
def FmtSet.union (sh : Shuffle σ) (s : FmtSet α) (sets : List (FmtSet α)) (g : σ) : Outcome (FmtSet α × σ) := do
  let t := s.clone
  let (m, g) ← unionLoop sh t.set (sets.map (·.set)) g
  return ({ t with set := m }, g)

/-- `t := s.CloneEmpty(); for _, m := range s.members { if isInAll { t.Add(m) } }; return t` -/
def FmtSet.intersection (s : FmtSet α) (sets : List (FmtSet α)) : Outcome (FmtSet α) := do
  let t := s.cloneEmpty
  let m ← interLoop (sets.map (·.set)) t.set s.set.members
  return { t with set := m }

/-- `t := s.Clone(); for _, set := range sets { for m := range set.All() { t.Remove(m) } }; return t` -/
def FmtSet.difference (sh : Shuffle σ) (s : FmtSet α) (sets : List (FmtSet α)) (g : σ) : Outcome (FmtSet α × σ) := do
  let t := s.clone
  let (m, g) ← diffLoop sh t.set (sets.map (·.set)) g
  return ({ t with set := m }, g)

/-- `matched := s.CloneEmpty(); for _, m := range s.members { if p(m) { matched.Add(m) } }; return matched` -/
def FmtSet.selectMatch (s : FmtSet α) (p : α → Bool) : Outcome (FmtSet α) := do
  let matched := s.cloneEmpty
  let m ← selectLoop p matched.set s.set.members
  return { matched with set := m }

/-- `matched := s.CloneEmpty(); unmatched := s.CloneEmpty(); for … ; return matched, unmatched` -/
def FmtSet.partitionMatch (s : FmtSet α) (p : α → Bool) : Outcome (FmtSet α × FmtSet α) := do
  let matched := s.cloneEmpty
  let unmatched := s.cloneEmpty
  let (m, u) ← partitionLoop p matched.set unmatched.set s.set.members
  return ({ matched with set := m }, { unmatched with set := u })

/-! ## Powerset, Partitions

`Powerset(s)`: the container is `New[Set[T]](setEqFunc)` — default format, whose `%v` of a member is that
member's own `String()`; every member is `s.CloneEmpty()` or `head.Union(subset)` with
`head := s.CloneEmpty()`, hence has the format of `s`.  `Partitions(s)`: the outer container and every
partition `Q` are `New(…)` — default format; every block is `head.Clone()`, `head.Union(Pmembers[i])` or a block
of the recursive result for `tail := s.CloneEmpty()`, hence has the format of `s`.

The members (and their stored order) are those of `MSet.powerset` / `MSet.partitions`; the formats are attached
by this rule, not threaded through the recursion.  The rule is justified by `FmtSet.cloneEmpty`, `FmtSet.clone`,
`FmtSet.union` above (`C16_format_of_result_is_receivers`) and compared with `Powerset(s).String()` /
`Partitions(s).String()` of the Go code on every run. -/

/-- `setEqFunc` / `partEqFunc` on set objects with a format: `a.Equal(b)` does not look at it -/
def fmtSetEqFunc {β : Type} : EqualFunc (FmtSet β) := fun a b => a.set.equal b.set

def FmtSet.powerset (sh : Shuffle σ) (s : FmtSet α) (g : σ) : Outcome (FmtSet (FmtSet α) × σ) := do
  let (PS, g) ← s.set.powerset sh g
  return ({ set := { impl := .unordered fmtSetEqFunc, members := PS.members.map fun m => { set := m, format := s.format } },
            format := defaultStringFormat FmtSet.string }, g)

def FmtSet.partitions (sh : Shuffle σ) (s : FmtSet α) (g : σ) : Outcome (FmtSet (FmtSet (FmtSet α)) × σ) := do
  let (Ps, g) ← s.set.partitions sh g
  let block (b : MSet α) : FmtSet α := { set := b, format := s.format }
  let part (Q : MSet (MSet α)) : FmtSet (FmtSet α) :=
    { set := { impl := .unordered fmtSetEqFunc, members := Q.members.map block },
      format := defaultStringFormat FmtSet.string }
  return ({ set := { impl := .unordered fmtSetEqFunc, members := Ps.members.map part },
            format := defaultStringFormat FmtSet.string }, g)

/-! ## the register machine with formats -/

/-- `C16.Op` plus the constructors with initial values / a format, and `String()` -/
inductive OpX (α : Type) where
  | base (op : Op α)
  /-- `New(callback, vals...)` / `NewStable` / `NewSorted` into register `d` -/
  | newWith (d : Nat) (impl : Impl α) (vals : List α)
  /-- `NewWithFormat(callback, format, vals...)` / `NewStableWithFormat` / `NewSortedWithFormat` -/
  | newWithFormat (d : Nat) (impl : Impl α) (format : StringFormat α) (vals : List α)
  | string (i : Nat)

abbrev StateX (α σ : Type) := List (FmtSet α) × σ

/-- forget the formats -/
def eraseX (st : StateX α σ) : RegState α σ := (st.1.map (·.set), st.2)

def getRegsX (regs : List (FmtSet α)) : List Nat → Option (List (FmtSet α))
  | [] => some []
  | j :: js =>
    match regs[j]?, getRegsX regs js with
    | some s, some ss => some (s :: ss)
    | _, _ => none

/-- one operation: new state, what `C16.stepOp` lets the caller see, and the `String()` of every set object
the call returned (resp. of the register, for `string`) -/
def stepX (sh : Shuffle σ) (pv : α → String) (st : StateX α σ) : OpX α → Outcome (StateX α σ × Obs α × List String)
  | .base (.add i vs) =>
    match st.1[i]? with
    | none => .ok (st, .bad, [])
    | some s => do let s ← s.add vs; return ((st.1.set i s, st.2), .unit, [])
  | .base (.remove i vs) =>
    match st.1[i]? with
    | none => .ok (st, .bad, [])
    | some s => do let s ← s.remove vs; return ((st.1.set i s, st.2), .unit, [])
  | .base (.removeAll i) =>
    match st.1[i]? with
    | none => .ok (st, .bad, [])
    | some s => .ok ((st.1.set i s.removeAll, st.2), .unit, [])
  | .base (.clone d i) =>
    match st.1[i]? with
    | some s => if d < st.1.length then .ok ((st.1.set d s.clone, st.2), .unit, []) else .ok (st, .bad, [])
    | none => .ok (st, .bad, [])
  | .base (.cloneEmpty d i) =>
    match st.1[i]? with
    | some s => if d < st.1.length then .ok ((st.1.set d s.cloneEmpty, st.2), .unit, []) else .ok (st, .bad, [])
    | none => .ok (st, .bad, [])
  | .base (.new d impl) =>
    if d < st.1.length then .ok ((st.1.set d ⟨MSet.new impl, defaultStringFormat pv⟩, st.2), .unit, [])
    else .ok (st, .bad, [])
  | .base (.union d i js) =>
    match st.1[i]?, getRegsX st.1 js with
    | some s, some sets =>
      if d < st.1.length then do
        let (t, g) ← s.union sh sets st.2
        return ((st.1.set d t, g), .elems t.set.members, [t.string])
      else .ok (st, .bad, [])
    | _, _ => .ok (st, .bad, [])
  | .base (.inter d i js) =>
    match st.1[i]?, getRegsX st.1 js with
    | some s, some sets =>
      if d < st.1.length then do
        let t ← s.intersection sets
        return ((st.1.set d t, st.2), .elems t.set.members, [t.string])
      else .ok (st, .bad, [])
    | _, _ => .ok (st, .bad, [])
  | .base (.diff d i js) =>
    match st.1[i]?, getRegsX st.1 js with
    | some s, some sets =>
      if d < st.1.length then do
        let (t, g) ← s.difference sh sets st.2
        return ((st.1.set d t, g), .elems t.set.members, [t.string])
      else .ok (st, .bad, [])
    | _, _ => .ok (st, .bad, [])
  | .base (.select d i p) =>
    match st.1[i]? with
    | some s =>
      if d < st.1.length then do
        let t ← s.selectMatch p
        return ((st.1.set d t, st.2), .elems t.set.members, [t.string])
      else .ok (st, .bad, [])
    | none => .ok (st, .bad, [])
  | .base (.partitionM d e i p) =>
    match st.1[i]? with
    | some s =>
      if d < st.1.length ∧ e < st.1.length then do
        let (t, u) ← s.partitionMatch p
        return (((st.1.set d t).set e u, st.2), .elems2 t.set.members u.set.members, [t.string, u.string])
      else .ok (st, .bad, [])
    | none => .ok (st, .bad, [])
  -- the operations that neither create nor change a set object: the functional ones on the member slices
  | .base op => do
    let (r, obs) ← C16.stepOp sh (eraseX st) op
    return ((st.1, r.2), obs, [])
  | .newWith d impl vals =>
    if d < st.1.length then do
      let s ← FmtSet.new pv impl vals
      return ((st.1.set d s, st.2), .unit, [])
    else .ok (st, .bad, [])
  | .newWithFormat d impl format vals =>
    if d < st.1.length then do
      let s ← FmtSet.newWithFormat impl format vals
      return ((st.1.set d s, st.2), .unit, [])
    else .ok (st, .bad, [])
  | .string i =>
    match st.1[i]? with
    | none => .ok (st, .bad, [])
    | some s => .ok (st, .unit, [s.string])

def runX (sh : Shuffle σ) (pv : α → String) : List (OpX α) → StateX α σ →
    Outcome (StateX α σ × List (Obs α × List String))
  | [], st => .ok (st, [])
  | op :: ops, st => do
    let (st, o) ← stepX sh pv st op
    let (st, os) ← runX sh pv ops st
    return (st, o :: os)

/-- the operations of `C16.Op` an extended operation amounts to once the formats are forgotten:
a constructor with initial values is `New` followed by `Add(vals...)`; `String()` changes nothing -/
def OpX.lower : OpX α → List (Op α)
  | .base op => [op]
  | .newWith d impl vals => [.new d impl, .add d vals]
  | .newWithFormat d impl _ vals => [.new d impl, .add d vals]
  | .string _ => []

end AlgoVerif.C16
