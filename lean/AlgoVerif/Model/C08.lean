import AlgoVerif.Model.GrammarCore
import AlgoVerif.Generated.C08Suffixes
/-!
# Model of the CFG transformations of `/repo/grammar/cfg.go` (shared by C08 and C09)

Mirrors, over `SGrammar` (names are strings; sets are duplicate-free lists):

* `NullableNonTerminals`, `EliminateEmptyProductions`, `EliminateSingleProductions` (with its closure loop),
  `EliminateUnreachableProductions`, `EliminateCycles`, `OrderNonTerminals` (with `cmpProduction` /
  `cmpString`), `EliminateLeftRecursion`, `LeftFactor` + `groupByCommonPrefix`,
  `eliminateStartSymbolFromRight` (START), `eliminateNonSolitaryTerminals` (TERM),
  `eliminateNonBinaryProductions` (BIN), `ChomskyNormalForm`, `AddNewNonTerminal` and
  `removeNonTerminalsWithoutProductions`.

Iteration order.  The Go code ranges over shuffled sets and hash tables.  In every transformation
modelled here the *result* does not depend on that order for hygienic grammars
(`Spec/C08.lean: Hygienic` — no declared name ends in a suffix `AddNewNonTerminal` appends), because

* the ε-, unit- and unreachable-elimination and the pruning compute order-independent sets (least fixpoints);
* `EliminateLeftRecursion`, `LeftFactor` and BIN walk the non-terminals / alternatives / prefix groups in
  an order obtained by *sorting* (`OrderNonTerminals`, `OrderProductionSet`, `cmpString`), which the
  Model reproduces; fresh names are drawn per base name, so the order in which different base names are
  served is irrelevant;
* TERM names the fresh non-terminal of terminal `t` after `t` alone.

So the Model walks lists front to back and the driver prints the canonical (sorted) rendering
`showGrammar`; implementation and Model lines are compared byte for byte.

Outcomes.  `panic`: `AddNewNonTerminal` ran out of suffixes (Go: explicit `panic`), or the Go code
would call a method on the nil set returned by `Productions.Get` / write to a nil map (only for
grammars that fail `Verify()`).  `diverge`: a repeat-until-no-change loop ran out of fuel (the fuel is
an upper bound on the number of passes whenever the loop is monotone and bounded; `LeftFactor`'s outer
loop has no such a-priori bound and gets plain fuel).
-/
namespace AlgoVerif.C08
open AlgoVerif AlgoVerif.Gram

abbrev G := SGrammar

/-! ## sets as duplicate-free lists -/

/-- `set.Add` of one value -/
def ins {α : Type} [DecidableEq α] (l : List α) (x : α) : List α := if x ∈ l then l else l ++ [x]

/-- `set.Add(vals...)` -/
def insAll {α : Type} [DecidableEq α] (l : List α) (xs : List α) : List α := xs.foldl ins l

/-- drop later duplicates (what `NewCFG` does by adding to sets) -/
def dedup {α : Type} [DecidableEq α] (l : List α) : List α := insAll [] l

/-- `NewCFG`: terminals, non-terminals and productions become sets -/
def normalize (g : G) : G :=
  { terms := dedup g.terms, nonterms := dedup g.nonterms, prods := dedup g.prods, start := g.start }

/-- repeat `f` until a pass changes nothing; `none` when the fuel runs out -/
def iterFix {α : Type} [DecidableEq α] (f : α → α) : Nat → α → Option α
  | 0, _ => none
  | n + 1, x => let y := f x; if y = x then some x else iterFix f n y

def ofOpt {α : Type} : Option α → Outcome α
  | some a => .ok a
  | none => .diverge

/-! ## production predicates (`grammar/production.go`) -/

def isNT : SSym → Bool
  | .nonterm _ => true
  | .term _ => false

/-- `IsSingle`: body is one non-terminal -/
def isSingle (p : SProd) : Bool :=
  match p.body with
  | [.nonterm _] => true
  | _ => false

/-- `IsLeftRecursive`: body starts with the head -/
def isLeftRec (p : SProd) : Bool :=
  match p.body with
  | .nonterm n :: _ => n = p.head
  | _ => false

/-- `IsCNF` first component: `A → B C` -/
def isBinary (p : SProd) : Bool :=
  match p.body with
  | [.nonterm _, .nonterm _] => true
  | _ => false

/-- `IsCNF` second component: `A → a` -/
def isTerminalProd (p : SProd) : Bool :=
  match p.body with
  | [.term _] => true
  | _ => false

def prodsOf (ps : List SProd) (A : String) : List SProd := ps.filter (fun p => p.head = A)

/-- `Productions.Get(n) != nil` -/
def hasProd (ps : List SProd) (n : String) : Bool := ps.any (fun p => p.head = n)

/-- `String.NonTerminals()` -/
def bodyNTs (b : List SSym) : List String :=
  b.filterMap fun s => match s with
    | .nonterm n => some n
    | .term _ => none

def sizeOf (g : G) : Nat := g.nonterms.length + g.prods.foldl (fun a p => a + p.body.length + 1) 0

/-! ## `AddNewNonTerminal` -/

/-- `strings.TrimSuffix` -/
def trimSuffix (p s : String) : String :=
  let pl := p.toList
  let sl := s.toList
  if sl.isSuffixOf pl then String.ofList (pl.take (pl.length - sl.length)) else p

/-- the name `AddNewNonTerminal(pre, sufs...)` picks, `none` when every candidate is taken -/
def freshName (nonterms : List String) (pre : String) (sufs : List String) : Option String :=
  let base := sufs.foldl trimSuffix pre
  (sufs.map (fun s => base ++ s)).find? (fun n => decide (n ∉ nonterms))

def addNew (g : G) (pre : String) (sufs : List String) : Outcome (G × String) :=
  match freshName g.nonterms pre sufs with
  | some n => .ok ({ g with nonterms := g.nonterms ++ [n] }, n)
  | none => .panic

def primes : List String := Generated.grammar_primeSuffixes
def alphas : List String := Generated.grammar_alphabeticSuffixes
def numerics : List String := Generated.grammar_numericSuffixes

/-! ## `removeNonTerminalsWithoutProductions` -/

def pruneStep (g : G) : Option G :=
  match g.nonterms.find? (fun n => n ≠ g.start && !hasProd g.prods n) with
  | none => none
  | some n => some { g with
      nonterms := g.nonterms.filter (fun m => m ≠ n),
      prods := g.prods.filter (fun p => !(p.body.contains (.nonterm n))) }

def pruneN : Nat → G → G
  | 0, g => g
  | k + 1, g =>
    match pruneStep g with
    | none => g
    | some g' => pruneN k g'

/-- every step removes a declared non-terminal, so `nonterms.length` steps always suffice -/
def prune (g : G) : G := pruneN g.nonterms.length g

/-! ## `NullableNonTerminals` -/

def bodyAllIn (nul : List String) (b : List SSym) : Bool :=
  b.all fun s => match s with
    | .nonterm n => decide (n ∈ nul)
    | .term _ => false

def nullablePass (ps : List SProd) (nul : List String) : List String :=
  ps.foldl (fun nul p => if p.head ∈ nul then nul else if bodyAllIn nul p.body then nul ++ [p.head] else nul) nul

def nullable (g : G) : Outcome (List String) :=
  ofOpt (iterFix (nullablePass g.prods) (g.prods.length + 2) [])

/-! ## `EliminateEmptyProductions` -/

/-- all ways of keeping or dropping the nullable non-terminals of a body -/
def expandBody (nul : List String) (body : List SSym) : List (List SSym) :=
  body.foldl (fun bodies sym =>
    let nn : Bool := match sym with
      | .nonterm n => decide (n ∈ nul)
      | .term _ => false
    bodies.flatMap (fun β => if nn then [β, β ++ [sym]] else [β ++ [sym]])) [[]]

def emptyFreeProds (nul : List String) (ps : List SProd) : List SProd :=
  ps.foldl (fun acc p =>
    if p.body.isEmpty then acc
    else (expandBody nul p.body).foldl (fun acc β => if β.isEmpty then acc else ins acc { head := p.head, body := β }) acc) []

def elimEmpty (g : G) : Outcome G := do
  let nul ← nullable g
  let g1 : G := { g with prods := emptyFreeProds nul g.prods }
  if g.start ∈ nul then
    let (g2, s') ← addNew g1 g.start primes
    pure (prune { g2 with start := s',
                          prods := ins (ins g2.prods { head := s', body := [.nonterm g.start] }) { head := s', body := [] } })
  else
    pure (prune g1)

/-! ## `EliminateSingleProductions` -/

def unitTargets (ps : List SProd) (A : String) : List String :=
  ps.filterMap fun p =>
    if p.head = A then
      match p.body with
      | [.nonterm b] => some b
      | _ => none
    else none

abbrev Closure := List (String × List String)

def closureInit (g : G) : Closure :=
  g.nonterms.map fun A => (A, insAll [A] (unitTargets g.prods A))

def closurePass (cl : Closure) : Closure :=
  cl.map fun (A, cA) => (A, cA.foldl (fun acc B => insAll acc ((cl.lookup B).getD [])) cA)

def closureOf (g : G) : Outcome Closure :=
  ofOpt (iterFix closurePass ((g.nonterms.length + g.prods.length + 2) * (g.nonterms.length + g.prods.length + 2)) (closureInit g))

def elimSingle (g : G) : Outcome G :=
  -- `closure[A][B] = true` writes to a nil map when the head of a unit production is not declared
  if g.prods.any (fun p => isSingle p && decide (p.head ∉ g.nonterms)) then Outcome.panic else
  (closureOf g).bind fun cl =>
  -- `g.Productions.Get(B).All()` on the nil set of a non-terminal without productions
  if cl.any (fun e => e.2.any (fun B => !hasProd g.prods B)) then Outcome.panic else
  let ps := cl.foldl (fun acc e =>
      e.2.foldl (fun acc B =>
        (prodsOf g.prods B).foldl (fun acc p => if isSingle p then acc else ins acc { head := e.1, body := p.body }) acc) acc) []
  Outcome.ok (prune { g with prods := ps })

/-! ## `EliminateUnreachableProductions` -/

def reachPass (ps : List SProd) (r : List String) : List String :=
  ps.foldl (fun r p => if p.head ∈ r then insAll r (bodyNTs p.body) else r) r

def reachable (g : G) : Outcome (List String) :=
  ofOpt (iterFix (reachPass g.prods) (sizeOf g + 2) [g.start])

def elimUnreachable (g : G) : Outcome G := do
  let r ← reachable g
  let ps := g.prods.filter (fun p => decide (p.head ∈ r))
  pure { terms := g.terms.filter (fun t => ps.any (fun p => p.body.contains (.term t))),
         nonterms := r, prods := ps, start := g.start }

/-! ## `EliminateCycles` -/

def elimCycles (g : G) : Outcome G := do
  let g1 ← elimEmpty g
  let g2 ← elimSingle g1
  elimUnreachable g2

/-! ## `OrderNonTerminals` (with `cmpProduction`, `cmpString`) -/

/-- `Terminal.String()` is `$` for the reserved endmarker and `%q` of the name otherwise; for names without
quotes, backslashes and control characters that is the name between double quotes -/
def symStr : SSym → String
  | .term t => if t = Generated.grammar_endmarkerName then "$" else "\"" ++ t ++ "\""
  | .nonterm n => n

/-- `String[Symbol].String()` -/
def bodyStr (b : List SSym) : String :=
  if b.isEmpty then "ε" else " ".intercalate (b.map symStr)

def countNT (b : List SSym) : Nat := (b.filter isNT).length
def countT (b : List SSym) : Nat := (b.filter (fun s => !isNT s)).length

/-- `cmpString`: more non-terminals first, then more terminals, then the rendering -/
def bodyLt (l r : List SSym) : Bool :=
  if countNT l > countNT r then true
  else if countNT r > countNT l then false
  else if countT l > countT r then true
  else if countT r > countT l then false
  else decide (bodyStr l < bodyStr r)

/-- `cmpProduction` -/
def prodLt (l r : SProd) : Bool :=
  if l.head < r.head then true
  else if r.head < l.head then false
  else bodyLt l.body r.body

def insertBy {α : Type} (lt : α → α → Bool) (x : α) : List α → List α
  | [] => [x]
  | y :: ys => if lt x y then x :: y :: ys else y :: insertBy lt x ys

def sortBy {α : Type} (lt : α → α → Bool) (l : List α) : List α := l.foldl (fun acc x => insertBy lt x acc) []

def visitPass (sorted : List SProd) (visited : List String) : List String :=
  sorted.foldl (fun v p => if p.head ∈ v then insAll v (bodyNTs p.body) else v) visited

/-- third result of `OrderNonTerminals`: visited (discovery order over the sorted productions) then the
rest alphabetically -/
def orderNT (g : G) : Outcome (List String) := do
  let sorted := sortBy prodLt g.prods
  let visited ← ofOpt (iterFix (visitPass sorted) (sizeOf g + 2) [g.start])
  let unvisited := sortBy (fun a b => decide (a < b)) (g.nonterms.filter (fun n => decide (n ∉ visited)))
  pure (visited ++ unvisited)

/-! ## `EliminateLeftRecursion` -/

/-- replace `Aᵢ → Aⱼ γ` by `Aᵢ → δ γ` for all current `Aⱼ → δ`.  (Go removes and adds production by
production over a shuffled copy; as `Aⱼ ≠ Aᵢ` and no `δ γ` starts with `Aⱼ` once `Aⱼ` has been processed,
that equals removing all of them first.) -/
def lrSubst (g : G) (Ai Aj : String) : G :=
  let AiP := prodsOf g.prods Ai
  let AjP := prodsOf g.prods Aj
  if AiP.isEmpty || AjP.isEmpty then g else
  let AiAj := AiP.filter (fun p => match p.body with
    | .nonterm n :: _ => n = Aj
    | _ => false)
  let rest := g.prods.filter (fun p => decide (p ∉ AiAj))
  let added := AiAj.flatMap (fun p => AjP.map (fun q => ({ head := Ai, body := q.body ++ p.body.tail } : SProd)))
  { g with prods := insAll rest added }

/-- immediate left recursion of `A`: `A → β A′`, `A′ → α A′ | ε` -/
def lrImmediate (g : G) (A : String) : Outcome G :=
  let AP := prodsOf g.prods A
  if AP.any isLeftRec then do
    let (g1, A') ← addNew g A primes
    let lr := AP.filter isLeftRec
    let nlr := AP.filter (fun p => !isLeftRec p)
    let rest := g1.prods.filter (fun p => p.head ≠ A)
    let ps := insAll rest (nlr.map (fun p => ({ head := A, body := p.body ++ [.nonterm A'] } : SProd)))
    let ps := insAll ps (lr.map (fun p => ({ head := A', body := p.body.tail ++ [.nonterm A'] } : SProd)))
    pure { g1 with prods := ins ps { head := A', body := [] } }
  else pure g

def lrLoop : List String → List String → G → Outcome G
  | _, [], g => pure g
  | done, Ai :: rest, g => do
    let g1 := done.foldl (fun g Aj => lrSubst g Ai Aj) g
    let g2 ← lrImmediate g1 Ai
    lrLoop (done ++ [Ai]) rest g2

def elimLeftRec (g : G) : Outcome G := do
  let g0 ← elimCycles g
  let nts ← orderNT g0
  let g1 ← lrLoop [] nts g0
  pure (prune g1)

/-! ## `LeftFactor` and `groupByCommonPrefix` -/

abbrev Groups := List (List SSym × List (List SSym))

/-- every prefix key is the first symbol of a body (or ε for the ε-production), so grouping is by first
symbol whatever the iteration order -/
def groupsOf (AP : List SProd) : Groups :=
  AP.foldl (fun gs p =>
    let k := p.body.take 1
    let s := p.body.drop 1
    if gs.any (fun e => e.1 = k) then gs.map (fun e => if e.1 = k then (e.1, ins e.2 s) else e)
    else gs ++ [(k, [s])]) []

/-- one non-terminal of one pass; the flag says whether the grammar changed -/
def lfHead (g : G) (A : String) : Outcome (G × Bool) :=
  let AP := prodsOf g.prods A
  if AP.isEmpty then pure (g, false) else
  let gs := groupsOf AP
  let pg := gs.filter (fun e => e.2.length ≥ 2)
  let ag := gs.filter (fun e => e.2.length = 1)
  if pg.isEmpty || ag.isEmpty then pure (g, false) else do
  let g0 : G := { g with prods := g.prods.filter (fun p => p.head ≠ A) }
  let g1 ← (sortBy (fun a b => bodyLt a.1 b.1) pg).foldlM (fun (g : G) e => do
      let (g', A') ← addNew g A primes
      let ps := ins g'.prods { head := A, body := e.1 ++ [.nonterm A'] }
      pure { g' with prods := insAll ps (e.2.map (fun s => ({ head := A', body := s } : SProd))) }) g0
  let ps := ag.foldl (fun ps e => insAll ps (e.2.map (fun s => ({ head := A, body := e.1 ++ s } : SProd)))) g1.prods
  pure ({ g1 with prods := ps }, true)

def lfPass (g : G) : Outcome (G × Bool) := do
  let nts ← orderNT g
  nts.foldlM (fun (st : G × Bool) A => do
    let (g', ch) ← lfHead st.1 A
    pure (g', st.2 || ch)) (g, false)

def lfLoop : Nat → G → Outcome G
  | 0, _ => .diverge
  | n + 1, g => do
    let (g', ch) ← lfPass g
    if ch then lfLoop n g' else pure g'

def leftFactor (g : G) : Outcome G := lfLoop (4 * sizeOf g + 8) g

/-! ## START, TERM, BIN, `ChomskyNormalForm` -/

def cnfStart (g : G) : Outcome G :=
  if g.prods.any (fun p => p.body.contains (.nonterm g.start)) then do
    let (g1, s') ← addNew g g.start primes
    pure { g1 with start := s', prods := ins g1.prods { head := s', body := [.nonterm g.start] } }
  else pure g

/-- state of TERM: the grammar under construction and the `store` map terminal ↦ fresh non-terminal -/
abbrev TermSt := G × List (String × String)

def termBody (head : String) (body : List SSym) (st : TermSt) : Outcome TermSt := do
  let (st', newBody) ← body.foldlM (fun (acc : TermSt × List SSym) sym =>
      match sym with
      | .term t =>
        match acc.1.2.lookup t with
        | some n =>
          pure (({ acc.1.1 with prods := ins acc.1.1.prods { head := n, body := [sym] } }, acc.1.2), acc.2 ++ [.nonterm n])
        | none => do
          let (g', n) ← addNew acc.1.1 t alphas
          pure (({ g' with prods := ins g'.prods { head := n, body := [sym] } }, acc.1.2 ++ [(t, n)]), acc.2 ++ [.nonterm n])
      | .nonterm _ => pure (acc.1, acc.2 ++ [sym])) (st, [])
  pure ({ st'.1 with prods := ins st'.1.prods { head := head, body := newBody } }, st'.2)

def cnfTerm (g : G) : Outcome G := do
  let st ← g.prods.foldlM (fun (st : TermSt) p =>
      if isTerminalProd p then pure ({ st.1 with prods := ins st.1.prods p }, st.2)
      else termBody p.head p.body st) (({ g with prods := [] } : G), [])
  pure st.1

/-- distinct heads in order of first occurrence (`AllByHead`) -/
def headsOf (ps : List SProd) : List String := dedup (ps.map (fun p => p.head))

/-- the chain `A → X₁ A₁, A₁ → X₂ A₂, …, Aₙ₋₂ → Xₙ₋₁ Xₙ` (loop `for head, i := A, 0; i <= len-2; i++`) -/
def binChain (A : String) : Nat → String → List SSym → G → Outcome G
  | 0, _, _, g => pure g
  | fuel + 1, head, rest, g =>
    match rest with
    | [] => pure g
    | [_] => pure g
    | [x, y] => pure { g with prods := ins g.prods { head := head, body := [x, y] } }
    | x :: rest' => do
      let (g', hN) ← addNew g A numerics
      binChain A fuel hN rest' { g' with prods := ins g'.prods { head := head, body := [x, .nonterm hN] } }

def cnfBin (g : G) : Outcome G :=
  (headsOf g.prods).foldlM (fun (ng : G) A =>
    (sortBy prodLt (prodsOf g.prods A)).foldlM (fun (ng : G) p =>
      if isTerminalProd p || isBinary p || p.body.isEmpty || isSingle p then pure { ng with prods := ins ng.prods p }
      else binChain A (p.body.length + 1) A p.body ng) ng) ({ g with prods := [] } : G)

def cnf (g : G) : Outcome G := do
  let g1 ← cnfStart g
  let g2 ← cnfTerm g1
  let g3 ← cnfBin g2
  let g4 ← elimEmpty g3
  let g5 ← elimSingle g4
  elimUnreachable g5

/-! ## dispatch by op name (line protocol) -/

def applyOp (op : String) (g : G) : Option (Outcome G) :=
  match op with
  | "emptyfree" => some (elimEmpty g)
  | "singlefree" => some (elimSingle g)
  | "unreachable" => some (elimUnreachable g)
  | "cycles" => some (elimCycles g)
  | "leftrec" => some (elimLeftRec g)
  | "leftfactor" => some (leftFactor g)
  | "cnf" => some (cnf g)
  | "cnfstart" => some (cnfStart g)
  | "cnfterm" => some (cnfTerm g)
  | "cnfbin" => some (cnfBin g)
  | "id" => some (.ok g)
  | _ => none

end AlgoVerif.C08
