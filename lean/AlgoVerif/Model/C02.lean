import AlgoVerif.Common
import AlgoVerif.Generated.Consts
import AlgoVerif.Generated.C02
/-!
# Model of the four hash tables of `symboltable/` (properties C02 and C03)

Files mirrored: `symboltable/hash_table.go`, `chain_hash_table.go`, `linear_hash_table.go`,
`quadratic_hash_table.go`, `double_hash_table.go` — as they are after the commit
"fix: quadratic and double hash tables count soft-deleted entries towards the load" (field `u`).

Conventions
* `K` has decidable equality (`eqKey` is `==`), `V` is arbitrary, `hash : K → UInt64` is an
  **arbitrary** parameter.  Go `int` fields `n`, `u`, `p` are `Int`, sizes are `Nat`.
* `float32(a)/float32(b) ⋚ lf` is modelled as an exact comparison of rationals (`ratioGE`…);
  a load factor is `num/den`.
* uint64 arithmetic inside `probe` is done in `Nat` (no overflow as long as `m < 2^31`); the mix
  `h ^= h>>20 ^ h>>12 ^ h>>7 ^ h>>4` is done on `UInt64`.
* `All()` shuffles the slot indices with the package-level generator `r`.  The generator is an
  explicit state `σ` threaded through every operation and `sh : σ → Nat → List Nat × σ` is the
  (arbitrary) shuffle: `sh g n` is the order in which `All()` visits `[0,n)` and the next state.
* every probe loop has fuel `m` (one unit per inspected slot) and yields `Outcome.diverge` when it
  runs out (the probe sequences have period `m`, so a loop that has not stopped after `m` probes
  never stops); `Put → resize → Put → …` recursion has fuel `depth` (each nested level at least
  doubles `m`, so 64 levels exceed a Go `int`).
* quadratic and double hashing share one Model (`OATable`, field `kind`): the Go files differ only in
  `probe` and the field `p`.
-/
namespace AlgoVerif.C02
open AlgoVerif.Generated

/-! ## load factors and options -/

/-- the rational `num/den` -/
structure LF where
  num : Nat
  den : Nat
  deriving Repr, DecidableEq, Inhabited

/-- `float32(a)/float32(b) >= lf` -/
def ratioGE (a : Int) (b : Nat) (lf : LF) : Bool := decide ((lf.num : Int) * (b : Int) ≤ a * (lf.den : Int))
/-- `float32(a)/float32(b) > lf` -/
def ratioGT (a : Int) (b : Nat) (lf : LF) : Bool := decide ((lf.num : Int) * (b : Int) < a * (lf.den : Int))
/-- `float32(a)/float32(b) <= lf` -/
def ratioLE (a : Int) (b : Nat) (lf : LF) : Bool := decide (a * (lf.den : Int) ≤ (lf.num : Int) * (b : Int))

/-- `HashOpts`; a zero field (`cap = 0`, `num = 0`) selects the default, as in the constructors. -/
structure Opts where
  cap : Nat := 0
  minLF : LF := ⟨0, 1⟩
  maxLF : LF := ⟨0, 1⟩
  deriving Repr, DecidableEq, Inhabited

/-- the shuffle used by `All()`: visiting order of `[0,n)` and next generator state -/
abbrev Shuffle (σ : Type) := σ → Nat → List Nat × σ

/-- recursion budget for `Put → resize → Put → …` -/
def depth : Nat := 64

/-! ## `hash_table.go` -/

/-- `h ^= (h >> 20) ^ (h >> 12) ^ (h >> 7) ^ (h >> 4)`; the shift amounts are regenerated from the source
(`Generated/C02.lean`, where they are also checked to be the same in the four table files) -/
def mix (h : UInt64) : UInt64 :=
  h ^^^ (symboltable_mixShifts.foldl (fun acc s => acc ^^^ (h >>> UInt64.ofNat s)) 0)

/-- `for b != 0 { a, b = b, a%b }` -/
def gcdLoop : Nat → Nat → Nat → Nat
  | 0, a, _ => a
  | fuel + 1, a, b => if b = 0 then a else gcdLoop fuel b (a % b)

/-- `gcd(a, b uint64)`: `a, b = max(a, b), min(a, b)` then Euclid (`b` strictly decreases, so
`min a b + 1` rounds are enough) -/
def gcdGo (a b : Nat) : Nat := gcdLoop (min a b + 1) (max a b) (min a b)

/-- `isPowerOf2`: `n&(n-1) == 0` -/
def isPowerOf2 (n : Nat) : Bool := n &&& (n - 1) == 0

/-- the primes below 100 listed in `isPrime` (regenerated from the source, `Generated/C02.lean`) -/
def smallPrimes : List Nat := symboltable_isPrime_small

/-- `for i := 2; i*i <= n; i++ { if n%i == 0 { return false } }; return true` (fuel `n` is enough) -/
def isPrimeLoop (n : Nat) : Nat → Nat → Bool
  | 0, _ => true
  | fuel + 1, i => if i * i ≤ n then (if n % i = 0 then false else isPrimeLoop n fuel (i + 1)) else true

def isPrime (n : Nat) : Bool :=
  if n ≤ 1 then false
  else if smallPrimes.contains n then true
  else if n ≤ symboltable_isPrime_smallBound then false
  else isPrimeLoop n n 2

/-- `for p := n; p >= 2; p-- { if isPrime(p) { return p } }; return -1` -/
def largestPrimeSmallerThan : Nat → Int
  | 0 => -1
  | p + 1 => if p + 1 < 2 then -1 else if isPrime (p + 1) then ((p + 1 : Nat) : Int) else largestPrimeSmallerThan p

/-- `for p := n; ; p++ { if isPrime(p) { return p } }` -/
def smallestPrimeLoop : Nat → Nat → Outcome Nat
  | 0, _ => .diverge
  | fuel + 1, p => if isPrime p then .ok p else smallestPrimeLoop fuel (p + 1)

/-- fuel `n + 3`: by Bertrand's postulate there is a prime in `[n, 2n]` for `n ≥ 1` -/
def smallestPrimeLargerThan (n : Nat) : Outcome Nat := smallestPrimeLoop (n + 3) n

/-! ## quadratic probing and double hashing (`quadratic_hash_table.go`, `double_hash_table.go`) -/

/-- `hashTableEntry` -/
structure Entry (K V : Type) where
  key : K
  val : V
  deleted : Bool
  deriving Repr

inductive Kind where
  | quad
  | dbl
  deriving Repr, DecidableEq, Inhabited

def Kind.minM : Kind → Nat
  | .quad => symboltable_qpMinM
  | .dbl => symboltable_dhMinM
def Kind.defMinLF : Kind → LF
  | .quad => ⟨symboltable_qpMinLoadFactor_num, symboltable_qpMinLoadFactor_den⟩
  | .dbl => ⟨symboltable_dhMinLoadFactor_num, symboltable_dhMinLoadFactor_den⟩
def Kind.defMaxLF : Kind → LF
  | .quad => ⟨symboltable_qpMaxLoadFactor_num, symboltable_qpMaxLoadFactor_den⟩
  | .dbl => ⟨symboltable_dhMaxLoadFactor_num, symboltable_dhMaxLoadFactor_den⟩

/-- `quadraticHashTable` / `doubleHashTable` (`p` is 0 for the quadratic table, which has no such field) -/
structure OATable (K V : Type) where
  kind : Kind
  slots : Array (Option (Entry K V))
  m : Nat
  p : Int
  n : Int
  u : Int
  minLF : LF
  maxLF : LF

variable {K V σ : Type} [DecidableEq K]

/-- `for key, val := range ht.All() { newHT.Put(key, val) }` in `resize`: `Put` of the fresh table over the
listing produced by `All()`; `putRec` is that `Put` -/
def foldPut {T : Type} (putRec : T → σ → K → V → Outcome (T × σ)) : List (K × V) → T → σ → Outcome (T × σ)
  | [], acc, g => .ok (acc, g)
  | (k, v) :: r, acc, g =>
    match putRec acc g k v with
    | .ok (acc', g') => foldPut putRec r acc' g'
    | .panic => .panic
    | .diverge => .diverge

/-- `NewQuadraticHashTable` / `NewDoubleHashTable` -/
def OA.new (kind : Kind) (o : Opts) : Outcome (OATable K V) :=
  let cap := if o.cap = 0 then kind.minM else o.cap
  let minLF := if o.minLF.num = 0 then kind.defMinLF else o.minLF
  let maxLF := if o.maxLF.num = 0 then kind.defMaxLF else o.maxLF
  if cap < kind.minM || !isPrime cap then .panic
  else .ok {
    kind := kind
    slots := Array.replicate cap none
    m := cap
    p := match kind with
      | .quad => 0
      | .dbl => largestPrimeSmallerThan cap
    n := 0
    u := 0
    minLF := minLF
    maxLF := maxLF }

/-- `uint64(p)` for an `int` -/
def u64 (p : Int) : Nat := if p < 0 then 2 ^ 64 - p.natAbs else p.toNat

/-- `h2 = P - (h % P); if gcd(M, h2) != 1 { h2++ }` -/
def h2of (m : Nat) (p : Int) (h : UInt64) : Nat :=
  let P := u64 p
  let h2 := P - h.toNat % P
  if gcdGo m h2 != 1 then h2 + 1 else h2

/-- the `i`-th value returned by the closure of `probe(key)`; `h` is the mixed hash of the key -/
def probeIdx (kind : Kind) (m : Nat) (p : Int) (h : UInt64) (i : Nat) : Nat :=
  if i = 0 then h.toNat % m
  else match kind with
    | .quad => (h.toNat % m + i * i) % m
    | .dbl => (h.toNat % m + i * h2of m p h) % m

/-- the probe loop of `Put` -/
def OA.putLoop (t : OATable K V) (h : UInt64) (key : K) (val : V) : Nat → Nat → Outcome (OATable K V)
  | 0, _ => .diverge
  | fuel + 1, i =>
    let idx := probeIdx t.kind t.m t.p h i
    match t.slots[idx]? with
    | none => .panic
    | some none =>
      .ok { t with slots := t.slots.setIfInBounds idx (some ⟨key, val, false⟩), n := t.n + 1, u := t.u + 1 }
    | some (some e) =>
      if e.key = key then
        .ok { t with slots := t.slots.setIfInBounds idx (some ⟨e.key, val, false⟩),
                     n := if e.deleted then t.n + 1 else t.n }
      else OA.putLoop t h key val fuel (i + 1)

/-- the live pair in slot `i`, if any -/
def OA.liveAt (slots : Array (Option (Entry K V))) (i : Nat) : Option (K × V) :=
  match slots[i]? with
  | some (some e) => if e.deleted then none else some (e.key, e.val)
  | _ => none

/-- `All()` collected into a list (in visiting order) -/
def OA.all (sh : Shuffle σ) (t : OATable K V) (g : σ) : List (K × V) × σ :=
  ((sh g t.slots.size).1.filterMap (OA.liveAt t.slots), (sh g t.slots.size).2)

/-- `resize(m)`; `putRec` is `Put` of the freshly allocated table -/
def OA.resizeWith (sh : Shuffle σ) (putRec : OATable K V → σ → K → V → Outcome (OATable K V × σ))
    (t : OATable K V) (g : σ) (m' : Nat) : Outcome (OATable K V × σ) :=
  if m' < t.kind.minM then .ok (t, g)
  else
    match smallestPrimeLargerThan m' with
    | .ok mp =>
      match (OA.new t.kind ⟨mp, t.minLF, t.maxLF⟩ : Outcome (OATable K V)) with
      | .ok fresh =>
        match foldPut putRec (OA.all sh t g).1 fresh (OA.all sh t g).2 with
        | .ok (nt, g2) => .ok ({ t with slots := nt.slots, m := nt.m, n := nt.n, u := nt.u, p := nt.p }, g2)
        | .panic => .panic
        | .diverge => .diverge
      | .panic => .panic
      | .diverge => .diverge
    | .panic => .panic
    | .diverge => .diverge

/-- `Put` -/
def OA.put (sh : Shuffle σ) (hash : K → UInt64) : Nat → OATable K V → σ → K → V → Outcome (OATable K V × σ)
  | 0, _, _, _, _ => .diverge
  | d + 1, t, g, key, val =>
    let r :=
      if ratioGT (t.u + 1) t.m t.maxLF then
        if 2 * t.n ≥ t.u then OA.resizeWith sh (OA.put sh hash d) t g (2 * t.m)
        else OA.resizeWith sh (OA.put sh hash d) t g t.m
      else .ok (t, g)
    match r with
    | .ok (t1, g1) =>
      match OA.putLoop t1 (mix (hash key)) key val t1.m 0 with
      | .ok t2 => .ok (t2, g1)
      | .panic => .panic
      | .diverge => .diverge
    | .panic => .panic
    | .diverge => .diverge

/-- the probe loop of `Get` (skips soft-deleted entries, stops at nil) -/
def OA.getLoop (t : OATable K V) (h : UInt64) (key : K) : Nat → Nat → Outcome (Option V)
  | 0, _ => .diverge
  | fuel + 1, i =>
    match t.slots[probeIdx t.kind t.m t.p h i]? with
    | none => .panic
    | some none => .ok none
    | some (some e) =>
      if !e.deleted && e.key = key then .ok (some e.val)
      else OA.getLoop t h key fuel (i + 1)

/-- `Get` -/
def OA.get (hash : K → UInt64) (t : OATable K V) (key : K) : Outcome (Option V) :=
  OA.getLoop t (mix (hash key)) key t.m 0

/-- the search loop of `Delete`: index of the first slot that is nil or holds `key` -/
def OA.findLoop (t : OATable K V) (h : UInt64) (key : K) : Nat → Nat → Outcome Nat
  | 0, _ => .diverge
  | fuel + 1, i =>
    let idx := probeIdx t.kind t.m t.p h i
    match t.slots[idx]? with
    | none => .panic
    | some none => .ok idx
    | some (some e) => if e.key = key then .ok idx else OA.findLoop t h key fuel (i + 1)

/-- `Delete` -/
def OA.delete (sh : Shuffle σ) (hash : K → UInt64) (d : Nat) (t : OATable K V) (g : σ) (key : K) :
    Outcome (OATable K V × σ × Option V) :=
  match OA.findLoop t (mix (hash key)) key t.m 0 with
  | .ok idx =>
    match t.slots[idx]? with
    | some (some e) =>
      if e.deleted then .ok (t, g, none)
      else
        let t1 : OATable K V :=
          { t with slots := t.slots.setIfInBounds idx (some { e with deleted := true }), n := t.n - 1 }
        if ratioLE t1.n t1.m t1.minLF then
          match OA.resizeWith sh (OA.put sh hash d) t1 g (t1.m / 2) with
          | .ok (t2, g2) => .ok (t2, g2, some e.val)
          | .panic => .panic
          | .diverge => .diverge
        else .ok (t1, g, some e.val)
    | _ => .ok (t, g, none)
  | .panic => .panic
  | .diverge => .diverge

/-- `DeleteAll` -/
def OA.deleteAll (t : OATable K V) : OATable K V :=
  { t with slots := Array.replicate t.m none, n := 0, u := 0 }

/-- `AllMatch(func(key, val) { v, ok := other.Get(key); return ok && eqVal(val, v) })` over a listing -/
def allMatchGet (eqVal : V → V → Bool) (get : K → Outcome (Option V)) : List (K × V) → Outcome Bool
  | [] => .ok true
  | (k, v) :: rest =>
    match get k with
    | .ok (some v2) => if eqVal v v2 then allMatchGet eqVal get rest else .ok false
    | .ok none => .ok false
    | .panic => .panic
    | .diverge => .diverge

/-- `Equal` is textually the same method in the four files (both operands have the same concrete
type in every use here, so the type assertion succeeds):
`ht.AllMatch(k,v ↦ ht2.Get(k) = (v', true) ∧ eqVal(v, v')) && ht2.AllMatch(k,v ↦ ht.Get(k) = (v', true) ∧ eqVal(v, v'))`.
The second `All()` (and its shuffle) only happens when the first conjunct is true. -/
def equalWith (eqVal : V → V → Bool) (get1 get2 : K → Outcome (Option V))
    (all1 all2 : σ → List (K × V) × σ) (g : σ) : Outcome (Bool × σ) :=
  match allMatchGet eqVal get2 (all1 g).1 with
  | .ok true =>
    match allMatchGet eqVal get1 (all2 (all1 g).2).1 with
    | .ok b => .ok (b, (all2 (all1 g).2).2)
    | .panic => .panic
    | .diverge => .diverge
  | .ok false => .ok (false, (all1 g).2)
  | .panic => .panic
  | .diverge => .diverge

def OA.equal (sh : Shuffle σ) (hash : K → UInt64) (eqVal : V → V → Bool) (t1 t2 : OATable K V) (g : σ) :
    Outcome (Bool × σ) :=
  equalWith eqVal (OA.get hash t1) (OA.get hash t2) (OA.all sh t1) (OA.all sh t2) g

/-- number of slots inspected by the loop of `Get` (`none`: more than `fuel`) -/
def OA.probesGet (t : OATable K V) (h : UInt64) (key : K) : Nat → Nat → Option Nat
  | 0, _ => none
  | fuel + 1, i =>
    match t.slots[probeIdx t.kind t.m t.p h i]? with
    | none => none
    | some none => some (i + 1)
    | some (some e) => if !e.deleted && e.key = key then some (i + 1) else OA.probesGet t h key fuel (i + 1)

/-- number of slots inspected by the search loop of `Put`/`Delete` -/
def OA.probesFind (t : OATable K V) (h : UInt64) (key : K) : Nat → Nat → Option Nat
  | 0, _ => none
  | fuel + 1, i =>
    match t.slots[probeIdx t.kind t.m t.p h i]? with
    | none => none
    | some none => some (i + 1)
    | some (some e) => if e.key = key then some (i + 1) else OA.probesFind t h key fuel (i + 1)

/-! ## linear probing (`linear_hash_table.go`) -/

structure LinTable (K V : Type) where
  slots : Array (Option (K × V))
  m : Nat
  n : Int
  minLF : LF
  maxLF : LF

def lpMinLF : LF := ⟨symboltable_lpMinLoadFactor_num, symboltable_lpMinLoadFactor_den⟩
def lpMaxLF : LF := ⟨symboltable_lpMaxLoadFactor_num, symboltable_lpMaxLoadFactor_den⟩

/-- `NewLinearHashTable` -/
def Lin.new (o : Opts) : Outcome (LinTable K V) :=
  let cap := if o.cap = 0 then symboltable_lpMinM else o.cap
  let minLF := if o.minLF.num = 0 then lpMinLF else o.minLF
  let maxLF := if o.maxLF.num = 0 then lpMaxLF else o.maxLF
  if cap < symboltable_lpMinM || !isPowerOf2 cap then .panic
  else .ok { slots := Array.replicate cap none, m := cap, n := 0, minLF := minLF, maxLF := maxLF }

/-- `h1 := h & (M - 1)`; the `i`-th probe is `h1` for `i = 0` and `(h1 + i) % M` afterwards -/
def Lin.probeIdx (m : Nat) (h : UInt64) (i : Nat) : Nat :=
  if i = 0 then h.toNat &&& (m - 1) else ((h.toNat &&& (m - 1)) + i) % m

def Lin.putLoop (t : LinTable K V) (h : UInt64) (key : K) (val : V) : Nat → Nat → Outcome (LinTable K V)
  | 0, _ => .diverge
  | fuel + 1, i =>
    let idx := Lin.probeIdx t.m h i
    match t.slots[idx]? with
    | none => .panic
    | some none => .ok { t with slots := t.slots.setIfInBounds idx (some (key, val)), n := t.n + 1 }
    | some (some e) =>
      if e.1 = key then .ok { t with slots := t.slots.setIfInBounds idx (some (e.1, val)) }
      else Lin.putLoop t h key val fuel (i + 1)

def Lin.liveAt (slots : Array (Option (K × V))) (i : Nat) : Option (K × V) :=
  match slots[i]? with
  | some (some e) => some e
  | _ => none

def Lin.all (sh : Shuffle σ) (t : LinTable K V) (g : σ) : List (K × V) × σ :=
  ((sh g t.slots.size).1.filterMap (Lin.liveAt t.slots), (sh g t.slots.size).2)

def Lin.resizeWith (sh : Shuffle σ) (putRec : LinTable K V → σ → K → V → Outcome (LinTable K V × σ))
    (t : LinTable K V) (g : σ) (m' : Nat) : Outcome (LinTable K V × σ) :=
  if m' < symboltable_lpMinM then .ok (t, g)
  else
    match (Lin.new ⟨m', t.minLF, t.maxLF⟩ : Outcome (LinTable K V)) with
    | .ok fresh =>
      match foldPut putRec (Lin.all sh t g).1 fresh (Lin.all sh t g).2 with
      | .ok (nt, g2) => .ok ({ t with slots := nt.slots, m := nt.m, n := nt.n }, g2)
      | .panic => .panic
      | .diverge => .diverge
    | .panic => .panic
    | .diverge => .diverge

def Lin.put (sh : Shuffle σ) (hash : K → UInt64) : Nat → LinTable K V → σ → K → V → Outcome (LinTable K V × σ)
  | 0, _, _, _, _ => .diverge
  | d + 1, t, g, key, val =>
    let r :=
      if ratioGE t.n t.m t.maxLF then Lin.resizeWith sh (Lin.put sh hash d) t g (2 * t.m)
      else .ok (t, g)
    match r with
    | .ok (t1, g1) =>
      match Lin.putLoop t1 (mix (hash key)) key val t1.m 0 with
      | .ok t2 => .ok (t2, g1)
      | .panic => .panic
      | .diverge => .diverge
    | .panic => .panic
    | .diverge => .diverge

def Lin.getLoop (t : LinTable K V) (h : UInt64) (key : K) : Nat → Nat → Outcome (Option V)
  | 0, _ => .diverge
  | fuel + 1, i =>
    match t.slots[Lin.probeIdx t.m h i]? with
    | none => .panic
    | some none => .ok none
    | some (some e) => if e.1 = key then .ok (some e.2) else Lin.getLoop t h key fuel (i + 1)

def Lin.get (hash : K → UInt64) (t : LinTable K V) (key : K) : Outcome (Option V) :=
  Lin.getLoop t (mix (hash key)) key t.m 0

/-- search loop of `Delete`: the probe number `i` and index of the first slot that is nil or holds `key` -/
def Lin.findLoop (t : LinTable K V) (h : UInt64) (key : K) : Nat → Nat → Outcome (Nat × Nat)
  | 0, _ => .diverge
  | fuel + 1, i =>
    let idx := Lin.probeIdx t.m h i
    match t.slots[idx]? with
    | none => .panic
    | some none => .ok (i, idx)
    | some (some e) => if e.1 = key then .ok (i, idx) else Lin.findLoop t h key fuel (i + 1)

/-- "Re-hash all subsequent entries": `for i = next(); ht.entries[i] != nil; i = next() { … ht.Put(key, val) }`.
The closure `next` keeps the `M` and `h1` it captured before the loop (`m0`, `h`). The fuel bounds
the number of re-insertions by the capacity at the time of the call. -/
def Lin.reLoop (putF : LinTable K V → σ → K → V → Outcome (LinTable K V × σ)) (m0 : Nat) (h : UInt64) :
    Nat → Nat → LinTable K V → σ → Outcome (LinTable K V × σ)
  | 0, _, _, _ => .diverge
  | fuel + 1, i, t, g =>
    let idx := Lin.probeIdx m0 h i
    match t.slots[idx]? with
    | none => .panic
    | some none => .ok (t, g)
    | some (some e) =>
      let t1 : LinTable K V := { t with slots := t.slots.setIfInBounds idx none, n := t.n - 1 }
      match putF t1 g e.1 e.2 with
      | .ok (t2, g2) => Lin.reLoop putF m0 h fuel (i + 1) t2 g2
      | .panic => .panic
      | .diverge => .diverge

def Lin.delete (sh : Shuffle σ) (hash : K → UInt64) (d : Nat) (t : LinTable K V) (g : σ) (key : K) :
    Outcome (LinTable K V × σ × Option V) :=
  match Lin.findLoop t (mix (hash key)) key t.m 0 with
  | .ok (i, idx) =>
    match t.slots[idx]? with
    | some (some e) =>
      let t1 : LinTable K V := { t with slots := t.slots.setIfInBounds idx none, n := t.n - 1 }
      match Lin.reLoop (Lin.put sh hash d) t.m (mix (hash key)) t.m (i + 1) t1 g with
      | .ok (t2, g2) =>
        if ratioLE t2.n t2.m t2.minLF then
          match Lin.resizeWith sh (Lin.put sh hash d) t2 g2 (t2.m / 2) with
          | .ok (t3, g3) => .ok (t3, g3, some e.2)
          | .panic => .panic
          | .diverge => .diverge
        else .ok (t2, g2, some e.2)
      | .panic => .panic
      | .diverge => .diverge
    | _ => .ok (t, g, none)
  | .panic => .panic
  | .diverge => .diverge

def Lin.deleteAll (t : LinTable K V) : LinTable K V :=
  { t with slots := Array.replicate t.m none, n := 0 }

def Lin.equal (sh : Shuffle σ) (hash : K → UInt64) (eqVal : V → V → Bool) (t1 t2 : LinTable K V) (g : σ) :
    Outcome (Bool × σ) :=
  equalWith eqVal (Lin.get hash t1) (Lin.get hash t2) (Lin.all sh t1) (Lin.all sh t2) g

/-- slots inspected by `Get` / by the search loop of `Put` and `Delete` (the same loop here) -/
def Lin.probes (t : LinTable K V) (h : UInt64) (key : K) : Nat → Nat → Option Nat
  | 0, _ => none
  | fuel + 1, i =>
    match t.slots[Lin.probeIdx t.m h i]? with
    | none => none
    | some none => some (i + 1)
    | some (some e) => if e.1 = key then some (i + 1) else Lin.probes t h key fuel (i + 1)

/-! ## separate chaining (`chain_hash_table.go`) -/

/-- a bucket is the list of its nodes from `buckets[i]` along `next` -/
structure ChainTable (K V : Type) where
  buckets : Array (List (K × V))
  m : Nat
  n : Int
  minLF : LF
  maxLF : LF

def scMinLF : LF := ⟨symboltable_scMinLoadFactor_num, symboltable_scMinLoadFactor_den⟩
def scMaxLF : LF := ⟨symboltable_scMaxLoadFactor_num, symboltable_scMaxLoadFactor_den⟩

def Chain.new (o : Opts) : Outcome (ChainTable K V) :=
  let cap := if o.cap = 0 then symboltable_scMinM else o.cap
  let minLF := if o.minLF.num = 0 then scMinLF else o.minLF
  let maxLF := if o.maxLF.num = 0 then scMaxLF else o.maxLF
  if cap < symboltable_scMinM || !isPowerOf2 cap then .panic
  else .ok { buckets := Array.replicate cap [], m := cap, n := 0, minLF := minLF, maxLF := maxLF }

/-- `hash(key)`: `h & (M - 1)` of the mixed hash -/
def Chain.hashIdx (m : Nat) (h : UInt64) : Nat := h.toNat &&& (m - 1)

/-- the scan of `Put`: set the value of the first node holding `key` (`none`: no such node) -/
def Chain.bucketSet (key : K) (val : V) : List (K × V) → Option (List (K × V))
  | [] => none
  | (k, v) :: r =>
    if k = key then some ((k, val) :: r)
    else match Chain.bucketSet key val r with
      | some r' => some ((k, v) :: r')
      | none => none

/-- `_delete` -/
def Chain.bucketDelete (key : K) : List (K × V) → List (K × V) × Option V
  | [] => ([], none)
  | (k, v) :: r =>
    if k = key then (r, some v)
    else ((k, v) :: (Chain.bucketDelete key r).1, (Chain.bucketDelete key r).2)

def Chain.bucketGet (key : K) : List (K × V) → Option V
  | [] => none
  | (k, v) :: r => if k = key then some v else Chain.bucketGet key r

def Chain.all (sh : Shuffle σ) (t : ChainTable K V) (g : σ) : List (K × V) × σ :=
  ((sh g t.buckets.size).1.flatMap (fun i => t.buckets[i]?.getD []), (sh g t.buckets.size).2)

def Chain.resizeWith (sh : Shuffle σ) (putRec : ChainTable K V → σ → K → V → Outcome (ChainTable K V × σ))
    (t : ChainTable K V) (g : σ) (m' : Nat) : Outcome (ChainTable K V × σ) :=
  if m' < symboltable_scMinM then .ok (t, g)
  else
    match (Chain.new ⟨m', t.minLF, t.maxLF⟩ : Outcome (ChainTable K V)) with
    | .ok fresh =>
      match foldPut putRec (Chain.all sh t g).1 fresh (Chain.all sh t g).2 with
      | .ok (nt, g2) => .ok ({ t with buckets := nt.buckets, m := nt.m, n := nt.n }, g2)
      | .panic => .panic
      | .diverge => .diverge
    | .panic => .panic
    | .diverge => .diverge

/-- the part of `Put` after the load check: scan the bucket, update in place or prepend a node -/
def Chain.putBucket (t : ChainTable K V) (h : UInt64) (key : K) (val : V) : Outcome (ChainTable K V) :=
  let i := Chain.hashIdx t.m h
  match t.buckets[i]? with
  | none => .panic
  | some b =>
    match Chain.bucketSet key val b with
    | some b' => .ok { t with buckets := t.buckets.setIfInBounds i b' }
    | none => .ok { t with buckets := t.buckets.setIfInBounds i ((key, val) :: b), n := t.n + 1 }

def Chain.put (sh : Shuffle σ) (hash : K → UInt64) : Nat → ChainTable K V → σ → K → V → Outcome (ChainTable K V × σ)
  | 0, _, _, _, _ => .diverge
  | d + 1, t, g, key, val =>
    let r :=
      if ratioGE t.n t.m t.maxLF then Chain.resizeWith sh (Chain.put sh hash d) t g (2 * t.m)
      else .ok (t, g)
    match r with
    | .ok (t1, g1) =>
      match Chain.putBucket t1 (mix (hash key)) key val with
      | .ok t2 => .ok (t2, g1)
      | .panic => .panic
      | .diverge => .diverge
    | .panic => .panic
    | .diverge => .diverge

def Chain.get (hash : K → UInt64) (t : ChainTable K V) (key : K) : Outcome (Option V) :=
  match t.buckets[Chain.hashIdx t.m (mix (hash key))]? with
  | none => .panic
  | some b => .ok (Chain.bucketGet key b)

/-- `Delete`: the load factor is checked even when the key was absent -/
def Chain.delete (sh : Shuffle σ) (hash : K → UInt64) (d : Nat) (t : ChainTable K V) (g : σ) (key : K) :
    Outcome (ChainTable K V × σ × Option V) :=
  let i := Chain.hashIdx t.m (mix (hash key))
  match t.buckets[i]? with
  | none => .panic
  | some b =>
    let r := Chain.bucketDelete key b
    let t1 : ChainTable K V :=
      { t with buckets := t.buckets.setIfInBounds i r.1, n := if r.2.isSome then t.n - 1 else t.n }
    if ratioLE t1.n t1.m t1.minLF then
      match Chain.resizeWith sh (Chain.put sh hash d) t1 g (t1.m / 2) with
      | .ok (t2, g2) => .ok (t2, g2, r.2)
      | .panic => .panic
      | .diverge => .diverge
    else .ok (t1, g, r.2)

def Chain.deleteAll (t : ChainTable K V) : ChainTable K V :=
  { t with buckets := Array.replicate t.m [], n := 0 }

def Chain.equal (sh : Shuffle σ) (hash : K → UInt64) (eqVal : V → V → Bool) (t1 t2 : ChainTable K V) (g : σ) :
    Outcome (Bool × σ) :=
  equalWith eqVal (Chain.get hash t1) (Chain.get hash t2) (Chain.all sh t1) (Chain.all sh t2) g

/-- nodes of the bucket visited by `Get`/`Put`/`Delete` looking for `key` -/
def Chain.nodesVisited (key : K) : List (K × V) → Nat
  | [] => 0
  | (k, _) :: r => if k = key then 1 else 1 + Chain.nodesVisited key r

end AlgoVerif.C02
