import AlgoVerif.Model.C18
import AlgoVerif.Spec.C18
/-!
# C18: uniform operations, outputs and `run` functions for the Model and the Spec

Core Lean only (the driver executes `Queue.step` / `Stack.step` / `SoftQueue.step`, i.e. exactly the
functions the theorems of `Props/C18.lean` talk about).

* `Op α`     : the six operations shared by `list.Queue` and `list.Stack`;
* `SoftOp α` : the seven operations of `list.SoftQueue`;
* `Out α`    : what an operation returns;
* `runTrace` : run a history on a Model; the trace ends at the first `panic`/`diverge`;
* `runSpec`  : run a history on a Spec (total, no failure).
-/
namespace AlgoVerif.C18
variable {α : Type}

/-- operations of `list.Queue` (`add` = Enqueue, `remove` = Dequeue) and `list.Stack`
(`add` = Push, `remove` = Pop). -/
inductive Op (α : Type) where
  | add (v : α)
  | remove
  | peek
  | contains (v : α)
  | size
  | isEmpty
  deriving Repr, DecidableEq

/-- operations of `list.SoftQueue`. -/
inductive SoftOp (α : Type) where
  | enq (v : α)
  | deq
  | peek
  | contains (v : α)
  | size
  | isEmpty
  | values
  deriving Repr, DecidableEq

/-- observable result of one operation. -/
inductive Out (α : Type) where
  /-- `Enqueue` / `Push` of queue and stack return nothing -/
  | unit
  /-- `(T, bool)` of `Dequeue`/`Pop`/`Peek`: `none` ⇔ the bool is false -/
  | val (o : Option α)
  /-- `(T, int)` of the soft queue's `Dequeue`/`Peek`: `none` ⇔ the index is -1 -/
  | valIdx (o : Option (α × Int))
  | bool (b : Bool)
  | int (n : Int)
  | list (l : List α)
  deriving Repr, DecidableEq

/-- Run a history on a Model whose steps may fail.  One entry per executed operation; the trace
stops with `panic` / `diverge` at the first operation that fails. -/
def runTrace {σ ι ω : Type} (step : σ → ι → Outcome (σ × ω)) : σ → List ι → List (Outcome ω)
  | _, [] => []
  | s, op :: ops =>
    match step s op with
    | .ok (s', o) => .ok o :: runTrace step s' ops
    | .panic => [.panic]
    | .diverge => [.diverge]

/-- Run a history on a Spec. -/
def runSpec {σ ι ω : Type} (step : σ → ι → σ × ω) : σ → List ι → List ω
  | _, [] => []
  | s, op :: ops => (step s op).2 :: runSpec step (step s op).1 ops

/-- The Spec state after a history. -/
def specFinal {σ ι ω : Type} (step : σ → ι → σ × ω) : σ → List ι → σ
  | s, [] => s
  | s, op :: ops => specFinal step (step s op).1 ops

/-! ## Model steps -/

def Queue.step (zero : α) (eq : α → α → Bool) (q : Queue α) : Op α → Outcome (Queue α × Out α)
  | .add v => (q.enqueue zero v).map fun q' => (q', .unit)
  | .remove => q.dequeue.map fun r => (r.1, .val r.2)
  | .peek => q.peek.map fun r => (q, .val r)
  | .contains v => (q.contains eq v).map fun b => (q, .bool b)
  | .size => .ok (q, .int q.size)
  | .isEmpty => .ok (q, .bool q.isEmpty)

def Stack.step (zero : α) (eq : α → α → Bool) (s : Stack α) : Op α → Outcome (Stack α × Out α)
  | .add v => (s.push zero v).map fun s' => (s', .unit)
  | .remove => s.pop.map fun r => (r.1, .val r.2)
  | .peek => s.peek.map fun r => (s, .val r)
  | .contains v => (s.contains eq v).map fun b => (s, .bool b)
  | .size => .ok (s, .int s.size)
  | .isEmpty => .ok (s, .bool s.isEmpty)

def SoftQueue.step (eq : α → α → Bool) (q : SoftQueue α) : SoftOp α → Outcome (SoftQueue α × Out α)
  | .enq v => .ok ((q.enqueue v).1, .int (q.enqueue v).2)
  | .deq => q.dequeue.map fun r => (r.1, .valIdx r.2)
  | .peek => q.peek.map fun r => (q, .valIdx r)
  | .contains v => .ok (q, .int (q.contains eq v))
  | .size => .ok (q, .int q.size)
  | .isEmpty => .ok (q, .bool q.isEmpty)
  | .values => .ok (q, .list q.values)

/-- history → trace of the Model queue with block size `q.nodeSize` -/
def Queue.run (zero : α) (eq : α → α → Bool) : Queue α → List (Op α) → List (Outcome (Out α)) :=
  runTrace (Queue.step zero eq)
def Stack.run (zero : α) (eq : α → α → Bool) : Stack α → List (Op α) → List (Outcome (Out α)) :=
  runTrace (Stack.step zero eq)
def SoftQueue.run (eq : α → α → Bool) : SoftQueue α → List (SoftOp α) → List (Outcome (Out α)) :=
  runTrace (SoftQueue.step eq)

/-! ## Spec steps -/
namespace Spec

def Q.step (eq : α → α → Bool) (q : Q α) : Op α → Q α × Out α
  | .add v => (q.enqueue v, .unit)
  | .remove => (q.dequeue.1, .val q.dequeue.2)
  | .peek => (q, .val q.peek)
  | .contains v => (q, .bool (q.contains eq v))
  | .size => (q, .int q.size)
  | .isEmpty => (q, .bool q.isEmpty)

def S.step (eq : α → α → Bool) (s : S α) : Op α → S α × Out α
  | .add v => (s.push v, .unit)
  | .remove => (s.pop.1, .val s.pop.2)
  | .peek => (s, .val s.peek)
  | .contains v => (s, .bool (s.contains eq v))
  | .size => (s, .int s.size)
  | .isEmpty => (s, .bool s.isEmpty)

def SQ.step (eq : α → α → Bool) (q : SQ α) : SoftOp α → SQ α × Out α
  | .enq v => ((q.enqueue v).1, .int (q.enqueue v).2)
  | .deq => (q.dequeue.1, .valIdx q.dequeue.2)
  | .peek => (q, .valIdx q.peek)
  | .contains v => (q, .int (q.contains eq v))
  | .size => (q, .int q.size)
  | .isEmpty => (q, .bool q.isEmpty)
  | .values => (q, .list q.values)

def Q.run (eq : α → α → Bool) : Q α → List (Op α) → List (Out α) := runSpec (Q.step eq)
def S.run (eq : α → α → Bool) : S α → List (Op α) → List (Out α) := runSpec (S.step eq)
def SQ.run (eq : α → α → Bool) : SQ α → List (SoftOp α) → List (Out α) := runSpec (SQ.step eq)

end Spec
end AlgoVerif.C18
