import AlgoVerif.Common
/-!
# Model of `heap/binary.go`, `heap/binomial.go`, `heap/fibonacci.go`

Line-by-line transcription (core Lean only).  Conventions:

* `cmp : K → K → Int` is Go's `generic.CompareFunc[K]`, `eqV : V → V → Bool` is `generic.EqualFunc[V]`;
  both are parameters.  Go's `int` is `Nat` where the code only counts up from 0 behind an emptiness
  test (`binary.n`, node `order`/`degree`) and `Int` otherwise (`binomial.n`, `fibonacci.n`).
* binary heap: `heap []*KeyValue` is `Array (Option (K × V))` (`none` = nil pointer); an index out of
  range or a nil dereference is `Outcome.panic`; the three `for` loops carry a fuel argument.
* binomial / Fibonacci: a node with its LCRS pointers is `Tree.node key val degree children`, where
  `children` is the list `n.child, n.child.sibling, …` (binomial) resp. `n.child, n.child.next, …`
  once round the circular list (Fibonacci).  A root list is a `List Tree` starting at `h.head` resp.
  at the entry point `h.ext`.  Recursions over (acyclic) lists are structural; the loops of
  `fibonacci.consolidate` carry fuel.
* pointer identity is needed only inside `fibonacci.consolidate` (`y != x`, `curr == stop`,
  `head == n`): there every root gets a local id (its position in the root list when `consolidate`
  starts), the circular root list is written as a list **starting at `stop`**, `curr` is a position in
  it (so `curr = curr.next; curr == stop` is "position + 1 wraps round"), `roots[d]` and `h.ext` hold
  ids.  `panic` also covers following a pointer to a node that is no longer in the root list (the Go
  code would silently corrupt the heap there); the theorems show this is unreachable.
* `maxDegree` uses `math.Log`; the Model computes `⌊log_φ n⌋ + 1` in integer arithmetic through Lucas
  numbers (`φ^k ≤ n ⇔ L_k ≤ n` for even `k ≥ 2`, `⇔ L_k + 1 ≤ n` for odd `k`); this is part of the
  trusted base and is cross-checked against the real function through the hook `VerifMaxDegree`.
-/
namespace AlgoVerif.C04
variable {K V : Type}

/-- `x.bind f` for `Outcome` without going through the `Monad` instance (easier to unfold). -/
@[inline] def obind {α β : Type} (x : Outcome α) (f : α → Outcome β) : Outcome β :=
  match x with
  | .ok a => f a
  | .panic => .panic
  | .diverge => .diverge

@[simp] theorem obind_ok {α β : Type} (a : α) (f : α → Outcome β) : obind (.ok a) f = f a := rfl
@[simp] theorem obind_panic {α β : Type} (f : α → Outcome β) : obind .panic f = .panic := rfl
@[simp] theorem obind_diverge {α β : Type} (f : α → Outcome β) : obind .diverge f = .diverge := rfl

/-! ## binary heap (`heap/binary.go`) -/

/-- `*generic.KeyValue[K, V]` -/
abbrev Cell (K V : Type) := Option (K × V)

structure Binary (K V : Type) where
  /-- number of items on heap -/
  n : Nat
  /-- binary heap of key-values using 1-based indexing -/
  heap : Array (Cell K V)

/-- `NewBinary(size, …)`: `heap: make([]*KeyValue, size+1)` -/
def Binary.new (size : Nat) : Binary K V := { n := 0, heap := Array.replicate (size + 1) none }

/-- `resize`: `newH := make([]*KeyValue, size); copy(newH, h.heap)` -/
def resize (a : Array (Cell K V)) (size : Nat) : Array (Cell K V) :=
  (a.toList.take size ++ List.replicate (size - a.size) none).toArray

/-- `h.heap[i].Key` / `.Val`: index check, then nil check -/
def deref (a : Array (Cell K V)) (i : Nat) : Outcome (K × V) :=
  match a[i]? with
  | some (some p) => .ok p
  | _ => .panic

/-- `for k = h.n; k > 1 && h.cmpKey(h.heap[k/2].Key, key) > 0; k /= 2 { h.heap[k] = h.heap[k/2] }` -/
def Binary.swim (cmp : K → K → Int) (key : K) : Nat → Array (Cell K V) → Nat → Outcome (Array (Cell K V) × Nat)
  | 0, _, _ => .diverge
  | fuel + 1, heap, k =>
    if 1 < k then
      obind (deref heap (k / 2)) fun p =>
        if cmp p.1 key > 0 then
          if k < heap.size then Binary.swim cmp key fuel (heap.setIfInBounds k (some p)) (k / 2) else .panic
        else .ok (heap, k)
    else .ok (heap, k)

def Binary.insert (cmp : K → K → Int) (h : Binary K V) (key : K) (val : V) : Outcome (Binary K V) :=
  -- if h.n == len(h.heap)-1 { h.resize(len(h.heap) * 2) }
  let heap := if h.n + 1 = h.heap.size then resize h.heap (h.heap.size * 2) else h.heap
  -- h.n++
  let n := h.n + 1
  obind (Binary.swim cmp key (n + 1) heap n) fun r =>
    -- h.heap[k] = &generic.KeyValue{Key: key, Val: val}
    if r.2 < r.1.size then .ok { n := n, heap := r.1.setIfInBounds r.2 (some (key, val)) } else .panic

/--
```
for k, j = 1, 2; j <= h.n; k, j = j, 2*j {
  if j < h.n && h.cmpKey(h.heap[j+1].Key, h.heap[j].Key) < 0 { j++ }
  if h.cmpKey(kv.Key, h.heap[j].Key) < 0 { break }
  h.heap[k] = h.heap[j]
}
```
-/
def Binary.sink (cmp : K → K → Int) (kv : Cell K V) (n : Nat) :
    Nat → Array (Cell K V) → Nat → Nat → Outcome (Array (Cell K V) × Nat)
  | 0, _, _, _ => .diverge
  | fuel + 1, heap, k, j =>
    if j ≤ n then
      obind (if j < n then
               obind (deref heap (j + 1)) fun a => obind (deref heap j) fun b =>
                 .ok (if cmp a.1 b.1 < 0 then j + 1 else j)
             else .ok j) fun j =>
        match kv with
        | none => .panic
        | some q =>
          obind (deref heap j) fun b =>
            if cmp q.1 b.1 < 0 then .ok (heap, k)
            else if k < heap.size then Binary.sink cmp kv n fuel (heap.setIfInBounds k (some b)) j (2 * j)
            else .panic
    else .ok (heap, k)

def Binary.delete (cmp : K → K → Int) (h : Binary K V) : Outcome (Binary K V × Option (K × V)) :=
  if h.n = 0 then .ok (h, none)
  else
    -- ext := h.heap[1]; kv := h.heap[h.n]; h.n--
    match h.heap[1]?, h.heap[h.n]? with
    | some ext, some kv =>
      let n := h.n - 1
      obind (Binary.sink cmp kv n (n + 2) h.heap 1 2) fun r =>
        -- h.heap[k] = kv
        if r.2 < r.1.size then
          let heap := r.1.setIfInBounds r.2 kv
          -- h.heap[h.n+1] = nil
          if n + 1 < heap.size then
            let heap := heap.setIfInBounds (n + 1) none
            -- if h.n < len(h.heap)/4 { h.resize(len(h.heap) / 2) }
            let heap := if n < heap.size / 4 then resize heap (heap.size / 2) else heap
            -- return ext.Key, ext.Val, true
            match ext with
            | some p => .ok ({ n := n, heap := heap }, some p)
            | none => .panic
          else .panic
        else .panic
    | _, _ => .panic

/-- `h.n = 0; h.heap = make([]*KeyValue, len(h.heap))` -/
def Binary.deleteAll (h : Binary K V) : Binary K V :=
  { n := 0, heap := Array.replicate h.heap.size none }

def Binary.peek (h : Binary K V) : Outcome (Option (K × V)) :=
  if h.n = 0 then .ok none else obind (deref h.heap 1) fun p => .ok (some p)

/-- `for k := 1; k <= h.n; k++ { if p(h.heap[k]) { return true } }; return false` -/
def Binary.scan (p : K × V → Bool) (heap : Array (Cell K V)) (n : Nat) : Nat → Nat → Outcome Bool
  | 0, _ => .diverge
  | fuel + 1, k =>
    if k ≤ n then obind (deref heap k) fun a => if p a then .ok true else Binary.scan p heap n fuel (k + 1)
    else .ok false

def Binary.containsKey (cmp : K → K → Int) (h : Binary K V) (key : K) : Outcome Bool :=
  Binary.scan (fun a => cmp a.1 key == 0) h.heap h.n (h.n + 1) 1

def Binary.containsValue (eqV : V → V → Bool) (h : Binary K V) (val : V) : Outcome Bool :=
  Binary.scan (fun a => eqV a.2 val) h.heap h.n (h.n + 1) 1

/-! ## trees in LCRS representation (`binomialNode`, `fibonacciNode`) -/

inductive Tree (K V : Type) where
  | node (key : K) (val : V) (deg : Nat) (children : List (Tree K V))

namespace Tree
def key : Tree K V → K | .node k _ _ _ => k
def val : Tree K V → V | .node _ v _ _ => v
/-- `order` of a binomial node / `degree` of a Fibonacci node (a stored field, not a computed one) -/
def deg : Tree K V → Nat | .node _ _ d _ => d
def children : Tree K V → List (Tree K V) | .node _ _ _ cs => cs

/-- a fresh node: `&node{key, val, order/degree: 0}` -/
def leaf (k : K) (v : V) : Tree K V := .node k v 0 []

/-- binomial `link(child, parent)`: `child.sibling = parent.child; parent.child = child; parent.order++`;
Fibonacci `link(child, parent)`: `parent.child = insert(parent.child, child); parent.degree++` — `insert`
puts `child` just before the old entry point and returns `child` as the new entry point, so the
child list read from the new entry point is `child :: old children` in both cases. -/
def link (child parent : Tree K V) : Tree K V :=
  match parent with
  | .node k v d cs => .node k v (d + 1) (child :: cs)

mutual
/-- pre-order (`generic.VLR`) traversal with a short-circuiting visitor: is there a node satisfying `p`? -/
def any (p : K → V → Bool) : Tree K V → Bool
  | .node k v _ cs => p k v || anyF p cs
def anyF (p : K → V → Bool) : List (Tree K V) → Bool
  | [] => false
  | t :: ts => any p t || anyF p ts
end
end Tree

/-! ## binomial heap (`heap/binomial.go`) -/

structure Binomial (K V : Type) where
  n : Int
  /-- `h.head`, `h.head.sibling`, … -/
  head : List (Tree K V)

def Binomial.new : Binomial K V := { n := 0, head := [] }

/-- `merge`: merge sort step on two root lists (by `order`), exactly the four cases of the `switch` -/
def Binomial.merge : List (Tree K V) → List (Tree K V) → List (Tree K V)
  | [], h2 => h2
  | h1, [] => h1
  | a :: r1, b :: r2 =>
    if a.deg < b.deg then a :: Binomial.merge r1 (b :: r2)
    else b :: Binomial.merge (a :: r1) r2
termination_by h1 h2 => h1.length + h2.length

/-- `next.sibling != nil && next.sibling.order == curr.order` (`rest` = the nodes after `next`) -/
def Binomial.sibSameOrder (rest : List (Tree K V)) (curr : Tree K V) : Bool :=
  match rest with
  | [] => false
  | s :: _ => s.deg == curr.deg

/--
The scan of `consolidate`.  `pre` = the nodes before `curr`, last first (`prev` is its head; `prev == nil`
⇔ `pre = []`); `rest` = the nodes after `curr` (`next` is its head).
-/
def Binomial.consLoop (cmp : K → K → Int) : List (Tree K V) → Tree K V → List (Tree K V) → List (Tree K V)
  | pre, curr, [] => pre.reverse ++ [curr]
  | pre, curr, next :: rest =>
    -- curr.order != next.order || (next.sibling != nil && next.sibling.order == curr.order)
    if curr.deg != next.deg || Binomial.sibSameOrder rest curr then
      Binomial.consLoop cmp (curr :: pre) next rest
    else if cmp next.key curr.key > 0 then
      -- curr.sibling = next.sibling; link(next, curr)
      Binomial.consLoop cmp pre (Tree.link next curr) rest
    else
      -- head = next / prev.sibling = next; link(curr, next); curr = next
      Binomial.consLoop cmp pre (Tree.link curr next) rest

def Binomial.consolidate (cmp : K → K → Int) : List (Tree K V) → List (Tree K V)
  | [] => []
  | head :: rest => Binomial.consLoop cmp [] head rest

def Binomial.union (cmp : K → K → Int) (h1 h2 : List (Tree K V)) : List (Tree K V) :=
  Binomial.consolidate cmp (Binomial.merge h1 h2)

/--
`findExt` loop.  State: `pre` = nodes before `ext` (last first; `prev` is its head), `ext`, `mid` = nodes
after `ext` up to and including `curr` (last first), then the nodes after `curr`.
Returns (nodes before ext, ext, nodes after ext).
-/
def Binomial.findExtLoop (cmp : K → K → Int) :
    List (Tree K V) → Tree K V → List (Tree K V) → List (Tree K V) → List (Tree K V) × Tree K V × List (Tree K V)
  | pre, ext, mid, [] => (pre.reverse, ext, mid.reverse)
  | pre, ext, mid, s :: rest =>
    -- if h.cmpKey(curr.sibling.key, ext.key) < 0 { prev, ext = curr, curr.sibling }
    if cmp s.key ext.key < 0 then Binomial.findExtLoop cmp (mid ++ ext :: pre) s [] rest
    else Binomial.findExtLoop cmp pre ext (s :: mid) rest

def Binomial.findExt (cmp : K → K → Int) : List (Tree K V) → Option (List (Tree K V) × Tree K V × List (Tree K V))
  | [] => none
  | n :: rest => some (Binomial.findExtLoop cmp [] n [] rest)

def Binomial.insert (cmp : K → K → Int) (h : Binomial K V) (key : K) (val : V) : Binomial K V :=
  { n := h.n + 1, head := Binomial.union cmp h.head [Tree.leaf key val] }

/-- `h.Merge(hh)` for `hh != h`: `h.head = h.union(h.head, hh.head); h.n += hh.n; hh.head, hh.n = nil, 0`.
Returns the receiver and the operand after the call. -/
def Binomial.mergeWith (cmp : K → K → Int) (h hh : Binomial K V) : Binomial K V × Binomial K V :=
  ({ n := h.n + hh.n, head := Binomial.union cmp h.head hh.head }, { n := 0, head := [] })

def Binomial.delete (cmp : K → K → Int) (h : Binomial K V) : Binomial K V × Option (K × V) :=
  match Binomial.findExt cmp h.head with
  | none => (h, none)
  | some (before, ext, after) =>
    -- remove ext from the root list; childrenToRootList = reversed child list; union
    ({ n := h.n - 1, head := Binomial.union cmp (before ++ after) ext.children.reverse }, some (ext.key, ext.val))

def Binomial.deleteAll (_h : Binomial K V) : Binomial K V := { n := 0, head := [] }

def Binomial.peek (cmp : K → K → Int) (h : Binomial K V) : Option (K × V) :=
  match Binomial.findExt cmp h.head with
  | none => none
  | some (_, ext, _) => some (ext.key, ext.val)

def Binomial.isEmpty (h : Binomial K V) : Bool := h.head.isEmpty

def Binomial.containsKey (cmp : K → K → Int) (h : Binomial K V) (key : K) : Bool :=
  if h.head.isEmpty then false else Tree.anyF (fun k _ => cmp k key == 0) h.head

def Binomial.containsValue (eqV : V → V → Bool) (h : Binomial K V) (val : V) : Bool :=
  if h.head.isEmpty then false else Tree.anyF (fun _ v => eqV v val) h.head

/-! ## Fibonacci heap (`heap/fibonacci.go`) -/

structure Fib (K V : Type) where
  n : Int
  /-- the circular root list read from `h.ext` along `next`; `[]` ⇔ `h.ext == nil` -/
  roots : List (Tree K V)

def Fib.new : Fib K V := { n := 0, roots := [] }

/-- `φ^k ≤ n` for `k ≥ 1`, given `lk = L_k` (Lucas number): `φ^k = L_k - (-1/φ)^k` and `0 < φ^-k < 1`. -/
def phiPowLe (k lk n : Nat) : Bool := if k % 2 = 0 then lk ≤ n else lk + 1 ≤ n

/-- largest `k` with `φ^k ≤ n`, searching upwards from `k` with `lk = L_k`, `lp = L_(k-1)` -/
def logPhiLoop (n : Nat) : Nat → Nat → Nat → Nat → Nat
  | 0, k, _, _ => k - 1
  | fuel + 1, k, lk, lp => if phiPowLe k lk n then logPhiLoop n fuel (k + 1) (lk + lp) lk else k - 1

/-- `⌊log_φ n⌋` for `n ≥ 1` -/
def floorLogPhi (n : Nat) : Nat := logPhiLoop n (n + 1) 1 1 2

/-- `maxDegree`: `int(math.Log(float64(h.n))/math.Log(φ)) + 1`; for `h.n ≤ 0` the conversion of `-Inf`/`NaN`
gives a negative length and `make` panics. -/
def maxDegree (n : Int) : Outcome Nat :=
  if n ≤ 0 then .panic else .ok (floorLogPhi n.toNat + 1)

/-- state of `consolidate` -/
structure Cons (K V : Type) where
  /-- circular root list as (id, root), written from `stop` -/
  ring : List (Nat × Tree K V)
  /-- `roots := make([]*fibonacciNode, maxD)` holding ids -/
  table : Array (Option Nat)
  /-- `h.ext` -/
  ext : Option Nat

/-- `n.next` for the node at position `j` -/
def ringNext (ring : List (Nat × Tree K V)) (j : Nat) : Option Nat :=
  (ring[(j + 1) % ring.length]?).map (·.1)

/-- the head pointer returned by `cut(head, n)` for the node `n` (id `nid`) at position `j` -/
def cutHead (ring : List (Nat × Tree K V)) (head : Option Nat) (j nid : Nat) : Option Nat :=
  -- if n.next == n && n.prev == n { return nil }
  if ring.length ≤ 1 then none
  -- if head == n { head = n.next }
  else if head = some nid then ringNext ring j else head

/-- the circular list seen from position `p`, without the node at `p` itself -/
def ringFrom (ring : List (Nat × Tree K V)) (p : Nat) : List (Nat × Tree K V) :=
  ring.drop (p + 1) ++ ring.take p

def lookup (ring : List (Nat × Tree K V)) (id : Nat) : Option (Tree K V) :=
  (ring.find? (fun e => e.1 == id)).map (·.2)

/--
The inner loop of `consolidate` for `x` = the node at position `i`:
```
for y := roots[x.degree]; y != nil && y != x; y = roots[x.degree] {
  roots[x.degree] = nil
  if h.cmpKey(x.key, y.key) > 0 { h.ext = h.cut(h.ext, x); h.link(x, y); x = y }
  else                          { h.ext = h.cut(h.ext, y); h.link(y, x) }
  stop, curr = x, x
}
```
After a link the ring is rewritten from the new `stop` (= the surviving root), so `x` is at position 0.
Returns the state and the position of `x`.
-/
def Cons.inner (cmp : K → K → Int) : Nat → Cons K V → Nat → Outcome (Cons K V × Nat)
  | 0, _, _ => .diverge
  | fuel + 1, st, i =>
    match st.ring[i]? with
    | none => .panic
    | some (xid, x) =>
      match st.table[x.deg]? with
      | none => .panic                          -- roots[x.degree]: index out of range
      | some none => .ok (st, i)                -- y == nil
      | some (some yid) =>
        if yid = xid then .ok (st, i)           -- y == x
        else
          let table := st.table.setIfInBounds x.deg none
          match st.ring.findIdx? (fun e => e.1 == yid) with
          | none => .panic                      -- y is no longer a root
          | some j =>
            match st.ring[j]? with
            | none => .panic
            | some (_, y) =>
              if cmp x.key y.key > 0 then
                let ext := cutHead st.ring st.ext i xid
                let ring := (yid, Tree.link x y) :: (ringFrom st.ring j).filter (fun e => e.1 != xid)
                Cons.inner cmp fuel { ring := ring, table := table, ext := ext } 0
              else
                let ext := cutHead st.ring st.ext j yid
                let ring := (xid, Tree.link y x) :: (ringFrom st.ring i).filter (fun e => e.1 != yid)
                Cons.inner cmp fuel { ring := ring, table := table, ext := ext } 0

/--
The outer loop of `consolidate`, `curr` = the node at position `i` of the ring written from `stop`:
```
for stop, curr := h.ext, h.ext; ; {
  x := curr;  <inner loop>;  roots[x.degree] = x
  if curr = curr.next; curr == stop { break }
}
```
-/
def Cons.outer (cmp : K → K → Int) : Nat → Cons K V → Nat → Outcome (Cons K V)
  | 0, _, _ => .diverge
  | fuel + 1, st, i =>
    obind (Cons.inner cmp (st.ring.length + 1) st i) fun r =>
      let st := r.1
      let i := r.2
      match st.ring[i]? with
      | none => .panic
      | some (xid, x) =>
        -- roots[x.degree] = x
        if x.deg < st.table.size then
          let st := { st with table := st.table.setIfInBounds x.deg (some xid) }
          if i + 1 < st.ring.length then Cons.outer cmp fuel st (i + 1) else .ok st
        else .panic

/-- `h.pickExt(a, b)` on ids: `a == nil → b`, `cmp(a.key, b.key) <= 0 → a`, else `b` (`b` is never nil here) -/
def pickExtId (cmp : K → K → Int) (ring : List (Nat × Tree K V)) (a : Option Nat) (b : Nat) : Outcome (Option Nat) :=
  match a with
  | none => .ok (some b)
  | some aid =>
    match lookup ring aid, lookup ring b with
    | some ta, some tb => .ok (some (if cmp ta.key tb.key ≤ 0 then aid else b))
    | _, _ => .panic

/-- `for _, r := range roots { if r != nil { h.ext = h.pickExt(h.ext, r) } }` -/
def pickLoop (cmp : K → K → Int) (ring : List (Nat × Tree K V)) : List (Option Nat) → Option Nat → Outcome (Option Nat)
  | [], ext => .ok ext
  | none :: rs, ext => pickLoop cmp ring rs ext
  | some r :: rs, ext => obind (pickExtId cmp ring ext r) fun ext => pickLoop cmp ring rs ext

/-- the root list read from `h.ext` -/
def ringToRoots (ring : List (Nat × Tree K V)) (ext : Option Nat) : List (Tree K V) :=
  match ext with
  | none => []
  | some e =>
    match ring.findIdx? (fun x => x.1 == e) with
    | none => []
    | some p => (ring.drop p ++ ring.take p).map (·.2)

/-- `consolidate` on a non-empty root list -/
def Fib.consolidate (cmp : K → K → Int) (n : Int) (roots : List (Tree K V)) : Outcome (List (Tree K V)) :=
  obind (maxDegree n) fun maxD =>
    let ring := roots.zipIdx.map fun p => (p.2, p.1)
    let st : Cons K V := { ring := ring, table := Array.replicate maxD none, ext := some 0 }
    obind (Cons.outer cmp ((roots.length + 1) * (roots.length + 1)) st 0) fun st =>
      obind (pickLoop cmp st.ring st.table.toList st.ext) fun ext =>
        .ok (ringToRoots st.ring ext)

/-- `Insert`: `h.insert(h.ext, n)` puts `n` just before `h.ext`, i.e. last in the list read from `h.ext`;
`h.ext = pickExt(h.ext, n)` then moves the entry point to `n` iff `cmp(h.ext.key, n.key) > 0`. -/
def Fib.insert (cmp : K → K → Int) (h : Fib K V) (key : K) (val : V) : Fib K V :=
  let t := Tree.leaf key val
  match h.roots with
  | [] => { n := h.n + 1, roots := [t] }
  | e :: _ =>
    if cmp e.key key ≤ 0 then { n := h.n + 1, roots := h.roots ++ [t] }
    else { n := h.n + 1, roots := t :: h.roots }

/-- `meld(h1, h2)` read from `h1`: `h1 … h1.prev, h2.next … h2` -/
def meld (l1 l2 : List (Tree K V)) : List (Tree K V) :=
  match l1, l2 with
  | [], l2 => l2
  | l1, [] => l1
  | l1, b :: r2 => l1 ++ r2 ++ [b]

/-- the root list read from `h.ext` after `h.meld(h.ext, hh.ext); h.ext = h.pickExt(h.ext, hh.ext)` -/
def Fib.mergeRoots (cmp : K → K → Int) (l1 l2 : List (Tree K V)) : List (Tree K V) :=
  match l1, l2 with
  | [], l2 => l2
  | l1, [] => l1
  | a :: r1, b :: r2 =>
    if cmp a.key b.key ≤ 0 then (a :: r1) ++ r2 ++ [b]
    else b :: ((a :: r1) ++ r2)

/-- `h.Merge(hh)` for `hh != h`: `h.meld(h.ext, hh.ext); h.ext = h.pickExt(h.ext, hh.ext); h.n += hh.n;
hh.ext, hh.n = nil, 0`.  Returns the receiver and the operand after the call. -/
def Fib.mergeWith (cmp : K → K → Int) (h hh : Fib K V) : Fib K V × Fib K V :=
  ({ n := h.n + hh.n, roots := Fib.mergeRoots cmp h.roots hh.roots }, { n := 0, roots := [] })

def Fib.delete (cmp : K → K → Int) (h : Fib K V) : Outcome (Fib K V × Option (K × V)) :=
  match h.roots with
  | [] => .ok (h, none)
  | ext :: rest =>
    -- h.ext = h.cut(h.ext, ext); if ext.child != nil { h.ext = h.meld(h.ext, ext.child) }
    let roots := meld rest ext.children
    let n := h.n - 1
    if roots.isEmpty then .ok ({ n := n, roots := [] }, some (ext.key, ext.val))
    else obind (Fib.consolidate cmp n roots) fun roots => .ok ({ n := n, roots := roots }, some (ext.key, ext.val))

def Fib.deleteAll (_h : Fib K V) : Fib K V := { n := 0, roots := [] }

def Fib.peek (h : Fib K V) : Option (K × V) :=
  match h.roots with
  | [] => none
  | e :: _ => some (e.key, e.val)

def Fib.isEmpty (h : Fib K V) : Bool := h.roots.isEmpty

def Fib.containsKey (cmp : K → K → Int) (h : Fib K V) (key : K) : Bool :=
  if h.roots.isEmpty then false else Tree.anyF (fun k _ => cmp k key == 0) h.roots

def Fib.containsValue (eqV : V → V → Bool) (h : Fib K V) (val : V) : Bool :=
  if h.roots.isEmpty then false else Tree.anyF (fun _ v => eqV v val) h.roots

end AlgoVerif.C04
