import AlgoVerif.Model.C04
import AlgoVerif.Spec.C04
/-!
# C04: uniform `step` functions and `run` for the three Models

* `Binary.step`, `Binomial.step`, `Fib.step` : one `heap.Heap` operation on one heap;
* `run1`   : a history on one heap (the binary heap is not mergeable);
* `Impl`, `runM` : a history on a family of mergeable heaps (registers), see `Spec/C04.lean`.

The driver executes exactly these `step` / `merge` functions.
-/
namespace AlgoVerif.C04
variable {K V : Type}

def Binary.step (cmp : K → K → Int) (eqV : V → V → Bool) (h : Binary K V) : Op K V → Outcome (Binary K V × Out K V)
  | .insert k v => obind (h.insert cmp k v) fun h' => .ok (h', .unit)
  | .delete => obind (h.delete cmp) fun r => .ok (r.1, .kv r.2)
  | .deleteAll => .ok (h.deleteAll, .unit)
  | .peek => obind h.peek fun r => .ok (h, .kv r)
  | .size => .ok (h, .int h.n)
  | .isEmpty => .ok (h, .bool (h.n == 0))
  | .containsKey k => obind (h.containsKey cmp k) fun b => .ok (h, .bool b)
  | .containsValue v => obind (h.containsValue eqV v) fun b => .ok (h, .bool b)

def Binomial.step (cmp : K → K → Int) (eqV : V → V → Bool) (h : Binomial K V) : Op K V → Outcome (Binomial K V × Out K V)
  | .insert k v => .ok (h.insert cmp k v, .unit)
  | .delete => .ok ((h.delete cmp).1, .kv (h.delete cmp).2)
  | .deleteAll => .ok (h.deleteAll, .unit)
  | .peek => .ok (h, .kv (h.peek cmp))
  | .size => .ok (h, .int h.n)
  | .isEmpty => .ok (h, .bool h.isEmpty)
  | .containsKey k => .ok (h, .bool (h.containsKey cmp k))
  | .containsValue v => .ok (h, .bool (h.containsValue eqV v))

def Fib.step (cmp : K → K → Int) (eqV : V → V → Bool) (h : Fib K V) : Op K V → Outcome (Fib K V × Out K V)
  | .insert k v => .ok (h.insert cmp k v, .unit)
  | .delete => obind (h.delete cmp) fun r => .ok (r.1, .kv r.2)
  | .deleteAll => .ok (h.deleteAll, .unit)
  | .peek => .ok (h, .kv h.peek)
  | .size => .ok (h, .int h.n)
  | .isEmpty => .ok (h, .bool h.isEmpty)
  | .containsKey k => .ok (h, .bool (h.containsKey cmp k))
  | .containsValue v => .ok (h, .bool (h.containsValue eqV v))

/-- Run a history on one heap.  One entry per executed operation; the trace stops with `panic` / `diverge`
at the first operation that fails. -/
def run1 {σ : Type} (step : σ → Op K V → Outcome (σ × Out K V)) : σ → List (Op K V) → List (Outcome (Out K V))
  | _, [] => []
  | s, op :: ops =>
    match step s op with
    | .ok (s', o) => .ok o :: run1 step s' ops
    | .panic => [.panic]
    | .diverge => [.diverge]

/-- history → trace of the binary heap created by `NewBinary(size, cmp, eqV)` -/
def Binary.run (cmp : K → K → Int) (eqV : V → V → Bool) (size : Nat) : List (Op K V) → List (Outcome (Out K V)) :=
  run1 (Binary.step cmp eqV) (Binary.new size)

/-- a mergeable heap implementation -/
structure Impl (K V : Type) where
  σ : Type
  /-- `NewBinomial(cmp, eqV)` / `NewFibonacci(cmp, eqV)` -/
  init : σ
  step : σ → Op K V → Outcome (σ × Out K V)
  /-- `h.Merge(hh)` for two different heaps: the receiver and the operand after the call -/
  merge : σ → σ → Outcome (σ × σ)

def update {α : Type} (f : Nat → α) (i : Nat) (a : α) : Nat → α := fun j => if j = i then a else f j

def Impl.mstep (I : Impl K V) (regs : Nat → I.σ) : MOp K V → Outcome ((Nat → I.σ) × Out K V)
  | .on r op => obind (I.step (regs r) op) fun p => .ok (update regs r p.1, p.2)
  | .merge d s =>
    -- `hh != h`: merging a heap into itself does nothing
    if d = s then .ok (regs, .unit)
    else obind (I.merge (regs d) (regs s)) fun p => .ok (update (update regs d p.1) s p.2, .unit)
  -- `hh, ok := H.(*binomial[K, V])` / `H.(*fibonacci[K, V])` with `ok = false`: the body of the `if` is skipped
  | .mergeOther _ => .ok (regs, .unit)

def Impl.runFrom (I : Impl K V) : (Nat → I.σ) → List (MOp K V) → List (Outcome (Out K V))
  | _, [] => []
  | regs, op :: ops =>
    match I.mstep regs op with
    | .ok (regs', o) => .ok o :: I.runFrom regs' ops
    | .panic => [.panic]
    | .diverge => [.diverge]

/-- the family of heaps after a history (`panic`/`diverge` if some operation fails) -/
def Impl.stateAfter (I : Impl K V) : (Nat → I.σ) → List (MOp K V) → Outcome (Nat → I.σ)
  | regs, [] => .ok regs
  | regs, op :: ops => obind (I.mstep regs op) fun p => I.stateAfter p.1 ops

/-- history → trace on a family of heaps that are all freshly created -/
def Impl.run (I : Impl K V) (ops : List (MOp K V)) : List (Outcome (Out K V)) := I.runFrom (fun _ => I.init) ops

def binomialImpl (cmp : K → K → Int) (eqV : V → V → Bool) : Impl K V where
  σ := Binomial K V
  init := Binomial.new
  step := Binomial.step cmp eqV
  merge := fun h hh => .ok (h.mergeWith cmp hh)

def fibImpl (cmp : K → K → Int) (eqV : V → V → Bool) : Impl K V where
  σ := Fib K V
  init := Fib.new
  step := Fib.step cmp eqV
  merge := fun h hh => .ok (h.mergeWith cmp hh)

/-! ## a family whose heaps were built with DIFFERENT comparators

`NewBinomial(cmp, eqV)` / `NewFibonacci(cmp, eqV)` store the comparator in the heap; `h.Merge(hh)` only asserts the
implementation type of `hh`, so heaps built with different comparators can be merged: the receiver's code runs with
the receiver's comparator on the operand's trees.  `cmps r` is the comparator heap `r` of the family was built with. -/

/-- a mergeable heap implementation as a function of the comparator its constructor is given -/
structure ImplC (K V : Type) where
  σ : Type
  init : σ
  step : (K → K → Int) → σ → Op K V → Outcome (σ × Out K V)
  /-- `h.Merge(hh)` for two different heaps, run with the RECEIVER's comparator -/
  merge : (K → K → Int) → σ → σ → Outcome (σ × σ)

/-- the family in which every heap is built with the same comparator -/
def ImplC.at (I : ImplC K V) (cmp : K → K → Int) : Impl K V where
  σ := I.σ
  init := I.init
  step := I.step cmp
  merge := I.merge cmp

def ImplC.mstep (I : ImplC K V) (cmps : Nat → K → K → Int) (regs : Nat → I.σ) :
    MOp K V → Outcome ((Nat → I.σ) × Out K V)
  | .on r op => obind (I.step (cmps r) (regs r) op) fun p => .ok (update regs r p.1, p.2)
  | .merge d s =>
    if d = s then .ok (regs, .unit)
    else obind (I.merge (cmps d) (regs d) (regs s)) fun p => .ok (update (update regs d p.1) s p.2, .unit)
  | .mergeOther _ => .ok (regs, .unit)

def ImplC.runFrom (I : ImplC K V) (cmps : Nat → K → K → Int) : (Nat → I.σ) → List (MOp K V) → List (Outcome (Out K V))
  | _, [] => []
  | regs, op :: ops =>
    match I.mstep cmps regs op with
    | .ok (regs', o) => .ok o :: I.runFrom cmps regs' ops
    | .panic => [.panic]
    | .diverge => [.diverge]

/-- history → trace on a family of freshly created heaps, heap `r` built with comparator `cmps r` -/
def ImplC.run (I : ImplC K V) (cmps : Nat → K → K → Int) (ops : List (MOp K V)) : List (Outcome (Out K V)) :=
  I.runFrom cmps (fun _ => I.init) ops

def binomialImplC (eqV : V → V → Bool) : ImplC K V where
  σ := Binomial K V
  init := Binomial.new
  step := fun cmp => Binomial.step cmp eqV
  merge := fun cmp h hh => .ok (h.mergeWith cmp hh)

def fibImplC (eqV : V → V → Bool) : ImplC K V where
  σ := Fib K V
  init := Fib.new
  step := fun cmp => Fib.step cmp eqV
  merge := fun cmp h hh => .ok (h.mergeWith cmp hh)

end AlgoVerif.C04
