import AlgoVerif.Common
import AlgoVerif.Generated.C20
/-!
# C20 — Model: what the race workloads are predicted to do, computed from the regenerated table

`Generated/C20.lean` (rewritten by `bin/pre-C20` from /repo's current source on every run) lists, for
every exported API entry, the package-level variables that code reachable from it may mutate.
A workload of `/verif/harness/c20/workload` exercises a fixed list of API entries on instances that
are private to each goroutine; the Model predicts

* `norace same-results` when none of these entries reaches a mutated package-level variable
  (then `C20_race_free` / `C20_schedule_independent` apply: no conflicting access, results as in the
  sequential run);
* `race-possible …` (naming the variables) otherwise;
* `unknown-api …` when an entry is no longer in the table (renamed / removed API: the workload list
  below must be brought up to date).

So the Model's answer changes when the regenerated table changes.  Core Lean only.
-/
namespace AlgoVerif.C20
open AlgoVerif.Generated.C20

private def hashTableMethods : List String :=
  ["Put", "Get", "Delete", "All", "Size", "Equal", "AnyMatch", "AllMatch", "SelectMatch", "String"]

private def setMethods : List String :=
  ["Add", "All", "Union", "Intersection", "Difference", "IsSubset", "Equal", "Clone", "Size", "Contains"]

/-- the API entries each workload calls directly (names exactly as the extractor prints them) -/
def workloadEntries : List (String × List String) := [
  ("hashtable-iterate",
    ["hash.HashFuncForInt", "hash.HashFuncForString", "symboltable.NewChainHashTable", "symboltable.NewLinearHashTable",
     "symboltable.NewQuadraticHashTable", "symboltable.NewDoubleHashTable"]
    ++ (["chainHashTable", "linearHashTable", "quadraticHashTable", "doubleHashTable"].flatMap fun t =>
          hashTableMethods.map fun m => "symboltable." ++ t ++ "." ++ m)),
  ("set-iterate",
    ["set.New", "set.NewStable", "set.NewSorted", "set.Powerset", "set.Partitions"]
    ++ (["set", "stable", "sorted"].flatMap fun t => setMethods.map fun m => "set." ++ t ++ "." ++ m)),
  ("first-follow",
    ["grammar.NewCFG", "grammar.CFG.ComputeFIRST", "grammar.CFG.ComputeFOLLOW", "grammar.CFG.NullableNonTerminals",
     "set.set.All"]),
  ("grammar-transform",
    ["grammar.NewCFG", "grammar.CFG.Verify", "grammar.CFG.Clone", "grammar.CFG.Equal",
     "grammar.CFG.EliminateEmptyProductions", "grammar.CFG.EliminateSingleProductions",
     "grammar.CFG.EliminateUnreachableProductions", "grammar.CFG.Symbols", "grammar.CFG.OrderTerminals",
     "grammar.CFG.OrderNonTerminals", "grammar.CFG.IsLL1", "grammar.Productions.All", "grammar.Production.String"]),
  ("ll1-table",
    ["grammar.NewCFG", "parser/predictive.BuildParsingTable", "parser/predictive.ParsingTable.Conflicts",
     "parser/predictive.ParsingTable.GetProduction", "parser/predictive.ParsingTable.IsSync",
     "parser/predictive.ParsingTable.IsEmpty"]),
  ("lr-slr",
    ["grammar.NewCFG", "parser/lr/simple.BuildParsingTable", "parser/lr.ParsingTable.ACTION", "parser/lr.ParsingTable.GOTO"]),
  ("lr-lalr",
    ["grammar.NewCFG", "parser/lr/lookahead.BuildParsingTable", "parser/lr.ParsingTable.ACTION", "parser/lr.ParsingTable.GOTO"]),
  ("lr-canonical",
    ["grammar.NewCFG", "parser/lr/canonical.BuildParsingTable", "parser/lr.ParsingTable.ACTION", "parser/lr.ParsingTable.GOTO"]),
  ("automata-determinize",
    ["automata.NewNFA", "automata.NFA.Add", "automata.NFA.ToDFA", "automata.DFA.Minimize",
     "automata.DFA.EliminateDeadStates", "automata.DFA.ReindexStates", "automata.NFA.States", "automata.DFA.States",
     "automata.DFA.Symbols", "automata.NFA.Accept", "automata.DFA.Accept", "automata.NFA.Equal", "automata.NFA.Clone",
     "automata.DFA.Equal", "automata.DFA.Clone", "automata.DFA.ToNFA", "automata.NFA.Union", "automata.NFA.Star"]),
  ("hash-api",
    ["grammar.HashSymbol", "grammar.HashTerminal", "grammar.HashNonTerminal", "grammar.HashString",
     "grammar.HashProduction", "grammar.EqSymbol", "grammar.EqString", "grammar.EqProduction", "grammar.CmpSymbol",
     "grammar.CmpString", "grammar.CmpProduction", "grammar.CmpTerminal", "automata.HashState", "automata.HashSymbol",
     "automata.EqState", "automata.CmpSymbol", "parser/lr.HashState", "parser/lr.EqState", "parser/lr.CmpState",
     "hash.HashFuncForString", "hash.HashFuncForStringSlice", "hash.HashFuncForInt", "hash.HashFuncForIntSlice",
     "hash.HashFuncForUint8Slice", "hash.HashFuncForFloat64", "hash.HashFuncForBool", "hash.HashFuncForInt32",
     "hash.HashFuncForUint64"]),
  ("ordered-tables",
    ["symboltable.NewBST", "symboltable.NewAVL", "symboltable.NewRedBlack"]
    ++ (["bst", "avl", "redBlack"].flatMap fun t =>
          ["Put", "Delete", "Min", "Max", "Floor", "Select", "Rank", "Height", "All", "DeleteMin", "DeleteMax", "RangeSize", "Size"].map
            fun m => "symboltable." ++ t ++ "." ++ m)),
  ("tries",
    ["trie.NewBinary", "trie.NewPatricia"]
    ++ (["binary", "patricia"].flatMap fun t =>
          ["Put", "Delete", "Min", "Max", "Rank", "WithPrefix", "All", "Size"].map fun m => "trie." ++ t ++ "." ++ m)),
  ("heaps",
    ["heap.NewBinary", "heap.NewBinomial", "heap.NewFibonacci", "heap.NewIndexedBinary", "heap.NewIndexedBinomial",
     "heap.NewIndexedFibonacci"]
    ++ (["binary", "binomial", "fibonacci"].flatMap fun t =>
          ["Insert", "Delete", "Peek", "Size", "ContainsKey"].map fun m => "heap." ++ t ++ "." ++ m)
    ++ (["indexedBinary", "indexedBinomial", "indexedFibonacci"].flatMap fun t =>
          ["Insert", "ChangeKey", "DeleteIndex", "Delete", "Size", "ContainsIndex"].map fun m => "heap." ++ t ++ "." ++ m)),
  ("lexer-input",
    ["lexer/input.New", "lexer/input.Input.Next", "lexer/input.Input.Lexeme", "lexer/input.Input.Retract"]),
  ("graphs-dot",
    ["graph.NewUndirected", "graph.NewDirected", "graph.Undirected.AddEdge", "graph.Directed.AddEdge",
     "graph.Undirected.DOT", "graph.Directed.DOT", "graph.Directed.Reverse", "graph.Undirected.ConnectedComponents",
     "graph.Directed.StronglyConnectedComponents", "graph.Directed.Topological", "heap.binomial.DOT",
     "heap.fibonacci.DOT", "automata.NFA.DOT", "automata.DFA.DOT"]),
  ("parse-predictive",
    ["grammar.NewCFG", "parser/predictive.New", "parser/predictive.predictiveParser.Parse",
     "parser/predictive.predictiveParser.ParseAndBuildAST", "parser.Traverse", "parser.InternalNode.String",
     "parser.InternalNode.Equal", "lexer.Token.String", "lexer.Position.String"]),
  ("parse-slr", ["parser/lr/simple.New", "grammar.NewCFG", "parser/lr.Parser.Parse", "parser/lr.Parser.ParseAndBuildAST", "parser/lr.Parser.ParseAndEvaluate", "parser.Traverse", "parser.InternalNode.String", "parser.InternalNode.Equal", "lexer.Token.String", "lexer.Position.String"]),
  ("parse-lalr", ["parser/lr/lookahead.New", "grammar.NewCFG", "parser/lr.Parser.Parse", "parser/lr.Parser.ParseAndBuildAST", "parser/lr.Parser.ParseAndEvaluate", "parser.Traverse", "parser.InternalNode.String", "parser.InternalNode.Equal", "lexer.Token.String", "lexer.Position.String"]),
  ("parse-lr1", ["parser/lr/canonical.New", "grammar.NewCFG", "parser/lr.Parser.Parse", "parser/lr.Parser.ParseAndBuildAST", "parser/lr.Parser.ParseAndEvaluate", "parser.Traverse", "parser.InternalNode.String", "parser.InternalNode.Equal", "lexer.Token.String", "lexer.Position.String"]),
  ("combinator",
    ["parser/combinator.ExpectRuneInRange", "parser/combinator.ExpectRune", "parser/combinator.ExpectString",
     "parser/combinator.ExpectRunes", "parser/combinator.ExpectRuneIn", "parser/combinator.Parser.REP1",
     "parser/combinator.Parser.REP", "parser/combinator.Parser.Flatten", "parser/combinator.Parser.CONCAT",
     "parser/combinator.Parser.ALT", "parser/combinator.Parser.OPT"]),
  ("automata-combine",
    ["automata.NewNFA", "automata.NFA.Add", "automata.NFA.Concat", "automata.NFA.Union", "automata.NFA.Star",
     "automata.NFA.Isomorphic", "automata.DFA.Isomorphic", "automata.CombineDFA", "automata.NFA.ToDFA",
     "automata.DFA.Minimize", "automata.DFA.ReindexStates", "automata.DFA.Transitions", "automata.NFA.Transitions",
     "automata.DFA.String", "automata.NFA.String", "automata.NFA.Accept", "automata.DFA.Accept"]),
  ("grammar-normalize",
    ["grammar.NewCFG", "grammar.CFG.EliminateLeftRecursion", "grammar.CFG.LeftFactor", "grammar.CFG.ChomskyNormalForm",
     "grammar.CFG.IsCNF", "grammar.CFG.EliminateCycles", "grammar.CFG.AddNewNonTerminal", "grammar.CFG.IsLL1",
     "grammar.CFG.Verify", "grammar.CFG.Clone", "grammar.LongestCommonPrefixOf"]),
  ("func-values",
    ["grammar.HashSymbol", "grammar.HashTerminal", "grammar.HashNonTerminal", "grammar.HashString",
     "grammar.HashProduction", "grammar.EqSymbol", "grammar.EqTerminal", "grammar.EqNonTerminal", "grammar.EqString",
     "grammar.EqProduction", "grammar.EqProductionSet", "grammar.EqTerminalsAndEmpty", "grammar.EqTerminalsAndEndmarker",
     "grammar.CmpSymbol", "grammar.CmpTerminal", "grammar.CmpNonTerminal", "grammar.CmpString", "grammar.CmpProduction",
     "automata.HashState", "automata.HashSymbol", "automata.EqState", "automata.EqSymbol", "automata.CmpState",
     "automata.CmpSymbol", "parser/lr.HashState", "parser/lr.EqState", "parser/lr.CmpState", "parser/lr.EqItem",
     "parser/lr.EqItemSet", "parser/lr.CmpItem", "parser/lr.CmpItemSet", "parser.EqNode", "errors.DefaultErrorFormat",
     "errors.BulletErrorFormat", "symboltable.NewQuadraticHashTable", "symboltable.NewDoubleHashTable",
     "symboltable.NewLinearHashTable", "symboltable.NewChainHashTable", "set.New", "parser/lr.NewItemSet"]),
  ("structures",
    ["sort.Quick", "sort.Quick3Way", "sort.Merge", "sort.Heap", "sort.Shell", "sort.Insertion", "sort.Select",
     "radixsort.LSDInt", "radixsort.MSDInt", "radixsort.Quick3WayString", "radixsort.MSDString",
     "list.NewQueue", "list.NewStack", "list.NewSoftQueue", "list.arrayQueue.Enqueue", "list.arrayStack.Push",
     "list.softQueue.Enqueue", "list.arrayQueue.Dequeue", "list.arrayStack.Pop", "list.softQueue.Dequeue",
     "unionfind.NewQuickFind", "unionfind.NewQuickUnion", "unionfind.NewWeightedQuickUnion"]),
  -- the workloads of harness/c20/workload/large.go: large private instances, iterators used twice, the rest of the API
  ("large-hashtables",
    ["hash.HashFuncForInt", "hash.HashFuncForString", "symboltable.NewChainHashTable", "symboltable.NewLinearHashTable",
     "symboltable.NewQuadraticHashTable", "symboltable.NewDoubleHashTable"]
    ++ (["chainHashTable", "linearHashTable", "quadraticHashTable", "doubleHashTable"].flatMap fun t =>
          ["Put", "Get", "Delete", "All", "Size"].map fun m => "symboltable." ++ t ++ "." ++ m)),
  ("large-sets",
    ["set.New", "set.NewStable", "set.NewSorted"]
    ++ (["set", "stable", "sorted"].flatMap fun t =>
          ["Add", "Remove", "All", "Union", "Intersection", "Difference", "IsSubset", "Equal", "Clone", "Size"].map
            fun m => "set." ++ t ++ "." ++ m)),
  ("large-structures",
    ["sort.Quick", "sort.Quick3Way", "sort.Merge", "sort.MergeRec", "sort.Heap", "sort.Shell", "sort.Insertion",
     "sort.Selection", "radixsort.LSDInt", "radixsort.MSDInt", "radixsort.LSDUint", "radixsort.MSDUint",
     "radixsort.LSDString", "radixsort.MSDString", "radixsort.Quick3WayString",
     "symboltable.NewBST", "symboltable.NewAVL", "symboltable.NewRedBlack", "trie.NewBinary", "trie.NewPatricia",
     "heap.NewBinary", "heap.NewBinomial", "heap.NewFibonacci", "heap.NewIndexedBinary", "heap.NewIndexedBinomial",
     "heap.NewIndexedFibonacci", "graph.NewUndirected", "graph.NewDirected", "graph.NewWeightedUndirected",
     "graph.NewWeightedDirected", "graph.NewFlowNetwork", "graph.Undirected.AddEdge", "graph.Directed.AddEdge",
     "graph.Undirected.ConnectedComponents", "graph.Directed.StronglyConnectedComponents", "graph.Directed.Topological",
     "graph.Directed.DirectedCycle", "graph.Directed.Orders", "graph.Undirected.Paths", "graph.Directed.Reverse",
     "graph.WeightedUndirected.AddEdge", "graph.WeightedDirected.AddEdge", "graph.FlowNetwork.AddEdge",
     "graph.WeightedUndirected.MinimumSpanningTree", "graph.WeightedDirected.ShortestPathTree", "graph.FlowNetwork.DOT",
     "list.NewQueue", "list.NewStack", "list.NewSoftQueue", "list.arrayQueue.Enqueue", "list.arrayStack.Push",
     "list.softQueue.Enqueue", "list.arrayQueue.Dequeue", "list.arrayStack.Pop", "list.softQueue.Dequeue",
     "unionfind.NewQuickFind", "unionfind.NewQuickUnion", "unionfind.NewWeightedQuickUnion",
     "lexer/input.New", "lexer/input.Input.Next", "lexer/input.Input.Lexeme"]
    ++ (["bst", "avl", "redBlack"].flatMap fun t =>
          ["Put", "Delete", "Min", "Max", "Rank", "All", "Size"].map fun m => "symboltable." ++ t ++ "." ++ m)
    ++ (["binary", "patricia"].flatMap fun t =>
          ["Put", "Delete", "Min", "WithPrefix", "All", "Size"].map fun m => "trie." ++ t ++ "." ++ m)
    ++ (["binary", "binomial", "fibonacci"].flatMap fun t =>
          ["Insert", "Delete", "Peek", "Size"].map fun m => "heap." ++ t ++ "." ++ m)
    ++ (["indexedBinary", "indexedBinomial", "indexedFibonacci"].flatMap fun t =>
          ["Insert", "ChangeKey", "DeleteIndex", "Delete", "Size"].map fun m => "heap." ++ t ++ "." ++ m)),
  ("large-grammar",
    ["grammar.NewCFG", "grammar.CFG.Verify", "grammar.CFG.ComputeFIRST", "grammar.CFG.ComputeFOLLOW",
     "grammar.CFG.NullableNonTerminals", "parser/predictive.BuildParsingTable", "parser/predictive.ParsingTable.Conflicts",
     "parser/predictive.ParsingTable.String", "parser/lr/simple.BuildParsingTable", "parser/lr.ParsingTable.String",
     "grammar.CFG.ChomskyNormalForm", "grammar.CFG.EliminateLeftRecursion", "grammar.CFG.LeftFactor", "grammar.CFG.Clone",
     "grammar.CFG.Equal", "grammar.Productions.All"]),
  ("iter-twice",
    ["set.New", "set.NewStable", "set.NewSorted", "set.NewWithFormat", "set.Powerset", "set.set.All", "set.stable.All",
     "set.sorted.All", "set.set.Add", "set.stable.Add", "set.sorted.Add", "set.set.String", "set.stable.String",
     "set.sorted.String", "symboltable.NewChainHashTable", "symboltable.NewLinearHashTable",
     "symboltable.NewQuadraticHashTable", "symboltable.NewDoubleHashTable", "symboltable.chainHashTable.All",
     "symboltable.linearHashTable.All", "symboltable.quadraticHashTable.All", "symboltable.doubleHashTable.All",
     "symboltable.NewBST", "symboltable.NewAVL", "symboltable.NewRedBlack", "symboltable.bst.All", "symboltable.avl.All",
     "symboltable.redBlack.All", "trie.NewBinary", "trie.NewPatricia", "trie.binary.All", "trie.patricia.All",
     "grammar.NewCFG", "grammar.Productions.All", "grammar.Productions.AllByHead", "grammar.CFG.ComputeFIRST",
     "hash.HashFuncForInt"]),
  ("api-sweep",
    ["generic.NewEqualFunc", "generic.NewCompareFunc", "generic.NewReverseCompareFunc", "generic.Collect1",
     "generic.Collect2", "generic.Find", "generic.Contains", "generic.AnyMatch", "generic.AllMatch", "generic.FirstMatch",
     "generic.SelectMatch", "generic.PartitionMatch", "generic.Transform",
     "set.NewWithFormat", "set.NewStableWithFormat", "set.NewSortedWithFormat", "set.NewSorted",
     "sort.Shuffle", "sort.MergeRec", "sort.Selection", "radixsort.LSDUint", "radixsort.MSDUint", "radixsort.LSDString",
     "hash.HashFuncForBoolSlice", "hash.HashFuncForInt8", "hash.HashFuncForInt8Slice", "hash.HashFuncForInt16",
     "hash.HashFuncForInt16Slice", "hash.HashFuncForInt32Slice", "hash.HashFuncForInt64", "hash.HashFuncForInt64Slice",
     "hash.HashFuncForUint8", "hash.HashFuncForUint16", "hash.HashFuncForUint16Slice", "hash.HashFuncForUint32",
     "hash.HashFuncForUint32Slice", "hash.HashFuncForUint64Slice", "hash.HashFuncForUintptr",
     "hash.HashFuncForUintptrSlice", "hash.HashFuncForUint", "hash.HashFuncForUintSlice", "hash.HashFuncForFloat32",
     "hash.HashFuncForFloat32Slice", "hash.HashFuncForFloat64Slice", "hash.HashFuncForComplex64",
     "hash.HashFuncForComplex64Slice", "hash.HashFuncForComplex128", "hash.HashFuncForComplex128Slice",
     "errors.Append", "errors.MultiError.Unwrap", "errors.MultiError.Is", "errors.MultiError.Error",
     "dot.NewGraph", "dot.NewSubgraph", "dot.NewRecord", "dot.NewSimpleField", "dot.NewComplexField", "dot.NewNode",
     "dot.NewEdge", "dot.Graph.DOT",
     "automata.NewStates", "automata.NewSymbols",
     "grammar.NewCFG", "grammar.NewProductions", "grammar.OrderProductionSet", "grammar.WriteSymbol", "grammar.WriteString",
     "grammar.Productions.Add", "grammar.Productions.Get", "grammar.Productions.Equal",
     "parser/lr.NewGrammarWithLR0", "parser/lr.NewGrammarWithLR1", "parser/lr.NewGrammarWithLR0Kernel",
     "parser/lr.NewGrammarWithLR1Kernel", "parser/lr.BuildStateMap", "parser/lr/lookahead.ComputeLALR1Kernels",
     "parser/lr.NewItemSetCollection", "parser/lr.NewItemSet", "parser/lr.PrecedenceHandleForTerminal",
     "parser/lr.PrecedenceHandleForProduction", "parser/lr.NewPrecedenceHandles", "parser/lr.NewParsingTable",
     "parser/lr.ParsingTable.SetGOTO", "parser/lr.ParsingTable.String", "parser/lr.ParsingTable.Equal",
     "parser/predictive.NewParsingTable", "parser/predictive.ParsingTable.String", "parser/predictive.ParsingTable.Equal",
     "parser/predictive.ParsingTable.IsEmpty",
     "parser/combinator.ExpectRuneInRange", "parser/combinator.ExcludeRunes", "parser/combinator.Parser.Bind",
     "graph.NewWeightedUndirected", "graph.NewWeightedDirected", "graph.NewFlowNetwork"])
]

/-- the workloads the `mixed` workload draws from (goroutine g runs entry (g+seed) mod n) -/
def mixedWorkloads : List String :=
  ["hashtable-iterate", "lr-slr", "set-iterate", "automata-determinize", "first-follow", "lr-lalr",
   "grammar-transform", "ll1-table", "lr-canonical", "structures", "hash-api", "ordered-tables", "tries", "heaps",
   "lexer-input", "graphs-dot", "parse-predictive", "parse-slr", "parse-lalr", "parse-lr1", "combinator",
   "automata-combine", "grammar-normalize", "func-values"]

def entriesOf (w : String) : Option (List String) :=
  if w = "mixed" then
    some (mixedWorkloads.flatMap fun m => ((workloadEntries.find? (·.1 = m)).map (·.2)).getD [])
  else (workloadEntries.find? (·.1 = w)).map (·.2)

inductive Prediction where
  | norace
  | race (globals : List String)
  | unknownApi (names : List String)
  deriving Repr, DecidableEq

def lookupApi (api : String) : Option (List String) :=
  (apiReach.find? (·.api = api)).map (·.mutatedGlobals)

def dedup : List String → List String
  | [] => []
  | x :: xs => if xs.contains x then dedup xs else x :: dedup xs

/-- the Model's prediction for a list of API entries, read off the regenerated table -/
def predictEntries (es : List String) : Prediction :=
  let missing := es.filter fun e => (lookupApi e).isNone
  if !missing.isEmpty then .unknownApi missing
  else
    let gs := dedup (es.flatMap fun e => (lookupApi e).getD [])
    if gs.isEmpty then .norace else .race gs

/-- one output line of the line protocol -/
def showPrediction : Prediction → String
  | .norace => "ok norace same-results"
  | .race gs => "ok race-possible " ++ " ".intercalate gs
  | .unknownApi ns => "ok unknown-api " ++ " ".intercalate ns

/-- the line the Model predicts for workload `w`.  The two `selftest-*` workloads do not touch the
library: they check the measuring instrument (the race build must report the deliberately racy
counter of the workload program itself, and must not report the private one). -/
def predictLine (w : String) : String :=
  if w = "selftest-race" then "ok race same-results"
  else if w = "selftest-private" then "ok norace same-results"
  else match entriesOf w with
    | some es => showPrediction (predictEntries es)
    | none => "bad-case"

end AlgoVerif.C20
