import AlgoVerif.Model.GrammarCore
import AlgoVerif.Generated.C11Consts
/-!
# C11 — Model, part 1: what the LR *driver* and the conflict resolution work on

Mirrors (of /repo, after the two `fix:` patches for D17/D18):

* `parser/lr/action.go`            — `Action`
* `parser/lr/parsing_table.go`     — `ParsingTable.ACTION / GOTO`, `resolveConflict`, `ResolveConflicts`
* `parser/lr/precedence.go`        — `PrecedenceHandle`, `PrecedenceLevels.{Verify,Precedence,Compare}`
* `parser/lr/lr.go`                — `Parser.Parse`, `Parser.ParseAndBuildAST`
* `parser/ast.go`                  — `LeafNode` / `InternalNode` as far as the yield needs them

Core Lean only.  States are `Int` because the code stores `ErrState = -1` in actions and on the stack.
-/
namespace AlgoVerif.C11
open AlgoVerif AlgoVerif.Gram

abbrev Sy := SSym
abbrev Pr := SProd

/-- `grammar.Endmarker` (a private-use code point, rendered `$`), regenerated from grammar/symbol.go by `bin/pre-C11` -/
def endmarker : String := AlgoVerif.Generated.C11.grammar_Endmarker

/-- `lr.Action` (the `ERROR` action is never stored in a table; `ACTION` fabricates it together with an error) -/
inductive Action where
  | shift (s : Int)
  | reduce (p : Pr)
  | accept
  deriving DecidableEq, Repr

/-- functional view of `ParsingTable`: `cell s a` is the *set* of actions stored for `ACTION[s,a]`
(empty = no entry), `goto s A` the entry of `GOTO[s,A]` (`none` = no entry or `ErrState`). -/
structure Tbl where
  cell : Int → String → List Action
  goto : Int → String → Option Int

/-! ## the AST (`parser.Node`) -/

inductive Tree where
  | leaf (t : String)
  | node (p : Pr) (kids : List Tree)
  | nil                     -- a Go `nil` Node (what `Stack.Pop` hands out when the stack is empty)
  deriving Repr

mutual
def Tree.yield : Tree → List String
  | .leaf t => [t]
  | .node _ ks => Tree.yieldL ks
  | .nil => []
def Tree.yieldL : List Tree → List String
  | [] => []
  | t :: ts => t.yield ++ Tree.yieldL ts
end

/-! ## `Parser.Parse` / `ParseAndBuildAST` -/

/-- the configuration of the driver loop -/
structure PState where
  stack : List Int        -- top first (`list.Stack[State]`)
  input : List String     -- tokens not yet read by `nextToken` … except the current one, which is the head
  out : List Pr           -- productions handed to `prodF`, latest first
  nodes : List Tree       -- the node stack of `ParseAndBuildAST`, top first
  shifted : Nat           -- number of tokens shifted so far (= index of the current token)

inductive PResult where
  | accept (prods : List Pr) (root : Tree)   -- `prods` in the order they were emitted
  | reject (pos : Nat)                       -- index of the token at which `ACTION` reported an error
  deriving Repr

/-- the current token: `nextToken` turns `io.EOF` into the endmarker, again and again -/
def PState.tok (st : PState) : String :=
  match st.input with
  | [] => endmarker
  | t :: _ => t

/-- `Stack.Peek` on an empty stack returns the zero `State` -/
def peekState (stk : List Int) : Int :=
  match stk with
  | [] => 0
  | s :: _ => s

/-- children of the node built by `prodF`: `n` pops, each put in front; an empty stack pops `nil` -/
def popKids (n : Nat) (nodes : List Tree) : List Tree :=
  List.replicate (n - nodes.length) Tree.nil ++ (nodes.take n).reverse

/-- one turn of the `for` loop of `Parse` -/
def pstep (T : Tbl) (st : PState) : PState ⊕ PResult :=
  let s := peekState st.stack
  let a := st.tok
  match T.cell s a with
  | [act] =>
    match act with
    | .shift t =>
      .inl { st with stack := t :: st.stack, input := st.input.tail, nodes := Tree.leaf a :: st.nodes,
                     shifted := st.shifted + 1 }
    | .reduce p =>
      let n := p.body.length
      let stk := st.stack.drop n
      let t := peekState stk
      let next := (T.goto t p.head).getD (-1)      -- `next, _ := p.T.GOTO(t, A)`: ErrState when missing
      .inl { st with stack := next :: stk, out := p :: st.out,
                     nodes := Tree.node p (popKids n st.nodes) :: st.nodes.drop n }
    | .accept =>
      .inr (.accept st.out.reverse (match st.nodes with | [] => Tree.nil | r :: _ => r))
  | _ => .inr (.reject st.shifted)                -- no entry, or a conflict: `ACTION` returns an error

def prun (T : Tbl) : Nat → PState → Outcome PResult
  | 0, _ => .diverge
  | fuel + 1, st =>
    match pstep T st with
    | .inl st' => prun T fuel st'
    | .inr r => .ok r

def pinit (w : List String) : PState := { stack := [0], input := w, out := [], nodes := [], shifted := 0 }

/-- `Parse` / `ParseAndBuildAST` on the token sequence `w` -/
def parse (T : Tbl) (fuel : Nat) (w : List String) : Outcome PResult := prun T fuel (pinit w)

/-! ## precedence levels and conflict resolution -/

inductive Assoc where
  | none | left | right
  deriving DecidableEq, Repr

/-- `PrecedenceHandle`: a terminal or a production -/
inductive Handle where
  | term (t : String)
  | prod (p : Pr)
  deriving DecidableEq, Repr

structure Level where
  assoc : Assoc
  handles : List Handle
  deriving Repr

def isTermSym : Sy → Bool
  | .term _ => true
  | .nonterm _ => false

/-- `PrecedenceHandleForProduction`: the first terminal of the body, else the production itself -/
def handleOfProd (p : Pr) : Handle :=
  match p.body.find? isTermSym with
  | some (.term t) => .term t
  | _ => .prod p

/-- the handle `resolveConflict` attaches to an action of the cell `ACTION[s,a]` (`none`: ACCEPT has no handle;
since the D18 patch `resolveConflict` gives up with an error instead of building a nil handle) -/
def handleOfAction (a : String) : Action → Option Handle
  | .shift _ => some (.term a)
  | .reduce p => some (handleOfProd p)
  | .accept => none

/-- `PrecedenceLevels.Precedence`: index and associativity of the first level that lists `h` -/
def precedenceOf : List Level → Handle → Option (Nat × Assoc)
  | [], _ => none
  | l :: ls, h =>
    if h ∈ l.handles then some (0, l.assoc)
    else match precedenceOf ls h with
      | some (i, a) => some (i + 1, a)
      | none => none

def isShift : Action → Bool
  | .shift _ => true
  | _ => false

def isReduce : Action → Bool
  | .reduce _ => true
  | _ => false

/-- `PrecedenceLevels.Compare` (`none` = it returns an error) -/
def compareAH (ls : List Level) (lhs rhs : Action × Handle) : Option Int :=
  if lhs = rhs then some 0
  else
    match precedenceOf ls lhs.2, precedenceOf ls rhs.2 with
    | some (lo, la), some (ro, _) =>
      if lo < ro then some 1
      else if lo > ro then some (-1)
      else
        match la with
        | .none => none
        | .left =>
          if isReduce lhs.1 && isShift rhs.1 then some 1
          else if isShift lhs.1 && isReduce rhs.1 then some (-1)
          else none
        | .right =>
          if isShift lhs.1 && isReduce rhs.1 then some 1
          else if isReduce lhs.1 && isShift rhs.1 then some (-1)
          else none
    | _, _ => none

/-- the "find the maximum pair" loop of `resolveConflict` -/
def maxLoop (ls : List Level) : List (Action × Handle) → (Action × Handle) → Option (Action × Handle)
  | [], mx => some mx
  | p :: ps, mx =>
    match compareAH ls p mx with
    | none => none
    | some c => maxLoop ls ps (if c > 0 then p else mx)

def pairUp (a : String) : List Action → Option (List (Action × Handle))
  | [] => some []
  | x :: xs =>
    match handleOfAction a x, pairUp a xs with
    | some h, some r => some ((x, h) :: r)
    | _, _ => none

/-- `resolveConflict a actions`, `acts` in the order the (shuffled) set iteration delivers them;
`ok none` = it returns an error; `panic` = `pairs[0]` of an empty slice -/
def resolveConflict (ls : List Level) (a : String) (acts : List Action) : Outcome (Option Action) :=
  match pairUp a acts with
  | none => .ok none
  | some [] => .panic
  | some (p :: ps) =>
    match maxLoop ls (p :: ps) p with
    | some mx => .ok (some mx.1)
    | none => .ok none

/-- `PrecedenceLevels.Verify`: no handle in two levels -/
def levelsOK : List Level → Bool
  | [] => true
  | l :: ls => ls.all (fun m => l.handles.all (fun h => !(h ∈ m.handles))) && levelsOK ls

end AlgoVerif.C11
