import AlgoVerif.Common
import AlgoVerif.Generated.Consts
import AlgoVerif.Generated.C19Tables
/-!
# Model of `lexer/input/input.go` and `lexer/input/utf8.go` (two-buffer input reader)

Line-by-line transcription of the code as it is in /repo's working tree (after the three `fix:` patches of
C19: `load` reads until its half is full or the source ends, `forward` always wraps to 0 at the end of the
second half, `Retract` remembers in `ahead` that the half it left is still loaded and clears `err`).

* `buff` is an `Array UInt8` of `2*n` bytes, `lexemeBegin`/`forward` are indices into it, `err` is the sticky
  error (`nil` / `io.EOF` / anything else), `ahead` the new flag.
* The two `list.Stack[int]` values are abstract LIFO lists (head = top); that the array-list stack of
  `list/stack.go` is a LIFO is property C18.
* `io.Reader` is a `Reader`: the bytes not yet delivered plus a finite script of answers (how many bytes the
  next `Read` delivers at most, whether it reports `io.EOF` together with the last bytes, whether it fails);
  after the script the reader fills every request.  This covers everything the `io.Reader` contract allows a
  reader over a fixed byte sequence to do in finitely many calls, including `(0, nil)`.
* An index outside `buff` is `Outcome.panic`; the two loops (`load`, the copy loop of `Lexeme`) take fuel and
  return `Outcome.diverge` when it runs out.
* What stays defective and is mirrored: the byte `0x00` is the end-of-input sentinel (a NUL in the source that
  is not the first byte of a half ends the input), and a multi-byte sequence cut off by the end of the source
  is reported as `io.EOF`, not as invalid UTF-8.
-/
namespace AlgoVerif.C19
open AlgoVerif AlgoVerif.Generated

/-! ## `io.Reader` -/

/-- kinds of `error` values the code distinguishes: `io.EOF` and everything else -/
inductive ErrKind where
  | eof
  | other
  deriving DecidableEq, Repr, Inhabited

inductive Flag where
  /-- plain answer -/
  | none
  /-- if this answer delivers the last byte of the source, `io.EOF` is returned together with it -/
  | eofWithData
  /-- the call returns its bytes and an error that is not `io.EOF` -/
  | ioerr
  deriving DecidableEq, Repr, Inhabited

/-- one answer of the reader: at most `cap` bytes (or half of the request, rounded up, when `half`) -/
structure Answer where
  half : Bool := false
  cap : Nat
  flag : Flag := .none
  deriving DecidableEq, Repr, Inhabited

structure Reader where
  /-- bytes of the source not delivered yet -/
  rest : List UInt8
  /-- answers to the next calls of `Read`; afterwards every request is filled -/
  script : List Answer := []
  /-- after the script: report `io.EOF` together with the last bytes (instead of on the next call) -/
  tailEof : Bool := false
  deriving DecidableEq, Repr, Inhabited

/-- number of bytes an answer delivers for a request of `len` bytes when `avail` bytes are left -/
def Answer.size (a : Answer) (len avail : Nat) : Nat :=
  min (if a.half then (len + 1) / 2 else min a.cap len) avail

/-- the error an answer returns with its `m` bytes; `scripted`: the answer comes from the script (only such an
answer can be the zero-length read `(0, nil)`), `exhausted`: no byte is left after this call -/
def Answer.err (a : Answer) (scripted : Bool) (m : Nat) (exhausted : Bool) : Option ErrKind :=
  if a.flag = .ioerr then some .other
  else if m = 0 ∧ scripted = true ∧ a.half = false ∧ a.cap = 0 ∧ a.flag = .none then none  -- (0, nil)
  else if exhausted = true ∧ (a.flag = .eofWithData ∨ m = 0) then some .eof
  else none

/-- `n, err := src.Read(p)` with `len(p) = len`: the bytes copied into `p`, the error, the reader afterwards. -/
def Reader.read (r : Reader) (len : Nat) : List UInt8 × Option ErrKind × Reader :=
  match r.script with
  | a :: s =>
    let m := a.size len r.rest.length
    (r.rest.take m, a.err true m (r.rest.drop m).isEmpty, { r with rest := r.rest.drop m, script := s })
  | [] =>
    let a : Answer := { cap := len, flag := if r.tailEof then .eofWithData else .none }
    let m := a.size len r.rest.length
    (r.rest.take m, a.err false m (r.rest.drop m).isEmpty, { r with rest := r.rest.drop m, script := [] })

/-! ### the same function for the compiled driver

`Reader.read` asks for `r.rest.length` on every call, which makes a one-byte reader over a source of several
10^5 bytes quadratic in the native driver.  `Reader.readFast` takes the bytes first and measures what it took;
the two are equal (kernel-checked below), and `@[csimp]` makes the compiler use the second wherever the first is
called.  Nothing in the proofs refers to `readFast`. -/

def Reader.readFast (r : Reader) (len : Nat) : List UInt8 × Option ErrKind × Reader :=
  match r.script with
  | a :: s =>
    let data := r.rest.take (if a.half then (len + 1) / 2 else min a.cap len)
    let rest := r.rest.drop data.length
    (data, a.err true data.length rest.isEmpty, { r with rest := rest, script := s })
  | [] =>
    let a : Answer := { cap := len, flag := if r.tailEof then .eofWithData else .none }
    let data := r.rest.take (min len len)
    let rest := r.rest.drop data.length
    (data, a.err false data.length rest.isEmpty, { r with rest := rest, script := [] })

theorem take_min_length (l : List UInt8) (k : Nat) : l.take (min k l.length) = l.take k := by
  rw [List.take_eq_take_iff]; omega

@[csimp] theorem Reader.read_eq_readFast : @Reader.read = @Reader.readFast := by
  funext r len
  unfold Reader.read Reader.readFast
  cases h : r.script with
  | nil => simp only [Answer.size, List.length_take, take_min_length, Bool.false_eq_true, if_false]
  | cons a s => simp only [Answer.size, List.length_take, take_min_length]

/-! ## `Input` -/

structure Input where
  src : Reader
  buff : Array UInt8
  lexemeBegin : Nat := 0
  forward : Nat := 0
  ahead : Bool := false
  offset : Nat := 0
  line : Nat := 1
  column : Int := 1
  nextColumn : Int := 1
  /-- `runeSizes`, top first -/
  runeSizes : List Nat := []
  /-- `lastColumns`, top first -/
  lastColumns : List Int := []
  err : Option ErrKind := none
  deriving DecidableEq, Repr, Inhabited

/-- `const eof byte = 0x00` -/
def eofByte : UInt8 := UInt8.ofNat lexer_input_eof

/-- `copy(buff[at:], data)` for `data` that fits -/
def writeAt (buff : Array UInt8) (pos : Nat) : List UInt8 → Array UInt8
  | [] => buff
  | b :: bs => writeAt (buff.setIfInBounds pos b) (pos + 1) bs

/-- the loop of `load`:
```go
for n < high {
    m, err := i.src.Read(i.buff[n:high]); n += m
    if err == io.EOF && n > low { break }
    if err != nil { return err }
}
```
result: reader, buffer, `n`, and the error returned from inside the loop (`none` = fell out of the loop or `break`). -/
def loadLoop : (fuel : Nat) → Reader → Array UInt8 → (low n high : Nat) →
    Outcome (Reader × Array UInt8 × Nat × Option ErrKind)
  | 0, _, _, _, _, _ => .diverge
  | fuel + 1, rd, buff, low, n, high =>
    if n < high then
      let (data, err, rd') := rd.read (high - n)
      let buff' := writeAt buff n data
      let n' := n + data.length
      if err = some .eof ∧ n' > low then .ok (rd', buff', n', none)
      else
        match err with
        | some e => .ok (rd', buff', n', some e)
        | none => loadLoop fuel rd' buff' low n' high
    else .ok (rd, buff, n, none)

/-- `func (i *Input) load(low, high int) error`; the reader's script is finite, so `script.length + 3`
iterations are enough for any reader of this model (a Go reader that returns `(0, nil)` forever would hang). -/
def Input.load (i : Input) (low high : Nat) : Outcome (Input × Option ErrKind) :=
  match loadLoop (i.src.script.length + 3) i.src i.buff low low high with
  | .ok (rd, buff, _, some e) => .ok ({ i with src := rd, buff := buff }, some e)
  | .ok (rd, buff, n, none) =>
    -- if n < high { i.buff[n] = eof }
    let buff := if n < high then buff.setIfInBounds n eofByte else buff
    .ok ({ i with src := rd, buff := buff }, none)
  | .panic => .panic
  | .diverge => .diverge

/-- `loadFirst` -/
def Input.loadFirst (i : Input) : Outcome (Input × Option ErrKind) := i.load 0 (i.buff.size / 2)
/-- `loadSecond` -/
def Input.loadSecond (i : Input) : Outcome (Input × Option ErrKind) := i.load (i.buff.size / 2) i.buff.size

/-- `func New(filename string, src io.Reader, n int) (*Input, error)` (`n ≥ 0`) -/
def Input.new (src : Reader) (n : Nat) : Outcome (Except ErrKind Input) :=
  let i : Input := { src := src, buff := Array.replicate (2 * n) 0 }
  match i.loadFirst with
  | .ok (i, none) => .ok (.ok i)
  | .ok (_, some e) => .ok (.error e)
  | .panic => .panic
  | .diverge => .diverge

/-- `func (i *Input) next() (byte, error)` -/
def Input.next (i : Input) : Outcome (Input × Except ErrKind UInt8) :=
  match i.err with
  | some e => .ok (i, .error e)
  | none =>
    match i.buff[i.forward]? with
    | none => .panic
    | some b =>
      let fw := i.forward + 1
      let half := i.buff.size / 2
      if fw = half then
        if i.ahead then .ok ({ i with forward := fw, ahead := false }, .ok b)
        else
          match ({ i with forward := fw }).loadSecond with
          | .ok (i', e) => .ok ({ i' with err := e }, .ok b)
          | .panic => .panic
          | .diverge => .diverge
      else if fw = i.buff.size then
        if i.ahead then .ok ({ i with forward := 0, ahead := false }, .ok b)
        else
          match ({ i with forward := fw }).loadFirst with
          | .ok (i', e) => .ok ({ i' with err := e, forward := 0 }, .ok b)
          | .panic => .panic
          | .diverge => .diverge
      else
        match i.buff[fw]? with
        | none => .panic
        | some c =>
          if c = eofByte then .ok ({ i with forward := fw, err := some .eof }, .ok b)
          else .ok ({ i with forward := fw }, .ok b)

/-- a `lexer.Position` without the file name -/
structure Pos where
  offset : Nat
  line : Nat
  column : Int
  deriving DecidableEq, Repr, Inhabited

/-- `pos()` -/
def Input.pos (i : Input) : Pos := { offset := i.offset, line := i.line, column := i.column }

/-- `forwardPos()` -/
def Input.forwardPos (i : Input) : Pos :=
  { offset := i.offset + i.runeSizes.length, line := i.line + i.lastColumns.length, column := i.nextColumn }

inductive NextResult where
  | rune (r : Nat)
  | err (e : ErrKind)
  /-- `*InputError{"invalid utf-8 character", pos}` -/
  | invalid (pos : Pos)
  deriving DecidableEq, Repr, Inhabited

/-- `first[b]` -/
def firstOf (b : UInt8) : Nat := (lexer_input_first[b.toNat]?.getD 0).toNat
/-- `acceptRanges[x>>4]` -/
def acceptOf (x : Nat) : Nat × Nat :=
  let p := lexer_input_acceptRanges[x >>> 4]?.getD (0, 0)
  (p.1.toNat, p.2.toNat)

/-- bookkeeping after a complete multi-byte rune: `i.runeSizes.Push(size); i.nextColumn++` -/
def Input.pushRune (i : Input) (size : Nat) : Input :=
  { i with runeSizes := size :: i.runeSizes, nextColumn := i.nextColumn + 1 }

/-- bookkeeping after a one-byte rune:
```go
if b0 == '\n' { i.lastColumns.Push(i.nextColumn); i.nextColumn = 1 } else { i.nextColumn++ }
i.runeSizes.Push(1)
``` -/
def Input.pushAscii (i : Input) (b0 : UInt8) : Input :=
  if b0 = 10 then
    { i with lastColumns := i.nextColumn :: i.lastColumns, nextColumn := 1, runeSizes := 1 :: i.runeSizes }
  else { i with nextColumn := i.nextColumn + 1, runeSizes := 1 :: i.runeSizes }

/-- `func (i *Input) Next() (rune, error)` -/
def Input.Next (i : Input) : Outcome (Input × NextResult) :=
  -- First byte
  match i.next with
  | .panic => .panic
  | .diverge => .diverge
  | .ok (i, .error e) => .ok (i, .err e)
  | .ok (i, .ok b0) =>
    let x := firstOf b0
    if x ≥ lexer_input_as then
      if x = lexer_input_xx then .ok (i, .invalid i.forwardPos)
      else
        .ok (i.pushAscii b0, .rune b0.toNat)
    else
      let size := x &&& 7
      -- Second byte
      match i.next with
      | .panic => .panic
      | .diverge => .diverge
      | .ok (i, .error e) => .ok (i, .err e)
      | .ok (i, .ok b1) =>
        let accept := acceptOf x
        if b1.toNat < accept.1 ∨ accept.2 < b1.toNat then .ok (i, .invalid i.forwardPos)
        else if size = 2 then
          .ok (i.pushRune size, .rune ((b0.toNat &&& lexer_input_mask2) <<< 6 ||| (b1.toNat &&& lexer_input_maskx)))
        else
          -- Third byte
          match i.next with
          | .panic => .panic
          | .diverge => .diverge
          | .ok (i, .error e) => .ok (i, .err e)
          | .ok (i, .ok b2) =>
            if b2.toNat < lexer_input_locb ∨ lexer_input_hicb < b2.toNat then .ok (i, .invalid i.forwardPos)
            else if size = 3 then
              .ok (i.pushRune size, .rune ((b0.toNat &&& lexer_input_mask3) <<< 12 |||
                (b1.toNat &&& lexer_input_maskx) <<< 6 ||| (b2.toNat &&& lexer_input_maskx)))
            else
              -- Fourth byte
              match i.next with
              | .panic => .panic
              | .diverge => .diverge
              | .ok (i, .error e) => .ok (i, .err e)
              | .ok (i, .ok b3) =>
                if b3.toNat < lexer_input_locb ∨ lexer_input_hicb < b3.toNat then .ok (i, .invalid i.forwardPos)
                else
                  .ok (i.pushRune size, .rune ((b0.toNat &&& lexer_input_mask4) <<< 18 |||
                    (b1.toNat &&& lexer_input_maskx) <<< 12 ||| (b2.toNat &&& lexer_input_maskx) <<< 6 |||
                    (b3.toNat &&& lexer_input_maskx)))

/-- What `Next` computes as a function of the bytes `next()` hands it (the table-driven decoder of `Next`
without the buffer): the rune and its length, or an invalid sequence after `consumed` bytes, or `short` when
`next()` fails (end of input) before the sequence is complete.  `Proofs/C19Next.lean` proves that `Input.Next`
is this function applied to the bytes at `forward`. -/
inductive Dec where
  | rune (r size : Nat)
  | invalid (consumed : Nat)
  | short
  deriving DecidableEq, Repr, Inhabited

def decodeRune : List UInt8 → Dec
  | [] => .short
  | b0 :: bs =>
    let x := firstOf b0
    if x ≥ lexer_input_as then
      if x = lexer_input_xx then .invalid 1 else .rune b0.toNat 1
    else
      let size := x &&& 7
      match bs with
      | [] => .short
      | b1 :: bs =>
        let accept := acceptOf x
        if b1.toNat < accept.1 ∨ accept.2 < b1.toNat then .invalid 2
        else if size = 2 then
          .rune ((b0.toNat &&& lexer_input_mask2) <<< 6 ||| (b1.toNat &&& lexer_input_maskx)) 2
        else
          match bs with
          | [] => .short
          | b2 :: bs =>
            if b2.toNat < lexer_input_locb ∨ lexer_input_hicb < b2.toNat then .invalid 3
            else if size = 3 then
              .rune ((b0.toNat &&& lexer_input_mask3) <<< 12 |||
                (b1.toNat &&& lexer_input_maskx) <<< 6 ||| (b2.toNat &&& lexer_input_maskx)) 3
            else
              match bs with
              | [] => .short
              | b3 :: _ =>
                if b3.toNat < lexer_input_locb ∨ lexer_input_hicb < b3.toNat then .invalid 4
                else
                  .rune ((b0.toNat &&& lexer_input_mask4) <<< 18 |||
                    (b1.toNat &&& lexer_input_maskx) <<< 12 ||| (b2.toNat &&& lexer_input_maskx) <<< 6 |||
                    (b3.toNat &&& lexer_input_maskx)) size

/-- `func (i *Input) Retract()` -/
def Input.Retract (i : Input) : Outcome Input :=
  match i.runeSizes with
  | [] => .ok i
  | size :: rs =>
    let half := i.buff.size / 2
    if half = 0 then .panic -- integer divide by zero
    else
      let src := i.forward / half
      let loaded := i.err.isNone || i.forward % half != 0
      let f : Int := (i.forward : Int) - (size : Int)
      let f : Int := if f < 0 then f + (i.buff.size : Int) else f
      -- (for f < 0 Go still evaluates `loaded && i.forward/half != from` and `i.err = nil`, then panics on buff[forward])
      if f < 0 then .panic
      else
        let fw := f.toNat
        let ahead := if loaded && fw / half != src then true else i.ahead
        match i.buff[fw]? with
        | none => .panic
        | some b =>
          let i : Input := { i with runeSizes := rs, forward := fw, ahead := ahead, err := none }
          -- Check for new line
          if b = 10 then
            match i.lastColumns with
            | c :: lc => .ok { i with nextColumn := c, lastColumns := lc }
            | [] => .ok i
          else .ok { i with nextColumn := i.nextColumn - 1 }

/-- the copy loop of `Lexeme`: `for i.lexemeBegin != i.forward { … }` -/
def lexemeLoop : (fuel : Nat) → Array UInt8 → (lb fw : Nat) → List UInt8 → Outcome (List UInt8 × Nat)
  | 0, _, _, _, _ => .diverge
  | fuel + 1, buff, lb, fw, acc =>
    if lb ≠ fw then
      match buff[lb]? with
      | none => .panic
      | some b =>
        let lb := lb + 1
        let lb := if lb = buff.size then 0 else lb
        lexemeLoop fuel buff lb fw (b :: acc)
    else .ok (acc.reverse, lb)

/-- the common tail of `Lexeme` and `Skip`: empty both stacks, `column = nextColumn` -/
def Input.flush (i : Input) : Input :=
  { i with offset := i.offset + i.runeSizes.length, runeSizes := [],
           line := i.line + i.lastColumns.length, lastColumns := [], column := i.nextColumn }

/-- `func (i *Input) Lexeme() (string, lexer.Position)`; from any state with both pointers inside the buffer
the loop ends within `len(buff)` steps, otherwise it never ends. -/
def Input.Lexeme (i : Input) : Outcome (Input × List UInt8 × Pos) :=
  match lexemeLoop (i.buff.size + 1) i.buff i.lexemeBegin i.forward [] with
  | .ok (bytes, lb) => .ok (({ i with lexemeBegin := lb }).flush, bytes, i.pos)
  | .panic => .panic
  | .diverge => .diverge

/-- `func (i *Input) Skip() lexer.Position` -/
def Input.Skip (i : Input) : Input × Pos :=
  (({ i with lexemeBegin := i.forward }).flush, i.pos)

end AlgoVerif.C19
