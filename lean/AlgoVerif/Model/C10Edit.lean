import AlgoVerif.Model.C10Ext
/-!
# Model for C10 / C12, third part — one grammar object over time

A `*grammar.CFG` has public fields and hands out its internals: a caller can change it in place in more ways than
`Productions.Add / Remove`.  `Edit` lists every way the API allows (the line protocol of the harness has one description
line per constructor), `applyEdit` says what grammar the object holds afterwards.  The functions of the first two parts
take the grammar as an argument: the Go code keeps nothing between two calls (no cache in the `CFG`, none in the
parser), so a query on an edited object is the query on `applyEdits g es`.

Objects a caller keeps: a FIRST closure, a FOLLOW function and a parsing table are computed from the grammar at the
time and never look at the object again (`Kept.first / follow / table` hold the analysis of that grammar); a
parser keeps the pointer to the caller's grammar and builds its table at every `Parse` (`Kept.parser` holds nothing).

The lexer: `predictive.nextToken` turns every error `err` with `errors.Is(err, io.EOF)` into the endmarker, whatever
token came with it, and hands any other error back (`LexAnswer`, `parseWithL`).

Core Lean only.
-/
namespace AlgoVerif.C10
open AlgoVerif AlgoVerif.Gram

section
variable {T N : Type} [DecidableEq T] [DecidableEq N]

/-! ## edits -/

inductive Edit (T N : Type) where
  /-- `g.Terminals.Add(t)` -/
  | addTerm (t : T)
  /-- `g.Terminals.Remove(t)` -/
  | removeTerm (t : T)
  /-- `g.NonTerminals.Add(n)` -/
  | addNonterm (n : N)
  /-- `g.NonTerminals.Remove(n)` -/
  | removeNonterm (n : N)
  /-- `g.Start = n` -/
  | setStart (n : N)
  /-- `g.Productions.Add(p)` -/
  | addProd (p : GProd T N)
  /-- `g.Productions.Remove(p)` -/
  | removeProd (p : GProd T N)
  /-- `g.Productions.RemoveAll(h)` -/
  | removeAll (h : N)
  /-- `g.Productions.Get(p.Head).Add(p)`, or the same on the set `AllByHead` yields: the set of a head that has
  productions is the one inside the grammar; a head without productions has none (`Get` returns nil) -/
  | getAdd (p : GProd T N)
  /-- `g.Productions.Get(p.Head).Remove(p)` (the harness removes the last production of a head through
  `Productions.Remove`, which also drops the head's entry) -/
  | getRemove (p : GProd T N)
  /-- `q.Body = body` (or `q.Body[i] = X`) on the `*Production` `q` inside the grammar that equals `p`; done only when
  `p` is there and the new production is not (the grammar stays a set) -/
  | setBody (p : GProd T N) (body : List (Sym T N))
  /-- a field replaced by a `Clone()` of itself -/
  | refresh
  deriving Repr

def applyEdit (g : Grammar T N) : Edit T N → Grammar T N
  | .addTerm t => { g with terms := insertNew t g.terms }
  | .removeTerm t => { g with terms := g.terms.filter (· ≠ t) }
  | .addNonterm n => { g with nonterms := insertNew n g.nonterms }
  | .removeNonterm n => { g with nonterms := g.nonterms.filter (· ≠ n) }
  | .setStart n => { g with start := n }
  | .addProd p => { g with prods := insertNew p g.prods }
  | .removeProd p => { g with prods := g.prods.filter (· ≠ p) }
  | .removeAll h => { g with prods := g.prods.filter (·.head ≠ h) }
  | .getAdd p => if g.prods.any (fun q => decide (q.head = p.head)) then { g with prods := insertNew p g.prods } else g
  | .getRemove p => { g with prods := g.prods.filter (· ≠ p) }
  | .setBody p body =>
    if p ∈ g.prods ∧ (⟨p.head, body⟩ : GProd T N) ∉ g.prods then
      { g with prods := g.prods.map fun q => if q = p then ⟨p.head, body⟩ else q }
    else g
  | .refresh => g

def applyEdits (g : Grammar T N) (es : List (Edit T N)) : Grammar T N := es.foldl applyEdit g

/-- the three components are sets (`NewCFG` makes them so, every edit keeps them so) -/
def IsSetGrammar (g : Grammar T N) : Prop := g.terms.Nodup ∧ g.nonterms.Nodup ∧ g.prods.Nodup

/-! ## a parser object used again and again

`predictive.New(G, lexer)` keeps the pointer `G`; `Parse` calls `BuildParsingTable(p.G)` first thing.  One step of a
history on one grammar object and one parser object made for it: an edit of the grammar, or a `Parse` of the parser on
a new input (the lexer re-armed).  The analyses are run at every `Parse`, so each may see its own iteration order. -/

inductive PStep (T N : Type) where
  | edit (e : Edit T N)
  | parse (w : List T) (o₁ o₂ : IterOrder T N)

/-- the results of the `Parse` calls of a history, in order -/
def parserHistory (fuel : Nat) : Grammar T N → List (PStep T N) → List (Outcome (ParseOut T N))
  | _, [] => []
  | g, .edit e :: rest => parserHistory fuel (applyEdit g e) rest
  | g, .parse w o₁ o₂ :: rest =>
    (match analyse g o₁ o₂ with
     | .ok an => parseWith g an fuel w
     | .panic => .panic
     | .diverge => .diverge) :: parserHistory fuel g rest

/-- the grammar object at each `Parse` of the history -/
def grammarsAtParses : Grammar T N → List (PStep T N) → List (Grammar T N × List T)
  | _, [] => []
  | g, .edit e :: rest => grammarsAtParses (applyEdit g e) rest
  | g, .parse w _ _ :: rest => (g, w) :: grammarsAtParses g rest

/-! ## the lexer's ways of saying that the input is over -/

/-- what one call of `Lexer.NextToken` returns, as far as `nextToken` can tell -/
inductive LexAnswer (T : Type) where
  /-- a token and a nil error -/
  | tok (t : T)
  /-- an error `err` with `errors.Is(err, io.EOF)` — `io.EOF` itself, wrapped once or more, joined with other
  errors, an error type with an `Is` method of its own — with whatever token (`junk`) beside it -/
  | eof (junk : Option T)
  /-- any other error -/
  | fail
  deriving Repr, DecidableEq

/-- call number `k` of a lexer that gives the answers `l` and then reports the end forever -/
def lexCall (l : List (LexAnswer T)) (k : Nat) : LexAnswer T := l.getD k (.eof none)

/-- the tokens a lexer delivers before its first answer that is not a token -/
def lexTokens : List (LexAnswer T) → List T
  | .tok t :: rest => t :: lexTokens rest
  | _ => []

/-- the number of the call that fails, if the first answer that is not a token is a failure -/
def lexFailAt : List (LexAnswer T) → Option Nat
  | .tok _ :: rest => (lexFailAt rest).map (· + 1)
  | .fail :: _ => some 0
  | _ => none

/-- the loop of `Parse` reading from the lexer: `cur` is the current token (`none`: the endmarker), `pos` the number of
tokens consumed, so the next call of the lexer is call number `pos + 1` -/
def parseRunL (M : N → Option T → List (GProd T N)) (lx : List (LexAnswer T)) (tokFail prodFail : Option Nat) :
    Nat → List (Sym T N) → Option T → Nat → Nat → Outcome (List (Event T N) × Ending)
  | 0, _, _, _, _ => .diverge
  | _ + 1, [], none, _, _ => .ok ([], .accept)
  | _ + 1, [], some _, _, _ => .ok ([], .reject .trailing)
  | fuel + 1, .term t :: stack, cur, pos, np =>
    match cur with
    | some a =>
      if t = a then
        if tokFail = some pos then .ok ([], .fail (.token pos))
        else match lexCall lx (pos + 1) with
          | .tok b => (parseRunL M lx tokFail prodFail fuel stack (some b) (pos + 1) np).map fun r => (.tok t pos :: r.1, r.2)
          | .eof _ => (parseRunL M lx tokFail prodFail fuel stack none (pos + 1) np).map fun r => (.tok t pos :: r.1, r.2)
          | .fail => .ok ([.tok t pos], .fail .lexer)
      else .ok ([], .reject .terminal)
    | none => .ok ([], .reject .terminal)
  | fuel + 1, .nonterm A :: stack, cur, pos, np =>
    match M A cur with
    | [] => .ok ([], .reject .noEntry)
    | [p] =>
      if prodFail = some np then .ok ([], .fail .prod)
      else (parseRunL M lx tokFail prodFail fuel (p.body ++ stack) cur pos (np + 1)).map fun r => (.prod p :: r.1, r.2)
    | _ :: _ :: _ => .panic

/-- `Parse` on a lexer given by its answers (the table gate, the first `nextToken`, the loop) -/
def parseWithL (g : Grammar T N) (an : Analysis T N) (lx : List (LexAnswer T)) (tokFail prodFail : Option Nat)
    (fuel : Nat) : Outcome (ParseOutF T N) :=
  let t := buildTable (firstStr an.first) an.follow g.prods g.nonterms
  if (tconflicts t g.nonterms (columns g)).isEmpty then
    match lexCall lx 0 with
    | .fail => .ok (.done [] (.fail .lexer))
    | .tok a => (parseRunL (tcell t) lx tokFail prodFail fuel [.nonterm g.start] (some a) 0 0).map fun r => .done r.1 r.2
    | .eof _ => (parseRunL (tcell t) lx tokFail prodFail fuel [.nonterm g.start] none 0 0).map fun r => .done r.1 r.2
  else .ok .tableError

end

end AlgoVerif.C10
