import AlgoVerif.Model.C06Run
/-!
# C06, second part of the Model: the rest of `trie.Trie`

`Model/C06.lean` transcribes the 19 operations the property names.  This file transcribes the
remaining exported methods of `trie/binary.go` and `trie/patricia.go` that read or build the same
state, so that the correspondence run executes (and compares) every branch of the shared
`_traverse` functions:

* `_traverse` in all eight `generic.TraverseOrder`s plus the `default:` branch (`Order.bad` stands
  for every `int` that is not one of the eight constants),
* `Traverse`, `AnyMatch`, `AllMatch`, `FirstMatch`, `SelectMatch`, `PartitionMatch`, `Equal`,
  `Height`, `IsEmpty`.

Predicates, visitors and `eqVal` are parameters.  `SelectMatch` / `PartitionMatch` build new tries
with `Put`, `Equal` takes a second trie: the extended step function therefore works on a pair of
tries `(a, b)` — every operation applies to `a`, the results of `SelectMatch` / `PartitionMatch`
are stored in `b`, `swap` exchanges the two.

Core Lean only.  Not modelled: `String`, `DOT`, `verify` and its helpers, `bitString.Sub/Concat/BitString`.
-/
namespace AlgoVerif.C06
variable {V : Type}

/-- `generic.TraverseOrder` (`type TraverseOrder int`, constants `VLR … Descending` = 0 … 7); `bad` is any other value -/
inductive Order where
  | vlr | vrl | lvr | rvl | lrv | rlv | asc | desc | bad
  deriving Repr, DecidableEq, Inhabited

/-- `a && f()` for state-passing traversal steps: `f` runs only if `a` said "continue" -/
@[inline] def andThen {σ : Type} (a : σ × Bool) (f : σ → σ × Bool) : σ × Bool :=
  if a.2 then f a.1 else (a.1, false)

/-- the same when steps can fail -/
@[inline] def andThenO {σ : Type} (a : Outcome (σ × Bool)) (f : σ → Outcome (σ × Bool)) : Outcome (σ × Bool) :=
  match a with
  | .ok (s, true) => f s
  | .ok (s, false) => .ok (s, false)
  | .panic => .panic
  | .diverge => .diverge

/-! ## binary trie -/

namespace BNode

/-- `_traverse(n, prefix, order, visit)`
```go
if n == nil { return true }
next := prefix + string([]byte{n.char})
switch order {
case VLR, Ascending:  return visit(next, n) && _traverse(n.left, next) && _traverse(n.right, prefix)
case VRL:             return visit(next, n) && _traverse(n.right, prefix) && _traverse(n.left, next)
case LVR:             return _traverse(n.left, next) && visit(next, n) && _traverse(n.right, prefix)
case RVL:             return _traverse(n.right, prefix) && visit(next, n) && _traverse(n.left, next)
case LRV:             return _traverse(n.left, next) && _traverse(n.right, prefix) && visit(next, n)
case RLV, Descending: return _traverse(n.right, prefix) && _traverse(n.left, next) && visit(next, n)
default:              return false
}
```
`visit` receives `next`, `n.val`, `n.term`. -/
def trav {σ : Type} (o : Order) (visit : σ → Key → V → Bool → σ × Bool) : BNode V → Key → σ → σ × Bool
  | nil, _, s => (s, true)
  | node ch val term l r, pre, s =>
    let next := pre ++ [ch]
    match o with
    | .vlr | .asc => andThen (andThen (visit s next val term) (trav o visit l next)) (trav o visit r pre)
    | .vrl => andThen (andThen (visit s next val term) (trav o visit r pre)) (trav o visit l next)
    | .lvr => andThen (andThen (trav o visit l next s) (fun s => visit s next val term)) (trav o visit r pre)
    | .rvl => andThen (andThen (trav o visit r pre s) (fun s => visit s next val term)) (trav o visit l next)
    | .lrv => andThen (andThen (trav o visit l next s) (trav o visit r pre)) (fun s => visit s next val term)
    | .rlv | .desc => andThen (andThen (trav o visit r pre s) (trav o visit l next)) (fun s => visit s next val term)
    | .bad => (s, false)

/-- `_height(n)`: `if n == nil { return 0 }; return 1 + max(_height(n.left), _height(n.right))` -/
def height : BNode V → Int
  | nil => 0
  | node _ _ _ l r => 1 + Max.max (height l) (height r)

end BNode

namespace Binary

/-- `IsEmpty`: `t.size == 0` -/
def isEmpty (t : Binary V) : Bool := t.size == 0

/-- `Height`: `_height(t.root.left)` -/
def height (t : Binary V) : Int := t.root.height

/-- `Traverse(order, visit)`: `_traverse` from the sentinel root itself (char 0, zero value, not a key, right link
nil); the visitor gets `""` for the sentinel and the node's own character — not the key — for every other node:
```go
t._traverse(t.root, "", order, func(_ string, n *binaryNode[V]) bool {
    if n == t.root { return visit("", n.val) }
    return visit(string([]byte{n.char}), n.val)
})
```
The sentinel is the only node whose `next` has length 1 (its right link is nil). -/
def traverse {σ : Type} [Inhabited V] (t : Binary V) (o : Order) (visit : σ → Key → V → σ × Bool) (s : σ) : σ × Bool :=
  (BNode.node 0 default false t.root .nil).trav o
    (fun s next val _ => if next.length == 1 then visit s [] val else visit s (next.drop (next.length - 1)) val) [] s

/-- `AnyMatch`: `!_traverse(root.left, "", VLR, func(k, n) bool { return !n.term || !p(k, n.val) })` -/
def anyMatch (t : Binary V) (p : Key → V → Bool) : Bool :=
  !(t.root.trav .vlr (fun (s : Unit) k v term => (s, !term || !p k v)) [] ()).2

/-- `AllMatch`: `_traverse(root.left, "", VLR, func(k, n) bool { return !n.term || p(k, n.val) })` -/
def allMatch (t : Binary V) (p : Key → V → Bool) : Bool :=
  (t.root.trav .vlr (fun (s : Unit) k v term => (s, !term || p k v)) [] ()).2

/-- `FirstMatch`: the first key-value in VLR order (= ascending order) satisfying `p` -/
def firstMatch (t : Binary V) (p : Key → V → Bool) : Option (Key × V) :=
  (t.root.trav .vlr (fun (s : Option (Key × V)) k v term =>
    if term && p k v then (some (k, v), false) else (s, true)) [] none).1

/-- `SelectMatch`: `newT := NewBinary(eqVal)`; VLR: `if n.term && p(key, n.val) { newT.Put(key, n.val) }; return true`
(a panic of `Put` unwinds the traversal) -/
def selectMatch [Inhabited V] (t : Binary V) (p : Key → V → Bool) : Outcome (Binary V) :=
  (t.root.trav .vlr (fun (s : Outcome (Binary V)) k v term =>
    if term && p k v then
      match s with
      | .ok n => (match n.put k v with
        | .ok n' => (.ok n', true)
        | .panic => (.panic, false)
        | .diverge => (.diverge, false))
      | e => (e, false)
    else (s, true)) [] (.ok Binary.new)).1

/-- `PartitionMatch`: `(matched, unmatched)` -/
def partitionMatch [Inhabited V] (t : Binary V) (p : Key → V → Bool) : Outcome (Binary V × Binary V) :=
  (t.root.trav .vlr (fun (s : Outcome (Binary V × Binary V)) k v term =>
    if term then
      match s with
      | .ok (m, u) =>
        (match (if p k v then (m.put k v).map (fun m' => (m', u)) else (u.put k v).map (fun u' => (m, u'))) with
        | .ok x => (.ok x, true)
        | .panic => (.panic, false)
        | .diverge => (.diverge, false))
      | e => (e, false)
    else (s, true)) [] (.ok (Binary.new, Binary.new))).1

/-- one half of `Equal`:
`t._traverse(t.root.left, "", Ascending, func(k, n) bool { if n.term { val, ok := t2.Get(k); return ok && eqVal(n.val, val) }; return true })` -/
def subsetOf (eqv : V → V → Bool) (t t2 : Binary V) : Outcome Bool :=
  let r := t.root.trav .asc (fun (s : Outcome Unit) k v term =>
    if term then
      match t2.get k with
      | .ok (some v2) => (s, eqv v v2)
      | .ok none => (s, false)
      | .panic => (.panic, false)
      | .diverge => (.diverge, false)
    else (s, true)) [] (.ok ())
  r.1.map fun _ => r.2

/-- `Equal(rhs)` for a `rhs` that is a binary trie too (`t ⊂ t2 && t2 ⊂ t`, both halves with `t.eqVal`) -/
def equal (eqv : V → V → Bool) (t t2 : Binary V) : Outcome Bool := do
  if !(← subsetOf eqv t t2) then pure false else subsetOf eqv t2 t

end Binary

/-! ## Patricia trie -/

namespace Patricia

/-- `IsEmpty`: `t.size == 0` -/
def isEmpty (t : Patricia V) : Bool := t.size == 0

/-- `_height(prev, curr)`: `if curr.bp <= prev.bp { return 0 }; return 1 + max(_height(curr, curr.left), _height(curr, curr.right))` -/
def heightLoop (t : Patricia V) : Nat → Nat → Option Nat → Outcome Int
  | 0, _, _ => .diverge
  | f + 1, prevBp, curr => do
    let c ← t.node curr
    if c.bp ≤ prevBp then pure 0
    else
      let l ← heightLoop t f c.bp c.left
      let r ← heightLoop t f c.bp c.right
      pure (1 + Max.max l r)

/-- `Height`: `if t.root == nil { return 0 }; return _height(t.root, t.root.left)` -/
def height (t : Patricia V) : Outcome Int :=
  match t.root with
  | none => .ok 0
  | some _ => do
    let rt ← t.node t.root
    heightLoop t t.fuel rt.bp rt.left

/-- `_traverse(n, order, visit)` for the six structural orders and the `default:` branch (`Ascending` / `Descending`
are `travAsc` / `travDesc` of `Model/C06.lean`; the order never changes during the recursion):
```go
if n == nil { return true }
isLeftThread := n.left.bp <= n.bp
isRightThread := n != t.root && n.right.bp <= n.bp
switch order {
case VLR: return visit(n) && (isLeftThread || _traverse(n.left)) && (isRightThread || _traverse(n.right))
case VRL: return visit(n) && (isRightThread || _traverse(n.right)) && (isLeftThread || _traverse(n.left))
case LVR: return (isLeftThread || _traverse(n.left)) && visit(n) && (isRightThread || _traverse(n.right))
case RVL: return (isRightThread || _traverse(n.right)) && visit(n) && (isLeftThread || _traverse(n.left))
case LRV: return (isLeftThread || _traverse(n.left)) && (isRightThread || _traverse(n.right)) && visit(n)
case RLV: return (isRightThread || _traverse(n.right)) && (isLeftThread || _traverse(n.left)) && visit(n)
…
default: return false
}
``` -/
def travOrd {σ : Type} (t : Patricia V) (o : Order) (visit : σ → PNode V → σ × Bool) :
    Nat → Option Nat → σ → Outcome (σ × Bool)
  | 0, _, _ => .diverge
  | f + 1, n, s =>
    match n with
    | none => .ok (s, true)
    | some _ => do
      let nn ← t.node n
      let l ← t.node nn.left
      let isLeftThread := decide (l.bp ≤ nn.bp)
      let isRightThread ← (if n != t.root then do let r ← t.node nn.right; pure (decide (r.bp ≤ nn.bp)) else pure false)
      let vis : σ → Outcome (σ × Bool) := fun s => .ok (visit s nn)
      let left : σ → Outcome (σ × Bool) := fun s => if isLeftThread then .ok (s, true) else travOrd t o visit f nn.left s
      let right : σ → Outcome (σ × Bool) := fun s => if isRightThread then .ok (s, true) else travOrd t o visit f nn.right s
      match o with
      | .vlr => andThenO (andThenO (vis s) left) right
      | .vrl => andThenO (andThenO (vis s) right) left
      | .lvr => andThenO (andThenO (left s) vis) right
      | .rvl => andThenO (andThenO (right s) vis) left
      | .lrv => andThenO (andThenO (left s) right) vis
      | .rlv => andThenO (andThenO (right s) left) vis
      | .asc => travAsc t visit (f + 1) n s
      | .desc => travDesc t visit (f + 1) n s
      | .bad => .ok (s, false)

/-- `_traverse(n, order, visit)` -/
def trav {σ : Type} (t : Patricia V) (o : Order) (visit : σ → PNode V → σ × Bool) (n : Option Nat) (s : σ) :
    Outcome (σ × Bool) :=
  match o with
  | .asc => travAsc t visit t.fuel n s
  | .desc => travDesc t visit t.fuel n s
  | _ => travOrd t o visit t.fuel n s

/-- `Traverse(order, visit)`: `_traverse(t.root, order, func(n) bool { return visit(n.key.String(), n.val) })` -/
def traverse {σ : Type} (t : Patricia V) (o : Order) (visit : σ → Key → V → σ × Bool) (s : σ) : Outcome (σ × Bool) :=
  t.trav o (fun s n => visit s n.key n.val) t.root s

/-- `AnyMatch`: `!_traverse(t.root, VLR, func(n) bool { return !p(n.key.String(), n.val) })` -/
def anyMatch (t : Patricia V) (p : Key → V → Bool) : Outcome Bool := do
  let r ← t.trav .vlr (fun (s : Unit) n => (s, !p n.key n.val)) t.root ()
  pure (!r.2)

/-- `AllMatch`: `_traverse(t.root, VLR, func(n) bool { return p(n.key.String(), n.val) })` -/
def allMatch (t : Patricia V) (p : Key → V → Bool) : Outcome Bool := do
  let r ← t.trav .vlr (fun (s : Unit) n => (s, p n.key n.val)) t.root ()
  pure r.2

/-- `FirstMatch`: the first node in VLR order (pre-order over the downward links — not key order) satisfying `p` -/
def firstMatch (t : Patricia V) (p : Key → V → Bool) : Outcome (Option (Key × V)) := do
  let r ← t.trav .vlr (fun (s : Option (Key × V)) n =>
    if p n.key n.val then (some (n.key, n.val), false) else (s, true)) t.root none
  pure r.1

/-- `SelectMatch`: `newT := NewPatricia(eqVal)`; VLR: `if p(key, n.val) { newT.Put(key, n.val) }; return true` -/
def selectMatch (t : Patricia V) (p : Key → V → Bool) : Outcome (Patricia V) := do
  let r ← t.trav .vlr (fun (s : Outcome (Patricia V)) n =>
    if p n.key n.val then
      match s with
      | .ok m => (match m.put n.key n.val with
        | .ok m' => (.ok m', true)
        | .panic => (.panic, false)
        | .diverge => (.diverge, false))
      | e => (e, false)
    else (s, true)) t.root (.ok Patricia.new)
  r.1

/-- `PartitionMatch`: `(matched, unmatched)` -/
def partitionMatch (t : Patricia V) (p : Key → V → Bool) : Outcome (Patricia V × Patricia V) := do
  let r ← t.trav .vlr (fun (s : Outcome (Patricia V × Patricia V)) n =>
    match s with
    | .ok (m, u) =>
      (match (if p n.key n.val then (m.put n.key n.val).map (fun m' => (m', u))
              else (u.put n.key n.val).map (fun u' => (m, u'))) with
      | .ok x => (.ok x, true)
      | .panic => (.panic, false)
      | .diverge => (.diverge, false))
    | e => (e, false)) t.root (.ok (Patricia.new, Patricia.new))
  r.1

/-- one half of `Equal`:
`t._traverse(t.root, Ascending, func(n) bool { val, ok := t2._get(n.key); return ok && eqVal(n.val, val) })` -/
def subsetOf (eqv : V → V → Bool) (t t2 : Patricia V) : Outcome Bool := do
  let r ← t.trav .asc (fun (s : Outcome Unit) n =>
    match t2.get n.key with
    | .ok (some v2) => (s, eqv n.val v2)
    | .ok none => (s, false)
    | .panic => (.panic, false)
    | .diverge => (.diverge, false)) t.root (.ok ())
  r.1.map fun _ => r.2

/-- `Equal(rhs)` for a `rhs` that is a Patricia trie too -/
def equal (eqv : V → V → Bool) (t t2 : Patricia V) : Outcome Bool := do
  if !(← subsetOf eqv t t2) then pure false else subsetOf eqv t2 t

end Patricia

/-! ## the extended step functions (two registers) -/

/-- every operation of `trie.Trie` the correspondence drives (`String`, `DOT` excepted) -/
inductive XOp (V : Type) where
  /-- one of the 19 operations of the property, applied to register `a` -/
  | base (op : Op V)
  | isEmpty
  | height
  /-- `Traverse(order, visit)` with a visitor that records what it is shown and returns `false` at its `stop`-th call
  (never, if `stop ≤ 0`) -/
  | traverse (o : Order) (stop : Int)
  | anyMatch (p : Key → V → Bool)
  | allMatch (p : Key → V → Bool)
  | firstMatch (p : Key → V → Bool)
  /-- `b := a.SelectMatch(p)` -/
  | selectMatch (p : Key → V → Bool)
  /-- `m, b := a.PartitionMatch(p)` -/
  | partitionMatch (p : Key → V → Bool)
  /-- `a.Equal(b)` -/
  | equal
  /-- `a.Equal(x)` for a trie `x` of the other implementation (the type assertion fails: `false`) -/
  | equalOther
  /-- `a, b = b, a` -/
  | swap

inductive XOut (V σ : Type) where
  | base (o : Out V)
  | bool (b : Bool)
  | trie (t : σ)
  | tries (t u : σ)

/-- the recording visitor of `XOp.traverse` -/
def recordVisit (stop : Int) (s : List (Key × V)) (k : Key) (v : V) : List (Key × V) × Bool :=
  let s' := s ++ [(k, v)]
  (s', !((s'.length : Int) == stop))

def Binary.xstep [Inhabited V] (eqv : V → V → Bool) (s : Binary V × Binary V) :
    XOp V → Outcome ((Binary V × Binary V) × XOut V (Binary V))
  | .base op => (s.1.step op).map fun r => ((r.1, s.2), .base r.2)
  | .isEmpty => .ok (s, .bool s.1.isEmpty)
  | .height => .ok (s, .base (.int s.1.height))
  | .traverse o stop => .ok (s, .base (.list (s.1.traverse o (recordVisit stop) []).1))
  | .anyMatch p => .ok (s, .bool (s.1.anyMatch p))
  | .allMatch p => .ok (s, .bool (s.1.allMatch p))
  | .firstMatch p => .ok (s, .base (.kv (s.1.firstMatch p)))
  | .selectMatch p => (s.1.selectMatch p).map fun r => ((s.1, r), .trie r)
  | .partitionMatch p => (s.1.partitionMatch p).map fun r => ((s.1, r.2), .tries r.1 r.2)
  | .equal => (s.1.equal eqv s.2).map fun r => (s, .bool r)
  | .equalOther => .ok (s, .bool false)
  | .swap => .ok ((s.2, s.1), .base .unit)

def Patricia.xstep (eqv : V → V → Bool) (s : Patricia V × Patricia V) :
    XOp V → Outcome ((Patricia V × Patricia V) × XOut V (Patricia V))
  | .base op => (s.1.step op).map fun r => ((r.1, s.2), .base r.2)
  | .isEmpty => .ok (s, .bool s.1.isEmpty)
  | .height => s.1.height.map fun r => (s, .base (.int r))
  | .traverse o stop => (s.1.traverse o (recordVisit stop) []).map fun r => (s, .base (.list r.1))
  | .anyMatch p => (s.1.anyMatch p).map fun r => (s, .bool r)
  | .allMatch p => (s.1.allMatch p).map fun r => (s, .bool r)
  | .firstMatch p => (s.1.firstMatch p).map fun r => (s, .base (.kv r))
  | .selectMatch p => (s.1.selectMatch p).map fun r => ((s.1, r), .trie r)
  | .partitionMatch p => (s.1.partitionMatch p).map fun r => ((s.1, r.2), .tries r.1 r.2)
  | .equal => (s.1.equal eqv s.2).map fun r => (s, .bool r)
  | .equalOther => .ok (s, .bool false)
  | .swap => .ok ((s.2, s.1), .base .unit)

/-! ## what the sorted map says about the extended operations

The property does not name these operations; the reading below is the natural one: the predicate-based
methods range over the held pairs, `SelectMatch` / `PartitionMatch` return tries holding exactly the
selected pairs, `Equal` compares the held pairs with the caller's `eqVal`.  `FirstMatch` and the six
structural traversal orders depend on the shape of the trie, so they are admitted relationally (some
held pair satisfying the predicate; some arrangement of the held pairs, cut where the visitor stops);
`Height` is not determined by the map at all.  The binary trie's `Traverse` shows *nodes* (one per
non-empty prefix of a held key, with the node's own character), not keys: only its `default:` branch is
specified here. -/
namespace Spec

def Map.anyMatch (m : Map V) (p : Key → V → Bool) : Bool := m.any fun e => p e.1 e.2
def Map.allMatch (m : Map V) (p : Key → V → Bool) : Bool := m.all fun e => p e.1 e.2
def Map.selectMatch (m : Map V) (p : Key → V → Bool) : Map V := m.filter fun e => p e.1 e.2
def Map.rejectMatch (m : Map V) (p : Key → V → Bool) : Map V := m.filter fun e => !p e.1 e.2

/-- `Equal` with the caller's `eqVal`: every pair of either map has a partner with the same key and an
`eqVal`-related value in the other one (first argument of `eqVal`: the value of the map being traversed) -/
def Map.equal (eqv : V → V → Bool) (m m2 : Map V) : Bool :=
  (m.all fun e => match Map.get m2 e.1 with
    | some v2 => eqv e.2 v2
    | none => false) &&
  (m2.all fun e => match Map.get m e.1 with
    | some v => eqv e.2 v
    | none => false)

/-- what a recording visitor that returns `false` at its `stop`-th call has seen of the sequence `l` -/
def cut (stop : Int) (l : List (Key × V)) : List (Key × V) := if stop ≥ 1 then l.take stop.toNat else l

/-- the abstract state after an extended operation -/
def xnext (s : Map V × Map V) : XOp V → Map V × Map V
  | .base op => ((Map.step s.1 op).1, s.2)
  | .selectMatch p => (s.1, s.1.selectMatch p)
  | .partitionMatch p => (s.1, s.1.rejectMatch p)
  | .swap => (s.2, s.1)
  | _ => s

/-- the results the sorted maps `s = (a, b)` admit for an extended operation.  `R t m`: "the trie `t` holds exactly
`m`"; `keyTraverse`: `Traverse` shows keys (Patricia trie) rather than nodes (binary trie). -/
def admits {σ : Type} (keyTraverse : Bool) (eqv : V → V → Bool) (R : σ → Map V → Prop) (s : Map V × Map V) :
    XOp V → XOut V σ → Prop
  | .base op, o => o = .base (Map.step s.1 op).2
  | .isEmpty, o => o = .bool s.1.isEmpty
  | .height, o => ∃ n, o = .base (.int n)
  | .traverse ord stop, o => ∃ l, o = .base (.list l) ∧
      (match ord with
       | .bad => l = []
       | .asc => keyTraverse = true → l = cut stop s.1
       | .desc => keyTraverse = true → l = cut stop s.1.reverse
       | _ => keyTraverse = true → ∃ L, L.Perm s.1 ∧ l = cut stop L)
  | .anyMatch p, o => o = .bool (s.1.anyMatch p)
  | .allMatch p, o => o = .bool (s.1.allMatch p)
  | .firstMatch p, o => ∃ r, o = .base (.kv r) ∧
      (match r with
       | some e => e ∈ s.1 ∧ p e.1 e.2 = true
       | none => s.1.anyMatch p = false)
  | .selectMatch p, o => ∃ t, o = .trie t ∧ R t (s.1.selectMatch p)
  | .partitionMatch p, o => ∃ t u, o = .tries t u ∧ R t (s.1.selectMatch p) ∧ R u (s.1.rejectMatch p)
  | .equal, o => o = .bool (Map.equal eqv s.1 s.2)
  | .equalOther, o => o = .bool false
  | .swap, o => o = .base .unit

/-- a Model trace is admitted: every step succeeded with an admitted result -/
def Admitted {σ : Type} (keyTraverse : Bool) (eqv : V → V → Bool) (R : σ → Map V → Prop) :
    Map V × Map V → List (XOp V) → List (Outcome (XOut V σ)) → Prop
  | _, [], [] => True
  | s, op :: ops, .ok o :: os => admits keyTraverse eqv R s op o ∧ Admitted keyTraverse eqv R (xnext s op) ops os
  | _, _, _ => False

end Spec

/-- "the trie `t` holds exactly the pairs `m`", as seen through `All()` and `Size()` -/
def Binary.Holds (t : Binary V) (m : Spec.Map V) : Prop := t.all = m ∧ t.size = m.length
def Patricia.Holds (t : Patricia V) (m : Spec.Map V) : Prop := t.all = .ok m ∧ t.size = m.length

/-- the keys an extended operation stores, looks up or deletes are non-empty -/
def XOp.keysNonempty : XOp V → Bool
  | .base op => op.keysNonempty
  | _ => true

/-- `Put` stores non-empty keys shorter than `lenPos` bits (see `Op.smallKeys`) -/
def XOp.smallKeys : XOp V → Bool
  | .base op => op.smallKeys
  | _ => true

def XPatriciaHistory : List (XOp V) → Bool
  | [] => true
  | op :: ops => op.smallKeys && XPatriciaHistory ops

def Binary.xrun [Inhabited V] (eqv : V → V → Bool) :
    Binary V × Binary V → List (XOp V) → List (Outcome (XOut V (Binary V))) := runTrace (Binary.xstep eqv)
def Patricia.xrun (eqv : V → V → Bool) :
    Patricia V × Patricia V → List (XOp V) → List (Outcome (XOut V (Patricia V))) := runTrace (Patricia.xstep eqv)

end AlgoVerif.C06
