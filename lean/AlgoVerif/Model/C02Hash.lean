import AlgoVerif.Common
import AlgoVerif.Generated.C02
/-!
# Model of package `hash` (`hash/hash.go`): the `HashFuncFor*` family as PURE functions

Every `HashFuncFor…[T](h)` of the Go file returns a closure that does

    h.Reset(); <write the little-endian bytes of the argument into b>; h.Write(b); return h.Sum64()

with `h = fnv.New64()` when the caller passes `nil` (`ensureHasher`).  The Model of such a closure is the
function `fnv ∘ encode`: the 64-bit FNV fold (Go's `hash/fnv`, standard library: **trusted**; its offset basis,
its prime and which of `New64`/`New64a` is installed are regenerated from the sources, `Generated/C02.lean`)
over the exact byte string the closure writes.  In particular the Model has **no state**: the buffer `b` that
the scalar variants allocate once and reuse, and the hasher that every closure reuses, do not appear — that
they are invisible is exactly what the correspondence component `hashfn` checks on call histories.

Conventions
* a Go `string` / `[]byte` is `Bytes = List UInt8`;
* signed integer arguments are `Int` (assumed to be in the range of the Go type), `byte(v >> (8*i))` is the
  arithmetic shift (`Int.shiftRight` rounds towards −∞) followed by truncation to the low byte — this also
  covers shift counts ≥ 64, where Go yields 0 or −1;
* unsigned arguments are `Nat` (assumed `< 2^bits`);
* `float32/float64/complex*` arguments are given by their IEEE-754 bit patterns (what
  `*(*uint32)(unsafe.Pointer(&f))` reads): the map float ↦ bits is Go's and is not modelled;
* `unsafe.Sizeof(v)` is taken for a 64-bit platform: 8 for `int`, `uint`, `uintptr`, and **24** in the three
  slice variants `HashFuncForIntSlice`, `HashFuncForUintSlice`, `HashFuncForUintptrSlice`, where `v` is declared
  with the *slice* type `T`, so `size` is the size of a slice header: these functions write 24 bytes per
  element (the value, then 16 bytes of sign- resp. zero-extension).  A quirk of the source, mirrored here;
  the widths are regenerated (`hash_…_width`).
-/
namespace AlgoVerif.C02.Hash
open AlgoVerif.Generated

abbrev Bytes := List UInt8

/-! ## `hash/fnv` (64 bit) -/

def offset64 : UInt64 := UInt64.ofNat hash_fnv_offset64
def prime64 : UInt64 := UInt64.ofNat hash_fnv_prime64

/-- one iteration of `(*sum64).Write` (`hash *= prime64; hash ^= sum64(c)`, FNV-1) resp. of `(*sum64a).Write`
(`hash ^= sum64a(c); hash *= prime64`, FNV-1a), whichever `ensureHasher` installs -/
def fnvStep (h : UInt64) (c : UInt8) : UInt64 :=
  if hash_defaultHasherIsFNV1a then (h ^^^ c.toUInt64) * prime64 else (h * prime64) ^^^ c.toUInt64

/-- `h.Reset(); h.Write(bs); h.Sum64()` -/
def fnv (bs : Bytes) : UInt64 := bs.foldl fnvStep offset64

/-! ## the byte strings -/

/-- `b[i] = byte(v >> (8*i))` for `i < w`, `v` signed -/
def encSigned (w : Nat) (v : Int) : Bytes :=
  (List.range w).map fun i => UInt8.ofNat ((v >>> (8 * i)) % 256).toNat

/-- `b[i] = byte(v >> (8*i))` for `i < w`, `v` unsigned -/
def encUnsigned (w : Nat) (v : Nat) : Bytes :=
  (List.range w).map fun i => UInt8.ofNat ((v >>> (8 * i)) % 256)

def encBool (v : Bool) : Bytes := [if v then 1 else 0]

/-- real part then imaginary part, each `w/2` bytes of its bit pattern -/
def encComplex (w : Nat) (c : Nat × Nat) : Bytes := encUnsigned (w / 2) c.1 ++ encUnsigned (w / 2) c.2

/-- the slice variants: the encodings of the elements one after the other -/
def encSlice {α : Type} (enc : α → Bytes) (l : List α) : Bytes := l.flatMap enc

/-! ## the family (one definition per Go function, argument ↦ `uint64`) -/

def forBool (v : Bool) : UInt64 := fnv (encBool v)
def forBoolSlice (v : List Bool) : UInt64 := fnv (encSlice encBool v)
def forInt8 (v : Int) : UInt64 := fnv (encSigned hash_HashFuncForInt8_width v)
def forInt8Slice (v : List Int) : UInt64 := fnv (encSlice (encSigned hash_HashFuncForInt8Slice_width) v)
def forInt16 (v : Int) : UInt64 := fnv (encSigned hash_HashFuncForInt16_width v)
def forInt16Slice (v : List Int) : UInt64 := fnv (encSlice (encSigned hash_HashFuncForInt16Slice_width) v)
def forInt32 (v : Int) : UInt64 := fnv (encSigned hash_HashFuncForInt32_width v)
def forInt32Slice (v : List Int) : UInt64 := fnv (encSlice (encSigned hash_HashFuncForInt32Slice_width) v)
def forInt64 (v : Int) : UInt64 := fnv (encSigned hash_HashFuncForInt64_width v)
def forInt64Slice (v : List Int) : UInt64 := fnv (encSlice (encSigned hash_HashFuncForInt64Slice_width) v)
def forInt (v : Int) : UInt64 := fnv (encSigned hash_HashFuncForInt_width v)
def forIntSlice (v : List Int) : UInt64 := fnv (encSlice (encSigned hash_HashFuncForIntSlice_width) v)
def forUint8 (v : Nat) : UInt64 := fnv (encUnsigned hash_HashFuncForUint8_width v)
def forUint8Slice (v : List Nat) : UInt64 := fnv (encSlice (encUnsigned hash_HashFuncForUint8Slice_width) v)
def forUint16 (v : Nat) : UInt64 := fnv (encUnsigned hash_HashFuncForUint16_width v)
def forUint16Slice (v : List Nat) : UInt64 := fnv (encSlice (encUnsigned hash_HashFuncForUint16Slice_width) v)
def forUint32 (v : Nat) : UInt64 := fnv (encUnsigned hash_HashFuncForUint32_width v)
def forUint32Slice (v : List Nat) : UInt64 := fnv (encSlice (encUnsigned hash_HashFuncForUint32Slice_width) v)
def forUint64 (v : Nat) : UInt64 := fnv (encUnsigned hash_HashFuncForUint64_width v)
def forUint64Slice (v : List Nat) : UInt64 := fnv (encSlice (encUnsigned hash_HashFuncForUint64Slice_width) v)
def forUintptr (v : Nat) : UInt64 := fnv (encUnsigned hash_HashFuncForUintptr_width v)
def forUintptrSlice (v : List Nat) : UInt64 := fnv (encSlice (encUnsigned hash_HashFuncForUintptrSlice_width) v)
def forUint (v : Nat) : UInt64 := fnv (encUnsigned hash_HashFuncForUint_width v)
def forUintSlice (v : List Nat) : UInt64 := fnv (encSlice (encUnsigned hash_HashFuncForUintSlice_width) v)
/-- argument: the IEEE-754 bit pattern -/
def forFloat32 (bits : Nat) : UInt64 := fnv (encUnsigned hash_HashFuncForFloat32_width bits)
def forFloat32Slice (bits : List Nat) : UInt64 := fnv (encSlice (encUnsigned hash_HashFuncForFloat32Slice_width) bits)
def forFloat64 (bits : Nat) : UInt64 := fnv (encUnsigned hash_HashFuncForFloat64_width bits)
def forFloat64Slice (bits : List Nat) : UInt64 := fnv (encSlice (encUnsigned hash_HashFuncForFloat64Slice_width) bits)
/-- argument: the bit patterns of the real and of the imaginary part -/
def forComplex64 (c : Nat × Nat) : UInt64 := fnv (encComplex hash_HashFuncForComplex64_width c)
def forComplex64Slice (c : List (Nat × Nat)) : UInt64 := fnv (encSlice (encComplex hash_HashFuncForComplex64Slice_width) c)
def forComplex128 (c : Nat × Nat) : UInt64 := fnv (encComplex hash_HashFuncForComplex128_width c)
def forComplex128Slice (c : List (Nat × Nat)) : UInt64 := fnv (encSlice (encComplex hash_HashFuncForComplex128Slice_width) c)
/-- `h.Write([]byte(s))` -/
def forString (s : Bytes) : UInt64 := fnv s
/-- `for _, x := range s { h.Write([]byte(x)) }`: the strings are written back to back, without separator -/
def forStringSlice (s : List Bytes) : UInt64 := fnv (encSlice id s)

/-! ## the same family, addressed by the name of the Go function (for the driver and for the coverage fact) -/

/-- an argument of any of the functions, as the line protocol writes it -/
inductive Arg where
  | bool (v : Bool)
  | int (v : Int)
  | nat (v : Nat)
  | pair (v : Nat × Nat)
  | bytes (v : Bytes)
  | bools (v : List Bool)
  | ints (v : List Int)
  | nats (v : List Nat)
  | pairs (v : List (Nat × Nat))
  | strs (v : List Bytes)
  deriving Repr, DecidableEq

/-- what kind of argument a function takes -/
inductive Shape where
  | bool | int | nat | pair | bytes | bools | ints | nats | pairs | strs
  deriving Repr, DecidableEq

/-- the modelled functions: Go name (without the prefix `HashFuncFor`) and argument shape -/
def families : List (String × Shape) :=
  [("Bool", .bool), ("BoolSlice", .bools),
   ("Int8", .int), ("Int8Slice", .ints), ("Int16", .int), ("Int16Slice", .ints), ("Int32", .int), ("Int32Slice", .ints),
   ("Int64", .int), ("Int64Slice", .ints), ("Int", .int), ("IntSlice", .ints),
   ("Uint8", .nat), ("Uint8Slice", .nats), ("Uint16", .nat), ("Uint16Slice", .nats), ("Uint32", .nat), ("Uint32Slice", .nats),
   ("Uint64", .nat), ("Uint64Slice", .nats), ("Uintptr", .nat), ("UintptrSlice", .nats), ("Uint", .nat), ("UintSlice", .nats),
   ("Float32", .nat), ("Float32Slice", .nats), ("Float64", .nat), ("Float64Slice", .nats),
   ("Complex64", .pair), ("Complex64Slice", .pairs), ("Complex128", .pair), ("Complex128Slice", .pairs),
   ("String", .bytes), ("StringSlice", .strs)]

/-- the bytes the named function writes for an argument (`none`: unknown name or an argument of the wrong shape) -/
def encode (name : String) (a : Arg) : Option Bytes :=
  match name, a with
  | "Bool", .bool v => some (encBool v)
  | "BoolSlice", .bools v => some (encSlice encBool v)
  | "Int8", .int v => some (encSigned hash_HashFuncForInt8_width v)
  | "Int8Slice", .ints v => some (encSlice (encSigned hash_HashFuncForInt8Slice_width) v)
  | "Int16", .int v => some (encSigned hash_HashFuncForInt16_width v)
  | "Int16Slice", .ints v => some (encSlice (encSigned hash_HashFuncForInt16Slice_width) v)
  | "Int32", .int v => some (encSigned hash_HashFuncForInt32_width v)
  | "Int32Slice", .ints v => some (encSlice (encSigned hash_HashFuncForInt32Slice_width) v)
  | "Int64", .int v => some (encSigned hash_HashFuncForInt64_width v)
  | "Int64Slice", .ints v => some (encSlice (encSigned hash_HashFuncForInt64Slice_width) v)
  | "Int", .int v => some (encSigned hash_HashFuncForInt_width v)
  | "IntSlice", .ints v => some (encSlice (encSigned hash_HashFuncForIntSlice_width) v)
  | "Uint8", .nat v => some (encUnsigned hash_HashFuncForUint8_width v)
  | "Uint8Slice", .nats v => some (encSlice (encUnsigned hash_HashFuncForUint8Slice_width) v)
  | "Uint16", .nat v => some (encUnsigned hash_HashFuncForUint16_width v)
  | "Uint16Slice", .nats v => some (encSlice (encUnsigned hash_HashFuncForUint16Slice_width) v)
  | "Uint32", .nat v => some (encUnsigned hash_HashFuncForUint32_width v)
  | "Uint32Slice", .nats v => some (encSlice (encUnsigned hash_HashFuncForUint32Slice_width) v)
  | "Uint64", .nat v => some (encUnsigned hash_HashFuncForUint64_width v)
  | "Uint64Slice", .nats v => some (encSlice (encUnsigned hash_HashFuncForUint64Slice_width) v)
  | "Uintptr", .nat v => some (encUnsigned hash_HashFuncForUintptr_width v)
  | "UintptrSlice", .nats v => some (encSlice (encUnsigned hash_HashFuncForUintptrSlice_width) v)
  | "Uint", .nat v => some (encUnsigned hash_HashFuncForUint_width v)
  | "UintSlice", .nats v => some (encSlice (encUnsigned hash_HashFuncForUintSlice_width) v)
  | "Float32", .nat v => some (encUnsigned hash_HashFuncForFloat32_width v)
  | "Float32Slice", .nats v => some (encSlice (encUnsigned hash_HashFuncForFloat32Slice_width) v)
  | "Float64", .nat v => some (encUnsigned hash_HashFuncForFloat64_width v)
  | "Float64Slice", .nats v => some (encSlice (encUnsigned hash_HashFuncForFloat64Slice_width) v)
  | "Complex64", .pair v => some (encComplex hash_HashFuncForComplex64_width v)
  | "Complex64Slice", .pairs v => some (encSlice (encComplex hash_HashFuncForComplex64Slice_width) v)
  | "Complex128", .pair v => some (encComplex hash_HashFuncForComplex128_width v)
  | "Complex128Slice", .pairs v => some (encSlice (encComplex hash_HashFuncForComplex128Slice_width) v)
  | "String", .bytes v => some v
  | "StringSlice", .strs v => some (encSlice id v)
  | _, _ => none

/-- the value the closure returned by `HashFuncFor<name>(nil)` returns for `a` — on every call -/
def hashOf (name : String) (a : Arg) : Option UInt64 := (encode name a).map fnv

end AlgoVerif.C02.Hash
