import AlgoVerif.Model.C05Binomial
/-!
# Model of `heap/indexed_fibonacci.go`

Same representation as the binomial Model: node ids (allocation numbers), contents `index,key,val` in
`cells`, `nodes : Array (Option Nat)`.  Links: `degree`, `mark` and the child list are kept in the tree
`FT.node id degree mark child next`; a *circular doubly linked list with an entry pointer* (root list entered
at `h.ext`, child list entered at `parent.child`) is the list of its nodes starting at the entry and
following `next` once around — as an `FT` chain for child lists, as `List FN` for the root list.  With this
reading the pointer routines become

* `insert(head, n)` (n goes before `head`): append at the end when the result is ignored (`h.insert(h.ext,n)`),
  cons at the front when the result becomes the new entry (`parent.child = h.insert(parent.child, child)`);
* `cut(head, n)`: erase `n` (an erased entry node makes its `next` the entry, which is what erasing the first
  list element does);
* `meld(h1, h2)`: `h1-list ++ (tail h2-list ++ [h2])`;
* `h.ext = x` for a root `x`: rotate the root list so that it starts at `x`.

`prev` pointers carry no information beyond `next` and are not modelled (the `dump` hook checks on the Go side
that `x.next.prev == x` everywhere).  `parent` is the structural parent (set by `link`, cleared when a node is
moved to the root list); the dump prints Go's real `parent.index`.

`maxDegree` uses `math.Log` on `float64`: the Model computes `⌊log_φ n⌋ + 1` in integer arithmetic via Lucas
numbers (`φ^k = L_k − (−1/φ)^k`, so `φ^k ≤ n ⇔ L_k ≤ n` for even `k ≥ 2` and `L_k + 1 ≤ n` for odd `k`).
That the floating-point value equals this integer is *trusted* and cross-checked through the hook
`heap.VerifIndexedMaxDegree` (every `n ≤ 3000` in each quick run, every `n ≤ 10^6` in the thorough tier).

An id that cannot be found where the Go code assumes a valid pointer (a dangling `nodes[]` entry, `h.ext` set to
a node that is not a root) is `Outcome.panic`.  The `consolidate` loops take fuel.
-/
namespace AlgoVerif.C05

inductive FT where
  | nil
  | node (id : Nat) (degree : Int) (mark : Bool) (child next : FT)
  deriving Repr, DecidableEq, Inhabited

/-- one node of a list, without its `next` -/
structure FN where
  id : Nat
  degree : Int
  mark : Bool
  child : FT
  deriving Repr, DecidableEq, Inhabited

namespace FT

def toList : FT → List FN
  | nil => []
  | node id d m c nx => ⟨id, d, m, c⟩ :: toList nx

def ofList : List FN → FT
  | [] => nil
  | f :: rest => node f.id f.degree f.mark f.child (ofList rest)

def ids : FT → List Nat
  | nil => []
  | node id _ _ c nx => id :: (ids c ++ ids nx)

def size : FT → Nat
  | nil => 0
  | node _ _ _ c nx => size c + size nx + 1

/-- parent of `target` inside the child chain of node `par`: `some p` if found -/
def parentIn (target : Nat) : FT → Nat → Option Nat
  | nil, _ => none
  | node id _ _ c nx, par =>
    if id = target then some par
    else
      match parentIn target c id with
      | some r => some r
      | none => parentIn target nx par

/-- `cutAndCascade(target)` seen from a child chain that contains `target` somewhere below or in it:
`(chain', cut nodes in the order they were inserted into the root list, a node of this chain was removed)`.
When a node of the chain is removed its parent (the caller) decrements `degree`, toggles `mark`, and is cut
itself if the mark became false. -/
def cutIn (target : Nat) : FT → Option (FT × List FN × Bool)
  | nil => none
  | node id d m c nx =>
    if id = target then some (nx, [⟨id, d, m, c⟩], true)
    else
      match cutIn target c with
      | some (c', cuts, removed) =>
        if removed then
          -- parent.child = cut(parent.child, n); parent.degree--; parent.mark = !parent.mark
          if !m then some (node id (d - 1) true c' nx, cuts, false)
          else some (nx, cuts ++ [⟨id, d - 1, false, c'⟩], true)       -- cutAndCascade(parent)
        else some (node id d m c' nx, cuts, false)
      | none =>
        match cutIn target nx with
        | some (nx', cuts, removed) => some (node id d m c nx', cuts, removed)
        | none => none

end FT

namespace FN
def ids (f : FN) : List Nat := f.id :: f.child.ids
end FN

/-! ### `maxDegree` -/

/-- `k` with `φ^k ≤ n` is known; `(lk, lk1) = (L_k, L_{k+1})` -/
def logPhiLoop : Nat → Nat → Nat → Nat → Nat → Nat
  | 0, k, _, _, _ => k
  | fuel + 1, k, lk, lk1, n =>
    let le : Bool := if (k + 1) % 2 = 0 then lk1 ≤ n else lk1 + 1 ≤ n
    if le then logPhiLoop fuel (k + 1) lk1 (lk + lk1) n else k

/-- `⌊log_φ n⌋` for `n ≥ 1` -/
def logPhi (n : Nat) : Nat := logPhiLoop n 0 2 1 n

/-- `int(math.Log(float64(h.n))/math.Log(φ)) + 1`; for `n ≤ 0` Go computes a negative length and
`make` panics -/
def fibMaxDegree (n : Int) : Outcome Nat :=
  if n ≤ 0 then .panic else .ok (logPhi n.toNat + 1)

structure IFib (K V : Type) where
  n : Int
  /-- root list starting at `h.ext`; `[]` ⇔ `h.ext == nil` -/
  roots : List FN
  nodes : Array (Option Nat)
  cells : Array (Cell K V)

namespace IFib
variable {K V : Type}

def new (cap : Nat) : IFib K V :=
  { n := 0, roots := [], nodes := Array.replicate cap none, cells := #[] }

def keyOf (h : IFib K V) (id : Nat) : Outcome K :=
  match h.cells[id]? with
  | some c => .ok c.key
  | none => .panic

def findRoot (id : Nat) : List FN → Option FN
  | [] => none
  | r :: rs => if r.id = id then some r else findRoot id rs

/-- `cut(h.ext, x)` for the root `x` -/
def eraseRoot (id : Nat) : List FN → List FN
  | [] => []
  | r :: rs => if r.id = id then rs else r :: eraseRoot id rs

/-- `h.ext = x` -/
def rotateTo (id : Nat) (roots : List FN) : Option (List FN) :=
  match roots.dropWhile fun r => r.id != id with
  | [] => none
  | b => some (b ++ roots.takeWhile fun r => r.id != id)

/-- `curr.next` in the circular root list -/
def nextOf (id : Nat) (roots : List FN) : Option Nat :=
  match roots.dropWhile fun r => r.id != id with
  | [] => none
  | [_] => roots.head?.map (·.id)
  | _ :: y :: _ => some y.id

/-- `link(child, parent)` for a root `parent`: `parent.child = insert(parent.child, child); parent.degree++` -/
def linkUnder (child : FN) (pid : Nat) : List FN → List FN
  | [] => []
  | r :: rs =>
    if r.id = pid then
      { r with child := .node child.id child.degree child.mark child.child r.child, degree := r.degree + 1 } :: rs
    else r :: linkUnder child pid rs

/-- parent of node `target`: `none` = not in the heap, `some none` = a root -/
def parentOf (target : Nat) : List FN → Option (Option Nat)
  | [] => none
  | r :: rs =>
    if r.id = target then some none
    else
      match r.child.parentIn target r.id with
      | some p => some (some p)
      | none => parentOf target rs

/-- `cutAndCascade(target)` from the root list: `(roots', cut nodes)`; the caller appends the cut nodes -/
def cutInRoots (target : Nat) : List FN → Option (List FN × List FN)
  | [] => none
  | r :: rs =>
    if r.id = target then some (r :: rs, [])          -- n.parent == nil: return
    else
      match r.child.cutIn target with
      | some (c', cuts, removed) =>
        if removed then
          -- the root loses a child: degree--, mark toggled; cutAndCascade(root) returns at once
          some ({ r with degree := r.degree - 1, mark := !r.mark, child := c' } :: rs, cuts)
        else some ({ r with child := c' } :: rs, cuts)
      | none =>
        match cutInRoots target rs with
        | some (rs', cuts) => some (r :: rs', cuts)
        | none => none

def cutAndCascade (h : IFib K V) (n : Nat) : Outcome (IFib K V) :=
  match cutInRoots n h.roots with
  | some (roots', cuts) => .ok { h with roots := roots' ++ cuts }
  | none => .panic

/-- the inner `for y := roots[x.degree]; y != nil && y != x; y = roots[x.degree]` loop of `consolidate`;
result `(root list, table, x, some link happened)` -/
def consInner (cmp : K → K → Int) (h : IFib K V) :
    Nat → List FN → Array (Option Nat) → Nat → Bool → Outcome (List FN × Array (Option Nat) × Nat × Bool)
  | 0, _, _, _, _ => .diverge
  | fuel + 1, roots, tbl, x, linked =>
    match findRoot x roots with
    | none => .panic
    | some xn =>
      if xn.degree < 0 then .panic
      else
        match tbl[xn.degree.toNat]? with
        | none => .panic                                    -- roots[x.degree] out of range
        | some none => .ok (roots, tbl, x, linked)
        | some (some y) =>
          if y = x then .ok (roots, tbl, x, linked)
          else
            let tbl := tbl.setIfInBounds xn.degree.toNat none
            match findRoot y roots with
            | none => .panic
            | some yn =>
              match h.keyOf x, h.keyOf y with
              | .ok kx, .ok ky =>
                if 0 < cmp kx ky then
                  -- h.ext = cut(h.ext, x); link(x, y); x = y
                  consInner cmp h fuel (linkUnder xn y (eraseRoot x roots)) tbl y true
                else
                  -- h.ext = cut(h.ext, y); link(y, x)
                  consInner cmp h fuel (linkUnder yn x (eraseRoot y roots)) tbl x true
              | _, _ => .panic

/-- the outer `for stop, curr := h.ext, h.ext; ; { … if curr = curr.next; curr == stop { break } }` -/
def consOuter (cmp : K → K → Int) (h : IFib K V) :
    Nat → List FN → Array (Option Nat) → Nat → Nat → Outcome (List FN × Array (Option Nat))
  | 0, _, _, _, _ => .diverge
  | fuel + 1, roots, tbl, stop, curr =>
    match consInner cmp h (roots.length + 1) roots tbl curr false with
    | .ok (roots, tbl, x, linked) =>
      let stop := if linked then x else stop
      let curr := if linked then x else curr
      -- roots[x.degree] = x
      match findRoot x roots with
      | none => .panic
      | some xn =>
        if xn.degree < 0 ∨ xn.degree.toNat ≥ tbl.size then .panic
        else
          let tbl := tbl.setIfInBounds xn.degree.toNat (some x)
          match nextOf curr roots with
          | none => .panic
          | some nx => if nx = stop then .ok (roots, tbl) else consOuter cmp h fuel roots tbl stop nx
    | .panic => .panic
    | .diverge => .diverge

/-- `for _, r := range roots { if r != nil { h.ext = pickExt(h.ext, r) } }`, tracking the id of `h.ext` -/
def pickLoop (cmp : K → K → Int) (h : IFib K V) (ext : Nat) : List (Option Nat) → Outcome Nat
  | [] => .ok ext
  | none :: rest => pickLoop cmp h ext rest
  | some r :: rest =>
    match h.keyOf ext, h.keyOf r with
    | .ok ke, .ok kr => if cmp ke kr ≤ 0 then pickLoop cmp h ext rest else pickLoop cmp h r rest
    | _, _ => .panic

/-- `consolidate()`; `h.roots` is non-empty when it is called -/
def consolidate (cmp : K → K → Int) (h : IFib K V) : Outcome (IFib K V) :=
  match fibMaxDegree h.n with
  | .ok maxD =>
    match h.roots with
    | [] => .panic
    | e :: _ =>
      let len := h.roots.length
      match consOuter cmp h ((len + 1) * (len + 1) + 1) h.roots (Array.replicate maxD none) e.id e.id with
      | .ok (roots, tbl) =>
        match roots with
        | [] => .panic
        | e' :: _ =>
          match pickLoop cmp h e'.id tbl.toList with
          | .ok x =>
            match rotateTo x roots with
            | some roots' => .ok { h with roots := roots' }
            | none => .panic
          | .panic => .panic
          | .diverge => .diverge
      | .panic => .panic
      | .diverge => .diverge
  | .panic => .panic
  | .diverge => .diverge

def containsIndex (h : IFib K V) (i : Int) : Bool :=
  if 0 ≤ i ∧ i < (h.nodes.size : Int) then
    match h.nodes[i.toNat]? with
    | some (some _) => true
    | _ => false
  else false

/-- `h.insert(h.ext, n); h.ext = h.pickExt(h.ext, n)`: the root list with the new node `nd` -/
def insertRoots (cmp : K → K → Int) (h : IFib K V) (key : K) (nd : FN) : Outcome (List FN) :=
  match h.roots with
  | [] => .ok [nd]
  | e :: _ =>
    match h.keyOf e.id with
    | .ok ke => if cmp ke key ≤ 0 then .ok (h.roots ++ [nd]) else .ok (nd :: h.roots)
    | .panic => .panic
    | .diverge => .diverge

def insert (cmp : K → K → Int) (h : IFib K V) (i : Int) (key : K) (val : V) : Outcome (IFib K V × Bool) :=
  if i < 0 ∨ i ≥ (h.nodes.size : Int) ∨ h.containsIndex i = true then .ok (h, false)
  else
    let i := i.toNat
    let id := h.cells.size
    let cells := h.cells.push { index := i, key := key, val := val }
    match insertRoots cmp h key ⟨id, 0, false, .nil⟩ with
    | .ok roots =>
      if i < h.nodes.size then
        .ok ({ n := h.n + 1, roots := roots, nodes := h.nodes.setIfInBounds i (some id), cells := cells }, true)
      else .panic
    | .panic => .panic
    | .diverge => .diverge

/-- `meld(h.ext, n.child)` (`rest` = root list without `n`, `ch` = child list of `n` from `n.child`) -/
def meldChildren (rest ch : List FN) : List FN :=
  match ch with
  | [] => rest
  | c :: cs => if rest.isEmpty then c :: cs else rest ++ (cs ++ [c])

/-- what `Delete` and `DeleteIndex` do once the node to remove is the root `r` (already known to be a root):
cut it out of the root list, meld its children in, `nodes[r.index] = nil`, `n--`, consolidate. -/
def removeRoot (cmp : K → K → Int) (h : IFib K V) (r : Nat) : Outcome (IFib K V × Cell K V) :=
  match findRoot r h.roots with
  | none => .panic
  | some rn =>
    let roots := meldChildren (eraseRoot r h.roots) rn.child.toList
    match h.cells[r]? with
    | none => .panic
    | some c =>
      if c.index < h.nodes.size then
        let h1 : IFib K V := { h with roots := roots, nodes := h.nodes.setIfInBounds c.index none, n := h.n - 1 }
        if h1.roots.isEmpty then .ok (h1, c)
        else
          match consolidate cmp h1 with
          | .ok h2 => .ok (h2, c)
          | .panic => .panic
          | .diverge => .diverge
      else .panic

def delete (cmp : K → K → Int) (h : IFib K V) : Outcome (IFib K V × Option (Int × K × V)) :=
  match h.roots with
  | [] => .ok (h, none)
  | e :: _ =>
    match removeRoot cmp h e.id with
    | .ok (h', c) => .ok (h', some ((c.index : Int), c.key, c.val))
    | .panic => .panic
    | .diverge => .diverge

/-- `DeleteIndex` for a held index whose node is `id` -/
def deleteNode (cmp : K → K → Int) (h : IFib K V) (id : Nat) : Outcome (IFib K V × Cell K V) :=
  match cutAndCascade h id with
  | .ok h1 => removeRoot cmp h1 id
  | .panic => .panic
  | .diverge => .diverge

def deleteIndex (cmp : K → K → Int) (h : IFib K V) (i : Int) : Outcome (IFib K V × Option (K × V)) :=
  if h.containsIndex i = false then .ok (h, none)
  else
    match h.nodes[i.toNat]? with
    | some (some id) =>
      match deleteNode cmp h id with
      | .ok (h', c) => .ok (h', some (c.key, c.val))
      | .panic => .panic
      | .diverge => .diverge
    | _ => .panic

/-- `n.parent != nil && cmpKey(n.parent.key, n.key) > 0` for the parent `par` of `n` (`none` = a root) -/
def needsCut (cmp : K → K → Int) (h1 : IFib K V) (par : Option Nat) (key : K) : Outcome Bool :=
  match par with
  | none => .ok false
  | some p =>
    match h1.keyOf p with
    | .ok kp => .ok (decide (0 < cmp kp key))
    | .panic => .panic
    | .diverge => .diverge

/-- `h.ext = h.pickExt(h.ext, n)` at the end of a key decrease -/
def finishDecrease (cmp : K → K → Int) (h2 : IFib K V) (id : Nat) (key : K) : Outcome (IFib K V × Bool) :=
  match h2.roots with
  | [] => .panic
  | e :: _ =>
    match h2.keyOf e.id with
    | .ok ke =>
      if cmp ke key ≤ 0 then .ok (h2, true)
      else
        match rotateTo id h2.roots with
        | some roots => .ok ({ h2 with roots := roots }, true)
        | none => .panic
    | .panic => .panic
    | .diverge => .diverge

/-- the decrease branch of `ChangeKey`, after `n.key = key` has been executed (`h1` has the new key):
`if n.parent != nil && cmpKey(n.parent.key, n.key) > 0 { cutAndCascade(n) }; h.ext = pickExt(h.ext, n)` -/
def decreaseKey (cmp : K → K → Int) (h1 : IFib K V) (id : Nat) (key : K) : Outcome (IFib K V × Bool) :=
  match parentOf id h1.roots with
  | none => .panic
  | some par =>
    match needsCut cmp h1 par key with
    | .ok b =>
      match (if b then cutAndCascade h1 id else .ok h1) with
      | .ok h2 => finishDecrease cmp h2 id key
      | .panic => .panic
      | .diverge => .diverge
    | .panic => .panic
    | .diverge => .diverge

def changeKey (cmp : K → K → Int) (h : IFib K V) (i : Int) (key : K) : Outcome (IFib K V × Bool) :=
  if h.containsIndex i = false then .ok (h, false)
  else
    match h.nodes[i.toNat]? with
    | some (some id) =>
      match h.cells[id]? with
      | none => .panic
      | some c =>
        let cm := cmp key c.key
        if cm < 0 then
          -- decrease key
          decreaseKey cmp { h with cells := h.cells.setIfInBounds id { c with key := key } } id key
        else if 0 < cm then
          -- increase key: h.DeleteIndex(i); h.Insert(i, key, n.val)
          match deleteNode cmp h id with
          | .ok (h1, _) =>
            match insert cmp h1 i key c.val with
            | .ok (h2, _) => .ok (h2, true)
            | .panic => .panic
            | .diverge => .diverge
          | .panic => .panic
          | .diverge => .diverge
        else .ok (h, true)
    | _ => .panic

def deleteAll (h : IFib K V) : IFib K V :=
  { h with n := 0, roots := [], nodes := Array.replicate h.nodes.size none }

def peek (h : IFib K V) : Outcome (Option (Int × K × V)) :=
  match h.roots with
  | [] => .ok none
  | e :: _ =>
    match h.cells[e.id]? with
    | some c => .ok (some ((c.index : Int), c.key, c.val))
    | none => .panic

def peekIndex (h : IFib K V) (i : Int) : Outcome (Option (K × V)) :=
  if h.containsIndex i = false then .ok none
  else
    match h.nodes[i.toNat]? with
    | some (some id) =>
      match h.cells[id]? with
      | some c => .ok (some (c.key, c.val))
      | none => .panic
    | _ => .panic

def containsKey (cmp : K → K → Int) (h : IFib K V) (key : K) : Outcome Bool :=
  anyCell h.cells (fun c => cmp c.key key == 0) h.nodes.toList

def containsValue (eq : V → V → Bool) (h : IFib K V) (val : V) : Outcome Bool :=
  anyCell h.cells (fun c => eq c.val val) h.nodes.toList

def step (cmp : K → K → Int) (eq : V → V → Bool) (h : IFib K V) : Op K V → Outcome (IFib K V × Res K V)
  | .insert i k v => (h.insert cmp i k v).map fun (h', b) => (h', .bool b)
  | .changeKey i k => (h.changeKey cmp i k).map fun (h', b) => (h', .bool b)
  | .delete => (h.delete cmp).map fun (h', r) => (h', .ikv r)
  | .deleteIndex i => (h.deleteIndex cmp i).map fun (h', r) => (h', .kv r)
  | .deleteAll => .ok (h.deleteAll, .unit)
  | .peek => h.peek.map fun r => (h, .ikv r)
  | .peekIndex i => (h.peekIndex i).map fun r => (h, .kv r)
  | .containsIndex i => .ok (h, .bool (h.containsIndex i))
  | .containsKey k => (h.containsKey cmp k).map fun b => (h, .bool b)
  | .containsValue v => (h.containsValue eq v).map fun b => (h, .bool b)
  | .size => .ok (h, .int h.n)
  | .isEmpty => .ok (h, .bool h.roots.isEmpty)

def run (cmp : K → K → Int) (eq : V → V → Bool) (cap : Nat) (ops : List (Op K V)) :
    List (Outcome (Res K V)) :=
  runWith (step cmp eq) (new cap) ops

end IFib
end AlgoVerif.C05
