import AlgoVerif.Model.C02Run
/-!
# C02/C03: a pool of hash tables used together

`Model/C02Run.lean` runs a history on two tables of one implementation, one hash function and one set of
options.  Here a history runs on a **pool**: any number of tables, each with its own Go type (separate chaining,
linear probing, quadratic probing, double hashing), its own hash function, its own `eqVal` and its own `HashOpts`,
plus the iterator values a Go program can hold on to:

* `ht.Equal(rhs)` for any two tables of the pool, the same table twice included.  The four `Equal` methods start
  with the type assertion `rhs.(*xxxHashTable[K, V])`: an operand of another Go type is never equal.  Otherwise
  `ht.AllMatch(k,v ↦ rhs.Get(k) = (v', true) ∧ ht.eqVal(v, v')) && rhs.AllMatch(k,v ↦ ht.Get(k) = … ht.eqVal …)`:
  each table is searched with **its own** hash function and the values are compared with the **receiver's** `eqVal`.
* `seq := ht.All()` — the `iter.Seq2` value.  Since the fix "All() lists its slots when the sequence is run, not when
  it is obtained" a sequence is only a handle on its table: every RUN of it (`for … range seq`, or the first `next` of
  `iter.Pull2(seq)`) lists the slots of the table as they are at that moment and draws the shuffle then.  A sequence
  run twice draws twice, a sequence never run draws nothing, a sequence obtained before `Put` / `Delete` / a resize /
  `DeleteAll` and run afterwards sees the table as it is when it is run.
* `next, stop := iter.Pull2(seq)`: a traversal that is advanced step by step; it starts (lists and shuffles) at its
  first `next`; `next` after the end or after `stop` reports the end.

Traversals are values here: a started traversal is what is left of the listing it drew, so two traversals of one table
— nested `for range ht.All()` loops, two pulled iterators advanced alternately — cannot influence each other.
Changing a table while a traversal of *that* table is half-way (started, not yet finished) is outside the property (no
method promises anything there): `Put`, `Delete` and `DeleteAll` on table `i` break the traversals of table `i` that are
running (`invalid` from then on).  Sequences, traversals that have not started, and traversals of the other tables are
unaffected.
-/
namespace AlgoVerif.C02
variable {K V σ : Type} [DecidableEq K]

/-- the dynamic Go type of a table (what the type assertion in `Equal` looks at) -/
inductive GoType where
  | chain
  | linear
  | quadratic
  | double
  deriving Repr, DecidableEq, Inhabited

/-- a table of any of the four implementations (quadratic probing and double hashing share `OATable`) -/
inductive Tab (K V : Type) where
  | chain (t : ChainTable K V)
  | lin (t : LinTable K V)
  | oa (t : OATable K V)

/-- the four constructors -/
def Tab.new (ty : GoType) (o : Opts) : Outcome (Tab K V) :=
  match ty with
  | .chain =>
    match (Chain.new o : Outcome (ChainTable K V)) with
    | .ok t => .ok (.chain t)
    | .panic => .panic
    | .diverge => .diverge
  | .linear =>
    match (Lin.new o : Outcome (LinTable K V)) with
    | .ok t => .ok (.lin t)
    | .panic => .panic
    | .diverge => .diverge
  | .quadratic =>
    match (OA.new .quad o : Outcome (OATable K V)) with
    | .ok t => .ok (.oa t)
    | .panic => .panic
    | .diverge => .diverge
  | .double =>
    match (OA.new .dbl o : Outcome (OATable K V)) with
    | .ok t => .ok (.oa t)
    | .panic => .panic
    | .diverge => .diverge

def Tab.put (sh : Shuffle σ) (hash : K → UInt64) (t : Tab K V) (g : σ) (k : K) (v : V) : Outcome (Tab K V × σ) :=
  match t with
  | .chain t =>
    match Chain.put sh hash depth t g k v with
    | .ok (t', g') => .ok (.chain t', g')
    | .panic => .panic
    | .diverge => .diverge
  | .lin t =>
    match Lin.put sh hash depth t g k v with
    | .ok (t', g') => .ok (.lin t', g')
    | .panic => .panic
    | .diverge => .diverge
  | .oa t =>
    match OA.put sh hash depth t g k v with
    | .ok (t', g') => .ok (.oa t', g')
    | .panic => .panic
    | .diverge => .diverge

def Tab.get (hash : K → UInt64) (t : Tab K V) (k : K) : Outcome (Option V) :=
  match t with
  | .chain t => Chain.get hash t k
  | .lin t => Lin.get hash t k
  | .oa t => OA.get hash t k

def Tab.delete (sh : Shuffle σ) (hash : K → UInt64) (t : Tab K V) (g : σ) (k : K) : Outcome (Tab K V × σ × Option V) :=
  match t with
  | .chain t =>
    match Chain.delete sh hash depth t g k with
    | .ok (t', g', o) => .ok (.chain t', g', o)
    | .panic => .panic
    | .diverge => .diverge
  | .lin t =>
    match Lin.delete sh hash depth t g k with
    | .ok (t', g', o) => .ok (.lin t', g', o)
    | .panic => .panic
    | .diverge => .diverge
  | .oa t =>
    match OA.delete sh hash depth t g k with
    | .ok (t', g', o) => .ok (.oa t', g', o)
    | .panic => .panic
    | .diverge => .diverge

def Tab.deleteAll (t : Tab K V) : Tab K V :=
  match t with
  | .chain t => .chain (Chain.deleteAll t)
  | .lin t => .lin (Lin.deleteAll t)
  | .oa t => .oa (OA.deleteAll t)

def Tab.size (t : Tab K V) : Int :=
  match t with
  | .chain t => t.n
  | .lin t => t.n
  | .oa t => t.n

def Tab.all (sh : Shuffle σ) (t : Tab K V) (g : σ) : List (K × V) × σ :=
  match t with
  | .chain t => Chain.all sh t g
  | .lin t => Lin.all sh t g
  | .oa t => OA.all sh t g

/-- the operations of a table of any implementation, as an `Impl` (so that the refinement argument of
`Proofs/C02Sim.lean` applies to it) -/
def Tab.impl (sh : Shuffle σ) (hash : K → UInt64) (eqVal : V → V → Bool) : Impl K V σ (Tab K V) where
  put := Tab.put sh hash
  get := Tab.get hash
  delete := Tab.delete sh hash
  deleteAll := Tab.deleteAll
  size := Tab.size
  all := Tab.all sh
  equal := fun t1 t2 g => equalWith eqVal (Tab.get hash t1) (Tab.get hash t2) (Tab.all sh t1) (Tab.all sh t2) g

/-- one table of the pool: its Go type and the functions it was constructed with never change -/
structure Obj (K V : Type) where
  ty : GoType
  hash : K → UInt64
  eqVal : V → V → Bool
  tab : Tab K V

/-- the arguments of one constructor call -/
structure Cfg (K V : Type) where
  ty : GoType
  hash : K → UInt64
  eqVal : V → V → Bool
  opts : Opts

def Obj.new (c : Cfg K V) : Outcome (Obj K V) :=
  match (Tab.new c.ty c.opts : Outcome (Tab K V)) with
  | .ok t => .ok ⟨c.ty, c.hash, c.eqVal, t⟩
  | .panic => .panic
  | .diverge => .diverge

/-- the constructor calls, in order (the first one that panics ends the program) -/
def Pool.new : List (Cfg K V) → Outcome (List (Obj K V))
  | [] => .ok []
  | c :: r =>
    match Obj.new c with
    | .ok o =>
      match Pool.new r with
      | .ok os => .ok (o :: os)
      | .panic => .panic
      | .diverge => .diverge
    | .panic => .panic
    | .diverge => .diverge

/-! ## iterator values -/

/-- an `iter.Seq2` value returned by `All()` of table `tid`: a handle on the table -/
structure SeqV where
  tid : Nat
  deriving Repr, DecidableEq

/-- the life of a traversal `iter.Pull2(seq)`: not started (nothing listed yet), running, over (`next` reported the end,
or `stop`), broken (its table was changed while it was running) -/
inductive Phase where
  | fresh
  | running
  | done
  | broken
  deriving Repr, DecidableEq, Inhabited

/-- a traversal of table `tid`; `rest`: what is left of the listing it drew when it started -/
structure PullV (K V : Type) where
  tid : Nat
  phase : Phase
  rest : List (K × V)

structure Iters (K V : Type) where
  seqs : List SeqV := []
  pulls : List (PullV K V) := []

/-- outputs of the pool operations -/
inductive POut (K V : Type) where
  | unit
  | val (o : Option V)
  | bool (b : Bool)
  | int (n : Int)
  | list (l : List (K × V))
  /-- the number of the sequence / traversal just created -/
  | id (n : Nat)
  /-- the pair a traversal yields -/
  | pair (e : K × V)
  /-- the traversal is over -/
  | done
  /-- no such table / sequence / traversal, or a traversal that a change of its table has broken -/
  | invalid
  deriving Repr, DecidableEq

/-- a change of table `i` breaks the traversals of table `i` that are half-way -/
def Iters.invalidate (it : Iters K V) (i : Nat) : Iters K V :=
  { it with pulls := it.pulls.map fun pl =>
      if pl.tid = i ∧ pl.phase = .running then { pl with phase := .broken } else pl }

/-- `tables[i].All()`: nothing is listed yet -/
def Iters.addSeq (it : Iters K V) (i : Nat) : Iters K V × POut K V :=
  ({ it with seqs := it.seqs ++ [⟨i⟩] }, .id it.seqs.length)

/-- `iter.Pull2(seq)`: nothing is listed yet -/
def Iters.pull (it : Iters K V) (s : Nat) : Iters K V × POut K V :=
  match it.seqs[s]? with
  | none => (it, .invalid)
  | some sq => ({ it with pulls := it.pulls ++ [⟨sq.tid, .fresh, []⟩] }, .id it.pulls.length)

/-- one step of the running traversal `pl` (stored at `p`) -/
def Iters.advance (it : Iters K V) (p : Nat) (pl : PullV K V) : Iters K V × POut K V :=
  match pl.rest with
  | e :: r => ({ it with pulls := it.pulls.set p { pl with rest := r } }, .pair e)
  | [] => ({ it with pulls := it.pulls.set p { pl with phase := .done } }, .done)

/-- the table a `next` of traversal `p` would list now: `p` has not started yet -/
def Iters.freshTid (it : Iters K V) (p : Nat) : Option Nat :=
  match it.pulls[p]? with
  | some pl => if pl.phase = .fresh then some pl.tid else none
  | none => none

/-- `next()`; `listing`: what the table lists now, used only if the traversal starts with this call -/
def Iters.next (it : Iters K V) (p : Nat) (listing : List (K × V)) : Iters K V × POut K V :=
  match it.pulls[p]? with
  | none => (it, .invalid)
  | some pl =>
    match pl.phase with
    | .broken => (it, .invalid)
    | .done => (it, .done)
    | .running => it.advance p pl
    | .fresh => it.advance p { pl with phase := .running, rest := listing }

/-- `stop()` -/
def Iters.stop (it : Iters K V) (p : Nat) : Iters K V × POut K V :=
  match it.pulls[p]? with
  | none => (it, .invalid)
  | some pl =>
    if pl.phase = .broken then (it, .unit)
    else ({ it with pulls := it.pulls.set p { pl with phase := .done } }, .unit)

/-! ## operations on the pool -/

inductive POp (K V : Type) where
  | put (i : Nat) (k : K) (v : V)
  | get (i : Nat) (k : K)
  | delete (i : Nat) (k : K)
  | deleteAll (i : Nat)
  | size (i : Nat)
  | isEmpty (i : Nat)
  | all (i : Nat)
  /-- `tables[i].Equal(tables[j])` -/
  | equal (i j : Nat)
  /-- `seq := tables[i].All()` -/
  | seq (i : Nat)
  /-- `next, stop := iter.Pull2(seqs[s])` -/
  | pull (s : Nat)
  | next (p : Nat)
  | stop (p : Nat)
  deriving Repr

structure PState (K V σ : Type) where
  objs : List (Obj K V)
  g : σ
  it : Iters K V

/-- apply `f` to the `i`-th table.  The list is taken apart and rebuilt so that `f` receives the only reference to
the table (the compiled driver then updates the slot arrays in place); `none`: no such table. -/
def modifyAt {β : Type} : List (Obj K V) → Nat → (Obj K V → Outcome (Obj K V × β)) → Outcome (List (Obj K V) × Option β)
  | [], _, _ => .ok ([], none)
  | o :: r, 0, f =>
    match f o with
    | .ok (o', b) => .ok (o' :: r, some b)
    | .panic => .panic
    | .diverge => .diverge
  | o :: r, i + 1, f =>
    match modifyAt r i f with
    | .ok (r', b) => .ok (o :: r', b)
    | .panic => .panic
    | .diverge => .diverge

def Obj.put (sh : Shuffle σ) (g : σ) (k : K) (v : V) (o : Obj K V) : Outcome (Obj K V × σ) :=
  match o with
  | ⟨ty, hash, eqVal, tab⟩ =>
    match Tab.put sh hash tab g k v with
    | .ok (t', g') => .ok (⟨ty, hash, eqVal, t'⟩, g')
    | .panic => .panic
    | .diverge => .diverge

def Obj.delete (sh : Shuffle σ) (g : σ) (k : K) (o : Obj K V) : Outcome (Obj K V × σ × Option V) :=
  match o with
  | ⟨ty, hash, eqVal, tab⟩ =>
    match Tab.delete sh hash tab g k with
    | .ok (t', g', r) => .ok (⟨ty, hash, eqVal, t'⟩, g', r)
    | .panic => .panic
    | .diverge => .diverge

def Obj.deleteAll (o : Obj K V) : Outcome (Obj K V × Unit) :=
  match o with
  | ⟨ty, hash, eqVal, tab⟩ => .ok (⟨ty, hash, eqVal, Tab.deleteAll tab⟩, ())

/-- `o1.Equal(o2)` -/
def Obj.equal (sh : Shuffle σ) (o1 o2 : Obj K V) (g : σ) : Outcome (Bool × σ) :=
  if o1.ty = o2.ty then
    equalWith o1.eqVal (Tab.get o1.hash o1.tab) (Tab.get o2.hash o2.tab) (Tab.all sh o1.tab) (Tab.all sh o2.tab) g
  else .ok (false, g)

def Pool.step (sh : Shuffle σ) (s : PState K V σ) : POp K V → Outcome (PState K V σ × POut K V)
  | .put i k v =>
    match s with
    | ⟨objs, g, it⟩ =>
      match modifyAt objs i (Obj.put sh g k v) with
      | .ok (objs', some g') => .ok (⟨objs', g', it.invalidate i⟩, .unit)
      | .ok (objs', none) => .ok (⟨objs', g, it⟩, .invalid)
      | .panic => .panic
      | .diverge => .diverge
  | .delete i k =>
    match s with
    | ⟨objs, g, it⟩ =>
      match modifyAt objs i (Obj.delete sh g k) with
      | .ok (objs', some (g', r)) => .ok (⟨objs', g', it.invalidate i⟩, .val r)
      | .ok (objs', none) => .ok (⟨objs', g, it⟩, .invalid)
      | .panic => .panic
      | .diverge => .diverge
  | .deleteAll i =>
    match s with
    | ⟨objs, g, it⟩ =>
      match modifyAt objs i Obj.deleteAll with
      | .ok (objs', some _) => .ok (⟨objs', g, it.invalidate i⟩, .unit)
      | .ok (objs', none) => .ok (⟨objs', g, it⟩, .invalid)
      | .panic => .panic
      | .diverge => .diverge
  | .get i k =>
    match s.objs[i]? with
    | none => .ok (s, .invalid)
    | some o =>
      match Tab.get o.hash o.tab k with
      | .ok r => .ok (s, .val r)
      | .panic => .panic
      | .diverge => .diverge
  | .size i =>
    match s.objs[i]? with
    | none => .ok (s, .invalid)
    | some o => .ok (s, .int (Tab.size o.tab))
  | .isEmpty i =>
    match s.objs[i]? with
    | none => .ok (s, .invalid)
    | some o => .ok (s, .bool (Tab.size o.tab == 0))
  | .all i =>
    match s.objs[i]? with
    | none => .ok (s, .invalid)
    | some o => .ok ({ s with g := (Tab.all sh o.tab s.g).2 }, .list (Tab.all sh o.tab s.g).1)
  | .equal i j =>
    match s.objs[i]?, s.objs[j]? with
    | some o1, some o2 =>
      match Obj.equal sh o1 o2 s.g with
      | .ok (r, g') => .ok ({ s with g := g' }, .bool r)
      | .panic => .panic
      | .diverge => .diverge
    | _, _ => .ok (s, .invalid)
  | .seq i =>
    match s.objs[i]? with
    | none => .ok (s, .invalid)
    | some _ => .ok ({ s with it := (s.it.addSeq i).1 }, (s.it.addSeq i).2)
  | .pull sq => .ok ({ s with it := (s.it.pull sq).1 }, (s.it.pull sq).2)
  | .next p =>
    -- the first `next` of a traversal runs the sequence: the table is listed (and the shuffle drawn) now
    match (s.it.freshTid p).bind fun tid => s.objs[tid]? with
    | some o =>
      .ok ({ s with g := (Tab.all sh o.tab s.g).2, it := (s.it.next p (Tab.all sh o.tab s.g).1).1 },
           (s.it.next p (Tab.all sh o.tab s.g).1).2)
    | none => .ok ({ s with it := (s.it.next p []).1 }, (s.it.next p []).2)
  | .stop p => .ok ({ s with it := (s.it.stop p).1 }, (s.it.stop p).2)

/-- the trace of a history on a pool -/
def Pool.run (sh : Shuffle σ) : PState K V σ → List (POp K V) → List (Outcome (POut K V)) :=
  runTrace (Pool.step sh)

/-- the state reached by a history (`none` if some operation failed) -/
def Pool.reach (sh : Shuffle σ) : PState K V σ → List (POp K V) → Option (PState K V σ)
  | s, [] => some s
  | s, op :: ops =>
    match Pool.step sh s op with
    | .ok (s', _) => Pool.reach sh s' ops
    | _ => none

/-! ## the Spec of a pool: finite maps, the same iterator values

The only freedom the Spec has is the order of a listing: a run of `All()` — the operation `all`, or the first `next` of a
traversal — may produce the pairs of the map in any order (`choice`, a permutation of the map as it is then).  Every
other output is a function of the maps. -/
namespace Spec

/-- a table of the Spec: what `Equal` depends on besides the contents, and the contents -/
structure STab (K V : Type) where
  ty : GoType
  eqVal : V → V → Bool
  map : Map K V

structure PSState (K V : Type) where
  tabs : List (STab K V)
  it : Iters K V

/-- `tabs[i].Equal(tabs[j])` -/
def STab.equal (a b : STab K V) : Bool :=
  if a.ty = b.ty then Map.equal a.eqVal a.map b.map else false

/-- one operation of the Spec; `choice` is the listing an `All()` of this step produces -/
def pstep (s : PSState K V) (op : POp K V) (choice : List (K × V)) : PSState K V × POut K V :=
  match op with
  | .put i k v =>
    match s.tabs[i]? with
    | none => (s, .invalid)
    | some t => (⟨s.tabs.set i { t with map := t.map.insert k v }, s.it.invalidate i⟩, .unit)
  | .delete i k =>
    match s.tabs[i]? with
    | none => (s, .invalid)
    | some t => (⟨s.tabs.set i { t with map := t.map.erase k }, s.it.invalidate i⟩, .val (t.map.lookup k))
  | .deleteAll i =>
    match s.tabs[i]? with
    | none => (s, .invalid)
    | some t => (⟨s.tabs.set i { t with map := [] }, s.it.invalidate i⟩, .unit)
  | .get i k =>
    match s.tabs[i]? with
    | none => (s, .invalid)
    | some t => (s, .val (t.map.lookup k))
  | .size i =>
    match s.tabs[i]? with
    | none => (s, .invalid)
    | some t => (s, .int t.map.size)
  | .isEmpty i =>
    match s.tabs[i]? with
    | none => (s, .invalid)
    | some t => (s, .bool (t.map.size == 0))
  | .all i =>
    match s.tabs[i]? with
    | none => (s, .invalid)
    | some _ => (s, .list choice)
  | .equal i j =>
    match s.tabs[i]?, s.tabs[j]? with
    | some a, some b => (s, .bool (STab.equal a b))
    | _, _ => (s, .invalid)
  | .seq i =>
    match s.tabs[i]? with
    | none => (s, .invalid)
    | some _ => ({ s with it := (s.it.addSeq i).1 }, (s.it.addSeq i).2)
  | .pull sq => ({ s with it := (s.it.pull sq).1 }, (s.it.pull sq).2)
  | .next p => ({ s with it := (s.it.next p choice).1 }, (s.it.next p choice).2)
  | .stop p => ({ s with it := (s.it.stop p).1 }, (s.it.stop p).2)

/-- the listing chosen for a run of `All()` is a permutation of the map as it is at this step -/
def choiceOK (s : PSState K V) (op : POp K V) (choice : List (K × V)) : Prop :=
  match op with
  | .all i =>
    match s.tabs[i]? with
    | some t => choice.Perm t.map
    | none => True
  | .next p =>
    match (s.it.freshTid p).bind fun tid => s.tabs[tid]? with
    | some t => choice.Perm t.map
    | none => choice = []
  | _ => True

/-- a trace the Spec admits: every operation returned (`ok`) the output of the Spec for some admissible listing -/
def Admits : PSState K V → List (POp K V) → List (Outcome (POut K V)) → Prop
  | _, [], [] => True
  | s, op :: ops, .ok o :: tr =>
    ∃ choice, choiceOK s op choice ∧ (pstep s op choice).2 = o ∧ Admits (pstep s op choice).1 ops tr
  | _, _, _ => False

/-- every sequence and every traversal is a handle on a table of the pool, and a traversal that is half-way is
traversing its table AS IT IS NOW: what it has left is a suffix of a permutation of the table's map (the listing it
drew when it started; no change of the table since, or it would be broken) -/
def ItersOK (s : PSState K V) : Prop :=
  (∀ sq ∈ s.it.seqs, ∃ t, s.tabs[sq.tid]? = some t) ∧
  ∀ pl ∈ s.it.pulls, ∃ t, s.tabs[pl.tid]? = some t ∧
    (pl.phase = .running → ∃ l : List (K × V), l.Perm t.map ∧ pl.rest <:+ l)

end Spec

end AlgoVerif.C02
