import AlgoVerif.Common
import AlgoVerif.Spec.C05
/-!
# Model of `heap/indexed_binary.go` (+ what the three indexed-heap models share)

Line-by-line transcription of the code as it is after commit `93c2951` (Insert rejects out-of-range
indices, ContainsKey/ContainsValue scan every index).

* `heap []int` (1-based, length cap+1) is `Array Nat` — every value ever stored is an index that passed
  `0 ≤ i` — `pos []int` is `Array Int` (`-1` = not on the heap), `kvs []*KeyValue` is
  `Array (Option (K × V))` (`nil` = `none`).
* Every slice access outside its bounds and every dereference of a nil `kvs[i]` is `Outcome.panic`.
* The loops of `promote`/`demote` take fuel and yield `Outcome.diverge` when it runs out.
* `n` is a `Nat`.  The only decrement of `n` that Go would perform at `n = 0` (in `DeleteIndex`, after
  `ContainsIndex` said yes) is modelled as `panic`; a position read from `pos` that is negative where the
  Go code goes on to use it as a heap position is modelled as `panic` as well (in Go the very next
  `heap[-1]` access panics, except in `promote`, which would skip).  `C05_ibinary` proves both unreachable.
* `cmp` and `eq` are parameters (`generic.CompareFunc[K]`, `generic.EqualFunc[V]`).

The other two implementations are in `Model/C05Binomial.lean` and `Model/C05Fibonacci.lean`.
-/
namespace AlgoVerif.C05

@[simp] theorem Outcome.ok_bind {α β} (a : α) (f : α → Outcome β) : (Outcome.ok a >>= f) = f a := rfl
@[simp] theorem Outcome.panic_bind {α β} (f : α → Outcome β) : (Outcome.panic >>= f) = Outcome.panic := rfl
@[simp] theorem Outcome.diverge_bind {α β} (f : α → Outcome β) : (Outcome.diverge >>= f) = Outcome.diverge := rfl
@[simp] theorem Outcome.pure_eq {α} (a : α) : (pure a : Outcome α) = Outcome.ok a := rfl

/-- run a history; the trace ends at the first call that does not return -/
def runWith {σ K V : Type} (step : σ → Op K V → Outcome (σ × Res K V)) :
    σ → List (Op K V) → List (Outcome (Res K V))
  | _, [] => []
  | s, op :: ops =>
    match step s op with
    | .ok (s', r) => .ok r :: runWith step s' ops
    | .panic => [.panic]
    | .diverge => [.diverge]

/-- the state reached after a history (`panic`/`diverge` if some call did not return) -/
def execWith {σ K V : Type} (step : σ → Op K V → Outcome (σ × Res K V)) : σ → List (Op K V) → Outcome σ
  | s, [] => .ok s
  | s, op :: ops =>
    match step s op with
    | .ok (s', _) => execWith step s' ops
    | .panic => .panic
    | .diverge => .diverge

/-! ## indexedBinary -/

structure IBinary (K V : Type) where
  n : Nat
  heap : Array Nat
  pos : Array Int
  kvs : Array (Option (K × V))

namespace IBinary
variable {K V : Type}

/-- `NewIndexedBinary(cap, …)` -/
def new (cap : Nat) : IBinary K V :=
  { n := 0, heap := Array.replicate (cap + 1) 0, pos := Array.replicate cap (-1),
    kvs := Array.replicate cap none }

/-- `h.kvs[h.heap[p]].Key` -/
def keyAt (h : IBinary K V) (p : Nat) : Outcome K :=
  match h.heap[p]? with
  | none => .panic
  | some i =>
    match h.kvs[i]? with
    | some (some (k, _)) => .ok k
    | _ => .panic

/-- `compare(a, b)` -/
def compare (cmp : K → K → Int) (h : IBinary K V) (a b : Nat) : Outcome Int :=
  match h.keyAt a, h.keyAt b with
  | .ok ka, .ok kb => .ok (cmp ka kb)
  | .diverge, _ => .diverge
  | _, .diverge => .diverge
  | _, _ => .panic

/-- `swap(i, j)`: `heap[i], heap[j] = heap[j], heap[i]; pos[heap[i]], pos[heap[j]] = i, j` -/
def swap (h : IBinary K V) (i j : Nat) : Outcome (IBinary K V) :=
  match h.heap[i]?, h.heap[j]? with
  | some a, some b =>
    -- after the first assignment heap[i] = b and heap[j] = a (also when i = j, where a = b)
    if b < h.pos.size ∧ a < h.pos.size then
      .ok { h with heap := (h.heap.setIfInBounds i b).setIfInBounds j a,
                   pos := (h.pos.setIfInBounds b (i : Int)).setIfInBounds a (j : Int) }
    else .panic
  | _, _ => .panic

/-- `for ; k > 1 && compare(k/2, k) > 0; k /= 2 { swap(k, k/2) }` -/
def promote (cmp : K → K → Int) : Nat → IBinary K V → Nat → Outcome (IBinary K V)
  | 0, _, _ => .diverge
  | fuel + 1, h, k =>
    if 1 < k then
      match h.compare cmp (k / 2) k with
      | .ok c =>
        if 0 < c then
          match h.swap k (k / 2) with
          | .ok h' => promote cmp fuel h' (k / 2)
          | .panic => .panic
          | .diverge => .diverge
        else .ok h
      | .panic => .panic
      | .diverge => .diverge
    else .ok h

/-- the child chosen by `if j < h.n && compare(j+1, j) < 0 { j++ }` -/
def pickChild (cmp : K → K → Int) (h : IBinary K V) (j : Nat) : Outcome Nat :=
  if j < h.n then
    match h.compare cmp (j + 1) j with
    | .ok c => .ok (if c < 0 then j + 1 else j)
    | .panic => .panic
    | .diverge => .diverge
  else .ok j

/-- `for j := 2*k; j <= h.n; k, j = j, 2*j { pick child; if compare(k, j) < 0 { break }; swap(k, j) }` -/
def demote (cmp : K → K → Int) : Nat → IBinary K V → Nat → Outcome (IBinary K V)
  | 0, _, _ => .diverge
  | fuel + 1, h, k =>
    if 2 * k ≤ h.n then
      match h.pickChild cmp (2 * k) with
      | .ok j =>
        match h.compare cmp k j with
        | .ok c =>
          if c < 0 then .ok h
          else
            match h.swap k j with
            | .ok h' => demote cmp fuel h' j
            | .panic => .panic
            | .diverge => .diverge
        | .panic => .panic
        | .diverge => .diverge
      | .panic => .panic
      | .diverge => .diverge
    else .ok h

/-- `0 <= i && i < len(h.kvs) && h.pos[i] != -1` -/
def containsIndex (h : IBinary K V) (i : Int) : Outcome Bool :=
  if 0 ≤ i ∧ i < (h.kvs.size : Int) then
    match h.pos[i.toNat]? with
    | some p => .ok (p != -1)
    | none => .panic
  else .ok false

/-- `h.pos[i]`, to be used as a heap position -/
def posOf (h : IBinary K V) (i : Nat) : Outcome Nat :=
  match h.pos[i]? with
  | some p => if 0 ≤ p then .ok p.toNat else .panic
  | none => .panic

def insert (cmp : K → K → Int) (h : IBinary K V) (i : Int) (key : K) (val : V) :
    Outcome (IBinary K V × Bool) :=
  if i < 0 ∨ i ≥ (h.kvs.size : Int) then .ok (h, false)
  else
    match h.containsIndex i with
    | .ok true => .ok (h, false)
    | .ok false =>
      let i := i.toNat
      let n := h.n + 1
      -- h.n++; h.heap[h.n] = i; h.pos[i] = h.n; h.kvs[i] = &KeyValue{key, val}
      if n < h.heap.size ∧ i < h.pos.size ∧ i < h.kvs.size then
        let h1 : IBinary K V :=
          { n := n, heap := h.heap.setIfInBounds n i, pos := h.pos.setIfInBounds i (n : Int),
            kvs := h.kvs.setIfInBounds i (some (key, val)) }
        match h1.promote cmp (n + 1) n with
        | .ok h2 => .ok (h2, true)
        | .panic => .panic
        | .diverge => .diverge
      else .panic
    | .panic => .panic
    | .diverge => .diverge

def changeKey (cmp : K → K → Int) (h : IBinary K V) (i : Int) (key : K) :
    Outcome (IBinary K V × Bool) :=
  match h.containsIndex i with
  | .ok false => .ok (h, false)
  | .ok true =>
    let i := i.toNat
    -- h.kvs[i].Key = key
    match h.kvs[i]? with
    | some (some (_, v)) =>
      let h1 : IBinary K V := { h with kvs := h.kvs.setIfInBounds i (some (key, v)) }
      match h1.posOf i with
      | .ok p =>
        match h1.promote cmp (p + 1) p with
        | .ok h2 =>
          match h2.posOf i with
          | .ok p2 =>
            match h2.demote cmp (h2.n + 1) p2 with
            | .ok h3 => .ok (h3, true)
            | .panic => .panic
            | .diverge => .diverge
          | .panic => .panic
          | .diverge => .diverge
        | .panic => .panic
        | .diverge => .diverge
      | .panic => .panic
      | .diverge => .diverge
    | _ => .panic
  | .panic => .panic
  | .diverge => .diverge

/-- the tail shared by `Delete` and `DeleteIndex`: `h.pos[i] = -1; h.kvs[i] = nil` -/
def clearIndex (h : IBinary K V) (i : Nat) : Outcome (IBinary K V) :=
  if i < h.pos.size ∧ i < h.kvs.size then
    .ok { h with pos := h.pos.setIfInBounds i (-1), kvs := h.kvs.setIfInBounds i none }
  else .panic

def delete (cmp : K → K → Int) (h : IBinary K V) : Outcome (IBinary K V × Option (Int × K × V)) :=
  if h.n = 0 then .ok (h, none)
  else
    match h.heap[1]? with
    | none => .panic
    | some i =>
      match h.kvs[i]? with
      | some (some (k, v)) =>
        match h.swap 1 h.n with
        | .ok h1 =>
          let h2 : IBinary K V := { h1 with n := h1.n - 1 }
          match h2.demote cmp (h2.n + 1) 1 with
          | .ok h3 =>
            match h3.clearIndex i with
            | .ok h4 => .ok (h4, some (Int.ofNat i, k, v))
            | .panic => .panic
            | .diverge => .diverge
          | .panic => .panic
          | .diverge => .diverge
        | .panic => .panic
        | .diverge => .diverge
      | _ => .panic

def deleteIndex (cmp : K → K → Int) (h : IBinary K V) (i : Int) :
    Outcome (IBinary K V × Option (K × V)) :=
  match h.containsIndex i with
  | .ok false => .ok (h, none)
  | .ok true =>
    let i := i.toNat
    match h.posOf i with
    | .ok k =>
      match h.kvs[i]? with
      | some (some (key, val)) =>
        match h.swap k h.n with
        | .ok h1 =>
          if h1.n = 0 then .panic   -- Go would go on with n = -1; unreachable (C05_ibinary)
          else
            let h2 : IBinary K V := { h1 with n := h1.n - 1 }
            match h2.promote cmp (k + 1) k with
            | .ok h3 =>
              match h3.demote cmp (h3.n + 1) k with
              | .ok h4 =>
                match h4.clearIndex i with
                | .ok h5 => .ok (h5, some (key, val))
                | .panic => .panic
                | .diverge => .diverge
              | .panic => .panic
              | .diverge => .diverge
            | .panic => .panic
            | .diverge => .diverge
        | .panic => .panic
        | .diverge => .diverge
      | _ => .panic
    | .panic => .panic
    | .diverge => .diverge
  | .panic => .panic
  | .diverge => .diverge

def deleteAll (h : IBinary K V) : IBinary K V :=
  { n := 0, heap := Array.replicate h.heap.size 0, pos := Array.replicate h.pos.size (-1),
    kvs := Array.replicate h.kvs.size none }

def peek (h : IBinary K V) : Outcome (Option (Int × K × V)) :=
  if h.n = 0 then .ok none
  else
    match h.heap[1]? with
    | none => .panic
    | some i =>
      match h.kvs[i]? with
      | some (some (k, v)) => .ok (some (Int.ofNat i, k, v))
      | _ => .panic

def peekIndex (h : IBinary K V) (i : Int) : Outcome (Option (K × V)) :=
  match h.containsIndex i with
  | .ok false => .ok none
  | .ok true =>
    match h.kvs[i.toNat]? with
    | some (some (k, v)) => .ok (some (k, v))
    | _ => .panic
  | .panic => .panic
  | .diverge => .diverge

/-- `for i := range h.kvs { if h.kvs[i] != nil && cmpKey(h.kvs[i].Key, key) == 0 { return true } }` -/
def containsKey (cmp : K → K → Int) (h : IBinary K V) (key : K) : Bool :=
  h.kvs.toList.any fun e => match e with
    | some (k, _) => cmp k key == 0
    | none => false

def containsValue (eq : V → V → Bool) (h : IBinary K V) (val : V) : Bool :=
  h.kvs.toList.any fun e => match e with
    | some (_, v) => eq v val
    | none => false

def step (cmp : K → K → Int) (eq : V → V → Bool) (h : IBinary K V) : Op K V → Outcome (IBinary K V × Res K V)
  | .insert i k v => (h.insert cmp i k v).map fun (h', b) => (h', .bool b)
  | .changeKey i k => (h.changeKey cmp i k).map fun (h', b) => (h', .bool b)
  | .delete => (h.delete cmp).map fun (h', r) => (h', .ikv r)
  | .deleteIndex i => (h.deleteIndex cmp i).map fun (h', r) => (h', .kv r)
  | .deleteAll => .ok (h.deleteAll, .unit)
  | .peek => h.peek.map fun r => (h, .ikv r)
  | .peekIndex i => (h.peekIndex i).map fun r => (h, .kv r)
  | .containsIndex i => (h.containsIndex i).map fun b => (h, .bool b)
  | .containsKey k => .ok (h, .bool (h.containsKey cmp k))
  | .containsValue v => .ok (h, .bool (h.containsValue eq v))
  | .size => .ok (h, .int h.n)
  | .isEmpty => .ok (h, .bool (h.n == 0))

/-- the observable behaviour of an indexed binary heap of capacity `cap` on a history -/
def run (cmp : K → K → Int) (eq : V → V → Bool) (cap : Nat) (ops : List (Op K V)) :
    List (Outcome (Res K V)) :=
  runWith (step cmp eq) (new cap) ops

end IBinary
end AlgoVerif.C05
