import AlgoVerif.Common
/-!
# Model of `sort/{selection,insertion,shell,merge,quick,heap,shuffle}.go`

Line-by-line transcription.  A Go slice is an `Array α`; Go's `int` is `Int` (indices such as
`hi = len(a)-1 = -1` or `j-1 = lo-1` really occur); every element read / write / swap outside
`[0, len)` is `Outcome.panic`; every `for` loop is a function with a fuel argument (structurally
recursive on it) that yields `Outcome.diverge` when the fuel runs out.  The comparator
`cmp : α → α → Int` is a parameter.  All integer divisions below have non-negative operands, so
Go's truncating `/` and Lean's `Int` `/` agree.
-/
namespace AlgoVerif.C07

variable {α : Type}

/-! ## slice primitives -/

/-- `a[i]` -/
def get (a : Array α) (i : Int) : Outcome α :=
  if h : 0 ≤ i ∧ i < a.size then .ok (a[i.toNat]'(by omega)) else .panic

/-- `a[i] = v` -/
def set (a : Array α) (i : Int) (v : α) : Outcome (Array α) :=
  if h : 0 ≤ i ∧ i < a.size then .ok (a.set i.toNat v (by omega)) else .panic

/-- `a[i], a[j] = a[j], a[i]` -/
def swap (a : Array α) (i j : Int) : Outcome (Array α) :=
  if h : (0 ≤ i ∧ i < a.size) ∧ (0 ≤ j ∧ j < a.size) then
    .ok (a.swap i.toNat j.toNat (by omega) (by omega))
  else .panic

/-- `copy(dst[lo:hi], src[lo:hi])` for slices whose capacity equals their length
(`make([]T, n)` and function arguments built from it). -/
def copyRange (dst src : Array α) (lo hi : Int) : Outcome (Array α) :=
  if h0 : 0 ≤ lo ∧ lo ≤ hi ∧ hi ≤ dst.size ∧ hi ≤ src.size then
    .ok (Array.ofFn (n := dst.size) fun k =>
      if h : lo ≤ (k.val : Int) ∧ (k.val : Int) < hi then src[k.val]'(by omega) else dst[k.val])
  else .panic

/-! ## selection.go -/

/-- `for j := i + 1; j < n; j++ { if cmp(a[j], a[min]) < 0 { min = j } }` -/
def selMin (cmp : α → α → Int) (a : Array α) (n : Int) : Nat → Int → Int → Outcome Int
  | 0, _, _ => .diverge
  | f+1, j, min =>
    if j < n then do
      let x ← get a j
      let y ← get a min
      selMin cmp a n f (j+1) (if cmp x y < 0 then j else min)
    else .ok min

/-- `for i := 0; i < n; i++ { min := i; …; a[i], a[min] = a[min], a[i] }` -/
def selLoop (cmp : α → α → Int) (n : Int) : Nat → Int → Array α → Outcome (Array α)
  | 0, _, _ => .diverge
  | f+1, i, a =>
    if i < n then do
      let min ← selMin cmp a n (n.toNat + 1) (i+1) i
      let a ← swap a i min
      selLoop cmp n f (i+1) a
    else .ok a

/-- `func Selection[T any](a []T, cmp generic.CompareFunc[T])` -/
def selection (cmp : α → α → Int) (a : Array α) : Outcome (Array α) :=
  selLoop cmp a.size (a.size + 1) 0 a

/-! ## insertion.go -/

/-- `for j := i; j > 0 && cmp(a[j], a[j-1]) < 0; j-- { a[j], a[j-1] = a[j-1], a[j] }` -/
def insInner (cmp : α → α → Int) : Nat → Int → Array α → Outcome (Array α)
  | 0, _, _ => .diverge
  | f+1, j, a =>
    if j > 0 then do
      let x ← get a j
      let y ← get a (j-1)
      if cmp x y < 0 then do
        let a ← swap a j (j-1)
        insInner cmp f (j-1) a
      else .ok a
    else .ok a

/-- `for i := 0; i < n; i++ { … }` -/
def insLoop (cmp : α → α → Int) (n : Int) : Nat → Int → Array α → Outcome (Array α)
  | 0, _, _ => .diverge
  | f+1, i, a =>
    if i < n then do
      let a ← insInner cmp (n.toNat + 1) i a
      insLoop cmp n f (i+1) a
    else .ok a

/-- `func Insertion[T any](a []T, cmp generic.CompareFunc[T])` -/
def insertion (cmp : α → α → Int) (a : Array α) : Outcome (Array α) :=
  insLoop cmp a.size (a.size + 1) 0 a

/-! ## shell.go -/

/-- `for h < n/3 { h = 3*h + 1 }` -/
def shellGap (n : Int) : Nat → Int → Outcome Int
  | 0, _ => .diverge
  | f+1, h => if h < n / 3 then shellGap n f (3*h + 1) else .ok h

/-- `for j := i; j >= h && cmp(a[j], a[j-h]) < 0; j -= h { a[j], a[j-h] = a[j-h], a[j] }` -/
def shellIns (cmp : α → α → Int) (h : Int) : Nat → Int → Array α → Outcome (Array α)
  | 0, _, _ => .diverge
  | f+1, j, a =>
    if j ≥ h then do
      let x ← get a j
      let y ← get a (j-h)
      if cmp x y < 0 then do
        let a ← swap a j (j-h)
        shellIns cmp h f (j-h) a
      else .ok a
    else .ok a

/-- `for i := h; i < n; i++ { … }` -/
def shellPass (cmp : α → α → Int) (h n : Int) : Nat → Int → Array α → Outcome (Array α)
  | 0, _, _ => .diverge
  | f+1, i, a =>
    if i < n then do
      let a ← shellIns cmp h (n.toNat + 1) i a
      shellPass cmp h n f (i+1) a
    else .ok a

/-- `for ; h >= 1; h /= 3 { … }` -/
def shellLoop (cmp : α → α → Int) (n : Int) : Nat → Int → Array α → Outcome (Array α)
  | 0, _, _ => .diverge
  | f+1, h, a =>
    if h ≥ 1 then do
      let a ← shellPass cmp h n (n.toNat + 1) h a
      shellLoop cmp n f (h / 3) a
    else .ok a

/-- `func Shell[T any](a []T, cmp generic.CompareFunc[T])` -/
def shell (cmp : α → α → Int) (a : Array α) : Outcome (Array α) := do
  let n : Int := a.size
  let h ← shellGap n (a.size + 1) 1
  shellLoop cmp n (a.size + 2) h a

/-! ## merge.go -/

/-- `func min(a, b int) int` -/
def imin (a b : Int) : Int := if a < b then a else b

/-- the `for k := lo; k <= hi; k++ { switch … }` loop of `merge` -/
def mergeLoop (cmp : α → α → Int) (aux : Array α) (mid hi : Int) :
    Nat → Int → Int → Int → Array α → Outcome (Array α)
  | 0, _, _, _, _ => .diverge
  | f+1, k, i, j, a =>
    if k ≤ hi then
      if i > mid then do
        let y ← get aux j
        let a ← set a k y
        mergeLoop cmp aux mid hi f (k+1) i (j+1) a
      else if j > hi then do
        let x ← get aux i
        let a ← set a k x
        mergeLoop cmp aux mid hi f (k+1) (i+1) j a
      else do
        let y ← get aux j
        let x ← get aux i
        if cmp y x < 0 then do
          let a ← set a k y
          mergeLoop cmp aux mid hi f (k+1) i (j+1) a
        else do
          let a ← set a k x
          mergeLoop cmp aux mid hi f (k+1) (i+1) j a
    else .ok a

/-- `func merge[T any](a, aux []T, lo, mid, hi int, cmp)`; returns the new `(a, aux)`. -/
def merge (cmp : α → α → Int) (a aux : Array α) (lo mid hi : Int) : Outcome (Array α × Array α) := do
  let aux ← copyRange aux a lo (hi+1)
  let a ← mergeLoop cmp aux mid hi ((hi - lo).toNat + 2) lo lo (mid+1) a
  .ok (a, aux)

/-- `for lo := 0; lo < n-sz; lo += sz + sz { merge(a, aux, lo, lo+sz-1, min(lo+sz+sz-1, n-1), cmp) }` -/
def mergePass (cmp : α → α → Int) (n sz : Int) : Nat → Int → Array α → Array α → Outcome (Array α × Array α)
  | 0, _, _, _ => .diverge
  | f+1, lo, a, aux =>
    if lo < n - sz then do
      let (a, aux) ← merge cmp a aux lo (lo+sz-1) (imin (lo+sz+sz-1) (n-1))
      mergePass cmp n sz f (lo + (sz + sz)) a aux
    else .ok (a, aux)

/-- `for sz := 1; sz < n; sz += sz { … }` -/
def mergeSizes (cmp : α → α → Int) (n : Int) : Nat → Int → Array α → Array α → Outcome (Array α × Array α)
  | 0, _, _, _ => .diverge
  | f+1, sz, a, aux =>
    if sz < n then do
      let (a, aux) ← mergePass cmp n sz (n.toNat + 1) 0 a aux
      mergeSizes cmp n f (sz + sz) a aux
    else .ok (a, aux)

/-- `func Merge[T any](a []T, cmp)`; `zero` is Go's zero value of `T` (content of `make([]T, n)`). -/
def mergeBU (cmp : α → α → Int) (zero : α) (a : Array α) : Outcome (Array α) := do
  let n : Int := a.size
  let aux := Array.replicate a.size zero
  let (a, _) ← mergeSizes cmp n (a.size + 1) 1 a aux
  .ok a

/-- `func mergeRec[T any](a, aux []T, lo, hi int, cmp)` (fuel = recursion depth) -/
def mergeRecAux (cmp : α → α → Int) : Nat → Array α → Array α → Int → Int → Outcome (Array α × Array α)
  | 0, _, _, _, _ => .diverge
  | f+1, a, aux, lo, hi =>
    if hi ≤ lo then .ok (a, aux)
    else do
      let mid := (lo + hi) / 2
      let (a, aux) ← mergeRecAux cmp f a aux lo mid
      let (a, aux) ← mergeRecAux cmp f a aux (mid+1) hi
      let x ← get a (mid+1)
      let y ← get a mid
      if cmp x y ≥ 0 then .ok (a, aux)
      else merge cmp a aux lo mid hi

/-- `func MergeRec[T any](a []T, cmp)` -/
def mergeRec (cmp : α → α → Int) (zero : α) (a : Array α) : Outcome (Array α) := do
  let n : Int := a.size
  let aux := Array.replicate a.size zero
  let (a, _) ← mergeRecAux cmp (a.size + 1) a aux 0 (n-1)
  .ok a

/-! ## shuffle.go -/

/-- `for i := 0; i < n; i++ { r := i + r.Intn(n-i); a[i], a[r] = a[r], a[i] }`.
`choice i` is the value the `i`-th call `r.Intn(n-i)` returns (`Intn` panics for a bound ≤ 0). -/
def shuffleLoop (choice : Nat → Int) (n : Int) : Nat → Int → Array α → Outcome (Array α)
  | 0, _, _ => .diverge
  | f+1, i, a =>
    if i < n then
      if n - i ≤ 0 then .panic
      else do
        let r := i + choice i.toNat
        let a ← swap a i r
        shuffleLoop choice n f (i+1) a
    else .ok a

/-- `func Shuffle[T any](a []T, r *rand.Rand)` -/
def shuffle (choice : Nat → Int) (a : Array α) : Outcome (Array α) :=
  shuffleLoop choice a.size (a.size + 1) 0 a

/-! ## quick.go -/

/-- `for i++; i < hi && cmp(a[i], v) < 0; i++ {}` (called with the incremented `i`) -/
def scanUp (cmp : α → α → Int) (a : Array α) (v : α) (hi : Int) : Nat → Int → Outcome Int
  | 0, _ => .diverge
  | f+1, i =>
    if i < hi then do
      let x ← get a i
      if cmp x v < 0 then scanUp cmp a v hi f (i+1) else .ok i
    else .ok i

/-- `for j--; j > lo && cmp(a[j], v) > 0; j-- {}` (called with the decremented `j`) -/
def scanDown (cmp : α → α → Int) (a : Array α) (v : α) (lo : Int) : Nat → Int → Outcome Int
  | 0, _ => .diverge
  | f+1, j =>
    if j > lo then do
      let x ← get a j
      if cmp x v > 0 then scanDown cmp a v lo f (j-1) else .ok j
    else .ok j

/-- the `for { … if i >= j { break }; swap }` loop of `partition`; returns `(a, j)` -/
def partLoop (cmp : α → α → Int) (v : α) (lo hi : Int) : Nat → Int → Int → Array α → Outcome (Array α × Int)
  | 0, _, _, _ => .diverge
  | f+1, i, j, a => do
    let i ← scanUp cmp a v hi (a.size + 1) (i+1)
    let j ← scanDown cmp a v lo (a.size + 1) (j-1)
    if i ≥ j then .ok (a, j)
    else do
      let a ← swap a i j
      partLoop cmp v lo hi f i j a

/-- `func partition[T any](a []T, lo, hi int, cmp) int` -/
def partition (cmp : α → α → Int) (a : Array α) (lo hi : Int) : Outcome (Array α × Int) := do
  let v ← get a lo
  let (a, j) ← partLoop cmp v lo hi (a.size + 1) lo (hi+1) a
  let a ← swap a lo j
  .ok (a, j)

/-- `func quick[T any](a []T, lo, hi int, cmp)` (fuel = recursion depth) -/
def quickAux (cmp : α → α → Int) : Nat → Array α → Int → Int → Outcome (Array α)
  | 0, _, _, _ => .diverge
  | f+1, a, lo, hi =>
    if lo ≥ hi then .ok a
    else do
      let (a, j) ← partition cmp a lo hi
      let a ← quickAux cmp f a lo (j-1)
      quickAux cmp f a (j+1) hi

/-- `quick(a, 0, len(a)-1, cmp)`: the deterministic core of `Quick` -/
def quickCore (cmp : α → α → Int) (a : Array α) : Outcome (Array α) :=
  quickAux cmp (a.size + 1) a 0 ((a.size : Int) - 1)

/-- `func Quick[T any](a []T, cmp)`: shuffle (clock-seeded; here: any `choice`), then `quick` -/
def quick (choice : Nat → Int) (cmp : α → α → Int) (a : Array α) : Outcome (Array α) := do
  let a ← shuffle choice a
  quickCore cmp a

/-- the `for lo < hi { j := partition(…); switch … }` loop of `Select`; `.inl` = fell out of the loop,
`.inr` = the `default: return a[k]` branch -/
def selectLoop (cmp : α → α → Int) (k : Int) : Nat → Int → Int → Array α → Outcome (Array α × α)
  | 0, _, _, _ => .diverge
  | f+1, lo, hi, a =>
    if lo < hi then do
      let (a, j) ← partition cmp a lo hi
      if j < k then selectLoop cmp k f (j+1) hi a
      else if j > k then selectLoop cmp k f lo (j-1) a
      else do
        let v ← get a k
        .ok (a, v)
    else do
      let v ← get a k
      .ok (a, v)

/-- `func Select[T any](a []T, k int, cmp) T`; returns the slice after the call and the result -/
def select (choice : Nat → Int) (cmp : α → α → Int) (a : Array α) (k : Int) : Outcome (Array α × α) := do
  let a ← shuffle choice a
  selectLoop cmp k (a.size + 1) 0 ((a.size : Int) - 1) a

/-- the `for i <= gt { … }` loop of `quick3Way`; returns `(a, lt, gt)` -/
def q3Loop (cmp : α → α → Int) (v : α) : Nat → Int → Int → Int → Array α → Outcome (Array α × Int × Int)
  | 0, _, _, _, _ => .diverge
  | f+1, lt, i, gt, a =>
    if i ≤ gt then do
      let x ← get a i
      let c := cmp x v
      if c < 0 then do
        let a ← swap a lt i
        q3Loop cmp v f (lt+1) (i+1) gt a
      else if c > 0 then do
        let a ← swap a i gt
        q3Loop cmp v f lt i (gt-1) a
      else q3Loop cmp v f lt (i+1) gt a
    else .ok (a, lt, gt)

/-- `func quick3Way[T any](a []T, lo, hi int, cmp)` (fuel = recursion depth) -/
def quick3WayAux (cmp : α → α → Int) : Nat → Array α → Int → Int → Outcome (Array α)
  | 0, _, _, _ => .diverge
  | f+1, a, lo, hi =>
    if lo ≥ hi then .ok a
    else do
      let v ← get a lo
      let (a, lt, gt) ← q3Loop cmp v (a.size + 1) lo (lo+1) hi a
      let a ← quick3WayAux cmp f a lo (lt-1)
      quick3WayAux cmp f a (gt+1) hi

/-- `func Quick3Way[T any](a []T, cmp)` (no shuffle in the Go code) -/
def quick3Way (cmp : α → α → Int) (a : Array α) : Outcome (Array α) :=
  quick3WayAux cmp (a.size + 1) a 0 ((a.size : Int) - 1)

/-! ## heap.go -/

/-- `func sink[T any](a []T, k, n int, cmp)` -/
def sink (cmp : α → α → Int) (n : Int) : Nat → Int → Array α → Outcome (Array α)
  | 0, _, _ => .diverge
  | f+1, k, a =>
    if 2*k ≤ n then do
      let j := 2*k
      let j ← (if j < n then do
                  let x ← get a j
                  let y ← get a (j+1)
                  .ok (if cmp x y < 0 then j+1 else j)
                else .ok j : Outcome Int)
      let x ← get a k
      let y ← get a j
      if cmp x y ≥ 0 then .ok a
      else do
        let a ← swap a k j
        sink cmp n f j a
    else .ok a

/-- `for k := n / 2; k >= 1; k-- { sink(a, k, n, cmp) }` -/
def heapBuild (cmp : α → α → Int) (n : Int) : Nat → Int → Array α → Outcome (Array α)
  | 0, _, _ => .diverge
  | f+1, k, a =>
    if k ≥ 1 then do
      let a ← sink cmp n (a.size + 1) k a
      heapBuild cmp n f (k-1) a
    else .ok a

/-- `for n > 1 { a[1], a[n] = a[n], a[1]; n--; sink(a, 1, n, cmp) }` -/
def heapDrain (cmp : α → α → Int) : Nat → Int → Array α → Outcome (Array α)
  | 0, _, _ => .diverge
  | f+1, n, a =>
    if n > 1 then do
      let a ← swap a 1 n
      let n := n - 1
      let a ← sink cmp n (a.size + 1) 1 a
      heapDrain cmp f n a
    else .ok a

/-- `func heap[T any](a []T, cmp)` on the 1-based copy -/
def heapCore (cmp : α → α → Int) (a : Array α) : Outcome (Array α) := do
  let n : Int := (a.size : Int) - 1
  let a ← heapBuild cmp n (a.size + 1) (n / 2) a
  heapDrain cmp (a.size + 1) n a

/-- `func Heap[T any](a []T, cmp)`: `aux := append([]T{zero}, a...)`, `heap(aux)`, `copy(a, aux[1:])` -/
def heap (cmp : α → α → Int) (zero : α) (a : Array α) : Outcome (Array α) := do
  let aux := #[zero] ++ a
  let aux ← heapCore cmp aux
  .ok (aux.extract 1 aux.size)

end AlgoVerif.C07
