import AlgoVerif.Common
/-!
# Shared grammar core (used by C08–C12): symbols, productions, grammars, derivations, languages,
the grammar part of the line protocol and an executable bounded-language fixpoint.

Core Lean only.  `T`/`N` are the terminal / non-terminal name types (the drivers use `String`).
-/
namespace AlgoVerif.Gram

inductive Sym (T N : Type) where
  | term (t : T)
  | nonterm (n : N)
  deriving DecidableEq, Repr, Inhabited

structure Prod (T N : Type) where
  head : N
  body : List (Sym T N)
  deriving DecidableEq, Repr

structure Grammar (T N : Type) where
  terms : List T
  nonterms : List N
  prods : List (Prod T N)
  start : N
  deriving Repr

variable {T N : Type}

/-- one rewriting step `u A v ⇒ u β v` with `A → β ∈ P` -/
inductive Step (g : Grammar T N) : List (Sym T N) → List (Sym T N) → Prop where
  | mk (u v : List (Sym T N)) (p : Prod T N) (hp : p ∈ g.prods) :
      Step g (u ++ [Sym.nonterm p.head] ++ v) (u ++ p.body ++ v)

/-- `α ⇒* β` -/
inductive Derives (g : Grammar T N) : List (Sym T N) → List (Sym T N) → Prop where
  | refl (α : List (Sym T N)) : Derives g α α
  | tail {α β γ : List (Sym T N)} : Derives g α β → Step g β γ → Derives g α γ

/-- the language: terminal strings derivable from the start symbol -/
def Language (g : Grammar T N) (w : List T) : Prop :=
  Derives g [Sym.nonterm g.start] (w.map Sym.term)

theorem Derives.single {g : Grammar T N} {α β} (h : Step g α β) : Derives g α β :=
  Derives.tail (Derives.refl α) h

theorem Derives.trans {g : Grammar T N} {α β γ} (h₁ : Derives g α β) (h₂ : Derives g β γ) :
    Derives g α γ := by
  induction h₂ with
  | refl => exact h₁
  | tail _ s ih => exact Derives.tail ih s

theorem Step.append_left {g : Grammar T N} {α β} (h : Step g α β) (p : List (Sym T N)) :
    Step g (p ++ α) (p ++ β) := by
  cases h with
  | mk u v pr hp =>
    have := Step.mk (g := g) (p ++ u) v pr hp
    simpa [List.append_assoc] using this

theorem Step.append_right {g : Grammar T N} {α β} (h : Step g α β) (s : List (Sym T N)) :
    Step g (α ++ s) (β ++ s) := by
  cases h with
  | mk u v pr hp =>
    have := Step.mk (g := g) u (v ++ s) pr hp
    simpa [List.append_assoc] using this

theorem Derives.append_left {g : Grammar T N} {α β} (h : Derives g α β) (p : List (Sym T N)) :
    Derives g (p ++ α) (p ++ β) := by
  induction h with
  | refl => exact Derives.refl _
  | tail _ s ih => exact Derives.tail ih (s.append_left p)

theorem Derives.append_right {g : Grammar T N} {α β} (h : Derives g α β) (s : List (Sym T N)) :
    Derives g (α ++ s) (β ++ s) := by
  induction h with
  | refl => exact Derives.refl _
  | tail _ st ih => exact Derives.tail ih (st.append_right s)

theorem Derives.append {g : Grammar T N} {α β γ δ} (h₁ : Derives g α β) (h₂ : Derives g γ δ) :
    Derives g (α ++ γ) (β ++ δ) :=
  (h₁.append_right γ).trans (h₂.append_left β)

/-! ## line protocol (grammar description)

```
terms a b c
nonterms S A B
start S
prod S : a A b
prod A :            <- ε-production
```
Terminal and non-terminal names are arbitrary words without spaces; a body word is a non-terminal iff it
is listed in `nonterms`.
-/

abbrev SGrammar := Grammar String String
abbrev SSym := Sym String String
abbrev SProd := Prod String String

def SGrammar.empty : SGrammar := { terms := [], nonterms := [], prods := [], start := "" }

/-- fold one description line into the grammar; other lines are returned as `false` (not consumed) -/
def parseGrammarLine (g : SGrammar) (line : String) : SGrammar × Bool :=
  match words line with
  | "terms" :: ts => ({ g with terms := g.terms ++ ts }, true)
  | "nonterms" :: ns => ({ g with nonterms := g.nonterms ++ ns }, true)
  | ["start", s] => ({ g with start := s }, true)
  | "prod" :: h :: ":" :: body =>
    let b : List SSym := body.map fun w => if g.nonterms.contains w then Sym.nonterm w else Sym.term w
    ({ g with prods := g.prods ++ [{ head := h, body := b }] }, true)
  | _ => (g, false)

def symName : SSym → String
  | .term t => t
  | .nonterm n => n

def showBody (b : List SSym) : String :=
  if b.isEmpty then "ε" else " ".intercalate (b.map symName)

def insertSorted (x : String) : List String → List String
  | [] => [x]
  | y :: ys => if x < y then x :: y :: ys else if x = y then y :: ys else y :: insertSorted x ys

/-- sort + dedup strings (canonical rendering of anything that came out of a set) -/
def sortDedup (l : List String) : List String := l.foldl (fun acc x => insertSorted x acc) []

/-- canonical one-line rendering: `start=S T={a,b} N={A,S} P={A→ε; S→a A b}` (everything sorted) -/
def showGrammar (g : SGrammar) : String :=
  let ps := sortDedup (g.prods.map fun p => p.head ++ "→" ++ showBody p.body)
  s!"start={g.start} T=\{{",".intercalate (sortDedup g.terms)}} N=\{{",".intercalate (sortDedup g.nonterms)}} P=\{{"; ".intercalate ps}}"

/-! ## bounded language: all terminal strings of length ≤ k derivable from each non-terminal -/

/-- all concatenations `x ++ y`, `x ∈ xs`, `y ∈ ys`, of length ≤ k, deduplicated -/
def concatK (k : Nat) (xs ys : List (List String)) : List (List String) :=
  xs.foldl (fun acc x =>
    ys.foldl (fun acc y => let w := x ++ y; if w.length ≤ k ∧ ¬ acc.contains w then w :: acc else acc) acc) []

def bodyLangK (k : Nat) (env : List (String × List (List String))) (body : List SSym) : List (List String) :=
  body.foldl (fun acc s =>
    match s with
    | .term t => concatK k acc [[t]]
    | .nonterm n => concatK k acc ((env.lookup n).getD [])) [[]]

def langStep (g : SGrammar) (k : Nat) (env : List (String × List (List String))) : List (String × List (List String)) :=
  g.nonterms.map fun n =>
    let cur := (env.lookup n).getD []
    let add := (g.prods.filter (·.head = n)).foldl (fun acc p =>
      (bodyLangK k env p.body).foldl (fun acc w => if acc.contains w then acc else w :: acc) acc) cur
    (n, add)

def envSize (env : List (String × List (List String))) : Nat := env.foldl (fun a p => a + p.2.length) 0

def langFix (g : SGrammar) (k : Nat) : Nat → List (String × List (List String)) → List (String × List (List String))
  | 0, env => env
  | fuel + 1, env =>
    let env' := langStep g k env
    if envSize env' = envSize env then env else langFix g k fuel env'

/-- the sentences of `g` of length ≤ k (each a list of terminal names), in no particular order -/
def langK (g : SGrammar) (k : Nat) : List (List String) :=
  let env0 := g.nonterms.map fun n => (n, ([] : List (List String)))
  ((langFix g k 100000 env0).lookup g.start).getD []

end AlgoVerif.Gram
