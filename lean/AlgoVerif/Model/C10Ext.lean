import AlgoVerif.Model.C10
/-!
# Model for C10 / C12, second part — what the first part leaves to "the grammar passes `Verify()`, the lexer
and the callbacks never fail"

Mirrors

* `grammar/cfg.go: Verify` as the list of errors it collects (`verifyErrors`; `validB g ↔ verifyErrors g = []`,
  `Proofs/C10Ext.lean`);
* the nil-dereferences / explicit panics of `ComputeFIRST`, `ComputeFOLLOW` (and so of `IsLL1`,
  `BuildParsingTable`, `Parse`) on grammars that fail `Verify()` (`firstPanicB`, `followPanicB`, `analyseP`);
* the memo table `firstByString` of the closure `ComputeFIRST` returns (`FirstMemo`, `firstCall`): the entry is
  stored *before* the loop and updated in place, so a call that panics on an undeclared symbol leaves its
  partial value behind and the next call with the same string returns it;
* `predictive.Parse` with a lexer that fails and callbacks that return errors (`parseRunF`, `parseWithF`):
  the three `return &parser.ParseError{Cause: err}` branches;
* the accessors `IsEmpty`, `IsSync`, `GetProduction` of `predictive.ParsingTable` (`cellInfo`).

Core Lean only.
-/
namespace AlgoVerif.C10
open AlgoVerif AlgoVerif.Gram

section
variable {T N : Type} [DecidableEq T] [DecidableEq N]

/-! ## `Verify()`: the errors it appends

The Go code appends one error per failed check; the checks over sets and over the production table run in
shuffled order, so the list is compared as a multiset (the driver sorts its rendering). -/

inductive VerifyErr (T N : Type) where
  /-- "start symbol … not in the set of non-terminal symbols" -/
  | startUndeclared
  /-- "no production rule for start symbol …" -/
  | noStartProd
  /-- "no production rule for non-terminal symbol n" -/
  | noProd (n : N)
  /-- "production head n not in the set of non-terminal symbols" -/
  | headUndeclared (n : N)
  /-- "terminal symbol t not in the set of terminal symbols" (once per occurrence in a body) -/
  | termUndeclared (t : T)
  /-- "non-terminal symbol n not in the set of non-terminal symbols" (once per occurrence in a body) -/
  | nontermUndeclared (n : N)
  deriving Repr, DecidableEq

def bodyErrs (g : Grammar T N) (body : List (Sym T N)) : List (VerifyErr T N) :=
  body.filterMap fun s => match s with
    | .term t => if t ∈ g.terms then none else some (.termUndeclared t)
    | .nonterm n => if n ∈ g.nonterms then none else some (.nontermUndeclared n)

def prodErrs (g : Grammar T N) (p : GProd T N) : List (VerifyErr T N) :=
  (if p.head ∈ g.nonterms then [] else [.headUndeclared p.head]) ++ bodyErrs g p.body

def verifyErrors (g : Grammar T N) : List (VerifyErr T N) :=
  (if g.start ∈ g.nonterms then [] else [.startUndeclared])
  ++ (if g.prods.any (fun p => decide (p.head = g.start)) then [] else [.noStartProd])
  ++ (g.nonterms.filterMap fun n => if g.prods.any (fun p => decide (p.head = n)) then none else some (.noProd n))
  ++ g.prods.flatMap (prodErrs g)

/-! ## panics of the analyses on grammars that fail `Verify()`

`ComputeFIRST` looks every head and every body symbol it reaches up in `firstBySymbol`, which has entries
for the declared symbols only, and dereferences the answer.  Whether a body symbol is reached depends on the
ε-flags of the symbols in front of it, which only grow; the last pass (the one that changes nothing) visits
every production with the final flags.  So the loop panics — in some pass, under every iteration order — iff
a production has an undeclared head or, with the flags of the least fixpoint, an undeclared symbol behind
symbols that all have ε.  An undeclared non-terminal that is reached has no table entry either way; an
undeclared symbol that is not reached never matters. -/

/-- does `for _, Y := range body` get to an undeclared symbol (it goes on while `firstY.IncludesEmpty`) -/
def reachesUndeclared (g : Grammar T N) (fi : N → TE T) : List (Sym T N) → Bool
  | [] => false
  | X :: rest => if symDeclared g X then (if (firstSym fi X).eps then reachesUndeclared g fi rest else false) else true

/-- `ComputeFIRST` nil-dereferences -/
def firstPanicB (g : Grammar T N) (fi : N → TE T) : Bool :=
  g.prods.any fun p => !decide (p.head ∈ g.nonterms) || reachesUndeclared g fi p.body

/-- `for i, X := range p.Body { if B, ok := X.(NonTerminal) … }` of `ComputeFOLLOW`: `first(β)` panics on an
undeclared symbol it reaches, `follow.Get(B)` is nil for an undeclared `B` -/
def followBodyPanicB (g : Grammar T N) (fi : N → TE T) : List (Sym T N) → Bool
  | [] => false
  | .term _ :: β => followBodyPanicB g fi β
  | .nonterm B :: β => reachesUndeclared g fi β || !decide (B ∈ g.nonterms) || followBodyPanicB g fi β

/-- `ComputeFOLLOW` (called with the closure of a `ComputeFIRST` that returned): `followS` is nil when the
start symbol is not declared; every pass visits every body position, whatever the state -/
def followPanicB (g : Grammar T N) (fi : N → TE T) : Bool :=
  !decide (g.start ∈ g.nonterms) || g.prods.any fun p => followBodyPanicB g fi p.body

/-- passes the loops get when the grammar may be invalid: heads and set members need not be declared -/
def fixFuelP (g : Grammar T N) : Nat :=
  fixFuel g + (g.prods.length + 1) * (g.terms.length + (g.prods.foldl (fun a p => a + p.body.length) 0) + 1)

/-- `ComputeFIRST` on any grammar -/
def computeFirstP (g : Grammar T N) (o : IterOrder T N) : Outcome (N → TE T) :=
  match firstLoop g o (fixFuelP g) 0 (fun _ => ⟨[], false⟩) with
  | .ok fi => if firstPanicB g fi then .panic else .ok fi
  | .panic => .panic
  | .diverge => .diverge

/-- `ComputeFOLLOW` on any grammar, given the table of a `ComputeFIRST` that returned -/
def computeFollowP (g : Grammar T N) (o : IterOrder T N) (fi : N → TE T) : Outcome (N → TEnd T) :=
  if followPanicB g fi then .panic
  else followLoop g o (firstStr fi) (fixFuelP g) 0 (followInit g)

/-- `ComputeFIRST` then `ComputeFOLLOW` on any grammar -/
def analyseP (g : Grammar T N) (o₁ o₂ : IterOrder T N) : Outcome (Analysis T N) :=
  match computeFirstP g o₁ with
  | .ok fi =>
    match computeFollowP g o₂ fi with
    | .ok fo => .ok ⟨fi, fo⟩
    | .panic => .panic
    | .diverge => .diverge
  | .panic => .panic
  | .diverge => .diverge

/-- `NullableNonTerminals` on any grammar (it never looks a symbol up; only the number of passes differs) -/
def nullableP (g : Grammar T N) (o : IterOrder T N) : Outcome (List N) :=
  nullableLoop g o (fixFuelP g) 0 []

/-! ## the memo table of the FIRST closure -/

/-- `firstByString`: the strings the closure has been called with, each with the value stored for it -/
abbrev FirstMemo (T N : Type) := List (List (Sym T N) × TE T)

/-- the loop of the closure, on the value already stored in the memo table (`firstS`, updated in place);
answers the stored value when the loop is left and whether it was left by `panic` -/
def firstWalk (g : Grammar T N) (st : N → TE T) : List (Sym T N) → List T → TE T × Bool
  | [], acc => (⟨acc, true⟩, false)
  | X :: rest, acc =>
    if symDeclared g X then
      let f := firstSym st X
      if f.eps then firstWalk g st rest (union acc f.terms) else (⟨union acc f.terms, false⟩, false)
    else (⟨acc, false⟩, true)

/-- one call of the closure -/
def firstCall (g : Grammar T N) (st : N → TE T) (memo : FirstMemo T N) (s : List (Sym T N)) :
    Outcome (TE T) × FirstMemo T N :=
  match memo.lookup s with
  | some r => (.ok r, memo)
  | none =>
    let r := firstWalk g st s []
    (if r.2 then .panic else .ok r.1, memo ++ [(s, r.1)])

/-- a history of calls of ONE closure (one memo table): the answers in order, and the table afterwards -/
def firstCalls (g : Grammar T N) (st : N → TE T) :
    FirstMemo T N → List (List (Sym T N)) → List (Outcome (TE T)) × FirstMemo T N
  | memo, [] => ([], memo)
  | memo, s :: rest =>
    let r := firstCall g st memo s
    let rs := firstCalls g st r.2 rest
    (r.1 :: rs.1, rs.2)

/-! ## `Parse` with a failing lexer and failing callbacks

The lexer hands out the tokens of the input, then `io.EOF`.  `lexFail = some l`: its call number `l` (counting
from 0; call `l` would deliver token `l`) returns an error that is not `io.EOF` instead.  `tokFail = some j`: the
token callback returns an error when it is handed the token at position `j`; `prodFail = some k`: the production
callback returns an error at its invocation number `k` (counting from 0).  The events of the result are the
callbacks that returned nil, in order. -/

inductive Fault where
  /-- `nextToken` returned an error that is not `io.EOF` -/
  | lexer
  /-- `tokenF` returned an error for the token at this position -/
  | token (pos : Nat)
  /-- `prodF` returned an error -/
  | prod
  deriving Repr, DecidableEq

inductive Ending where
  | accept
  | reject (why : Reject)
  | fail (what : Fault)
  deriving Repr, DecidableEq

/-- the loop of `Parse`; `pos` = tokens consumed = invocations of `tokenF` so far = calls of `nextToken` after
the first, `np` = invocations of `prodF` so far.  The current token is the head of `input` (`$` when it is
empty). -/
def parseRunF (M : N → Option T → List (GProd T N)) (lexFail tokFail prodFail : Option Nat) :
    Nat → List (Sym T N) → List T → Nat → Nat → Outcome (List (Event T N) × Ending)
  | 0, _, _, _, _ => .diverge
  | _ + 1, [], [], _, _ => .ok ([], .accept)
  | _ + 1, [], _ :: _, _, _ => .ok ([], .reject .trailing)
  | fuel + 1, .term t :: stack, input, pos, np =>
    match input with
    | a :: rest =>
      if t = a then
        if tokFail = some pos then .ok ([], .fail (.token pos))
        else if lexFail = some (pos + 1) then .ok ([.tok t pos], .fail .lexer)
        else (parseRunF M lexFail tokFail prodFail fuel stack rest (pos + 1) np).map fun r => (.tok t pos :: r.1, r.2)
      else .ok ([], .reject .terminal)
    | [] => .ok ([], .reject .terminal)
  | fuel + 1, .nonterm A :: stack, input, pos, np =>
    match M A input.head? with
    | [] => .ok ([], .reject .noEntry)
    | [p] =>
      if prodFail = some np then .ok ([], .fail .prod)
      else (parseRunF M lexFail tokFail prodFail fuel (p.body ++ stack) input pos (np + 1)).map fun r => (.prod p :: r.1, r.2)
    | _ :: _ :: _ => .panic

/-- result of `Parse` with faults, including the table gate (which comes before the first `nextToken`) -/
inductive ParseOutF (T N : Type) where
  | tableError
  | done (events : List (Event T N)) (e : Ending)
  deriving Repr

def parseWithF (g : Grammar T N) (an : Analysis T N) (lexFail tokFail prodFail : Option Nat)
    (fuel : Nat) (w : List T) : Outcome (ParseOutF T N) :=
  let t := buildTable (firstStr an.first) an.follow g.prods g.nonterms
  if (tconflicts t g.nonterms (columns g)).isEmpty then
    if lexFail = some 0 then .ok (.done [] (.fail .lexer))   -- "Read the first input token."
    else (parseRunF (tcell t) lexFail tokFail prodFail fuel [.nonterm g.start] w 0 0).map fun r => .done r.1 r.2
  else .ok .tableError

/-- what a run in which nothing fails looks like once something does: cut at the first call that returns an
error (`np` = production callbacks before this list) -/
def cutEvents (lexFail tokFail prodFail : Option Nat) : Nat → List (Event T N) → Ending → List (Event T N) × Ending
  | _, [], e => ([], e)
  | np, .tok t pos :: es, e =>
    if tokFail = some pos then ([], .fail (.token pos))
    else if lexFail = some (pos + 1) then ([.tok t pos], .fail .lexer)
    else let r := cutEvents lexFail tokFail prodFail np es e; (.tok t pos :: r.1, r.2)
  | np, .prod p :: es, e =>
    if prodFail = some np then ([], .fail .prod)
    else let r := cutEvents lexFail tokFail prodFail (np + 1) es e; (.prod p :: r.1, r.2)

/-! ## accessors of the parsing table -/

/-- `IsEmpty(A,a)`, `IsSync(A,a)`, `GetProduction(A,a)` -/
def cellInfo (t : PTable T N) (A : N) (a : Option T) : Bool × Bool × Option (GProd T N) :=
  (match t.get A a with
   | some e => e.prods.isEmpty
   | none => true,
   tsync t A a,
   match t.get A a with
   | some e => (match e.prods with
     | [p] => some p
     | _ => none)
   | none => none)

end

end AlgoVerif.C10
