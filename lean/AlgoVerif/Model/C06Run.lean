import AlgoVerif.Model.C06
import AlgoVerif.Spec.C06
/-!
# C06: uniform operations, outputs and `run` functions for the two Models and the Spec

The driver executes `Binary.step` / `Patricia.step`, i.e. exactly the functions the theorems of
`Props/C06.lean` talk about.  Core Lean only.
-/
namespace AlgoVerif.C06
variable {V : Type}

/-- the operations of `trie.Trie` that C06 quantifies over -/
inductive Op (V : Type) where
  | put (k : Key) (v : V)
  | get (k : Key)
  | delete (k : Key)
  | deleteMin
  | deleteMax
  | deleteAll
  | size
  | min
  | max
  | floor (k : Key)
  | ceiling (k : Key)
  | select (i : Int)
  | rank (k : Key)
  | range (lo hi : Key)
  | rangeSize (lo hi : Key)
  | all
  | withPrefix (p : Key)
  | longestPrefixOf (s : Key)
  | «match» (pat : Key)
  deriving Repr, DecidableEq

/-- observable result of one operation -/
inductive Out (V : Type) where
  | unit
  /-- `(V, bool)`: `none` ⇔ the bool is false -/
  | val (o : Option V)
  /-- `(string, V, bool)` -/
  | kv (o : Option (Key × V))
  | int (n : Int)
  | list (l : List (Key × V))
  deriving Repr, DecidableEq

/-- the keys an operation stores, looks up or deletes (these must be non-empty: the binary trie
panics on `""` and the property quantifies over non-empty keys) -/
def Op.keyArg : Op V → Option Key
  | .put k _ => some k
  | .get k => some k
  | .delete k => some k
  | _ => none

def Op.keysNonempty (op : Op V) : Bool :=
  match op.keyArg with
  | some k => !k.isEmpty
  | none => true

/-- Run a history on a Model whose steps may fail; the trace stops at the first `panic`/`diverge`. -/
def runTrace {σ ι ω : Type} (step : σ → ι → Outcome (σ × ω)) : σ → List ι → List (Outcome ω)
  | _, [] => []
  | s, op :: ops =>
    match step s op with
    | .ok (s', o) => .ok o :: runTrace step s' ops
    | .panic => [.panic]
    | .diverge => [.diverge]

/-- Run a history on a Spec. -/
def runSpec {σ ι ω : Type} (step : σ → ι → σ × ω) : σ → List ι → List ω
  | _, [] => []
  | s, op :: ops => (step s op).2 :: runSpec step (step s op).1 ops

def specFinal {σ ι ω : Type} (step : σ → ι → σ × ω) : σ → List ι → σ
  | s, [] => s
  | s, op :: ops => specFinal step (step s op).1 ops

/-! ## Model steps -/

def Binary.step [Inhabited V] (t : Binary V) : Op V → Outcome (Binary V × Out V)
  | .put k v => (t.put k v).map fun t' => (t', .unit)
  | .get k => (t.get k).map fun r => (t, .val r)
  | .delete k => (t.delete k).map fun r => (r.1, .val r.2)
  | .deleteMin => t.deleteMin.map fun r => (r.1, .kv r.2)
  | .deleteMax => t.deleteMax.map fun r => (r.1, .kv r.2)
  | .deleteAll => .ok (t.deleteAll, .unit)
  | .size => .ok (t, .int t.size)
  | .min => .ok (t, .kv t.min)
  | .max => .ok (t, .kv t.max)
  | .floor k => .ok (t, .kv (t.floor k))
  | .ceiling k => .ok (t, .kv (t.ceiling k))
  | .select i => .ok (t, .kv (t.select i))
  | .rank k => .ok (t, .int (t.rank k))
  | .range lo hi => .ok (t, .list (t.range lo hi))
  | .rangeSize lo hi => .ok (t, .int (t.rangeSize lo hi))
  | .all => .ok (t, .list t.all)
  | .withPrefix p => .ok (t, .list (t.withPrefix p))
  | .longestPrefixOf s => .ok (t, .kv (t.longestPrefixOf s))
  | .match pat => .ok (t, .list (t.match pat))

def Patricia.step (t : Patricia V) : Op V → Outcome (Patricia V × Out V)
  | .put k v => (t.put k v).map fun t' => (t', .unit)
  | .get k => (t.get k).map fun r => (t, .val r)
  | .delete k => (t.delete k).map fun r => (r.1, .val r.2)
  | .deleteMin => t.deleteMin.map fun r => (r.1, .kv r.2)
  | .deleteMax => t.deleteMax.map fun r => (r.1, .kv r.2)
  | .deleteAll => .ok (t.deleteAll, .unit)
  | .size => .ok (t, .int t.size)
  | .min => t.min.map fun r => (t, .kv r)
  | .max => t.max.map fun r => (t, .kv r)
  | .floor k => (t.floor k).map fun r => (t, .kv r)
  | .ceiling k => (t.ceiling k).map fun r => (t, .kv r)
  | .select i => (t.select i).map fun r => (t, .kv r)
  | .rank k => (t.rank k).map fun r => (t, .int r)
  | .range lo hi => (t.range lo hi).map fun r => (t, .list r)
  | .rangeSize lo hi => (t.rangeSize lo hi).map fun r => (t, .int r)
  | .all => t.all.map fun r => (t, .list r)
  | .withPrefix p => (t.withPrefix p).map fun r => (t, .list r)
  | .longestPrefixOf s => (t.longestPrefixOf s).map fun r => (t, .kv r)
  | .match pat => (t.match pat).map fun r => (t, .list r)

def Binary.run [Inhabited V] : Binary V → List (Op V) → List (Outcome (Out V)) := runTrace Binary.step
def Patricia.run : Patricia V → List (Op V) → List (Outcome (Out V)) := runTrace Patricia.step

/-! ## Spec steps -/
namespace Spec

def Map.step (m : Map V) : Op V → Map V × Out V
  | .put k v => (m.put k v, .unit)
  | .get k => (m, .val (m.get k))
  | .delete k => (m.delete k, .val (m.get k))
  | .deleteMin => (m.deleteMin, .kv m.min)
  | .deleteMax => (m.deleteMax, .kv m.max)
  | .deleteAll => ([], .unit)
  | .size => (m, .int m.size)
  | .min => (m, .kv m.min)
  | .max => (m, .kv m.max)
  | .floor k => (m, .kv (m.floor k))
  | .ceiling k => (m, .kv (m.ceiling k))
  | .select i => (m, .kv (m.select i))
  | .rank k => (m, .int (m.rank k))
  | .range lo hi => (m, .list (m.range lo hi))
  | .rangeSize lo hi => (m, .int (m.rangeSize lo hi))
  | .all => (m, .list m)
  | .withPrefix p => (m, .list (m.withPrefix p))
  | .longestPrefixOf s => (m, .kv (m.longestPrefixOf s))
  | .match pat => (m, .list (m.match pat))

def Map.run : Map V → List (Op V) → List (Out V) := runSpec Map.step

end Spec

/-! ## the histories `C06_patricia` covers -/

/-- `Put k` stores a non-empty key whose bits stay below the length positions of `bitString`
(`8 * len(k) ≤ lenPos = 2^30`, i.e. keys shorter than 128 MiB); `WithPrefix p`: `p` is that short -/
def Op.smallKeys : Op V → Bool
  | .put k _ => !k.isEmpty && decide (8 * k.length ≤ BitString.lenPos)
  | .withPrefix p => decide (8 * p.length ≤ BitString.lenPos)
  | _ => true

/-- a history whose stored keys are non-empty and that small -/
def PatriciaHistory : List (Op V) → Bool
  | [] => true
  | op :: ops => op.smallKeys && PatriciaHistory ops

end AlgoVerif.C06
