import AlgoVerif.Model.C14
import AlgoVerif.Model.C14W
/-!
# Model of `graph/*.go` — part 3: graph *objects* (state), `AddEdge` histories, accessors, `Reverse()`

Parts 1 and 2 model the algorithms as functions of an adjacency structure.  Here the four Go graph types
are modelled as objects with state, the way a client uses them: `NewX(V)`, then any interleaving of
`AddEdge` with queries on the same object, `Reverse()` handing out a second object, and so on.

* `GObj` = the fields of `*Directed` / `*Undirected` / `*WeightedDirected` / `*WeightedUndirected`:
  `v` (= `g.n`), `e`, `ins` (directed types only), `adj` (= `g.adj`).  Nothing else: the Go structs have no
  other field, in particular no cache — a query is a function of these fields and writes none of them
  (`GObj.answer` returns no new state; `World.step` leaves every object as it is on a query).  A change to
  the Go code that makes a query depend on anything but the current fields (a memoised reverse graph, a
  cached result) is a difference between implementation and Model on the first history that queries,
  adds an edge and queries again.
* `AddEdge` mirrors the Go text: `if valid(v) && valid(w) { g.e++; g.ins[w]++; g.adj[v] = append(…) }`.
* `Reverse()` mirrors the Go text: `rev := NewX(V); for v … for … range g.adj[v] { rev.AddEdge(…) }`; the
  result is a new object that shares nothing with the receiver.
* Accessors `V E InDegree OutDegree Degree Adj Edges` as in the Go text (`-1` / `nil` for an invalid vertex).
* Weights are `Int` (see the header of part 2); the unweighted types carry weight 0 (their callers pass 0).
-/
namespace AlgoVerif.C14

/-- which of the four Go graph types -/
inductive Kind | directed | undirected | wdirected | wundirected
  deriving DecidableEq, Repr

def Kind.isDirected : Kind → Bool
  | .directed | .wdirected => true
  | _ => false

def Kind.isWeighted : Kind → Bool
  | .wdirected | .wundirected => true
  | _ => false

/-- a graph object: the fields of the Go struct -/
structure GObj where
  kind : Kind
  /-- `v` and `adj` -/
  g : Graph
  /-- `e`: the edge counter -/
  e : Nat
  /-- `ins`: in-degree table (`Directed`, `WeightedDirected`; the undirected types have no such field: `#[]`) -/
  ins : Array Nat
  deriving Repr

/-- `NewDirected(V)` / `NewUndirected(V)` / `NewWeightedDirected(V)` / `NewWeightedUndirected(V)` without edges -/
def GObj.new (k : Kind) (n : Nat) : GObj :=
  { kind := k, g := Graph.new n, e := 0, ins := if k.isDirected then Array.replicate n 0 else #[] }

/-- `AddEdge`:
directed types   `if valid(v) && valid(w) { g.e++; g.ins[w]++; g.adj[v] = append(g.adj[v], ·) }`,
undirected types `if valid(v) && valid(w) { g.e++; g.adj[v] = append(g.adj[v], ·); g.adj[w] = append(g.adj[w], ·) }`
(`Graph.addEdgeDirected/Undirected` repeat the validity test and do the appends). -/
def GObj.addEdge (o : GObj) (u v w : Int) : GObj :=
  if o.g.isVertexValid u && o.g.isVertexValid v then
    if o.kind.isDirected then
      { o with e := o.e + 1, ins := o.ins.modify v.toNat (· + 1), g := o.g.addEdgeDirected u v w }
    else
      { o with e := o.e + 1, g := o.g.addEdgeUndirected u v w }
  else o

/-- one `AddEdge` call as data: endpoints as given by the caller (any `int`) and the weight -/
structure EdgeIn where
  u : Int
  v : Int
  w : Int := 0
  deriving Repr, DecidableEq

/-- `NewX(V, edges…)`: `for _, e := range edges { g.AddEdge(e) }` -/
def GObj.build (k : Kind) (n : Nat) (es : List EdgeIn) : GObj :=
  es.foldl (fun o e => o.addEdge e.u e.v e.w) (GObj.new k n)

/-! ## accessors -/

/-- `func (g *T) V() int` -/
def GObj.V (o : GObj) : Int := o.g.n
/-- `func (g *T) E() int` -/
def GObj.E (o : GObj) : Int := o.e

/-- `func (g *T) InDegree(v int) int { if !g.isVertexValid(v) { return -1 }; return g.ins[v] }` -/
def GObj.inDegree (o : GObj) (v : Int) : Outcome Int :=
  if o.g.isVertexValid v then
    match o.ins[v.toNat]? with
    | some d => .ok d
    | none => .panic
  else .ok (-1)

/-- `OutDegree(v)` (directed types) / `Degree(v)` (undirected types): `-1` or `len(g.adj[v])` -/
def GObj.outDegree (o : GObj) (v : Int) : Outcome Int :=
  if o.g.isVertexValid v then
    match o.g.adj[v.toNat]? with
    | some l => .ok l.length
    | none => .panic
  else .ok (-1)

/-- `func (g *T) Adj(v int) []X { if !g.isVertexValid(v) { return nil }; return g.adj[v] }` (`none` = `nil`) -/
def GObj.adjOf (o : GObj) (v : Int) : Outcome (Option (List Arc)) :=
  if o.g.isVertexValid v then
    match o.g.adj[v.toNat]? with
    | some l => .ok (some l)
    | none => .panic
  else .ok none

/-- `Edges()`:
`WeightedDirected`   `for _, adjEdges := range g.adj { edges = append(edges, adjEdges...) }`
`WeightedUndirected` `for v := range g.adj { for _, e := range g.adj[v] { if e.Other(v) > v { edges = append(edges, e) } } }`
(`e.Other(v)` for an entry of `adj[v]` is the neighbour the entry stores; a self-loop is never listed) -/
def GObj.edges (o : GObj) : List Edge :=
  if o.kind.isDirected then
    o.g.adj.toList.flatMap fun l => l.map (·.e)
  else
    (List.range o.g.adj.size).flatMap fun v => ((o.g.adj.getD v []).filter fun x => decide (v < x.to)).map (·.e)

/-! ## Reverse -/

/-- the `AddEdge` calls `Reverse()` makes, in order:
`Directed`         `for v := 0; v < g.V(); v++ { for _, w := range g.adj[v] { rev.AddEdge(w, v) } }`
`WeightedDirected` `… for _, e := range g.adj[v] { rev.AddEdge(DirectedEdge{e.To(), e.From(), e.Weight()}) }` -/
def GObj.flipped (o : GObj) : List EdgeIn :=
  (List.range o.g.n).flatMap fun v => (o.g.adj.getD v []).map fun x =>
    if o.kind.isWeighted then ⟨x.e.b, x.e.a, x.e.w⟩ else ⟨x.to, v, x.e.w⟩

/-- `func (g *Directed) Reverse() *Directed` / `func (g *WeightedDirected) Reverse() *WeightedDirected`:
a new object, built by `NewX(g.V())` and one `AddEdge` per stored edge -/
def GObj.reverse (o : GObj) : GObj := GObj.build o.kind o.g.n o.flipped

/-! ## Traverse with caller-supplied visitors -/

/-- what a visitor callback was called with -/
inductive Ev
  | pre (v : Nat)
  | post (v : Nat)
  | edge (v w : Nat) (wt : Int)
  deriving Repr, DecidableEq

/-- visitors that log every call and answer `true` `stop` times, then `false` (`none`: always `true`) -/
def logVisitors : Visitors (List Ev × Option Nat) :=
  let answer : List Ev × Option Nat → Ev → (List Ev × Option Nat) × Bool := fun st ev =>
    match st.2 with
    | none => ((ev :: st.1, none), true)
    | some 0 => ((ev :: st.1, some 0), false)
    | some (k + 1) => ((ev :: st.1, some k), true)
  { pre := some fun v st => answer st (.pre v)
    post := some fun v st => answer st (.post v)
    edge := some fun v w wt st => answer st (.edge v w wt) }

/-- `func (g *T) Traverse(s int, strategy TraversalStrategy, visitors *Visitors)`:
`if !g.isVertexValid(s) { return }; visited := make([]bool, g.V()); switch strategy { … }` with the logging
visitors; the result is the sequence of callback calls -/
def Graph.traverseLog (g : Graph) (strat : Strategy) (s : Int) (stop : Option Nat) : Outcome (List Ev) :=
  if g.isVertexValid s then
    (traverse g strat logVisitors s.toNat ⟨Array.replicate g.n false, ([], stop)⟩).map fun st => st.s.1.reverse
  else .ok []

/-! ## queries: every exported read-only method, as a function of the object's current fields -/

inductive Query
  /-- `Paths(s, strat)` and `To(v)` for every `v` in `0 … V-1` -/
  | paths (strat : Strategy) (s : Int)
  /-- `Paths(s, strat).To(v)` -/
  | path (strat : Strategy) (s v : Int)
  | orders (strat : Strategy)
  /-- `ConnectedComponents()` (undirected types) -/
  | cc
  /-- `StronglyConnectedComponents()` (directed types) -/
  | scc
  /-- `DirectedCycle().Cycle()` (`Directed`) -/
  | cycle
  /-- `Topological()` (`Directed`) -/
  | topo
  /-- `MinimumSpanningTree()` (`WeightedUndirected`) -/
  | mst
  /-- `ShortestPathTree(s)` and `PathTo(v)` for every `v` (`WeightedDirected`) -/
  | spt (s : Int)
  /-- `ShortestPathTree(s).PathTo(v)` -/
  | sptto (s v : Int)
  /-- `V()`, `E()` and `Adj(v)` for every `v` -/
  | dump
  /-- `Reverse()` asked for `V()`, `E()`, `Adj(v)`, `InDegree(v)` and thrown away (directed types) -/
  | reverse
  | indeg (v : Int)
  | outdeg (v : Int)
  | adjOf (v : Int)
  | edges
  /-- `Traverse(s, strat, visitors)` with visitors that log their calls and return `false` at call number `stop` -/
  | traverse (strat : Strategy) (s : Int) (stop : Option Nat)
  deriving Repr

inductive Answer
  | unit
  | paths (l : List (Outcome (Option (List Nat))))
  | path (r : Option (List Nat))
  | orders (o : Orders)
  | comps (c : Components)
  | cycle (c : Option (List Nat))
  | topo (t : Topological)
  | mst (m : MST)
  | spt (t : SPT) (l : List (Outcome (Option (List Edge × Int))))
  | sptto (t : SPT) (r : Option (List Edge × Int))
  | obj (o : GObj)
  | int (i : Int)
  | arcs (l : Option (List Arc))
  | edges (l : List Edge)
  | events (l : List Ev)
  deriving Repr

/-- which queries the Go type of kind `k` has -/
def Query.applies (k : Kind) : Query → Bool
  | .paths .. | .path .. | .orders .. | .dump | .outdeg .. | .adjOf .. | .traverse .. => true
  | .cc => !k.isDirected
  | .scc | .reverse | .indeg .. => k.isDirected
  | .cycle | .topo => k == .directed
  | .mst => k == .wundirected
  | .spt .. | .sptto .. => k == .wdirected
  | .edges => k.isWeighted

/-- the answer of a query: a function of the current fields of the object, nothing else -/
def GObj.answer (o : GObj) : Query → Outcome Answer
  | .paths strat s => (o.g.paths s strat).map fun p => .paths ((List.range o.g.n).map fun (v : Nat) => p.to (v : Int))
  | .path strat s v => (o.g.paths s strat).bind fun p => (p.to v).map .path
  | .orders strat => (o.g.orders strat).map .orders
  | .cc => o.g.connectedComponents.map .comps
  | .scc => o.g.stronglyConnectedComponents.map .comps
  | .cycle => o.g.directedCycle.map fun c => .cycle c.cycleList
  | .topo => o.g.topological.map .topo
  | .mst => o.g.minimumSpanningTree.map .mst
  | .spt s => (o.g.shortestPathTree s).map fun t => .spt t ((List.range o.g.n).map fun (v : Nat) => t.pathTo (v : Int))
  | .sptto s v => (o.g.shortestPathTree s).bind fun t => (t.pathTo v).map (.sptto t)
  | .dump => .ok (.obj o)
  | .reverse => .ok (.obj o.reverse)
  | .indeg v => (o.inDegree v).map .int
  | .outdeg v => (o.outDegree v).map .int
  | .adjOf v => (o.adjOf v).map .arcs
  | .edges => .ok (.edges o.edges)
  | .traverse strat s stop => (o.g.traverseLog strat s stop).map .events

/-! ## histories on several objects -/

/-- what a client does, one step at a time -/
inductive Op
  /-- `AddEdge` on the current object -/
  | edge (u v w : Int)
  /-- a read-only method of the current object -/
  | query (q : Query)
  /-- `r := cur.Reverse()`: `r` becomes a further object of the world (the current object stays current);
  only the directed types have the method -/
  | mkrev
  /-- make object `i` the current one -/
  | use (i : Nat)
  /-- `NewX(n, es…)` of the same Go type as the current object: a further, unrelated object of the world (the
  current object stays current) -/
  | mknew (n : Nat) (es : List EdgeIn)
  deriving Repr

/-- the objects a client holds, and the one the next call goes to -/
structure World where
  objs : Array GObj
  cur : Nat
  deriving Repr

def World.init (k : Kind) (n : Nat) : World := ⟨#[GObj.new k n], 0⟩

/-- the current object (`GObj.new .directed 0` if there is none: `World.init` and `step` never get there) -/
def World.obj (w : World) : GObj := w.objs.getD w.cur (GObj.new .directed 0)

/-- one step: the new world and what the call returned -/
def World.step (w : World) : Op → World × Outcome Answer
  | .edge u v wt => ({ w with objs := w.objs.setIfInBounds w.cur (w.obj.addEdge u v wt) }, .ok .unit)
  | .query q => (w, w.obj.answer q)
  | .mkrev => (if w.obj.kind.isDirected then { w with objs := w.objs.push w.obj.reverse } else w, .ok .unit)
  | .use i => (if i < w.objs.size then { w with cur := i } else w, .ok .unit)
  | .mknew n es => ({ w with objs := w.objs.push (GObj.build w.obj.kind n es) }, .ok .unit)

/-- a history: the final world and one outcome per step (a `panic` — an out-of-range argument of a query —
leaves the objects as they are, as in Go; the harness ends a case there) -/
def World.run (w : World) : List Op → World × List (Outcome Answer)
  | [] => (w, [])
  | op :: ops =>
    let r := w.step op
    let r' := r.1.run ops
    (r'.1, r.2 :: r'.2)

end AlgoVerif.C14
