import AlgoVerif.Common
/-!
# Model of `set/set.go`, `set/stable.go`, `set/sorted.go`, `set/format.go`

Line-by-line transcription.  A set object is its implementation tag (with the callback it was
constructed with: `equal` for `set`/`stable`, `compare` for `sorted`) plus its `members` slice as a
`List`.  Callbacks return an `Outcome` (a Go callback may panic; `Set.Equal`, used as the callback of
a set of sets, goes through the binary search of `sorted`).

* Go `int` is `Int`; a slice expression or index outside its bounds is `Outcome.panic`.
* `for low <= high` (binary search) has fuel and returns `Outcome.diverge` when it runs out.
* the package-level `shuffle` (`math/rand`'s `Shuffle`) is a *parameter*: `sh n g` is the content of
  the `indices` slice after `shuffle(n, swap)` together with the generator's next state.  Nothing is
  assumed about it here; theorems assume only that it returns a permutation of `0 … n-1`.
* `Powerset`/`Partitions` recurse on a freshly built `tail`; the recursion has fuel.
-/
namespace AlgoVerif.C16

abbrev EqualFunc (α : Type) := α → α → Outcome Bool
abbrev CompareFunc (α : Type) := α → α → Outcome Int
/-- `sh n g = (indices after shuffle(n, …), next generator state)` -/
abbrev Shuffle (σ : Type) := Nat → σ → List Nat × σ

/-- the Go type behind a `Set[T]` interface value, with its callback field -/
inductive Impl (α : Type) where
  | unordered (equal : EqualFunc α)
  | stable (equal : EqualFunc α)
  | sorted (compare : CompareFunc α)

structure MSet (α : Type) where
  impl : Impl α
  members : List α

variable {α : Type} {σ : Type}

/-- `New` / `NewStable` / `NewSorted` without initial values -/
def MSet.new (impl : Impl α) : MSet α := { impl := impl, members := [] }

/-! ## find -/

/-- `set.find` / `stable.find`: `for i, m := range s.members { if s.equal(m, v) { return i } }; return -1` -/
def linFind (equal : EqualFunc α) (v : α) : List α → Int → Outcome Int
  | [], _ => .ok (-1)
  | m :: ms, i => do
    if (← equal m v) then return i else linFind equal v ms (i + 1)

/-- `sorted.find`: `for low <= high { mid := (low+high)/2; cmp := s.compare(v, s.members[mid]); … }` -/
def binFind (compare : CompareFunc α) (members : List α) (v : α) : Nat → Int → Int → Outcome Int
  | 0, _, _ => .diverge
  | fuel + 1, low, high =>
    if low ≤ high then
      let mid := (low + high).tdiv 2
      if 0 ≤ mid then
        match members[mid.toNat]? with
        | none => .panic
        | some m => do
          let cmp ← compare v m
          if cmp < 0 then binFind compare members v fuel low (mid - 1)
          else if cmp > 0 then binFind compare members v fuel (mid + 1) high
          else return mid
      else .panic
    else .ok (-1)

/-- the same loop inside `sorted.add`: `none` = "member already exists", `some low` = insert at `low` -/
def binAddPos (compare : CompareFunc α) (members : List α) (v : α) : Nat → Int → Int → Outcome (Option Int)
  | 0, _, _ => .diverge
  | fuel + 1, low, high =>
    if low ≤ high then
      let mid := (low + high).tdiv 2
      if 0 ≤ mid then
        match members[mid.toNat]? with
        | none => .panic
        | some m => do
          let cmp ← compare v m
          if cmp < 0 then binAddPos compare members v fuel low (mid - 1)
          else if cmp > 0 then binAddPos compare members v fuel (mid + 1) high
          else return none
      else .panic
    else .ok (some low)

def MSet.find (s : MSet α) (v : α) : Outcome Int :=
  match s.impl with
  | .unordered equal => linFind equal v s.members 0
  | .stable equal => linFind equal v s.members 0
  | .sorted compare => binFind compare s.members v (s.members.length + 1) 0 ((s.members.length : Int) - 1)

/-! ## Size, IsEmpty, Contains, Add, Remove, RemoveAll, Clone, CloneEmpty, String -/

def MSet.size (s : MSet α) : Int := s.members.length
def MSet.isEmpty (s : MSet α) : Bool := s.members.length == 0

/-- `for _, v := range vals { if s.find(v) == -1 { return false } }; return true` -/
def MSet.contains (s : MSet α) : List α → Outcome Bool
  | [] => .ok true
  | v :: vs => do
    if (← s.find v) = -1 then return false else s.contains vs

/-- one round of the `Add` loop -/
def MSet.add1 (s : MSet α) (v : α) : Outcome (MSet α) :=
  match s.impl with
  | .unordered _ | .stable _ => do
    -- if !s.Contains(v) { s.members = append(s.members, v) }
    if !(← s.contains [v]) then return { s with members := s.members ++ [v] } else return s
  | .sorted compare => do
    -- sorted.add
    match ← binAddPos compare s.members v (s.members.length + 1) 0 ((s.members.length : Int) - 1) with
    | none => return s
    | some low =>
      -- s.members = append(s.members[:low], append([]T{val}, s.members[low:]...)...)
      if 0 ≤ low ∧ low ≤ s.members.length then
        return { s with members := s.members.take low.toNat ++ v :: s.members.drop low.toNat }
      else .panic

def MSet.add (s : MSet α) : List α → Outcome (MSet α)
  | [] => .ok s
  | v :: vs => do
    let s ← s.add1 v
    s.add vs

/-- one round of the `Remove` loop:
`if i := s.find(v); i != -1 { s.members = append(s.members[:i], s.members[i+1:]...) }` -/
def MSet.remove1 (s : MSet α) (v : α) : Outcome (MSet α) := do
  let i ← s.find v
  if i ≠ -1 then
    if 0 ≤ i ∧ i + 1 ≤ s.members.length then
      return { s with members := s.members.take i.toNat ++ s.members.drop (i.toNat + 1) }
    else .panic
  else return s

def MSet.remove (s : MSet α) : List α → Outcome (MSet α)
  | [] => .ok s
  | v :: vs => do
    let s ← s.remove1 v
    s.remove vs

def MSet.removeAll (s : MSet α) : MSet α := { s with members := [] }

/-- `make([]T, len(s.members))` + `copy`: a value with the same contents and nothing shared -/
def MSet.clone (s : MSet α) : MSet α := { impl := s.impl, members := s.members }
def MSet.cloneEmpty (s : MSet α) : MSet α := { impl := s.impl, members := [] }

/-- `format.go`: `{%s}` around the `%v` of the members joined by `", "` (over `s.members` as stored) -/
def MSet.string (fmt : α → String) (s : MSet α) : String :=
  "{" ++ ", ".intercalate (s.members.map fmt) ++ "}"

/-- `New(equal, vals...)` / `NewStable` / `NewSorted` with initial values: `s.Add(vals...)` on the empty set -/
def MSet.newWith (impl : Impl α) (vals : List α) : Outcome (MSet α) := (MSet.new impl).add vals

/-! ## AnyMatch, AllMatch, FirstMatch, SelectMatch, PartitionMatch (all range over `s.members` as stored) -/

/-- `for _, m := range s.members { if p(m) { return true } }; return false` -/
def MSet.anyMatch (s : MSet α) (p : α → Bool) : Bool := s.members.any p
/-- `for _, m := range s.members { if !p(m) { return false } }; return true` -/
def MSet.allMatch (s : MSet α) (p : α → Bool) : Bool := s.members.all p
/-- `for _, m := range s.members { if p(m) { return m, true } }; return zero, false` -/
def MSet.firstMatch (s : MSet α) (p : α → Bool) : Option α := s.members.find? p

/-- `for _, m := range s.members { if p(m) { matched.Add(m) } else { unmatched.Add(m) } }`
(`SelectMatch` is the same loop without the `else`) -/
def partitionLoop (p : α → Bool) (matched unmatched : MSet α) : List α → Outcome (MSet α × MSet α)
  | [] => .ok (matched, unmatched)
  | m :: ms => do
    if p m then
      let matched ← matched.add [m]
      partitionLoop p matched unmatched ms
    else
      let unmatched ← unmatched.add [m]
      partitionLoop p matched unmatched ms

def selectLoop (p : α → Bool) (matched : MSet α) : List α → Outcome (MSet α)
  | [] => .ok matched
  | m :: ms => do
    if p m then
      let matched ← matched.add [m]
      selectLoop p matched ms
    else selectLoop p matched ms

/-- `matched := s.CloneEmpty(); for … ; return matched` -/
def MSet.selectMatch (s : MSet α) (p : α → Bool) : Outcome (MSet α) :=
  selectLoop p s.cloneEmpty s.members

def MSet.partitionMatch (s : MSet α) (p : α → Bool) : Outcome (MSet α × MSet α) :=
  partitionLoop p s.cloneEmpty s.cloneEmpty s.members

/-! ## Equal, All, IsSubset, IsSuperset -/

/-- `for _, m := range s.members { if !rhs.Contains(m) { return false } }; return true` -/
def containsEach (rhs : MSet α) : List α → Outcome Bool
  | [] => .ok true
  | m :: ms => do
    if !(← rhs.contains [m]) then return false else containsEach rhs ms

def MSet.equal (s rhs : MSet α) : Outcome Bool :=
  if s.size ≠ rhs.size then .ok false else containsEach rhs s.members

/-- `members[i]` for every `i` of the shuffled index list -/
def pick (members : List α) : List Nat → Outcome (List α)
  | [] => .ok []
  | i :: is =>
    match members[i]? with
    | none => .panic
    | some m => do
      let rest ← pick members is
      return m :: rest

/-- what RUNNING the sequence `s.All()` yields, `s` being the set object as it is when the sequence is run
(not when it was obtained: /repo 4fb90a5 moved the index list and `r.Shuffle` of `set.All` inside the returned
closure; `stable.All` and `sorted.All` always ranged over `s.members` inside theirs).  `set.All` lists the indices
of the members and shuffles them — one draw from the shuffle source per run —; `stable.All` and `sorted.All` yield
`s.members` in order and draw nothing. -/
def MSet.all (sh : Shuffle σ) (s : MSet α) (g : σ) : Outcome (List α × σ) :=
  match s.impl with
  | .unordered _ => do
    let (indices, g) := sh s.members.length g
    let ms ← pick s.members indices
    return (ms, g)
  | .stable _ | .sorted _ => .ok (s.members, g)

/-- `for m := range s.All() { if !superset.Contains(m) { return false } }; return true` -/
def MSet.isSubset (sh : Shuffle σ) (s superset : MSet α) (g : σ) : Outcome (Bool × σ) := do
  let (ms, g) ← s.all sh g
  return (← containsEach superset ms, g)

def MSet.isSuperset (sh : Shuffle σ) (s subset : MSet α) (g : σ) : Outcome (Bool × σ) := do
  let (ms, g) ← subset.all sh g
  return (← containsEach s ms, g)

/-! ## Union, Intersection, Difference -/

/-- `for m := range set.All() { t.Add(m) }` -/
def addEach (t : MSet α) : List α → Outcome (MSet α)
  | [] => .ok t
  | m :: ms => do
    let t ← t.add [m]
    addEach t ms

/-- `for m := range set.All() { t.Remove(m) }` -/
def removeEach (t : MSet α) : List α → Outcome (MSet α)
  | [] => .ok t
  | m :: ms => do
    let t ← t.remove [m]
    removeEach t ms

def unionLoop (sh : Shuffle σ) (t : MSet α) : List (MSet α) → σ → Outcome (MSet α × σ)
  | [], g => .ok (t, g)
  | set :: sets, g => do
    let (ms, g) ← set.all sh g
    let t ← addEach t ms
    unionLoop sh t sets g

/-- `t := s.Clone(); for _, set := range sets { for m := range set.All() { t.Add(m) } }; return t` -/
def MSet.union (sh : Shuffle σ) (s : MSet α) (sets : List (MSet α)) (g : σ) : Outcome (MSet α × σ) :=
  unionLoop sh s.clone sets g

/-- `generic.AllMatch(sets, func(set) bool { return set.Contains(m) })` -/
def allContain (m : α) : List (MSet α) → Outcome Bool
  | [] => .ok true
  | set :: sets => do
    if !(← set.contains [m]) then return false else allContain m sets

def interLoop (sets : List (MSet α)) (t : MSet α) : List α → Outcome (MSet α)
  | [] => .ok t
  | m :: ms => do
    if (← allContain m sets) then
      let t ← t.add [m]
      interLoop sets t ms
    else interLoop sets t ms

/-- `t := s.CloneEmpty(); for _, m := range s.members { if isInAll { t.Add(m) } }; return t` -/
def MSet.intersection (s : MSet α) (sets : List (MSet α)) : Outcome (MSet α) :=
  interLoop sets s.cloneEmpty s.members

def diffLoop (sh : Shuffle σ) (t : MSet α) : List (MSet α) → σ → Outcome (MSet α × σ)
  | [], g => .ok (t, g)
  | set :: sets, g => do
    let (ms, g) ← set.all sh g
    let t ← removeEach t ms
    diffLoop sh t sets g

/-- `t := s.Clone(); for _, set := range sets { for m := range set.All() { t.Remove(m) } }; return t` -/
def MSet.difference (sh : Shuffle σ) (s : MSet α) (sets : List (MSet α)) (g : σ) : Outcome (MSet α × σ) :=
  diffLoop sh s.clone sets g

/-! ## Powerset -/

/-- `setEqFunc := func(a, b Set[T]) bool { return a.Equal(b) }` -/
def setEqFunc : EqualFunc (MSet α) := fun a b => a.equal b

/-- `for subset := range Powerset(tail).All() { PS.Add(subset); PS.Add(head.Union(subset)) }` -/
def powersetLoop (sh : Shuffle σ) (head : MSet α) (PS : MSet (MSet α)) :
    List (MSet α) → σ → Outcome (MSet (MSet α) × σ)
  | [], g => .ok (PS, g)
  | subset :: rest, g => do
    let PS ← PS.add [subset]
    let (u, g) ← head.union sh [subset] g
    let PS ← PS.add [u]
    powersetLoop sh head PS rest g

def powerset (sh : Shuffle σ) : Nat → MSet α → σ → Outcome (MSet (MSet α) × σ)
  | 0, _, _ => .diverge
  | fuel + 1, s, g => do
    let PS : MSet (MSet α) := MSet.new (.unordered setEqFunc)
    if s.size = 0 then
      let es := s.cloneEmpty
      let PS ← PS.add [es]
      return (PS, g)
    else
      let (members, g) ← s.all sh g
      let head := s.cloneEmpty
      let tail := s.cloneEmpty
      match members with
      | [] => .panic -- members[0]
      | m0 :: ms =>
        let head ← head.add [m0]
        let tail ← tail.add ms
        let (sub, g) ← powerset sh fuel tail g
        let (subsets, g) ← sub.all sh g
        powersetLoop sh head PS subsets g

/-- `Powerset(s)`; the recursion depth is `s.Size() + 1` -/
def MSet.powerset (sh : Shuffle σ) (s : MSet α) (g : σ) : Outcome (MSet (MSet α) × σ) :=
  C16.powerset sh (s.members.length + 1) s g

/-! ## Partitions -/

/-- `partEqFunc := func(a, b Set[Set[T]]) bool { return a.Equal(b) }` -/
def partEqFunc : EqualFunc (MSet (MSet α)) := fun a b => a.equal b

/-- `for i := range Pmembers { Q := New(setEqFunc); Q.Add(Pmembers[0:i]...);
Q.Add(head.Union(Pmembers[i])); Q.Add(Pmembers[i+1:]...); Ps.Add(Q) }`
(`before` = `Pmembers[0:i]`, the list argument = `Pmembers[i:]`) -/
def partitionsInner (sh : Shuffle σ) (head : MSet α) (Ps : MSet (MSet (MSet α))) (before : List (MSet α)) :
    List (MSet α) → σ → Outcome (MSet (MSet (MSet α)) × σ)
  | [], g => .ok (Ps, g)
  | b :: after, g => do
    let Q : MSet (MSet α) := MSet.new (.unordered setEqFunc)
    let Q ← Q.add before
    let (u, g) ← head.union sh [b] g
    let Q ← Q.add [u]
    let Q ← Q.add after
    let Ps ← Ps.add [Q]
    partitionsInner sh head Ps (before ++ [b]) after g

/-- `for P := range Partitions(tail).All() { … }` -/
def partitionsLoop (sh : Shuffle σ) (head : MSet α) (Ps : MSet (MSet (MSet α))) :
    List (MSet (MSet α)) → σ → Outcome (MSet (MSet (MSet α)) × σ)
  | [], g => .ok (Ps, g)
  | P :: rest, g => do
    let (Pmembers, g) ← P.all sh g
    let Q : MSet (MSet α) := MSet.new (.unordered setEqFunc)
    let Q ← Q.add [head.clone]
    let Q ← Q.add Pmembers
    let Ps ← Ps.add [Q]
    let (Ps, g) ← partitionsInner sh head Ps [] Pmembers g
    partitionsLoop sh head Ps rest g

def partitions (sh : Shuffle σ) : Nat → MSet α → σ → Outcome (MSet (MSet (MSet α)) × σ)
  | 0, _, _ => .diverge
  | fuel + 1, s, g => do
    let Ps : MSet (MSet (MSet α)) := MSet.new (.unordered partEqFunc)
    if s.size = 0 then
      let P : MSet (MSet α) := MSet.new (.unordered setEqFunc)
      let Ps ← Ps.add [P]
      return (Ps, g)
    else
      let (members, g) ← s.all sh g
      let head := s.cloneEmpty
      let tail := s.cloneEmpty
      match members with
      | [] => .panic -- members[0]
      | m0 :: ms =>
        let head ← head.add [m0]
        let tail ← tail.add ms
        let (sub, g) ← partitions sh fuel tail g
        let (parts, g) ← sub.all sh g
        partitionsLoop sh head Ps parts g

def MSet.partitions (sh : Shuffle σ) (s : MSet α) (g : σ) : Outcome (MSet (MSet (MSet α)) × σ) :=
  C16.partitions sh (s.members.length + 1) s g

/-! ## histories

A history is a list of operations on a file of registers, each holding a set object of any
implementation; results of `Clone`/`Union`/… are stored into a register.  This is the machine the
line-protocol driver runs (it only parses into `Op` and prints `Obs`). -/

inductive Op (α : Type) where
  | add (i : Nat) (vs : List α)
  | remove (i : Nat) (vs : List α)
  | removeAll (i : Nat)
  | contains (i : Nat) (vs : List α)
  | size (i : Nat)
  | isEmpty (i : Nat)
  | all (i : Nat)
  | equal (i j : Nat)
  | subset (i j : Nat)
  | superset (i j : Nat)
  | clone (d i : Nat)
  | cloneEmpty (d i : Nat)
  | new (d : Nat) (impl : Impl α)
  | union (d i : Nat) (js : List Nat)
  | inter (d i : Nat) (js : List Nat)
  | diff (d i : Nat) (js : List Nat)
  | anyMatch (i : Nat) (p : α → Bool)
  | allMatch (i : Nat) (p : α → Bool)
  | firstMatch (i : Nat) (p : α → Bool)
  | select (d i : Nat) (p : α → Bool)
  | partitionM (d e i : Nat) (p : α → Bool)

/-- what an operation lets the caller see -/
inductive Obs (α : Type) where
  | unit
  | bool (b : Bool)
  | int (n : Int)
  /-- the values yielded by `All()`, or the members of the set a set-algebra call returned -/
  | elems (l : List α)
  /-- `FirstMatch`: the value found, if any -/
  | opt (o : Option α)
  /-- `PartitionMatch`: the members of the two sets returned -/
  | elems2 (l₁ l₂ : List α)
  /-- a register number out of range: not an operation of the set package, the state is unchanged -/
  | bad

abbrev RegState (α σ : Type) := List (MSet α) × σ

def getRegs (regs : List (MSet α)) : List Nat → Option (List (MSet α))
  | [] => some []
  | j :: js =>
    match regs[j]?, getRegs regs js with
    | some s, some ss => some (s :: ss)
    | _, _ => none

def stepOp (sh : Shuffle σ) (st : RegState α σ) : Op α → Outcome (RegState α σ × Obs α)
  | .add i vs =>
    match st.1[i]? with
    | none => .ok (st, .bad)
    | some s => do let s ← s.add vs; return ((st.1.set i s, st.2), .unit)
  | .remove i vs =>
    match st.1[i]? with
    | none => .ok (st, .bad)
    | some s => do let s ← s.remove vs; return ((st.1.set i s, st.2), .unit)
  | .removeAll i =>
    match st.1[i]? with
    | none => .ok (st, .bad)
    | some s => .ok ((st.1.set i s.removeAll, st.2), .unit)
  | .contains i vs =>
    match st.1[i]? with
    | none => .ok (st, .bad)
    | some s => do let b ← s.contains vs; return (st, .bool b)
  | .size i =>
    match st.1[i]? with
    | none => .ok (st, .bad)
    | some s => .ok (st, .int s.size)
  | .isEmpty i =>
    match st.1[i]? with
    | none => .ok (st, .bad)
    | some s => .ok (st, .bool s.isEmpty)
  | .all i =>
    match st.1[i]? with
    | none => .ok (st, .bad)
    | some s => do let (ms, g) ← s.all sh st.2; return ((st.1, g), .elems ms)
  | .equal i j =>
    match st.1[i]?, st.1[j]? with
    | some s, some t => do let b ← s.equal t; return (st, .bool b)
    | _, _ => .ok (st, .bad)
  | .subset i j =>
    match st.1[i]?, st.1[j]? with
    | some s, some t => do let (b, g) ← s.isSubset sh t st.2; return ((st.1, g), .bool b)
    | _, _ => .ok (st, .bad)
  | .superset i j =>
    match st.1[i]?, st.1[j]? with
    | some s, some t => do let (b, g) ← s.isSuperset sh t st.2; return ((st.1, g), .bool b)
    | _, _ => .ok (st, .bad)
  | .clone d i =>
    match st.1[i]? with
    | some s => if d < st.1.length then .ok ((st.1.set d s.clone, st.2), .unit) else .ok (st, .bad)
    | none => .ok (st, .bad)
  | .cloneEmpty d i =>
    match st.1[i]? with
    | some s => if d < st.1.length then .ok ((st.1.set d s.cloneEmpty, st.2), .unit) else .ok (st, .bad)
    | none => .ok (st, .bad)
  | .new d impl =>
    if d < st.1.length then .ok ((st.1.set d (MSet.new impl), st.2), .unit) else .ok (st, .bad)
  | .union d i js =>
    match st.1[i]?, getRegs st.1 js with
    | some s, some sets =>
      if d < st.1.length then do
        let (t, g) ← s.union sh sets st.2
        return ((st.1.set d t, g), .elems t.members)
      else .ok (st, .bad)
    | _, _ => .ok (st, .bad)
  | .inter d i js =>
    match st.1[i]?, getRegs st.1 js with
    | some s, some sets =>
      if d < st.1.length then do
        let t ← s.intersection sets
        return ((st.1.set d t, st.2), .elems t.members)
      else .ok (st, .bad)
    | _, _ => .ok (st, .bad)
  | .diff d i js =>
    match st.1[i]?, getRegs st.1 js with
    | some s, some sets =>
      if d < st.1.length then do
        let (t, g) ← s.difference sh sets st.2
        return ((st.1.set d t, g), .elems t.members)
      else .ok (st, .bad)
    | _, _ => .ok (st, .bad)

  | .anyMatch i p =>
    match st.1[i]? with
    | none => .ok (st, .bad)
    | some s => .ok (st, .bool (s.anyMatch p))
  | .allMatch i p =>
    match st.1[i]? with
    | none => .ok (st, .bad)
    | some s => .ok (st, .bool (s.allMatch p))
  | .firstMatch i p =>
    match st.1[i]? with
    | none => .ok (st, .bad)
    | some s => .ok (st, .opt (s.firstMatch p))
  | .select d i p =>
    match st.1[i]? with
    | some s =>
      if d < st.1.length then do
        let t ← s.selectMatch p
        return ((st.1.set d t, st.2), .elems t.members)
      else .ok (st, .bad)
    | none => .ok (st, .bad)
  | .partitionM d e i p =>
    match st.1[i]? with
    | some s =>
      if d < st.1.length ∧ e < st.1.length then do
        let (t, u) ← s.partitionMatch p
        return (((st.1.set d t).set e u, st.2), .elems2 t.members u.members)
      else .ok (st, .bad)
    | none => .ok (st, .bad)

def runOps (sh : Shuffle σ) : List (Op α) → RegState α σ → Outcome (RegState α σ × List (Obs α))
  | [], st => .ok (st, [])
  | op :: ops, st => do
    let (st, o) ← stepOp sh st op
    let (st, os) ← runOps sh ops st
    return (st, o :: os)

/-! ## sequences are handles

`seq := s.All()` returns a closure over the set OBJECT.  Obtaining it reads nothing, lists nothing and draws
nothing from the shuffle source; every run (`for m := range seq`) is `MSet.all` of the object as it is at that
moment: run twice ⇒ two listings (two draws for the unordered set), never run ⇒ no draw, run after `Add` /
`Remove` / `RemoveAll` ⇒ the members the set has then.  In the register machine the object is the register
(the mutators `Add`/`Remove`/`RemoveAll` change a register's object in place). -/

/-- the `iter.Seq` returned by `All()` of the set object in register `reg` -/
structure Seq where
  reg : Nat
  deriving Repr, DecidableEq

/-- `seq := regs[i].All()`: the state — registers and shuffle source — is returned as it was -/
def obtainAll (st : RegState α σ) (i : Nat) : RegState α σ × Seq := (st, ⟨i⟩)

/-- `for m := range seq` in state `st` (whatever happened since the sequence was obtained) -/
def Seq.run (sh : Shuffle σ) (st : RegState α σ) (q : Seq) : Outcome (RegState α σ × Obs α) :=
  stepOp sh st (.all q.reg)

/-! ## slice store: which backing arrays a set-algebra call writes

The functional Model above cannot express "the operands are not modified": Go slices share backing
arrays and `Remove` / `Add` edit them in place.  This section re-runs Clone / CloneEmpty / Add / Remove and
the three set-algebra loops on set objects that additionally carry the *identity* and *capacity* of the
backing array of `members`, and records every array written:

* `make([]T, n)` (+ `copy`) allocates a new array (`Clone`, `CloneEmpty`);
* `append(s.members, v)` writes the array of `s.members` when `len < cap`, otherwise it allocates a new
  array of capacity `grow (len+1)` (Go's growth rule is a parameter) and writes that;
* `append(s.members[:i], s.members[i+1:]...)` shifts inside the array of `s.members`;
* `append(s.members[:low], append([]T{val}, s.members[low:]...)...)` allocates a temporary array for the
  inner `append`, then behaves like the first `append`.

Reads are not recorded.  The contents are those of the functional Model (`HSet.set`). -/

structure HSet (α : Type) where
  set : MSet α
  /-- identity of the backing array of `set.members` -/
  buf : Nat
  cap : Nat

structure Store where
  /-- arrays `0 … next-1` have been allocated -/
  next : Nat
  /-- arrays written, most recent first -/
  writes : List Nat

def Store.alloc (st : Store) : Nat × Store := (st.next, { st with next := st.next + 1 })
def Store.write (st : Store) (b : Nat) : Store := { st with writes := b :: st.writes }

/-- `Clone`: `make([]T, len(s.members))`, `copy` -/
def HSet.clone (s : HSet α) (st : Store) : HSet α × Store :=
  let (b, st) := st.alloc
  ({ set := s.set.clone, buf := b, cap := s.set.members.length }, st.write b)

/-- `CloneEmpty`: `make([]T, 0)` -/
def HSet.cloneEmpty (s : HSet α) (st : Store) : HSet α × Store :=
  let (b, st) := st.alloc
  ({ set := s.set.cloneEmpty, buf := b, cap := 0 }, st)

/-- `sorted.add` builds `append([]T{val}, s.members[low:]...)` in an array of its own first -/
def Store.tmpFor (st : Store) : Impl α → Store
  | .sorted _ => (st.alloc.2).write st.alloc.1
  | _ => st

/-- one round of `Add` -/
def HSet.add1 (grow : Nat → Nat) (t : HSet α) (v : α) (st : Store) : Outcome (HSet α × Store) := do
  let s' ← t.set.add1 v
  if s'.members.length = t.set.members.length then
    return ({ t with set := s' }, st) -- already a member: nothing is written
  else
    let st := st.tmpFor t.set.impl
    if s'.members.length ≤ t.cap then
      return ({ t with set := s' }, st.write t.buf)
    else
      let (b, st) := st.alloc
      return ({ set := s', buf := b, cap := grow s'.members.length }, st.write b)

/-- one round of `Remove` -/
def HSet.remove1 (t : HSet α) (v : α) (st : Store) : Outcome (HSet α × Store) := do
  let s' ← t.set.remove1 v
  if s'.members.length = t.set.members.length then return ({ t with set := s' }, st)
  else return ({ t with set := s' }, st.write t.buf)

def hAddEach (grow : Nat → Nat) (t : HSet α) : List α → Store → Outcome (HSet α × Store)
  | [], st => .ok (t, st)
  | m :: ms, st => do
    let (t, st) ← t.add1 grow m st
    hAddEach grow t ms st

def hRemoveEach (t : HSet α) : List α → Store → Outcome (HSet α × Store)
  | [], st => .ok (t, st)
  | m :: ms, st => do
    let (t, st) ← t.remove1 m st
    hRemoveEach t ms st

def hUnionLoop (sh : Shuffle σ) (grow : Nat → Nat) (t : HSet α) : List (HSet α) → σ → Store → Outcome (HSet α × σ × Store)
  | [], g, st => .ok (t, g, st)
  | u :: us, g, st => do
    let (ms, g) ← u.set.all sh g
    let (t, st) ← hAddEach grow t ms st
    hUnionLoop sh grow t us g st

def HSet.union (sh : Shuffle σ) (grow : Nat → Nat) (s : HSet α) (sets : List (HSet α)) (g : σ) (st : Store) :
    Outcome (HSet α × σ × Store) :=
  let (t, st) := s.clone st
  hUnionLoop sh grow t sets g st

def hInterLoop (grow : Nat → Nat) (sets : List (HSet α)) (t : HSet α) : List α → Store → Outcome (HSet α × Store)
  | [], st => .ok (t, st)
  | m :: ms, st => do
    if (← allContain m (sets.map (·.set))) then
      let (t, st) ← t.add1 grow m st
      hInterLoop grow sets t ms st
    else hInterLoop grow sets t ms st

def HSet.intersection (grow : Nat → Nat) (s : HSet α) (sets : List (HSet α)) (st : Store) : Outcome (HSet α × Store) :=
  let (t, st) := s.cloneEmpty st
  hInterLoop grow sets t s.set.members st

def hDiffLoop (sh : Shuffle σ) (t : HSet α) : List (HSet α) → σ → Store → Outcome (HSet α × σ × Store)
  | [], g, st => .ok (t, g, st)
  | u :: us, g, st => do
    let (ms, g) ← u.set.all sh g
    let (t, st) ← hRemoveEach t ms st
    hDiffLoop sh t us g st

def HSet.difference (sh : Shuffle σ) (s : HSet α) (sets : List (HSet α)) (g : σ) (st : Store) :
    Outcome (HSet α × σ × Store) :=
  let (t, st) := s.clone st
  hDiffLoop sh t sets g st

/-! ## the heap machine: set objects as Go has them — a slice header over a shared store of arrays

The functional Model and the slice-store section above cannot show what aliasing would do: their set
objects carry their members as a value.  Here a set object is a *slice header* (`buf`, `len`; the capacity is
the length of array `buf`) plus its callback, the members are whatever the store holds at `buf[0:len]`
(`Obj.view`), and every mutation is a write into the store as the three Go files code it:

* `make([]T, n)` (+ `copy`) — a new array (`Clone`, `CloneEmpty`, `New…`, `RemoveAll`);
* `append(s.members, v)`, `append(s.members[:low], append([]T{val}, s.members[low:]...)...)` — when
  `len+1 ≤ cap` the cells of the object's *own* array are overwritten (cells beyond the new length keep
  their old values), otherwise a new array with `grow` spare cells is allocated (`grow` is a parameter:
  Go's growth rule); `sorted.add` allocates the temporary array of its inner `append` first;
* `append(s.members[:i], s.members[i+1:]...)` — the tail is shifted down inside the object's own array (the
  last cell keeps its old value).

If two live objects shared an array, `Remove` on one would change what the other one holds — in this
machine too.  `Props/C16.lean` proves that this never happens: the machine keeps "distinct registers own
distinct arrays" and is observationally equal to the functional register machine `stepOp`, for every
history.  Reads (`find`, `Contains`, `Equal`, `All`, the match functions …) are the functional ones applied
to the current views. -/

namespace Hp

structure Heap (α : Type) where
  arrays : List (List α)

def Heap.size (H : Heap α) : Nat := H.arrays.length
def Heap.get (H : Heap α) (b : Nat) : List α := (H.arrays[b]?).getD []
def Heap.set (H : Heap α) (b : Nat) (arr : List α) : Heap α := ⟨H.arrays.set b arr⟩
/-- a new array; its identity is the next free index -/
def Heap.alloc (H : Heap α) (arr : List α) : Heap α × Nat := (⟨H.arrays ++ [arr]⟩, H.arrays.length)

/-- a set object: callback + slice header -/
structure Obj (α : Type) where
  impl : Impl α
  buf : Nat
  len : Nat

/-- `s.members` as the store has it now -/
def Obj.view (H : Heap α) (o : Obj α) : List α := (H.get o.buf).take o.len
/-- the set object as the functional Model sees it -/
def Obj.abs (H : Heap α) (o : Obj α) : MSet α := ⟨o.impl, o.view H⟩

/-- `make` (+ `copy`): a new object with an array of its own holding `m` and spare cells `pad` -/
def Obj.fresh (H : Heap α) (impl : Impl α) (m pad : List α) : Heap α × Obj α :=
  let r := H.alloc (m ++ pad)
  (r.1, ⟨impl, r.2, m.length⟩)

/-- the slice of `o` becomes `m'`: written over the object's own array when it fits (cells beyond `m'` keep
their values), otherwise into a new array with spare cells `pad` -/
def Obj.store (H : Heap α) (o : Obj α) (m' pad : List α) : Heap α × Obj α :=
  let arr := H.get o.buf
  if m'.length ≤ arr.length then (H.set o.buf (m' ++ arr.drop m'.length), { o with len := m'.length })
  else
    let r := H.alloc (m' ++ pad)
    (r.1, { o with buf := r.2, len := m'.length })

/-- one round of `Add` -/
def add1 (grow : Nat → Nat) (H : Heap α) (o : Obj α) (v : α) : Outcome (Heap α × Obj α) := do
  let s' ← (o.abs H).add1 v
  if s'.members.length = (o.view H).length then return (H, o) -- already a member
  else
    -- sorted.add: the inner append([]T{val}, s.members[low:]...) lives in an array of its own
    let H := match o.impl with
      | .sorted _ => (H.alloc [v]).1
      | _ => H
    return o.store H s'.members (List.replicate (grow s'.members.length) v)

/-- one round of `Remove` (the result is never longer, so it is always written in place) -/
def remove1 (H : Heap α) (o : Obj α) (v : α) : Outcome (Heap α × Obj α) := do
  let s' ← (o.abs H).remove1 v
  if s'.members.length = (o.view H).length then return (H, o) else return o.store H s'.members []

def add (grow : Nat → Nat) : Heap α → Obj α → List α → Outcome (Heap α × Obj α)
  | H, o, [] => .ok (H, o)
  | H, o, v :: vs => do
    let (H, o) ← add1 grow H o v
    add grow H o vs

def remove : Heap α → Obj α → List α → Outcome (Heap α × Obj α)
  | H, o, [] => .ok (H, o)
  | H, o, v :: vs => do
    let (H, o) ← remove1 H o v
    remove H o vs

/-- `RemoveAll`: `s.members = make([]T, 0)` -/
def removeAll (H : Heap α) (o : Obj α) : Heap α × Obj α := Obj.fresh H o.impl [] []
/-- `Clone`: `make([]T, len(s.members))`, `copy` -/
def clone (H : Heap α) (o : Obj α) : Heap α × Obj α := Obj.fresh H o.impl (o.view H) []
def cloneEmpty (H : Heap α) (o : Obj α) : Heap α × Obj α := Obj.fresh H o.impl [] []
def new (H : Heap α) (impl : Impl α) : Heap α × Obj α := Obj.fresh H impl [] []

/-- `for m := range set.All() { t.Add(m) }` -/
def addEach (grow : Nat → Nat) : Heap α → Obj α → List α → Outcome (Heap α × Obj α)
  | H, t, [] => .ok (H, t)
  | H, t, m :: ms => do
    let (H, t) ← add grow H t [m]
    addEach grow H t ms

def removeEach : Heap α → Obj α → List α → Outcome (Heap α × Obj α)
  | H, t, [] => .ok (H, t)
  | H, t, m :: ms => do
    let (H, t) ← remove H t [m]
    removeEach H t ms

/-- the operands are read from the store as it is when their turn comes -/
def unionLoop (sh : Shuffle σ) (grow : Nat → Nat) : Heap α → Obj α → List (Obj α) → σ → Outcome (Heap α × Obj α × σ)
  | H, t, [], g => .ok (H, t, g)
  | H, t, u :: us, g => do
    let (ms, g) ← (u.abs H).all sh g
    let (H, t) ← addEach grow H t ms
    unionLoop sh grow H t us g

def union (sh : Shuffle σ) (grow : Nat → Nat) (H : Heap α) (s : Obj α) (sets : List (Obj α)) (g : σ) :
    Outcome (Heap α × Obj α × σ) :=
  let r := clone H s
  unionLoop sh grow r.1 r.2 sets g

def diffLoop (sh : Shuffle σ) : Heap α → Obj α → List (Obj α) → σ → Outcome (Heap α × Obj α × σ)
  | H, t, [], g => .ok (H, t, g)
  | H, t, u :: us, g => do
    let (ms, g) ← (u.abs H).all sh g
    let (H, t) ← removeEach H t ms
    diffLoop sh H t us g

def difference (sh : Shuffle σ) (H : Heap α) (s : Obj α) (sets : List (Obj α)) (g : σ) :
    Outcome (Heap α × Obj α × σ) :=
  let r := clone H s
  diffLoop sh r.1 r.2 sets g

/-- `for _, m := range s.members { if isInAll { t.Add(m) } }` (`ms` is the receiver's slice, read once) -/
def interLoop (grow : Nat → Nat) (sets : List (Obj α)) : Heap α → Obj α → List α → Outcome (Heap α × Obj α)
  | H, t, [] => .ok (H, t)
  | H, t, m :: ms => do
    if (← allContain m (sets.map (Obj.abs H))) then
      let (H, t) ← add grow H t [m]
      interLoop grow sets H t ms
    else interLoop grow sets H t ms

def intersection (grow : Nat → Nat) (H : Heap α) (s : Obj α) (sets : List (Obj α)) : Outcome (Heap α × Obj α) :=
  let ms := s.view H
  let r := cloneEmpty H s
  interLoop grow sets r.1 r.2 ms

def selectLoop (grow : Nat → Nat) (p : α → Bool) : Heap α → Obj α → List α → Outcome (Heap α × Obj α)
  | H, t, [] => .ok (H, t)
  | H, t, m :: ms => do
    if p m then
      let (H, t) ← add grow H t [m]
      selectLoop grow p H t ms
    else selectLoop grow p H t ms

def selectMatch (grow : Nat → Nat) (H : Heap α) (s : Obj α) (p : α → Bool) : Outcome (Heap α × Obj α) :=
  let ms := s.view H
  let r := cloneEmpty H s
  selectLoop grow p r.1 r.2 ms

/-- `for _, m := range s.members { if p(m) { matched.Add(m) } else { unmatched.Add(m) } }` -/
def partitionLoop (grow : Nat → Nat) (p : α → Bool) : Heap α → Obj α → Obj α → List α → Outcome (Heap α × Obj α × Obj α)
  | H, t, u, [] => .ok (H, t, u)
  | H, t, u, m :: ms => do
    if p m then
      let (H, t) ← add grow H t [m]
      partitionLoop grow p H t u ms
    else
      let (H, u) ← add grow H u [m]
      partitionLoop grow p H t u ms

def partitionMatch (grow : Nat → Nat) (H : Heap α) (s : Obj α) (p : α → Bool) : Outcome (Heap α × Obj α × Obj α) :=
  let ms := s.view H
  let r₁ := cloneEmpty H s
  let r₂ := cloneEmpty r₁.1 s
  partitionLoop grow p r₂.1 r₁.2 r₂.2 ms

abbrev State (α σ : Type) := List (Obj α) × Heap α × σ

def getObjs (regs : List (Obj α)) : List Nat → Option (List (Obj α))
  | [] => some []
  | j :: js =>
    match regs[j]?, getObjs regs js with
    | some s, some ss => some (s :: ss)
    | _, _ => none

/-- one operation on the heap machine.  Operations that only read are the functional ones on the current
views; the others write the store as described above. -/
def stepOp (sh : Shuffle σ) (grow : Nat → Nat) (st : State α σ) : Op α → Outcome (State α σ × Obs α)
  | .add i vs =>
    match st.1[i]? with
    | none => .ok (st, .bad)
    | some o => do let (H, o) ← add grow st.2.1 o vs; return ((st.1.set i o, H, st.2.2), .unit)
  | .remove i vs =>
    match st.1[i]? with
    | none => .ok (st, .bad)
    | some o => do let (H, o) ← remove st.2.1 o vs; return ((st.1.set i o, H, st.2.2), .unit)
  | .removeAll i =>
    match st.1[i]? with
    | none => .ok (st, .bad)
    | some o => let r := removeAll st.2.1 o; .ok ((st.1.set i r.2, r.1, st.2.2), .unit)
  | .clone d i =>
    match st.1[i]? with
    | some o => if d < st.1.length then let r := clone st.2.1 o; .ok ((st.1.set d r.2, r.1, st.2.2), .unit)
                else .ok (st, .bad)
    | none => .ok (st, .bad)
  | .cloneEmpty d i =>
    match st.1[i]? with
    | some o => if d < st.1.length then let r := cloneEmpty st.2.1 o; .ok ((st.1.set d r.2, r.1, st.2.2), .unit)
                else .ok (st, .bad)
    | none => .ok (st, .bad)
  | .new d impl =>
    if d < st.1.length then let r := new st.2.1 impl; .ok ((st.1.set d r.2, r.1, st.2.2), .unit)
    else .ok (st, .bad)
  | .union d i js =>
    match st.1[i]?, getObjs st.1 js with
    | some s, some sets =>
      if d < st.1.length then do
        let (H, t, g) ← union sh grow st.2.1 s sets st.2.2
        return ((st.1.set d t, H, g), .elems (t.view H))
      else .ok (st, .bad)
    | _, _ => .ok (st, .bad)
  | .inter d i js =>
    match st.1[i]?, getObjs st.1 js with
    | some s, some sets =>
      if d < st.1.length then do
        let (H, t) ← intersection grow st.2.1 s sets
        return ((st.1.set d t, H, st.2.2), .elems (t.view H))
      else .ok (st, .bad)
    | _, _ => .ok (st, .bad)
  | .diff d i js =>
    match st.1[i]?, getObjs st.1 js with
    | some s, some sets =>
      if d < st.1.length then do
        let (H, t, g) ← difference sh st.2.1 s sets st.2.2
        return ((st.1.set d t, H, g), .elems (t.view H))
      else .ok (st, .bad)
    | _, _ => .ok (st, .bad)
  | .select d i p =>
    match st.1[i]? with
    | some s =>
      if d < st.1.length then do
        let (H, t) ← selectMatch grow st.2.1 s p
        return ((st.1.set d t, H, st.2.2), .elems (t.view H))
      else .ok (st, .bad)
    | none => .ok (st, .bad)
  | .partitionM d e i p =>
    match st.1[i]? with
    | some s =>
      if d < st.1.length ∧ e < st.1.length then do
        let (H, t, u) ← partitionMatch grow st.2.1 s p
        return (((st.1.set d t).set e u, H, st.2.2), .elems2 (t.view H) (u.view H))
      else .ok (st, .bad)
    | none => .ok (st, .bad)
  -- the operations that only read
  | op => do
    let (r, obs) ← C16.stepOp sh (st.1.map (Obj.abs st.2.1), st.2.2) op
    return ((st.1, st.2.1, r.2), obs)

def runOps (sh : Shuffle σ) (grow : Nat → Nat) : List (Op α) → State α σ → Outcome (State α σ × List (Obs α))
  | [], st => .ok (st, [])
  | op :: ops, st => do
    let (st, o) ← stepOp sh grow st op
    let (st, os) ← runOps sh grow ops st
    return (st, o :: os)

/-- freshly constructed sets: register `k` owns the empty array `k` -/
def initRegs : Nat → List (Impl α) → List (Obj α)
  | _, [] => []
  | k, impl :: rest => ⟨impl, k, 0⟩ :: initRegs (k + 1) rest

def initHeap (impls : List (Impl α)) : Heap α := ⟨impls.map fun _ => []⟩

end Hp

end AlgoVerif.C16
