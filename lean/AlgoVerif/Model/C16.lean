import AlgoVerif.Common
/-!
# Model of `set/set.go`, `set/stable.go`, `set/sorted.go`, `set/format.go`

Line-by-line transcription.  A set object is its implementation tag (with the callback it was
constructed with: `equal` for `set`/`stable`, `compare` for `sorted`) plus its `members` slice as a
`List`.  Callbacks return an `Outcome` (a Go callback may panic; `Set.Equal`, used as the callback of
a set of sets, goes through the binary search of `sorted`).

* Go `int` is `Int`; a slice expression or index outside its bounds is `Outcome.panic`.
* `for low <= high` (binary search) has fuel and returns `Outcome.diverge` when it runs out.
* `r.Shuffle` (package-level, clock-seeded `math/rand`) is a *parameter*: `sh n g` is the content of
  the `indices` slice after `r.Shuffle(n, swap)` together with the generator's next state.  Nothing is
  assumed about it here; theorems assume only that it returns a permutation of `0 … n-1`.
* `Powerset`/`Partitions` recurse on a freshly built `tail`; the recursion has fuel.
-/
namespace AlgoVerif.C16

abbrev EqualFunc (α : Type) := α → α → Outcome Bool
abbrev CompareFunc (α : Type) := α → α → Outcome Int
/-- `sh n g = (indices after r.Shuffle(n, …), next generator state)` -/
abbrev Shuffle (σ : Type) := Nat → σ → List Nat × σ

/-- the Go type behind a `Set[T]` interface value, with its callback field -/
inductive Impl (α : Type) where
  | unordered (equal : EqualFunc α)
  | stable (equal : EqualFunc α)
  | sorted (compare : CompareFunc α)

structure MSet (α : Type) where
  impl : Impl α
  members : List α

variable {α : Type} {σ : Type}

/-- `New` / `NewStable` / `NewSorted` without initial values -/
def MSet.new (impl : Impl α) : MSet α := { impl := impl, members := [] }

/-! ## find -/

/-- `set.find` / `stable.find`: `for i, m := range s.members { if s.equal(m, v) { return i } }; return -1` -/
def linFind (equal : EqualFunc α) (v : α) : List α → Int → Outcome Int
  | [], _ => .ok (-1)
  | m :: ms, i => do
    if (← equal m v) then return i else linFind equal v ms (i + 1)

/-- `sorted.find`: `for low <= high { mid := (low+high)/2; cmp := s.compare(v, s.members[mid]); … }` -/
def binFind (compare : CompareFunc α) (members : List α) (v : α) : Nat → Int → Int → Outcome Int
  | 0, _, _ => .diverge
  | fuel + 1, low, high =>
    if low ≤ high then
      let mid := (low + high).tdiv 2
      if 0 ≤ mid then
        match members[mid.toNat]? with
        | none => .panic
        | some m => do
          let cmp ← compare v m
          if cmp < 0 then binFind compare members v fuel low (mid - 1)
          else if cmp > 0 then binFind compare members v fuel (mid + 1) high
          else return mid
      else .panic
    else .ok (-1)

/-- the same loop inside `sorted.add`: `none` = "member already exists", `some low` = insert at `low` -/
def binAddPos (compare : CompareFunc α) (members : List α) (v : α) : Nat → Int → Int → Outcome (Option Int)
  | 0, _, _ => .diverge
  | fuel + 1, low, high =>
    if low ≤ high then
      let mid := (low + high).tdiv 2
      if 0 ≤ mid then
        match members[mid.toNat]? with
        | none => .panic
        | some m => do
          let cmp ← compare v m
          if cmp < 0 then binAddPos compare members v fuel low (mid - 1)
          else if cmp > 0 then binAddPos compare members v fuel (mid + 1) high
          else return none
      else .panic
    else .ok (some low)

def MSet.find (s : MSet α) (v : α) : Outcome Int :=
  match s.impl with
  | .unordered equal => linFind equal v s.members 0
  | .stable equal => linFind equal v s.members 0
  | .sorted compare => binFind compare s.members v (s.members.length + 1) 0 ((s.members.length : Int) - 1)

/-! ## Size, IsEmpty, Contains, Add, Remove, RemoveAll, Clone, CloneEmpty, String -/

def MSet.size (s : MSet α) : Int := s.members.length
def MSet.isEmpty (s : MSet α) : Bool := s.members.length == 0

/-- `for _, v := range vals { if s.find(v) == -1 { return false } }; return true` -/
def MSet.contains (s : MSet α) : List α → Outcome Bool
  | [] => .ok true
  | v :: vs => do
    if (← s.find v) = -1 then return false else s.contains vs

/-- one round of the `Add` loop -/
def MSet.add1 (s : MSet α) (v : α) : Outcome (MSet α) :=
  match s.impl with
  | .unordered _ | .stable _ => do
    -- if !s.Contains(v) { s.members = append(s.members, v) }
    if !(← s.contains [v]) then return { s with members := s.members ++ [v] } else return s
  | .sorted compare => do
    -- sorted.add
    match ← binAddPos compare s.members v (s.members.length + 1) 0 ((s.members.length : Int) - 1) with
    | none => return s
    | some low =>
      -- s.members = append(s.members[:low], append([]T{val}, s.members[low:]...)...)
      if 0 ≤ low ∧ low ≤ s.members.length then
        return { s with members := s.members.take low.toNat ++ v :: s.members.drop low.toNat }
      else .panic

def MSet.add (s : MSet α) : List α → Outcome (MSet α)
  | [] => .ok s
  | v :: vs => do
    let s ← s.add1 v
    s.add vs

/-- one round of the `Remove` loop:
`if i := s.find(v); i != -1 { s.members = append(s.members[:i], s.members[i+1:]...) }` -/
def MSet.remove1 (s : MSet α) (v : α) : Outcome (MSet α) := do
  let i ← s.find v
  if i ≠ -1 then
    if 0 ≤ i ∧ i + 1 ≤ s.members.length then
      return { s with members := s.members.take i.toNat ++ s.members.drop (i.toNat + 1) }
    else .panic
  else return s

def MSet.remove (s : MSet α) : List α → Outcome (MSet α)
  | [] => .ok s
  | v :: vs => do
    let s ← s.remove1 v
    s.remove vs

def MSet.removeAll (s : MSet α) : MSet α := { s with members := [] }

/-- `make([]T, len(s.members))` + `copy`: a value with the same contents and nothing shared -/
def MSet.clone (s : MSet α) : MSet α := { impl := s.impl, members := s.members }
def MSet.cloneEmpty (s : MSet α) : MSet α := { impl := s.impl, members := [] }

/-- `format.go`: `{%s}` around the `%v` of the members joined by `", "` (over `s.members` as stored) -/
def MSet.string (fmt : α → String) (s : MSet α) : String :=
  "{" ++ ", ".intercalate (s.members.map fmt) ++ "}"

/-! ## Equal, All, IsSubset, IsSuperset -/

/-- `for _, m := range s.members { if !rhs.Contains(m) { return false } }; return true` -/
def containsEach (rhs : MSet α) : List α → Outcome Bool
  | [] => .ok true
  | m :: ms => do
    if !(← rhs.contains [m]) then return false else containsEach rhs ms

def MSet.equal (s rhs : MSet α) : Outcome Bool :=
  if s.size ≠ rhs.size then .ok false else containsEach rhs s.members

/-- `members[i]` for every `i` of the shuffled index list -/
def pick (members : List α) : List Nat → Outcome (List α)
  | [] => .ok []
  | i :: is =>
    match members[i]? with
    | none => .panic
    | some m => do
      let rest ← pick members is
      return m :: rest

/-- what ranging over `s.All()` yields.  `set.All` shuffles an index list first;
`stable.All` and `sorted.All` yield `s.members` in order. -/
def MSet.all (sh : Shuffle σ) (s : MSet α) (g : σ) : Outcome (List α × σ) :=
  match s.impl with
  | .unordered _ => do
    let (indices, g) := sh s.members.length g
    let ms ← pick s.members indices
    return (ms, g)
  | .stable _ | .sorted _ => .ok (s.members, g)

/-- `for m := range s.All() { if !superset.Contains(m) { return false } }; return true` -/
def MSet.isSubset (sh : Shuffle σ) (s superset : MSet α) (g : σ) : Outcome (Bool × σ) := do
  let (ms, g) ← s.all sh g
  return (← containsEach superset ms, g)

def MSet.isSuperset (sh : Shuffle σ) (s subset : MSet α) (g : σ) : Outcome (Bool × σ) := do
  let (ms, g) ← subset.all sh g
  return (← containsEach s ms, g)

/-! ## Union, Intersection, Difference -/

/-- `for m := range set.All() { t.Add(m) }` -/
def addEach (t : MSet α) : List α → Outcome (MSet α)
  | [] => .ok t
  | m :: ms => do
    let t ← t.add [m]
    addEach t ms

/-- `for m := range set.All() { t.Remove(m) }` -/
def removeEach (t : MSet α) : List α → Outcome (MSet α)
  | [] => .ok t
  | m :: ms => do
    let t ← t.remove [m]
    removeEach t ms

def unionLoop (sh : Shuffle σ) (t : MSet α) : List (MSet α) → σ → Outcome (MSet α × σ)
  | [], g => .ok (t, g)
  | set :: sets, g => do
    let (ms, g) ← set.all sh g
    let t ← addEach t ms
    unionLoop sh t sets g

/-- `t := s.Clone(); for _, set := range sets { for m := range set.All() { t.Add(m) } }; return t` -/
def MSet.union (sh : Shuffle σ) (s : MSet α) (sets : List (MSet α)) (g : σ) : Outcome (MSet α × σ) :=
  unionLoop sh s.clone sets g

/-- `generic.AllMatch(sets, func(set) bool { return set.Contains(m) })` -/
def allContain (m : α) : List (MSet α) → Outcome Bool
  | [] => .ok true
  | set :: sets => do
    if !(← set.contains [m]) then return false else allContain m sets

def interLoop (sets : List (MSet α)) (t : MSet α) : List α → Outcome (MSet α)
  | [] => .ok t
  | m :: ms => do
    if (← allContain m sets) then
      let t ← t.add [m]
      interLoop sets t ms
    else interLoop sets t ms

/-- `t := s.CloneEmpty(); for _, m := range s.members { if isInAll { t.Add(m) } }; return t` -/
def MSet.intersection (s : MSet α) (sets : List (MSet α)) : Outcome (MSet α) :=
  interLoop sets s.cloneEmpty s.members

def diffLoop (sh : Shuffle σ) (t : MSet α) : List (MSet α) → σ → Outcome (MSet α × σ)
  | [], g => .ok (t, g)
  | set :: sets, g => do
    let (ms, g) ← set.all sh g
    let t ← removeEach t ms
    diffLoop sh t sets g

/-- `t := s.Clone(); for _, set := range sets { for m := range set.All() { t.Remove(m) } }; return t` -/
def MSet.difference (sh : Shuffle σ) (s : MSet α) (sets : List (MSet α)) (g : σ) : Outcome (MSet α × σ) :=
  diffLoop sh s.clone sets g

/-! ## Powerset -/

/-- `setEqFunc := func(a, b Set[T]) bool { return a.Equal(b) }` -/
def setEqFunc : EqualFunc (MSet α) := fun a b => a.equal b

/-- `for subset := range Powerset(tail).All() { PS.Add(subset); PS.Add(head.Union(subset)) }` -/
def powersetLoop (sh : Shuffle σ) (head : MSet α) (PS : MSet (MSet α)) :
    List (MSet α) → σ → Outcome (MSet (MSet α) × σ)
  | [], g => .ok (PS, g)
  | subset :: rest, g => do
    let PS ← PS.add [subset]
    let (u, g) ← head.union sh [subset] g
    let PS ← PS.add [u]
    powersetLoop sh head PS rest g

def powerset (sh : Shuffle σ) : Nat → MSet α → σ → Outcome (MSet (MSet α) × σ)
  | 0, _, _ => .diverge
  | fuel + 1, s, g => do
    let PS : MSet (MSet α) := MSet.new (.unordered setEqFunc)
    if s.size = 0 then
      let es := s.cloneEmpty
      let PS ← PS.add [es]
      return (PS, g)
    else
      let (members, g) ← s.all sh g
      let head := s.cloneEmpty
      let tail := s.cloneEmpty
      match members with
      | [] => .panic -- members[0]
      | m0 :: ms =>
        let head ← head.add [m0]
        let tail ← tail.add ms
        let (sub, g) ← powerset sh fuel tail g
        let (subsets, g) ← sub.all sh g
        powersetLoop sh head PS subsets g

/-- `Powerset(s)`; the recursion depth is `s.Size() + 1` -/
def MSet.powerset (sh : Shuffle σ) (s : MSet α) (g : σ) : Outcome (MSet (MSet α) × σ) :=
  C16.powerset sh (s.members.length + 1) s g

/-! ## Partitions -/

/-- `partEqFunc := func(a, b Set[Set[T]]) bool { return a.Equal(b) }` -/
def partEqFunc : EqualFunc (MSet (MSet α)) := fun a b => a.equal b

/-- `for i := range Pmembers { Q := New(setEqFunc); Q.Add(Pmembers[0:i]...);
Q.Add(head.Union(Pmembers[i])); Q.Add(Pmembers[i+1:]...); Ps.Add(Q) }`
(`before` = `Pmembers[0:i]`, the list argument = `Pmembers[i:]`) -/
def partitionsInner (sh : Shuffle σ) (head : MSet α) (Ps : MSet (MSet (MSet α))) (before : List (MSet α)) :
    List (MSet α) → σ → Outcome (MSet (MSet (MSet α)) × σ)
  | [], g => .ok (Ps, g)
  | b :: after, g => do
    let Q : MSet (MSet α) := MSet.new (.unordered setEqFunc)
    let Q ← Q.add before
    let (u, g) ← head.union sh [b] g
    let Q ← Q.add [u]
    let Q ← Q.add after
    let Ps ← Ps.add [Q]
    partitionsInner sh head Ps (before ++ [b]) after g

/-- `for P := range Partitions(tail).All() { … }` -/
def partitionsLoop (sh : Shuffle σ) (head : MSet α) (Ps : MSet (MSet (MSet α))) :
    List (MSet (MSet α)) → σ → Outcome (MSet (MSet (MSet α)) × σ)
  | [], g => .ok (Ps, g)
  | P :: rest, g => do
    let (Pmembers, g) ← P.all sh g
    let Q : MSet (MSet α) := MSet.new (.unordered setEqFunc)
    let Q ← Q.add [head.clone]
    let Q ← Q.add Pmembers
    let Ps ← Ps.add [Q]
    let (Ps, g) ← partitionsInner sh head Ps [] Pmembers g
    partitionsLoop sh head Ps rest g

def partitions (sh : Shuffle σ) : Nat → MSet α → σ → Outcome (MSet (MSet (MSet α)) × σ)
  | 0, _, _ => .diverge
  | fuel + 1, s, g => do
    let Ps : MSet (MSet (MSet α)) := MSet.new (.unordered partEqFunc)
    if s.size = 0 then
      let P : MSet (MSet α) := MSet.new (.unordered setEqFunc)
      let Ps ← Ps.add [P]
      return (Ps, g)
    else
      let (members, g) ← s.all sh g
      let head := s.cloneEmpty
      let tail := s.cloneEmpty
      match members with
      | [] => .panic -- members[0]
      | m0 :: ms =>
        let head ← head.add [m0]
        let tail ← tail.add ms
        let (sub, g) ← partitions sh fuel tail g
        let (parts, g) ← sub.all sh g
        partitionsLoop sh head Ps parts g

def MSet.partitions (sh : Shuffle σ) (s : MSet α) (g : σ) : Outcome (MSet (MSet (MSet α)) × σ) :=
  C16.partitions sh (s.members.length + 1) s g

end AlgoVerif.C16
