import AlgoVerif.Model.C08
/-!
# Histories over grammar objects (component `history` of C08)

The Go library hands out *objects*: `g.LeftFactor()` returns a new `*CFG`, which the caller keeps, queries, transforms
again and edits through `g.Productions.Add` / `Remove`, `g.NonTerminals.Add`, `g.Terminals.Add`.  A `*CFG` has four public
fields and nothing else, so what an object *is* at any moment is a value `G`, and the history semantics below is the pure
Model applied to values held in numbered slots:

* `apply i T j` puts `T (slot i)` into slot `j` (every other slot, the operand included, keeps its value; `clone` is the
  identity on values);
* the edits replace the value of one slot by the value with one production / name added or removed (sets: adding what is
  there and removing what is not change nothing).

The harness runs the same history on real objects that it keeps alive from op to op (`harness/c08/history.go`); any state
an object carries besides its four fields, and any sharing between an operand and a result, makes the two sides differ.
Core Lean only.
-/
namespace AlgoVerif.C08.Hist
open AlgoVerif AlgoVerif.Gram AlgoVerif.C08

/-- the pool of live objects: slot number ↦ value -/
abbrev Store := List (Nat × G)

def get (s : Store) (i : Nat) : Option G := s.lookup i

def set (s : Store) (i : Nat) (g : G) : Store := (i, g) :: s.filter (fun e => e.1 != i)

/-- the transformations `apply` knows: the ten of `applyOp` and `clone` -/
def transform (t : String) (g : G) : Option (Outcome G) :=
  if t = "clone" then some (.ok g) else if t = "id" then none else applyOp t g

/-- `g.Productions.Add(p)` -/
def addProd (g : G) (p : SProd) : G := { g with prods := ins g.prods p }

/-- `g.Productions.Remove(p)` -/
def rmProd (g : G) (p : SProd) : G := { g with prods := g.prods.filter (fun q => q != p) }

/-- `g.NonTerminals.Add(n)` -/
def addNT (g : G) (n : String) : G := { g with nonterms := ins g.nonterms n }

/-- `g.Terminals.Add(t)` -/
def addTerm (g : G) (t : String) : G := { g with terms := ins g.terms t }

inductive Op where
  | apply (i : Nat) (t : String) (j : Nat)
  | addProd (i : Nat) (p : SProd)
  | rmProd (i : Nat) (p : SProd)
  | addNT (i : Nat) (n : String)
  | addTerm (i : Nat) (t : String)

/-- the one slot an op writes -/
def Op.target : Op → Nat
  | .apply _ _ j => j
  | .addProd i _ => i
  | .rmProd i _ => i
  | .addNT i _ => i
  | .addTerm i _ => i

/-- one op; `none`: the slot is empty or the transformation name is unknown (the driver answers `ok undefined` /
`bad-op` and the store is unchanged) -/
def step (s : Store) : Op → Option (Outcome Store)
  | .apply i t j =>
    match get s i with
    | none => none
    | some g =>
      match transform t g with
      | none => none
      | some (.ok g') => some (.ok (set s j g'))
      | some .panic => some .panic
      | some .diverge => some .diverge
  | .addProd i p => (get s i).map fun g => .ok (set s i (addProd g p))
  | .rmProd i p => (get s i).map fun g => .ok (set s i (rmProd g p))
  | .addNT i n => (get s i).map fun g => .ok (set s i (addNT g n))
  | .addTerm i t => (get s i).map fun g => .ok (set s i (addTerm g t))

end AlgoVerif.C08.Hist
