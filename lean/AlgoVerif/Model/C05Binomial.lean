import AlgoVerif.Model.C05
/-!
# Model of `heap/indexed_binomial.go`

Representation.  A Go node `*indexedBinomialNode` has an identity (its address) and two kinds of fields:

* the *contents* `index, key, val`, which `swap` exchanges between a child and its parent, and
* the *links* `order, parent, child, sibling`, which `merge/consolidate/link/childrenToRootList` rewire.

The Model names a node by its allocation number `id` (0, 1, 2, … in the order `Insert` executed
`&indexedBinomialNode{…}`), keeps the contents in the table `cells : Array (Cell K V)` indexed by `id`,
and the links as the left-child/right-sibling tree `BT` the Go comment describes — `BT.node id order child
sibling`, `BT.nil` for a nil pointer.  `head` is the root list.  The `parent` pointer is the structural
parent in that tree (Go sets it in `link` and clears it in `childrenToRootList`, which are exactly the
places where the structural parent changes; the `dump` correspondence prints Go's real `parent.index` next
to every node).  `nodes []*indexedBinomialNode` is `Array (Option Nat)` (node ids).

Consequences: everything that in Go follows a pointer *out of `nodes[]`* (`n := h.nodes[i]`) becomes a lookup
of that id in the forest; an id that is not in the forest (in Go: a pointer to a node that was unlinked,
i.e. a dangling `nodes[]` entry, which Go would happily keep using) is `Outcome.panic` in the Model, as are
out-of-range `nodes[]`/`cells[]` accesses.  `C05_ibinomial_partial` proves that no reachable state has a
dangling or wrong `nodes[]` entry.

`merge` (recursive in Go) and `demote` take fuel (`demote` descends one level per iteration, its fuel is the
size of the subtree below `n`); `promote`, `findExt`, `consolidate`,
`childrenToRootList` and the root-list scans are structural recursions (each Go iteration moves one step
along a finite list).
-/
namespace AlgoVerif.C05

/-- links of the nodes: left-child / right-sibling tree of node ids -/
inductive BT where
  | nil
  | node (id : Nat) (order : Int) (child sibling : BT)
  deriving Repr, DecidableEq, Inhabited

/-- contents of a node -/
structure Cell (K V : Type) where
  index : Nat
  key : K
  val : V

namespace BT

/-- all node ids, pre-order (node, child chain, sibling chain) -/
def ids : BT → List Nat
  | nil => []
  | node id _ c s => id :: (ids c ++ ids s)

/-- ids along the sibling chain only -/
def chainIds : BT → List Nat
  | nil => []
  | node id _ _ s => id :: chainIds s

def size : BT → Nat
  | nil => 0
  | node _ _ c s => size c + size s + 1

/-- `some [parent, grandparent, …, tree root]` of the node `target`, `none` if it is not in the forest;
`par` = ancestors of the chain being scanned -/
def ancestors (target : Nat) : BT → List Nat → Option (List Nat)
  | nil, _ => none
  | node id _ c s, par =>
    if id = target then some par
    else
      match ancestors target c (id :: par) with
      | some r => some r
      | none => ancestors target s par

/-- the child chain (`n.child`) of node `target` -/
def childrenOf (target : Nat) : BT → Option BT
  | nil => none
  | node id _ c s =>
    if id = target then some c
    else
      match childrenOf target c with
      | some r => some r
      | none => childrenOf target s

/-- `x.child` for the node `x = target` of a sibling chain -/
def chainChild (target : Nat) : BT → Option BT
  | nil => none
  | node id _ c s => if id = target then some c else chainChild target s

/-- unlink the root `target` from a root list: `(remaining root list, target.child)`;
Go: the `prev/curr` scan followed by `prev.sibling = curr.sibling` (or `h.head = curr.sibling`) -/
def removeRoot (target : Nat) : BT → Option (BT × BT)
  | nil => none
  | node id o c s =>
    if id = target then some (s, c)
    else
      match removeRoot target s with
      | some (s', ch) => some (node id o c s', ch)
      | none => none

/-- `childrenToRootList`: reverse the sibling chain (clearing `parent`, which is implicit here) -/
def revChain : BT → BT → BT
  | nil, acc => acc
  | node id o c s, acc => revChain s (node id o c acc)

/-- `merge(h1, h2)` -/
def merge : Nat → BT → BT → Outcome BT
  | 0, _, _ => .diverge
  | _ + 1, nil, h2 => .ok h2
  | _ + 1, h1, nil => .ok h1
  | fuel + 1, node i1 o1 c1 s1, node i2 o2 c2 s2 =>
    if o1 < o2 then
      match merge fuel s1 (node i2 o2 c2 s2) with
      | .ok r => .ok (node i1 o1 c1 r)
      | .panic => .panic
      | .diverge => .diverge
    else
      match merge fuel (node i1 o1 c1 s1) s2 with
      | .ok r => .ok (node i2 o2 c2 r)
      | .panic => .panic
      | .diverge => .diverge

/-- `n != nil && n.order == o` -/
def headOrderIs (o : Int) : BT → Bool
  | nil => false
  | node _ so _ _ => so == o

def chainLen : BT → Nat
  | nil => 0
  | node _ _ _ s => chainLen s + 1

end BT

/-- `for i := range h.nodes { if h.nodes[i] != nil && p(h.nodes[i]) { return true } }; return false`
(shared by the binomial and the Fibonacci Model) -/
def anyCell {K V : Type} (cells : Array (Cell K V)) (p : Cell K V → Bool) : List (Option Nat) → Outcome Bool
  | [] => .ok false
  | none :: rest => anyCell cells p rest
  | some id :: rest =>
    match cells[id]? with
    | some c => if p c then .ok true else anyCell cells p rest
    | none => .panic

structure IBinomial (K V : Type) where
  n : Int
  head : BT
  nodes : Array (Option Nat)
  cells : Array (Cell K V)

namespace IBinomial
variable {K V : Type}

def new (cap : Nat) : IBinomial K V :=
  { n := 0, head := .nil, nodes := Array.replicate cap none, cells := #[] }

def cellOf (h : IBinomial K V) (id : Nat) : Outcome (Cell K V) :=
  match h.cells[id]? with
  | some c => .ok c
  | none => .panic

def keyOf (h : IBinomial K V) (id : Nat) : Outcome K :=
  match h.cells[id]? with
  | some c => .ok c.key
  | none => .panic

/-- `swap(child, parent)`: exchange index/key/val, then
`h.nodes[child.index], h.nodes[parent.index] = h.nodes[parent.index], h.nodes[child.index]` -/
def swap (h : IBinomial K V) (c p : Nat) : Outcome (IBinomial K V) :=
  match h.cells[c]?, h.cells[p]? with
  | some cc, some pc =>
    let cells := (h.cells.setIfInBounds c pc).setIfInBounds p cc
    -- now child.index = pc.index and parent.index = cc.index
    let ci := pc.index
    let pi := cc.index
    match h.nodes[pi]?, h.nodes[ci]? with
    | some a, some b => .ok { h with cells := cells, nodes := (h.nodes.setIfInBounds ci a).setIfInBounds pi b }
    | _, _ => .panic
  | _, _ => .panic

/-- `for n.parent != nil && cmpKey(n.parent.key, n.key) > 0 { swap(n, n.parent); n = n.parent }`,
`anc` = the parent chain of `n` -/
def promoteLoop (cmp : K → K → Int) (h : IBinomial K V) (n : Nat) : List Nat → Outcome (IBinomial K V)
  | [] => .ok h
  | p :: ps =>
    match h.keyOf p, h.keyOf n with
    | .ok kp, .ok kn =>
      if 0 < cmp kp kn then
        match h.swap n p with
        | .ok h' => promoteLoop cmp h' p ps
        | .panic => .panic
        | .diverge => .diverge
      else .ok h
    | _, _ => .panic

def promote (cmp : K → K → Int) (h : IBinomial K V) (n : Nat) : Outcome (IBinomial K V) :=
  match h.head.ancestors n [] with
  | some anc => promoteLoop cmp h n anc
  | none => .panic

/-- the loop of `findExt` over the rest of a sibling chain, `ext` = best so far -/
def findExtLoop (cmp : K → K → Int) (h : IBinomial K V) (ext : Nat) : List Nat → Outcome Nat
  | [] => .ok ext
  | s :: rest =>
    match h.keyOf s, h.keyOf ext with
    | .ok ks, .ok ke => if cmp ks ke < 0 then findExtLoop cmp h s rest else findExtLoop cmp h ext rest
    | _, _ => .panic

/-- `findExt(n)` on the sibling chain with ids `chain`; `none` = nil -/
def findExt (cmp : K → K → Int) (h : IBinomial K V) : List Nat → Outcome (Option Nat)
  | [] => .ok none
  | a :: rest =>
    match findExtLoop cmp h a rest with
    | .ok e => .ok (some e)
    | .panic => .panic
    | .diverge => .diverge

/-- `demote(n)`; `ch` is `n.child` (the loop follows `child.child` of the child `findExt` picked) -/
def demote (cmp : K → K → Int) : Nat → IBinomial K V → Nat → BT → Outcome (IBinomial K V)
  | 0, _, _, _ => .diverge
  | fuel + 1, h, n, ch =>
    match findExt cmp h ch.chainIds with
    | .ok none => .ok h
    | .ok (some c) =>
      match h.keyOf c, h.keyOf n with
      | .ok kc, .ok kn =>
        if cmp kc kn < 0 then
          match h.swap c n with
          | .ok h' =>
            match ch.chainChild c with
            | some ch' => demote cmp fuel h' c ch'
            | none => .panic
          | .panic => .panic
          | .diverge => .diverge
        else .ok h
      | _, _ => .panic
    | .panic => .panic
    | .diverge => .diverge

/-- the scan of `consolidate`; `curr` is given by its fields `(cid, co, cc)` (its sibling is the argument),
what has been passed (`prev` and before) is rebuilt on the way back -/
def consolidateLoop (cmp : K → K → Int) (h : IBinomial K V) (cid : Nat) (co : Int) (cc : BT) :
    BT → Outcome BT
  | .nil => .ok (.node cid co cc .nil)
  | .node nid no nc ns =>
    if co ≠ no ∨ ns.headOrderIs co = true then
      -- cases 1 and 2: prev, curr = curr, next
      match consolidateLoop cmp h nid no nc ns with
      | .ok r => .ok (.node cid co cc r)
      | .panic => .panic
      | .diverge => .diverge
    else
      match h.keyOf nid, h.keyOf cid with
      | .ok kn, .ok kc =>
        if 0 < cmp kn kc then
          -- case 3: curr.sibling = next.sibling; link(next, curr)
          consolidateLoop cmp h cid (co + 1) (.node nid no nc cc) ns
        else
          -- case 4: prev.sibling (or head) = next; link(curr, next); curr = next
          consolidateLoop cmp h nid (no + 1) (.node cid co cc nc) ns
      | _, _ => .panic

def consolidate (cmp : K → K → Int) (h : IBinomial K V) : BT → Outcome BT
  | .nil => .ok .nil
  | .node id o c s => consolidateLoop cmp h id o c s

/-- `union(h1, h2)` -/
def union (cmp : K → K → Int) (h : IBinomial K V) (h1 h2 : BT) : Outcome BT :=
  match BT.merge (h1.chainLen + h2.chainLen + 1) h1 h2 with
  | .ok m => consolidate cmp h m
  | .panic => .panic
  | .diverge => .diverge

/-- `0 <= i && i < len(h.nodes) && h.nodes[i] != nil` -/
def containsIndex (h : IBinomial K V) (i : Int) : Bool :=
  if 0 ≤ i ∧ i < (h.nodes.size : Int) then
    match h.nodes[i.toNat]? with
    | some (some _) => true
    | _ => false
  else false

def insert (cmp : K → K → Int) (h : IBinomial K V) (i : Int) (key : K) (val : V) :
    Outcome (IBinomial K V × Bool) :=
  if i < 0 ∨ i ≥ (h.nodes.size : Int) ∨ h.containsIndex i = true then .ok (h, false)
  else
    let i := i.toNat
    let id := h.cells.size
    let h1 : IBinomial K V := { h with cells := h.cells.push { index := i, key := key, val := val } }
    match union cmp h1 h1.head (.node id 0 .nil .nil) with
    | .ok hd =>
      if i < h1.nodes.size then
        .ok ({ h1 with head := hd, nodes := h1.nodes.setIfInBounds i (some id), n := h1.n + 1 }, true)
      else .panic
    | .panic => .panic
    | .diverge => .diverge

def changeKey (cmp : K → K → Int) (h : IBinomial K V) (i : Int) (key : K) :
    Outcome (IBinomial K V × Bool) :=
  if h.containsIndex i = false then .ok (h, false)
  else
    match h.nodes[i.toNat]? with
    | some (some id) =>
      match h.cells[id]? with
      | some c =>
        let h1 : IBinomial K V := { h with cells := h.cells.setIfInBounds id { c with key := key } }
        match promote cmp h1 id with
        | .ok h2 =>
          -- `n` still names the same node; its contents may have moved up
          match h2.head.childrenOf id with
          | none => .panic
          | some ch =>
            match demote cmp (ch.size + 1) h2 id ch with
            | .ok h3 => .ok (h3, true)
            | .panic => .panic
            | .diverge => .diverge
        | .panic => .panic
        | .diverge => .diverge
      | none => .panic
    | _ => .panic

/-- common tail of `Delete`/`DeleteIndex` once the root `r` to remove is known -/
def removeAndUnion (cmp : K → K → Int) (h : IBinomial K V) (r : Nat) :
    Outcome (IBinomial K V × Cell K V) :=
  match h.head.removeRoot r with
  | none => .panic
  | some (rest, ch) =>
    let hd := BT.revChain ch .nil
    match union cmp h rest hd with
    | .ok head' =>
      match h.cells[r]? with
      | some c =>
        if c.index < h.nodes.size then
          .ok ({ h with head := head', nodes := h.nodes.setIfInBounds c.index none, n := h.n - 1 }, c)
        else .panic
      | none => .panic
    | .panic => .panic
    | .diverge => .diverge

def delete (cmp : K → K → Int) (h : IBinomial K V) : Outcome (IBinomial K V × Option (Int × K × V)) :=
  match findExt cmp h h.head.chainIds with
  | .ok none => .ok (h, none)          -- IsEmpty: h.head == nil
  | .ok (some e) =>
    match removeAndUnion cmp h e with
    | .ok (h', c) => .ok (h', some ((c.index : Int), c.key, c.val))
    | .panic => .panic
    | .diverge => .diverge
  | .panic => .panic
  | .diverge => .diverge

/-- `for n = h.nodes[i]; n.parent != nil; n = n.parent { swap(n, n.parent) }`; returns the final `n` -/
def bubbleUp (h : IBinomial K V) (n : Nat) : List Nat → Outcome (IBinomial K V × Nat)
  | [] => .ok (h, n)
  | p :: ps =>
    match h.swap n p with
    | .ok h' => bubbleUp h' p ps
    | .panic => .panic
    | .diverge => .diverge

def deleteIndex (cmp : K → K → Int) (h : IBinomial K V) (i : Int) :
    Outcome (IBinomial K V × Option (K × V)) :=
  if h.containsIndex i = false then .ok (h, none)
  else
    match h.nodes[i.toNat]? with
    | some (some id) =>
      match h.head.ancestors id [] with
      | none => .panic
      | some anc =>
        match bubbleUp h id anc with
        | .ok (h1, r) =>
          match removeAndUnion cmp h1 r with
          | .ok (h2, c) => .ok (h2, some (c.key, c.val))
          | .panic => .panic
          | .diverge => .diverge
        | .panic => .panic
        | .diverge => .diverge
    | _ => .panic

def deleteAll (h : IBinomial K V) : IBinomial K V :=
  { h with n := 0, head := .nil, nodes := Array.replicate h.nodes.size none }

def peek (cmp : K → K → Int) (h : IBinomial K V) : Outcome (Option (Int × K × V)) :=
  match findExt cmp h h.head.chainIds with
  | .ok none => .ok none
  | .ok (some e) =>
    match h.cells[e]? with
    | some c => .ok (some ((c.index : Int), c.key, c.val))
    | none => .panic
  | .panic => .panic
  | .diverge => .diverge

def peekIndex (h : IBinomial K V) (i : Int) : Outcome (Option (K × V)) :=
  if h.containsIndex i = false then .ok none
  else
    match h.nodes[i.toNat]? with
    | some (some id) =>
      match h.cells[id]? with
      | some c => .ok (some (c.key, c.val))
      | none => .panic
    | _ => .panic

def containsKey (cmp : K → K → Int) (h : IBinomial K V) (key : K) : Outcome Bool :=
  anyCell h.cells (fun c => cmp c.key key == 0) h.nodes.toList

def containsValue (eq : V → V → Bool) (h : IBinomial K V) (val : V) : Outcome Bool :=
  anyCell h.cells (fun c => eq c.val val) h.nodes.toList

def isEmpty (h : IBinomial K V) : Bool :=
  match h.head with
  | .nil => true
  | _ => false

def step (cmp : K → K → Int) (eq : V → V → Bool) (h : IBinomial K V) :
    Op K V → Outcome (IBinomial K V × Res K V)
  | .insert i k v => (h.insert cmp i k v).map fun (h', b) => (h', .bool b)
  | .changeKey i k => (h.changeKey cmp i k).map fun (h', b) => (h', .bool b)
  | .delete => (h.delete cmp).map fun (h', r) => (h', .ikv r)
  | .deleteIndex i => (h.deleteIndex cmp i).map fun (h', r) => (h', .kv r)
  | .deleteAll => .ok (h.deleteAll, .unit)
  | .peek => (h.peek cmp).map fun r => (h, .ikv r)
  | .peekIndex i => (h.peekIndex i).map fun r => (h, .kv r)
  | .containsIndex i => .ok (h, .bool (h.containsIndex i))
  | .containsKey k => (h.containsKey cmp k).map fun b => (h, .bool b)
  | .containsValue v => (h.containsValue eq v).map fun b => (h, .bool b)
  | .size => .ok (h, .int h.n)
  | .isEmpty => .ok (h, .bool h.isEmpty)

def run (cmp : K → K → Int) (eq : V → V → Bool) (cap : Nat) (ops : List (Op K V)) :
    List (Outcome (Res K V)) :=
  runWith (step cmp eq) (new cap) ops

end IBinomial
end AlgoVerif.C05
