import AlgoVerif.Model.C11Core
/-!
# C11 — Model, part 2: LR(0)/LR(1) items, automata, state numbering and the three table constructions

Mirrors (of /repo, after the `fix:` patches for D17/D18):

* `parser/lr/grammar.go`                 — `augment`
* `parser/lr/item.go`                    — `Item0`, `Item1` (one structure, `la = none` for LR(0)), `Compare`, `cmpItemSet`
* `parser/lr/automaton.go`               — `calculator0/1.CLOSURE`, `automaton.{GOTO,Canonical}`, `kernelAutomaton.{GOTO,Canonical}`
* `parser/lr/state.go`                   — `BuildStateMap`, `FindItemSet`, `FindItem`
* `parser/lr/simple/parsing_table.go`    — SLR(1) table
* `parser/lr/canonical/parsing_table.go` — canonical LR(1) table
* `parser/lr/lookahead/parsing_table.go` — `ComputeLALR1Kernels`, `findSuperset` (same core ∧ superset), LALR(1) table

Item sets, collections and table cells are unordered sets in Go (iteration order is shuffled); here they are
duplicate-free lists and every function's *result as a set* is independent of the order (the only place where
the iteration order can matter, the "maximum" loop of `resolveConflict`, takes the order as its argument —
see `C11Core`).  The "repeat until nothing new" loops carry fuel and yield `Outcome.diverge` when it runs out.

nullable / FIRST / FOLLOW are *called* by the Go code (package `grammar`, property C10); this file has its own
compact least-fixpoint versions of them (`nullableOf`, `firstEnv`, `followEnv`).

Core Lean only.
-/
namespace AlgoVerif.C11
open AlgoVerif AlgoVerif.Gram

/-! ## small list-as-set helpers -/

def addNew {α} [DecidableEq α] (l : List α) (x : α) : List α := if x ∈ l then l else l ++ [x]

def unionNew {α} [DecidableEq α] (l add : List α) : List α := add.foldl addNew l

def subsetOf {α} [DecidableEq α] (a b : List α) : Bool := a.all (fun x => decide (x ∈ b))

def sameSet {α} [DecidableEq α] (a b : List α) : Bool := subsetOf a b && subsetOf b a

/-- insertion sort by a three-way comparison (`sort.Quick` with a comparison that is a strict total order on the
elements it is given: the result is the same for every sorting algorithm) -/
def insertBy {α} (cmp : α → α → Int) (x : α) : List α → List α
  | [] => [x]
  | y :: ys => if cmp x y ≤ 0 then x :: y :: ys else y :: insertBy cmp x ys

def sortBy {α} (cmp : α → α → Int) (l : List α) : List α := l.foldl (fun acc x => insertBy cmp x acc) []

/-! ## `augment` -/

/-- regenerated from parser/lr/grammar.go by `bin/pre-C11` -/
def primeSuffixes : List String := AlgoVerif.Generated.C11.lr_primeSuffixes

/-- `strings.TrimSuffix` (on valid UTF-8 a byte suffix that is itself a string is a character suffix) -/
def trimSuffix (s suf : String) : String :=
  let cs := s.toList
  let xs := suf.toList
  if xs.isSuffixOf cs then String.ofList (cs.take (cs.length - xs.length)) else s

/-- "Use the base prefix without any previously applied suffix": the suffixes are trimmed one after the other, in the
order of the list, each at most once (`S′` ↦ `S`, `S′″` ↦ `S′`, `S″′` ↦ `S`; see `AddNewNonTerminal`) -/
def augBase (g : SGrammar) : String := primeSuffixes.foldl trimSuffix g.start

/-- `AddNewNonTerminal(G.Start, primeSuffixes...)`: the first of `base′ base″ base‴ base⁗` that is not yet a
non-terminal, `base` being the start symbol without the suffixes it already ends in -/
def augStart (g : SGrammar) : Option String :=
  (primeSuffixes.map (augBase g ++ ·)).find? (fun n => !(n ∈ g.nonterms))

def dedupProds (ps : List Pr) : List Pr := ps.foldl addNew []

/-- the augmented grammar `G′` (`panic`: every primed name is taken) -/
def augment (g : SGrammar) : Outcome SGrammar :=
  match augStart g with
  | none => .panic
  | some s' =>
    .ok { terms := addNew g.terms endmarker, nonterms := g.nonterms ++ [s'],
          prods := dedupProds g.prods ++ [{ head := s', body := [Sym.nonterm g.start] }], start := s' }

def prodsOf (g : SGrammar) (n : String) : List Pr := g.prods.filter (fun p => p.head = n)

/-! ## nullable, FIRST, FOLLOW (least fixpoints; these belong to package `grammar`) -/

def symNullable (nl : List String) : Sy → Bool
  | .term _ => false
  | .nonterm n => decide (n ∈ nl)

def nullableStep (ps : List Pr) (nl : List String) : List String :=
  ps.foldl (fun acc p => if p.body.all (symNullable acc) then addNew acc p.head else acc) nl

def nullableFix (ps : List Pr) : Nat → List String → List String
  | 0, nl => nl
  | fuel + 1, nl =>
    let nl' := nullableStep ps nl
    if nl'.length = nl.length then nl else nullableFix ps fuel nl'

def nullableOf (g : SGrammar) : List String := nullableFix g.prods (g.nonterms.length + 1) []

abbrev Env := List (String × List String)

def envGet (env : Env) (n : String) : List String := (env.lookup n).getD []

def envSize (env : Env) : Nat := env.foldl (fun a p => a + p.2.length) 0

/-- FIRST of a string of symbols, terminals only (ε is `bodyNullable`) -/
def firstOfStr (nl : List String) (env : Env) : List Sy → List String
  | [] => []
  | .term t :: _ => [t]
  | .nonterm n :: rest =>
    if n ∈ nl then unionNew (envGet env n) (firstOfStr nl env rest) else envGet env n

def firstStep (g : SGrammar) (nl : List String) (env : Env) : Env :=
  g.nonterms.map fun n =>
    (n, (prodsOf g n).foldl (fun acc p => unionNew acc (firstOfStr nl env p.body)) (envGet env n))

def envFix (f : Env → Env) : Nat → Env → Env
  | 0, env => env
  | fuel + 1, env =>
    let env' := f env
    if envSize env' = envSize env then env else envFix f fuel env'

def firstEnv (g : SGrammar) (nl : List String) : Env :=
  envFix (firstStep g nl) (g.nonterms.length * (g.terms.length + 1) + 1) (g.nonterms.map fun n => (n, []))

/-- contributions of one production `A → X₁…Xₙ` to the FOLLOW sets -/
def followProd (nl : List String) (fe : Env) (env : Env) (head : String) : List Sy → Env → Env
  | [], acc => acc
  | .term _ :: rest, acc => followProd nl fe env head rest acc
  | .nonterm b :: rest, acc =>
    let add := firstOfStr nl fe rest
    let add := if rest.all (symNullable nl) then unionNew add (envGet env head) else add
    let acc := acc.map fun (n, s) => if n = b then (n, unionNew s add) else (n, s)
    followProd nl fe env head rest acc

def followStep (g : SGrammar) (nl : List String) (fe : Env) (env : Env) : Env :=
  g.prods.foldl (fun acc p => followProd nl fe env p.head p.body acc) env

/-- FOLLOW of the (augmented) grammar; the endmarker stands for `IncludesEndmarker` -/
def followEnv (g : SGrammar) (nl : List String) (fe : Env) : Env :=
  envFix (followStep g nl fe) (g.nonterms.length * (g.terms.length + 2) + 1)
    (g.nonterms.map fun n => (n, if n = g.start then [endmarker] else []))

/-! ## items -/

structure Item where
  prod : Pr
  dot : Nat
  la : Option String        -- `none`: an LR(0) item (`Item0`); `some a`: an LR(1) item (`Item1`)
  deriving DecidableEq, Repr

def Item.dotSym (i : Item) : Option Sy := i.prod.body[i.dot]?

def Item.isComplete (i : Item) : Bool := i.dot == i.prod.body.length

def Item.next (i : Item) : Item := { i with dot := i.dot + 1 }

def Item.core (i : Item) : Item := { i with la := none }

def laIsEnd : Option String → Bool
  | none => true
  | some a => a == endmarker

def Item.isInitial (start : String) (i : Item) : Bool := i.prod.head == start && i.dot == 0 && laIsEnd i.la

def Item.isKernel (start : String) (i : Item) : Bool := i.isInitial start || i.dot > 0

def Item.isFinal (start : String) (i : Item) : Bool := i.prod.head == start && i.isComplete && laIsEnd i.la

/-! ### the orderings (`Compare`, `grammar.CmpProduction`, `grammar.CmpString`, `cmpItemSet`) -/

def cmpStr (a b : String) : Int := if a < b then -1 else if b < a then 1 else 0

/-- `Symbol.String()`: terminals are printed with `%q`, the endmarker as `$` -/
def symGoString : Sy → String
  | .term t => if t = endmarker then "$" else "\"" ++ t ++ "\""
  | .nonterm n => n

def bodyGoString (b : List Sy) : String :=
  if b.isEmpty then "ε" else " ".intercalate (b.map symGoString)

def countTerms (b : List Sy) : Nat := (b.filter isTermSym).length

def countNonterms (b : List Sy) : Nat := (b.filter (fun s => !isTermSym s)).length

/-- `grammar.CmpString` -/
def cmpBody (a b : List Sy) : Int :=
  if countNonterms a > countNonterms b then -1
  else if countNonterms b > countNonterms a then 1
  else if countTerms a > countTerms b then -1
  else if countTerms b > countTerms a then 1
  else cmpStr (bodyGoString a) (bodyGoString b)

/-- `grammar.CmpProduction` -/
def cmpProd (p q : Pr) : Int :=
  let c := cmpStr p.head q.head
  if c < 0 then -1 else if c > 0 then 1 else cmpBody p.body q.body

def cmpLa : Option String → Option String → Int
  | some a, some b => cmpStr a b
  | _, _ => 0

/-- `Item0.Compare` / `Item1.Compare` -/
def cmpItem (start : String) (i j : Item) : Int :=
  if i.isInitial start && !j.isInitial start then -1
  else if !i.isInitial start && j.isInitial start then 1
  else if i.isKernel start && !j.isKernel start then -1
  else if !i.isKernel start && j.isKernel start then 1
  else if i.prod.head == start && !(j.prod.head == start) then -1
  else if !(i.prod.head == start) && j.prod.head == start then 1
  else if i.dot > j.dot then -1
  else if i.dot < j.dot then 1
  else
    let c := cmpProd i.prod j.prod
    if c < 0 then -1 else if c > 0 then 1 else cmpLa i.la j.la

/-- `cmpItemSet` on item lists that are already sorted by `cmpItem`; the longer list first on a tie -/
def cmpItemLists (start : String) : List Item → List Item → Int
  | [], [] => 0
  | [], _ :: _ => 1        -- len(rs) - len(ls) > 0
  | _ :: _, [] => -1
  | a :: as, b :: bs =>
    let c := cmpItem start a b
    if c ≠ 0 then c else cmpItemLists start as bs

/-! ## CLOSURE -/

/-- FIRST(βa).Terminals for the suffix β after the non-terminal at the dot of `i` and its lookahead `a` -/
def lookaheadsFor (nl : List String) (fe : Env) (i : Item) (a : String) : List String :=
  let β := i.prod.body.drop (i.dot + 1)
  if β.all (symNullable nl) then unionNew (firstOfStr nl fe β) [a] else firstOfStr nl fe β

/-- the items `B → •γ` (`[B → •γ, b]`, `b ∈ FIRST(βa)`) that item `i = A → α•Bβ` (`[…, a]`) calls for -/
def closureCands (g : SGrammar) (nl : List String) (fe : Env) (i : Item) : List Item :=
  match i.dotSym with
  | some (.nonterm B) =>
    (prodsOf g B).flatMap fun p =>
      match i.la with
      | none => [{ prod := p, dot := 0, la := none }]
      | some a => (lookaheadsFor nl fe i a).map fun b => { prod := p, dot := 0, la := some b }
  | _ => []

/-- "if `j` is not in `J`: `newItems = append(newItems, j)`" (and `J.Add` drops duplicates) -/
def addFresh (J acc : List Item) (j : Item) : List Item := if j ∈ J ∨ j ∈ acc then acc else acc ++ [j]

/-- the items `calculator0/1.CLOSURE` finds in one pass over `J` (those not yet in `J`) -/
def closureNew (g : SGrammar) (nl : List String) (fe : Env) (J : List Item) : List Item :=
  (J.flatMap (closureCands g nl fe)).foldl (addFresh J) []

def closure (g : SGrammar) (nl : List String) (fe : Env) : Nat → List Item → Outcome (List Item)
  | 0, _ => .diverge
  | fuel + 1, J =>
    match closureNew g nl fe J with
    | [] => .ok J
    | new => closure g nl fe fuel (J ++ new)

/-- the items of `I` with `X` after the dot, dot advanced (`J` before `CLOSURE(J)` in `automaton.GOTO`) -/
def advance (I : List Item) (X : Sy) : List Item :=
  I.foldl (fun acc i => if i.dotSym = some X then addNew acc i.next else acc) []

/-- which automaton: complete item sets (`automaton`) or kernels only (`kernelAutomaton`) -/
structure Auto where
  g : SGrammar              -- augmented
  nl : List String
  fe : Env
  lr1 : Bool
  kernel : Bool
  fuel : Nat

def Auto.closure (A : Auto) (I : List Item) : Outcome (List Item) := C11.closure A.g A.nl A.fe A.fuel I

def Auto.goto (A : Auto) (I : List Item) (X : Sy) : Outcome (List Item) :=
  if A.kernel then do
    let c ← A.closure I
    pure (advance c X)
  else A.closure (advance I X)

def Auto.initialItem (A : Auto) : Item :=
  -- `Productions.Get(Start).FirstMatch(true)`: the only production of S′
  let p : Pr := ((prodsOf A.g A.g.start).head?).getD { head := A.g.start, body := [] }
  { prod := p, dot := 0, la := if A.lr1 then some endmarker else none }

def allSymbols (g : SGrammar) : List Sy := g.terms.map Sym.term ++ g.nonterms.map Sym.nonterm

def containsSet (C : List (List Item)) (J : List Item) : Bool := C.any (fun I => sameSet I J)

/-- one pass of `Canonical`: the new item sets found from the sets of `C` -/
def canonicalNew (A : Auto) (C : List (List Item)) : Outcome (List (List Item)) :=
  C.foldlM (fun acc I =>
    (allSymbols A.g).foldlM (fun acc X => do
      let J ← A.goto I X
      if J.isEmpty || containsSet C J || containsSet acc J then pure acc else pure (acc ++ [J])) acc) []

def canonicalLoop (A : Auto) : Nat → List (List Item) → Outcome (List (List Item))
  | 0, _ => .diverge
  | fuel + 1, C => do
    let new ← canonicalNew A C
    if new.isEmpty then pure C else canonicalLoop A fuel (C ++ new)

def Auto.canonical (A : Auto) : Outcome (List (List Item)) :=
  (if A.kernel then Outcome.ok [A.initialItem] else A.closure [A.initialItem]) >>= fun I0 =>
    canonicalLoop A A.fuel [I0]

/-! ## `BuildStateMap` -/

abbrev StateMap := List (List Item)

def buildStateMap (start : String) (C : List (List Item)) : StateMap :=
  sortBy (cmpItemLists start) (C.map (sortBy (cmpItem start)))

/-- `StateMap.FindItemSet` (`-1` = `ErrState`) -/
def findItemSet (S : StateMap) (I : List Item) : Int :=
  match S.findIdx? (fun K => sameSet K I) with
  | some i => i
  | none => -1

/-- `StateMap.FindItem` -/
def findItem (K : List Item) (it : Item) : Int :=
  match K.findIdx? (fun x => x = it) with
  | some i => i
  | none => -1

/-! ## the table under construction -/

structure Table where
  nstates : Nat
  actions : List ((Int × String) × List Action)
  gotos : List ((Int × String) × Int)
  deriving Repr

def Table.cell (T : Table) (s : Int) (a : String) : List Action := (T.actions.lookup (s, a)).getD []

def Table.goto (T : Table) (s : Int) (A : String) : Option Int := T.gotos.lookup (s, A)

def Table.toTbl (T : Table) : Tbl := { cell := T.cell, goto := T.goto }

/-- `AddACTION` -/
def Table.addAction (T : Table) (s : Int) (a : String) (act : Action) : Table :=
  if T.actions.any (fun e => e.1 == (s, a)) then
    { T with actions := T.actions.map fun e => if e.1 == (s, a) then (e.1, addNew e.2 act) else e }
  else { T with actions := T.actions ++ [((s, a), [act])] }

/-- `SetGOTO` (ErrState is not stored) -/
def Table.setGoto (T : Table) (s : Int) (A : String) (next : Int) : Table :=
  if next = -1 then T
  else if T.gotos.any (fun e => e.1 == (s, A)) then
    { T with gotos := T.gotos.map fun e => if e.1 == (s, A) then (e.1, next) else e }
  else { T with gotos := T.gotos ++ [((s, A), next)] }

def Table.setCell (T : Table) (s : Int) (a : String) (acts : List Action) : Table :=
  { T with actions := T.actions.map fun e => if e.1 == (s, a) then (e.1, acts) else e }

/-- step 2a: a shift for a terminal after the dot; `shiftTo a` is the state number of the target -/
def itemShift (i : Int) (item : Item) (shiftTo : String → Outcome Int) (T : Table) : Outcome Table :=
  match item.dotSym with
  | some (.term a) => shiftTo a >>= fun j => pure (T.addAction i a (.shift j))
  | _ => pure T

/-- steps 2b, 2c: reduce actions of a complete item on the lookaheads `reduceOn item`; accept for `S′ → S•` -/
def itemReduce (start : String) (i : Int) (item : Item) (reduceOn : Item → List String) (T : Table) : Table :=
  let T := if item.isComplete && !item.isFinal start then
      (reduceOn item).foldl (fun T a => T.addAction i a (.reduce item.prod)) T
    else T
  if item.isFinal start then T.addAction i endmarker .accept else T

/-- the actions one item contributes to row `i` (steps 2a–2c of the three constructions) -/
def itemActions (start : String) (i : Int) (item : Item) (shiftTo : String → Outcome Int)
    (reduceOn : Item → List String) (T : Table) : Outcome Table :=
  itemShift i item shiftTo T >>= fun T => pure (itemReduce start i item reduceOn T)

/-! ## SLR(1) and canonical LR(1) -/

inductive Kind where
  | slr | lalr | lr1
  deriving DecidableEq, Repr

/-- result of a construction *before* `ResolveConflicts`: the state map (full item sets) and the raw table -/
structure Built where
  start : String            -- S′
  states : StateMap         -- for LALR: the closures of the kernels
  table : Table

def mkAuto (g' : SGrammar) (lr1 kernel : Bool) (fuel : Nat) : Auto :=
  let nl := nullableOf g'
  { g := g', nl := nl, fe := firstEnv g' nl, lr1 := lr1, kernel := kernel, fuel := fuel }

/-- rows of the SLR / canonical table (complete item sets, `FindItemSet` for the targets) -/
def fillFull (A : Auto) (S : StateMap) (reduceOn : Item → List String) : Outcome Table :=
  let rec rows : List (List Item) → Nat → Table → Outcome Table
    | [], _, T => pure T
    | I :: rest, i, T => do
      let T ← I.foldlM (fun T item =>
        itemActions A.g.start i item (fun a => do
          let J ← A.goto I (.term a)
          pure (findItemSet S J)) reduceOn T) T
      let T ← A.g.nonterms.foldlM (fun T n =>
        if n = A.g.start then pure T else do
          let J ← A.goto I (.nonterm n)
          pure (T.setGoto i n (findItemSet S J))) T
      rows rest (i + 1) T
  rows S 0 { nstates := S.length, actions := [], gotos := [] }

def buildSLR (g : SGrammar) (fuel : Nat) : Outcome Built := do
  let g' ← augment g
  let A := mkAuto g' false false fuel
  let fo := followEnv g' A.nl A.fe
  let C ← A.canonical
  let S := buildStateMap g'.start C
  let T ← fillFull A S (fun item => envGet fo item.prod.head)
  pure { start := g'.start, states := S, table := T }

def buildLR1 (g : SGrammar) (fuel : Nat) : Outcome Built := do
  let g' ← augment g
  let A := mkAuto g' true false fuel
  let C ← A.canonical
  let S := buildStateMap g'.start C
  let T ← fillFull A S (fun item => match item.la with | some a => [a] | none => [])
  pure { start := g'.start, states := S, table := T }

/-! ## LALR(1) -/

/-- lookahead table of `ComputeLALR1Kernels`: (state, item index) ↦ set of terminals -/
abbrev LaTable := List ((Int × Int) × List String)

def laGet (t : LaTable) (k : Int × Int) : Option (List String) := t.lookup k

def laAdd (t : LaTable) (k : Int × Int) (ls : List String) : LaTable :=
  if t.any (fun e => e.1 == k) then t.map fun e => if e.1 == k then (e.1, unionNew e.2 ls) else e
  else t ++ [(k, unionNew [] ls)]

def laSize (t : LaTable) : Nat := t.foldl (fun a e => a + e.2.length) 0

/-- the propagation fixpoint ("make repeated passes … until no more new lookaheads are propagated") -/
def propagate (props : List ((Int × Int) × (Int × Int))) : Nat → LaTable → Outcome LaTable
  | 0, _ => .diverge
  | fuel + 1, t =>
    let t' := props.foldl (fun t (fr, to) =>
      match laGet t fr with
      | some ls => if ls.isEmpty then t else laAdd t to ls
      | none => t) t
    if laSize t' = laSize t ∧ t'.length = t.length then .ok t else propagate props fuel t'

abbrev Key := Int × Int
abbrev Links := List (Key × Key)

/-- body of the innermost loop of `ComputeLALR1Kernels`: closure item `j` of the kernel item `src` of state `I` -/
def lalrVisit (A0 : Auto) (S0 : StateMap) (I : List Item) (src : Key) (acc : LaTable × Links) (j : Item) :
    Outcome (LaTable × Links) :=
  match j.dotSym with
  | none => pure acc
  | some X => do
    let nextI ← A0.goto I X
    let toSet := findItemSet S0 nextI
    -- `S0.FindItem(to.ItemSet, …)` indexes `m[to.ItemSet]`: out of range for ErrState
    if toSet < 0 then Outcome.panic
    else
      let toItem := findItem (S0.getD toSet.toNat []) j.next.core
      match j.la with
      | some a =>
        if a = endmarker then pure (acc.1, acc.2 ++ [(src, (toSet, toItem))])
        else pure (laAdd acc.1 (toSet, toItem) [a], acc.2)
      | none => pure acc

def lalrState (A0 A1 : Auto) (S0 : StateMap) (acc : LaTable × Links) (Is : List Item × Nat) :
    Outcome (LaTable × Links) :=
  (Is.1.zipIdx).foldlM (fun acc (ii : Item × Nat) => do
    -- J = CLOSURE({[A → α.β, $]})
    let J ← A1.closure [{ ii.1 with la := some endmarker }]
    J.foldlM (lalrVisit A0 S0 Is.1 ((Is.2 : Int), (ii.2 : Int))) acc) acc

/-- the kernel of LALR state `s`: every LR(0) kernel item with each of its lookaheads -/
def lalrKernelOf (las : LaTable) (Is : List Item × Nat) : Outcome (List Item) :=
  (Is.1.zipIdx).foldlM (fun (J : List Item) (ii : Item × Nat) =>
    match laGet las ((Is.2 : Int), (ii.2 : Int)) with
    | some ls => pure (ls.foldl (fun J a => addNew J { ii.1 with la := some a }) J)
    | none => Outcome.panic) []        -- `lookaheads.Get(item).All()` on a nil set

/-- `ComputeLALR1Kernels` -/
def lalrKernels (g' : SGrammar) (fuel : Nat) : Outcome (List (List Item)) := do
  let A0 := mkAuto g' false true fuel
  let A1 := mkAuto g' true true fuel
  let K0 ← A0.canonical
  let S0 := buildStateMap g'.start K0
  let init : LaTable × Links := ([((0, 0), [endmarker])], [])
  let lp ← (S0.zipIdx).foldlM (lalrState A0 A1 S0) init
  let las ← propagate lp.2 fuel lp.1
  (S0.zipIdx).foldlM (fun (K1 : List (List Item)) Is => do
    let J ← lalrKernelOf las Is
    pure (if containsSet K1 J then K1 else K1 ++ [J])) []

def coreOf (I : List Item) : List Item := I.foldl (fun acc i => addNew acc i.core) []

/-- `findSuperset` after the D17 patch: the first state that contains `I` and has the same core -/
def findSuperset (S : StateMap) (I : List Item) : Int :=
  if I.isEmpty then -1
  else match S.findIdx? (fun K => subsetOf I K && sameSet (coreOf K) (coreOf I)) with
    | some i => i
    | none => -1

def buildLALR (g : SGrammar) (fuel : Nat) : Outcome Built := do
  let g' ← augment g
  let A1 := mkAuto g' true true fuel
  let K ← lalrKernels g' fuel
  let S := buildStateMap g'.start K
  let rec rows : List (List Item) → Nat → Table → List (List Item) → Outcome (Table × List (List Item))
    | [], _, T, cl => pure (T, cl)
    | I :: rest, i, T, cl => do
      let c ← A1.closure I
      let T ← c.foldlM (fun T item =>
        itemActions g'.start i item (fun a => do
          let J ← A1.goto I (.term a)
          pure (findSuperset S J)) (fun item => match item.la with | some a => [a] | none => []) T) T
      let T ← g'.nonterms.foldlM (fun T n =>
        if n = g'.start then pure T else do
          let J ← A1.goto I (.nonterm n)
          pure (T.setGoto i n (findSuperset S J))) T
      rows rest (i + 1) T (cl ++ [sortBy (cmpItem g'.start) c])
  let (T, cl) ← rows S 0 { nstates := S.length, actions := [], gotos := [] } []
  pure { start := g'.start, states := cl, table := T }

def build (k : Kind) (g : SGrammar) (fuel : Nat) : Outcome Built :=
  match k with
  | .slr => buildSLR g fuel
  | .lalr => buildLALR g fuel
  | .lr1 => buildLR1 g fuel

/-! ## `ResolveConflicts` -/

inductive Verdict where
  | table                   -- no conflict left: `BuildParsingTable` returns a nil error
  | conflict                -- an `AggregatedConflictError`
  | badPrecedences          -- `precedences.Verify()` failed
  deriving DecidableEq, Repr

/-- the loop of `ResolveConflicts` over the cells; `order s a acts` is the order in which the set iteration of
`resolveConflict` delivers the actions of cell `[s,a]` (a permutation of `acts`) -/
def resolveCells (ls : List Level) (order : Int → String → List Action → List Action) :
    List ((Int × String) × List Action) → Table × Verdict → Outcome (Table × Verdict)
  | [], acc => .ok acc
  | e :: es, acc =>
    if e.2.length ≤ 1 then resolveCells ls order es acc
    else
      match resolveConflict ls e.1.2 (order e.1.1 e.1.2 e.2) with
      | .ok (some act) => resolveCells ls order es (acc.1.setCell e.1.1 e.1.2 [act], acc.2)
      | .ok none => resolveCells ls order es (acc.1, Verdict.conflict)
      | .panic => .panic
      | .diverge => .diverge

/-- `ResolveConflicts`.  Cells are visited in the order they were created, which differs from the Go loop
(`States × Terminals`), but no cell influences another. -/
def resolveAll (ls : List Level) (order : Int → String → List Action → List Action) (T : Table) :
    Outcome (Table × Verdict) :=
  if !levelsOK ls then .ok (T, .badPrecedences)
  else resolveCells ls order T.actions (T, Verdict.table)

/-- default fuel for the "until nothing new" loops: more than the number of LR(1) items of the grammar
(so each loop, which adds at least one new item / item set / lookahead per round, cannot use it up for a
state space below that size; the canonical collection may in principle be larger — the driver reports
`hang` then, which never happened in any run) -/
def defaultFuel (g : SGrammar) : Nat :=
  (g.prods.foldl (fun a p => a + p.body.length + 1) 2) * (g.terms.length + 2) * 8 + 64

end AlgoVerif.C11
