import AlgoVerif.Common
/-!
# Model of `unionfind/unionfind.go` (quick-find, quick-union, weighted quick-union)

Line-by-line transcription.  Go's `int` is `Int`; a slice is an `Array Int`.  Reading or writing a
slice outside `[0, len)` is `Outcome.panic` (`idx`, `setIdx`); the `for p != u.root[p]` loops take a
fuel argument (the callers pass `len(u.root)`) and return `Outcome.diverge` when it runs out.
Queries do not change the receiver, so they return only their result.
-/
namespace AlgoVerif.C17

/-- `s[i]` — index-out-of-range panics -/
def idx (s : Array Int) (i : Int) : Outcome Int :=
  if 0 ≤ i ∧ i < s.size then .ok (s.getD i.toNat 0) else .panic

/-- `s[i] = v` — index-out-of-range panics -/
def setIdx (s : Array Int) (i : Int) (v : Int) : Outcome (Array Int) :=
  if 0 ≤ i ∧ i < s.size then .ok (s.setIfInBounds i.toNat v) else .panic

/-- `for i := 0; i < n; i++ { a[i] = i }` on `make([]int, n)` -/
def iota (n : Nat) : Array Int := Array.ofFn (n := n) fun i => (i.val : Int)

/-! ## quickFind -/

structure QuickFind where
  count : Int
  id : Array Int
  deriving Repr, DecidableEq

namespace QuickFind

/-- `NewQuickFind(n)` -/
def new (n : Nat) : QuickFind := { count := n, id := iota n }

/-- `0 <= i && i < len(u.id)` -/
def isValid (u : QuickFind) (i : Int) : Bool := 0 ≤ i && i < u.id.size

/-- `Find`: `if !u.isValid(p) { return -1, false }; return u.id[p], true` -/
def find (u : QuickFind) (p : Int) : Outcome (Int × Bool) :=
  if !u.isValid p then .ok (-1, false)
  else do
    let v ← idx u.id p
    .ok (v, true)

/-- `for i := range u.id { if u.id[i] == pid { u.id[i] = qid } }`, the first `k` iterations -/
def relabel (pid qid : Int) (id : Array Int) : Nat → Array Int
  | 0 => id
  | k + 1 =>
    let id' := relabel pid qid id k
    if id'.getD k 0 = pid then id'.setIfInBounds k qid else id'

/-- `Union` -/
def union (u : QuickFind) (p q : Int) : Outcome QuickFind :=
  if !u.isValid p || !u.isValid q then .ok u
  else do
    let (pid, _) ← u.find p
    let (qid, _) ← u.find q
    if pid = qid then .ok u
    else
      -- Rename p's component to q's id
      .ok { count := u.count - 1, id := relabel pid qid u.id u.id.size }

/-- `IsConnected` -/
def isConnected (u : QuickFind) (p q : Int) : Outcome Bool :=
  if !u.isValid p || !u.isValid q then .ok false
  else do
    let (pid, _) ← u.find p
    let (qid, _) ← u.find q
    .ok (pid == qid)

/-- `Count` -/
def getCount (u : QuickFind) : Int := u.count

end QuickFind

/-! ## the `for p != u.root[p] { p = u.root[p] }` loop shared by the two quick-union types -/

/-- one unit of fuel per evaluation of the loop condition -/
def findLoop (root : Array Int) : Nat → Int → Outcome Int
  | 0, _ => .diverge
  | fuel + 1, p => do
    let rp ← idx root p
    if p ≠ rp then findLoop root fuel rp else .ok p

/-! ## quickUnion -/

structure QuickUnion where
  count : Int
  root : Array Int
  deriving Repr, DecidableEq

namespace QuickUnion

/-- `NewQuickUnion(n)` -/
def new (n : Nat) : QuickUnion := { count := n, root := iota n }

def isValid (u : QuickUnion) (i : Int) : Bool := 0 ≤ i && i < u.root.size

/-- `Find` (fuel `len(u.root)`) -/
def find (u : QuickUnion) (p : Int) : Outcome (Int × Bool) :=
  if !u.isValid p then .ok (-1, false)
  else do
    let r ← findLoop u.root u.root.size p
    .ok (r, true)

/-- `Union` -/
def union (u : QuickUnion) (p q : Int) : Outcome QuickUnion :=
  if !u.isValid p || !u.isValid q then .ok u
  else do
    let (proot, _) ← u.find p
    let (qroot, _) ← u.find q
    if proot = qroot then .ok u
    else do
      let root ← setIdx u.root proot qroot
      .ok { count := u.count - 1, root := root }

/-- `IsConnected` -/
def isConnected (u : QuickUnion) (p q : Int) : Outcome Bool :=
  if !u.isValid p || !u.isValid q then .ok false
  else do
    let (proot, _) ← u.find p
    let (qroot, _) ← u.find q
    .ok (proot == qroot)

def getCount (u : QuickUnion) : Int := u.count

end QuickUnion

/-! ## weightedQuickUnion -/

structure Weighted where
  count : Int
  root : Array Int
  size : Array Int
  deriving Repr, DecidableEq

namespace Weighted

/-- `NewWeightedQuickUnion(n)` -/
def new (n : Nat) : Weighted := { count := n, root := iota n, size := Array.replicate n 1 }

def isValid (u : Weighted) (i : Int) : Bool := 0 ≤ i && i < u.root.size

/-- `Find` (fuel `len(u.root)`) -/
def find (u : Weighted) (p : Int) : Outcome (Int × Bool) :=
  if !u.isValid p then .ok (-1, false)
  else do
    let r ← findLoop u.root u.root.size p
    .ok (r, true)

/-- `Union` -/
def union (u : Weighted) (p q : Int) : Outcome Weighted :=
  if !u.isValid p || !u.isValid q then .ok u
  else do
    let (proot, _) ← u.find p
    let (qroot, _) ← u.find q
    if proot = qroot then .ok u
    else do
      -- make smaller root point to larger one
      let sp ← idx u.size proot
      let sq ← idx u.size qroot
      if sp < sq then do
        let root ← setIdx u.root proot qroot
        let sq' ← idx u.size qroot
        let sp' ← idx u.size proot
        let size ← setIdx u.size qroot (sq' + sp')
        .ok { count := u.count - 1, root := root, size := size }
      else do
        let root ← setIdx u.root qroot proot
        let sp' ← idx u.size proot
        let sq' ← idx u.size qroot
        let size ← setIdx u.size proot (sp' + sq')
        .ok { count := u.count - 1, root := root, size := size }

/-- `IsConnected` -/
def isConnected (u : Weighted) (p q : Int) : Outcome Bool :=
  if !u.isValid p || !u.isValid q then .ok false
  else do
    let (proot, _) ← u.find p
    let (qroot, _) ← u.find q
    .ok (proot == qroot)

def getCount (u : Weighted) : Int := u.count

end Weighted

/-! ## histories: a sequence of `Union(p, q)` calls (the only mutating operation) -/

def QuickFind.run (u : QuickFind) : List (Int × Int) → Outcome QuickFind
  | [] => .ok u
  | (p, q) :: rest => do
    let u' ← u.union p q
    QuickFind.run u' rest

def QuickUnion.run (u : QuickUnion) : List (Int × Int) → Outcome QuickUnion
  | [] => .ok u
  | (p, q) :: rest => do
    let u' ← u.union p q
    QuickUnion.run u' rest

def Weighted.run (u : Weighted) : List (Int × Int) → Outcome Weighted
  | [] => .ok u
  | (p, q) :: rest => do
    let u' ← u.union p q
    Weighted.run u' rest

end AlgoVerif.C17
