import AlgoVerif.Common
/-!
# Runtime of the Go → Lean translator (`/verif/extract/go2lean`)

The definitions the GENERATED models (`AlgoVerif/Generated/*Gen.lean`) are written in: the few Go
constructs whose meaning is not a Lean primitive.  This file is hand-written, core-only and part of the
trusted base of the regenerated tie: it is the reading of Go's semantics the translator relies on.

* a slice `[]T` is an `Array T` (length = capacity; the subset has no `append` to a live slice and no
  aliasing, see the translator's header);
* `s[i]`, `s[i] = v` outside `[0, len(s))` panic;
* `make([]T, n)` panics for `n < 0`, else `n` zero values;
* a pointer to an immutable record is an `Option`; dereferencing `nil` panics;
* `a / b`, `a % b` truncate toward zero (`Int.tdiv`, `Int.tmod`) and panic for `b = 0`;
* a `*rand.Rand` is a `Go.Rand`: the stream of the generator's future draws and the number already consumed;
  `r.Intn(n)` panics for `n ≤ 0`, else consumes one draw and returns it reduced into `[0, n)` — for every
  behaviour of the real generator there is a stream that reproduces it, and every stream respects `Intn`'s
  contract, so a statement for all streams is a statement for all generators (and seeds);
* `uint` / `uint64` are `UInt64`, `byte` / `uint8` is `UInt8` (Lean's wrap-around arithmetic is Go's); a `string` is the
  list of its bytes; `<` on the ordered types is the class `Go.Ordered`; shifts by a signed count panic for a
  negative count; `&`, `|`, `^` on `int` are taken on the 64-bit two's-complement patterns;
* Go's `int` is the unbounded `Int`: overflow is NOT modelled.
-/
namespace AlgoVerif.Go

variable {α : Type}

/-- `s[i]` — index out of range panics -/
def idx (s : Array α) (i : Int) : Outcome α :=
  if h : 0 ≤ i ∧ i < s.size then .ok (s[i.toNat]'(by omega)) else .panic

/-- `s[i] = v` — index out of range panics -/
def setIdx (s : Array α) (i : Int) (v : α) : Outcome (Array α) :=
  if h : 0 ≤ i ∧ i < s.size then .ok (s.set i.toNat v (by omega)) else .panic

/-- `make([]T, n)` with `zero` the zero value of `T` -/
def make (zero : α) (n : Int) : Outcome (Array α) :=
  if 0 ≤ n then .ok (Array.replicate n.toNat zero) else .panic

/-- `a / b` for a divisor that is not a non-zero constant -/
def div (a b : Int) : Outcome Int :=
  if b = 0 then .panic else .ok (Int.tdiv a b)

/-- `a % b` for a divisor that is not a non-zero constant -/
def mod (a b : Int) : Outcome Int :=
  if b = 0 then .panic else .ok (Int.tmod a b)

/-- `s[lo:hi]` used as a VALUE (source of `copy` / `append(…, s[lo:hi]...)` only): panics unless
`0 ≤ lo ≤ hi ≤ len(s)` (capacity = length) -/
def slice (s : Array α) (lo hi : Int) : Outcome (Array α) :=
  if 0 ≤ lo ∧ lo ≤ hi ∧ hi ≤ s.size then .ok (s.extract lo.toNat hi.toNat) else .panic

/-- `copy(dst, src)`: the first `min(len(dst), len(src))` elements of `dst` are overwritten -/
def copy (dst src : Array α) : Array α :=
  Array.ofFn (n := dst.size) fun k => if h : k.val < src.size then src[k.val] else dst[k.val]

/-- `copy(dst[lo:hi], src)`: `dst[lo:hi]` must be a valid slice expression; the elements
`dst[lo + k]`, `k < min(hi - lo, len(src))` are overwritten -/
def copyInto (dst : Array α) (lo hi : Int) (src : Array α) : Outcome (Array α) :=
  if 0 ≤ lo ∧ lo ≤ hi ∧ hi ≤ dst.size then
    .ok (Array.ofFn (n := dst.size) fun k =>
      if h : lo.toNat ≤ k.val ∧ k.val < hi.toNat ∧ k.val - lo.toNat < src.size then
        src[k.val - lo.toNat]'h.2.2 else dst[k.val])
  else .panic

/-- `p.f` for a pointer `p` to an immutable record: nil dereference panics -/
def deref (p : Option α) : Outcome α :=
  match p with
  | some a => .ok a
  | none => .panic

/-- a `*rand.Rand` (never nil here): the draws it will produce, and how many have been consumed -/
structure Rand where
  stream : Nat → Int
  pos : Nat

/-- `rand.New(rand.NewSource(seed))` for a seed read from the clock: `stream` is arbitrary -/
def Rand.new (stream : Nat → Int) : Rand := ⟨stream, 0⟩

/-- `r.Intn(n)`: panics for `n ≤ 0`; else the next draw, reduced into `[0, n)`, and the advanced generator -/
def Rand.intn (r : Rand) (n : Int) : Outcome (Rand × Int) :=
  if n ≤ 0 then .panic else .ok ({ r with pos := r.pos + 1 }, r.stream r.pos % n)


/-- `float64`, COPY-ONLY: a value is its IEEE-754 bit pattern and the translated code can do nothing with it but move it
(field read, struct literal, assignment, argument, result).  The translator refuses every operator, comparison (also `==`
of a struct with such a field: IEEE `==` is not equality of bit patterns — NaN, ±0), conversion and constant of the type,
so no property of the carrier is ever used: every theorem about generated code holds for any type in its place. -/
structure F64 where
  bits : UInt64
  deriving DecidableEq, Repr, Inhabited

/-- the zero value `+0.0` -/
def F64.zero : F64 := ⟨0⟩

/-- `float32`, copy-only like `F64` -/
structure F32 where
  bits : UInt32
  deriving DecidableEq, Repr, Inhabited

def F32.zero : F32 := ⟨0⟩

/-- a Go `string`: its bytes (strings are immutable values in Go too) -/
abbrev Str := List UInt8

/-- `s[i]` on a string — index out of range panics -/
def strIdx (s : Str) (i : Int) : Outcome UInt8 :=
  if 0 ≤ i then (match s[i.toNat]? with | some b => .ok b | none => .panic) else .panic

/-- Go's `<` on strings: bytewise lexicographic -/
def strLt : Str → Str → Bool
  | _, [] => false
  | [], _ :: _ => true
  | x :: xs, y :: ys => if x < y then true else if y < x then false else strLt xs ys

/-- the types of `constraints.Ordered` / `cmp.Ordered` that the subset has (no floats: `<=` is translated as the
negation of `>`, which NaN would break), with Go's native `<` -/
class Ordered (α : Type) where
  lt : α → α → Bool
instance : Ordered Int := ⟨fun a b => decide (a < b)⟩
instance : Ordered UInt64 := ⟨fun a b => decide (a < b)⟩
instance : Ordered UInt8 := ⟨fun a b => decide (a < b)⟩
instance : Ordered Str := ⟨strLt⟩

/-- `v >> s` for `v uint` and a signed shift count: a negative count panics, a count `≥ 64` gives 0 -/
def shrU64 (v : UInt64) (s : Int) : Outcome UInt64 :=
  if s < 0 then .panic else .ok (if s < 64 then v >>> s.toNat.toUInt64 else 0)
/-- `v << s` for `v uint` -/
def shlU64 (v : UInt64) (s : Int) : Outcome UInt64 :=
  if s < 0 then .panic else .ok (if s < 64 then v <<< s.toNat.toUInt64 else 0)
/-- `v >> s` for `v int`: arithmetic shift (floor division by `2^s`), exact on the unbounded `Int` -/
def shrInt (v : Int) (s : Int) : Outcome Int :=
  if s < 0 then .panic else .ok (v >>> s.toNat)
/-- `v << s` for `v int` (overflow not modelled, as for `*`) -/
def shlInt (v : Int) (s : Int) : Outcome Int :=
  if s < 0 then .panic else .ok (v <<< s.toNat)
/-- `a / b` for unsigned words: division by zero panics -/
def divU64 (a b : UInt64) : Outcome UInt64 := if b = 0 then .panic else .ok (a / b)
/-- `a % b` for unsigned words: division by zero panics -/
def modU64 (a b : UInt64) : Outcome UInt64 := if b = 0 then .panic else .ok (a % b)
/-- `a & b` for `int`s: two's complement on 64 bits (exact for operands that are 64-bit `int`s) -/
def andInt (a b : Int) : Int := (BitVec.ofInt 64 a &&& BitVec.ofInt 64 b).toInt
def orInt (a b : Int) : Int := (BitVec.ofInt 64 a ||| BitVec.ofInt 64 b).toInt
def xorInt (a b : Int) : Int := (BitVec.ofInt 64 a ^^^ BitVec.ofInt 64 b).toInt
/-- how a translated loop ended: it ran to its end / hit `break` (`next`: the state of the variables
it assigns), or executed a `return` of the enclosing function (`ret`) -/
inductive Ctl (σ ρ : Type) where
  | next (s : σ)
  | ret (r : ρ)

end AlgoVerif.Go
