import AlgoVerif.Common
/-!
# Runtime of the Go → Lean translator (`/verif/extract/go2lean`)

The definitions the GENERATED models (`AlgoVerif/Generated/*Gen.lean`) are written in: the few Go
constructs whose meaning is not a Lean primitive.  This file is hand-written, core-only and part of the
trusted base of the regenerated tie: it is the reading of Go's semantics the translator relies on.

* a slice `[]T` is an `Array T` (length = capacity; the subset has no `append` to a live slice and no
  aliasing, see the translator's header);
* `s[i]`, `s[i] = v` outside `[0, len(s))` panic;
* `make([]T, n)` panics for `n < 0`, else `n` zero values;
* a pointer to an immutable record is an `Option`; dereferencing `nil` panics;
* `a / b`, `a % b` truncate toward zero (`Int.tdiv`, `Int.tmod`) and panic for `b = 0`;
* Go's `int` is the unbounded `Int`: overflow is NOT modelled.
-/
namespace AlgoVerif.Go

variable {α : Type}

/-- `s[i]` — index out of range panics -/
def idx (s : Array α) (i : Int) : Outcome α :=
  if h : 0 ≤ i ∧ i < s.size then .ok (s[i.toNat]'(by omega)) else .panic

/-- `s[i] = v` — index out of range panics -/
def setIdx (s : Array α) (i : Int) (v : α) : Outcome (Array α) :=
  if h : 0 ≤ i ∧ i < s.size then .ok (s.set i.toNat v (by omega)) else .panic

/-- `make([]T, n)` with `zero` the zero value of `T` -/
def make (zero : α) (n : Int) : Outcome (Array α) :=
  if 0 ≤ n then .ok (Array.replicate n.toNat zero) else .panic

/-- `a / b` for a divisor that is not a non-zero constant -/
def div (a b : Int) : Outcome Int :=
  if b = 0 then .panic else .ok (Int.tdiv a b)

/-- `a % b` for a divisor that is not a non-zero constant -/
def mod (a b : Int) : Outcome Int :=
  if b = 0 then .panic else .ok (Int.tmod a b)

/-- `s[lo:hi]` used as a VALUE (source of `copy` / `append(…, s[lo:hi]...)` only): panics unless
`0 ≤ lo ≤ hi ≤ len(s)` (capacity = length) -/
def slice (s : Array α) (lo hi : Int) : Outcome (Array α) :=
  if 0 ≤ lo ∧ lo ≤ hi ∧ hi ≤ s.size then .ok (s.extract lo.toNat hi.toNat) else .panic

/-- `copy(dst, src)`: the first `min(len(dst), len(src))` elements of `dst` are overwritten -/
def copy (dst src : Array α) : Array α :=
  Array.ofFn (n := dst.size) fun k => if h : k.val < src.size then src[k.val] else dst[k.val]

/-- `copy(dst[lo:hi], src)`: `dst[lo:hi]` must be a valid slice expression; the elements
`dst[lo + k]`, `k < min(hi - lo, len(src))` are overwritten -/
def copyInto (dst : Array α) (lo hi : Int) (src : Array α) : Outcome (Array α) :=
  if 0 ≤ lo ∧ lo ≤ hi ∧ hi ≤ dst.size then
    .ok (Array.ofFn (n := dst.size) fun k =>
      if h : lo.toNat ≤ k.val ∧ k.val < hi.toNat ∧ k.val - lo.toNat < src.size then
        src[k.val - lo.toNat]'h.2.2 else dst[k.val])
  else .panic

/-- `p.f` for a pointer `p` to an immutable record: nil dereference panics -/
def deref (p : Option α) : Outcome α :=
  match p with
  | some a => .ok a
  | none => .panic

/-- how a translated loop ended: it ran to its end / hit `break` (`next`: the state of the variables
it assigns), or executed a `return` of the enclosing function (`ret`) -/
inductive Ctl (σ ρ : Type) where
  | next (s : σ)
  | ret (r : ρ)

end AlgoVerif.Go
