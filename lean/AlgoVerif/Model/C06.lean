import AlgoVerif.Common
import AlgoVerif.Spec.C06
import AlgoVerif.Generated.Consts
/-!
# Model of `trie/binary.go`, `trie/patricia.go`, `trie/bitstring.go`, `trie/bitpattern.go`

Transcription of the Go code (after the `fix:` commits for D6, D7, D8, D9a–e).  Keys are
`List UInt8` (Go strings are byte sequences); `V` is the value type, `default` is Go's zero value.

* **binary trie** — `BNode` is `*binaryNode` (`nil` = the nil pointer); `Binary.root` is
  `t.root.left` (the sentinel root itself carries nothing and its right link is always nil).
  Methods that mutate through the receiver return the new value; `t.size++` / `t.size--` inside
  `_put` / `_delete` is threaded as an extra `Int`.  The traversals take a state-passing `visit`
  (the Go closures only assign to captured variables) returning the new state and the `bool` that
  makes `_traverse` continue.
* **Patricia trie** — pointers are indices into a node store (`Array PNode`); `none` is the nil
  pointer.  Upward ("thread") links are ordinary indices, exactly as in the Go structure, so the
  store is cyclic.  Every `for`/recursion that follows links takes fuel (`nodes.size + 1` suffices
  whenever bit positions strictly increase along downward links) and returns `Outcome.diverge` when
  it runs out; a nil or dangling dereference and `bitString.Bit(0)` (negative shift; unreachable) are
  `Outcome.panic`.  Removed nodes stay in the store unreferenced (garbage collection is not
  modelled).
* **bit strings** — every `bitString` the API creates comes from `newBitString(s)`, so `len` is
  `8 * len(bits)`; the model keeps the bytes only.  `Sub`, `Concat`, `BitString`, the partial-byte
  branches of `String`/`HasPrefix` (dead for whole-byte strings) and `verify`/`Height`/`DOT`/`Equal`/
  the predicate-based collection methods are not part of C06 and are not modelled.
-/
namespace AlgoVerif.C06
variable {V : Type}

/-! ## binary trie -/

inductive BNode (V : Type) where
  | nil
  | node (char : UInt8) (val : V) (term : Bool) (left right : BNode V)
  deriving Repr, Inhabited, DecidableEq

namespace BNode

def isNil : BNode V → Bool
  | nil => true
  | _ => false

/-- `_put(nil, key, val)` for `key = c :: rest`: the recursion only meets nil links, creates one node per
byte and marks the last one (`t.size++` happens exactly once, at the end). -/
def chain [Inhabited V] : UInt8 → Key → V → BNode V
  | c, [], v => node c v true nil nil
  | c, c' :: rest, v => node c default false (chain c' rest v) nil

/-- `_put(n, key, val)` for `key = c :: rest`; the `Int` is `t.size`.
```go
if n == nil { n = &node{char: key[0]} } else if n.char > key[0] { n = &node{char: key[0], right: n} }
if n.char == key[0] {
    if len(key) == 1 { if !n.term { t.size++ }; n.val, n.term = val, true }
    else { n.left = t._put(n.left, key[1:], val) }
} else { n.right = t._put(n.right, key, val) }
``` -/
def put [Inhabited V] : BNode V → UInt8 → Key → V → Int → BNode V × Int
  | nil, c, rest, v, sz => (chain c rest v, sz + 1)
  | node ch val term l r, c, rest, v, sz =>
    if ch > c then
      -- n = &node{char: key[0], right: n}; then as for a fresh node
      match rest with
      | [] => (node c v true nil (node ch val term l r), sz + 1)
      | c' :: rest' => (node c default false (chain c' rest' v) (node ch val term l r), sz + 1)
    else if ch == c then
      match rest with
      | [] => (node ch v true l r, if term then sz else sz + 1)
      | c' :: rest' =>
        let x := put l c' rest' v sz
        (node ch val term x.1 r, x.2)
    else
      let x := put r c rest v sz
      (node ch val term l x.1, x.2)

/-- `_get(n, key)`
```go
if n == nil || len(key) == 0 || n.char > key[0] { return zero, false }
if n.char == key[0] { if n.term && len(key) == 1 { return n.val, true }; return t._get(n.left, key[1:]) }
return t._get(n.right, key)
``` -/
def get : BNode V → Key → Option V
  | nil, _ => none
  | node .., [] => none
  | node ch val term l r, c :: rest =>
    if ch > c then none
    else if ch == c then
      if term && rest.isEmpty then some val else get l rest
    else get r (c :: rest)

/-- `_delete(n, key)` for `key = c :: rest` (after the D6 fix); returns the new link, the deleted
value if any, and `t.size`.
```go
if n == nil || n.char > key[0] { return n, zero, false }
if n.char == key[0] {
    if len(key) > 1 { n.left, val, ok = t._delete(n.left, key[1:]) }
    else if n.term { t.size--; val, ok = n.val, true; n.val, n.term = zero, false }
    if n.left == nil && !n.term { n = n.right }
} else { n.right, val, ok = t._delete(n.right, key) }
``` -/
def delete [Inhabited V] : BNode V → UInt8 → Key → Int → BNode V × Option V × Int
  | nil, _, _, sz => (nil, none, sz)
  | node ch val term l r, c, rest, sz =>
    if ch > c then (node ch val term l r, none, sz)
    else if ch == c then
      match rest with
      | c' :: rest' =>
        let x := delete l c' rest' sz
        if x.1.isNil && !term then (r, x.2.1, x.2.2) else (node ch val term x.1 r, x.2.1, x.2.2)
      | [] =>
        if term then
          if l.isNil then (r, some val, sz - 1) else (node ch default false l r, some val, sz - 1)
        else
          if l.isNil then (r, none, sz) else (node ch val term l r, none, sz)
    else
      let x := delete r c rest sz
      (node ch val term l x.1, x.2.1, x.2.2)

/-- `_traverse(n, prefix, Ascending /* = VLR */, visit)`:
`visit(next, n) && _traverse(n.left, next) && _traverse(n.right, prefix)` with
`next := prefix + string([]byte{n.char})`.  `visit` receives the key, `n.val`, `n.term`. -/
def travAsc {σ : Type} (visit : σ → Key → V → Bool → σ × Bool) : BNode V → Key → σ → σ × Bool
  | nil, _, s => (s, true)
  | node ch val term l r, pre, s =>
    let next := pre ++ [ch]
    let a := visit s next val term
    if !a.2 then (a.1, false) else
    let b := travAsc visit l next a.1
    if !b.2 then (b.1, false) else
    travAsc visit r pre b.1

/-- `_traverse(n, prefix, Descending /* = RLV */, visit)`:
`_traverse(n.right, prefix) && _traverse(n.left, next) && visit(next, n)`. -/
def travDesc {σ : Type} (visit : σ → Key → V → Bool → σ × Bool) : BNode V → Key → σ → σ × Bool
  | nil, _, s => (s, true)
  | node ch val term l r, pre, s =>
    let next := pre ++ [ch]
    let a := travDesc visit r pre s
    if !a.2 then (a.1, false) else
    let b := travDesc visit l next a.1
    if !b.2 then (b.1, false) else
    visit b.1 next val term

/-- `_match(n, prefix, pattern, visit)`; `visit` appends, so the result is the list of visits.
```go
if n == nil || len(pattern) == 0 { return }
if c := pattern[0]; c == '*' || c == n.char {
    next := prefix + string([]byte{n.char})
    if n.term && len(pattern) == 1 { visit(next, n) }
    t._match(n.left, next, pattern[1:], visit)
}
if c := pattern[0]; c == '*' || c != n.char { t._match(n.right, prefix, pattern, visit) }
``` -/
def «match» : BNode V → Key → Key → List (Key × V)
  | nil, _, _ => []
  | node .., _, [] => []
  | node ch val term l r, pre, p :: ps =>
    (if p == star || p == ch then
      (if term && ps.isEmpty then [(pre ++ [ch], val)] else []) ++ «match» l (pre ++ [ch]) ps
     else []) ++
    (if p == star || p != ch then «match» r pre (p :: ps) else [])

/-- `_withPrefix(n, prefix, key, visit)`
```go
if n == nil { return }
next := prefix + string([]byte{n.char})
if len(key) == 0 { if n.term { visit(next, n) }; _withPrefix(n.left, next, key); _withPrefix(n.right, prefix, key) }
else if key[0] == n.char { if n.term && len(key) == 1 { visit(next, n) }; _withPrefix(n.left, next, key[1:]) }
else { _withPrefix(n.right, prefix, key) }
``` -/
def withPrefix : BNode V → Key → Key → List (Key × V)
  | nil, _, _ => []
  | node ch val term l r, pre, [] =>
    (if term then [(pre ++ [ch], val)] else []) ++ withPrefix l (pre ++ [ch]) [] ++ withPrefix r pre []
  | node ch val term l r, pre, k :: ks =>
    if k == ch then
      (if term && ks.isEmpty then [(pre ++ [ch], val)] else []) ++ withPrefix l (pre ++ [ch]) ks
    else withPrefix r pre (k :: ks)

/-- `_allPrefixOf(n, prefix, key, visit)`
```go
if n == nil || len(key) == 0 { return }
if key[0] == n.char { next := …; if n.term { visit(next, n) }; _allPrefixOf(n.left, next, key[1:]) }
else { _allPrefixOf(n.right, prefix, key) }
``` -/
def allPrefixOf : BNode V → Key → Key → List (Key × V)
  | nil, _, _ => []
  | node .., _, [] => []
  | node ch val term l r, pre, k :: ks =>
    if k == ch then
      (if term then [(pre ++ [ch], val)] else []) ++ allPrefixOf l (pre ++ [ch]) ks
    else allPrefixOf r pre (k :: ks)

end BNode

/-- `binary[V]`: `size` and `root.left` -/
structure Binary (V : Type) where
  size : Int := 0
  root : BNode V := .nil
  deriving Repr, DecidableEq

namespace Binary

def new : Binary V := {}

/-- `Put`: the empty key panics explicitly. -/
def put [Inhabited V] (t : Binary V) (key : Key) (v : V) : Outcome (Binary V) :=
  match key with
  | [] => .panic
  | c :: rest =>
    let x := t.root.put c rest v t.size
    .ok { size := x.2, root := x.1 }

def get (t : Binary V) (key : Key) : Outcome (Option V) :=
  match key with
  | [] => .panic
  | _ => .ok (t.root.get key)

def delete [Inhabited V] (t : Binary V) (key : Key) : Outcome (Binary V × Option V) :=
  match key with
  | [] => .panic
  | c :: rest =>
    let x := t.root.delete c rest t.size
    .ok ({ size := x.2.2, root := x.1 }, x.2.1)

def deleteAll (_t : Binary V) : Binary V := {}

/-- `Min`: first `term` node in ascending order -/
def min (t : Binary V) : Option (Key × V) :=
  (t.root.travAsc (fun (s : Option (Key × V)) k v term => if term then (some (k, v), false) else (s, true)) [] none).1

def max (t : Binary V) : Option (Key × V) :=
  (t.root.travDesc (fun (s : Option (Key × V)) k v term => if term then (some (k, v), false) else (s, true)) [] none).1

/-- `Floor`: ascending; `if n.term { if key < k { return false }; last = k }; return true` -/
def floor (t : Binary V) (key : Key) : Option (Key × V) :=
  (t.root.travAsc (fun (s : Option (Key × V)) k v term =>
    if term then (if klt key k then (s, false) else (some (k, v), true)) else (s, true)) [] none).1

/-- `Ceiling`: descending; `if n.term { if k < key { return false }; last = k }; return true` -/
def ceiling (t : Binary V) (key : Key) : Option (Key × V) :=
  (t.root.travDesc (fun (s : Option (Key × V)) k v term =>
    if term then (if klt k key then (s, false) else (some (k, v), true)) else (s, true)) [] none).1

/-- `DeleteMin`: `Min`, then `Delete(key)` -/
def deleteMin [Inhabited V] (t : Binary V) : Outcome (Binary V × Option (Key × V)) :=
  match t.min with
  | none => .ok (t, none)
  | some (k, v) =>
    match t.delete k with
    | .ok (t', some _) => .ok (t', some (k, v))
    | .ok (t', none) => .ok (t', none)
    | .panic => .panic
    | .diverge => .diverge

def deleteMax [Inhabited V] (t : Binary V) : Outcome (Binary V × Option (Key × V)) :=
  match t.max with
  | none => .ok (t, none)
  | some (k, v) =>
    match t.delete k with
    | .ok (t', some _) => .ok (t', some (k, v))
    | .ok (t', none) => .ok (t', none)
    | .panic => .panic
    | .diverge => .diverge

/-- `Select(rank)`: state = (`i`, result) -/
def select (t : Binary V) (rank : Int) : Option (Key × V) :=
  if rank < 0 || rank ≥ t.size then none
  else
    (t.root.travAsc (fun (s : Int × Option (Key × V)) k v term =>
      if term then (if s.1 == rank then ((s.1, some (k, v)), false) else ((s.1 + 1, s.2), true)) else (s, true))
      [] (0, none)).1.2

/-- `Rank(key)` (after the D7 fix): `if n.term { if k >= key { return false }; i++ }; return true` -/
def rank (t : Binary V) (key : Key) : Int :=
  (t.root.travAsc (fun (i : Int) k _ term =>
    if term then (if kle key k then (i, false) else (i + 1, true)) else (i, true)) [] 0).1

/-- `Range(lo, hi)` -/
def range (t : Binary V) (lo hi : Key) : List (Key × V) :=
  (t.root.travAsc (fun (kvs : List (Key × V)) k v term =>
    if term then
      (if kle lo k && kle k hi then (kvs ++ [(k, v)], true)
       else if klt hi k then (kvs, false) else (kvs, true))
    else (kvs, true)) [] []).1

def rangeSize (t : Binary V) (lo hi : Key) : Int :=
  (t.root.travAsc (fun (i : Int) k _ term =>
    if term then
      (if kle lo k && kle k hi then (i + 1, true)
       else if klt hi k then (i, false) else (i, true))
    else (i, true)) [] 0).1

/-- `All()` collected: `return !n.term || yield(k, n.val)` with a `yield` that never stops -/
def all (t : Binary V) : List (Key × V) :=
  (t.root.travAsc (fun (kvs : List (Key × V)) k v term =>
    if term then (kvs ++ [(k, v)], true) else (kvs, true)) [] []).1

def «match» (t : Binary V) (pat : Key) : List (Key × V) := t.root.match [] pat
def withPrefix (t : Binary V) (p : Key) : List (Key × V) := t.root.withPrefix [] p
/-- `LongestPrefixOf`: the last visit of `_allPrefixOf` -/
def longestPrefixOf (t : Binary V) (s : Key) : Option (Key × V) := (t.root.allPrefixOf [] s).getLast?

end Binary

/-! ## bit strings (`newBitString(s)`: the bytes of `s`, `len = 8 * len(s)`) -/

abbrev BitString := List UInt8

namespace BitString

def len (b : BitString) : Nat := 8 * b.length

/-- `const lenPos = 1 << 30` (regenerated from the source): positions above it are the length positions —
the bit at `lenPos + i` is set iff the bitstring has at least `i` bytes -/
def lenPos : Nat := AlgoVerif.Generated.trie_lenPos

/-- `Bit(pos)` (positions start from one)
```go
if pos > lenPos { return pos-lenPos <= len(b.bits) }
if pos > b.len { return false }
i := pos - 1
var mask byte = 0x80 >> (i % 8)      // pos = 0: negative shift amount, panics
return b.bits[i/8]&mask != 0
``` -/
def bit (b : BitString) (pos : Nat) : Outcome Bool :=
  if pos > lenPos then .ok (decide (pos - lenPos ≤ b.length))
  else if pos > b.len then .ok false
  else if pos = 0 then .panic
  else
    match b[(pos - 1) / 8]? with
    | none => .panic
    | some x => .ok ((x &&& ((0x80 : UInt8) >>> ((pos - 1) % 8).toUInt8)) != 0)

/-- number of bits needed to write `x`: `for xor := x; xor != 0; xor >>= 1 { j++ }` -/
def bitLenAux : Nat → Nat → Nat
  | 0, _ => 0
  | f + 1, x => if x = 0 then 0 else 1 + bitLenAux f (x / 2)

def bitLen (x : UInt8) : Nat := bitLenAux 8 x.toNat

/-- `DiffPos` once one of the strings is exhausted: the rest of the other one is compared with zero bytes -/
def diffPosZero : List UInt8 → Nat → Nat
  | [], _ => 0
  | x :: xs, i => if x == 0 then diffPosZero xs (i + 1) else (i + 1) * 8 - bitLen x + 1

/-- the scanning loop of `DiffPos`; `i` counts the bytes consumed.
```go
for x == y {
    if i >= len(b.bits) && i >= len(c.bits) { return 0 /* or a length position, see `diffPos` */ }
    x = b.bits[i] or 0; y = c.bits[i] or 0; i++
}
for xor := x ^ y; xor != 0; xor >>= 1 { j++ }
return i*8 - j + 1
``` -/
def diffPosFrom : List UInt8 → List UInt8 → Nat → Nat
  | [], ys, i => diffPosZero ys i
  | x :: xs, [], i => diffPosZero (x :: xs) i
  | x :: xs, y :: ys, i =>
    if x == y then diffPosFrom xs ys (i + 1) else (i + 1) * 8 - bitLen (x ^^^ y) + 1

/-- `DiffPos`: position of the leftmost differing bit of the zero-padded strings; if there is none (the loop
has consumed both strings): the first length position at which they differ, 0 for equal lengths
```go
if i >= len(b.bits) && i >= len(c.bits) {
    if len(b.bits) != len(c.bits) { return lenPos + min(len(b.bits), len(c.bits)) + 1 }
    return 0
}
``` -/
def diffPos (b c : BitString) : Nat :=
  if diffPosFrom b c 0 = 0 ∧ b.length ≠ c.length then lenPos + min b.length c.length + 1 else diffPosFrom b c 0

/-- `Equal`: same `len` and same bytes -/
def equal (b c : BitString) : Bool := b.length == c.length && b == c

/-- `b.HasPrefix(c)` for whole-byte strings: every byte of `c` equals the byte of `b` at the same
index, a missing byte of `b` counting as 0 -/
def hasPrefix : BitString → BitString → Bool
  | _, [] => true
  | [], y :: ys => y == 0 && hasPrefix [] ys
  | x :: xs, y :: ys => x == y && hasPrefix xs ys

/-- `bitPattern.Bit(pos)`: `'0'`, `'1'` or `'*'` (returned as that byte)
```go
if pos > lenPos { if pos-lenPos <= len(b.bits) { return '1' }; return '0' }
if pos > b.len { return '0' }
i := pos - 1; var mask byte = 0x80 >> (i % 8)
if b.bits[i/8] == '*' { return '*' }
if b.bits[i/8]&mask == 0 { return '0' } else { return '1' }
``` -/
def patBit (b : BitString) (pos : Nat) : Outcome UInt8 :=
  if pos > lenPos then .ok (if pos - lenPos ≤ b.length then 49 else 48)
  else if pos > b.len then .ok 48
  else if pos = 0 then .panic
  else
    match b[(pos - 1) / 8]? with
    | none => .panic
    | some x =>
      if x == star then .ok star
      else if (x &&& ((0x80 : UInt8) >>> ((pos - 1) % 8).toUInt8)) == 0 then .ok 48 else .ok 49

/-- `bitPattern.Matches(c)` (added by the D9c fix): same `len`, and byte-wise equal or `'*'` -/
def patMatches (pat c : BitString) : Bool := kmatches pat c

end BitString

/-! ## Patricia trie -/

structure PNode (V : Type) where
  bp : Nat
  key : BitString
  val : V
  left : Option Nat
  right : Option Nat
  deriving Repr, Inhabited, DecidableEq

structure Patricia (V : Type) where
  size : Int := 0
  root : Option Nat := none
  nodes : Array (PNode V) := #[]
  deriving Repr, DecidableEq

namespace Patricia

def new : Patricia V := {}

/-- dereference a pointer -/
def node (t : Patricia V) (p : Option Nat) : Outcome (PNode V) :=
  match p with
  | none => .panic
  | some i => match t.nodes[i]? with
    | some n => .ok n
    | none => .panic

def fuel (t : Patricia V) : Nat := t.nodes.size + 1

def setLeft (t : Patricia V) (i : Nat) (l : Option Nat) : Patricia V :=
  { t with nodes := t.nodes.modify i fun n => { n with left := l } }
def setRight (t : Patricia V) (i : Nat) (r : Option Nat) : Patricia V :=
  { t with nodes := t.nodes.modify i fun n => { n with right := r } }

/-- the loop of `search`: `for prev := t.root; curr.bp > prev.bp; { prev = curr; curr = Bit ? right : left }` -/
def searchLoop (t : Patricia V) (key : BitString) : Nat → Nat → Option Nat → Outcome (Option Nat)
  | 0, _, _ => .diverge
  | f + 1, prevBp, curr => do
    let c ← t.node curr
    if c.bp > prevBp then
      let b ← key.bit c.bp
      searchLoop t key f c.bp (if b then c.right else c.left)
    else pure curr

/-- `search(bitKey)`: the node the first upward link on the key's path points to (nil if empty) -/
def search (t : Patricia V) (key : BitString) : Outcome (Option Nat) :=
  match t.root with
  | none => .ok none
  | some r => do
    let rt ← t.node (some r)
    searchLoop t key t.fuel rt.bp rt.left

/-- the descent of `_put`: `for next.bp > prev.bp && next.bp < diffPos { prev = next; next = … }`;
returns `(prev, next)` -/
def putLoop (t : Patricia V) (key : BitString) (diffPos : Nat) :
    Nat → Option Nat → Option Nat → Outcome (Option Nat × Option Nat)
  | 0, _, _ => .diverge
  | f + 1, prev, next => do
    let p ← t.node prev
    let n ← t.node next
    if n.bp > p.bp && n.bp < diffPos then
      let b ← key.bit n.bp
      putLoop t key diffPos f next (if b then n.right else n.left)
    else pure (prev, next)

/-- `_put(key, val)` -/
def put (t : Patricia V) (key : BitString) (v : V) : Outcome (Patricia V) :=
  match t.root with
  | none =>
    -- t.root = &node{bp: 0, key, val}; t.root.left = t.root; t.size = 1
    let i := t.nodes.size
    .ok { size := 1, root := some i, nodes := t.nodes.push { bp := 0, key := key, val := v, left := some i, right := none } }
  | some r => do
    let last ← t.search key
    let ln ← t.node last
    if ln.key.equal key then
      match last with
      | some li => pure { t with nodes := t.nodes.modify li fun n => { n with val := v } }
      | none => .panic
    else
      let diffPos := ln.key.diffPos key
      let rt ← t.node (some r)
      let (prev, next) ← putLoop t key diffPos t.fuel (some r) rt.left
      let b ← key.bit diffPos
      let i := t.nodes.size
      let new : PNode V :=
        if b then { bp := diffPos, key := key, val := v, left := next, right := some i }
        else { bp := diffPos, key := key, val := v, left := some i, right := next }
      let p ← t.node prev
      match prev with
      | none => .panic
      | some pi =>
        let t1 : Patricia V := { t with nodes := t.nodes.push new }
        let t2 := if p.left == next then t1.setLeft pi (some i) else t1.setRight pi (some i)
        pure { t2 with size := t.size + 1 }

def get (t : Patricia V) (key : BitString) : Outcome (Option V) := do
  match ← t.search key with
  | none => pure none
  | some i =>
    let n ← t.node (some i)
    pure (if n.key.equal key then some n.val else none)

/-- `remove(n, r, rp, np)` — all four are non-nil pointers -/
def remove (t : Patricia V) (n r rp np : Nat) : Outcome (Patricia V) := do
  let nn ← t.node (some n)
  let rn ← t.node (some r)
  -- c: the other child of the referrer
  let c ← (if some r == t.root then pure rn.left else do
    let b ← nn.key.bit rn.bp
    pure (if b then rn.left else rn.right))
  let t' ← (if n == r then do
      -- Case 1: remove a leaf node
      let npn ← t.node (some np)
      let goRight ← (if some np != t.root then nn.key.bit npn.bp else pure false)
      pure (if goRight then t.setRight np c else t.setLeft np c)
    else do
      -- Case 2: remove a non-leaf node
      let rpn ← t.node (some rp)
      let goRight ← (if some rp != t.root then nn.key.bit rpn.bp else pure false)
      let t1 := if goRight then t.setRight rp c else t.setLeft rp c
      let npn ← t1.node (some np)
      let goRight2 ← (if some np != t.root then nn.key.bit npn.bp else pure false)
      let t2 := if goRight2 then t1.setRight np (some r) else t1.setLeft np (some r)
      let t3 : Patricia V := if some n == t2.root then { t2 with root := some np } else t2
      -- r.bp = n.bp; r.left, r.right = n.left, n.right   (n re-read: rp or np may be n itself)
      let nn' ← t3.node (some n)
      pure { t3 with nodes := t3.nodes.modify r fun x => { x with bp := nn'.bp, left := nn'.left, right := nn'.right } })
  let sz := t.size - 1
  pure (if sz == 0 then { t' with size := sz, root := none } else { t' with size := sz })

/-- first loop of `_delete` / `DeleteMin` / `DeleteMax`:
`for rp, r, n = root, root, root.left; r.bp < n.bp; { rp, r = r, n; n = dir(n) }`;
`dir`: `some key` follows the key's bits, `none` follows `goRight` always -/
def findLoop (t : Patricia V) (key : Option BitString) (goRight : Bool) :
    Nat → Option Nat → Option Nat → Option Nat → Outcome (Option Nat × Option Nat × Option Nat)
  | 0, _, _, _ => .diverge
  | f + 1, rp, r, n => do
    let rn ← t.node r
    let nn ← t.node n
    if rn.bp < nn.bp then
      let b ← (match key with
        | some k => k.bit nn.bp
        | none => pure goRight)
      findLoop t key goRight f r n (if b then nn.right else nn.left)
    else pure (rp, r, n)

/-- second loop: `for np, m = root, root.left; m != n; { np = m; m = dir(m) }` -/
def parentLoop (t : Patricia V) (key : Option BitString) (goRight : Bool) (n : Option Nat) :
    Nat → Option Nat → Option Nat → Outcome (Option Nat)
  | 0, _, _ => .diverge
  | f + 1, np, m =>
    if m != n then do
      let mn ← t.node m
      let b ← (match key with
        | some k => k.bit mn.bp
        | none => pure goRight)
      parentLoop t key goRight n f m (if b then mn.right else mn.left)
    else pure np

/-- common body of `_delete`, `DeleteMin`, `DeleteMax`; returns the removed node's key and value -/
def deleteWith (t : Patricia V) (key : Option BitString) (goRight : Bool) : Outcome (Patricia V × Option (Key × V)) :=
  match t.root with
  | none => .ok (t, none)
  | some r => do
    let rt ← t.node (some r)
    let (rp, rr, n) ← findLoop t key goRight t.fuel (some r) (some r) rt.left
    let nn ← t.node n
    let found := match key with
      | some k => nn.key.equal k
      | none => true
    if !found then pure (t, none)
    else
      -- twice the fuel: the second walk may also follow the final upward link
      let np ← parentLoop t key goRight n (2 * t.fuel) (some r) rt.left
      match n, rr, rp, np with
      | some n, some rr, some rp, some np =>
        let t' ← t.remove n rr rp np
        pure (t', some (nn.key, nn.val))
      | _, _, _, _ => .panic

def delete (t : Patricia V) (key : BitString) : Outcome (Patricia V × Option V) := do
  let (t', r) ← t.deleteWith (some key) false
  pure (t', r.map (·.2))

def deleteMin (t : Patricia V) : Outcome (Patricia V × Option (Key × V)) := t.deleteWith none false
def deleteMax (t : Patricia V) : Outcome (Patricia V × Option (Key × V)) := t.deleteWith none true

/-- `DeleteAll`: `t.size = 0; t.root = nil` (every node becomes unreachable; the store is emptied) -/
def deleteAll (_t : Patricia V) : Patricia V := {}

/-- `_min(n)`: `if n.left.bp <= n.bp { return n.left }; return _min(n.left)` -/
def minLoop (t : Patricia V) : Nat → Option Nat → Outcome (Option (Key × V))
  | 0, _ => .diverge
  | f + 1, n =>
    match n with
    | none => .ok none
    | some _ => do
      let nn ← t.node n
      let l ← t.node nn.left
      if l.bp ≤ nn.bp then pure (some (l.key, l.val)) else minLoop t f nn.left

def min (t : Patricia V) : Outcome (Option (Key × V)) := minLoop t t.fuel t.root

/-- `_max(n)`: `next := n.right` (`n.left` for the root); `if next.bp <= n.bp { return next }; return _max(next)` -/
def maxLoop (t : Patricia V) : Nat → Option Nat → Outcome (Option (Key × V))
  | 0, _ => .diverge
  | f + 1, n =>
    match n with
    | none => .ok none
    | some _ => do
      let nn ← t.node n
      let next := if n == t.root then nn.left else nn.right
      let x ← t.node next
      if x.bp ≤ nn.bp then pure (some (x.key, x.val)) else maxLoop t f next

def max (t : Patricia V) : Outcome (Option (Key × V)) := maxLoop t t.fuel t.root

/-- `_traverse(n, Ascending, visit)`:
```go
if n == nil { return true }
isLeftThread := n.left.bp <= n.bp
isRightThread := n != t.root && n.right.bp <= n.bp
return (!isLeftThread || visit(n.left)) && (isLeftThread || _traverse(n.left)) &&
       (!isRightThread || visit(n.right)) && (isRightThread || _traverse(n.right))
``` -/
def travAsc {σ : Type} (t : Patricia V) (visit : σ → PNode V → σ × Bool) : Nat → Option Nat → σ → Outcome (σ × Bool)
  | 0, _, _ => .diverge
  | f + 1, n, s =>
    match n with
    | none => .ok (s, true)
    | some _ => do
      let nn ← t.node n
      let l ← t.node nn.left
      let isLeftThread := l.bp ≤ nn.bp
      let isRightThread ← (if n != t.root then do let r ← t.node nn.right; pure (decide (r.bp ≤ nn.bp)) else pure false)
      let a ← (if isLeftThread then pure (visit s l) else travAsc t visit f nn.left s)
      if !a.2 then pure (a.1, false) else
      if isRightThread then do
        let r ← t.node nn.right
        pure (visit a.1 r)
      else travAsc t visit f nn.right a.1

/-- `_traverse(n, Descending, visit)`: right link first, then left -/
def travDesc {σ : Type} (t : Patricia V) (visit : σ → PNode V → σ × Bool) : Nat → Option Nat → σ → Outcome (σ × Bool)
  | 0, _, _ => .diverge
  | f + 1, n, s =>
    match n with
    | none => .ok (s, true)
    | some _ => do
      let nn ← t.node n
      let l ← t.node nn.left
      let isLeftThread := l.bp ≤ nn.bp
      let isRightThread ← (if n != t.root then do let r ← t.node nn.right; pure (decide (r.bp ≤ nn.bp)) else pure false)
      let a ← (if isRightThread then do
          let r ← t.node nn.right
          pure (visit s r)
        else travDesc t visit f nn.right s)
      if !a.2 then pure (a.1, false) else
      if isLeftThread then pure (visit a.1 l) else travDesc t visit f nn.left a.1

/-- `t.root.left` when the root exists (the `if t.root != nil { _traverse(t.root.left, …) }` callers) -/
def rootLeft (t : Patricia V) : Outcome (Option Nat) := do
  let rt ← t.node t.root
  pure rt.left

def floor (t : Patricia V) (key : Key) : Outcome (Option (Key × V)) := do
  let r ← t.travAsc (fun (s : Option (Key × V)) n =>
    if klt key n.key then (s, false) else (some (n.key, n.val), true)) t.fuel t.root none
  pure r.1

def ceiling (t : Patricia V) (key : Key) : Outcome (Option (Key × V)) := do
  let r ← t.travDesc (fun (s : Option (Key × V)) n =>
    if klt n.key key then (s, false) else (some (n.key, n.val), true)) t.fuel t.root none
  pure r.1

def select (t : Patricia V) (rank : Int) : Outcome (Option (Key × V)) :=
  if t.root.isNone || rank < 0 || rank ≥ t.size then .ok none
  else do
    let rl ← t.rootLeft
    let r ← t.travAsc (fun (s : Int × Option (Key × V)) n =>
      if s.1 == rank then ((s.1, some (n.key, n.val)), false) else ((s.1 + 1, s.2), true)) t.fuel rl (0, none)
    pure r.1.2

/-- `Rank` (after the D7 fix) -/
def rank (t : Patricia V) (key : Key) : Outcome Int :=
  if t.root.isNone then .ok 0
  else do
    let rl ← t.rootLeft
    let r ← t.travAsc (fun (i : Int) n => if kle key n.key then (i, false) else (i + 1, true)) t.fuel rl 0
    pure r.1

def range (t : Patricia V) (lo hi : Key) : Outcome (List (Key × V)) :=
  if t.root.isNone then .ok []
  else do
    let rl ← t.rootLeft
    let r ← t.travAsc (fun (kvs : List (Key × V)) n =>
      if kle lo n.key && kle n.key hi then (kvs ++ [(n.key, n.val)], true)
      else if klt hi n.key then (kvs, false) else (kvs, true)) t.fuel rl []
    pure r.1

def rangeSize (t : Patricia V) (lo hi : Key) : Outcome Int :=
  if t.root.isNone then .ok 0
  else do
    let rl ← t.rootLeft
    let r ← t.travAsc (fun (i : Int) n =>
      if kle lo n.key && kle n.key hi then (i + 1, true)
      else if klt hi n.key then (i, false) else (i, true)) t.fuel rl 0
    pure r.1

def all (t : Patricia V) : Outcome (List (Key × V)) := do
  let r ← t.travAsc (fun (kvs : List (Key × V)) n => (kvs ++ [(n.key, n.val)], true)) t.fuel t.root []
  pure r.1

/-- `_match(prev, curr, pattern, visit)` (after the D9c fix)
```go
if prev.bp >= curr.bp { if pattern.Matches(curr.key) { visit(curr) }; return }
switch pattern.Bit(curr.bp) { case '0': left; case '1': right; case '*': left, right }
``` -/
def matchLoop (t : Patricia V) (pat : BitString) : Nat → Nat → Option Nat → Outcome (List (Key × V))
  | 0, _, _ => .diverge
  | f + 1, prevBp, curr => do
    let c ← t.node curr
    if prevBp ≥ c.bp then
      pure (if pat.patMatches c.key then [(c.key, c.val)] else [])
    else
      let b ← pat.patBit c.bp
      if b == 48 then matchLoop t pat f c.bp c.left
      else if b == 49 then matchLoop t pat f c.bp c.right
      else if b == star then do
        let l ← matchLoop t pat f c.bp c.left
        let r ← matchLoop t pat f c.bp c.right
        pure (l ++ r)
      else pure []

/-- `Match` (after the D9d fix: nothing on an empty trie) -/
def «match» (t : Patricia V) (pat : Key) : Outcome (List (Key × V)) :=
  match t.root with
  | none => .ok []
  | some _ => do
    let rt ← t.node t.root
    matchLoop t pat t.fuel rt.bp rt.left

/-- descent of `WithPrefix` (after the D9a fix):
`for curr.bp > prev.bp && curr.bp <= bitKey.Len() { prev = curr; curr = Bit ? right : left }` -/
def prefixLoop (t : Patricia V) (key : BitString) : Nat → Option Nat → Option Nat → Outcome (Option Nat × Option Nat)
  | 0, _, _ => .diverge
  | f + 1, prev, curr => do
    let p ← t.node prev
    let c ← t.node curr
    if c.bp > p.bp && c.bp ≤ key.len then
      let b ← key.bit c.bp
      prefixLoop t key f curr (if b then c.right else c.left)
    else pure (prev, curr)

def withPrefix (t : Patricia V) (key : Key) : Outcome (List (Key × V)) :=
  match t.root with
  | none => .ok []
  | some _ => do
    let visit := fun (kvs : List (Key × V)) (n : PNode V) =>
      if n.key.len ≥ BitString.len key && n.key.hasPrefix key then (kvs ++ [(n.key, n.val)], true) else (kvs, true)
    let rt ← t.node t.root
    let (prev, curr) ← prefixLoop t key t.fuel t.root rt.left
    let p ← t.node prev
    let c ← t.node curr
    if c.bp ≤ p.bp then pure (visit [] c).1
    else if c.key.hasPrefix key then do
      let r ← t.travAsc visit t.fuel curr []
      pure r.1
    else pure []

/-- `LongestPrefixOf` (after the D9b fix): `for i := len(key); i > 0; i-- { if v, ok := _get(key[:i]); ok { return } }` -/
def longestLoop (t : Patricia V) (key : Key) : Nat → Outcome (Option (Key × V))
  | 0 => .ok none
  | i + 1 => do
    match ← t.get (key.take (i + 1)) with
    | some v => pure (some (key.take (i + 1), v))
    | none => longestLoop t key i

def longestPrefixOf (t : Patricia V) (key : Key) : Outcome (Option (Key × V)) := longestLoop t key key.length

end Patricia
end AlgoVerif.C06
