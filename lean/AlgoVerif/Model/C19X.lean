import AlgoVerif.Model.C19Run
/-!
# C19: `lexer.Position`, `lexer.Token`, `*InputError` — what a caller sees of a position and of an error

Transcription of `/repo/lexer/lexer.go` (`Position.String`, `Position.Equal`, `Position.IsZero`, `Token.String`,
`Token.Equal`) and of `(*InputError).Error` at the end of `/repo/lexer/input/input.go`.

The file name.  `input.New(filename, src, n)` stores `filename` in the `Input`; no method ever assigns it again,
and its only readers are `pos()` and `forwardPos()`, which copy it into the `Filename` field of every
`lexer.Position` they build.  `Model/C19.lean` therefore keeps `Input` and `Pos` without the field (so do all the
proofs about the buffer), and the full position is `Pos.at filename p` — the `Pos` the Model computed next to the
`filename` that was given to `New`.  `XInput` is the pair the driver runs.

Strings.  A Go `string` is a byte sequence; here `filename`, `Lexeme` and terminal names are Lean `String`s
(well-formed UTF-8) — the correspondence stream only uses such values.  `%d` of a Go `int` is `toString` of an
`Int`; `%s` of a string is the string; `%s` of a value with a `String()` method is that method's result.
Core Lean only.
-/
namespace AlgoVerif.C19

/-! ## `lexer.Position` -/

/-- `type Position struct { Filename string; Offset, Line, Column int }` -/
structure Position where
  filename : String := ""
  offset : Int := 0
  line : Int := 0
  column : Int := 0
  deriving DecidableEq, Repr, Inhabited

/-- `func (p Position) String() string`:
```go
var b bytes.Buffer
if len(p.Filename) > 0 { fmt.Fprintf(&b, "%s:", p.Filename) }
if p.Line > 0 && p.Column > 0 { fmt.Fprintf(&b, "%d:%d", p.Line, p.Column) } else { fmt.Fprintf(&b, "%d", p.Offset) }
return b.String()
``` -/
def Position.String (p : Position) : String :=
  let b := ""
  let b := if p.filename.utf8ByteSize > 0 then b ++ p.filename ++ ":" else b
  if p.line > 0 ∧ p.column > 0 then b ++ toString p.line ++ ":" ++ toString p.column
  else b ++ toString p.offset

/-- `func (p Position) Equal(rhs Position) bool` -/
def Position.Equal (p rhs : Position) : Bool :=
  p.filename == rhs.filename && p.offset == rhs.offset && p.line == rhs.line && p.column == rhs.column

/-- `func (p Position) IsZero() bool { var zero Position; return p == zero }` -/
def Position.IsZero (p : Position) : Bool :=
  let zero : Position := {}
  p == zero

/-- the `lexer.Position` that `pos()` / `forwardPos()` build: the Model's `Pos` with `i.filename` -/
def Pos.at (filename : String) (p : Pos) : Position :=
  { filename := filename, offset := p.offset, line := p.line, column := p.column }

/-! ## `*InputError` -/

/-- `type InputError struct { Description string; Pos lexer.Position }` -/
structure InputError where
  description : String
  pos : Position
  deriving DecidableEq, Repr, Inhabited

/-- `func (e *InputError) Error() string { … fmt.Fprintf(&b, "%s: %s", e.Pos, e.Description) … }` -/
def InputError.Error (e : InputError) : String :=
  e.pos.String ++ ": " ++ e.description

/-- the `Description` of the four `&InputError{…}` literals of `Next` -/
def invalidUtf8 : String := "invalid utf-8 character"

/-- the `*InputError` a `Next` of the Model stands for when it returns `.invalid p` on an `Input` made by
`New(filename, …)` -/
def Pos.invalidError (filename : String) (p : Pos) : InputError :=
  { description := invalidUtf8, pos := p.at filename }

/-! ## what a caller can render of an `Out` -/

/-- the position an operation returned (`Lexeme`, `Skip`, or inside the `*InputError` of `Next`) -/
def Out.position (filename : String) : Out → Option Position
  | .invalid p => some (p.at filename)
  | .lexeme _ p => some (p.at filename)
  | .skipped p => some (p.at filename)
  | _ => none

/-- `err.Error()` of the `*InputError` of a `Next` (`none` for every other result) -/
def Out.errorText (filename : String) : Out → Option String
  | .invalid p => some (p.invalidError filename).Error
  | _ => none

/-! ## `New` with its file name -/

/-- an `Input` together with its (immutable) `filename` field -/
structure XInput where
  filename : String
  inp : Input
  deriving DecidableEq, Repr, Inhabited

/-- `func New(filename string, src io.Reader, n int) (*Input, error)` -/
def XInput.new (filename : String) (src : Reader) (n : Nat) : Outcome (Except ErrKind XInput) :=
  match Input.new src n with
  | .ok (.ok i) => .ok (.ok { filename := filename, inp := i })
  | .ok (.error e) => .ok (.error e)
  | .panic => .panic
  | .diverge => .diverge

/-- one exported method; the file name does not change -/
def XInput.step (x : XInput) (op : Op) : Outcome (XInput × Out) :=
  match x.inp.step op with
  | .ok (i, o) => .ok ({ x with inp := i }, o)
  | .panic => .panic
  | .diverge => .diverge

/-! ## `lexer.Token` (with the part of `grammar.Terminal` it uses) -/

/-- `const Endmarker = Terminal("\uEEEE")` (grammar/symbol.go) -/
def endmarker : String := "\uEEEE"

/-- `strconv.Quote` (`%q`) on the strings it is modelled for: printable ASCII, where only `"` and `\` are
escaped; `none` for anything else (the correspondence stream does not generate such names) -/
def goQuote (s : String) : Option String :=
  if s.toList.all (fun c => 0x20 ≤ c.toNat ∧ c.toNat ≤ 0x7e) then
    some ("\"" ++ String.join (s.toList.map fun c =>
      if c = '"' then "\\\"" else if c = '\\' then "\\\\" else String.singleton c) ++ "\"")
  else none

/-- `func (t Terminal) String() string`: `$` for the end marker, else `fmt.Sprintf("%q", t.Name())`
(`Name()` is `string(t)` for every other terminal) -/
def terminalString (t : String) : Option String :=
  if t = endmarker then some "$" else goQuote t

/-- `type Token struct { grammar.Terminal; Lexeme string; Pos Position }` -/
structure Token where
  terminal : String
  lexeme : String
  pos : Position
  deriving DecidableEq, Repr, Inhabited

/-- `func (t Token) String() string { return fmt.Sprintf("%s <%s, %s>", t.Terminal, t.Lexeme, t.Pos) }` -/
def Token.String (t : Token) : Option String :=
  (terminalString t.terminal).map fun ts => ts ++ " <" ++ t.lexeme ++ ", " ++ t.pos.String ++ ">"

/-- `func (t Token) Equal(rhs Token) bool`
(`Terminal.Equal(Symbol)` on a `Terminal` argument is `t == v`) -/
def Token.Equal (t rhs : Token) : Bool :=
  t.terminal == rhs.terminal && t.lexeme == rhs.lexeme && t.pos.Equal rhs.pos

end AlgoVerif.C19
