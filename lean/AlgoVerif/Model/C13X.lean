import AlgoVerif.Model.C13
/-!
# Model of the read-only part of the public API of `automata/{nfa,dfa}.go` that `Model/C13.lean` does not have

* `NFA.Next` (the exported wrapper of `next`: `nil` when there is no entry, otherwise the members of the
  target set collected into a slice — an entry with an empty target set gives an empty, non-nil slice);
* `DFA.Transitions` / `NFA.Transitions` as Go range-over-func iterators: the iterator calls `yield` for every
  entry of the two-level table in iteration order and **returns as soon as `yield` answers false**
  (`if !yield(tr) { return }` leaves both loops).  The consumer is a parameter: a state `σ` and a function
  `σ → entry → σ × Bool` (new state, "continue?").
* the consumer the harness uses for the op `trans X k`: `for tr := range X.Transitions() { if cnt == k { break };
  out = append(out, tr); cnt++ }`.

(`DFA.Symbols`, `DFA.States`, `NFA.Symbols`, `NFA.States`, `DFA.Next` are `DFA.symbols`, … of `Model/C13.lean`:
the exported methods only collect the set into a slice.)

* `X.Final.Add(s)`: the exported field `Final` is a set the caller may add to in place.  While it is the sorted set
  that `NewNFA`/`NewDFA`/`NewStates` and every operation of the package produce, this is `sorted.add` = `sins`.

Values of the Model do not alias: an automaton is a value, an operation returns a new value, and nothing an
operation returned (state and symbol slices, `Transition` values, the final map of `CombineDFA`) or was handed
(final and next-state slices, operand lists, words) is connected to an automaton afterwards.  The harness writes to
all of those after every call (Exec: `scribStates`, `scribSymbols`, `clear`) and uses one object several times in
one call; the Model needs no operation for either.
-/
namespace AlgoVerif.C13
open AlgoVerif

/-- `n.Next(s, a)`: `if next := n.next(s, a); next != nil { return Collect1(next.All()) }; return nil` -/
def NFA.nextPub (n : NFA) (s : State) (a : Symbol) : Option (List State) :=
  match n.next s a with
  | some nx => some nx
  | none => none

/-- `n.Final.Add(s)` (Final a sorted set) -/
def NFA.addFinal (n : NFA) (s : State) : NFA := { n with final := sins s n.final }

/-- `d.Final.Add(s)` (Final a sorted set) -/
def DFA.addFinal (d : DFA) (s : State) : DFA := { d with final := sins s d.final }

/-- the inner loop `for a, next := range strans.All() { tr := …; if !yield(tr) { return } }` for the source state `s`;
the `Bool` of the result says whether the iterator goes on (`false` = the `return` was taken) -/
def iterInner {β σ : Type} (yield : σ → State × Symbol × β → σ × Bool) (s : State) :
    List (Symbol × β) → σ → σ × Bool
  | [], st => (st, true)
  | e :: es, st =>
    match yield st (s, e.1, e.2) with
    | (st', true) => iterInner yield s es st'
    | (st', false) => (st', false)

/-- the outer loop `for s, strans := range trans.All() { … }` -/
def iterOuter {β σ : Type} (yield : σ → State × Symbol × β → σ × Bool) :
    List (State × List (Symbol × β)) → σ → σ
  | [], st => st
  | t :: ts, st =>
    match iterInner yield t.1 t.2 st with
    | (st', true) => iterOuter yield ts st'
    | (st', false) => st'

/-- `for tr := range d.Transitions() { body }` with `body` = `yield` -/
def DFA.transitionsIter {σ : Type} (d : DFA) (yield : σ → State × Symbol × State → σ × Bool) (init : σ) : σ :=
  iterOuter yield d.trans init

/-- `for tr := range n.Transitions() { body }`; `Next: generic.Collect1(next.All())` is the target list itself -/
def NFA.transitionsIter {σ : Type} (n : NFA) (yield : σ → State × Symbol × List State → σ × Bool) (init : σ) : σ :=
  iterOuter yield n.trans init

/-- the loop body of the harness op `trans X k`: `if cnt == k { break }; out = append(out, tr); cnt++`
(state = `(out, cnt)`) -/
def takeYield {α : Type} (k : Nat) (st : List α × Nat) (tr : α) : (List α × Nat) × Bool :=
  if st.2 = k then (st, false) else ((st.1 ++ [tr], st.2 + 1), true)

/-- the transitions the op `trans X k` collects from a DFA -/
def DFA.transPrefix (d : DFA) (k : Nat) : List (State × Symbol × State) :=
  (d.transitionsIter (takeYield k) ([], 0)).1

/-- the transitions the op `trans X k` collects from an NFA -/
def NFA.transPrefix (n : NFA) (k : Nat) : List (State × Symbol × List State) :=
  (n.transitionsIter (takeYield k) ([], 0)).1

end AlgoVerif.C13
