import AlgoVerif.Model.GrammarCore
/-!
# Model for C10 / C12 — nullable, FIRST, FOLLOW, IsLL1, the predictive parsing table, the predictive
parser and its AST construction

Mirrors (after the D16 and D19 fixes)

* `grammar/cfg.go`: `Verify`, `NullableNonTerminals`, `ComputeFIRST`, `ComputeFOLLOW`, `IsLL1`
* `parser/predictive/parsing_table.go`: `BuildParsingTable`, `Conflicts`, `IsEmpty`, `IsSync`, `GetProduction`
* `parser/predictive/predictive.go`: `Parse`, `ParseAndBuildAST`

Conventions.

* Unordered Go sets are duplicate-free lists; `union` appends the new members, and the Go test
  "`Size()` grew" is "the list got longer".
* The hash tables `firstBySymbol` / `follow` are total functions on non-terminals (`N → …`); a
  terminal's FIRST set is `{t}`.  The Go code nil-dereferences when a symbol is not declared; all
  operations are therefore gated by `validB` (= `Verify()`), which is what the property quantifies over.
* Every `for … := range table/set` of the three fixpoint loops visits its elements in a freshly
  shuffled order.  The order is the parameter `IterOrder` (per pass: a reordering of the list of heads
  and a reordering of every list of productions); theorems quantify over all membership-preserving
  reorderings.
* Loops "until nothing changed" carry fuel and answer `Outcome.diverge` when it runs out.
* `G.Productions` is a set: the drivers deduplicate the production list on loading (`NewCFG`), and the
  theorems about `IsLL1` / the table assume `g.prods.Nodup`.
* The parsing table exists twice: `buildTable` is the Go construction call by call (`addProduction`,
  `setSync`, entries in creation order, productions of an entry in insertion order), `cell` / `conflicts`
  are what it amounts to; `Proofs/C10TableEq.lean` proves them equal.  `parseWith` runs on `buildTable`.
* `ParseAndBuildAST` exists twice as well: `astRun` / `buildASTStack` keep the Go code's explicit stack of
  pointers to the nodes still to be completed (a pointer is the path from the root), `buildAST` completes
  the leftmost incomplete node; `Proofs/C12ASTStack.lean` proves them equal.

Core Lean only.
-/
namespace AlgoVerif.C10
open AlgoVerif AlgoVerif.Gram

/-- a production (`Gram.Prod`; the bare name clashes with the product type) -/
abbrev GProd (T N : Type) := Gram.Prod T N

/-! ## sets as duplicate-free lists -/

/-- `a.Union(b)`: `a` followed by the members of `b` that are new -/
def union {α : Type} [DecidableEq α] : List α → List α → List α
  | a, [] => a
  | a, x :: b => union (if x ∈ a then a else a ++ [x]) b

def insertNew {α : Type} [DecidableEq α] (x : α) (l : List α) : List α :=
  if x ∈ l then l else l ++ [x]

def dedup {α : Type} [DecidableEq α] (l : List α) : List α := union [] l

/-- point update of a table -/
def upd {α β : Type} [DecidableEq α] (f : α → β) (a : α) (v : β) : α → β :=
  fun x => if x = a then v else f x

section
variable {T N : Type} [DecidableEq T] [DecidableEq N]

/-! ## `Verify()` -/

def symDeclared (g : Grammar T N) : Sym T N → Bool
  | .term t => decide (t ∈ g.terms)
  | .nonterm n => decide (n ∈ g.nonterms)

/-- `g.Verify() == nil` -/
def validB (g : Grammar T N) : Bool :=
  decide (g.start ∈ g.nonterms)
  && g.prods.any (fun p => decide (p.head = g.start))
  && g.nonterms.all (fun n => g.prods.any (fun p => decide (p.head = n)))
  && g.prods.all (fun p => decide (p.head ∈ g.nonterms) && p.body.all (symDeclared g))

/-! ## iteration order -/

/-- The order in which one pass of a fixpoint loop sees the heads and, per head, the productions.
`heads i l` / `prods i l` is the order used in pass `i` for the list `l`. -/
structure IterOrder (T N : Type) where
  heads : Nat → List N → List N
  prods : Nat → List (GProd T N) → List (GProd T N)

/-- the canonical order (used by the driver; results are order-independent) -/
def IterOrder.canon : IterOrder T N := ⟨fun _ l => l, fun _ l => l⟩

/-- every element is visited: the reorderings preserve membership -/
structure IterOrder.Fair (o : IterOrder T N) : Prop where
  heads : ∀ i l x, x ∈ o.heads i l ↔ x ∈ l
  prods : ∀ i l x, x ∈ o.prods i l ↔ x ∈ l

/-- keys of `g.Productions.table` -/
def headsOf (g : Grammar T N) : List N := dedup (g.prods.map (·.head))

/-- `g.Productions.AllByHead()` as seen by pass `i` -/
def groups (g : Grammar T N) (o : IterOrder T N) (i : Nat) : List (N × List (GProd T N)) :=
  (o.heads i (headsOf g)).map fun h => (h, o.prods i (g.prods.filter fun p => decide (p.head = h)))

/-- all productions in the order pass `i` sees them -/
def passProds (g : Grammar T N) (o : IterOrder T N) (i : Nat) : List (GProd T N) :=
  (groups g o i).flatMap (·.2)

/-! ## `NullableNonTerminals` -/

/-- `len(n) == len(p.Body) && nullable.Contains(n...)` -/
def bodyAllIn (nul : List N) (body : List (Sym T N)) : Bool :=
  body.all fun s => match s with
    | .term _ => false
    | .nonterm n => decide (n ∈ nul)

/-- the `for p := range list.All()` loop for one head -/
def nullableGroup : List (GProd T N) → List N × Bool → List N × Bool
  | [], st => st
  | p :: ps, (nul, updated) =>
    if p.body.isEmpty then nullableGroup ps (insertNew p.head nul, true)
    else if bodyAllIn nul p.body then nullableGroup ps (insertNew p.head nul, true)
    else nullableGroup ps (nul, updated)

/-- one pass over `AllByHead()` -/
def nullablePass : List (N × List (GProd T N)) → List N × Bool → List N × Bool
  | [], st => st
  | (h, ps) :: rest, (nul, updated) =>
    if h ∈ nul then nullablePass rest (nul, updated)
    else nullablePass rest (nullableGroup ps (nul, updated))

/-- `for updated := true; updated; { … }` -/
def nullableLoop (g : Grammar T N) (o : IterOrder T N) : Nat → Nat → List N → Outcome (List N)
  | 0, _, _ => .diverge
  | fuel + 1, i, nul =>
    let r := nullablePass (groups g o i) (nul, false)
    if r.2 then nullableLoop g o fuel (i + 1) r.1 else .ok r.1

/-- Passes the three loops are given: each pass that reports `updated` adds a member to a family of
`|N|` sets over `|T|` terminals plus one flag each, so `|N|·(|T|+1) + 1` passes always suffice
(`Proofs/C10Term.lean`); only reached for grammars that pass `Verify()`. -/
def fixFuel (g : Grammar T N) : Nat :=
  g.nonterms.length * (g.terms.length + 1) + 2

def nullable (g : Grammar T N) (o : IterOrder T N) : Outcome (List N) :=
  nullableLoop g o (fixFuel g) 0 []

/-! ## `ComputeFIRST` -/

/-- `*TerminalsAndEmpty` -/
structure TE (T : Type) where
  terms : List T
  eps : Bool
  deriving Repr, DecidableEq

/-- `firstBySymbol.Get(Y)` -/
def firstSym (st : N → TE T) : Sym T N → TE T
  | .term t => ⟨[t], false⟩
  | .nonterm n => st n

/-- `for _, Y := range p.Body { … }` of `ComputeFIRST`; answers (table, updated, allIncludesEmpty).
`firstY` is read from the live table, so `Y = X` sees the terminals just added. -/
def firstBody (X : N) : List (Sym T N) → (N → TE T) → Bool → (N → TE T) × Bool × Bool
  | [], st, updated => (st, updated, true)
  | Y :: rest, st, updated =>
    let fx := st X
    let fy := firstSym st Y
    let t' := union fx.terms fy.terms
    let st' := upd st X ⟨t', fx.eps⟩
    let updated' := updated || decide (t'.length > fx.terms.length)
    if fy.eps then firstBody X rest st' updated' else (st', updated', false)

/-- the body of `for p := range prods.All()` -/
def firstProd (p : GProd T N) (st : N → TE T) (updated : Bool) : (N → TE T) × Bool :=
  let X := p.head
  if p.body.isEmpty then
    (upd st X ⟨(st X).terms, true⟩, updated || !(st X).eps)
  else
    let r := firstBody X p.body st updated
    let fx := r.1 X
    (upd r.1 X ⟨fx.terms, fx.eps || r.2.2⟩, r.2.1 || (r.2.2 && !fx.eps))

def firstPass : List (GProd T N) → (N → TE T) × Bool → (N → TE T) × Bool
  | [], st => st
  | p :: ps, (st, updated) => firstPass ps (firstProd p st updated)

def firstLoop (g : Grammar T N) (o : IterOrder T N) : Nat → Nat → (N → TE T) → Outcome (N → TE T)
  | 0, _, _ => .diverge
  | fuel + 1, i, st =>
    let r := firstPass (passProds g o i) (st, false)
    if r.2 then firstLoop g o fuel (i + 1) r.1 else .ok r.1

/-- the table `firstBySymbol` restricted to non-terminals, after the loop -/
def computeFirst (g : Grammar T N) (o : IterOrder T N) : Outcome (N → TE T) :=
  firstLoop g o (fixFuel g) 0 (fun _ => ⟨[], false⟩)

/-- the returned closure `FIRST(α)` (accumulating left to right, stopping at the first symbol without ε) -/
def firstStrAux (st : N → TE T) : List (Sym T N) → List T → TE T
  | [], acc => ⟨acc, true⟩
  | X :: rest, acc =>
    let f := firstSym st X
    if f.eps then firstStrAux st rest (union acc f.terms) else ⟨union acc f.terms, false⟩

def firstStr (st : N → TE T) (α : List (Sym T N)) : TE T := firstStrAux st α []

/-- the closure as the caller sees it: `panic("undefined grammar symbol")` when it reaches an undeclared symbol -/
def firstStrO (g : Grammar T N) (st : N → TE T) : List (Sym T N) → List T → Outcome (TE T)
  | [], acc => .ok ⟨acc, true⟩
  | X :: rest, acc =>
    if symDeclared g X then
      let f := firstSym st X
      if f.eps then firstStrO g st rest (union acc f.terms) else .ok ⟨union acc f.terms, false⟩
    else .panic

/-! ## `ComputeFOLLOW` -/

/-- `*TerminalsAndEndmarker` -/
structure TEnd (T : Type) where
  terms : List T
  endm : Bool
  deriving Repr, DecidableEq

/-- `for i, X := range p.Body { if B, ok := X.(NonTerminal) … }`.  `followA` is fetched after `followB`
was updated, and both are pointers into the live table (so `A = B` aliases). -/
def followBody (first : List (Sym T N) → TE T) (A : N) :
    List (Sym T N) → (N → TEnd T) → Bool → (N → TEnd T) × Bool
  | [], fo, updated => (fo, updated)
  | .term _ :: β, fo, updated => followBody first A β fo updated
  | .nonterm B :: β, fo, updated =>
    let fβ := first β
    let fB := fo B
    let t1 := union fB.terms fβ.terms
    let updated1 := updated || decide (t1.length > fB.terms.length)
    let fo1 := upd fo B ⟨t1, fB.endm⟩
    if fβ.eps then
      let fA := fo1 A
      let t2 := union t1 fA.terms
      let updated2 := updated1 || decide (t2.length > t1.length)
      let updated3 := updated2 || (fA.endm && !fB.endm)
      let fo2 := upd fo1 B ⟨t2, fB.endm || fA.endm⟩
      followBody first A β fo2 updated3
    else followBody first A β fo1 updated1

def followPass (first : List (Sym T N) → TE T) :
    List (GProd T N) → (N → TEnd T) × Bool → (N → TEnd T) × Bool
  | [], st => st
  | p :: ps, (fo, updated) => followPass first ps (followBody first p.head p.body fo updated)

def followLoop (g : Grammar T N) (o : IterOrder T N) (first : List (Sym T N) → TE T) :
    Nat → Nat → (N → TEnd T) → Outcome (N → TEnd T)
  | 0, _, _ => .diverge
  | fuel + 1, i, fo =>
    let r := followPass first (passProds g o i) (fo, false)
    if r.2 then followLoop g o first fuel (i + 1) r.1 else .ok r.1

/-- FOLLOW sets start empty, `$ ∈ FOLLOW(S)` -/
def followInit (g : Grammar T N) : N → TEnd T :=
  fun n => ⟨[], decide (n = g.start)⟩

def computeFollow (g : Grammar T N) (o : IterOrder T N) (first : List (Sym T N) → TE T) :
    Outcome (N → TEnd T) :=
  followLoop g o first (fixFuel g) 0 (followInit g)

/-! ## `IsLL1` -/

/-- all `(l[i], l[j])` with `i < j` -/
def pairs {α : Type} : List α → List (α × α)
  | [] => []
  | x :: xs => xs.map (fun y => (x, y)) ++ pairs xs

def inter (a b : List T) : List T := a.filter fun x => decide (x ∈ b)

/-- the three `LL1Error`s of one pair of alternatives -/
inductive LL1Err (T N : Type) where
  /-- "FIRST(α) and FIRST(β) are not disjoint sets" -/
  | firstFirst (A : N) (α β : List (Sym T N))
  /-- "ε is in FIRST(eps), but FOLLOW(A) and FIRST(other) are not disjoint sets" -/
  | epsFollow (A : N) (eps other : List (Sym T N))
  deriving Repr

def ll1Pair (fi : List (Sym T N) → TE T) (fo : N → TEnd T) (A : N) (α β : List (Sym T N)) :
    List (LL1Err T N) :=
  let fα := fi α
  let fβ := fi β
  let fA := fo A
  (if !(inter fα.terms fβ.terms).isEmpty || (fα.eps && fβ.eps) then [LL1Err.firstFirst A α β] else [])
  ++ (if fα.eps && !(inter fβ.terms fA.terms).isEmpty then [LL1Err.epsFollow A α β] else [])
  ++ (if fβ.eps && !(inter fα.terms fA.terms).isEmpty then [LL1Err.epsFollow A β α] else [])

/-- the errors `IsLL1` collects (it answers nil iff this list is empty) -/
def ll1Errors (g : Grammar T N) (fi : List (Sym T N) → TE T) (fo : N → TEnd T) : List (LL1Err T N) :=
  (headsOf g).flatMap fun A =>
    (pairs (g.prods.filter fun p => decide (p.head = A))).flatMap fun pq =>
      ll1Pair fi fo A pq.1.body pq.2.body

/-! ## `BuildParsingTable` -/

/-- is `p` added to `M[p.head, a]` (`a = none` is the endmarker column) -/
def inCell (fi : List (Sym T N) → TE T) (fo : N → TEnd T) (p : GProd T N) : Option T → Bool
  | some a =>
    let f := fi p.body
    decide (a ∈ f.terms) || (f.eps && decide (a ∈ (fo p.head).terms))
  | none => (fi p.body).eps && (fo p.head).endm

/-- `M[A,a].Productions` -/
def cell (g : Grammar T N) (fi : List (Sym T N) → TE T) (fo : N → TEnd T) (A : N) (a : Option T) :
    List (GProd T N) :=
  g.prods.filter fun p => decide (p.head = A) && inCell fi fo p a

/-- `M[A,a].Sync`: set for `a ∈ FOLLOW(A)` when the entry holds no production -/
def syncCell (g : Grammar T N) (fi : List (Sym T N) → TE T) (fo : N → TEnd T) (A : N) : Option T → Bool
  | some a => decide (a ∈ (fo A).terms) && (cell g fi fo A (some a)).isEmpty
  | none => (fo A).endm && (cell g fi fo A none).isEmpty

/-- columns of the table: the terminals and the endmarker -/
def columns (g : Grammar T N) : List (Option T) := g.terms.map some ++ [none]

/-- `Conflicts()`: the cells holding more than one production -/
def conflicts (g : Grammar T N) (fi : List (Sym T N) → TE T) (fo : N → TEnd T) : List (N × Option T) :=
  g.nonterms.flatMap fun A =>
    (columns g).filterMap fun a => if (cell g fi fo A a).length > 1 then some (A, a) else none

/-! ## `BuildParsingTable`, call by call

The table as the Go code builds it: a map from `(A, a)` to an entry (a set of productions, kept here in
insertion order, and the sync flag), filled by the `addProduction` / `setSync` calls in the order the code
makes them.  `Proofs/C10TableEq.lean` shows that its cells are the `cell`s above. -/

/-- `*parsingTableEntry` -/
structure Entry (T N : Type) where
  prods : List (GProd T N)
  sync : Bool
  deriving Repr

/-- `ParsingTable.table`: entries in creation order -/
abbrev PTable (T N : Type) := List ((N × Option T) × Entry T N)

/-- `getEntry` -/
def PTable.get (t : PTable T N) (A : N) (a : Option T) : Option (Entry T N) :=
  match t with
  | [] => none
  | (k, e) :: rest => if k.1 = A ∧ k.2 = a then some e else PTable.get rest A a

/-- `ensureEntry` followed by an update of the entry through the pointer it returns -/
def PTable.modify (t : PTable T N) (A : N) (a : Option T) (f : Entry T N → Entry T N) : PTable T N :=
  match t with
  | [] => [((A, a), f ⟨[], false⟩)]
  | (k, e) :: rest => if k.1 = A ∧ k.2 = a then (k, f e) :: rest else (k, e) :: PTable.modify rest A a f

/-- `addProduction`: no-op on an entry marked sync -/
def addProduction (t : PTable T N) (A : N) (a : Option T) (p : GProd T N) : PTable T N :=
  t.modify A a fun e => if e.sync then e else ⟨insertNew p e.prods, e.sync⟩

/-- `setSync`: no-op on an entry that holds productions -/
def setSync (t : PTable T N) (A : N) (a : Option T) (s : Bool) : PTable T N :=
  t.modify A a fun e => if e.prods.isEmpty then ⟨e.prods, s⟩ else e

/-- the columns `addProduction(A, ·, p)` is called with for one production, in call order:
FIRST(α), then — if ε ∈ FIRST(α) — FOLLOW(A) and, if `$ ∈ FOLLOW(A)`, the endmarker -/
def prodColumns (fi : List (Sym T N) → TE T) (fo : N → TEnd T) (p : GProd T N) : List (Option T) :=
  let f := fi p.body
  f.terms.map some ++
    (if f.eps then (fo p.head).terms.map some ++ (if (fo p.head).endm then [none] else []) else [])

/-- body of `for p := range G.Productions.All()` -/
def addProd (fi : List (Sym T N) → TE T) (fo : N → TEnd T) (t : PTable T N) (p : GProd T N) : PTable T N :=
  (prodColumns fi fo p).foldl (fun t c => addProduction t p.head c p) t

/-- body of `for _, A := range nonTerminals` (the synchronisation sets) -/
def syncRow (fo : N → TEnd T) (t : PTable T N) (A : N) : PTable T N :=
  ((fo A).terms.map some ++ (if (fo A).endm then [none] else [])).foldl (fun t c => setSync t A c true) t

/-- `BuildParsingTable`: `ps` is the order in which `G.Productions.All()` yields the productions, `rows`
the order of `OrderNonTerminals` -/
def buildTable (fi : List (Sym T N) → TE T) (fo : N → TEnd T) (ps : List (GProd T N)) (rows : List N) :
    PTable T N :=
  rows.foldl (syncRow fo) (ps.foldl (addProd fi fo) [])

/-- `M[A,a].Productions` (empty when there is no entry) -/
def tcell (t : PTable T N) (A : N) (a : Option T) : List (GProd T N) :=
  match t.get A a with
  | some e => e.prods
  | none => []

/-- `IsSync` -/
def tsync (t : PTable T N) (A : N) (a : Option T) : Bool :=
  match t.get A a with
  | some e => e.prods.isEmpty && e.sync
  | none => false

/-- `Conflicts()`: rows and columns in the order the table was created with -/
def tconflicts (t : PTable T N) (rows : List N) (cols : List (Option T)) : List (N × Option T) :=
  rows.flatMap fun A => cols.filterMap fun a => if (tcell t A a).length > 1 then some (A, a) else none

/-! ## the analyses of one grammar, bundled -/

structure Analysis (T N : Type) where
  first : N → TE T
  follow : N → TEnd T

def analyse (g : Grammar T N) (o₁ o₂ : IterOrder T N) : Outcome (Analysis T N) :=
  match computeFirst g o₁ with
  | .ok fi =>
    match computeFollow g o₂ (firstStr fi) with
    | .ok fo => .ok ⟨fi, fo⟩
    | .panic => .panic
    | .diverge => .diverge
  | .panic => .panic
  | .diverge => .diverge

/-! ## `Parse` -/

/-- what `Parse` hands to its two callbacks -/
inductive Event (T N : Type) where
  | tok (t : T) (pos : Nat)
  | prod (p : GProd T N)
  deriving Repr

inductive Reject where
  /-- "unexpected terminal … on stack" -/
  | terminal
  /-- "unacceptable input … for non-terminal" -/
  | noEntry
  /-- stack is `$`, input is not (the D19 check) -/
  | trailing
  deriving Repr, DecidableEq

inductive PResult (T N : Type) where
  | accept (events : List (Event T N))
  | reject (why : Reject)
  deriving Repr

/-- The loop of `Parse`.  `stack` is the stack above the bottom `$`; `input` is what is left of the
token stream (the current token is its head, `$` when it is empty); `pos` counts consumed tokens;
`evs` is what the callbacks have received so far, newest first. -/
def parseLoop (M : N → Option T → List (GProd T N)) :
    Nat → List (Sym T N) → List T → Nat → List (Event T N) → Outcome (PResult T N)
  | 0, _, _, _, _ => .diverge
  | _ + 1, [], [], _, evs => .ok (.accept evs.reverse)
  | _ + 1, [], _ :: _, _, _ => .ok (.reject .trailing)
  | fuel + 1, .term t :: stack, input, pos, evs =>
    match input with
    | a :: rest => if t = a then parseLoop M fuel stack rest (pos + 1) (.tok t pos :: evs) else .ok (.reject .terminal)
    | [] => .ok (.reject .terminal)
  | fuel + 1, .nonterm A :: stack, input, pos, evs =>
    match M A input.head? with
    | [] => .ok (.reject .noEntry)
    | [p] => parseLoop M fuel (p.body ++ stack) input pos (.prod p :: evs)
    | _ :: _ :: _ => .panic   -- `GetProduction` answers nil; unreachable behind the `Conflicts()` gate

/-- result of `Parse` including the table gate -/
inductive ParseOut (T N : Type) where
  | tableError
  | done (r : PResult T N)
  deriving Repr

/-- `Parse`: build the table (production and row order do not matter for what follows: the canonical ones
are used), refuse on `Conflicts()`, run the loop -/
def parseWith (g : Grammar T N) (an : Analysis T N) (fuel : Nat) (w : List T) : Outcome (ParseOut T N) :=
  let t := buildTable (firstStr an.first) an.follow g.prods g.nonterms
  if (tconflicts t g.nonterms (columns g)).isEmpty then
    (parseLoop (tcell t) fuel [.nonterm g.start] w 0 []).map .done
  else .ok .tableError

/-- the same with the table given by its cells (`Proofs/C10TableEq.lean`: equal when `g.prods.Nodup`) -/
def parseWithCells (g : Grammar T N) (an : Analysis T N) (fuel : Nat) (w : List T) : Outcome (ParseOut T N) :=
  let fi := firstStr an.first
  if (conflicts g fi an.follow).isEmpty then
    (parseLoop (cell g fi an.follow) fuel [.nonterm g.start] w 0 []).map .done
  else .ok .tableError

/-! ## `ParseAndBuildAST`

The Go code keeps a stack of pointers to the nodes that still wait for their production / lexeme; the
stack order is the pre-order of those nodes in the tree under construction, so "pop the top node and
complete it" is "complete the leftmost incomplete node of the tree".  The Model keeps the tree with
its incomplete nodes and completes the leftmost one. -/

inductive Tree (T N : Type) where
  | leaf (t : T) (tok : Option Nat)
  | node (A : N) (prod : Option (GProd T N)) (kids : List (Tree T N))
  deriving Repr

/-- children created by the production callback -/
def newKids (body : List (Sym T N)) : List (Tree T N) :=
  body.map fun s => match s with
    | .term t => Tree.leaf t none
    | .nonterm n => Tree.node n none []

mutual
/-- complete the leftmost incomplete node with event `e`; `none`: no incomplete node in this subtree;
`some (.panic)`: the node has the wrong kind (nil type assertion in the Go code) -/
def fillTree (e : Event T N) : Tree T N → Option (Outcome (Tree T N))
  | .leaf _ (some _) => none
  | .leaf t none =>
    match e with
    | .tok _ pos => some (.ok (.leaf t (some pos)))
    | .prod _ => some .panic
  | .node A none _ =>
    match e with
    | .prod p => some (.ok (.node A (some p) (newKids p.body)))
    | .tok _ _ => some .panic
  | .node A (some p) kids =>
    match fillKids e kids with
    | none => none
    | some (.ok kids') => some (.ok (.node A (some p) kids'))
    | some .panic => some .panic
    | some .diverge => some .diverge

def fillKids (e : Event T N) : List (Tree T N) → Option (Outcome (List (Tree T N)))
  | [] => none
  | k :: ks =>
    match fillTree e k with
    | some (.ok k') => some (.ok (k' :: ks))
    | some .panic => some .panic
    | some .diverge => some .diverge
    | none =>
      match fillKids e ks with
      | none => none
      | some (.ok ks') => some (.ok (k :: ks'))
      | some .panic => some .panic
      | some .diverge => some .diverge
end

/-- feed the events to the builder; an event with no incomplete node left pops an empty stack → nil → panic -/
def buildAST : List (Event T N) → Tree T N → Outcome (Tree T N)
  | [], t => .ok t
  | e :: es, t =>
    match fillTree e t with
    | some (.ok t') => buildAST es t'
    | some .panic => .panic
    | some .diverge => .diverge
    | none => .panic

mutual
/-- leaves left to right: terminal and token index (none: never completed) -/
def Tree.frontier : Tree T N → List (T × Option Nat)
  | .leaf t k => [(t, k)]
  | .node _ _ kids => frontierKids kids
def frontierKids : List (Tree T N) → List (T × Option Nat)
  | [] => []
  | k :: ks => k.frontier ++ frontierKids ks
end

/-- the yield of the tree (terminal symbols of the leaves) -/
def Tree.yield (t : Tree T N) : List T := t.frontier.map (·.1)

/-! ### the builder with the Go code's explicit stack of node pointers

A pointer to a node of the tree under construction is the path to it from the root (child indices): the
heap the callbacks build is a tree, every node is referenced by its parent's `Children` and — while it
waits for completion — by the stack.  `astStep` is one callback: pop the pointer, complete the node it
points to, push pointers to the new children (last child first, so the first child is on top).
`Proofs/C12ASTStack.lean` shows that this is `buildAST`. -/

mutual
/-- apply `f` to the node at path `π` -/
def updateAt (f : Tree T N → Outcome (Tree T N)) : List Nat → Tree T N → Outcome (Tree T N)
  | [], t => f t
  | _ :: _, .leaf _ _ => .panic
  | i :: π, .node A p kids =>
    match updateKid f i π kids with
    | .ok kids' => .ok (.node A p kids')
    | .panic => .panic
    | .diverge => .diverge
def updateKid (f : Tree T N → Outcome (Tree T N)) : Nat → List Nat → List (Tree T N) → Outcome (List (Tree T N))
  | _, _, [] => .panic
  | 0, π, k :: ks =>
    match updateAt f π k with
    | .ok k' => .ok (k' :: ks)
    | .panic => .panic
    | .diverge => .diverge
  | i + 1, π, k :: ks =>
    match updateKid f i π ks with
    | .ok ks' => .ok (k :: ks')
    | .panic => .panic
    | .diverge => .diverge
end

/-- the token callback on the popped node: `lf, _ := n.(*LeafNode); lf.Lexeme = …` -/
def completeLeaf (pos : Nat) : Tree T N → Outcome (Tree T N)
  | .leaf t _ => .ok (.leaf t (some pos))
  | .node _ _ _ => .panic

/-- the production callback on the popped node: `in, _ := n.(*InternalNode); in.Production = prod`, children
prepended one by one (so they end up in body order, in front of whatever was there) -/
def completeNode (p : GProd T N) : Tree T N → Outcome (Tree T N)
  | .node A _ kids => .ok (.node A (some p) (newKids p.body ++ kids))
  | .leaf _ _ => .panic

/-- one callback; the state is the tree and the stack of pointers (top first) -/
def astStep (e : Event T N) (st : Tree T N × List (List Nat)) : Outcome (Tree T N × List (List Nat)) :=
  match st.2 with
  | [] => .panic   -- `Pop` on the empty stack yields nil, the type assertion yields nil, the store panics
  | π :: stack =>
    match e with
    | .tok _ pos =>
      match updateAt (completeLeaf pos) π st.1 with
      | .ok t' => .ok (t', stack)
      | .panic => .panic
      | .diverge => .diverge
    | .prod p =>
      match updateAt (completeNode p) π st.1 with
      | .ok t' => .ok (t', (List.range p.body.length).map (fun i => π ++ [i]) ++ stack)
      | .panic => .panic
      | .diverge => .diverge

def astRun : List (Event T N) → Tree T N × List (List Nat) → Outcome (Tree T N × List (List Nat))
  | [], st => .ok st
  | e :: es, st =>
    match astStep e st with
    | .ok st' => astRun es st'
    | .panic => .panic
    | .diverge => .diverge

/-- `ParseAndBuildAST` on the callbacks of an accepting run: root node on the stack, feed the events,
return the root -/
def buildASTStack (S : N) (es : List (Event T N)) : Outcome (Tree T N) :=
  (astRun es (Tree.node S none [], [[]])).map (·.1)

end

end AlgoVerif.C10
