import AlgoVerif.Model.C07
import AlgoVerif.Generated.Consts
/-!
# Model of `radixsort/{radixsort,lsd,msd,quick}.go`

Machine integers are `UInt64` bit patterns (Go `int` / `uint` are 64-bit on the checked platform:
the generated `…_INT_SIZE` is 64); a signed `int` is the same pattern read in two's complement, and
`(v >> shift) & MASK` extracts the same byte for an arithmetic and a logical shift when
`shift ≤ 56`.  Byte strings are `List UInt8`.  The textually duplicated loops of the Go code
(frequency count, prefix sums, distribution, copy back) are modelled once, parameterised by the
key (digit) function and the range `[lo, hi]`; `for _, v := range a` is the range `[0, n-1]`.
All constants come from `Generated/Consts.lean`.
-/
namespace AlgoVerif.C07
open AlgoVerif.Generated

variable {α : Type}

/-! ## radixsort.go -/

/-- `func charAt(s string, d int) int` -/
def charAt (s : List UInt8) (d : Int) : Outcome Int :=
  if d < s.length then
    (if 0 ≤ d then (match s[d.toNat]? with | some b => .ok (b.toNat : Int) | none => .panic) else .panic)
  else .ok (-1)

/-- `for j := i; j > lo && a[j] < a[j-1]; j-- { swap }` (`lt` = the native `<` of the element type) -/
def rInsInner (lt : α → α → Bool) (lo : Int) : Nat → Int → Array α → Outcome (Array α)
  | 0, _, _ => .diverge
  | f+1, j, a =>
    if j > lo then do
      let x ← get a j
      let y ← get a (j-1)
      if lt x y then do
        let a ← swap a j (j-1)
        rInsInner lt lo f (j-1) a
      else .ok a
    else .ok a

/-- `for i := lo; i <= hi; i++ { … }` -/
def rInsLoop (lt : α → α → Bool) (lo hi : Int) : Nat → Int → Array α → Outcome (Array α)
  | 0, _, _ => .diverge
  | f+1, i, a =>
    if i ≤ hi then do
      let a ← rInsInner lt lo (a.size + 1) i a
      rInsLoop lt lo hi f (i+1) a
    else .ok a

/-- `func insertion[T constraints.Ordered](a []T, lo, hi int)` -/
def rInsertion (lt : α → α → Bool) (a : Array α) (lo hi : Int) : Outcome (Array α) :=
  rInsLoop lt lo hi (a.size + 1) lo a

/-! ## key-indexed counting (shared by every LSD / MSD variant)

`key x` is the index of `count` at which the *position* of `x` is kept (`c` for the integer sorts
and `LSDString`, `c+1` for `msdString`); the frequency is counted one slot higher. -/

/-- `for i := lo; i <= hi; i++ { c := key(a[i]); count[c+1]++ }` -/
def freqLoop (key : α → Outcome Int) (a : Array α) (hi : Int) : Nat → Int → Array Int → Outcome (Array Int)
  | 0, _, _ => .diverge
  | f+1, i, count =>
    if i ≤ hi then do
      let x ← get a i
      let c ← key x
      let v ← get count (c+1)
      let count ← set count (c+1) (v+1)
      freqLoop key a hi f (i+1) count
    else .ok count

/-- `for r := 0; r < R; r++ { count[r+1] += count[r] }` -/
def cumLoop (R : Int) : Nat → Int → Array Int → Outcome (Array Int)
  | 0, _, _ => .diverge
  | f+1, r, count =>
    if r < R then do
      let x ← get count (r+1)
      let y ← get count r
      let count ← set count (r+1) (x + y)
      cumLoop R f (r+1) count
    else .ok count

/-- `for r := from; r < to; r++ { count[r] += delta }` -/
def addLoop (to delta : Int) : Nat → Int → Array Int → Outcome (Array Int)
  | 0, _, _ => .diverge
  | f+1, r, count =>
    if r < to then do
      let x ← get count r
      let count ← set count r (x + delta)
      addLoop to delta f (r+1) count
    else .ok count

/-- `for i := lo; i <= hi; i++ { c := key(a[i]); aux[count[c]] = a[i]; count[c]++ }` -/
def distLoop (key : α → Outcome Int) (a : Array α) (hi : Int) :
    Nat → Int → Array Int → Array α → Outcome (Array Int × Array α)
  | 0, _, _, _ => .diverge
  | f+1, i, count, aux =>
    if i ≤ hi then do
      let x ← get a i
      let c ← key x
      let p ← get count c
      let aux ← set aux p x
      let count ← set count c (p+1)
      distLoop key a hi f (i+1) count aux
    else .ok (count, aux)

/-- `for i := lo; i <= hi; i++ { a[i] = aux[i-lo] }` -/
def copyBack (aux : Array α) (lo hi : Int) : Nat → Int → Array α → Outcome (Array α)
  | 0, _, _ => .diverge
  | f+1, i, a =>
    if i ≤ hi then do
      let x ← get aux (i - lo)
      let a ← set a i x
      copyBack aux lo hi f (i+1) a
    else .ok a

/-- the sign-byte rotation: `shift1 := count[R] - count[R/2]; shift2 := count[R/2];`
`[count[R] = shift1 + count[1]]` (msdInt only) `; for r < R/2 { count[r] += shift1 };`
`for R/2 <= r < R { count[r] -= shift2 }` -/
def signRotate (R : Int) (setTop : Bool) (count : Array Int) : Outcome (Array Int) := do
  let cR ← get count R
  let cH ← get count (R / 2)
  let shift1 := cR - cH
  let shift2 := cH
  let count ← (if setTop then do
                  let c1 ← get count 1
                  set count R (shift1 + c1)
                else .ok count : Outcome (Array Int))
  let count ← addLoop (R / 2) shift1 (R.toNat + 1) 0 count
  addLoop R (-shift2) (R.toNat + 1) (R / 2) count

/-- frequency count, prefix sums, (rotation), distribution, copy back on `a[lo..hi]`;
`R` = number of key values, `count := make([]int, R+1)`. Returns `(a, aux, count)`. -/
def countingPass (key : α → Outcome Int) (R : Int) (rot : Option Bool) (a aux : Array α) (lo hi : Int) :
    Outcome (Array α × Array α × Array Int) := do
  let fuel := a.size + 1
  let count : Array Int := Array.replicate (R.toNat + 1) 0
  let count ← freqLoop key a hi fuel lo count
  let count ← cumLoop R (R.toNat + 1) 0 count
  let count ← (match rot with
               | some setTop => signRotate R setTop count
               | none => .ok count : Outcome (Array Int))
  let (count, aux) ← distLoop key a hi fuel lo count aux
  let a ← copyBack aux lo hi fuel lo a
  .ok (a, aux, count)

/-! ## digits of machine words -/

/-- `(v >> shift) & MASK` (MASK = 255) as an `int`; `shift ∈ {0, 8, …, 56}` at every call (a negative
shift count panics in Go; `shift ≥ 64` is never computed) -/
def digitAt (v : UInt64) (shift : Int) : Outcome Int :=
  if 0 ≤ shift ∧ shift < 64 then
    .ok (((v >>> shift.toNat.toUInt64) &&& 255).toNat : Int)
  else .panic

/-- native `<` of `uint` -/
def uLt (a b : UInt64) : Bool := a < b
/-- native `<` of `int` on two's-complement patterns -/
def iLt (a b : UInt64) : Bool := a.toInt64 < b.toInt64

/-- native `<` of `string` (bytewise lexicographic) -/
def bytesLt : List UInt8 → List UInt8 → Bool
  | _, [] => false
  | [], _ :: _ => true
  | x :: xs, y :: ys => if x < y then true else if y < x then false else bytesLt xs ys

/-! ## lsd.go -/

/-- `s[d]` as an `int` (index out of range panics) -/
def byteAt (d : Int) (s : List UInt8) : Outcome Int :=
  if 0 ≤ d then (match s[d.toNat]? with | some b => .ok (b.toNat : Int) | none => .panic) else .panic

/-- `for d := w - 1; d >= 0; d-- { … }` of `LSDString` -/
def lsdStringLoop : Nat → Int → Array (List UInt8) → Array (List UInt8) →
    Outcome (Array (List UInt8))
  | 0, _, _, _ => .diverge
  | f+1, d, a, aux =>
    if d ≥ 0 then do
      let (a, aux, _) ← countingPass (byteAt d) radixsort_LSDString_R none a aux 0 ((a.size : Int) - 1)
      lsdStringLoop f (d-1) a aux
    else .ok a

/-- `func LSDString(a []string, w int)` -/
def lsdString (a : Array (List UInt8)) (w : Int) : Outcome (Array (List UInt8)) :=
  lsdStringLoop (w.toNat + 1) (w - 1) a (Array.replicate a.size [])

/-- `for d := 0; d < W; d++ { … }` of `LSDInt` (`signed = true`) and `LSDUint` -/
def lsdWordLoop (signed : Bool) (W R BYTE_SIZE : Int) : Nat → Int → Array UInt64 → Array UInt64 →
    Outcome (Array UInt64)
  | 0, _, _, _ => .diverge
  | f+1, d, a, aux =>
    if d < W then do
      let shift := BYTE_SIZE * d
      let rot := if signed && d == W - 1 then some false else none
      let (a, aux, _) ← countingPass (fun v => digitAt v shift) R rot a aux 0 ((a.size : Int) - 1)
      lsdWordLoop signed W R BYTE_SIZE f (d+1) a aux
    else .ok a

/-- `func LSDInt(a []int)` -/
def lsdInt (a : Array UInt64) : Outcome (Array UInt64) :=
  lsdWordLoop true radixsort_LSDInt_W radixsort_LSDInt_R radixsort_LSDInt_BYTE_SIZE
    (radixsort_LSDInt_W + 1) 0 a (Array.replicate a.size 0)

/-- `func LSDUint(a []uint)` -/
def lsdUint (a : Array UInt64) : Outcome (Array UInt64) :=
  lsdWordLoop false radixsort_LSDUint_W radixsort_LSDUint_R radixsort_LSDUint_BYTE_SIZE
    (radixsort_LSDUint_W + 1) 0 a (Array.replicate a.size 0)

/-! ## msd.go -/

/-- `for r := 0; r < R; r++ { [if count[r+1] > count[r]] { rec(a, aux, lo+count[r], lo+count[r+1]-1) } }` -/
def bucketLoop (guard : Bool) (rec : Array α → Array α → Int → Int → Outcome (Array α × Array α))
    (count : Array Int) (lo R : Int) : Nat → Int → Array α → Array α → Outcome (Array α × Array α)
  | 0, _, _, _ => .diverge
  | f+1, r, a, aux =>
    if r < R then do
      let c1 ← get count (r+1)
      let c0 ← get count r
      if guard && !(c1 > c0) then bucketLoop guard rec count lo R f (r+1) a aux
      else do
        let (a, aux) ← rec a aux (lo + c0) (lo + c1 - 1)
        bucketLoop guard rec count lo R f (r+1) a aux
    else .ok (a, aux)

/-- `func msdString(a, aux []string, lo, hi, d int)` (fuel = recursion depth) -/
def msdStringAux : Nat → Array (List UInt8) → Array (List UInt8) → Int → Int → Int →
    Outcome (Array (List UInt8) × Array (List UInt8))
  | 0, _, _, _, _, _ => .diverge
  | f+1, a, aux, lo, hi, d =>
    if hi ≤ lo + radixsort_msdString_CUTOFF then do
      let a ← rInsertion bytesLt a lo hi
      .ok (a, aux)
    else do
      let R : Int := radixsort_msdString_R
      -- count := make([]int, R+2); count[c+2]++; for r < R+1; aux[count[c+1]]; count[c+1]++
      let key := fun s => (charAt s d).map (· + 1)
      let (a, aux, count) ← countingPass key (R + 1) none a aux lo hi
      bucketLoop false (fun a aux lo hi => msdStringAux f a aux lo hi (d+1)) count lo R (R.toNat + 1) 0 a aux

/-- longest string, for the recursion-depth fuel -/
def maxLen (a : Array (List UInt8)) : Nat := a.foldl (fun m s => max m s.length) 0

/-- `msdString(a, aux, lo, hi, d)` with a fresh `aux` (verif hook `VerifMsdString`) -/
def msdStringAt (a : Array (List UInt8)) (lo hi d : Int) : Outcome (Array (List UInt8)) := do
  let (a, _) ← msdStringAux (maxLen a + 2) a (Array.replicate a.size []) lo hi d
  .ok a

/-- `func MSDString(a []string)` -/
def msdString (a : Array (List UInt8)) : Outcome (Array (List UInt8)) :=
  msdStringAt a 0 ((a.size : Int) - 1) 0

/-- `func msdInt(a, aux []int, lo, hi, d int)` (`signed = true`) and `func msdUint(…)`;
fuel = recursion depth -/
def msdWordAux (signed : Bool) (CUTOFF W R BYTE_SIZE INT_SIZE : Int) :
    Nat → Array UInt64 → Array UInt64 → Int → Int → Int → Outcome (Array UInt64 × Array UInt64)
  | 0, _, _, _, _, _ => .diverge
  | f+1, a, aux, lo, hi, d =>
    if hi ≤ lo + CUTOFF then do
      let a ← rInsertion (if signed then iLt else uLt) a lo hi
      .ok (a, aux)
    else do
      let shift := INT_SIZE - BYTE_SIZE - BYTE_SIZE * d
      let rot := if signed && d == 0 then some true else none
      let (a, aux, count) ← countingPass (fun v => digitAt v shift) R rot a aux lo hi
      let rec' := fun a aux lo hi => msdWordAux signed CUTOFF W R BYTE_SIZE INT_SIZE f a aux lo hi (d+1)
      -- no more bits
      if d == W - 1 then .ok (a, aux)
      else do
        let (a, aux) ←
          (if signed then do
            -- special case for most significant byte
            let cH ← get count (R / 2)
            let (a, aux) ← (if d == 0 && cH > 0 then rec' a aux lo (lo + cH - 1) else .ok (a, aux)
                              : Outcome (Array UInt64 × Array UInt64))
            -- special case for other bytes
            let c0 ← get count 0
            (if d != 0 && c0 > 0 then rec' a aux lo (lo + c0 - 1) else .ok (a, aux))
          else do
            -- special case for the first digit
            let c0 ← get count 0
            (if c0 > 0 then rec' a aux lo (lo + c0 - 1) else .ok (a, aux))
          : Outcome (Array UInt64 × Array UInt64))
        bucketLoop true rec' count lo R (R.toNat + 1) 0 a aux

/-- `msdInt(a, aux, lo, hi, d)` with a fresh `aux` (verif hook `VerifMsdInt`) -/
def msdIntAt (a : Array UInt64) (lo hi d : Int) : Outcome (Array UInt64) := do
  let (a, _) ← msdWordAux true radixsort_msdInt_CUTOFF radixsort_msdInt_W radixsort_msdInt_R
    radixsort_msdInt_BYTE_SIZE radixsort_msdInt_INT_SIZE (radixsort_msdInt_W + 1)
    a (Array.replicate a.size 0) lo hi d
  .ok a

/-- `func MSDInt(a []int)` -/
def msdInt (a : Array UInt64) : Outcome (Array UInt64) := msdIntAt a 0 ((a.size : Int) - 1) 0

/-- `msdUint(a, aux, lo, hi, d)` with a fresh `aux` (verif hook `VerifMsdUint`) -/
def msdUintAt (a : Array UInt64) (lo hi d : Int) : Outcome (Array UInt64) := do
  let (a, _) ← msdWordAux false radixsort_msdUint_CUTOFF radixsort_msdUint_W radixsort_msdUint_R
    radixsort_msdUint_BYTE_SIZE radixsort_msdUint_INT_SIZE (radixsort_msdUint_W + 1)
    a (Array.replicate a.size 0) lo hi d
  .ok a

/-- `func MSDUint(a []uint)` -/
def msdUint (a : Array UInt64) : Outcome (Array UInt64) := msdUintAt a 0 ((a.size : Int) - 1) 0

/-! ## quick.go (radixsort) -/

/-- the `for i <= gt { c := charAt(a[i], d); switch … }` loop of `quick3WayString` -/
def q3sLoop (v d : Int) : Nat → Int → Int → Int → Array (List UInt8) →
    Outcome (Array (List UInt8) × Int × Int)
  | 0, _, _, _, _ => .diverge
  | f+1, lt, i, gt, a =>
    if i ≤ gt then do
      let x ← get a i
      let c ← charAt x d
      if c < v then do
        let a ← swap a lt i
        q3sLoop v d f (lt+1) (i+1) gt a
      else if c > v then do
        let a ← swap a i gt
        q3sLoop v d f lt i (gt-1) a
      else q3sLoop v d f lt (i+1) gt a
    else .ok (a, lt, gt)

/-- `func quick3WayString(a []string, lo, hi, d int)` (fuel = recursion depth) -/
def q3StringAux : Nat → Array (List UInt8) → Int → Int → Int → Outcome (Array (List UInt8))
  | 0, _, _, _, _ => .diverge
  | f+1, a, lo, hi, d =>
    if hi ≤ lo + radixsort_quick3WayString_CUTOFF then rInsertion bytesLt a lo hi
    else do
      let x ← get a lo
      let v ← charAt x d
      let (a, lt, gt) ← q3sLoop v d (a.size + 1) lo (lo+1) hi a
      let a ← q3StringAux f a lo (lt-1) d
      let a ← (if v ≥ 0 then q3StringAux f a lt gt (d+1) else .ok a : Outcome (Array (List UInt8)))
      q3StringAux f a (gt+1) hi d

/-- `quick3WayString(a, lo, hi, d)` (verif hook `VerifQuick3WayString`) -/
def q3StringAt (a : Array (List UInt8)) (lo hi d : Int) : Outcome (Array (List UInt8)) :=
  q3StringAux (a.size + maxLen a + 2) a lo hi d

/-- `func Quick3WayString(a []string)`: `shuffle` (package-global `math/rand`; here any `choice`;
the loop is the one of `sort.Shuffle`), then `quick3WayString(a, 0, len(a)-1, 0)` -/
def q3String (choice : Nat → Int) (a : Array (List UInt8)) : Outcome (Array (List UInt8)) := do
  let a ← shuffle choice a
  q3StringAt a 0 ((a.size : Int) - 1) 0

end AlgoVerif.C07
