import AlgoVerif.Model.C19
/-!
# C19: operations, outputs and `run` for the Model

Core Lean only; the driver executes `Input.step`, i.e. exactly the function the theorems of
`Props/C19.lean` talk about.
-/
namespace AlgoVerif.C19

/-- the four exported methods of `*Input` -/
inductive Op where
  | next
  | retract
  | lexeme
  | skip
  deriving DecidableEq, Repr, Inhabited

/-- observable result of one operation -/
inductive Out where
  /-- `Next` returned this rune (code point) and a nil error -/
  | rune (r : Nat)
  /-- `Next` returned `io.EOF` (`ErrKind.eof`) or another error of the reader -/
  | err (e : ErrKind)
  /-- `Next` returned `*InputError` "invalid utf-8 character" with this position -/
  | invalid (pos : Pos)
  /-- `Retract` returns nothing -/
  | unit
  /-- `Lexeme` returned these bytes and this position -/
  | lexeme (bytes : List UInt8) (pos : Pos)
  /-- `Skip` returned this position -/
  | skipped (pos : Pos)
  deriving DecidableEq, Repr, Inhabited

def Input.step (i : Input) : Op → Outcome (Input × Out)
  | .next =>
    match i.Next with
    | .ok (i, .rune r) => .ok (i, .rune r)
    | .ok (i, .err e) => .ok (i, .err e)
    | .ok (i, .invalid p) => .ok (i, .invalid p)
    | .panic => .panic
    | .diverge => .diverge
  | .retract =>
    match i.Retract with
    | .ok i => .ok (i, .unit)
    | .panic => .panic
    | .diverge => .diverge
  | .lexeme =>
    match i.Lexeme with
    | .ok (i, bytes, p) => .ok (i, .lexeme bytes p)
    | .panic => .panic
    | .diverge => .diverge
  | .skip => let (i, p) := i.Skip; .ok (i, .skipped p)

/-- Run a call sequence; one entry per executed call, the trace stops with `panic` / `diverge` at the
first call that fails. -/
def Input.run : Input → List Op → List (Outcome Out)
  | _, [] => []
  | i, op :: ops =>
    match i.step op with
    | .ok (i', o) => .ok o :: Input.run i' ops
    | .panic => [.panic]
    | .diverge => [.diverge]

/-- result of `New(_, src, n)` followed by a call sequence -/
inductive Trace where
  /-- `New` returned this error (for an empty source: `io.EOF`) and no `*Input` -/
  | failed (e : ErrKind)
  /-- `New` succeeded; one outcome per call -/
  | ran (outs : List (Outcome Out))
  /-- `New` itself panicked or did not return -/
  | crashed
  deriving DecidableEq, Repr, Inhabited

/-- `New(_, src, n)` followed by a call sequence. -/
def runNew (src : Reader) (n : Nat) (ops : List Op) : Trace :=
  match Input.new src n with
  | .ok (.ok i) => .ran (i.run ops)
  | .ok (.error e) => .failed e
  | _ => .crashed

end AlgoVerif.C19
