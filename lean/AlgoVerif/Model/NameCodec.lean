import AlgoVerif.Common
/-!
# Names ⇄ words of the grammar line protocol (shared: C08, C09; the same functions as `Driver/C10.lean: decName / encName`
and `harness/c10: EncName / DecName`)

The library accepts ANY string as the name of a symbol; the line protocol has words separated by blanks.  `encName` writes
the empty name as `%` and, byte by byte as `%XX` (upper-case hex), every byte ≤ 0x20, 0x7F, `%`, the arrow `→`, a leading `'`
or `^`, and the names `$` and `ε` altogether; everything else stands for itself.  `decName` undoes it.  Drivers DECODE every
word they read, so the Model runs on the names the Go code sees, and ENCODE every name they print.  Core Lean only.
-/
namespace AlgoVerif.NameCodec

def hexVal (b : UInt8) : Option UInt8 :=
  if 48 ≤ b && b ≤ 57 then some (b - 48)
  else if 65 ≤ b && b ≤ 70 then some (b - 55)
  else if 97 ≤ b && b ≤ 102 then some (b - 87)
  else none

/-- `%XX` → the byte; any other byte (and a `%` that is not followed by two hex digits) stands for itself -/
def decBytes : Nat → List UInt8 → List UInt8
  | 0, l => l
  | _, [] => []
  | n + 1, b :: rest =>
    if b = 37 then
      match rest with
      | h :: l :: rest' =>
        match hexVal h, hexVal l with
        | some x, some y => (x * 16 + y) :: decBytes n rest'
        | _, _ => b :: decBytes n rest
      | _ => b :: decBytes n rest
    else b :: decBytes n rest

/-- the name a word (without marker) stands for -/
def decName (w : String) : String :=
  if w = "%" then "" else
  if !w.contains '%' then w else
  let bs := w.toUTF8.toList
  match String.fromUTF8? (ByteArray.mk (decBytes bs.length bs).toArray) with
  | some s => s
  | none => w

def hexDigit (n : Nat) : Char := if n < 10 then Char.ofNat (48 + n) else Char.ofNat (55 + n)

def escByte (b : UInt8) : String := String.ofList ['%', hexDigit (b.toNat / 16), hexDigit (b.toNat % 16)]

def escChar (c : Char) : String := String.join ((String.singleton c).toUTF8.toList.map escByte)

/-- the canonical word of a name -/
def encName (s : String) : String :=
  if s = "" then "%" else
  if s = "$" || s = "ε" then String.join (s.toList.map escChar) else
  let esc (first : Bool) (c : Char) : String :=
    if c.toNat ≤ 32 || c.toNat = 127 || c = '%' || c = '→' || (first && (c = '\'' || c = '^')) then escChar c
    else String.singleton c
  match s.toList with
  | [] => "%"
  | c :: rest => esc true c ++ String.join (rest.map (esc false))

end AlgoVerif.NameCodec
