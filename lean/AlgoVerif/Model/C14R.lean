import AlgoVerif.Model.C14S
/-!
# Model of `graph/*.go` — part 4: constructors with an edge list, and result objects kept by the client

Part 3 models graph objects and histories of `AddEdge` calls, queries and `Reverse()` on them, every query being
asked and read in one step.  A client does two more things:

* it builds a graph with `NewX(V, edges…)` and goes on calling `AddEdge` on it (`World.initWith`): the Go text of
  the four constructors is `adj[i] = make([]T, 0)` for every vertex, then `for _, e := range edges { g.AddEdge(e) }`
  — `GObj.build` — so the object is the one `NewX(V)` followed by the same `AddEdge` calls gives
  (`initWith_eq_run`, `Proofs/C14Kept.lean`), with adjacency lists that share nothing;
* it keeps what a query hands out — `*Paths`, `*Orders`, `*ConnectedComponents`, `*StronglyConnectedComponents`,
  `*DirectedCycle`, `*Topological`, `*MinimumSpanningTree`, `*ShortestPathTree`, the slice `Adj(v)` returned — and
  reads it later (`To(v)`, `PathTo(v)`, `Components()`, `Order()`, …), after any number of further calls on the
  same graph and on other graphs, and more than once.

In the Go code every one of these result objects is computed completely by the call that returns it and owns all
the slices it reads afterwards (`visited`, `edgeTo`, `id`, `order`, `rank`, `distTo`, the cycle stack; `Adj(v)`
returns the slice header `g.adj[v]` as it is at the call: a later `append` writes behind its length or moves the
list).  So a kept result is a *value*: `Res`.  The graph types have no field a query writes, and a result has no
pointer to the graph.  `Session.step` says exactly that: `keep` stores the value computed on the current object
as it is now, `ask` reads the stored value and nothing else, and neither touches an object.  A change to the Go
code that lets a result share storage with the graph (a scratch buffer reused by the next traversal), with
another result, or with a later state of the adjacency lists is a difference between implementation and Model
on the first history that keeps a result, does something else, and reads the result afterwards.
-/
namespace AlgoVerif.C14

/-- `NewDirected(V, edges…)` / `NewUndirected(V, edges…)` / `NewWeightedDirected(V, edges…)` /
`NewWeightedUndirected(V, edges…)` as the first object of a world -/
def World.initWith (k : Kind) (n : Nat) (es : List EdgeIn) : World := ⟨#[GObj.build k n es], 0⟩

/-- what a query hands out, as the value it is -/
inductive Res
  /-- `*Paths`: `s`, `visited`, `edgeTo` -/
  | paths (p : Paths)
  /-- `*Orders`: ranks and orders -/
  | orders (o : Orders)
  /-- `*ConnectedComponents` / `*StronglyConnectedComponents`: `count`, `id` -/
  | comps (c : Components)
  /-- `*DirectedCycle` -/
  | cycle (c : DC)
  /-- `*Topological`: `order`, `rank` -/
  | topo (t : Topological)
  /-- `*MinimumSpanningTree`: `edgeTo` (and `visited`, `distTo`, the emptied queue) -/
  | mst (m : MST)
  /-- `*ShortestPathTree`: `edgeTo`, `distTo` -/
  | spt (t : SPT)
  /-- the slice `Adj(v)` returned (`none` = `nil`) -/
  | arcs (l : Option (List Arc))
  /-- nothing (a slot the harness leaves unused: `ShortestPathTree` on a graph with a negative weight) -/
  | none

/-- the queries whose result is an object the client can keep -/
def Query.keepable : Query → Bool
  | .paths .. | .orders .. | .cc | .scc | .cycle | .topo | .mst | .spt .. | .adjOf .. => true
  | _ => false

/-- the call that returns the result object -/
def GObj.compute (o : GObj) : Query → Outcome Res
  | .paths strat s => (o.g.paths s strat).map .paths
  | .orders strat => (o.g.orders strat).map .orders
  | .cc => o.g.connectedComponents.map .comps
  | .scc => o.g.stronglyConnectedComponents.map .comps
  | .cycle => o.g.directedCycle.map .cycle
  | .topo => o.g.topological.map .topo
  | .mst => o.g.minimumSpanningTree.map .mst
  | .spt s => (o.g.shortestPathTree s).map .spt
  | .adjOf v => (o.adjOf v).map .arcs
  | _ => .ok .none

/-- reading a result object: everything it can be asked (`sel = none`: `To(v)` / `PathTo(v)` for every `v` in
`0 … n-1`, the orders and ranks, `Components()` and every `ID(v)`, `Cycle()`, `Order()` and every `Rank(v)`,
`Edges()` and `Weight()`, the elements of the slice) or one `To(v)` / `PathTo(v)` (`sel = some v`).  A function of
the stored value; `n` is the vertex count the result was computed for. -/
def Res.ask (n : Nat) : Res → Option Int → Outcome Answer
  | .paths p, .none => .ok (.paths ((List.range n).map fun (v : Nat) => p.to (v : Int)))
  | .paths p, some v => (p.to v).map .path
  | .orders o, _ => .ok (.orders o)
  | .comps c, _ => .ok (.comps c)
  | .cycle c, _ => .ok (.cycle c.cycleList)
  | .topo t, _ => .ok (.topo t)
  | .mst m, _ => .ok (.mst m)
  | .spt t, .none => .ok (.spt t ((List.range n).map fun (v : Nat) => t.pathTo (v : Int)))
  | .spt t, some v => (t.pathTo v).map (.sptto t)
  | .arcs l, _ => .ok (.arcs l)
  | .none, _ => .ok .unit

/-- the one-step query that `keep q` followed by `ask · sel` amounts to -/
def Query.at : Query → Option Int → Query
  | .paths strat s, some v => .path strat s v
  | .spt s, some v => .sptto s v
  | q, _ => q

/-- a kept result: the object it was computed on *as it was then* (the driver needs its kind, vertex count and
adjacency structure to print the result and evaluate the certificates), the call, and the value -/
structure Kept where
  o : GObj
  q : Query
  r : Res

/-- what a client does, one step at a time -/
inductive ROp
  /-- `AddEdge`, a query asked and read at once, `Reverse()` kept as an object, switching objects (part 3) -/
  | base (op : Op)
  /-- `r := cur.Q(…)`: the result object becomes result number `kept.size` -/
  | keep (q : Query)
  /-- an unused result slot -/
  | hole
  /-- read result number `i` -/
  | ask (i : Nat) (sel : Option Int)
  /-- the caller writes to memory that is its own: it overwrites the edge list it passed to `NewX(V, edges…)`, it
  overwrites a slice a query returned as a copy (`Edges()`, `To(v)`, `Components()`, `Order()`, …), it appends to the
  slice `Adj(v)` returned (an append never writes inside the slice).  None of this is an operation on a graph or on
  a result: every object and every result stays as it is. -/
  | callerWrite

/-- the objects and the results a client holds -/
structure Session where
  w : World
  kept : Array Kept

def Session.init (k : Kind) (n : Nat) (es : List EdgeIn) : Session := ⟨World.initWith k n es, #[]⟩

/-- one step: the new session and what the call returned.  `keep` and `ask` leave every object as it is, `ask`
reads the stored value only, the other steps leave every stored value as it is. -/
def Session.step (s : Session) : ROp → Session × Outcome Answer
  | .base op => let r := s.w.step op; ({ s with w := r.1 }, r.2)
  | .keep q =>
    match s.w.obj.compute q with
    | .ok r => ({ s with kept := s.kept.push ⟨s.w.obj, q, r⟩ }, .ok .unit)
    | .panic => (s, .panic)
    | .diverge => (s, .diverge)
  | .hole => ({ s with kept := s.kept.push ⟨s.w.obj, .dump, .none⟩ }, .ok .unit)
  | .ask i sel =>
    match s.kept[i]? with
    | some k => (s, k.r.ask k.o.g.n sel)
    | .none => (s, .ok .unit)
  | .callerWrite => (s, .ok .unit)

def Session.run (s : Session) : List ROp → Session × List (Outcome Answer)
  | [] => (s, [])
  | op :: ops =>
    let r := s.step op
    let r' := r.1.run ops
    (r'.1, r.2 :: r'.2)

end AlgoVerif.C14
