import AlgoVerif.Common
/-!
# Model of `list/queue.go`, `list/stack.go`, `list/soft_queue.go`

Line-by-line transcription.  A chain of `arrayNode`s is a `List (Array α)` (front/top node first);
`frontNode == nil` / `topNode == nil` is the empty list.  Go's `int` is `Int`; a block write or read
outside `[0, nodeSize)` is `Outcome.panic`.  `zero` is Go's zero value of `T`.
-/
namespace AlgoVerif.C18

/-! ## arrayQueue -/

structure Queue (α : Type) where
  nodeSize : Nat
  listSize : Int := 0
  frontIndex : Int := -1
  rearIndex : Int := -1
  /-- blocks from `frontNode` to `rearNode`; `[]` ⇔ `frontNode == nil` -/
  nodes : List (Array α) := []
  deriving Repr

variable {α : Type}

def newBlock (zero : α) (n : Nat) : Array α := Array.replicate n zero

def Queue.new (nodeSize : Nat) : Queue α := { nodeSize := nodeSize }

/-- `func (q *arrayQueue[T]) Size() int { return q.listSize }` -/
def Queue.size (q : Queue α) : Int := q.listSize
/-- `func (q *arrayQueue[T]) IsEmpty() bool { return q.listSize == 0 }` -/
def Queue.isEmpty (q : Queue α) : Bool := q.listSize == 0

/-- write `v` at `i` of the last block (`rearNode.block[rearIndex] = val`) -/
def setLast (nodes : List (Array α)) (i : Int) (v : α) : Outcome (List (Array α)) :=
  match nodes.getLast? with
  | none => .panic
  | some b =>
    if 0 ≤ i ∧ i.toNat < b.size then .ok (nodes.dropLast ++ [b.set! i.toNat v]) else .panic

def Queue.enqueue (zero : α) (q : Queue α) (v : α) : Outcome (Queue α) :=
  let listSize := q.listSize + 1
  let rearIndex := q.rearIndex + 1
  -- if q.frontNode == nil { frontNode, frontIndex = new, 0; rearNode, rearIndex = frontNode, 0 }
  -- else if q.rearIndex == q.nodeSize { rearNode.next = new; rearNode, rearIndex = rearNode.next, 0 }
  let (nodes, frontIndex, rearIndex) :=
    if q.nodes.isEmpty then ([newBlock zero q.nodeSize], (0 : Int), (0 : Int))
    else if rearIndex = (q.nodeSize : Int) then (q.nodes ++ [newBlock zero q.nodeSize], q.frontIndex, (0 : Int))
    else (q.nodes, q.frontIndex, rearIndex)
  match setLast nodes rearIndex v with
  | .ok nodes' => .ok { q with listSize := listSize, rearIndex := rearIndex, frontIndex := frontIndex, nodes := nodes' }
  | .panic => .panic
  | .diverge => .diverge

/-- `q.frontNode.block[q.frontIndex]` -/
def Queue.frontCell (q : Queue α) : Outcome α :=
  match q.nodes with
  | [] => .panic
  | b :: _ => if 0 ≤ q.frontIndex ∧ q.frontIndex.toNat < b.size then
      (match b[q.frontIndex.toNat]? with | some v => .ok v | none => .panic) else .panic

def Queue.dequeue (q : Queue α) : Outcome (Queue α × Option α) :=
  if q.listSize = 0 then .ok (q, none)
  else
    match q.frontCell with
    | .ok v =>
      let frontIndex := q.frontIndex + 1
      let listSize := q.listSize - 1
      if frontIndex = (q.nodeSize : Int) then
        .ok ({ q with listSize := listSize, frontIndex := 0, nodes := q.nodes.tail }, some v)
      else
        .ok ({ q with listSize := listSize, frontIndex := frontIndex }, some v)
    | .panic => .panic
    | .diverge => .diverge

def Queue.peek (q : Queue α) : Outcome (Option α) :=
  if q.listSize = 0 then .ok none
  else q.frontCell.map some

/-- The `Contains` loop: `for n != nil && (n != rearNode || i <= rearIndex)`.
`nodes` is the remaining chain starting at `n`; the last element of the chain is `rearNode`.
Structural on (remaining blocks, cells left in the current block) through `fuel`. -/
def Queue.containsLoop (eq : α → α → Bool) (nodeSize : Nat) (rearIndex : Int) (v : α) :
    Nat → List (Array α) → Int → Outcome Bool
  | 0, _, _ => .diverge
  | _, [], _ => .ok false
  | fuel + 1, b :: rest, i =>
    -- n != q.rearNode || i <= q.rearIndex
    if rest.isEmpty ∧ ¬ (i ≤ rearIndex) then .ok false
    else if 0 ≤ i ∧ i.toNat < b.size then
      match b[i.toNat]? with
      | none => .panic
      | some x =>
        if eq x v then .ok true
        else
          let i' := i + 1
          if i' = (nodeSize : Int) then Queue.containsLoop eq nodeSize rearIndex v fuel rest 0
          else Queue.containsLoop eq nodeSize rearIndex v fuel (b :: rest) i'
    else .panic

def Queue.contains (eq : α → α → Bool) (q : Queue α) (v : α) : Outcome Bool :=
  Queue.containsLoop eq q.nodeSize q.rearIndex v ((q.nodes.length + 1) * (q.nodeSize + 1) + 1) q.nodes q.frontIndex

/-! ## arrayStack -/

structure Stack (α : Type) where
  nodeSize : Nat
  listSize : Int := 0
  topIndex : Int := -1
  /-- blocks from `topNode` downwards; `[]` ⇔ `topNode == nil` -/
  nodes : List (Array α) := []
  deriving Repr

def Stack.new (nodeSize : Nat) : Stack α := { nodeSize := nodeSize }

/-- `func (s *arrayStack[T]) Size() int { return s.listSize }` -/
def Stack.size (s : Stack α) : Int := s.listSize
/-- `func (s *arrayStack[T]) IsEmpty() bool { return s.listSize == 0 }` -/
def Stack.isEmpty (s : Stack α) : Bool := s.listSize == 0

def Stack.push (zero : α) (s : Stack α) (v : α) : Outcome (Stack α) :=
  let listSize := s.listSize + 1
  let topIndex := s.topIndex + 1
  let (nodes, topIndex) :=
    if s.nodes.isEmpty then ([newBlock zero s.nodeSize], topIndex)
    else if topIndex = (s.nodeSize : Int) then (newBlock zero s.nodeSize :: s.nodes, (0 : Int))
    else (s.nodes, topIndex)
  match nodes with
  | [] => .panic
  | b :: rest =>
    if 0 ≤ topIndex ∧ topIndex.toNat < b.size then
      .ok { s with listSize := listSize, topIndex := topIndex, nodes := b.set! topIndex.toNat v :: rest }
    else .panic

def Stack.topCell (s : Stack α) : Outcome α :=
  match s.nodes with
  | [] => .panic
  | b :: _ => if 0 ≤ s.topIndex ∧ s.topIndex.toNat < b.size then
      (match b[s.topIndex.toNat]? with | some v => .ok v | none => .panic) else .panic

def Stack.pop (s : Stack α) : Outcome (Stack α × Option α) :=
  if s.listSize = 0 then .ok (s, none)
  else
    match s.topCell with
    | .ok v =>
      let topIndex := s.topIndex - 1
      let listSize := s.listSize - 1
      if topIndex = -1 then
        let nodes := s.nodes.tail
        if nodes.isEmpty then .ok ({ s with listSize := listSize, topIndex := topIndex, nodes := nodes }, some v)
        else .ok ({ s with listSize := listSize, topIndex := (s.nodeSize : Int) - 1, nodes := nodes }, some v)
      else .ok ({ s with listSize := listSize, topIndex := topIndex }, some v)
    | .panic => .panic
    | .diverge => .diverge

def Stack.peek (s : Stack α) : Outcome (Option α) :=
  if s.listSize = 0 then .ok none else s.topCell.map some

/-- `for n != nil { if equal(n.block[i], val) … ; if i--; i < 0 { n = n.next; i = nodeSize-1 } }` -/
def Stack.containsLoop (eq : α → α → Bool) (nodeSize : Nat) (v : α) :
    Nat → List (Array α) → Int → Outcome Bool
  | 0, _, _ => .diverge
  | _, [], _ => .ok false
  | fuel + 1, b :: rest, i =>
    if 0 ≤ i ∧ i.toNat < b.size then
      match b[i.toNat]? with
      | none => .panic
      | some x =>
        if eq x v then .ok true
        else
          let i' := i - 1
          if i' < 0 then Stack.containsLoop eq nodeSize v fuel rest ((nodeSize : Int) - 1)
          else Stack.containsLoop eq nodeSize v fuel (b :: rest) i'
    else .panic

def Stack.contains (eq : α → α → Bool) (s : Stack α) (v : α) : Outcome Bool :=
  Stack.containsLoop eq s.nodeSize v ((s.nodes.length + 1) * (s.nodeSize + 1) + 1) s.nodes s.topIndex

/-! ## softQueue -/

structure SoftQueue (α : Type) where
  front : Int := 0
  rear : Int := -1
  list : List α := []
  deriving Repr

def SoftQueue.new : SoftQueue α := {}

def SoftQueue.size (q : SoftQueue α) : Int := q.rear - q.front + 1
def SoftQueue.isEmpty (q : SoftQueue α) : Bool := q.front > q.rear

def SoftQueue.enqueue (q : SoftQueue α) (v : α) : SoftQueue α × Int :=
  let list := q.list ++ [v]
  if list.length = 1 then ({ front := 0, rear := 0, list := list }, 0)
  else ({ q with rear := q.rear + 1, list := list }, q.rear + 1)

def SoftQueue.cell (q : SoftQueue α) : Outcome α :=
  if 0 ≤ q.front then
    match q.list[q.front.toNat]? with
    | some v => .ok v
    | none => .panic
  else .panic

def SoftQueue.dequeue (q : SoftQueue α) : Outcome (SoftQueue α × Option (α × Int)) :=
  if q.isEmpty then .ok (q, none)
  else q.cell.map fun v => ({ q with front := q.front + 1 }, some (v, q.front))

def SoftQueue.peek (q : SoftQueue α) : Outcome (Option (α × Int)) :=
  if q.isEmpty then .ok none
  else q.cell.map fun v => some (v, q.front)

def SoftQueue.contains (eq : α → α → Bool) (q : SoftQueue α) (v : α) : Int :=
  match q.list.findIdx? (fun x => eq x v) with
  | some i => i
  | none => -1

def SoftQueue.values (q : SoftQueue α) : List α := q.list

end AlgoVerif.C18
