import AlgoVerif.Common
/-!
Generic line-protocol loop shared by the per-property driver executables.

    # case <n> key=value …
    <op> <args…>

For every case the component's `runCase header ops` (a pure function of the Model) yields one output
line per op; the loop prints `# case <n>` and those lines.  Core-only.
-/
namespace AlgoVerif

def stripEol (s : String) : String :=
  String.ofList ((s.toList.reverse.dropWhile (fun c => c == '\n' || c == '\r')).reverse)

partial def driverLoop (h : IO.FS.Stream) (out : IO.FS.Stream) (run : List String → List String → List String)
    (hdr : Option (List String)) (ops : Array String) : IO Unit := do
  let line ← h.getLine
  let flush : IO Unit := do
    match hdr with
    | some hd =>
      out.putStrLn ("# case " ++ (hd.getD 2 "?"))
      for l in run hd ops.toList do out.putStrLn l
    | none => pure ()
  if line.isEmpty then
    flush
    out.flush
    return
  let line := stripEol line
  if line.startsWith "# case" then
    flush
    driverLoop h out run (some (words line)) #[]
  else if line.startsWith "#" || line.isEmpty then
    driverLoop h out run hdr ops
  else
    driverLoop h out run hdr (ops.push line)

def driverMain (run : List String → List String → List String) : IO UInt32 := do
  driverLoop (← IO.getStdin) (← IO.getStdout) run none #[]
  return 0

end AlgoVerif
