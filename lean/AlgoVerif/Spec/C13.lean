/-!
# Spec for C13: regular languages as predicates on words, and what an automaton's language *is*

A word is a `List Int` (symbols are Go runes).  Languages are predicates; union, concatenation and the
Kleene star are defined directly, with no reference to automata.  The language of an ε-NFA is defined
relationally from its transition relation `δ s a t` (`a = 0` are the ε-moves): a word is accepted iff
some path from the start state, interleaving ε-moves freely, spells it and ends in a final state.
The language of a (partial) DFA is defined from its transition function `Option`-valued.
Core Lean only.
-/
namespace AlgoVerif.C13.Spec

abbrev Word := List Int
abbrev Lang := Word → Prop

def Lang.union (A B : Lang) : Lang := fun w => A w ∨ B w

/-- union of a list of languages -/
def Lang.unionAll (Ls : List Lang) : Lang := fun w => ∃ L, L ∈ Ls ∧ L w

def Lang.concat (A B : Lang) : Lang := fun w => ∃ u v, w = u ++ v ∧ A u ∧ B v

/-- concatenation of a list of languages, left to right (`[]` gives `{ε}`) -/
def Lang.concatAll : List Lang → Lang
  | [] => fun w => w = []
  | L :: Ls => Lang.concat L (Lang.concatAll Ls)

/-- Kleene closure -/
inductive Lang.star (A : Lang) : Lang
  | nil : Lang.star A []
  | app {u v : Word} : A u → Lang.star A v → Lang.star A (u ++ v)

/-! ## ε-NFA semantics over a transition relation -/

/-- the symbol that labels ε-moves -/
def eps : Int := 0

/-- reflexive-transitive closure of the ε-moves -/
inductive EReach (δ : Int → Int → Int → Prop) : Int → Int → Prop
  | refl (s : Int) : EReach δ s s
  | step {s t u : Int} : EReach δ s t → δ t eps u → EReach δ s u

/-- `Path δ s w t`: from `s`, reading `w` (each symbol is one labelled move; ε-moves are free before,
between and after), the automaton can be in `t`. -/
inductive Path (δ : Int → Int → Int → Prop) : Int → Word → Int → Prop
  | eps {s t : Int} : EReach δ s t → Path δ s [] t
  | cons {s s1 s2 t : Int} {a : Int} {w : Word} :
      EReach δ s s1 → δ s1 a s2 → Path δ s2 w t → Path δ s (a :: w) t

/-- language of the ε-NFA `(δ, start, final)` -/
def nfaLang (δ : Int → Int → Int → Prop) (start : Int) (final : Int → Prop) : Lang :=
  fun w => ∃ f, final f ∧ Path δ start w f

/-! ## partial DFA semantics over a transition function -/

/-- run of a partial DFA: `none` once a transition is missing -/
def dfaRun (δ : Int → Int → Option Int) : Option Int → Word → Option Int
  | q, [] => q
  | none, _ :: _ => none
  | some s, a :: w => dfaRun δ (δ s a) w

def dfaLang (δ : Int → Int → Option Int) (start : Int) (final : Int → Prop) : Lang :=
  fun w => ∃ f, dfaRun δ (some start) w = some f ∧ final f

end AlgoVerif.C13.Spec
