import AlgoVerif.Common
/-!
# Spec for C05: an indexed heap is a partial map `index ⇀ (key × value)`

The abstract state is a function `Int → Option (K × V)` (no capacity inside: the capacity is a parameter
of the admissibility relation).  `Admit cmp eq cap m op r m'` says that answering `r` to the call `op` in
abstract state `m` and moving to `m'` is what property C05 allows:

* `Insert i` succeeds iff `0 ≤ i < cap` and `i` is free; then `i ↦ (k,v)`;
* `ChangeKey / DeleteIndex / PeekIndex / ContainsIndex` succeed iff `i` is held, and report / change exactly
  the entry of `i`; after `ChangeKey i k` the entry holds `k` — or still the old key object `k0` when
  `cmp k k0 = 0` (the Fibonacci implementation does nothing when the new key compares equal to the old one;
  for comparators whose `0` means equality, as `generic.NewCompareFunc`, the two readings coincide);
* `Peek / Delete` answer `none` iff nothing is held, otherwise *some* held index together with its current
  key and value, the key being `cmp`-extremal among all held keys (ties: any of them); `Delete` removes it;
* `ContainsKey k` is true iff some held entry's key compares equal to `k`; `ContainsValue` likewise with `eq`;
* `Size` is the number of held indices, `IsEmpty` says whether there is none.

Nothing else is admitted — in particular no `panic`/`diverge` outcome (see `Admitted`).
The relation is parametrised by the extremality predicate so that the weaker notion used by the
`_partial` theorems (`AdmitWeak`: everything above except that the index returned by `Peek/Delete` need not
be extremal) is literally the same definition.
-/
namespace AlgoVerif.C05

/-- the calls of `heap.IndexedHeap` (DOT excluded) -/
inductive Op (K V : Type) where
  | insert (i : Int) (k : K) (v : V)
  | changeKey (i : Int) (k : K)
  | delete
  | deleteIndex (i : Int)
  | deleteAll
  | peek
  | peekIndex (i : Int)
  | containsIndex (i : Int)
  | containsKey (k : K)
  | containsValue (v : V)
  | size
  | isEmpty
  deriving Repr

/-- results; the Go zero values returned next to `false` are not part of the property and are dropped -/
inductive Res (K V : Type) where
  | unit
  | bool (b : Bool)
  | int (n : Int)
  /-- `Peek`/`Delete`: `(index, key, value, true)` or `(_, _, _, false)` -/
  | ikv (r : Option (Int × K × V))
  /-- `PeekIndex`/`DeleteIndex`: `(key, value, true)` or `(_, _, false)` -/
  | kv (r : Option (K × V))
  deriving Repr, DecidableEq

/-- comparator law assumed by the theorems (Go: `generic.CompareFunc`, sign convention of `cmp.Compare`):
a total preorder presented by the sign of `cmp`. -/
structure LawfulCmp {K : Type} (cmp : K → K → Int) : Prop where
  anti : ∀ a b, 0 ≤ cmp a b → cmp b a ≤ 0
  trans : ∀ a b c, cmp a b ≤ 0 → cmp b c ≤ 0 → cmp a c ≤ 0

namespace Spec
variable {K V : Type}

abbrev Map (K V : Type) := Int → Option (K × V)

def Map.empty : Map K V := fun _ => none

def Map.set (m : Map K V) (i : Int) (e : Option (K × V)) : Map K V :=
  fun j => if j = i then e else m j

def InRange (cap : Nat) (i : Int) : Prop := 0 ≤ i ∧ i < (cap : Int)

instance (cap : Nat) (i : Int) : Decidable (InRange cap i) := by unfold InRange; infer_instance

/-- `k` is extremal: no held key comes strictly before it -/
def Extremal (cmp : K → K → Int) (m : Map K V) (k : K) : Prop :=
  ∀ j kj vj, m j = some (kj, vj) → cmp k kj ≤ 0

/-- number of held indices below `cap` -/
def card (cap : Nat) (m : Map K V) : Nat :=
  ((List.range cap).filter fun (i : Nat) => (m (i : Int)).isSome).length

/-- one admissible step; `P m k` is the demand on the key returned by `Peek`/`Delete` -/
inductive AdmitG (P : Map K V → K → Prop) (cmp : K → K → Int) (eq : V → V → Bool) (cap : Nat) :
    Map K V → Op K V → Res K V → Map K V → Prop
  | insert_ok {m i k v} : InRange cap i → m i = none →
      AdmitG P cmp eq cap m (.insert i k v) (.bool true) (m.set i (some (k, v)))
  | insert_fail {m i k v} : ¬ (InRange cap i ∧ m i = none) →
      AdmitG P cmp eq cap m (.insert i k v) (.bool false) m
  | changeKey_ok {m i k k' k0 v} : m i = some (k0, v) → (k' = k ∨ (k' = k0 ∧ cmp k k0 = 0)) →
      AdmitG P cmp eq cap m (.changeKey i k) (.bool true) (m.set i (some (k', v)))
  | changeKey_fail {m i k} : m i = none →
      AdmitG P cmp eq cap m (.changeKey i k) (.bool false) m
  | delete_some {m i k v} : m i = some (k, v) → P m k →
      AdmitG P cmp eq cap m .delete (.ikv (some (i, k, v))) (m.set i none)
  | delete_none {m} : (∀ i, m i = none) →
      AdmitG P cmp eq cap m .delete (.ikv none) m
  | deleteIndex_some {m i k v} : m i = some (k, v) →
      AdmitG P cmp eq cap m (.deleteIndex i) (.kv (some (k, v))) (m.set i none)
  | deleteIndex_none {m i} : m i = none →
      AdmitG P cmp eq cap m (.deleteIndex i) (.kv none) m
  | deleteAll {m} : AdmitG P cmp eq cap m .deleteAll .unit Map.empty
  | peek_some {m i k v} : m i = some (k, v) → P m k →
      AdmitG P cmp eq cap m .peek (.ikv (some (i, k, v))) m
  | peek_none {m} : (∀ i, m i = none) →
      AdmitG P cmp eq cap m .peek (.ikv none) m
  | peekIndex {m i} : AdmitG P cmp eq cap m (.peekIndex i) (.kv (m i)) m
  | containsIndex {m i} : AdmitG P cmp eq cap m (.containsIndex i) (.bool (m i).isSome) m
  | containsKey {m k b} : (b = true ↔ ∃ i k' v, m i = some (k', v) ∧ cmp k' k = 0) →
      AdmitG P cmp eq cap m (.containsKey k) (.bool b) m
  | containsValue {m v b} : (b = true ↔ ∃ i k v', m i = some (k, v') ∧ eq v' v = true) →
      AdmitG P cmp eq cap m (.containsValue v) (.bool b) m
  | size {m} : AdmitG P cmp eq cap m .size (.int (card cap m)) m
  | isEmpty {m b} : (b = true ↔ ∀ i, m i = none) →
      AdmitG P cmp eq cap m .isEmpty (.bool b) m

/-- the step relation of property C05 -/
abbrev Admit (cmp : K → K → Int) (eq : V → V → Bool) (cap : Nat) :=
  AdmitG (K := K) (V := V) (Extremal cmp) cmp eq cap

/-- the same without the extremality demand on `Peek`/`Delete` (index/key/value consistency only) -/
abbrev AdmitWeak (cmp : K → K → Int) (eq : V → V → Bool) (cap : Nat) :=
  AdmitG (K := K) (V := V) (fun _ _ => True) cmp eq cap

/-- A whole trace is admitted: every call returned normally (`ok`) with an admissible answer. -/
inductive AdmittedG (P : Map K V → K → Prop) (cmp : K → K → Int) (eq : V → V → Bool) (cap : Nat) :
    Map K V → List (Op K V) → List (Outcome (Res K V)) → Prop
  | nil {m} : AdmittedG P cmp eq cap m [] []
  | cons {m m' op r ops outs} : AdmitG P cmp eq cap m op r m' → AdmittedG P cmp eq cap m' ops outs →
      AdmittedG P cmp eq cap m (op :: ops) (.ok r :: outs)

abbrev Admitted (cmp : K → K → Int) (eq : V → V → Bool) (cap : Nat) :=
  AdmittedG (K := K) (V := V) (Extremal cmp) cmp eq cap

/-- Admitted as long as the calls return: the trace may end early in one `panic`/`diverge`, about which (and
about whatever would follow) nothing is claimed.  Used by the `_partial` theorems only. -/
inductive AdmittedWhileOk (P : Map K V → K → Prop) (cmp : K → K → Int) (eq : V → V → Bool) (cap : Nat) :
    Map K V → List (Op K V) → List (Outcome (Res K V)) → Prop
  | nil {m} : AdmittedWhileOk P cmp eq cap m [] []
  | cons {m m' op r ops outs} : AdmitG P cmp eq cap m op r m' → AdmittedWhileOk P cmp eq cap m' ops outs →
      AdmittedWhileOk P cmp eq cap m (op :: ops) (.ok r :: outs)
  | stop {m op ops o} : (∀ r, o ≠ Outcome.ok r) →
      AdmittedWhileOk P cmp eq cap m (op :: ops) [o]

end Spec
end AlgoVerif.C05
