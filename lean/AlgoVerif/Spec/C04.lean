import AlgoVerif.Common
/-!
# Spec for C04: a priority queue is a multiset of (key, value) pairs

The abstract state is a `Bag` = `List (K × V)` read up to permutation.  Because *any* extremal entry is an
acceptable answer of `Peek`/`Delete`, the Spec is a relation "`out` is an admitted outcome of `op` in
bag `b`, leaving bag `b'`" rather than a function.  For mergeable heaps a history runs over a family
of heaps (registers `0, 1, 2, …`, all empty at first): `merge d s` moves everything heap `s` holds into
heap `d` and leaves `s` empty; both heaps stay in use.  Merging a heap into itself changes nothing, and neither
does `mergeOther d`, a `Merge` whose operand is not a heap of the same implementation type.
-/
namespace AlgoVerif.C04
variable {K V : Type}

/-- What the proofs need of a comparator: a total preorder, read through the sign of `cmp`.
(`sign` gives totality and reflexivity; antisymmetry is *not* required, so distinct keys may compare equal.) -/
structure LawfulCmp (cmp : K → K → Int) : Prop where
  sign : ∀ a b, 0 ≤ cmp a b → cmp b a ≤ 0
  trans : ∀ a b c, cmp a b ≤ 0 → cmp b c ≤ 0 → cmp a c ≤ 0

theorem LawfulCmp.refl {cmp : K → K → Int} (hc : LawfulCmp cmp) (a : K) : cmp a a ≤ 0 := by
  by_cases h : 0 ≤ cmp a a
  · exact hc.sign _ _ h
  · omega

/-- operations of `heap.Heap` -/
inductive Op (K V : Type) where
  | insert (k : K) (v : V)
  | delete
  | deleteAll
  | peek
  | size
  | isEmpty
  | containsKey (k : K)
  | containsValue (v : V)
  deriving Repr

/-- operations on a family of mergeable heaps -/
inductive MOp (K V : Type) where
  | on (r : Nat) (op : Op K V)
  /-- `heap[dst].Merge(heap[src])` -/
  | merge (dst src : Nat)
  /-- `heap[dst].Merge(H)` where `H` is not a heap of the same implementation type (a heap of the other
  mergeable implementation, or the nil interface): "the new heap must have the same underlying type", the
  type assertion fails and nothing happens (`H` is not a member of the family and is not changed either) -/
  | mergeOther (dst : Nat)
  deriving Repr

/-- observable result of one operation -/
inductive Out (K V : Type) where
  | unit
  /-- `(K, V, bool)` of `Delete`/`Peek`: `none` ⇔ the bool is false -/
  | kv (o : Option (K × V))
  | bool (b : Bool)
  | int (n : Int)
  deriving Repr, DecidableEq

abbrev Bag (K V : Type) := List (K × V)

/-- `k` is extremal (minimum for a min-comparator, maximum for a max-comparator) among the held keys -/
def Extremal (cmp : K → K → Int) (b : Bag K V) (k : K) : Prop := ∀ p ∈ b, cmp k p.1 ≤ 0

/-- `out` is an admitted outcome of `op` on a heap holding `b`, after which it holds `b'`. -/
def Step (cmp : K → K → Int) (eqV : V → V → Bool) (b : Bag K V) : Op K V → Out K V → Bag K V → Prop
  | .insert k v, .unit, b' => b'.Perm ((k, v) :: b)
  | .delete, .kv none, b' => b = [] ∧ b' = []
  -- returns a held pair with an extremal key and removes exactly that pair
  | .delete, .kv (some p), b' => Extremal cmp b p.1 ∧ b.Perm (p :: b')
  | .deleteAll, .unit, b' => b' = []
  | .peek, .kv none, b' => b = [] ∧ b' = []
  | .peek, .kv (some p), b' => p ∈ b ∧ Extremal cmp b p.1 ∧ b'.Perm b
  | .size, .int n, b' => n = (b.length : Int) ∧ b'.Perm b
  | .isEmpty, .bool e, b' => e = b.isEmpty ∧ b'.Perm b
  | .containsKey k, .bool r, b' => r = b.any (fun p => cmp p.1 k == 0) ∧ b'.Perm b
  | .containsValue v, .bool r, b' => r = b.any (fun p => eqV p.2 v) ∧ b'.Perm b
  | _, _, _ => False

/-- a history on ONE heap is admitted from bag `b` (no operation panics or diverges) -/
def Admitted1 (cmp : K → K → Int) (eqV : V → V → Bool) : Bag K V → List (Op K V) → List (Outcome (Out K V)) → Prop
  | _, [], [] => True
  | b, op :: ops, .ok out :: tr => ∃ b', Step cmp eqV b op out b' ∧ Admitted1 cmp eqV b' ops tr
  | _, _, _ => False

/-- one step on a family of heaps -/
def MStep (cmp : K → K → Int) (eqV : V → V → Bool) (bags : Nat → Bag K V) : MOp K V → Out K V → (Nat → Bag K V) → Prop
  | .on r op, out, bags' => Step cmp eqV (bags r) op out (bags' r) ∧ ∀ r', r' ≠ r → bags' r' = bags r'
  -- Merge makes the receiver hold the multiset union of both heaps; the operand is left empty
  | .merge d s, .unit, bags' =>
      (d = s → bags' = bags) ∧
      (d ≠ s → (bags' d).Perm (bags d ++ bags s) ∧ bags' s = [] ∧ ∀ r', r' ≠ d → r' ≠ s → bags' r' = bags r')
  | .merge _ _, _, _ => False
  -- an operand of another type is ignored: every heap holds what it held
  | .mergeOther _, .unit, bags' => bags' = bags
  | .mergeOther _, _, _ => False

/-- a history on a family of heaps is admitted (no operation panics or diverges) -/
def Admitted (cmp : K → K → Int) (eqV : V → V → Bool) :
    (Nat → Bag K V) → List (MOp K V) → List (Outcome (Out K V)) → Prop
  | _, [], [] => True
  | bags, op :: ops, .ok out :: tr => ∃ bags', MStep cmp eqV bags op out bags' ∧ Admitted cmp eqV bags' ops tr
  | _, _, _ => False

/-! comparators used by the harness and by the non-vacuity examples -/
def cmpAsc (a b : Int) : Int := if a < b then -1 else if a > b then 1 else 0
def cmpDesc (a b : Int) : Int := if a < b then 1 else if a > b then -1 else 0
/-- a total preorder that is not antisymmetric: keys `2i` and `2i+1` compare equal -/
def cmpHalf (a b : Int) : Int := cmpAsc (a / 2) (b / 2)

/-- comparators that return arbitrary magnitudes (only the sign may be used by the heaps) -/
def cmpSub (a b : Int) : Int := a - b
def cmpSub7 (a b : Int) : Int := 7 * (a - b)
def cmpRevSub (a b : Int) : Int := b - a

theorem lawful_cmpSub : LawfulCmp cmpSub :=
  ⟨by intro a b; unfold cmpSub; omega, by intro a b c; unfold cmpSub; omega⟩
theorem lawful_cmpSub7 : LawfulCmp cmpSub7 :=
  ⟨by intro a b; unfold cmpSub7; omega, by intro a b c; unfold cmpSub7; omega⟩
theorem lawful_cmpRevSub : LawfulCmp cmpRevSub :=
  ⟨by intro a b; unfold cmpRevSub; omega, by intro a b c; unfold cmpRevSub; omega⟩

theorem lawful_cmpAsc : LawfulCmp cmpAsc :=
  ⟨by intro a b; unfold cmpAsc; split <;> split <;> omega,
   by intro a b c; unfold cmpAsc; split <;> split <;> split <;> omega⟩
theorem lawful_cmpDesc : LawfulCmp cmpDesc :=
  ⟨by intro a b; unfold cmpDesc; split <;> split <;> omega,
   by intro a b c; unfold cmpDesc; split <;> split <;> split <;> omega⟩
theorem lawful_cmpHalf : LawfulCmp cmpHalf :=
  ⟨fun _ _ => lawful_cmpAsc.sign _ _, fun _ _ _ => lawful_cmpAsc.trans _ _ _⟩

end AlgoVerif.C04
