import AlgoVerif.Model.C14W
import AlgoVerif.Model.C14S
/-!
# Spec for C14: what the graph algorithms are supposed to compute

The abstract object is the edge relation of the graph (from the adjacency lists, and — for graphs
built by `NewX` + `AddEdge` — from the edge list, `Proofs/C14Build.lean` connects the two):

* `Reach E u v`   reflexive–transitive closure (a path of ≥ 0 edges),
* `IsWalk E p`    consecutive vertices of `p` are related; `WalkFromTo E s v p`,
* `Acyclic E`     no vertex reaches itself through ≥ 1 edge,
* weighted walks (`IsEdgeWalk`) and their weight.

The second half are *decidable certificates* (`Bool`-valued, executable) that the driver evaluates on
the Model's result of every `scc`, `mst`, `spt` query (translation validation for the conjuncts whose
all-inputs proof is not finished); `Props/C14.lean` proves that a passing certificate implies the
property (SCC partition, shortest distances).
-/
namespace AlgoVerif.C14

/-! ## relations -/

/-- `v` is a neighbour stored in `adj[u]` -/
def Graph.HasArc (g : Graph) (u v : Nat) : Prop := ∃ x ∈ g.adj.getD u [], x.to = v

/-- what `NewX(V)` followed by any number of `AddEdge` establishes -/
structure Graph.WF (g : Graph) : Prop where
  size : g.adj.size = g.n
  bound : ∀ u x, x ∈ g.adj.getD u [] → x.to < g.n

/-- the adjacency lists describe an undirected graph -/
def Graph.Symmetric (g : Graph) : Prop := ∀ u v, g.HasArc u v → g.HasArc v u

/-- reflexive–transitive closure -/
inductive Reach (E : Nat → Nat → Prop) : Nat → Nat → Prop
  | refl (u : Nat) : Reach E u u
  | tail {u v w : Nat} : Reach E u v → E v w → Reach E u w

/-- consecutive vertices are related -/
def IsWalk (E : Nat → Nat → Prop) : List Nat → Prop
  | [] => True
  | [_] => True
  | a :: b :: r => E a b ∧ IsWalk E (b :: r)

/-- `p` is a walk from `s` to `v` (so `p` is not empty) -/
def WalkFromTo (E : Nat → Nat → Prop) (s v : Nat) (p : List Nat) : Prop :=
  p.head? = some s ∧ p.getLast? = some v ∧ IsWalk E p

/-- `WalkLen E u k v`: there is a walk of exactly `k` edges from `u` to `v` -/
inductive WalkLen (E : Nat → Nat → Prop) (u : Nat) : Nat → Nat → Prop
  | zero : WalkLen E u 0 u
  | succ {k v w : Nat} : WalkLen E u k v → E v w → WalkLen E u (k + 1) w

/-- no closed walk with at least one edge -/
def Acyclic (E : Nat → Nat → Prop) : Prop := ∀ u v, E u v → ¬ Reach E v u

/-- a genuine cycle as `DirectedCycle.Cycle` reports it: `[v, w, …, v]`, first = last, ≥ 1 edge -/
def IsCycle (E : Nat → Nat → Prop) (c : List Nat) : Prop :=
  2 ≤ c.length ∧ c.head? = c.getLast? ∧ IsWalk E c

/-- `order` lists every vertex `< n` exactly once -/
def IsPermOfRange (n : Nat) (order : List Nat) : Prop :=
  order.Nodup ∧ ∀ v, v ∈ order ↔ v < n

/-- topological order: for every arc `u → v`, `u` occurs strictly before `v` -/
def RespectsArcs (E : Nat → Nat → Prop) (order : List Nat) : Prop :=
  ∀ u v, E u v → ∃ l1 l2 l3, order = l1 ++ u :: (l2 ++ v :: l3)

/-! ### graphs given as vertex count and edge list -/

-- `EdgeIn` (one `AddEdge` call: endpoints as given by the caller, weight) is defined in `Model/C14S.lean`

/-- `NewDirected(n, es…)` / `NewWeightedDirected(n, es…)` -/
def buildDirected (n : Nat) (es : List EdgeIn) : Graph :=
  es.foldl (fun g e => g.addEdgeDirected e.u e.v e.w) (Graph.new n)

/-- `NewUndirected(n, es…)` / `NewWeightedUndirected(n, es…)` -/
def buildUndirected (n : Nat) (es : List EdgeIn) : Graph :=
  es.foldl (fun g e => g.addEdgeUndirected e.u e.v e.w) (Graph.new n)

/-- the directed edge relation of an edge list on `n` vertices (edges with an endpoint outside `[0,n)` are
ignored, as `AddEdge` does) -/
def DirE (n : Nat) (es : List EdgeIn) (a b : Nat) : Prop :=
  ∃ e ∈ es, 0 ≤ e.u ∧ e.u < (n : Int) ∧ 0 ≤ e.v ∧ e.v < (n : Int) ∧ (a : Int) = e.u ∧ (b : Int) = e.v

/-- the undirected edge relation -/
def UndirE (n : Nat) (es : List EdgeIn) (a b : Nat) : Prop := DirE n es a b ∨ DirE n es b a

/-! ### weighted -/

/-- directed graphs: the stored edge of an entry of `adj[u]` is `u → to` (what `AddEdge` of the directed
types establishes) -/
def Graph.DWF (g : Graph) : Prop := ∀ u x, x ∈ g.adj.getD u [] → x.e.a = u ∧ x.e.b = x.to

/-- no negative weight -/
def Graph.NonNeg (g : Graph) : Prop := ∀ u x, x ∈ g.adj.getD u [] → 0 ≤ x.e.w

/-- the undirected edge `e` joins `w` and `p` -/
def Joins (e : Edge) (w p : Nat) : Prop := (e.a = w ∧ e.b = p) ∨ (e.b = w ∧ e.a = p)

/-- undirected graphs: the stored edge of an entry of `adj[u]` joins `u` and `to` -/
def Graph.UWF (g : Graph) : Prop := ∀ u x, x ∈ g.adj.getD u [] → Joins x.e u x.to

/-- the stored edge `e` leads from `u` to `v` in `g` -/
def Graph.HasEdge (g : Graph) (u v : Nat) (e : Edge) : Prop := (⟨v, e⟩ : Arc) ∈ g.adj.getD u []

/-- `p` is a sequence of stored directed edges leading from `s` to `v` -/
def IsEdgeWalk (g : Graph) : Nat → Nat → List Edge → Prop
  | s, v, [] => s = v
  | s, v, e :: r => e.a = s ∧ g.HasEdge e.a e.b e ∧ IsEdgeWalk g e.b v r

def walkWeight (p : List Edge) : Int := (p.map (·.w)).sum

/-- `d` is the least weight of a walk from `s` to `v` -/
def IsShortestDist (g : Graph) (s v : Nat) (d : Int) : Prop :=
  (∃ p, IsEdgeWalk g s v p ∧ walkWeight p = d) ∧ ∀ p, IsEdgeWalk g s v p → d ≤ walkWeight p

/-- `edgeTo[w]` of a `MinimumSpanningTree` (the zero edge outside the array) -/
def MST.par (m : MST) (w : Nat) : Edge := m.edgeTo.getD w Edge.zero

/-- `edgeTo[w]` is a reported tree edge (not the zero edge), it joins `w` with `p`, and it is stored in
`adj[p]` as an edge to `w`: `p` is the parent of `w` in the forest -/
def TLink (g : Graph) (m : MST) (w p : Nat) : Prop :=
  m.par w ≠ Edge.zero ∧ Joins (m.par w) w p ∧ g.HasEdge p w (m.par w)

/-- joined by a tree edge, in either direction -/
def TArc (g : Graph) (m : MST) (a b : Nat) : Prop := TLink g m a b ∨ TLink g m b a

/-! ### spanning forests of minimum weight (edge sets as lists) -/

/-- `a` and `b` are joined by an edge of the list -/
def EAdj (F : List Edge) (a b : Nat) : Prop := ∃ e ∈ F, Joins e a b

/-- connected through edges of the list -/
def EConn (F : List Edge) : Nat → Nat → Prop := Reach (EAdj F)

/-- total weight of an edge list -/
def wsum (F : List Edge) : Int := (F.map (·.w)).sum

/-- no repeated edge, and no edge whose ends are still connected once it is removed (no cycle) -/
def Acyc (F : List Edge) : Prop := F.Nodup ∧ ∀ e ∈ F, ¬ EConn (F.erase e) e.a e.b

/-- `e` is stored in the graph as an edge between `a` and `b`, in both adjacency lists (what `AddEdge` of the
undirected types does) -/
def Graph.StoredEdge (g : Graph) (e : Edge) : Prop := g.HasEdge e.a e.b e ∧ g.HasEdge e.b e.a e

/-- every adjacency entry's edge is stored at both of its ends (what `AddEdge` of the undirected types does) -/
def Graph.UStored (g : Graph) : Prop := ∀ u x, x ∈ g.adj.getD u [] → g.StoredEdge x.e

/-- `F` is a spanning forest of `g`: edges of the graph, acyclic, and the ends of every edge of the graph are
connected in `F` (so `F` connects exactly what `g` connects) -/
structure IsSpanningForest (g : Graph) (F : List Edge) : Prop where
  acyc : Acyc F
  sub : ∀ f ∈ F, g.StoredEdge f
  span : ∀ f, g.StoredEdge f → EConn F f.a f.b

/-! ## executable certificates -/

/-- worklist closure: marks everything reachable from the work list through arcs whose head satisfies `ok` -/
def closeLoop (adj : Array (List Nat)) (ok : Nat → Bool) : Nat → List Nat → Array Bool → Array Bool
  | 0, _, seen => seen
  | _, [], seen => seen
  | fuel + 1, v :: rest, seen =>
    let r := (adj.getD v []).foldl
      (fun (acc : Array Bool × List Nat) w =>
        if ok w && !(acc.1.getD w true) then (acc.1.set! w true, w :: acc.2) else acc)
      (seen, rest)
    closeLoop adj ok fuel r.2 r.1

/-- vertices reachable from `s` within `{w | ok w}` (`s` itself included) -/
def closure (adj : Array (List Nat)) (ok : Nat → Bool) (s : Nat) : Array Bool :=
  closeLoop adj ok (adj.size + 1) [s] ((Array.replicate adj.size false).set! s true)

def Graph.succs (g : Graph) : Array (List Nat) := g.adj.map (·.map (·.to))

/-- predecessor lists (computed by the Spec, independently of `Graph.reverse`) -/
def Graph.preds (g : Graph) : Array (List Nat) :=
  (List.range g.n).foldl
    (fun acc u => (g.adj.getD u []).foldl (fun acc x => acc.modify x.to (u :: ·)) acc)
    (Array.replicate g.n [])

/-- class `i` of an id table is strongly connected: it has a least vertex `r`, and `r` reaches every member
and is reached by every member through vertices of the class -/
def sccClassOK (n : Nat) (succs preds : Array (List Nat)) (id : Array Nat) (i : Nat) : Bool :=
  match (List.range n).find? (fun v => id.getD v 0 == i) with
  | none => false
  | some r =>
    let F := closure succs (fun w => id.getD w 0 == i) r
    let B := closure preds (fun w => id.getD w 0 == i) r
    (List.range n).all fun v => id.getD v 0 != i || (F.getD v false && B.getD v false)

/-- **SCC certificate.**  (a) ids are `< count`; (b) no arc goes from a smaller to a larger id;
(c) every class `i < count` is inhabited and strongly connected (`sccClassOK`). -/
def sccCertificate (g : Graph) (c : Components) : Bool :=
  let id := c.id
  let n := g.n
  id.size == n &&
  (List.range n).all (fun v => id.getD v 0 < c.count) &&
  (List.range n).all (fun u => (g.adj.getD u []).all fun x => id.getD x.to 0 ≤ id.getD u 0) &&
  (List.range c.count).all (sccClassOK n g.succs g.preds id)

/-- number of classes of the symmetric closure of `adj` and a class representative per vertex -/
def undirectedComponents (n : Nat) (adj : Array (List Nat)) : Nat × Array Nat :=
  (List.range n).foldl
    (fun (acc : Nat × Array Nat) v =>
      if acc.2.getD v 0 != n then acc
      else
        let cl := closure adj (fun _ => true) v
        (acc.1 + 1, (List.range n).foldl (fun rep w => if cl.getD w false then rep.set! w v else rep) acc.2))
    (0, Array.replicate n n)

def symAdj (n : Nat) (es : List Edge) : Array (List Nat) :=
  es.foldl (fun acc e => (acc.modify e.a (e.b :: ·)).modify e.b (e.a :: ·)) (Array.replicate n [])

def Graph.allEdges (g : Graph) : List Edge := (g.adj.toList.flatten).map (·.e)

/-- largest weight on the tree path from `a` to `b` (`none`: not connected in the tree).
Depth-first over the tree adjacency `tadj` (neighbour, weight), never going back to the parent edge's
end; fuel bounds the number of visited tree vertices. -/
def maxOnTreePath (tadj : Array (List (Nat × Int))) (b : Nat) : Nat → List (Nat × Nat × Option Int) → Option (Option Int)
  | 0, _ => none
  | _, [] => none
  | fuel + 1, (v, parent, mx) :: rest =>
    if v = b then some mx
    else
      let next := (tadj.getD v []).filterMap fun (w, wt) =>
        if w = parent then none
        else some (w, v, some (match mx with | none => wt | some m => if m < wt then wt else m))
      maxOnTreePath tadj b fuel (next ++ rest)

/-- **MST certificate.**  `T` = the reported edges.  (a) every edge of `T` is stored in the graph;
(b) `|T| = n − #components(g)` and `T` has as many components as `g` (so `T` is a spanning forest);
(c) cycle property: for every graph edge `a–b` of weight `w`, `a ≠ b`, every edge on the `T`-path from
`a` to `b` weighs at most `w`; (d) the reported weight is the sum. -/
def mstCertificate (g : Graph) (m : MST) : Bool :=
  let T := m.edges
  let n := g.n
  let gE := g.allEdges
  T.all (fun e => (g.adj.getD e.a []).any fun x => x.e == e && x.to == e.b) &&
  (let cg := (undirectedComponents n (symAdj n gE)).1
   let ct := (undirectedComponents n (symAdj n T)).1
   cg == ct && T.length + cg == n) &&
  (let tadj : Array (List (Nat × Int)) :=
     T.foldl (fun acc e => (acc.modify e.a ((e.b, e.w) :: ·)).modify e.b ((e.a, e.w) :: ·)) (Array.replicate n [])
   gE.all fun e =>
     e.a == e.b ||
     (match maxOnTreePath tadj e.b (2 * n + 2) [(e.a, n, none)] with
      | some none => true
      | some (some mx) => decide (mx ≤ e.w)
      | none => false)) &&
  m.weight == (T.map (·.w)).sum

/-- `p` leads from `s` to `v` along stored edges, checked left to right -/
def isEdgeWalkB (g : Graph) : Nat → Nat → List Edge → Bool
  | s, v, [] => s == v
  | s, v, e :: r => e.a == s && (g.adj.getD e.a []).any (fun x => x.e == e && x.to == e.b) && isEdgeWalkB g e.b v r

/-- no relaxable edge: `distTo[u] + w ≥ distTo[v]` for every stored edge out of a reached vertex -/
def noRelaxableEdge (g : Graph) (dist : Array (Option Int)) : Bool :=
  (List.range g.n).all fun u =>
    match dist.getD u none with
    | none => true
    | some du => (g.adj.getD u []).all fun x =>
        match dist.getD x.to none with
        | none => false
        | some dv => decide (dv ≤ du + x.e.w)

/-- the answer of `PathTo(v)` realises `distTo[v]` -/
def realises (g : Graph) (s : Nat) (dist : Array (Option Int)) (v : Nat) (ans : Option (List Edge × Int)) : Bool :=
  match dist.getD v none, ans with
  | none, none => true
  | some d, some (p, d') => d == d' && isEdgeWalkB g s v p && walkWeight p == d
  | _, _ => false

/-- **Shortest-path certificate** for source `s` and the listed answers `(v, PathTo v)`:
`distTo[s] = 0`, no relaxable edge, every listed answer realises its distance. -/
def sptCertificate (g : Graph) (s : Nat) (t : SPT) (answers : List (Nat × Option (List Edge × Int))) : Bool :=
  t.distTo.size == g.n && t.distTo.getD s none == some 0 && noRelaxableEdge g t.distTo &&
  answers.all fun (v, a) => realises g s t.distTo v a

end AlgoVerif.C14
