import AlgoVerif.Common
/-!
# Spec for C16: finite sets

A finite set is a duplicate-free list, two such lists denoting the same set when one is a permutation
of the other.  The stable set additionally has a *sequence* reading (insertion order), the sorted set
a *sorted* reading (comparator order).  Powerset and Partitions are specified by predicates.
-/
namespace AlgoVerif.C16.Spec
variable {α : Type}

/-- carrier of the abstract finite set -/
abbrev FSet (α : Type) := List α

def FSet.Valid (s : FSet α) : Prop := s.Nodup
/-- same set -/
def FSet.Equiv (a b : FSet α) : Prop := a.Perm b

variable [DecidableEq α]

def FSet.empty : FSet α := []
def FSet.insert (s : FSet α) (v : α) : FSet α := if v ∈ s then s else v :: s
def FSet.erase (s : FSet α) (v : α) : FSet α := s.filter (· ≠ v)
def FSet.insertAll (s : FSet α) (vs : List α) : FSet α := vs.foldl FSet.insert s
def FSet.eraseAll (s : FSet α) (vs : List α) : FSet α := vs.foldl FSet.erase s
def FSet.mem (s : FSet α) (v : α) : Bool := decide (v ∈ s)
def FSet.memAll (s : FSet α) (vs : List α) : Bool := vs.all (fun v => decide (v ∈ s))
def FSet.card (s : FSet α) : Nat := s.length
def FSet.subset (a b : FSet α) : Bool := a.all (fun v => decide (v ∈ b))
def FSet.eq (a b : FSet α) : Bool := a.subset b && b.subset a
def FSet.union (a b : FSet α) : FSet α := a ++ b.filter (fun v => decide (v ∉ a))
def FSet.inter (a b : FSet α) : FSet α := a.filter (fun v => decide (v ∈ b))
def FSet.diff (a b : FSet α) : FSet α := a.filter (fun v => decide (v ∉ b))
/-- `a ∪ b₁ ∪ … ∪ bₙ`, `a ∩ b₁ ∩ … ∩ bₙ`, `a \ b₁ \ … \ bₙ` -/
def FSet.unionAll (a : FSet α) (bs : List (FSet α)) : FSet α := bs.foldl FSet.union a
def FSet.interAll (a : FSet α) (bs : List (FSet α)) : FSet α := bs.foldl FSet.inter a
def FSet.diffAll (a : FSet α) (bs : List (FSet α)) : FSet α := bs.foldl FSet.diff a

/-! ### the sequence reading of the stable set: members in the order of their (latest) insertion -/

def Seq.insert (l : List α) (v : α) : List α := if v ∈ l then l else l ++ [v]
def Seq.erase (l : List α) (v : α) : List α := l.filter (· ≠ v)
def Seq.insertAll (l : List α) (vs : List α) : List α := vs.foldl Seq.insert l
def Seq.eraseAll (l : List α) (vs : List α) : List α := vs.foldl Seq.erase l

/-! ### histories over a file of registers holding abstract sets -/

inductive SOp (α : Type) where
  | add (i : Nat) (vs : List α)
  | remove (i : Nat) (vs : List α)
  | removeAll (i : Nat)
  | contains (i : Nat) (vs : List α)
  | size (i : Nat)
  | isEmpty (i : Nat)
  | all (i : Nat)
  | equal (i j : Nat)
  | subset (i j : Nat)
  | superset (i j : Nat)
  | clone (d i : Nat)
  | cloneEmpty (d i : Nat)
  | new (d : Nat)
  | union (d i : Nat) (js : List Nat)
  | inter (d i : Nat) (js : List Nat)
  | diff (d i : Nat) (js : List Nat)
  | anyMatch (i : Nat) (p : α → Bool)
  | allMatch (i : Nat) (p : α → Bool)
  | firstMatch (i : Nat) (p : α → Bool)
  | select (d i : Nat) (p : α → Bool)
  | partitionM (d e i : Nat) (p : α → Bool)

inductive SObs (α : Type) where
  | unit
  | bool (b : Bool)
  | int (n : Int)
  | elems (s : FSet α)
  /-- `FirstMatch`: any one of these may be returned; "not found" exactly when there is none -/
  | anyOf (cands : FSet α)
  | elems2 (s₁ s₂ : FSet α)
  | bad

def getAll (A : List (FSet α)) : List Nat → Option (List (FSet α))
  | [] => some []
  | j :: js =>
    match A[j]?, getAll A js with
    | some a, some as => some (a :: as)
    | _, _ => none

def sstep (A : List (FSet α)) : SOp α → List (FSet α) × SObs α
  | .add i vs =>
    match A[i]? with
    | none => (A, .bad)
    | some a => (A.set i (a.insertAll vs), .unit)
  | .remove i vs =>
    match A[i]? with
    | none => (A, .bad)
    | some a => (A.set i (a.eraseAll vs), .unit)
  | .removeAll i =>
    match A[i]? with
    | none => (A, .bad)
    | some _ => (A.set i FSet.empty, .unit)
  | .contains i vs =>
    match A[i]? with
    | none => (A, .bad)
    | some a => (A, .bool (a.memAll vs))
  | .size i =>
    match A[i]? with
    | none => (A, .bad)
    | some a => (A, .int a.card)
  | .isEmpty i =>
    match A[i]? with
    | none => (A, .bad)
    | some a => (A, .bool (a.card == 0))
  | .all i =>
    match A[i]? with
    | none => (A, .bad)
    | some a => (A, .elems a)
  | .equal i j =>
    match A[i]?, A[j]? with
    | some a, some b => (A, .bool (a.eq b))
    | _, _ => (A, .bad)
  | .subset i j =>
    match A[i]?, A[j]? with
    | some a, some b => (A, .bool (a.subset b))
    | _, _ => (A, .bad)
  | .superset i j =>
    match A[i]?, A[j]? with
    | some a, some b => (A, .bool (b.subset a))
    | _, _ => (A, .bad)
  | .clone d i =>
    match A[i]? with
    | some a => if d < A.length then (A.set d a, .unit) else (A, .bad)
    | none => (A, .bad)
  | .cloneEmpty d i =>
    match A[i]? with
    | some _ => if d < A.length then (A.set d FSet.empty, .unit) else (A, .bad)
    | none => (A, .bad)
  | .new d => if d < A.length then (A.set d FSet.empty, .unit) else (A, .bad)
  | .union d i js =>
    match A[i]?, getAll A js with
    | some a, some bs => if d < A.length then (A.set d (a.unionAll bs), .elems (a.unionAll bs)) else (A, .bad)
    | _, _ => (A, .bad)
  | .inter d i js =>
    match A[i]?, getAll A js with
    | some a, some bs => if d < A.length then (A.set d (a.interAll bs), .elems (a.interAll bs)) else (A, .bad)
    | _, _ => (A, .bad)
  | .diff d i js =>
    match A[i]?, getAll A js with
    | some a, some bs => if d < A.length then (A.set d (a.diffAll bs), .elems (a.diffAll bs)) else (A, .bad)
    | _, _ => (A, .bad)

  | .anyMatch i p =>
    match A[i]? with
    | none => (A, .bad)
    | some a => (A, .bool (a.any p))
  | .allMatch i p =>
    match A[i]? with
    | none => (A, .bad)
    | some a => (A, .bool (a.all p))
  | .firstMatch i p =>
    match A[i]? with
    | none => (A, .bad)
    | some a => (A, .anyOf (a.filter p))
  | .select d i p =>
    match A[i]? with
    | some a => if d < A.length then (A.set d (a.filter p), .elems (a.filter p)) else (A, .bad)
    | none => (A, .bad)
  | .partitionM d e i p =>
    match A[i]? with
    | some a =>
      if d < A.length ∧ e < A.length then
        ((A.set d (a.filter p)).set e (a.filter (fun x => !p x)), .elems2 (a.filter p) (a.filter (fun x => !p x)))
      else (A, .bad)
    | none => (A, .bad)

def srun : List (SOp α) → List (FSet α) → List (FSet α) × List (SObs α)
  | [], A => (A, [])
  | op :: ops, A =>
    let (A, o) := sstep A op
    let (A, os) := srun ops A
    (A, o :: os)

omit [DecidableEq α] in
/-- `P` (a list of blocks) is a partition of the set `s`: no block is empty, every element of `s` lies in
exactly one block and nothing else does. -/
def IsPartition (P : List (List α)) (s : List α) : Prop :=
  (∀ b ∈ P, b ≠ [] ∧ b.Nodup) ∧
  P.Pairwise (fun b₁ b₂ => ∀ x, x ∈ b₁ → x ∉ b₂) ∧
  (∀ x, x ∈ s ↔ ∃ b ∈ P, x ∈ b)

omit [DecidableEq α] in
/-- two lists of blocks denote the same family of sets -/
def SameFamily (P Q : List (List α)) : Prop :=
  (∀ b ∈ P, ∃ b' ∈ Q, ∀ x, x ∈ b ↔ x ∈ b') ∧ (∀ b ∈ Q, ∃ b' ∈ P, ∀ x, x ∈ b ↔ x ∈ b')

/-! ### Bell numbers

Core Lean has no Bell numbers; they are defined here through the Stirling numbers of the second kind
(`stirling2 n k` = number of partitions of an `n`-set into `k` blocks: the new element forms a block of
its own or joins one of the `k` blocks), `bell n = Σ_{k ≤ n} stirling2 n k`. -/

def stirling2 : Nat → Nat → Nat
  | 0, 0 => 1
  | 0, _ + 1 => 0
  | _ + 1, 0 => 0
  | n + 1, k + 1 => stirling2 n k + (k + 1) * stirling2 n (k + 1)

/-- `f 0 + … + f (N-1)` -/
def sumTo (f : Nat → Nat) : Nat → Nat
  | 0 => 0
  | N + 1 => sumTo f N + f N

def bell (n : Nat) : Nat := sumTo (stirling2 n) (n + 1)

example : (List.range 9).map bell = [1, 1, 2, 5, 15, 52, 203, 877, 4140] := by decide

end AlgoVerif.C16.Spec
