/-!
# Spec for the iteration part of C13: what `for x := range xs { body }` with `break` means

`foldUntilB body xs st` runs `body` over the list `xs` front to back, threading the state; `body` answers
`(new state, continue?)`, and the first `false` ends the loop (Go's `break`).  The `Bool` of the result says
whether the loop ran to the end of the list.  Core Lean only, no reference to automata.
-/
namespace AlgoVerif.C13.Spec

def foldUntilB {α σ : Type} (body : σ → α → σ × Bool) : List α → σ → σ × Bool
  | [], st => (st, true)
  | x :: xs, st =>
    match body st x with
    | (st', true) => foldUntilB body xs st'
    | (st', false) => (st', false)

/-- the state after the loop -/
def foldUntil {α σ : Type} (body : σ → α → σ × Bool) (xs : List α) (st : σ) : σ := (foldUntilB body xs st).1

end AlgoVerif.C13.Spec
