import AlgoVerif.Common
/-!
# Spec for C01: the abstract sorted map

The abstract object is an association list kept strictly ascending by the comparator
(`Sorted`).  Every query is defined in the most direct way on that list (`find?`, `filter`,
`countP`, `head?`, `getLast?`, indexing): none of the definitions below relies on the list being
sorted, so they can be read as the meaning of the API without knowing anything about trees.

The vocabulary of the property (operations, results) lives here too, so that the Model depends on
the Spec and not the other way round.
-/
namespace AlgoVerif.C01

variable {K V : Type}

/-- `generic.TraverseOrder`; `other` = any value outside the eight constants -/
inductive Order where
  | vlr | vrl | lvr | rvl | lrv | rlv | ascending | descending | other
  deriving DecidableEq, Repr, Inhabited

/-- One API call.  The state is three tables `(a, b, c)`, **each constructed with its own comparator and its
own value equality** (`NewBST(cmpKey, eqVal)` three times with possibly different arguments): calls act on
`a`; `swap` exchanges `a` and `b`, `swapC` exchanges `a` and `c` (so that histories can build both operands
of `Equal`, with the same or with different comparators); `selectMatch` stores the table it returns in `b`,
`partitionMatch` stores the matched table in `b` and the unmatched one in `c` (these tables inherit the
comparator and the value equality of the receiver), so that histories can go on to use (and mutate) every
derived table.  `allUntil n` ranges over `All()` and breaks after `n` pairs (`0` = never); `equal` is
`a.Equal(b)`, `equalSelf` is `a.Equal(a)`; `equalOther` is `Equal` against a table of another implementation
type holding the same pairs (the Go code answers `false` whenever the dynamic types differ). -/
inductive Op (K V : Type) where
  | put (k : K) (v : V)
  | delete (k : K)
  | deleteMin
  | deleteMax
  | deleteAll
  | swap
  | swapC
  | size
  | isEmpty
  | height
  | get (k : K)
  | min
  | max
  | floor (k : K)
  | ceiling (k : K)
  | select (i : Int)
  | rank (k : K)
  | range (lo hi : K)
  | rangeSize (lo hi : K)
  | all
  | allUntil (limit : Nat)
  | traverse (o : Order) (limit : Nat)
  | equal
  | equalSelf
  | equalOther
  | anyMatch (p : K → V → Bool)
  | allMatch (p : K → V → Bool)
  | firstMatch (p : K → V → Bool)
  | selectMatch (p : K → V → Bool)
  | partitionMatch (p : K → V → Bool)

/-- what a call returns -/
inductive Out (K V : Type) where
  | unit
  | bool (b : Bool)
  | nat (n : Nat)
  | int (i : Int)
  | optV (o : Option V)
  | optKV (o : Option (K × V))
  | list (l : List (K × V))
  | list2 (a b : List (K × V))
  deriving Repr

/-- The comparator law of the property ("any total-order comparator"): `cmp` is the three-way
comparison of a strict total order on `K`. -/
structure LawfulCmp (cmp : K → K → Int) : Prop where
  eq_iff : ∀ a b, cmp a b = 0 ↔ a = b
  flip : ∀ a b, cmp a b < 0 ↔ 0 < cmp b a
  trans : ∀ a b c, cmp a b < 0 → cmp b c < 0 → cmp a c < 0

namespace Spec

/-- the abstract map -/
abbrev Map (K V : Type) := List (K × V)

/-- strictly ascending keys -/
def Sorted (cmp : K → K → Int) (m : Map K V) : Prop :=
  m.Pairwise (fun a b => cmp a.1 b.1 < 0)

/-- `Put`: replace the value of an equal key (the stored key object is kept) or insert in order -/
def upsert (cmp : K → K → Int) (k : K) (v : V) : Map K V → Map K V
  | [] => [(k, v)]
  | (a, b) :: xs =>
    if cmp k a < 0 then (k, v) :: (a, b) :: xs
    else if cmp k a > 0 then (a, b) :: upsert cmp k v xs
    else (a, v) :: xs

def get (cmp : K → K → Int) (k : K) (m : Map K V) : Option V :=
  (m.find? (fun p => cmp k p.1 == 0)).map (·.2)

def remove (cmp : K → K → Int) (k : K) (m : Map K V) : Map K V :=
  m.filter (fun p => cmp k p.1 != 0)

def first (m : Map K V) : Option (K × V) := m.head?
def last (m : Map K V) : Option (K × V) := m.getLast?

/-- largest key ≤ k -/
def floor (cmp : K → K → Int) (k : K) (m : Map K V) : Option (K × V) :=
  (m.filter (fun p => cmp k p.1 ≥ 0)).getLast?

/-- smallest key ≥ k -/
def ceiling (cmp : K → K → Int) (k : K) (m : Map K V) : Option (K × V) :=
  m.find? (fun p => cmp k p.1 ≤ 0)

def select (m : Map K V) (i : Int) : Option (K × V) :=
  if i < 0 then none else m[i.toNat]?

/-- number of keys < k -/
def rank (cmp : K → K → Int) (k : K) (m : Map K V) : Nat :=
  m.countP (fun p => cmp k p.1 > 0)

def range (cmp : K → K → Int) (lo hi : K) (m : Map K V) : Map K V :=
  m.filter (fun p => cmp lo p.1 ≤ 0 && cmp hi p.1 ≥ 0)

/-- every pair of `m₁` is held by `m₂` with an `eqVal`-equal value -/
def includes (cmp : K → K → Int) (eqVal : V → V → Bool) (m₁ m₂ : Map K V) : Bool :=
  m₁.all (fun p => match get cmp p.1 m₂ with
    | some w => eqVal p.2 w
    | none => false)

/-- `m₁.Equal(m₂)`: the two maps hold the same key-values.  `cmp₁` is the comparator of the receiver `m₁`,
`cmp₂` the comparator of the argument `m₂` (a key is looked up in a map with that map's own comparator);
the values are compared with the receiver's `eqVal`.  For lawful comparators the answer does not depend on
them (`Spec.equal_comparator_free` in `Proofs/C01Spec.lean`, theorem `C01_equal_comparator_free`). -/
def equal (cmp₁ cmp₂ : K → K → Int) (eqVal : V → V → Bool) (m₁ m₂ : Map K V) : Bool :=
  includes cmp₂ eqVal m₁ m₂ && includes cmp₁ eqVal m₂ m₁

/-- `Equal` said without any comparator: every pair of `m₁` has its key in `m₂` with an `eqVal`-equal
value, and vice versa (keys compared with `=`). -/
def SamePairs (eqVal : V → V → Bool) (m₁ m₂ : Map K V) : Prop :=
  (∀ p ∈ m₁, ∃ q ∈ m₂, q.1 = p.1 ∧ eqVal p.2 q.2 = true) ∧
  (∀ q ∈ m₂, ∃ p ∈ m₁, p.1 = q.1 ∧ eqVal q.2 p.2 = true)

/-- a visitor that stops after `limit` pairs (`0` = never stops) sees this prefix -/
def takeLim (limit : Nat) (l : List (K × V)) : List (K × V) :=
  if limit = 0 then l else l.take limit

/-- an abstract table: the comparator and the value equality it was constructed with, and the pairs it
holds (ascending in its own comparator) -/
structure Tab (K V : Type) where
  cmp : K → K → Int
  eqVal : V → V → Bool
  map : Map K V

/-- the same table holding other pairs -/
def Tab.set (t : Tab K V) (m : Map K V) : Tab K V := { t with map := m }

/-- `New…(cmp, eqVal)` -/
def Tab.new (cmp : K → K → Int) (eqVal : V → V → Bool) : Tab K V := ⟨cmp, eqVal, []⟩

abbrev State (K V : Type) := Tab K V × Tab K V × Tab K V

/-- the abstract state after a call -/
def next (s : State K V) : Op K V → State K V
  | .put k v => (s.1.set (upsert s.1.cmp k v s.1.map), s.2)
  | .delete k => (s.1.set (remove s.1.cmp k s.1.map), s.2)
  | .deleteMin => (s.1.set s.1.map.tail, s.2)
  | .deleteMax => (s.1.set s.1.map.dropLast, s.2)
  | .deleteAll => (s.1.set [], s.2)
  | .swap => (s.2.1, s.1, s.2.2)
  | .swapC => (s.2.2, s.2.1, s.1)
  | .selectMatch p => (s.1, s.1.set (s.1.map.filter (fun x => p x.1 x.2)), s.2.2)
  | .partitionMatch p =>
    (s.1, s.1.set (s.1.map.filter (fun x => p x.1 x.2)), s.1.set (s.1.map.filter (fun x => !p x.1 x.2)))
  | _ => s

/-- the results the abstract map admits for a call.  All are determined except: `FirstMatch` (any
held pair satisfying the predicate; the code returns the first in its own pre-order), `Traverse` in
the six structural orders (some enumeration of the held pairs, cut where the visitor stops) and
`Height` (the subject of C15). -/
def admits (s : State K V) : Op K V → Out K V → Prop
  | .put _ _, o => o = .unit
  | .delete k, o => o = .optV (get s.1.cmp k s.1.map)
  | .deleteMin, o => o = .optKV (first s.1.map)
  | .deleteMax, o => o = .optKV (last s.1.map)
  | .deleteAll, o => o = .unit
  | .swap, o => o = .unit
  | .swapC, o => o = .unit
  | .size, o => o = .nat s.1.map.length
  | .isEmpty, o => o = .bool s.1.map.isEmpty
  | .height, o => ∃ h, o = .nat h
  | .get k, o => o = .optV (get s.1.cmp k s.1.map)
  | .min, o => o = .optKV (first s.1.map)
  | .max, o => o = .optKV (last s.1.map)
  | .floor k, o => o = .optKV (floor s.1.cmp k s.1.map)
  | .ceiling k, o => o = .optKV (ceiling s.1.cmp k s.1.map)
  | .select i, o => o = .optKV (select s.1.map i)
  | .rank k, o => o = .nat (rank s.1.cmp k s.1.map)
  | .range lo hi, o => o = .list (range s.1.cmp lo hi s.1.map)
  | .rangeSize lo hi, o => o = .int (range s.1.cmp lo hi s.1.map).length
  | .all, o => o = .list s.1.map
  | .allUntil limit, o => o = .list (takeLim limit s.1.map)
  | .traverse ord limit, o =>
    match ord with
    | .lvr | .ascending => o = .list (takeLim limit s.1.map)
    | .rvl | .descending => o = .list (takeLim limit s.1.map.reverse)
    | .other => o = .list []
    | _ => ∃ l, l.Perm s.1.map ∧ o = .list (takeLim limit l)
  | .equal, o => o = .bool (equal s.1.cmp s.2.1.cmp s.1.eqVal s.1.map s.2.1.map)
  | .equalSelf, o => o = .bool (equal s.1.cmp s.1.cmp s.1.eqVal s.1.map s.1.map)
  | .equalOther, o => o = .bool false
  | .anyMatch p, o => o = .bool (s.1.map.any (fun x => p x.1 x.2))
  | .allMatch p, o => o = .bool (s.1.map.all (fun x => p x.1 x.2))
  | .firstMatch p, o =>
    (o = .optKV none ∧ ∀ x ∈ s.1.map, p x.1 x.2 = false) ∨
      (∃ x ∈ s.1.map, p x.1 x.2 = true ∧ o = .optKV (some x))
  | .selectMatch p, o => o = .list (s.1.map.filter (fun x => p x.1 x.2))
  | .partitionMatch p, o =>
    o = .list2 (s.1.map.filter (fun x => p x.1 x.2)) (s.1.map.filter (fun x => !p x.1 x.2))

/-- the abstract map admits this sequence of results for this history -/
def accepts : State K V → List (Op K V) → List (Out K V) → Prop
  | _, [], [] => True
  | s, op :: ops, o :: outs => admits s op o ∧ accepts (next s op) ops outs
  | _, _, _ => False

end Spec
end AlgoVerif.C01
