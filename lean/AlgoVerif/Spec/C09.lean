import AlgoVerif.Spec.C08
/-!
# Spec for C09: the normal forms, as decidable predicates on a grammar

Each predicate is stated on the output grammar alone (`noEmptyExceptFreshStart` also sees the input's
start symbol).  `NoCycle` and `NoLeftRecursion` are the semantic statements (`A ⇒⁺ A`, `A ⇒⁺ A α`);
`noCycleB` / `noLeftRecB` are the graph analyses that decide them (nullable set + unit / left-corner
graph); the `…B` functions are what the driver prints.  Core Lean only.
-/
namespace AlgoVerif.C09.Spec
open AlgoVerif AlgoVerif.Gram AlgoVerif.C08

/-! ## structural predicates -/

/-- the only ε-production allowed is `S′ → ε` for a start symbol `S′` that is a new name (not a declared
non-terminal of the input; in particular not its start symbol) and occurs in no body -/
def NoEmptyExceptFreshStart (orig g : G) : Prop :=
  ∀ p ∈ g.prods, p.body = [] →
    p.head = g.start ∧ g.start ∉ orig.nonterms ∧ ∀ q ∈ g.prods, Sym.nonterm g.start ∉ q.body

instance (orig g : G) : Decidable (NoEmptyExceptFreshStart orig g) := by
  unfold NoEmptyExceptFreshStart; infer_instance

/-- no production `A → B` -/
def NoUnit (g : G) : Prop := ∀ p ∈ g.prods, isSingle p = false

instance (g : G) : Decidable (NoUnit g) := by unfold NoUnit; infer_instance

/-- reachable from the start symbol through production bodies -/
inductive Reach (g : G) : String → Prop where
  | start : Reach g g.start
  | step (p : SProd) (n : String) : p ∈ g.prods → Reach g p.head → Sym.nonterm n ∈ p.body → Reach g n

/-- every declared non-terminal and every production head is reachable; every declared terminal occurs
in a production -/
def AllReachable (g : G) : Prop :=
  (∀ n ∈ g.nonterms, Reach g n) ∧ (∀ p ∈ g.prods, Reach g p.head) ∧
  (∀ t ∈ g.terms, ∃ p ∈ g.prods, Sym.term t ∈ p.body)

/-- `α ⇒⁺ β` -/
def DerivesPlus (g : G) (α β : List SSym) : Prop := ∃ γ, Step g α γ ∧ Derives g γ β

/-- no derivation `A ⇒⁺ A` -/
def NoCycle (g : G) : Prop := ∀ A : String, ¬ DerivesPlus g [.nonterm A] [.nonterm A]

/-- no derivation `A ⇒⁺ A α` -/
def NoLeftRecursion (g : G) : Prop := ∀ (A : String) (α : List SSym), ¬ DerivesPlus g [.nonterm A] (.nonterm A :: α)

/-- no non-terminal has two different alternatives that begin with the same symbol -/
def LeftFactored (g : G) : Prop :=
  ∀ p ∈ g.prods, ∀ q ∈ g.prods, p.head = q.head → p ≠ q → p.body ≠ [] → p.body.head? ≠ q.body.head?

instance (g : G) : Decidable (LeftFactored g) := by unfold LeftFactored; infer_instance

/-- a production in Chomsky normal form: `A → B C` with `B, C` not the start symbol, `A → a`, or `S → ε` -/
def cnfProd (g : G) (p : SProd) : Bool :=
  match p.body with
  | [] => p.head = g.start
  | [.term _] => true
  | [.nonterm b, .nonterm c] => b ≠ g.start && c ≠ g.start
  | _ => false

def IsCNF (g : G) : Prop := ∀ p ∈ g.prods, cnfProd g p = true

instance (g : G) : Decidable (IsCNF g) := by unfold IsCNF; infer_instance

/-- what `(*CFG).IsCNF()` checks (it does not look for the start symbol in bodies) -/
def looseCnfProd (g : G) (p : SProd) : Bool :=
  match p.body with
  | [] => p.head = g.start
  | [.term _] => true
  | [.nonterm _, .nonterm _] => true
  | _ => false

/-! ## graph analyses (executable) -/

/-- apply `f` `n` times -/
def iter {α : Type} (f : α → α) : Nat → α → α
  | 0, a => a
  | n + 1, a => iter f n (f a)

/-- the nullable non-terminals: `prods.length + 1` rounds of "add every head with an all-nullable body" -/
def nullableB (g : G) : List String :=
  iter (fun nul => g.prods.foldl (fun nul p => if bodyAllIn nul p.body then ins nul p.head else nul) nul)
    (g.prods.length + 1) []

def allNullable (nul : List String) (b : List SSym) : Bool := bodyAllIn nul b

/-- vertices reachable from `from_` in one or more steps of `succ` (`n` rounds) -/
def reachPlus (succ : String → List String) (n : Nat) (from_ : String) : List String :=
  iter (fun r => r.foldl (fun r x => insAll r (succ x)) r) n (insAll [] (succ from_))

/-- `A → B` iff `A → α B β ∈ P` with `α β ⇒* ε` -/
def unitEdges (g : G) (nul : List String) (A : String) : List String :=
  (prodsOf g.prods A).flatMap fun p =>
    (List.range p.body.length).filterMap fun i =>
      match (p.body[i]? : Option SSym) with
      | some (Sym.nonterm b) =>
        if allNullable nul (p.body.take i) && allNullable nul (p.body.drop (i + 1)) then some b else none
      | _ => none

/-- `A → B` iff `A → α B β ∈ P` with `α ⇒* ε` -/
def leftCornerEdges (g : G) (nul : List String) (A : String) : List String :=
  (prodsOf g.prods A).flatMap fun p =>
    (List.range p.body.length).filterMap fun i =>
      match (p.body[i]? : Option SSym) with
      | some (Sym.nonterm b) => if allNullable nul (p.body.take i) then some b else none
      | _ => none

def vertices (g : G) : List String := insAll g.nonterms (g.prods.map (fun p => p.head))

def acyclicB (g : G) (succ : String → List String) : Bool :=
  let vs := vertices g
  vs.all fun a => !((reachPlus succ (vs.length + 1) a).contains a)

def noCycleB (g : G) : Bool := acyclicB g (unitEdges g (nullableB g))

def noLeftRecB (g : G) : Bool := acyclicB g (leftCornerEdges g (nullableB g))

def reachSetB (g : G) : List String :=
  iter (fun r => g.prods.foldl (fun r p => if p.head ∈ r then insAll r (bodyNTs p.body) else r) r)
    (g.nonterms.length + g.prods.length + 1) [g.start]

def allReachableB (g : G) : Bool :=
  let r := reachSetB g
  g.nonterms.all (fun n => decide (n ∈ r)) && g.prods.all (fun p => decide (p.head ∈ r)) &&
  g.terms.all (fun t => g.prods.any (fun p => p.body.contains (.term t)))

def validB (g : G) : Bool := decide (Spec.Valid g)
def noEmptyB (orig g : G) : Bool := decide (NoEmptyExceptFreshStart orig g)
def noUnitB (g : G) : Bool := decide (NoUnit g)
def leftFactoredB (g : G) : Bool := decide (LeftFactored g)
def isCNFB (g : G) : Bool := decide (IsCNF g)
def looseCNFB (g : G) : Bool := g.prods.all (looseCnfProd g)

end AlgoVerif.C09.Spec
