import AlgoVerif.Model.C08
/-!
# Spec for C08: which grammars the property quantifies over, and what it says about them

The language itself is `AlgoVerif.Gram.Language` (`Model/GrammarCore.lean`: terminal strings derivable from
the start symbol by `Step`/`Derives`).  This file adds

* `Valid` — what `(*CFG).Verify()` accepts;
* `Hygienic` — no declared name ends in a suffix `AddNewNonTerminal` appends and the two alphabets are
  disjoint (makes the choice of fresh names independent of iteration order);
* `SameLanguage`.

Core Lean only.
-/
namespace AlgoVerif.C08.Spec
open AlgoVerif AlgoVerif.Gram AlgoVerif.C08

/-- a body symbol is declared -/
def SymDeclared (g : G) : SSym → Prop
  | .term t => t ∈ g.terms
  | .nonterm n => n ∈ g.nonterms

instance (g : G) (s : SSym) : Decidable (SymDeclared g s) := by
  cases s <;> unfold SymDeclared <;> infer_instance

/-- `Verify()`: the start symbol is declared, every declared non-terminal has a production, every head
and every body symbol is declared -/
def Valid (g : G) : Prop :=
  g.start ∈ g.nonterms ∧
  (∀ n ∈ g.nonterms, ∃ p ∈ g.prods, p.head = n) ∧
  (∀ p ∈ g.prods, p.head ∈ g.nonterms ∧ ∀ s ∈ p.body, SymDeclared g s)

instance (g : G) : Decidable (Valid g) := by unfold Valid; infer_instance

/-- `Valid` without "every non-terminal has a production": the start symbol, every head and every body
symbol are declared -/
def WellFormed (g : G) : Prop :=
  g.start ∈ g.nonterms ∧ (∀ p ∈ g.prods, p.head ∈ g.nonterms ∧ ∀ s ∈ p.body, SymDeclared g s)

instance (g : G) : Decidable (WellFormed g) := by unfold WellFormed; infer_instance

theorem Valid.wellFormed {g : G} (h : Valid g) : WellFormed g := ⟨h.1, h.2.2⟩

/-- every suffix `AddNewNonTerminal` can append -/
def reservedSuffixes : List String := primes ++ alphas ++ numerics

def hygienicName (n : String) : Bool :=
  reservedSuffixes.all fun s => !(s.toList.isSuffixOf n.toList)

/-- no declared name ends in a reserved suffix; terminal and non-terminal names are disjoint -/
def Hygienic (g : G) : Prop :=
  (∀ n ∈ g.nonterms, hygienicName n = true) ∧ (∀ t ∈ g.terms, hygienicName t = true) ∧
  (∀ t ∈ g.terms, t ∉ g.nonterms)

instance (g : G) : Decidable (Hygienic g) := by unfold Hygienic; infer_instance

/-! ## `L(G) ≠ ∅`, decidably -/

def bodyProductive (pr : List String) (b : List SSym) : Bool :=
  b.all fun s => match s with
    | .nonterm n => decide (n ∈ pr)
    | .term _ => true

/-- one pass of "add every head that has a body of terminals and productive non-terminals" -/
def productivePass (ps : List SProd) (pr : List String) : List String :=
  ps.foldl (fun pr p => if p.head ∈ pr then pr else if bodyProductive pr p.body then pr ++ [p.head] else pr) pr

/-- the productive non-terminals (least fixpoint; the fuel always suffices, `productive_total`) -/
def productive (g : G) : Option (List String) := iterFix (productivePass g.prods) (g.prods.length + 2) []

/-- the start symbol derives some terminal string; `nonEmptyB g = true ↔ ∃ w, Language g w`
(`Proofs/C08Productive.lean`) -/
def nonEmptyB (g : G) : Bool :=
  match productive g with
  | some pr => decide (g.start ∈ pr)
  | none => false

/-- the two grammars generate the same set of terminal strings -/
def SameLanguage (g g' : G) : Prop := ∀ w : List String, Language g' w ↔ Language g w

end AlgoVerif.C08.Spec
