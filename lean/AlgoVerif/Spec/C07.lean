import AlgoVerif.Common
/-!
# Spec for C07: what "sorted permutation", "rank k" and "native order" mean

Core only.  Sortedness is `List.Pairwise` of the comparator's `≤`, "same multiset" is `List.Perm`
(both from Lean core); the executable reference is core's stable `List.mergeSort`.
-/
namespace AlgoVerif.C07

variable {α : Type}

/-- The comparator contract of `generic.CompareFunc`: the sign of `cmp a b` is a total preorder
(`flip`: `a < b ↔ b > a`, hence `cmp a b = 0 ↔ cmp b a = 0` and totality; `trans`: `≤` is transitive).
Nothing relates `cmp a b = 0` to `a = b` (non-injective preorders are allowed). -/
structure TotalPreorder (cmp : α → α → Int) : Prop where
  flip : ∀ a b, cmp a b < 0 ↔ 0 < cmp b a
  trans : ∀ a b c, cmp a b ≤ 0 → cmp b c ≤ 0 → cmp a c ≤ 0

/-- `l` is sorted w.r.t. `cmp`: every earlier element is `≤` every later one. -/
def Sorted (cmp : α → α → Int) (l : List α) : Prop := l.Pairwise (fun x y => cmp x y ≤ 0)

/-- `out` is the sorted permutation of `inp`. -/
def IsSortOf (cmp : α → α → Int) (out inp : Array α) : Prop :=
  Sorted cmp out.toList ∧ out.toList.Perm inp.toList

/-- `v` has rank `k` in `l` (0-based): `v` occurs in `l`, fewer than or exactly `k` elements are
strictly smaller and more than `k` elements are `≤ v` — i.e. `v` can stand at index `k` of the
sorted list. -/
def HasRank (cmp : α → α → Int) (l : List α) (k : Nat) (v : α) : Prop :=
  v ∈ l ∧ l.countP (fun x => cmp x v < 0) ≤ k ∧ k < l.countP (fun x => cmp x v ≤ 0)

/-- The contract of `r.Intn(n-i)` in `Shuffle`: the `i`-th call returns a value in `[0, n-i)`.
Nothing else is assumed about the random source. -/
def IntnContract (choice : Nat → Int) (n : Nat) : Prop :=
  ∀ i, i < n → 0 ≤ choice i ∧ choice i < (n : Int) - i

/-- executable reference sort (stable) -/
def refSort (cmp : α → α → Int) (l : List α) : List α := l.mergeSort (fun x y => decide (cmp x y ≤ 0))

/-! ### native orders of the radix sorts -/

/-- `uint` order -/
def uLe (a b : UInt64) : Bool := a ≤ b
/-- `int` order on two's-complement bit patterns -/
def iLe (a b : UInt64) : Bool := a.toInt64 ≤ b.toInt64
/-- `string` order: bytewise lexicographic -/
def bytesLe : List UInt8 → List UInt8 → Bool
  | [], _ => true
  | _ :: _, [] => false
  | x :: xs, y :: ys => if x < y then true else if y < x then false else bytesLe xs ys

/-- the order `LSDString(a, w)` sorts by: the first `w` bytes -/
def prefixLe (w : Nat) (s t : List UInt8) : Bool := bytesLe (s.take w) (t.take w)

end AlgoVerif.C07
