import AlgoVerif.Model.C14S
import AlgoVerif.Spec.C14
/-!
# Spec for C14, part 2: graph objects over time

The abstract object is the list of `AddEdge` calls an object has received so far (`List EdgeIn`, in order,
including the calls with an endpoint outside `[0, n)`, which `AddEdge` ignores).  Everything an object can be
asked is specified as a function of the kind, the vertex count and that list:

* `adjSpec`   what `Adj(v)` holds (exactly, in order), hence degrees, `E()`, `Edges()`;
* `flipSpec`  the `AddEdge` calls `Reverse()` makes, so `Reverse()` of the graph with edge list `es` is the graph
              with edge list `flipSpec n es`;
* `Admits`    what the property demands of the answer of each query on the graph with exactly the edges `es`;
* `SWorld`    a client holding several objects: each is (kind, n, edge list); an `AddEdge` appends to the
              current object's list and to no other, a query changes nothing, `Reverse()` adds an object whose
              list is the flipped list of the current one *at that moment*.
-/
namespace AlgoVerif.C14

/-- both endpoints are vertices (the condition under which `AddEdge` stores the edge) -/
def validE (n : Nat) (e : EdgeIn) : Bool :=
  decide (0 ≤ e.u) && decide (e.u < (n : Int)) && (decide (0 ≤ e.v) && decide (e.v < (n : Int)))

/-- the entries one `AddEdge` call appends to `adj[v]` -/
def arcsOf (k : Kind) (n : Nat) (e : EdgeIn) (v : Nat) : List Arc :=
  if validE n e then
    (if e.u.toNat = v then [⟨e.v.toNat, ⟨e.u.toNat, e.v.toNat, e.w⟩⟩] else []) ++
    (if !k.isDirected && decide (e.v.toNat = v) then [⟨e.u.toNat, ⟨e.u.toNat, e.v.toNat, e.w⟩⟩] else [])
  else []

/-- `Adj(v)` of the graph of kind `k` on `n` vertices that has received the `AddEdge` calls `es` -/
def adjSpec (k : Kind) (n : Nat) (es : List EdgeIn) (v : Nat) : List Arc :=
  es.flatMap fun e => arcsOf k n e v

/-- the `AddEdge` calls `Reverse()` makes on the new graph: by tail vertex, then in insertion order, every
stored edge turned around -/
def flipSpec (n : Nat) (es : List EdgeIn) : List EdgeIn :=
  (List.range n).flatMap fun v =>
    (es.filter fun e => validE n e && decide (e.u.toNat = v)).map fun e => ⟨e.v, e.u, e.w⟩

/-- the edge relation of the edge list, by kind -/
def EdgeRel (k : Kind) (n : Nat) (es : List EdgeIn) : Nat → Nat → Prop :=
  if k.isDirected then DirE n es else UndirE n es

/-- the graph with `n` vertices and exactly the edges `es` (`C14_build_*` describe it) -/
def theGraph (k : Kind) (n : Nat) (es : List EdgeIn) : Graph :=
  if k.isDirected then buildDirected n es else buildUndirected n es

/-! ## what the property demands of each query -/

/-- `To(v)` for a vertex `v`: a real path from `s` iff `v` is reachable from `s`, with the fewest edges for BFS -/
def PathOK (E : Nat → Nat → Prop) (n : Nat) (strat : Strategy) (s : Int) (v : Nat) : Option (List Nat) → Prop
  | some p => 0 ≤ s ∧ s < (n : Int) ∧ WalkFromTo E s.toNat v p ∧
      (strat = .bfs → ∀ m, WalkLen E s.toNat m v → p.length ≤ m + 1)
  | none => ¬ (0 ≤ s ∧ s < (n : Int) ∧ Reach E s.toNat v)

/-- the ids partition the vertices exactly by the relation `R`, and `count` is the number of classes -/
def PartitionBy (n : Nat) (c : Components) (R : Nat → Nat → Prop) : Prop :=
  c.id.size = n ∧
  (∀ x, x < n → ∃ i, c.id[x]? = some i ∧ i < c.count) ∧
  (∀ i, i < c.count → ∃ x, x < n ∧ c.id[x]? = some i) ∧
  (∀ x y, x < n → y < n → (c.id[x]? = c.id[y]? ↔ R x y))

/-- `PathTo(v)`: `none` iff no walk of stored edges leads from `s` to `v`; otherwise a walk of stored edges from `s`
to `v`, its weight, and no walk from `s` to `v` is lighter -/
def SptOK (g : Graph) (s v : Nat) : Option (List Edge × Int) → Prop
  | none => ¬ ∃ q, IsEdgeWalk g s v q
  | some (p, d) => IsEdgeWalk g s v p ∧ walkWeight p = d ∧ ∀ q, IsEdgeWalk g s v q → d ≤ walkWeight q

/-- **What C14 demands of the outcome `a` of query `q`** on the graph of kind `k` with `n` vertices and exactly
the edges `es` (`E` = its edge relation, `G` = the graph).  `orders` and the accessors are not part of the
property's statement (the accessors have their own theorem, `C14_accessors`). -/
def Admits (k : Kind) (n : Nat) (es : List EdgeIn) : Query → Outcome Answer → Prop
  | .path strat s v, a =>
    if 0 ≤ v ∧ v < (n : Int) then ∃ r, a = .ok (.path r) ∧ PathOK (EdgeRel k n es) n strat s v.toNat r
    else a = .panic
  | .paths strat s, a =>
    ∃ l, a = .ok (.paths l) ∧ l.length = n ∧
      ∀ v, v < n → ∃ r, l[v]? = some (.ok r) ∧ PathOK (EdgeRel k n es) n strat s v r
  | .cc, a => ∃ c, a = .ok (.comps c) ∧ PartitionBy n c (Reach (EdgeRel k n es))
  | .scc, a =>
    ∃ c, a = .ok (.comps c) ∧
      PartitionBy n c fun x y => Reach (EdgeRel k n es) x y ∧ Reach (EdgeRel k n es) y x
  | .cycle, a =>
    ∃ c, a = .ok (.cycle c) ∧ (∀ cyc, c = some cyc → IsCycle (EdgeRel k n es) cyc) ∧
      (c = none ↔ Acyclic (EdgeRel k n es))
  | .topo, a =>
    ∃ t, a = .ok (.topo t) ∧ (t.order.isSome ↔ Acyclic (EdgeRel k n es)) ∧ (t.rank.isSome ↔ t.order.isSome) ∧
      ∀ order, t.order = some order →
        IsPermOfRange n order ∧ RespectsArcs (EdgeRel k n es) order ∧
        ∃ rank : Array Nat, t.rank = some rank ∧ rank.size = n ∧
          ∀ (j v : Nat), order[j]? = some v → rank[v]? = some j
  | .mst, a =>
    ∃ m, a = .ok (.mst m) ∧ IsSpanningForest (theGraph k n es) m.edges ∧ m.weight = wsum m.edges ∧
      ∀ F, IsSpanningForest (theGraph k n es) F → m.weight ≤ wsum F
  | .sptto s v, a =>
    (∀ e ∈ es, 0 ≤ e.w) →
      if 0 ≤ s ∧ s < (n : Int) then
        if 0 ≤ v ∧ v < (n : Int) then ∃ t r, a = .ok (.sptto t r) ∧ SptOK (theGraph k n es) s.toNat v.toNat r
        else a = .panic
      else a = .panic
  | .spt s, a =>
    (∀ e ∈ es, 0 ≤ e.w) →
      if 0 ≤ s ∧ s < (n : Int) then
        ∃ t l, a = .ok (.spt t l) ∧ l.length = n ∧
          ∀ v, v < n → ∃ r, l[v]? = some (.ok r) ∧ SptOK (theGraph k n es) s.toNat v r
      else a = .panic
  | _, _ => True

/-! ## several objects -/

/-- an object as the Spec sees it: kind, vertex count, the `AddEdge` calls received so far -/
structure SObj where
  k : Kind
  n : Nat
  es : List EdgeIn

def SObj.eval (s : SObj) : GObj := GObj.build s.k s.n s.es

structure SWorld where
  objs : Array SObj
  cur : Nat

def SWorld.init (k : Kind) (n : Nat) : SWorld := ⟨#[⟨k, n, []⟩], 0⟩

def SWorld.obj (w : SWorld) : SObj := w.objs.getD w.cur ⟨.directed, 0, []⟩

/-- `AddEdge` appends to the current object's list and touches no other object; a query touches nothing;
`Reverse()` adds an object whose list is the flipped list of the current one as it is now; `NewX(n, es…)` adds an
object with the list `es` -/
def SWorld.step (w : SWorld) : Op → SWorld
  | .edge u v wt =>
    { w with objs := w.objs.setIfInBounds w.cur { w.obj with es := w.obj.es ++ [⟨u, v, wt⟩] } }
  | .query _ => w
  | .mkrev =>
    if w.obj.k.isDirected then { w with objs := w.objs.push ⟨w.obj.k, w.obj.n, flipSpec w.obj.n w.obj.es⟩ } else w
  | .use i => if i < w.objs.size then { w with cur := i } else w
  | .mknew n es => { w with objs := w.objs.push ⟨w.obj.k, n, es⟩ }

/-- the final Spec world and, per step, what the call must return: `unit` for `AddEdge`/`Reverse`/`use`, and for a
query the answer on the current object's graph — kind, vertex count and exactly the edges added to it so far -/
def SWorld.run (w : SWorld) : List Op → SWorld × List (Outcome Answer)
  | [] => (w, [])
  | op :: ops =>
    let a : Outcome Answer := match op with
      | .query q => w.obj.eval.answer q
      | _ => .ok .unit
    let r := (w.step op).run ops
    (r.1, a :: r.2)

def SWorld.eval (w : SWorld) : World := ⟨w.objs.map SObj.eval, w.cur⟩

/-- the `AddEdge` calls of a history on a single object -/
def edgesOf : List Op → List EdgeIn
  | [] => []
  | .edge u v w :: ops => ⟨u, v, w⟩ :: edgesOf ops
  | _ :: ops => edgesOf ops

/-- a history on one object: `AddEdge` calls and queries only -/
def Op.single : Op → Bool
  | .edge .. | .query _ => true
  | _ => false

end AlgoVerif.C14
