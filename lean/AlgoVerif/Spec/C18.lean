import AlgoVerif.Common
/-!
# Spec for C18: abstract sequences

* queue  = `List α`, enqueue at the back, dequeue at the front;
* stack  = `List α`, push/pop at the head;
* soft queue = every value ever enqueued (`all`) plus the number already dequeued (`front`).
-/
namespace AlgoVerif.C18.Spec
variable {α : Type}

abbrev Q (α : Type) := List α

def Q.enqueue (q : Q α) (v : α) : Q α := q ++ [v]
def Q.dequeue (q : Q α) : Q α × Option α :=
  match q with
  | [] => ([], none)
  | x :: r => (r, some x)
def Q.peek (q : Q α) : Option α := q.head?
def Q.contains (eq : α → α → Bool) (q : Q α) (v : α) : Bool := q.any (fun x => eq x v)
def Q.size (q : Q α) : Int := q.length
def Q.isEmpty (q : Q α) : Bool := List.isEmpty q

abbrev S (α : Type) := List α
def S.push (s : S α) (v : α) : S α := v :: s
def S.pop (s : S α) : S α × Option α :=
  match s with
  | [] => ([], none)
  | x :: r => (r, some x)
def S.peek (s : S α) : Option α := s.head?
def S.contains (eq : α → α → Bool) (s : S α) (v : α) : Bool := s.any (fun x => eq x v)
def S.size (s : S α) : Int := s.length
def S.isEmpty (s : S α) : Bool := List.isEmpty s

structure SQ (α : Type) where
  all : List α := []
  front : Nat := 0

def SQ.enqueue (q : SQ α) (v : α) : SQ α × Int := ({ q with all := q.all ++ [v] }, q.all.length)
def SQ.dequeue (q : SQ α) : SQ α × Option (α × Int) :=
  match q.all[q.front]? with
  | some v => ({ q with front := q.front + 1 }, some (v, q.front))
  | none => (q, none)
def SQ.peek (q : SQ α) : Option (α × Int) :=
  match q.all[q.front]? with
  | some v => some (v, q.front)
  | none => none
def SQ.size (q : SQ α) : Int := q.all.length - q.front
def SQ.isEmpty (q : SQ α) : Bool := decide (q.all.length ≤ q.front)
/-- `Values()`: every value ever enqueued, in enqueue order (dequeued ones included). -/
def SQ.values (q : SQ α) : List α := q.all
def SQ.contains (eq : α → α → Bool) (q : SQ α) (v : α) : Int :=
  match q.all.findIdx? (fun x => eq x v) with
  | some i => i
  | none => -1

end AlgoVerif.C18.Spec
