import AlgoVerif.Model.GrammarCore
/-!
# Spec for C10 / C12: what nullable, FIRST, FOLLOW and "the parser's answer" mean, in terms of
`Derives` / `Language` of `Model/GrammarCore.lean` (sentential forms, as the property words it).
Core Lean only.
-/
namespace AlgoVerif.C10.Spec
open AlgoVerif.Gram
variable {T N : Type}

/-- `A ⇒* ε` -/
def Nullable (g : Grammar T N) (A : N) : Prop := Derives g [Sym.nonterm A] []

/-- `a` can begin a sentential form derived from `α` -/
def First (g : Grammar T N) (α : List (Sym T N)) (a : T) : Prop :=
  ∃ β, Derives g α (Sym.term a :: β)

/-- `α ⇒* ε` -/
def Eps (g : Grammar T N) (α : List (Sym T N)) : Prop := Derives g α []

/-- `a` can appear immediately after `A` in a sentential form derived from the start symbol -/
def Follow (g : Grammar T N) (A : N) (a : T) : Prop :=
  ∃ α β, Derives g [Sym.nonterm g.start] (α ++ [Sym.nonterm A, Sym.term a] ++ β)

/-- `A` can end a sentential form derived from the start symbol -/
def FollowEnd (g : Grammar T N) (A : N) : Prop :=
  ∃ α, Derives g [Sym.nonterm g.start] (α ++ [Sym.nonterm A])

/-- every declared non-terminal occurs in some sentential form -/
def AllReachable (g : Grammar T N) : Prop :=
  ∀ A, A ∈ g.nonterms → ∃ α β, Derives g [Sym.nonterm g.start] (α ++ [Sym.nonterm A] ++ β)

/-- every declared non-terminal derives a string of terminals -/
def AllProductive (g : Grammar T N) : Prop :=
  ∀ A, A ∈ g.nonterms → ∃ w : List T, Derives g [Sym.nonterm A] (w.map Sym.term)

/-- `π` applied in order, always to the leftmost non-terminal, turns `α` into `β` -/
inductive LeftmostDerives (g : Grammar T N) : List (Gram.Prod T N) → List (Sym T N) → List (Sym T N) → Prop where
  | nil (α : List (Sym T N)) : LeftmostDerives g [] α α
  | cons (u : List T) (p : Gram.Prod T N) (v : List (Sym T N)) {π : List (Gram.Prod T N)} {β : List (Sym T N)} :
      p ∈ g.prods →
      LeftmostDerives g π (u.map Sym.term ++ p.body ++ v) β →
      LeftmostDerives g (p :: π) (u.map Sym.term ++ [Sym.nonterm p.head] ++ v) β

end AlgoVerif.C10.Spec
