import AlgoVerif.Common
/-!
# Spec for C17: the equivalence closure of the union pairs

A history is the list `us` of all `Union(p, q)` calls made so far, arguments exactly as passed
(Go `int`s, possibly out of range).  Over `n` elements:

* `Valid n p`        — `0 ≤ p < n`;
* `Conn n us p q`    — `p` and `q` are valid and related by the reflexive-symmetric-transitive
                        closure of the pairs of `us` whose two arguments are valid ("linked by a
                        chain of earlier unions"); pairs with an invalid argument contribute nothing;
* `IsClassCount n us k` — the relation `Conn n us` has exactly `k` classes on `[0, n)`: a duplicate-free
                        list of `k` pairwise unrelated representatives such that every valid element is
                        related to one of them (`IsClassCount.unique`, in `Proofs/C17Spec.lean`: `k` is
                        determined);
* `numMerges n us`   — the number of unions of the history that joined two different classes
                        ("effective merges").

Executable form (used for the non-vacuity examples, and by `#eval`): `reachB` — breadth-first
reachability over the valid pairs, `n` rounds — and `classCountB`.
-/
namespace AlgoVerif.C17.Spec

/-- `0 ≤ p < n` -/
def Valid (n : Nat) (p : Int) : Prop := 0 ≤ p ∧ p < n

instance (n : Nat) (p : Int) : Decidable (Valid n p) := by unfold Valid; infer_instance

/-- reflexive-symmetric-transitive closure, on the valid elements, of the valid pairs of `us` -/
inductive Conn (n : Nat) (us : List (Int × Int)) : Int → Int → Prop
  | refl {p : Int} : Valid n p → Conn n us p p
  | pair {p q : Int} : (p, q) ∈ us → Valid n p → Valid n q → Conn n us p q
  | symm {p q : Int} : Conn n us p q → Conn n us q p
  | trans {p q r : Int} : Conn n us p q → Conn n us q r → Conn n us p r

/-- the relation has exactly `k` equivalence classes on `[0, n)` -/
def IsClassCount (n : Nat) (us : List (Int × Int)) (k : Nat) : Prop :=
  ∃ reps : List Nat, reps.length = k ∧ reps.Nodup ∧ (∀ r ∈ reps, r < n) ∧
    (∀ p : Int, Valid n p → ∃ r ∈ reps, Conn n us p (r : Int)) ∧
    (∀ r ∈ reps, ∀ s ∈ reps, Conn n us (r : Int) (s : Int) → r = s)

open Classical in
/-- effective merges of the calls `rest`, made after the calls `done` -/
noncomputable def mergesAfter (n : Nat) : List (Int × Int) → List (Int × Int) → Nat
  | _, [] => 0
  | done, (p, q) :: rest =>
    (if Valid n p ∧ Valid n q ∧ ¬ Conn n done p q then 1 else 0) + mergesAfter n (done ++ [(p, q)]) rest

/-- number of `Union` calls of the history that joined two different classes -/
noncomputable def numMerges (n : Nat) (us : List (Int × Int)) : Nat := mergesAfter n [] us

/-- What C17 demands of the three query results of a union-find structure over `n` elements whose
history of `Union` calls is `us` (each query is a modelled Go call: it must return, `.ok`, and …):

* `IsConnected(p, q)` is true exactly when `p`, `q` are linked by a chain of earlier unions;
* `Find` of a valid element returns `(r, true)` with `r` in the element's own class, and two valid
  elements get the same representative iff they are connected;
* `Find` of an out-of-range element is `(-1, false)`;
* `Count` is the number of classes, which is `n` minus the number of effective merges. -/
structure Tracks (n : Nat) (us : List (Int × Int)) (find : Int → Outcome (Int × Bool))
    (isConnected : Int → Int → Outcome Bool) (count : Int) : Prop where
  connected_iff : ∀ p q, ∃ b, isConnected p q = .ok b ∧ (b = true ↔ Conn n us p q)
  find_valid : ∀ p, Valid n p → ∃ r, find p = .ok (r, true) ∧ Conn n us p r
  find_same_iff : ∀ p q rp rq bp bq, Valid n p → Valid n q → find p = .ok (rp, bp) → find q = .ok (rq, bq) →
    (rp = rq ↔ Conn n us p q)
  find_invalid : ∀ p, ¬ Valid n p → find p = .ok (-1, false)
  count_classes : 0 ≤ count ∧ IsClassCount n us count.toNat
  count_merges : count = n - numMerges n us

/-! ## executable form -/

/-- neighbours of `x` through one valid pair (either direction) -/
def nbrs (n : Nat) (us : List (Int × Int)) (x : Int) : List Int :=
  us.filterMap fun (p, q) =>
    if Valid n p ∧ Valid n q then
      if p = x then some q else if q = x then some p else none
    else none

/-- one breadth-first round -/
def expand (n : Nat) (us : List (Int × Int)) (seen : List Int) : List Int :=
  seen.foldl (fun acc x => (nbrs n us x).foldl (fun acc y => if y ∈ acc then acc else acc ++ [y]) acc) seen

def reachSet (n : Nat) (us : List (Int × Int)) (p : Int) : List Int :=
  (List.range n).foldl (fun seen _ => expand n us seen) [p]

/-- `p` and `q` are valid and `q` is reachable from `p` -/
def reachB (n : Nat) (us : List (Int × Int)) (p q : Int) : Bool :=
  decide (Valid n p) && decide (Valid n q) && (reachSet n us p).contains q

/-- number of elements that are the least of their class -/
def classCountB (n : Nat) (us : List (Int × Int)) : Nat :=
  ((List.range n).filter fun i => (List.range i).all fun j => !reachB n us (j : Int) (i : Int)).length

end AlgoVerif.C17.Spec
