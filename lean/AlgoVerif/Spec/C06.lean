import AlgoVerif.Common
/-!
# Spec for C06: a lexicographically sorted map over byte strings

The abstract object of the property: a finite map from byte strings to values, kept as an
association list strictly sorted by the lexicographic order on bytes (`klt`, which is Go's `<` on
strings), with the ordered-map queries and the three string queries

* `withPrefix p`      — the held keys starting with `p`;
* `longestPrefixOf s` — the longest held key that is a prefix of `s`;
* `match pat`         — the held keys of the same length as `pat` agreeing with it at every
                        position that is not `*` (`*` = one-character wildcard).

Everything is a plain list function (filter / find / head / last), so that the meaning can be read
off directly.  Core Lean only.
-/
namespace AlgoVerif.C06

abbrev Key := List UInt8

/-- `'*'`, the one-character wildcard of `Match` -/
def star : UInt8 := 42

/-- Go's `a < b` on strings: lexicographic order on bytes. -/
def klt : Key → Key → Bool
  | [], [] => false
  | [], _ :: _ => true
  | _ :: _, [] => false
  | a :: as, b :: bs => if a < b then true else if a == b then klt as bs else false

/-- Go's `a <= b` on strings. -/
def kle (a b : Key) : Bool := !klt b a

/-- `pat` matches `k`: same length and equal at every position where `pat` is not `*`. -/
def kmatches : Key → Key → Bool
  | [], [] => true
  | p :: ps, c :: cs => (p == star || p == c) && kmatches ps cs
  | _, _ => false

namespace Spec
variable {V : Type}

/-- association list, strictly increasing in `klt` -/
abbrev Map (V : Type) := List (Key × V)

def Map.put : Map V → Key → V → Map V
  | [], k, v => [(k, v)]
  | (k', v') :: m, k, v =>
    if klt k k' then (k, v) :: (k', v') :: m
    else if k == k' then (k, v) :: m
    else (k', v') :: Map.put m k v

def Map.get (m : Map V) (k : Key) : Option V := (m.find? (fun e => e.1 == k)).map (·.2)
def Map.delete (m : Map V) (k : Key) : Map V := m.filter (fun e => e.1 != k)
def Map.size (m : Map V) : Int := m.length
def Map.min (m : Map V) : Option (Key × V) := m.head?
def Map.max (m : Map V) : Option (Key × V) := m.getLast?
def Map.deleteMin (m : Map V) : Map V := m.tail
def Map.deleteMax (m : Map V) : Map V := m.dropLast
/-- the largest held key `≤ k` -/
def Map.floor (m : Map V) (k : Key) : Option (Key × V) := (m.filter (fun e => kle e.1 k)).getLast?
/-- the smallest held key `≥ k` -/
def Map.ceiling (m : Map V) (k : Key) : Option (Key × V) := m.find? (fun e => kle k e.1)
def Map.select (m : Map V) (i : Int) : Option (Key × V) := if i < 0 then none else m[i.toNat]?
/-- number of held keys `< k` -/
def Map.rank (m : Map V) (k : Key) : Int := (m.filter (fun e => klt e.1 k)).length
def Map.range (m : Map V) (lo hi : Key) : List (Key × V) := m.filter (fun e => kle lo e.1 && kle e.1 hi)
def Map.rangeSize (m : Map V) (lo hi : Key) : Int := (Map.range m lo hi).length
def Map.withPrefix (m : Map V) (p : Key) : List (Key × V) := m.filter (fun e => p.isPrefixOf e.1)
/-- prefixes of `s` are totally ordered by length and `klt` agrees with length on them, so the longest
one is the last one in the sorted list -/
def Map.longestPrefixOf (m : Map V) (s : Key) : Option (Key × V) := (m.filter (fun e => e.1.isPrefixOf s)).getLast?
def Map.match (m : Map V) (pat : Key) : List (Key × V) := m.filter (fun e => kmatches pat e.1)

end Spec
end AlgoVerif.C06
