import AlgoVerif.Common
/-!
# Spec for C02/C03: a finite map

A finite map is a duplicate-free association list, taken up to permutation (every query below is
invariant under permutations of a duplicate-free list; listings are compared as multisets).
-/
namespace AlgoVerif.C02.Spec
variable {K V : Type} [DecidableEq K]

abbrev Map (K V : Type) := List (K × V)

def Map.lookup (s : Map K V) (k : K) : Option V :=
  match s with
  | [] => none
  | (k', v) :: r => if k' = k then some v else Map.lookup r k

def Map.erase (s : Map K V) (k : K) : Map K V := s.filter (fun e => e.1 ≠ k)

def Map.insert (s : Map K V) (k : K) (v : V) : Map K V := (k, v) :: Map.erase s k

def Map.size (s : Map K V) : Int := s.length

/-- `s1 ⊆ s2` with values compared by `eqVal` (first argument from `s1`) -/
def Map.sub (eqVal : V → V → Bool) (s1 s2 : Map K V) : Bool :=
  s1.all fun e => match Map.lookup s2 e.1 with
    | some v2 => eqVal e.2 v2
    | none => false

def Map.equal (eqVal : V → V → Bool) (s1 s2 : Map K V) : Bool :=
  Map.sub eqVal s1 s2 && Map.sub eqVal s2 s1

end AlgoVerif.C02.Spec
