import AlgoVerif.Model.C19Run
/-!
# C19 — Spec: the decoded source and three cursors

The source is a list of runes `flushed ++ pending ++ rest` (its bytes are `String.utf8EncodeChar` of each —
Lean core's own UTF-8 encoder), possibly followed by bytes `tail` that do not start with a complete
well-formed sequence.

* `flushed` — runes already handed out by `Lexeme` or passed over by `Skip`;
* `pending` — runes read by `Next` since then (the pending lexeme);
* `rest`    — runes not read yet.

`Next` moves the head of `rest` to the end of `pending` and returns it (`io.EOF` when `rest` is empty),
`Retract` moves the last rune of `pending` back, `Lexeme` returns the bytes of `pending` with the position of
its first rune and appends `pending` to `flushed`, `Skip` returns that position and does the same.
Position = (number of runes before, 1-based line, 1-based column counted in runes), all computed from
`flushed` alone.  Core Lean only.
-/
namespace AlgoVerif.C19.Spec
open AlgoVerif.C19

/-- UTF-8 bytes of a list of runes -/
def encode (cs : List Char) : List UInt8 := cs.flatMap String.utf8EncodeChar

/-- (line, column) reached after reading `cs` starting at `(line, col)` -/
def advance : Nat × Nat → List Char → Nat × Nat
  | lc, [] => lc
  | (l, c), ch :: cs => advance (if ch = '\n' then (l + 1, 1) else (l, c + 1)) cs

/-- position of the rune that follows the runes `cs` read from the start of the source -/
def posAfter (cs : List Char) : Pos :=
  let lc := advance (1, 1) cs
  { offset := cs.length, line := lc.1, column := lc.2 }

structure State where
  flushed : List Char := []
  pending : List Char := []
  rest : List Char
  /-- bytes after the last well-formed rune (`[]` for a valid source) -/
  tail : List UInt8 := []
  deriving Repr, DecidableEq

def step (s : State) : Op → State × Out
  | .next =>
    match s.rest with
    | c :: r => ({ s with pending := s.pending ++ [c], rest := r }, .rune c.toNat)
    | [] => if s.tail = [] then (s, .err .eof) else (s, .invalid (posAfter (s.flushed ++ s.pending)))
  | .retract =>
    match s.pending.getLast? with
    | some c => ({ s with pending := s.pending.dropLast, rest := c :: s.rest }, .unit)
    | none => (s, .unit)
  | .lexeme =>
    ({ s with flushed := s.flushed ++ s.pending, pending := [] }, .lexeme (encode s.pending) (posAfter s.flushed))
  | .skip =>
    ({ s with flushed := s.flushed ++ s.pending, pending := [] }, .skipped (posAfter s.flushed))

def run : State → List Op → List Out
  | _, [] => []
  | s, op :: ops => let (s', o) := step s op; o :: run s' ops

/-- the states a call sequence goes through (after each call) -/
def states : State → List Op → List State
  | _, [] => []
  | s, op :: ops => let (s', _) := step s op; s' :: states s' ops

/-- the property's precondition: after every call the pending lexeme has at most `n` bytes -/
def Keeps (n : Nat) (s : State) (ops : List Op) : Prop :=
  ∀ s' ∈ states s ops, (encode s'.pending).length ≤ n

instance (n : Nat) (s : State) (ops : List Op) : Decidable (Keeps n s ops) := by
  unfold Keeps; infer_instance

/-- the spans handed out by `Lexeme` (bytes) and passed over by `Skip` (the runes' bytes), in order -/
def spans : State → List Op → List (List UInt8)
  | _, [] => []
  | s, op :: ops =>
    let (s', _) := step s op
    match op with
    | .lexeme | .skip => encode s.pending :: spans s' ops
    | _ => spans s' ops

/-- state after a call sequence -/
def final : State → List Op → State
  | s, [] => s
  | s, op :: ops => final (step s op).1 ops

end AlgoVerif.C19.Spec
