import AlgoVerif.Model.C11
/-!
# C11 — Spec

* rightmost derivations (on top of `Gram.Step/Derives/Language` of `GrammarCore`);
* `tableCheck`: an executable *validator* for a built table against the item sets of its states.  Its first
  group of conditions (`soundChecks`) is exactly what the soundness theorem `C11_sound` needs; the second group
  (`completeChecks`: closure-closed item sets, a transition for every symbol after a dot, a reduce action for
  every complete item and each of its lookaheads) is what a completeness proof would rest on (in the style of
  Jourdan–Pottier–Leroy, "Validating LR(1) parsers") and is only *evaluated* on every generated table;
* a precedence-climbing reference parser for operator grammars `E → E op E | id`.

Core Lean only.
-/
namespace AlgoVerif.C11.Spec
open AlgoVerif AlgoVerif.Gram AlgoVerif.C11

/-! ## rightmost derivations -/

/-- `RDeriv g π α β`: rewriting, for each production of `π` in turn, the rightmost non-terminal (everything to
its right is terminal) leads from `α` to `β`. -/
inductive RDeriv (g : SGrammar) : List Pr → List Sy → List Sy → Prop where
  | nil (α : List Sy) : RDeriv g [] α α
  | cons {π : List Pr} {β : List Sy} (u : List Sy) (v : List String) (p : Pr) (hp : p ∈ g.prods) :
      RDeriv g π (u ++ p.body ++ v.map Sym.term) β →
      RDeriv g (p :: π) (u ++ [Sym.nonterm p.head] ++ v.map Sym.term) β

/-- `π` is a rightmost derivation of the sentence `w` from the start symbol -/
def RightmostDerivation (g : SGrammar) (π : List Pr) (w : List String) : Prop :=
  RDeriv g π [Sym.nonterm g.start] (w.map Sym.term)

/-! ## the table validator -/

def itemsAt (S : StateMap) (s : Int) : List Item := if s < 0 then [] else S.getD s.toNat []

/-- the transitions a table can take: `(s, X, t)` for `shift t ∈ ACTION[s,a]` (X = a) and `GOTO[s,A] = t` (X = A) -/
def transitions (T : Table) : List (Int × Sy × Int) :=
  T.actions.flatMap (fun e => e.2.filterMap fun act =>
    match act with
    | .shift t => some (e.1.1, Sym.term e.1.2, t)
    | _ => none)
  ++ T.gotos.map (fun e => (e.1.1, Sym.nonterm e.1.2, e.2))

/-- item `it` (dot > 0) of the target state is justified by the source state: the symbol before its dot is the
transition symbol and its predecessor (same production, dot one to the left) is in the source state -/
def itemJustified (src : List Item) (X : Sy) (it : Item) : Bool :=
  it.dot == 0 ||
    (it.prod.body[it.dot - 1]? == some X && src.any (fun j => j.prod == it.prod && j.dot + 1 == it.dot))

/-- V1: every transition leads to a state other than 0 whose kernel items are justified by the source state -/
def chkTransitions (S : StateMap) (T : Table) : Bool :=
  (transitions T).all fun tr => tr.2.2 != 0 && (itemsAt S tr.2.2).all (itemJustified (itemsAt S tr.1) tr.2.1)

/-- V2: every reduce action is by a production of `g` whose complete item is in the state -/
def chkReduces (g : SGrammar) (S : StateMap) (T : Table) : Bool :=
  T.actions.all fun e => e.2.all fun act =>
    match act with
    | .reduce p => g.prods.contains p && (itemsAt S e.1.1).any (fun j => j.prod == p && j.dot == p.body.length)
    | _ => true

/-- V3: `accept` only on the endmarker, in a state holding `S′ → S •` -/
def chkAccepts (g : SGrammar) (start' : String) (S : StateMap) (T : Table) : Bool :=
  T.actions.all fun e => e.2.all fun act =>
    match act with
    | .accept => e.1.2 == endmarker &&
        (itemsAt S e.1.1).any (fun j => j.prod == { head := start', body := [Sym.nonterm g.start] } && j.dot == 1)
    | _ => true

/-- V4/V5: state 0 has only items with the dot at the left end; items of `S′` do not occur with dot 0 elsewhere -/
def chkInitial (start' : String) (S : StateMap) : Bool :=
  (itemsAt S 0).all (fun it => it.dot == 0) &&
  ((List.range S.length).all fun i =>
    i == 0 || (itemsAt S (i : Int)).all (fun it => !(it.prod.head == start' && it.dot == 0)))

/-- V6: the endmarker is never shifted -/
def chkNoShiftEnd (T : Table) : Bool :=
  T.actions.all fun e => !(e.1.2 == endmarker) || e.2.all (fun act => !isShift act)

/-- S′ is a fresh name -/
def chkFresh (g : SGrammar) (start' : String) : Bool :=
  !g.nonterms.contains start' && g.prods.all (fun p => !(p.head == start'))

def soundChecks (g : SGrammar) (b : Built) : List (String × Bool) :=
  [ ("transitions", chkTransitions b.states b.table),
    ("reduces", chkReduces g b.states b.table),
    ("accepts", chkAccepts g b.start b.states b.table),
    ("initial", chkInitial b.start b.states),
    ("no-shift-of-endmarker", chkNoShiftEnd b.table),
    ("fresh-start", chkFresh g b.start) ]

/-! ### completeness-side conditions (evaluated, not used by a theorem yet) -/

/-- the initial item is in state 0 -/
def chkHasInitial (g : SGrammar) (start' : String) (S : StateMap) : Bool :=
  (itemsAt S 0).any fun it => it.prod == { head := start', body := [Sym.nonterm g.start] } && it.dot == 0

/-- item sets are closed: `A → α•Bβ [a]` in the state, `B → γ` a production ⇒ `B → •γ [b]` in the state for every
`b ∈ FIRST(βa)` (LR(1) items) / `B → •γ` (LR(0) items) -/
def chkClosed (g' : SGrammar) (nl : List String) (fe : Env) (S : StateMap) : Bool :=
  S.all fun I => I.all fun it =>
    match it.dotSym with
    | some (.nonterm B) =>
      (prodsOf g' B).all fun p =>
        match it.la with
        | none => I.contains { prod := p, dot := 0, la := none }
        | some a =>
          (lookaheadsFor nl fe it a).all fun b => I.contains { prod := p, dot := 0, la := some b }
    | _ => true

/-- every symbol after a dot has a transition whose target holds the advanced item (with the same lookahead) -/
def chkAdvance (S : StateMap) (T : Table) : Bool :=
  (S.zipIdx).all fun Is => Is.1.all fun it =>
    match it.dotSym with
    | some (.term a) =>
      (T.cell Is.2 a).any fun act =>
        match act with
        | .shift t => (itemsAt S t).contains it.next
        | _ => false
    | some (.nonterm A) =>
      -- the goto on S′ itself never exists; S′ is never after a dot
      match T.goto Is.2 A with
      | some t => (itemsAt S t).contains it.next
      | none => false
    | none => true

/-- every complete item has its reduce (or accept) action on each of its lookaheads
(`follow`: the lookaheads of an LR(0) item, i.e. FOLLOW of its head, for SLR) -/
def chkReduceComplete (start' : String) (follow : String → List String) (S : StateMap) (T : Table) : Bool :=
  (S.zipIdx).all fun Is => Is.1.all fun it =>
    if it.isComplete then
      if it.prod.head == start' then (T.cell Is.2 endmarker).contains .accept
      else
        let las := match it.la with | some a => [a] | none => follow it.prod.head
        las.all fun a => (T.cell Is.2 a).contains (.reduce it.prod)
    else true

/-- `nl` is closed under the productions: a head whose body is all nullable is nullable -/
def chkNullClosed (ps : List Pr) (nl : List String) : Bool :=
  ps.all fun p => !(p.body.all (symNullable nl)) || nl.contains p.head

/-- `fe` is closed under the productions: FIRST of a body is contained in FIRST of its head -/
def chkFirstClosed (ps : List Pr) (nl : List String) (fe : Env) : Bool :=
  ps.all fun p => (firstOfStr nl fe p.body).all fun c => (envGet fe p.head).contains c

/-- no conflict: at most one action per cell -/
def chkConflictFree (T : Table) : Bool := T.actions.all fun e => e.2.length ≤ 1

/-- state 0 holds the LR(1) initial item `[S′ → •S, $]` -/
def chkInitLR1 (g : SGrammar) (start' : String) (S : StateMap) : Bool :=
  (itemsAt S 0).contains { prod := { head := start', body := [Sym.nonterm g.start] }, dot := 0, la := some endmarker }

/-- every item carries a lookahead (the table was built from LR(1) items) -/
def chkAllLR1 (S : StateMap) : Bool := S.all fun I => I.all fun it => it.la.isSome

def completeChecks (g : SGrammar) (b : Built) : List (String × Bool) :=
  match augment g with
  | .ok g' =>
    let nl := nullableOf g'
    let fe := firstEnv g' nl
    let fo := followEnv g' nl fe
    [ ("has-initial-item", chkHasInitial g b.start b.states),
      ("nullable-closed", chkNullClosed g'.prods nl),
      ("first-closed", chkFirstClosed g'.prods nl fe),
      ("closed", chkClosed g' nl fe b.states),
      ("advance", chkAdvance b.states b.table),
      ("reduce-complete", chkReduceComplete b.start (envGet fo) b.states b.table) ]
  | _ => [("augment", false)]

/-- `none` = every check holds; otherwise the name of the first check that fails -/
def tableCheck (g : SGrammar) (b : Built) : Option String :=
  ((soundChecks g b ++ completeChecks g b).find? (fun c => !c.2)).map (·.1)

def soundOK (g : SGrammar) (b : Built) : Bool := (soundChecks g b).all (·.2)

/-- the completeness group for a conflict-free table built from LR(1) items (LALR(1), canonical LR(1)):
what `C11_complete` needs -/
def completeLR1OK (g : SGrammar) (b : Built) : Bool :=
  match augment g with
  | .ok g' =>
    let nl := nullableOf g'
    let fe := firstEnv g' nl
    g'.start == b.start &&
    chkNullClosed g'.prods nl && chkFirstClosed g'.prods nl fe &&
    chkInitLR1 g b.start b.states && chkAllLR1 b.states &&
    chkClosed g' nl fe b.states && chkAdvance b.states b.table &&
    chkReduceComplete b.start (fun _ => []) b.states b.table &&
    chkConflictFree b.table && chkFresh g b.start
  | _ => false

/-- FOLLOW is closed under one production body: for `A → α B β`, FIRST(β) ⊆ FOLLOW(B), and FOLLOW(A) ⊆ FOLLOW(B) when
β is nullable -/
def followClosedBody (nl : List String) (fe fo : Env) (head : String) : List Sy → Bool
  | [] => true
  | .term _ :: rest => followClosedBody nl fe fo head rest
  | .nonterm B :: rest =>
    (firstOfStr nl fe rest).all (fun c => (envGet fo B).contains c) &&
    (!(rest.all (symNullable nl)) || (envGet fo head).all (fun c => (envGet fo B).contains c)) &&
    followClosedBody nl fe fo head rest

def chkFollowClosed (ps : List Pr) (nl : List String) (fe fo : Env) : Bool :=
  ps.all fun p => followClosedBody nl fe fo p.head p.body

/-- the completeness group for a conflict-free SLR(1) table (LR(0) items, reductions on FOLLOW):
what `C11_complete_validated_slr` needs -/
def completeSLROK (g : SGrammar) (b : Built) : Bool :=
  match augment g with
  | .ok g' =>
    let nl := nullableOf g'
    let fe := firstEnv g' nl
    let fo := followEnv g' nl fe
    g'.start == b.start &&
    chkNullClosed g'.prods nl && chkFirstClosed g'.prods nl fe && chkFollowClosed g'.prods nl fe fo &&
    (envGet fo g.start).contains endmarker &&
    (itemsAt b.states 0).contains { prod := { head := b.start, body := [Sym.nonterm g.start] }, dot := 0, la := none } &&
    (b.states.all fun I => I.all fun it => it.la.isNone) &&
    chkClosed g' nl fe b.states && chkAdvance b.states b.table &&
    chkReduceComplete b.start (envGet fo) b.states b.table &&
    chkConflictFree b.table && chkFresh g b.start
  | _ => false

/-- the completeness validator for a conflict-free table of construction `k` -/
def completeOKFor (k : Kind) (g : SGrammar) (b : Built) : Bool :=
  match k with
  | .slr => completeSLROK g b
  | _ => completeLR1OK g b

/-! ## the success chain SLR ⇒ LALR ⇒ LR(1): a per-run certificate -/

/-- the cores of the kernel items of a state -/
def kernelCores (start' : String) (I : List Item) : List Item :=
  coreOf (I.filter fun it => it.dot > 0 || it.prod.head == start')

/-- the state of the coarser construction with the same kernel cores (`-1`: none) -/
def coarseState (start' : String) (S1 : StateMap) (I : List Item) : Int :=
  match S1.findIdx? (fun K => sameSet (kernelCores start' K) (kernelCores start' I)) with
  | some i => i
  | none => -1

def actionImage (f : Int → Int) : Action → Action
  | .shift t => .shift (f t)
  | a => a

/-- `b2` (the finer construction: LALR w.r.t. SLR, LR(1) w.r.t. LALR) is simulated by `b1` along the state map `f`:
every action of a cell of `b2` is present (shift targets mapped) in the corresponding cell of `b1` — i.e. per core the
lookahead sets of `b2` are included in those of `b1`; and the cells of `b2` are duplicate-free with at most one shift
each. -/
def chainCertF (f : Int → Int) (b1 b2 : Built) : Bool :=
  b2.table.actions.all fun e =>
    decide e.2.Nodup && decide ((e.2.filter isShift).length ≤ 1) &&
    e.2.all fun act => (b1.table.cell (f e.1.1) e.1.2).contains (actionImage f act)

/-- the certificate with the state map "same kernel cores" (tabulated once per state of `b2`) -/
def chainCert (b1 b2 : Built) : Bool :=
  let tab : List Int := b2.states.map (coarseState b1.start b1.states)
  chainCertF (fun t => if t < 0 then -1 else tab.getD t.toNat (-1)) b1 b2

/-! ## derivation trees -/

mutual
/-- `t` is a derivation tree of `g` for the symbol `X` -/
def derivesT (g : SGrammar) : Tree → Sy → Prop
  | .leaf a, X => X = Sym.term a
  | .node p ks, X => X = Sym.nonterm p.head ∧ p ∈ g.prods ∧ derivesL g ks p.body
  | .nil, _ => False
def derivesL (g : SGrammar) : List Tree → List Sy → Prop
  | [], Xs => Xs = []
  | t :: ts, Xs => ∃ X Xr, Xs = X :: Xr ∧ derivesT g t X ∧ derivesL g ts Xr
end

mutual
def treeSize : Tree → Nat
  | .leaf _ => 1
  | .node _ ks => 1 + treeSizeL ks
  | .nil => 1
def treeSizeL : List Tree → Nat
  | [] => 0
  | t :: ts => treeSize t + treeSizeL ts
end

mutual
/-- the productions of a tree in the order a bottom-up parser emits them -/
def postT : Tree → List Pr
  | .leaf _ => []
  | .node p ks => postL ks ++ [p]
  | .nil => []
def postL : List Tree → List Pr
  | [] => []
  | t :: ts => postT t ++ postL ts
end

/-! ## the declared precedence rule -/

inductive Choice where
  | reduce | shift | error
  deriving DecidableEq, Repr

/-- what the declared levels say about a conflict between reducing by `p` and shifting `a`:
the handle of `p` is its first terminal (or `p` itself if it has none), the handle of the shift is `a`;
the handle listed in the earlier level wins; on the same level LEFT reduces, RIGHT shifts, NONE is an error;
an unlisted handle is an error -/
def declared (ls : List Level) (p : Pr) (a : String) : Choice :=
  match precedenceOf ls (handleOfProd p), precedenceOf ls (.term a) with
  | some (i, as), some (k, _) =>
    if i < k then .reduce
    else if k < i then .shift
    else match as with
      | .left => .reduce
      | .right => .shift
      | .none => .error
  | _, _ => .error

/-! ## precedence climbing for `E → E op E | id` -/

inductive Expr where
  | id
  | bin (l : Expr) (op : String) (r : Expr)
  deriving Repr, DecidableEq

def showExpr : Expr → String
  | .id => "(E id)"
  | .bin l op r => "(E " ++ showExpr l ++ " " ++ op ++ " " ++ showExpr r ++ ")"

/-- binding strength: a level listed earlier binds tighter -/
def strength (ls : List Level) (op : String) : Option (Nat × Assoc) :=
  match precedenceOf ls (.term op) with
  | some (i, a) => some (ls.length - i, a)
  | none => none

mutual
/-- an operand followed by operators of strength ≥ `min` -/
def climbExpr (ls : List Level) : Nat → Nat → List String → Option (Expr × List String)
  | 0, _, _ => none
  | fuel + 1, min, toks =>
    match toks with
    | "id" :: rest => climbLoop ls fuel .id min rest
    | _ => none
def climbLoop (ls : List Level) : Nat → Expr → Nat → List String → Option (Expr × List String)
  | 0, _, _, _ => none
  | fuel + 1, lhs, min, toks =>
    match toks with
    | [] => some (lhs, [])
    | op :: rest =>
      match strength ls op with
      | none => none
      | some (s, a) =>
        if s < min then some (lhs, toks)
        else
          match a with
          | .none => none
          | .left =>
            match climbExpr ls fuel (s + 1) rest with
            | some (rhs, rest') => climbLoop ls fuel (.bin lhs op rhs) min rest'
            | none => none
          | .right =>
            match climbExpr ls fuel s rest with
            | some (rhs, rest') => climbLoop ls fuel (.bin lhs op rhs) min rest'
            | none => none
end

/-- the grouping the declared precedence and associativity prescribe (`none`: not an expression, an unlisted
or non-associative operator) -/
def climb (ls : List Level) (toks : List String) : Option Expr :=
  match climbExpr ls (2 * toks.length + 2) 0 toks with
  | some (e, []) => some e
  | _ => none

end AlgoVerif.C11.Spec
