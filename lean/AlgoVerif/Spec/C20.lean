import AlgoVerif.Common
/-!
# C20 — the abstract object: interleavings of deterministic threads over a partitioned memory

`k` goroutines (thread ids are `Nat`s) run deterministic, data-dependent programs: a thread is a
state machine over its *local* state whose next action is `done`, a `load` of one memory location
(the continuation receives the value read) or a `store` to one memory location.  Arbitrary Go code of
one goroutine is such a machine (registers, stack and control state are the local state).

Memory locations carry an `owner`: `some t` — the location belongs to the private heap of thread `t`
(the instances the goroutine created itself); `none` — the location is one of the package-level
cells `G`.  There are NO synchronisation events in this model: the goroutines of property C20 do not
communicate, so every two accesses by different threads are unordered by happens-before, and a data
race is exactly a pair of accesses by different threads to the same location, at least one a write.

A schedule is the list of thread ids in the order in which they take steps.  Core Lean only.
-/
namespace AlgoVerif.C20

/-- thread identifiers -/
abbrev Tid := Nat

/-- the next action of a thread, as a function of its local state -/
inductive Action (Loc Val Local : Type) where
  /-- the workload of this goroutine has finished -/
  | done
  /-- read location `l`; continue in local state `k v` where `v` is the value read -/
  | load (l : Loc) (k : Val → Local)
  /-- write `v` to location `l`; continue in local state `next` -/
  | store (l : Loc) (v : Val) (next : Local)

/-- the programs of all threads: thread id → local state → next action -/
structure Prog (Loc Val Local : Type) where
  step : Tid → Local → Action Loc Val Local

/-- a configuration: every thread's local state, and the shared memory -/
structure Cfg (Loc Val Local : Type) where
  loc : Tid → Local
  mem : Loc → Val

/-- one memory access as the race detector sees it -/
structure Event (Loc : Type) where
  tid : Tid
  loc : Loc
  isWrite : Bool
  deriving DecidableEq

variable {Loc Val Local : Type} [DecidableEq Loc]

def updLocal (f : Tid → Local) (t : Tid) (x : Local) : Tid → Local :=
  fun u => if u = t then x else f u

def updMem (m : Loc → Val) (l : Loc) (v : Val) : Loc → Val :=
  fun l' => if l' = l then v else m l'

/-- thread `t` takes one step -/
def stepT (P : Prog Loc Val Local) (t : Tid) (c : Cfg Loc Val Local) : Cfg Loc Val Local :=
  match P.step t (c.loc t) with
  | .done => c
  | .load l k => { c with loc := updLocal c.loc t (k (c.mem l)) }
  | .store l v next => { loc := updLocal c.loc t next, mem := updMem c.mem l v }

/-- the memory access (if any) of thread `t`'s next step -/
def eventT (P : Prog Loc Val Local) (t : Tid) (c : Cfg Loc Val Local) : Option (Event Loc) :=
  match P.step t (c.loc t) with
  | .done => none
  | .load l _ => some ⟨t, l, false⟩
  | .store l _ _ => some ⟨t, l, true⟩

/-- run a schedule (the list of thread ids in the order they step) -/
def run (P : Prog Loc Val Local) : List Tid → Cfg Loc Val Local → Cfg Loc Val Local
  | [], c => c
  | t :: s, c => run P s (stepT P t c)

/-- the memory accesses a schedule performs, in order -/
def trace (P : Prog Loc Val Local) : List Tid → Cfg Loc Val Local → List (Event Loc)
  | [], _ => []
  | t :: s, c =>
    match eventT P t c with
    | some e => e :: trace P s (stepT P t c)
    | none => trace P s (stepT P t c)

/-- no data race: two accesses by different threads to the same location are both reads -/
def RaceFree (tr : List (Event Loc)) : Prop :=
  ∀ e₁ ∈ tr, ∀ e₂ ∈ tr, e₁.tid ≠ e₂.tid → e₁.loc = e₂.loc → e₁.isWrite = false ∧ e₂.isWrite = false

/-- The premise of C20 together with what the extractor establishes of the library
(`∀ t, writes t ∩ G = ∅`): a thread reads only its own heap and the package-level cells, and
writes only its own heap.  Stated for every local state (so it does not matter which are reachable). -/
structure Disciplined (P : Prog Loc Val Local) (owner : Loc → Option Tid) : Prop where
  load_ok : ∀ t σ l k, P.step t σ = .load l k → owner l = some t ∨ owner l = none
  store_ok : ∀ t σ l v next, P.step t σ = .store l v next → owner l = some t

/-- all goroutines have finished -/
def Complete (P : Prog Loc Val Local) (c : Cfg Loc Val Local) : Prop :=
  ∀ t, P.step t (c.loc t) = .done

/-- the schedule that runs the goroutines one after the other (thread 0's steps, then thread 1's, …)
with the same number of steps per goroutine as `s` -/
def sequentialOf (s : List Tid) : List Tid := s.mergeSort (fun a b => decide (a ≤ b))

end AlgoVerif.C20
