import AlgoVerif.Proofs.C01Spec
/-!
# C01: `Equal` between tables built with different comparators

`Spec.equal cmp₁ cmp₂ eqVal m₁ m₂` looks every key of `m₁` up in `m₂` with `m₂`'s comparator and every key
of `m₂` up in `m₁` with `m₁`'s comparator.  For lawful comparators (three-way comparisons of strict total
orders, so `cmp a b = 0 ↔ a = b` for both) this is the comparator-free statement `Spec.SamePairs`: the two
maps hold the same keys with `eqVal`-equal values — whatever order each of them enumerates its keys in.
-/
namespace AlgoVerif.C01
open Spec

variable {K V : Type} {cmp : K → K → Int}

/-- in a map with pairwise distinct keys a lawful comparator finds exactly the held pair -/
theorem get_eq_some_iff (h : LawfulCmp cmp) (k : K) (w : V) :
    ∀ {m : Map K V}, m.Pairwise (fun a b => a.1 ≠ b.1) → (Spec.get cmp k m = some w ↔ (k, w) ∈ m)
  | [], _ => by simp [Spec.get]
  | (a, b) :: t, hp => by
    rw [get_cons]
    have ht := List.pairwise_cons.1 hp
    by_cases he : cmp k a = 0
    · have hka : k = a := (h.eq_iff k a).1 he
      subst hka
      simp only [he, if_true, Option.some.injEq, List.mem_cons, Prod.mk.injEq, true_and]
      constructor
      · intro e; exact Or.inl e.symm
      · rintro (e | hm)
        · exact e.symm
        · exact absurd rfl (ht.1 (k, w) hm)
    · have hka : k ≠ a := fun e => he ((h.eq_iff k a).2 e)
      simp only [he, if_false, List.mem_cons, Prod.mk.injEq, hka, false_and, false_or]
      exact get_eq_some_iff h k w ht.2

/-- one pass of `Equal`, said without the comparator -/
theorem includes_iff (h : LawfulCmp cmp) (eqVal : V → V → Bool) (m₁ : Map K V) {m₂ : Map K V}
    (hp : m₂.Pairwise (fun a b => a.1 ≠ b.1)) :
    Spec.includes cmp eqVal m₁ m₂ = true ↔ ∀ p ∈ m₁, ∃ q ∈ m₂, q.1 = p.1 ∧ eqVal p.2 q.2 = true := by
  unfold Spec.includes
  rw [List.all_eq_true]
  constructor
  · intro hall p hpm
    have := hall p hpm
    cases hg : Spec.get cmp p.1 m₂ with
    | none => rw [hg] at this; exact absurd this (by simp)
    | some w =>
      rw [hg] at this
      exact ⟨(p.1, w), (get_eq_some_iff h p.1 w hp).1 hg, rfl, this⟩
  · intro hall p hpm
    obtain ⟨⟨qk, qv⟩, hq, hk, hv⟩ := hall p hpm
    simp only at hk hv
    subst hk
    rw [(get_eq_some_iff h p.1 qv hp).2 hq]
    exact hv

/-- **`Equal` does not depend on the comparators**: for tables built with any two lawful comparators it
answers whether the two abstract maps hold the same key-value pairs. -/
theorem equal_iff_samePairs {cmp₁ cmp₂ : K → K → Int} (h₁ : LawfulCmp cmp₁) (h₂ : LawfulCmp cmp₂)
    (eqVal : V → V → Bool) {m₁ m₂ : Map K V} (s₁ : Sorted cmp₁ m₁) (s₂ : Sorted cmp₂ m₂) :
    Spec.equal cmp₁ cmp₂ eqVal m₁ m₂ = true ↔ Spec.SamePairs eqVal m₁ m₂ := by
  unfold Spec.equal Spec.SamePairs
  rw [Bool.and_eq_true, includes_iff h₂ eqVal m₁ (sorted_keys_ne h₂ s₂),
    includes_iff h₁ eqVal m₂ (sorted_keys_ne h₁ s₁)]

end AlgoVerif.C01
