import AlgoVerif.Proofs.C11LalrLA
import AlgoVerif.Proofs.C11Reach
/-!
# C11 — the LR(0) kernel collection of the LALR(1) construction: distinct sets, duplicate-free sets, closed under GOTO

What the two index computations of `ComputeLALR1Kernels` (`FindItemSet`, `FindItem`) rest on:

* no two sets of a canonical collection are equal as sets (`canonical_dist`), hence a state of the sorted state map is
  determined by its items (`state_index_unique`);
* the kernel sets are duplicate-free lists (`kernel0_nodup`), hence `FindItem` returns the index of an item;
* the kernel collection is closed under GOTO, so `FindItemSet(GOTO(I, X))` succeeds whenever GOTO is not empty
  (`kernel_goto_found`).
-/
namespace AlgoVerif.C11.Lalr
open AlgoVerif AlgoVerif.Gram AlgoVerif.C11 AlgoVerif.C11.Spec AlgoVerif.C11.Built AlgoVerif.C11.BuiltComplete

/-- not equal as sets -/
def Dist (I J : List Item) : Prop := ¬ ∀ x, x ∈ I ↔ x ∈ J

theorem dist_symm {I J : List Item} (h : Dist I J) : Dist J I := fun h' => h (fun x => (h' x).symm)

theorem canonicalNew_dist {A : Auto} {C new : List (List Item)} (hn : canonicalNew A C = Outcome.ok new) :
    new.Pairwise Dist ∧ ∀ J ∈ new, ∀ I ∈ C, Dist I J := by
  unfold canonicalNew at hn
  refine foldlM_inv _ (fun acc => acc.Pairwise Dist ∧ ∀ J ∈ acc, ∀ I ∈ C, Dist I J) C [] new ?_
    ⟨List.Pairwise.nil, by simp⟩ hn
  intro acc I acc' _ hacc hstep
  refine foldlM_inv _ (fun acc => acc.Pairwise Dist ∧ ∀ J ∈ acc, ∀ I ∈ C, Dist I J) _ acc acc' ?_ hacc hstep
  intro b X b' _ hb hstep'
  obtain ⟨J, _, hrest⟩ := bind_eq_ok hstep'
  split at hrest
  · rw [← pure_eq_ok hrest]; exact hb
  · rename_i hcond
    rw [← pure_eq_ok hrest]
    simp only [Bool.or_eq_true, not_or, Bool.not_eq_true] at hcond
    obtain ⟨⟨_, hC⟩, hacc'⟩ := hcond
    have hCd : ∀ I ∈ C, Dist I J := by
      intro I' hI' hs
      have : containsSet C J = true := containsSet_iff.mpr ⟨I', hI', hs⟩
      rw [hC] at this; cases this
    have hbd : ∀ K ∈ b, Dist K J := by
      intro K hK hs
      have : containsSet b J = true := containsSet_iff.mpr ⟨K, hK, hs⟩
      rw [hacc'] at this; cases this
    constructor
    · rw [List.pairwise_append]
      refine ⟨hb.1, by simp, ?_⟩
      intro K hK J' hJ'
      simp only [List.mem_singleton] at hJ'
      subst hJ'
      exact hbd K hK
    · intro J' hJ'
      rcases List.mem_append.mp hJ' with h1 | h1
      · exact hb.2 J' h1
      · simp only [List.mem_singleton] at h1
        subst h1
        exact hCd

theorem canonicalLoop_dist {A : Auto} : ∀ (fuel : Nat) (C C' : List (List Item)), C.Pairwise Dist →
    canonicalLoop A fuel C = Outcome.ok C' → C'.Pairwise Dist
  | 0, _, _, _, hc => by simp [canonicalLoop] at hc
  | fuel + 1, C, C', hC, hc => by
    unfold canonicalLoop at hc
    obtain ⟨new, hnew, hrest⟩ := bind_eq_ok hc
    split at hrest
    · rw [← pure_eq_ok hrest]; exact hC
    · obtain ⟨h1, h2⟩ := canonicalNew_dist hnew
      apply canonicalLoop_dist fuel (C ++ new) C' _ hrest
      rw [List.pairwise_append]
      exact ⟨hC, h1, fun I hI J hJ => h2 J hJ I hI⟩

/-- no two sets of a canonical collection are equal as sets -/
theorem canonical_dist {A : Auto} {C : List (List Item)} (hc : A.canonical = Outcome.ok C) : C.Pairwise Dist := by
  unfold Auto.canonical at hc
  obtain ⟨I0, _, hrest⟩ := bind_eq_ok hc
  exact canonicalLoop_dist _ _ _ (by simp) hrest

theorem stateMap_dist {start : String} {C : List (List Item)} (h : C.Pairwise Dist) :
    (buildStateMap start C).Pairwise Dist := by
  unfold buildStateMap
  have hmap : (C.map (sortBy (cmpItem start))).Pairwise Dist := by
    rw [List.pairwise_map]
    refine List.Pairwise.imp ?_ h
    intro I J hd hs
    apply hd
    intro x
    have := hs x
    rwa [mem_sortBy, mem_sortBy] at this
  exact hmap.perm (sortBy_perm _ _).symm (fun h => dist_symm h)

/-- a state is determined by its items -/
theorem state_index_unique {S : StateMap} (hS : S.Pairwise Dist) {s s' : Nat} {I I' : List Item}
    (hI : S[s]? = some I) (hI' : S[s']? = some I') (hs : ∀ x, x ∈ I ↔ x ∈ I') : s = s' := by
  obtain ⟨hlt, hget⟩ := List.getElem?_eq_some_iff.mp hI
  obtain ⟨hlt', hget'⟩ := List.getElem?_eq_some_iff.mp hI'
  have hpw := List.pairwise_iff_getElem.mp hS
  rcases Nat.lt_trichotomy s s' with h | h | h
  · exfalso
    have := hpw s s' hlt hlt' h
    rw [hget, hget'] at this
    exact this hs
  · exact h
  · exfalso
    have := hpw s' s hlt' hlt h
    rw [hget, hget'] at this
    exact this (fun x => (hs x).symm)

theorem findItemSet_eq {S : StateMap} (hS : S.Pairwise Dist) {s : Nat} {I J : List Item} (hI : S[s]? = some I)
    (hs : ∀ x, x ∈ I ↔ x ∈ J) : findItemSet S J = (s : Int) := by
  obtain ⟨n, K, hn, hK, hKJ⟩ := findItemSet_found (List.mem_of_getElem? hI) hs
  have := state_index_unique hS hK hI (fun x => (hKJ x).trans (hs x).symm)
  rw [hn, this]

/-! ## duplicate-free kernels -/

theorem advance_nodup (I : List Item) (X : Sy) : (advance I X).Nodup := by
  unfold advance
  suffices aux : ∀ (l acc : List Item), acc.Nodup →
      (l.foldl (fun acc i => if i.dotSym = some X then addNew acc i.next else acc) acc).Nodup from aux I [] (by simp)
  intro l
  induction l with
  | nil => intro acc h; simpa using h
  | cons x l ih =>
    intro acc h
    simp only [List.foldl_cons]
    apply ih
    split
    · exact nodup_addNew h _
    · exact h

theorem kernel0_nodup {g' : SGrammar} {fuel : Nat} {K0 : List (List Item)}
    (hK0 : (mkAuto g' false true fuel).canonical = Outcome.ok K0) : ∀ I ∈ K0, I.Nodup := by
  unfold Auto.canonical at hK0
  obtain ⟨I0, hI0, hrest⟩ := bind_eq_ok hK0
  have hI0' : I0 = [(mkAuto g' false true fuel).initialItem] := by simpa [mkAuto] using hI0.symm
  refine canonicalLoop_all (fun I => I.Nodup) ?hgo _ _ _ ?hC hrest
  case hC =>
    intro I hI
    simp only [List.mem_singleton] at hI
    subst hI
    rw [hI0']; simp
  case hgo =>
    intro I J X _ hg
    unfold Auto.goto at hg
    simp only [mkAuto, if_true] at hg
    obtain ⟨c, _, hrest'⟩ := bind_eq_ok hg
    rw [← pure_eq_ok hrest']
    exact advance_nodup c X

theorem findItem_eq {K : List Item} (hK : K.Nodup) {i : Nat} {x : Item} (hi : K[i]? = some x) :
    findItem K x = (i : Int) := by
  obtain ⟨n, hn, hKn⟩ := findItem_found (List.mem_of_getElem? hi)
  obtain ⟨hlt, hget⟩ := List.getElem?_eq_some_iff.mp hi
  obtain ⟨hlt', hget'⟩ := List.getElem?_eq_some_iff.mp hKn
  have hpw := List.pairwise_iff_getElem.mp (List.nodup_iff_pairwise_ne.mp hK)
  rw [hn]
  rcases Nat.lt_trichotomy n i with h | h | h
  · exfalso
    have := hpw n i hlt' hlt h
    rw [hget, hget'] at this
    exact this rfl
  · rw [h]
  · exfalso
    have := hpw i n hlt hlt' h
    rw [hget, hget'] at this
    exact this rfl

/-! ## closed under GOTO -/

/-- GOTO of a kernel automaton respects set equality of its argument -/
theorem kgoto_congr {A : Auto} (hAk : A.kernel = true) {I I' J J' : List Item} {X : Sy} (h : ∀ x, x ∈ I ↔ x ∈ I')
    (h1 : A.goto I X = Outcome.ok J) (h2 : A.goto I' X = Outcome.ok J') : ∀ x, x ∈ J ↔ x ∈ J' := by
  unfold Auto.goto at h1 h2
  simp only [hAk, if_true] at h1 h2
  obtain ⟨c, hc, hr⟩ := bind_eq_ok h1
  obtain ⟨c', hc', hr'⟩ := bind_eq_ok h2
  rw [← pure_eq_ok hr, ← pure_eq_ok hr']
  exact advance_congr (closure_congr hc hc' h) X

theorem kernel_goto_found {g' : SGrammar} {fuel : Nat} {K0 : List (List Item)}
    (hK0 : (mkAuto g' false true fuel).canonical = Outcome.ok K0) {Is : List Item}
    (hIs : Is ∈ buildStateMap g'.start K0) {X : Sy} (hX : X ∈ allSymbols g') {nextI : List Item}
    (hgo : (mkAuto g' false true fuel).goto Is X = Outcome.ok nextI) (hne : nextI ≠ []) :
    ∃ (n : Nat) (K : List Item), findItemSet (buildStateMap g'.start K0) nextI = (n : Int) ∧
      (buildStateMap g'.start K0)[n]? = some K ∧ ∀ x, x ∈ K ↔ x ∈ nextI := by
  obtain ⟨Ks, hKs, rfl⟩ := mem_buildStateMap.mp hIs
  have hK0' := hK0
  unfold Auto.canonical at hK0'
  obtain ⟨I0, _, hrest⟩ := bind_eq_ok hK0'
  have hclosed := canonicalLoop_complete _ _ _ hrest
  obtain ⟨J, hJ, hor⟩ := hclosed Ks hKs X hX
  have hsame := kgoto_congr (A := mkAuto g' false true fuel) rfl (fun x => mem_sortBy _ Ks x) hgo hJ
  rcases hor with hemp | ⟨K, hK, hKJ⟩
  · exfalso
    obtain ⟨y, hy⟩ := List.exists_mem_of_ne_nil _ hne
    have := (hsame y).mp hy
    rw [hemp] at this
    simp at this
  · have hmem : sortBy (cmpItem g'.start) K ∈ buildStateMap g'.start K0 := mem_buildStateMap.mpr ⟨K, hK, rfl⟩
    exact findItemSet_found hmem (fun x => by rw [mem_sortBy, hKJ x]; exact (hsame x).symm)

end AlgoVerif.C11.Lalr
