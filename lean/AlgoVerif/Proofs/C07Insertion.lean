import AlgoVerif.Proofs.C07Basic
/-!
# C07 — insertion sort (`sort/insertion.go`)
-/
namespace AlgoVerif.C07
open AlgoVerif

variable {α : Type}

/-- `a[0..i]` is sorted except that `a[j]` may be smaller than elements before it. -/
structure InsInv (cmp : α → α → Int) (a : Array α) (j i : Nat) : Prop where
  hi : i < a.size
  hj : j ≤ i
  rest : ∀ (p q : Nat), (hpq : p < q) → (hq : q ≤ i) → p ≠ j → q ≠ j → cmp (a[p]'(by omega)) (a[q]'(by omega)) ≤ 0
  after : ∀ (q : Nat), (hjq : j < q) → (hq : q ≤ i) → cmp (a[j]'(by omega)) (a[q]'(by omega)) ≤ 0

theorem insInner_spec {cmp : α → α → Int} (tp : TotalPreorder cmp) :
    ∀ (f : Nat) (j : Nat) (a : Array α) (i : Nat), j < f → InsInv cmp a j i →
      ∃ a', insInner cmp f (j : Int) a = .ok a' ∧ a'.size = a.size ∧ a'.Perm a ∧ SortedSeg cmp a' 0 (i+1) := by
  intro f
  induction f with
  | zero => intro j a i h; omega
  | succ f ih =>
    intro j a i hf inv
    have hi := inv.hi
    have hj := inv.hj
    unfold insInner
    by_cases hj0 : j = 0
    · subst hj0
      refine ⟨a, by simp, rfl, Array.Perm.refl _, ?_⟩
      intro p q _ hpq hq hq'
      by_cases hp : p = 0
      · subst hp; exact inv.after q hpq (by omega)
      · exact inv.rest p q hpq (by omega) hp (by omega)
    · have hjpos : (j : Int) > 0 := by omega
      have e1 : ((j : Int) - 1) = ((j - 1 : Nat) : Int) := by omega
      simp only [hjpos, ↓reduceIte, e1]
      rw [get_nat (by omega : j < a.size), get_nat (by omega : j - 1 < a.size)]
      simp only [ok_bind]
      by_cases hc : cmp a[j] a[j-1] < 0
      · simp only [hc, ↓reduceIte]
        rw [swap_ok (by omega) (by omega) (by omega) (by omega)]
        simp only [ok_bind, Int.toNat_natCast]
        have inv' : InsInv cmp (a.swap j (j-1) (by omega) (by omega)) (j-1) i := by
          refine ⟨by simpa using hi, by omega, ?_, ?_⟩
          · intro p q hpq hq hp hq'
            simp only [Array.getElem_swap]
            have r := inv.rest
            have af := inv.after
            split <;> split <;> grind
          · intro q hjq hq
            simp only [Array.getElem_swap]
            have r := inv.rest
            have af := inv.after
            split <;> split <;> grind
        obtain ⟨a', h1, h2, h3, h4⟩ := ih (j-1) _ i (by omega) inv'
        refine ⟨a', h1, by simpa using h2, h3.trans (Array.swap_perm _ _), h4⟩
      · simp only [hc, ↓reduceIte]
        refine ⟨a, rfl, rfl, Array.Perm.refl _, ?_⟩
        have hle : cmp a[j-1] a[j] ≤ 0 := tp.le_of_not_lt hc
        intro p q _ hpq hq hq'
        by_cases hqj : q = j
        · subst hqj
          by_cases hpj : p = q - 1
          · subst hpj; exact hle
          · exact tp.trans _ _ _ (inv.rest p (q-1) (by omega) (by omega) (by omega) (by omega)) hle
        · by_cases hpj : p = j
          · subst hpj; exact inv.after q hpq (by omega)
          · exact inv.rest p q hpq (by omega) hpj hqj

theorem insLoop_spec {cmp : α → α → Int} (tp : TotalPreorder cmp) :
    ∀ (f : Nat) (i : Nat) (a : Array α), i ≤ a.size → a.size - i < f → SortedSeg cmp a 0 i →
      ∃ a', insLoop cmp a.size f (i : Int) a = .ok a' ∧ a'.Perm a ∧ SortedSeg cmp a' 0 a'.size := by
  intro f
  induction f with
  | zero => intro i a _ h; omega
  | succ f ih =>
    intro i a hi hf hs
    unfold insLoop
    by_cases hlt : i < a.size
    · have : (i : Int) < a.size := by omega
      simp only [this, ↓reduceIte]
      have inv : InsInv cmp a i i := by
        refine ⟨hlt, Nat.le_refl _, ?_, ?_⟩
        · intro p q hpq hq _ hqi
          exact hs p q (Nat.zero_le _) hpq (by omega) (by omega)
        · intro q h1 h2; omega
      obtain ⟨a1, h1, h2, h3, h4⟩ := insInner_spec tp (Int.toNat (a.size : Int) + 1) i a i (by omega) inv
      rw [h1]
      simp only [ok_bind]
      have e : ((i : Int) + 1) = ((i + 1 : Nat) : Int) := by omega
      rw [e, ← h2]
      obtain ⟨a2, g1, g2, g3⟩ := ih (i+1) a1 (by omega) (by omega) h4
      exact ⟨a2, g1, g2.trans h3, g3⟩
    · have : ¬ (i : Int) < a.size := by omega
      simp only [this, ↓reduceIte]
      have : i = a.size := by omega
      subst this
      exact ⟨a, rfl, Array.Perm.refl _, hs⟩

theorem insertion_spec {cmp : α → α → Int} (tp : TotalPreorder cmp) (a : Array α) :
    ∃ out, insertion cmp a = .ok out ∧ IsSortOf cmp out a := by
  obtain ⟨out, h1, h2, h3⟩ := insLoop_spec tp (a.size + 1) 0 a (Nat.zero_le _) (by omega)
    (by intro p q _ _ h; omega)
  exact ⟨out, by simpa [insertion] using h1, isSortOf_of h3 h2⟩

end AlgoVerif.C07
