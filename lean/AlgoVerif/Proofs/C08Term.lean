import AlgoVerif.Proofs.C08Macro
/-!
# TERM (`eliminateNonSolitaryTerminals`): what the result is, language, well-formedness, validity
-/
namespace AlgoVerif.C08
open AlgoVerif AlgoVerif.Gram AlgoVerif.C08.Spec

abbrev Store := List (String × String)

/-! ## association lists -/

theorem lookup_append_some {l l' : Store} {k v : String} (h : l.lookup k = some v) : (l ++ l').lookup k = some v := by
  induction l with
  | nil => simp [List.lookup] at h
  | cons e l ih =>
    obtain ⟨k', v'⟩ := e
    simp only [List.cons_append, List.lookup] at h ⊢
    cases hk : (k == k') with
    | true => rw [hk] at h; exact h
    | false => rw [hk] at h; exact ih h

theorem lookup_append_none {l l' : Store} {k : String} (h : l.lookup k = none) : (l ++ l').lookup k = l'.lookup k := by
  induction l with
  | nil => rfl
  | cons e l ih =>
    obtain ⟨k', v'⟩ := e
    simp only [List.cons_append, List.lookup] at h ⊢
    cases hk : (k == k') with
    | true => rw [hk] at h; cases h
    | false => rw [hk] at h; exact ih h

theorem store_lookup_mem {l : Store} {k v : String} (h : l.lookup k = some v) : (k, v) ∈ l := by
  induction l with
  | nil => simp [List.lookup] at h
  | cons e l ih =>
    obtain ⟨k', v'⟩ := e
    simp only [List.lookup] at h
    split at h
    · rename_i heq
      have hk : k = k' := by simpa using heq
      cases h
      exact hk ▸ List.mem_cons_self ..
    · exact List.mem_cons_of_mem _ (ih h)

/-! ## the shape of the result -/

/-- the replacement TERM applies to a body symbol -/
def replS (store : Store) : SSym → SSym
  | .term t => match store.lookup t with
    | some n => .nonterm n
    | none => .term t
  | .nonterm m => .nonterm m

/-- every terminal of `b` has a fresh non-terminal in the store -/
def AllLooked (store : Store) (b : List SSym) : Prop := ∀ t, Sym.term t ∈ b → ∃ n, store.lookup t = some n

/-- `st` extends `st0`: more productions, the store only gains keys -/
def TermLe (st0 st : TermSt) : Prop :=
  (∀ p ∈ st0.1.prods, p ∈ st.1.prods) ∧ (∀ t n, st0.2.lookup t = some n → st.2.lookup t = some n)

theorem TermLe.refl (st : TermSt) : TermLe st st := ⟨fun _ h => h, fun _ _ h => h⟩

theorem TermLe.trans {a b c : TermSt} (h1 : TermLe a b) (h2 : TermLe b c) : TermLe a c :=
  ⟨fun p hp => h2.1 p (h1.1 p hp), fun t n h => h2.2 t n (h1.2 t n h)⟩

theorem replS_stable {s s' : Store} (hle : ∀ t n, s.lookup t = some n → s'.lookup t = some n)
    {b : List SSym} (hl : AllLooked s b) : b.map (replS s') = b.map (replS s) := by
  apply List.map_congr_left
  intro x hx
  cases x with
  | nonterm m => rfl
  | term t =>
    obtain ⟨n, hn⟩ := hl t hx
    simp [replS, hn, hle t n hn]

theorem AllLooked.mono {s s' : Store} (hle : ∀ t n, s.lookup t = some n → s'.lookup t = some n)
    {b : List SSym} (hl : AllLooked s b) : AllLooked s' b := by
  intro t ht
  obtain ⟨n, hn⟩ := hl t ht
  exact ⟨n, hle t n hn⟩

/-- the three kinds of production in the grammar under construction -/
def TermProd (g : G) (store : Store) (p' : SProd) : Prop :=
  (p' ∈ g.prods ∧ isTerminalProd p' = true) ∨
  (∃ e ∈ store, p' = { head := e.2, body := [Sym.term e.1] }) ∨
  (∃ p ∈ g.prods, isTerminalProd p = false ∧ p' = { head := p.head, body := p.body.map (replS store) } ∧
    AllLooked store p.body)

structure TermCore (g : G) (st : TermSt) : Prop where
  terms : st.1.terms = g.terms
  start : st.1.start = g.start
  nonterms : st.1.nonterms = g.nonterms ++ st.2.map (fun e => e.2)
  freshg : ∀ e ∈ st.2, e.2 ∉ g.nonterms
  keyOcc : ∀ e ∈ st.2, ∃ p ∈ g.prods, Sym.term e.1 ∈ p.body
  form : ∀ e ∈ st.2, ∃ s ∈ alphas, e.2 = (alphas.foldl trimSuffix e.1) ++ s
  inj : ∀ e ∈ st.2, ∀ e' ∈ st.2, e.2 = e'.2 → e = e'
  keys : ∀ e ∈ st.2, st.2.lookup e.1 = some e.2
  defs : ∀ e ∈ st.2, ({ head := e.2, body := [Sym.term e.1] } : SProd) ∈ st.1.prods
  prods : ∀ p' ∈ st.1.prods, TermProd g st.2 p'

theorem TermCore.fresh {g : G} {st : TermSt} (h : TermCore g st) :
    ∀ e ∈ st.2, e.2 ∈ st.1.nonterms := by
  intro e he
  rw [h.nonterms]
  exact List.mem_append.mpr (Or.inr (List.mem_map.mpr ⟨e, he, rfl⟩))

theorem TermProd.mono {g : G} {s s' : Store} (hsub : ∀ e ∈ s, e ∈ s')
    (hle : ∀ t n, s.lookup t = some n → s'.lookup t = some n) {p' : SProd} (h : TermProd g s p') : TermProd g s' p' := by
  rcases h with h | ⟨e, he, rfl⟩ | ⟨p, hp, hnt, rfl, hl⟩
  · exact Or.inl h
  · exact Or.inr (Or.inl ⟨e, hsub e he, rfl⟩)
  · refine Or.inr (Or.inr ⟨p, hp, hnt, ?_, hl.mono hle⟩)
    rw [replS_stable hle hl]

/-- adding a production of one of the three kinds -/
theorem TermCore.add_prod {g : G} {st : TermSt} (h : TermCore g st) {p' : SProd} (hp : TermProd g st.2 p') :
    TermCore g ({ st.1 with prods := ins st.1.prods p' }, st.2) := by
  refine ⟨h.terms, h.start, h.nonterms, h.freshg, h.keyOcc, h.form, h.inj, h.keys, ?_, ?_⟩
  · intro e he; exact mem_ins.mpr (Or.inl (h.defs e he))
  · intro q hq
    rcases mem_ins.mp hq with hq | rfl
    · exact h.prods q hq
    · exact hp

/-- a new terminal `t`: fresh name `n`, `n → t` -/
theorem TermCore.extend {g : G} {st : TermSt} (h : TermCore g st) {t n : String} {g1 : G}
    (hl : st.2.lookup t = none) (ha : addNew st.1 t alphas = .ok (g1, n))
    (hocc : ∃ p ∈ g.prods, Sym.term t ∈ p.body) :
    TermCore g ({ g1 with prods := ins g1.prods { head := n, body := [Sym.term t] } }, st.2 ++ [(t, n)]) ∧
    TermLe st ({ g1 with prods := ins g1.prods { head := n, body := [Sym.term t] } }, st.2 ++ [(t, n)]) := by
  obtain ⟨hf, rfl⟩ := addNew_ok ha
  have hle : ∀ t' n', st.2.lookup t' = some n' → (st.2 ++ [(t, n)]).lookup t' = some n' :=
    fun _ _ h' => lookup_append_some h'
  have hnew : ∀ e ∈ st.2, e.2 ≠ n := by
    intro e he hen
    exact hf (hen ▸ h.fresh e he)
  have hform := addNew_form ha
  refine ⟨⟨h.terms, h.start, ?_, ?_, ?_, ?_, ?_, ?_, ?_, ?_⟩, ?_, hle⟩
  · simp [h.nonterms]
  · intro e he
    rcases List.mem_append.mp he with he | he
    · exact h.freshg e he
    · simp at he; subst he
      intro hg
      exact hf (by rw [h.nonterms]; exact List.mem_append.mpr (Or.inl hg))
  · intro e he
    rcases List.mem_append.mp he with he | he
    · exact h.keyOcc e he
    · simp at he; subst he; exact hocc
  · intro e he
    rcases List.mem_append.mp he with he | he
    · exact h.form e he
    · simp at he; subst he; exact hform
  · intro e he e' he' hee
    rcases List.mem_append.mp he with he | he <;> rcases List.mem_append.mp he' with he' | he'
    · exact h.inj e he e' he' hee
    · simp at he'; subst he'; exact absurd hee (hnew e he)
    · simp at he; subst he; exact absurd hee.symm (hnew e' he')
    · simp at he he'; rw [he, he']
  · intro e he
    rcases List.mem_append.mp he with he | he
    · exact lookup_append_some (h.keys e he)
    · simp at he; subst he
      rw [lookup_append_none hl]
      simp [List.lookup]
  · intro e he
    refine mem_ins.mpr ?_
    rcases List.mem_append.mp he with he | he
    · exact Or.inl (h.defs e he)
    · simp at he; subst he; exact Or.inr rfl
  · intro q hq
    rcases mem_ins.mp hq with hq | rfl
    · exact (h.prods q hq).mono (fun e he => List.mem_append.mpr (Or.inl he)) hle
    · exact Or.inr (Or.inl ⟨(t, n), by simp, rfl⟩)
  · intro p hp; exact mem_ins.mpr (Or.inl hp)

/-! ## the symbol loop of `termBody` -/

/-- the loop body (`for _, sym := range p.Body`) -/
def termSymStep (acc : TermSt × List SSym) (sym : SSym) : Outcome (TermSt × List SSym) :=
  match sym with
  | .term t =>
    match acc.1.2.lookup t with
    | some n =>
      pure (({ acc.1.1 with prods := ins acc.1.1.prods { head := n, body := [sym] } }, acc.1.2), acc.2 ++ [.nonterm n])
    | none => do
      let (g', n) ← addNew acc.1.1 t alphas
      pure (({ g' with prods := ins g'.prods { head := n, body := [sym] } }, acc.1.2 ++ [(t, n)]), acc.2 ++ [.nonterm n])
  | .nonterm _ => pure (acc.1, acc.2 ++ [sym])

theorem termBody_eq (head : String) (body : List SSym) (st : TermSt) :
    termBody head body st =
      (body.foldlM termSymStep (st, [])).bind
        (fun r => .ok ({ r.1.1 with prods := ins r.1.1.prods { head := head, body := r.2 } }, r.1.2)) := rfl

/-- invariant of the symbol loop after the prefix `pre` of the body -/
def SymInv (g : G) (st0 : TermSt) (pre : List SSym) (acc : TermSt × List SSym) : Prop :=
  TermCore g acc.1 ∧ TermLe st0 acc.1 ∧ acc.2 = pre.map (replS acc.1.2) ∧ AllLooked acc.1.2 pre

theorem termSymStep_inv {g : G} {st0 : TermSt} {pre : List SSym} {acc acc' : TermSt × List SSym} {sym : SSym}
    (h : SymInv g st0 pre acc) (hocc : ∃ p ∈ g.prods, sym ∈ p.body) (hs : termSymStep acc sym = .ok acc') :
    SymInv g st0 (pre ++ [sym]) acc' := by
  obtain ⟨hc, hle, hnb, hal⟩ := h
  cases sym with
  | nonterm m =>
    simp only [termSymStep, pure] at hs
    cases hs
    refine ⟨hc, hle, ?_, ?_⟩
    · simp [hnb, replS]
    · intro t ht
      simp at ht
      exact hal t ht
  | term t =>
    simp only [termSymStep] at hs
    cases hl : acc.1.2.lookup t with
    | some n =>
      simp only [hl, pure] at hs
      cases hs
      have hmem : (t, n) ∈ acc.1.2 := store_lookup_mem hl
      refine ⟨hc.add_prod (Or.inr (Or.inl ⟨(t, n), hmem, rfl⟩)), ?_, ?_, ?_⟩
      · exact hle.trans ⟨fun p hp => mem_ins.mpr (Or.inl hp), fun _ _ h => h⟩
      · simp [hnb, replS, hl]
      · intro t' ht'
        simp at ht'
        rcases ht' with ht' | rfl
        · exact hal t' ht'
        · exact ⟨n, hl⟩
    | none =>
      simp only [hl] at hs
      cases ha : addNew acc.1.1 t alphas with
      | ok r =>
        obtain ⟨g1, n⟩ := r
        simp only [ha, bind, Outcome.bind, pure] at hs
        cases hs
        obtain ⟨hc', hle'⟩ := hc.extend hl ha hocc
        have hlook : (acc.1.2 ++ [(t, n)]).lookup t = some n := by
          rw [lookup_append_none hl]; simp [List.lookup]
        refine ⟨hc', hle.trans hle', ?_, ?_⟩
        · simp only [List.map_append, List.map_cons, List.map_nil]
          rw [replS_stable hle'.2 hal, ← hnb]
          simp [replS, hlook]
        · intro t' ht'
          simp at ht'
          rcases ht' with ht' | rfl
          · exact (hal.mono hle'.2) t' ht'
          · exact ⟨n, hlook⟩
      | panic => simp [ha, bind, Outcome.bind] at hs
      | diverge => simp [ha, bind, Outcome.bind] at hs

theorem termBody_inv {g : G} {st st' : TermSt} {p : SProd} (hc : TermCore g st) (hp : p ∈ g.prods)
    (hnt : isTerminalProd p = false) (h : termBody p.head p.body st = .ok st') :
    TermCore g st' ∧ TermLe st st' ∧
      ({ head := p.head, body := p.body.map (replS st'.2) } : SProd) ∈ st'.1.prods ∧ AllLooked st'.2 p.body := by
  rw [termBody_eq] at h
  cases hf : List.foldlM termSymStep (st, []) p.body with
  | ok r =>
    rw [hf] at h
    simp only [Outcome.bind] at h
    cases h
    have hinv := foldlM_inv_prefix termSymStep (SymInv g st) p.body [] (st, [])
      ⟨hc, TermLe.refl st, rfl, fun t ht => by cases ht⟩
      (fun pre' s b s' hP hs hm => termSymStep_inv hP ⟨p, hp, hm⟩ hs) r hf
    simp only [List.nil_append] at hinv
    obtain ⟨hc', hle, hnb, hal⟩ := hinv
    refine ⟨hc'.add_prod (Or.inr (Or.inr ⟨p, hp, hnt, by rw [hnb], hal⟩)), ?_, ?_, hal⟩
    · exact hle.trans ⟨fun q hq => mem_ins.mpr (Or.inl hq), fun _ _ h => h⟩
    · exact mem_ins.mpr (Or.inr (by rw [hnb]))
  | panic => rw [hf] at h; cases h
  | diverge => rw [hf] at h; cases h

/-! ## the production loop of `cnfTerm` -/

def termProdStep (st : TermSt) (p : SProd) : Outcome TermSt :=
  if isTerminalProd p then pure ({ st.1 with prods := ins st.1.prods p }, st.2)
  else termBody p.head p.body st

theorem cnfTerm_eq (g : G) :
    cnfTerm g = (g.prods.foldlM termProdStep (({ g with prods := [] } : G), [])).bind (fun st => .ok st.1) := rfl

/-- every processed production has its image -/
def Imaged (st : TermSt) (p : SProd) : Prop :=
  (isTerminalProd p = true ∧ p ∈ st.1.prods) ∨
  (isTerminalProd p = false ∧ ({ head := p.head, body := p.body.map (replS st.2) } : SProd) ∈ st.1.prods ∧
    AllLooked st.2 p.body)

theorem Imaged.mono {st st' : TermSt} (hle : TermLe st st') {p : SProd} (h : Imaged st p) : Imaged st' p := by
  rcases h with ⟨h1, h2⟩ | ⟨h1, h2, h3⟩
  · exact Or.inl ⟨h1, hle.1 p h2⟩
  · refine Or.inr ⟨h1, ?_, h3.mono hle.2⟩
    rw [replS_stable hle.2 h3]
    exact hle.1 _ h2

def ProdInv (g : G) (pre : List SProd) (st : TermSt) : Prop :=
  TermCore g st ∧ ∀ p ∈ pre, Imaged st p

theorem termProdStep_inv {g : G} {pre : List SProd} {st st' : TermSt} {p : SProd} (h : ProdInv g pre st)
    (hp : p ∈ g.prods) (hs : termProdStep st p = .ok st') : ProdInv g (pre ++ [p]) st' := by
  obtain ⟨hc, him⟩ := h
  unfold termProdStep at hs
  split at hs
  · rename_i ht
    simp only [pure] at hs
    cases hs
    have hle : TermLe st ({ st.1 with prods := ins st.1.prods p }, st.2) :=
      ⟨fun q hq => mem_ins.mpr (Or.inl hq), fun _ _ h => h⟩
    refine ⟨hc.add_prod (Or.inl ⟨hp, ht⟩), ?_⟩
    intro q hq
    rcases List.mem_append.mp hq with hq | hq
    · exact (him q hq).mono hle
    · simp at hq; subst hq
      exact Or.inl ⟨ht, mem_ins.mpr (Or.inr rfl)⟩
  · rename_i ht
    have hnt : isTerminalProd p = false := by simpa using ht
    obtain ⟨hc', hle, himg, hal⟩ := termBody_inv hc hp hnt hs
    refine ⟨hc', ?_⟩
    intro q hq
    rcases List.mem_append.mp hq with hq | hq
    · exact (him q hq).mono hle
    · simp at hq; subst hq
      exact Or.inr ⟨hnt, himg, hal⟩

/-- what `cnfTerm` returns -/
theorem cnfTerm_spec {g g' : G} (h : cnfTerm g = .ok g') :
    ∃ store : Store, TermCore g (g', store) ∧ ∀ p ∈ g.prods, Imaged (g', store) p := by
  rw [cnfTerm_eq] at h
  cases hf : List.foldlM termProdStep (({ g with prods := [] } : G), []) g.prods with
  | ok st =>
    rw [hf] at h
    simp only [Outcome.bind] at h
    cases h
    have h0 : ProdInv g [] (({ g with prods := [] } : G), []) :=
      ⟨{ terms := rfl, start := rfl, nonterms := (by simp),
         freshg := (by intro e he; cases he), keyOcc := (by intro e he; cases he), form := (by intro e he; cases he), inj := (by intro e he; cases he), keys := (by intro e he; cases he), defs := (by intro e he; cases he),
         prods := (by intro p hp; cases hp) }, (by intro p hp; cases hp)⟩
    have := foldlM_inv_prefix termProdStep (ProdInv g) g.prods [] _ h0
      (fun pre' s b s' hP hs hm => termProdStep_inv hP hm hs) st hf
    simp only [List.nil_append] at this
    exact ⟨st.2, this.1, this.2⟩
  | panic => rw [hf] at h; cases h
  | diverge => rw [hf] at h; cases h

end AlgoVerif.C08
