import AlgoVerif.Proofs.C05Reg
/-!
# C05 helper lemmas: the indexed Fibonacci heap Model keeps the index-map invariant

Everything here is about what an operation does *if it returns*: the structural routines (`cutAndCascade`,
`consolidate`, `meld`, the rotations of the root list) permute the set of linked node ids, the rest follows
from the `Reg` lemmas.
-/
namespace AlgoVerif.C05

/-- ids of a root list -/
def rootsIds (l : List FN) : List Nat := l.flatMap FN.ids

theorem rootsIds_cons (r : FN) (l : List FN) : rootsIds (r :: l) = FN.ids r ++ rootsIds l := by
  simp [rootsIds]

theorem rootsIds_append (a b : List FN) : rootsIds (a ++ b) = rootsIds a ++ rootsIds b := by
  simp [rootsIds]

theorem rootsIds_nil : rootsIds [] = [] := rfl

theorem rootsIds_perm {a b : List FN} (h : a.Perm b) : (rootsIds a).Perm (rootsIds b) :=
  List.Perm.flatMap_right _ h

namespace FT

theorem toList_ids : ∀ (t : FT), rootsIds (toList t) = ids t
  | nil => rfl
  | node id d m c nx => by
    simp only [toList, rootsIds_cons, FN.ids, ids, toList_ids nx, List.cons_append]

/-- ad-hoc permutation solver: compare element counts -/
macro "perm_count" : tactic =>
  `(tactic| (simp only [List.perm_iff_count]; intro a;
             simp only [List.count_cons, List.count_append, List.count_nil]; omega))

theorem cutIn_perm (target : Nat) : ∀ (t t' : FT) (cuts : List FN) (b : Bool),
    cutIn target t = some (t', cuts, b) → (ids t' ++ rootsIds cuts).Perm (ids t)
  | nil, _, _, _, h => by simp [cutIn] at h
  | node id d m c nx, t', cuts, b, h => by
    simp only [cutIn] at h
    split at h
    · cases h
      simp only [rootsIds_cons, rootsIds_nil, FN.ids, ids, List.append_nil]
      perm_count
    · split at h
      · rename_i c' cuts' removed hc
        have ih := cutIn_perm target c c' cuts' removed hc
        have ihc := List.Perm.count_eq ih
        split at h
        · split at h
          · cases h
            simp only [ids]
            simp only [List.perm_iff_count]; intro a
            have := ihc a
            simp only [List.count_cons, List.count_append] at this ⊢; omega
          · cases h
            simp only [rootsIds_append, rootsIds_cons, rootsIds_nil, FN.ids, ids]
            simp only [List.perm_iff_count]; intro a
            have := ihc a
            simp only [List.count_cons, List.count_append, List.count_nil] at this ⊢; omega
        · cases h
          simp only [ids]
          simp only [List.perm_iff_count]; intro a
          have := ihc a
          simp only [List.count_cons, List.count_append] at this ⊢; omega
      · split at h
        · rename_i nx' cuts' removed hn
          have ih := List.Perm.count_eq (cutIn_perm target nx nx' cuts' removed hn)
          cases h
          simp only [ids]
          simp only [List.perm_iff_count]; intro a
          have := ih a
          simp only [List.count_cons, List.count_append] at this ⊢; omega
        · cases h

end FT

namespace IFib
variable {K V : Type} {cmp : K → K → Int}

open FT in
theorem cutInRoots_perm (target : Nat) : ∀ (l l' cuts : List FN),
    cutInRoots target l = some (l', cuts) → (rootsIds (l' ++ cuts)).Perm (rootsIds l)
  | [], _, _, h => by simp [cutInRoots] at h
  | r :: rs, l', cuts, h => by
    simp only [cutInRoots] at h
    split at h
    · cases h; simp
    · split at h
      · rename_i c' cuts' removed hc
        have ihc := List.Perm.count_eq (FT.cutIn_perm target _ _ _ _ hc)
        split at h
        · cases h
          simp only [rootsIds_append, rootsIds_cons, FN.ids]
          simp only [List.perm_iff_count]; intro a
          have := ihc a
          simp only [List.count_cons, List.count_append] at this ⊢; omega
        · cases h
          simp only [rootsIds_append, rootsIds_cons, FN.ids]
          simp only [List.perm_iff_count]; intro a
          have := ihc a
          simp only [List.count_cons, List.count_append] at this ⊢; omega
      · split at h
        · rename_i rs' cuts' hr
          have ih := List.Perm.count_eq (cutInRoots_perm target rs rs' cuts' hr)
          cases h
          simp only [rootsIds_append, rootsIds_cons] at ih ⊢
          simp only [List.perm_iff_count]; intro a
          have := ih a
          simp only [List.count_append] at this ⊢; omega
        · cases h

theorem findRoot_id : ∀ (l : List FN) (x : Nat) (xn : FN), findRoot x l = some xn → xn.id = x
  | [], _, _, h => by simp [findRoot] at h
  | r :: rs, x, xn, h => by
    simp only [findRoot] at h
    split at h
    · cases h; assumption
    · exact findRoot_id rs x xn h

theorem eraseRoot_perm : ∀ (l : List FN) (x : Nat) (xn : FN), findRoot x l = some xn →
    (rootsIds l).Perm (FN.ids xn ++ rootsIds (eraseRoot x l))
  | [], _, _, h => by simp [findRoot] at h
  | r :: rs, x, xn, h => by
    simp only [findRoot] at h
    simp only [eraseRoot]
    split at h
    · rename_i hid
      cases h
      rw [if_pos hid, rootsIds_cons]
    · rename_i hid
      rw [if_neg hid]
      have ih := List.Perm.count_eq (eraseRoot_perm rs x xn h)
      simp only [rootsIds_cons]
      simp only [List.perm_iff_count]; intro a
      have := ih a
      simp only [List.count_append] at this ⊢; omega

theorem findRoot_erase : ∀ (l : List FN) (x y : Nat) (yn : FN), y ≠ x → findRoot y l = some yn →
    findRoot y (eraseRoot x l) = some yn
  | [], _, _, _, _, h => by simp [findRoot] at h
  | r :: rs, x, y, yn, hne, h => by
    simp only [findRoot] at h
    simp only [eraseRoot]
    split at h
    · rename_i hid
      cases h
      have : ¬ r.id = x := by rw [hid]; exact hne
      rw [if_neg this]
      simp only [findRoot]; rw [if_pos hid]
    · rename_i hid
      by_cases hx : r.id = x
      · rw [if_pos hx]; exact h
      · rw [if_neg hx]
        simp only [findRoot]; rw [if_neg hid]
        exact findRoot_erase rs x y yn hne h

theorem linkUnder_perm (ch : FN) : ∀ (l : List FN) (y : Nat) (yn : FN), findRoot y l = some yn →
    (rootsIds (linkUnder ch y l)).Perm (FN.ids ch ++ rootsIds l)
  | [], _, _, h => by simp [findRoot] at h
  | r :: rs, y, yn, h => by
    simp only [findRoot] at h
    simp only [linkUnder]
    split at h
    · rename_i hid
      rw [if_pos hid]
      simp only [rootsIds_cons, FN.ids, FT.ids]
      simp only [List.perm_iff_count]; intro a
      simp only [List.count_cons, List.count_append]; omega
    · rename_i hid
      rw [if_neg hid]
      have ih := List.Perm.count_eq (linkUnder_perm ch rs y yn h)
      simp only [rootsIds_cons]
      simp only [List.perm_iff_count]; intro a
      have := ih a
      simp only [List.count_append] at this ⊢; omega

theorem rotateTo_perm (x : Nat) (l l' : List FN) (h : rotateTo x l = some l') : l'.Perm l := by
  unfold rotateTo at h
  split at h
  · cases h
  · cases h
    have := List.takeWhile_append_dropWhile (p := fun r : FN => r.id != x) (l := l)
    exact List.perm_append_comm.trans (by rw [this])

/-- one linking step of `consolidate` -/
theorem link_step_perm {roots : List FN} {x y : Nat} {xn yn : FN} (hx : findRoot x roots = some xn)
    (hy : findRoot y roots = some yn) (hne : y ≠ x) :
    (rootsIds (linkUnder xn y (eraseRoot x roots))).Perm (rootsIds roots) :=
  (linkUnder_perm xn _ y yn (findRoot_erase roots x y yn hne hy)).trans (eraseRoot_perm roots x xn hx).symm

theorem consInner_perm (h : IFib K V) : ∀ (fuel : Nat) (roots : List FN) (tbl : Array (Option Nat)) (x : Nat)
    (linked : Bool) (res : List FN × Array (Option Nat) × Nat × Bool),
    consInner cmp h fuel roots tbl x linked = .ok res → (rootsIds res.1).Perm (rootsIds roots)
  | 0, _, _, _, _, _, he => by simp [consInner] at he
  | fuel + 1, roots, tbl, x, linked, res, he => by
    simp only [consInner] at he
    split at he
    · cases he
    · rename_i xn hxn
      split at he
      · cases he
      · split at he
        · cases he
        · cases he; exact List.Perm.refl _
        · rename_i y _
          split at he
          · cases he; exact List.Perm.refl _
          · rename_i hyx
            split at he
            · cases he
            · rename_i yn hyn
              split at he
              · split at he
                · exact (consInner_perm h fuel _ _ _ _ res he).trans (link_step_perm hxn hyn hyx)
                · exact (consInner_perm h fuel _ _ _ _ res he).trans
                    (link_step_perm hyn hxn (fun e => hyx e.symm))
              · cases he

theorem consOuter_perm (h : IFib K V) : ∀ (fuel : Nat) (roots : List FN) (tbl : Array (Option Nat))
    (stop curr : Nat) (res : List FN × Array (Option Nat)),
    consOuter cmp h fuel roots tbl stop curr = .ok res → (rootsIds res.1).Perm (rootsIds roots)
  | 0, _, _, _, _, _, he => by simp [consOuter] at he
  | fuel + 1, roots, tbl, stop, curr, res, he => by
    simp only [consOuter] at he
    split at he
    · rename_i roots1 tbl1 x linked hin
      have hp1 := consInner_perm h _ _ _ _ _ _ hin
      simp only [] at hp1
      repeat' (split at he)
      all_goals first
        | (cases he; exact hp1)
        | (cases he; done)
        | exact (consOuter_perm h fuel _ _ _ _ res he).trans hp1
    · cases he
    · cases he

theorem consolidate_spec {h h' : IFib K V} (he : consolidate cmp h = .ok h') :
    (rootsIds h'.roots).Perm (rootsIds h.roots) ∧ h'.nodes = h.nodes ∧ h'.cells = h.cells ∧ h'.n = h.n := by
  unfold consolidate at he
  simp only [] at he
  split at he
  · split at he
    · cases he
    · split at he
      · rename_i roots tbl hout
        have hp := consOuter_perm h _ _ _ _ _ _ hout
        simp only [] at hp
        split at he
        · cases he
        · split at he
          · split at he
            · rename_i roots' hrot
              cases he
              refine ⟨?_, rfl, rfl, rfl⟩
              exact (rootsIds_perm (rotateTo_perm _ _ _ hrot)).trans hp
            · cases he
          · cases he
          · cases he
      · cases he
      · cases he
  · cases he
  · cases he

/-! ### abstraction and invariant -/

def abs (h : IFib K V) : Spec.Map K V := absOf h.nodes h.cells

/-- the index-map invariant of the indexed Fibonacci heap -/
structure Inv (cap : Nat) (h : IFib K V) : Prop where
  reg : Reg cap (rootsIds h.roots) h.nodes h.cells
  card : h.n = (Spec.card cap (abs h) : Int)

theorem containsIndex_eq {cap : Nat} {S : List Nat} {h : IFib K V} (r : Reg cap S h.nodes h.cells)
    (i : Int) : h.containsIndex i = (abs h i).isSome := by
  unfold containsIndex abs absOf
  split
  · split
    · rename_i id hid
      obtain ⟨_, c, hc, _⟩ := r.back _ _ hid
      rw [hid]; simp [hc]
    · rename_i hne
      split
      · rename_i id hid; exact absurd hid (hne id)
      · rfl
  · rfl

theorem node_of_held {cap : Nat} {S : List Nat} {h : IFib K V} (r : Reg cap S h.nodes h.cells) {i : Int}
    (hc : h.containsIndex i = true) :
    Spec.InRange cap i ∧ ∃ id c, h.nodes[i.toNat]? = some (some id) ∧ id ∈ S ∧ h.cells[id]? = some c ∧
      c.index = i.toNat ∧ abs h i = some (c.key, c.val) := by
  rw [containsIndex_eq r] at hc
  cases ha : abs h i with
  | none => rw [ha] at hc; cases hc
  | some e =>
    obtain ⟨hr, id, c, h1, h2, h3, h4, h5⟩ := absOf_some r ha
    exact ⟨hr, id, c, h1, h2, h3, h4, by rw [h5]⟩

theorem meldChildren_perm (rest ch : List FN) : (meldChildren rest ch).Perm (rest ++ ch) := by
  unfold meldChildren
  cases ch with
  | nil => simp
  | cons c cs =>
    simp only []
    split
    · rename_i he
      have : rest = [] := by simpa using he
      subst this; simp
    · refine List.Perm.append_left _ ?_
      exact List.perm_append_comm

/-- `Insert` either refuses (index out of range or held) or links a fresh node for a free index -/
theorem insert_spec {cap : Nat} {h h' : IFib K V} (inv : Inv cap h) (i : Int) (key : K) (val : V) (b : Bool)
    (he : h.insert cmp i key val = .ok (h', b)) :
    (b = false ∧ h' = h ∧ ¬ (Spec.InRange cap i ∧ abs h i = none)) ∨
    (b = true ∧ Spec.InRange cap i ∧ abs h i = none ∧ Inv cap h' ∧ abs h' = (abs h).set i (some (key, val))) := by
  have r := inv.reg
  have ns := r.nsize
  unfold insert at he
  split at he
  · rename_i hcond
    cases he
    refine Or.inl ⟨rfl, rfl, ?_⟩
    rintro ⟨hr, hnone⟩
    unfold Spec.InRange at hr
    rcases hcond with h1 | h1 | h1
    · omega
    · omega
    · rw [containsIndex_eq r, hnone] at h1; cases h1
  · rename_i hcond
    have hr : Spec.InRange cap i := by unfold Spec.InRange; omega
    have hfreeb : h.containsIndex i = false := by
      cases hx : h.containsIndex i with
      | true => exact absurd (Or.inr (Or.inr hx)) hcond
      | false => rfl
    have hnone : abs h i = none := by
      rw [containsIndex_eq r] at hfreeb
      cases hx : abs h i with
      | none => rfl
      | some e => rw [hx] at hfreeb; cases hfreeb
    have hilt : i.toNat < cap := by unfold Spec.InRange at hr; omega
    have hji : ((i.toNat : Nat) : Int) = i := by unfold Spec.InRange at hr; omega
    have hfree : h.nodes[i.toNat]? = some none := by
      rw [← absOf_none_iff r hilt, hji]; exact hnone
    obtain ⟨r', habs⟩ := r.insert hilt hfree key val
    have habs' : absOf (h.nodes.setIfInBounds i.toNat (some h.cells.size))
        (h.cells.push { index := i.toNat, key := key, val := val }) = (abs h).set i (some (key, val)) := by
      rw [habs, hji]; rfl
    simp only [] at he
    split at he
    · rename_i roots hroots
      split at he
      · cases he
        refine Or.inr ⟨rfl, hr, hnone, ⟨?_, ?_⟩, habs'⟩
        · refine r'.perm ?_
          show (h.cells.size :: rootsIds h.roots).Perm (rootsIds roots)
          -- the new node is appended or put in front
          have hnew : rootsIds [(⟨h.cells.size, 0, false, .nil⟩ : FN)] = [h.cells.size] := by
            simp [rootsIds, FN.ids, FT.ids]
          unfold insertRoots at hroots
          split at hroots
          · rename_i hnil
            cases hroots
            rw [hnil, hnew]; simp [rootsIds]
          · split at hroots
            · split at hroots
              · cases hroots
                rw [rootsIds_append, hnew]
                exact (List.perm_append_comm (l₁ := [h.cells.size]))
              · cases hroots
                rw [rootsIds_cons]; simp [FN.ids, FT.ids]
            · cases hroots
            · cases hroots
        · show h.n + 1 = ((Spec.card cap (absOf (h.nodes.setIfInBounds i.toNat (some h.cells.size))
            (h.cells.push { index := i.toNat, key := key, val := val })) : Nat) : Int)
          rw [habs', Spec.card_set_some_new _ hr hnone, inv.card]
          simp
      · cases he
    · cases he
    · cases he

theorem insert_sim {eq : V → V → Bool} {cap : Nat} {h h' : IFib K V} (inv : Inv cap h) (i : Int) (key : K)
    (val : V) (b : Bool) (he : h.insert cmp i key val = .ok (h', b)) :
    Inv cap h' ∧ Spec.AdmitWeak cmp eq cap (abs h) (.insert i key val) (.bool b) (abs h') := by
  rcases insert_spec inv i key val b he with ⟨rfl, rfl, hno⟩ | ⟨rfl, hr, hnone, inv', habs⟩
  · exact ⟨inv, .insert_fail hno⟩
  · rw [habs]; exact ⟨inv', .insert_ok hr hnone⟩

theorem removeRoot_spec {cap : Nat} {h h' : IFib K V} {e : Nat} {c : Cell K V}
    (r : Reg cap (rootsIds h.roots) h.nodes h.cells) (he : removeRoot cmp h e = .ok (h', c)) :
    Reg cap (rootsIds h'.roots) h'.nodes h'.cells ∧ abs h' = (abs h).set (c.index : Int) none ∧
      abs h (c.index : Int) = some (c.key, c.val) ∧ c.index < cap ∧ h'.n = h.n - 1 ∧ h.cells[e]? = some c := by
  unfold removeRoot at he
  split at he
  · cases he
  · rename_i rn hrn
    simp only [] at he
    split at he
    · cases he
    · rename_i c' hc'
      split at he
      · -- ids: the removed root's children join the remaining roots
        have hid := findRoot_id _ _ _ hrn
        have hperm : (rootsIds h.roots).Perm
            (e :: rootsIds (meldChildren (eraseRoot e h.roots) rn.child.toList)) := by
          refine (eraseRoot_perm _ _ _ hrn).trans ?_
          have h1 := rootsIds_perm (meldChildren_perm (eraseRoot e h.roots) rn.child.toList)
          rw [rootsIds_append, FT.toList_ids] at h1
          have h1c := List.Perm.count_eq h1
          simp only [FN.ids, hid]
          simp only [List.perm_iff_count]; intro a
          have := h1c a
          simp only [List.count_cons, List.count_append] at this ⊢; omega
        obtain ⟨r', h1, h2, h3⟩ := r.remove hperm hc'
        split at he
        · cases he
          exact ⟨r', h1, h2, h3, rfl, hc'⟩
        · split at he
          · rename_i h2' hcons
            cases he
            obtain ⟨hp, hn, hcl, hnn⟩ := consolidate_spec hcons
            refine ⟨?_, ?_, h2, h3, by rw [hnn], hc'⟩
            · rw [hn, hcl]; exact r'.perm hp.symm
            · show absOf h'.nodes h'.cells = _
              rw [hn, hcl]; exact h1
          · cases he
          · cases he
      · cases he

theorem cutAndCascade_spec {cap : Nat} {h h' : IFib K V} {n : Nat}
    (r : Reg cap (rootsIds h.roots) h.nodes h.cells) (he : cutAndCascade h n = .ok h') :
    Reg cap (rootsIds h'.roots) h'.nodes h'.cells ∧ abs h' = abs h ∧ h'.n = h.n ∧ h'.cells = h.cells ∧
      h'.nodes = h.nodes := by
  unfold cutAndCascade at he
  split at he
  · rename_i roots' cuts hcut
    cases he
    exact ⟨r.perm (cutInRoots_perm _ _ _ _ hcut).symm, rfl, rfl, rfl, rfl⟩
  · cases he

theorem deleteNode_spec {cap : Nat} {h h' : IFib K V} {id : Nat} {c : Cell K V}
    (r : Reg cap (rootsIds h.roots) h.nodes h.cells) (he : deleteNode cmp h id = .ok (h', c)) :
    Reg cap (rootsIds h'.roots) h'.nodes h'.cells ∧ abs h' = (abs h).set (c.index : Int) none ∧
      abs h (c.index : Int) = some (c.key, c.val) ∧ c.index < cap ∧ h'.n = h.n - 1 ∧ h.cells[id]? = some c := by
  unfold deleteNode at he
  split at he
  · rename_i h1 hcut
    obtain ⟨r1, ha1, hn1, hc1, _⟩ := cutAndCascade_spec r hcut
    obtain ⟨r2, h1', h2', h3', h4', h5'⟩ := removeRoot_spec r1 he
    exact ⟨r2, by rw [h1', ha1], by rw [← ha1]; exact h2', h3', by rw [h4', hn1], by rw [← hc1]; exact h5'⟩
  · cases he
  · cases he

theorem empty_of_roots_nil {cap : Nat} {h : IFib K V} (r : Reg cap (rootsIds h.roots) h.nodes h.cells)
    (hn : h.roots = []) (i : Int) : abs h i = none := by
  cases ha : abs h i with
  | none => rfl
  | some e =>
    obtain ⟨_, id, _, _, hmem, _⟩ := absOf_some r ha
    rw [hn] at hmem; cases hmem

theorem delete_sim {eq : V → V → Bool} {cap : Nat} {h h' : IFib K V} (inv : Inv cap h)
    (res : Option (Int × K × V)) (he : h.delete cmp = .ok (h', res)) :
    Inv cap h' ∧ Spec.AdmitWeak cmp eq cap (abs h) .delete (.ikv res) (abs h') := by
  have r := inv.reg
  unfold delete at he
  split at he
  · rename_i hnil
    cases he
    exact ⟨inv, .delete_none (empty_of_roots_nil r hnil)⟩
  · split at he
    · rename_i h1 c hrm
      cases he
      obtain ⟨r', habs', habs, hlt, hn, _⟩ := removeRoot_spec r hrm
      have hr : Spec.InRange cap (c.index : Int) := by unfold Spec.InRange; omega
      refine ⟨⟨r', ?_⟩, ?_⟩
      · rw [hn, habs']
        have := Spec.card_set_none _ hr habs
        have := inv.card
        omega
      · rw [habs']; exact .delete_some habs trivial
    · cases he
    · cases he

theorem deleteIndex_sim {eq : V → V → Bool} {cap : Nat} {h h' : IFib K V} (inv : Inv cap h) (i : Int)
    (res : Option (K × V)) (he : h.deleteIndex cmp i = .ok (h', res)) :
    Inv cap h' ∧ Spec.AdmitWeak cmp eq cap (abs h) (.deleteIndex i) (.kv res) (abs h') := by
  have r := inv.reg
  unfold deleteIndex at he
  split at he
  · rename_i hcond
    cases he
    refine ⟨inv, .deleteIndex_none ?_⟩
    rw [containsIndex_eq r] at hcond
    cases hx : abs h i with
    | none => rfl
    | some e => rw [hx] at hcond; cases hcond
  · rename_i hcond
    have hheld : h.containsIndex i = true := by
      cases hx : h.containsIndex i with
      | true => rfl
      | false => exact absurd hx hcond
    obtain ⟨hr, id, c, hnode, hmem, hcell, hci, habs⟩ := node_of_held r hheld
    have hji : ((i.toNat : Nat) : Int) = i := by unfold Spec.InRange at hr; omega
    rw [hnode] at he
    simp only [] at he
    split at he
    · rename_i h2 c2 hdn
      cases he
      obtain ⟨r2, habs2, _, _, hn2, hc2⟩ := deleteNode_spec r hdn
      have : c2 = c := by rw [hcell] at hc2; exact (Option.some.inj hc2).symm
      subst this
      have habs' : abs h' = (abs h).set i none := by rw [habs2, hci, hji]
      refine ⟨⟨r2, ?_⟩, ?_⟩
      · rw [hn2, habs']
        have := Spec.card_set_none _ hr habs
        have := inv.card
        omega
      · rw [habs']; exact .deleteIndex_some habs
    · cases he
    · cases he

theorem set_set (m : Spec.Map K V) (i : Int) (a b : Option (K × V)) : (m.set i a).set i b = m.set i b := by
  funext j; unfold Spec.Map.set; split <;> rfl

theorem set_self (m : Spec.Map K V) (i : Int) (a : Option (K × V)) (h : m i = a) : m.set i a = m := by
  funext j; unfold Spec.Map.set; split
  · rename_i hj; rw [hj, h]
  · rfl

theorem decreaseKey_spec {cap : Nat} {h1 h' : IFib K V} {id : Nat} {key : K} {b : Bool}
    (r1 : Reg cap (rootsIds h1.roots) h1.nodes h1.cells) (he : decreaseKey cmp h1 id key = .ok (h', b)) :
    Reg cap (rootsIds h'.roots) h'.nodes h'.cells ∧ abs h' = abs h1 ∧ h'.n = h1.n ∧ b = true := by
  unfold decreaseKey at he
  split at he
  · cases he
  · split at he
    · rename_i bcut _
      split at he
      · rename_i h2 hcut
        have hh2 : Reg cap (rootsIds h2.roots) h2.nodes h2.cells ∧ abs h2 = abs h1 ∧ h2.n = h1.n := by
          split at hcut
          · obtain ⟨q1, q2, q3, _, _⟩ := cutAndCascade_spec r1 hcut
            exact ⟨q1, q2, q3⟩
          · cases hcut; exact ⟨r1, rfl, rfl⟩
        obtain ⟨r2, habs2, hn2⟩ := hh2
        unfold finishDecrease at he
        split at he
        · cases he
        · split at he
          · split at he
            · cases he; exact ⟨r2, habs2, hn2, rfl⟩
            · split at he
              · rename_i roots' hrot
                cases he
                exact ⟨r2.perm (rootsIds_perm (rotateTo_perm _ _ _ hrot)).symm, habs2, hn2, rfl⟩
              · cases he
          · cases he
          · cases he
      · cases he
      · cases he
    · cases he
    · cases he

theorem changeKey_sim {eq : V → V → Bool} {cap : Nat} {h h' : IFib K V}
    (inv : Inv cap h) (i : Int) (key : K) (b : Bool) (he : h.changeKey cmp i key = .ok (h', b)) :
    Inv cap h' ∧ Spec.AdmitWeak cmp eq cap (abs h) (.changeKey i key) (.bool b) (abs h') := by
  have r := inv.reg
  unfold changeKey at he
  split at he
  · rename_i hcond
    cases he
    refine ⟨inv, .changeKey_fail ?_⟩
    rw [containsIndex_eq r] at hcond
    cases hx : abs h i with
    | none => rfl
    | some e => rw [hx] at hcond; cases hcond
  · rename_i hcond
    have hheld : h.containsIndex i = true := by
      cases hx : h.containsIndex i with
      | true => rfl
      | false => exact absurd hx hcond
    obtain ⟨hr, id, c, hnode, hmem, hcell, hci, habs⟩ := node_of_held r hheld
    have hji : ((i.toNat : Nat) : Int) = i := by unfold Spec.InRange at hr; omega
    rw [hnode] at he
    simp only [] at he
    rw [hcell] at he
    simp only [] at he
    split at he
    · -- decrease key
      obtain ⟨r1, habs1⟩ := r.setKey hmem hcell key
      have habs1' : absOf h.nodes (h.cells.setIfInBounds id { c with key := key }) =
          (abs h).set i (some (key, c.val)) := by rw [habs1, hci, hji]; rfl
      obtain ⟨r2, habs2, hn2, hb⟩ := decreaseKey_spec r1 he
      subst hb
      have habs2' : abs h' = (abs h).set i (some (key, c.val)) := by rw [habs2]; exact habs1'
      have hcard : h.n = (Spec.card cap ((abs h).set i (some (key, c.val))) : Int) := by
        rw [Spec.card_set_some_old _ _ hr habs]; exact inv.card
      refine ⟨⟨r2, by rw [hn2, habs2']; exact hcard⟩, ?_⟩
      rw [habs2']; exact .changeKey_ok habs (Or.inl rfl)
    · split at he
      · -- increase key: DeleteIndex, then Insert
        split at he
        · rename_i h1 c1 hdn
          obtain ⟨r1, habs1, _, _, hn1, hc1⟩ := deleteNode_spec r hdn
          have : c1 = c := by rw [hcell] at hc1; exact (Option.some.inj hc1).symm
          subst this
          have habs1' : abs h1 = (abs h).set i none := by rw [habs1, hci, hji]
          have inv1 : Inv cap h1 := by
            refine ⟨r1, ?_⟩
            rw [hn1, habs1']
            have := Spec.card_set_none _ hr habs
            have := inv.card
            omega
          split at he
          · rename_i h2 b2 hins
            cases he
            rcases insert_spec inv1 i key c1.val b2 hins with ⟨_, _, hno⟩ | ⟨_, _, _, inv2, habs2⟩
            · exact absurd ⟨hr, by rw [habs1']; exact Spec.set_same _ _ _⟩ hno
            · have : abs h' = (abs h).set i (some (key, c1.val)) := by rw [habs2, habs1', set_set]
              refine ⟨inv2, ?_⟩
              rw [this]; exact .changeKey_ok habs (Or.inl rfl)
          · cases he
          · cases he
        · cases he
        · cases he
      · -- same key (cmp = 0): nothing changes, and the comparator identifies the keys
        rename_i hnlt hngt
        cases he
        have : (abs h).set i (some (c.key, c.val)) = abs h := set_self _ _ _ habs
        refine ⟨inv, ?_⟩
        have adm := Spec.AdmitG.changeKey_ok (P := fun _ _ => True) (cmp := cmp) (eq := eq) (cap := cap)
          (m := abs h) (i := i) (k := key) (k' := c.key) habs (Or.inr ⟨rfl, by omega⟩)
        rw [this] at adm; exact adm

theorem peek_sim {eq : V → V → Bool} {cap : Nat} {h : IFib K V} (inv : Inv cap h)
    (res : Option (Int × K × V)) (he : h.peek = .ok res) :
    Spec.AdmitWeak cmp eq cap (abs h) .peek (.ikv res) (abs h) := by
  have r := inv.reg
  unfold peek at he
  split at he
  · rename_i hnil
    cases he
    exact .peek_none (empty_of_roots_nil r hnil)
  · rename_i e rest hroots
    have hmem : e.id ∈ rootsIds h.roots := by rw [hroots, rootsIds_cons]; simp [FN.ids]
    obtain ⟨c, hc, hn⟩ := r.reg e.id hmem
    rw [hc] at he
    cases he
    exact .peek_some (absOf_held hn hc) trivial

theorem peekIndex_sim {eq : V → V → Bool} {cap : Nat} {h : IFib K V} (inv : Inv cap h) (i : Int)
    (res : Option (K × V)) (he : h.peekIndex i = .ok res) :
    Spec.AdmitWeak cmp eq cap (abs h) (.peekIndex i) (.kv res) (abs h) := by
  have r := inv.reg
  have key := Spec.AdmitG.peekIndex (P := fun _ _ => True) (cmp := cmp) (eq := eq) (cap := cap) (m := abs h) (i := i)
  unfold peekIndex at he
  split at he
  · rename_i hcond
    cases he
    rw [containsIndex_eq r] at hcond
    cases hx : abs h i with
    | none => rw [hx] at key; exact key
    | some e => rw [hx] at hcond; cases hcond
  · rename_i hcond
    have hheld : h.containsIndex i = true := by
      cases hx : h.containsIndex i with
      | true => rfl
      | false => exact absurd hx hcond
    obtain ⟨_, id, c, hnode, _, hcell, _, habs⟩ := node_of_held r hheld
    rw [hnode] at he
    simp only [] at he
    rw [hcell] at he
    cases he
    rw [habs] at key; exact key

theorem isEmpty_iff {cap : Nat} {h : IFib K V} (r : Reg cap (rootsIds h.roots) h.nodes h.cells) :
    h.roots.isEmpty = true ↔ ∀ i, abs h i = none := by
  cases hh : h.roots with
  | nil => simp only [List.isEmpty_nil, true_iff]; exact empty_of_roots_nil r hh
  | cons e rest =>
    simp only [List.isEmpty_cons, Bool.false_eq_true, false_iff]
    intro hall
    obtain ⟨cl, hc, hn⟩ := r.reg e.id (by rw [hh, rootsIds_cons]; simp [FN.ids])
    have := absOf_held hn hc
    rw [show absOf h.nodes h.cells = abs h from rfl, hall] at this
    cases this

theorem step_sim (eq : V → V → Bool) {cap : Nat} (h : IFib K V) (op : Op K V)
    (h' : IFib K V) (res : Res K V) (inv : Inv cap h) (he : step cmp eq h op = .ok (h', res)) :
    Inv cap h' ∧ Spec.AdmitWeak cmp eq cap (abs h) op res (abs h') := by
  cases op with
  | insert i k v =>
    simp only [step, Outcome.map] at he
    split at he
    · rename_i p hp; obtain ⟨h1, b⟩ := p; cases he; exact insert_sim inv i k v b hp
    · cases he
    · cases he
  | changeKey i k =>
    simp only [step, Outcome.map] at he
    split at he
    · rename_i p hp; obtain ⟨h1, b⟩ := p; cases he; exact changeKey_sim inv i k b hp
    · cases he
    · cases he
  | delete =>
    simp only [step, Outcome.map] at he
    split at he
    · rename_i p hp; obtain ⟨h1, b⟩ := p; cases he; exact delete_sim inv b hp
    · cases he
    · cases he
  | deleteIndex i =>
    simp only [step, Outcome.map] at he
    split at he
    · rename_i p hp; obtain ⟨h1, b⟩ := p; cases he; exact deleteIndex_sim inv i b hp
    · cases he
    · cases he
  | deleteAll =>
    simp only [step] at he
    cases he
    have r := inv.reg
    have habs : abs h.deleteAll = Spec.Map.empty := absOf_replicate _ _
    refine ⟨⟨r.clear, ?_⟩, ?_⟩
    · show (0 : Int) = _
      rw [habs, Spec.card_empty]; rfl
    · rw [habs]; exact .deleteAll
  | peek =>
    simp only [step, Outcome.map] at he
    split at he
    · rename_i p hp; cases he; exact ⟨inv, peek_sim inv p hp⟩
    · cases he
    · cases he
  | peekIndex i =>
    simp only [step, Outcome.map] at he
    split at he
    · rename_i p hp; cases he; exact ⟨inv, peekIndex_sim inv i p hp⟩
    · cases he
    · cases he
  | containsIndex i =>
    simp only [step] at he
    cases he
    rw [containsIndex_eq inv.reg]
    exact ⟨inv, .containsIndex⟩
  | containsKey k =>
    simp only [step, Outcome.map] at he
    split at he
    · rename_i b hb
      cases he
      refine ⟨inv, .containsKey ?_⟩
      have := anyCell_spec inv.reg (fun c => cmp c.key k == 0) (fun kv => cmp kv.1 k == 0) (fun _ => rfl) hb
      rw [this]
      constructor
      · rintro ⟨i, k', v, ha, hq⟩; exact ⟨i, k', v, ha, by simpa using hq⟩
      · rintro ⟨i, k', v, ha, hq⟩; exact ⟨i, k', v, ha, by simpa using hq⟩
    · cases he
    · cases he
  | containsValue v =>
    simp only [step, Outcome.map] at he
    split at he
    · rename_i b hb
      cases he
      refine ⟨inv, .containsValue ?_⟩
      have := anyCell_spec inv.reg (fun c => eq c.val v) (fun kv => eq kv.2 v) (fun _ => rfl) hb
      rw [this]
      constructor
      · rintro ⟨i, k', v', ha, hq⟩; exact ⟨i, k', v', ha, hq⟩
      · rintro ⟨i, k', v', ha, hq⟩; exact ⟨i, k', v', ha, hq⟩
    · cases he
    · cases he
  | size =>
    simp only [step] at he
    cases he
    refine ⟨inv, ?_⟩
    have := Spec.AdmitG.size (P := fun _ _ => True) (cmp := cmp) (eq := eq) (cap := cap) (m := abs h)
    rw [← inv.card] at this; exact this
  | isEmpty =>
    simp only [step] at he
    cases he
    exact ⟨inv, .isEmpty (isEmpty_iff inv.reg)⟩

theorem inv_new (cap : Nat) : Inv cap (new cap : IFib K V) := by
  refine ⟨Reg.empty cap, ?_⟩
  show (0 : Int) = _
  have : abs (new cap : IFib K V) = Spec.Map.empty := absOf_replicate _ _
  rw [this, Spec.card_empty]; rfl

theorem abs_new (cap : Nat) : abs (new cap : IFib K V) = Spec.Map.empty := absOf_replicate _ _

end IFib
end AlgoVerif.C05
