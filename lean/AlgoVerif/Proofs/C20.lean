import AlgoVerif.Spec.C20
/-!
Helper lemmas for C20: steps of different disciplined threads commute, so a run depends only on how
many steps each thread takes; every access in a trace respects the ownership discipline.
Core Lean only.
-/
namespace AlgoVerif.C20

variable {Loc Val Local : Type} [DecidableEq Loc]
variable {P : Prog Loc Val Local} {owner : Loc → Option Tid}

theorem updLocal_same (f : Tid → Local) (t : Tid) (x : Local) : updLocal f t x t = x := by
  simp [updLocal]

theorem updLocal_other (f : Tid → Local) {t u : Tid} (x : Local) (h : u ≠ t) : updLocal f t x u = f u := by
  simp [updLocal, h]

theorem updLocal_comm (f : Tid → Local) {t u : Tid} (x y : Local) (h : t ≠ u) :
    updLocal (updLocal f u y) t x = updLocal (updLocal f t x) u y := by
  funext w
  simp only [updLocal]
  by_cases h1 : w = t
  · have h2 : ¬ w = u := fun e => h (h1.symm.trans e)
    rw [if_pos h1, if_neg h2, if_pos h1]
  · rw [if_neg h1]
    by_cases h2 : w = u
    · rw [if_pos h2, if_pos h2]
    · rw [if_neg h2, if_neg h2, if_neg h1]

theorem updMem_comm (m : Loc → Val) {l l' : Loc} (v v' : Val) (h : l ≠ l') :
    updMem (updMem m l' v') l v = updMem (updMem m l v) l' v' := by
  funext w
  simp only [updMem]
  by_cases h1 : w = l
  · have h2 : ¬ w = l' := fun e => h (h1.symm.trans e)
    rw [if_pos h1, if_neg h2, if_pos h1]
  · rw [if_neg h1]
    by_cases h2 : w = l'
    · rw [if_pos h2, if_pos h2]
    · rw [if_neg h2, if_neg h2, if_neg h1]

theorem updMem_other (m : Loc → Val) {l l' : Loc} (v : Val) (h : l' ≠ l) : updMem m l v l' = m l' := by
  simp [updMem, h]

/-- a step of `u` leaves the local state of every other thread alone -/
theorem stepT_loc_other (P : Prog Loc Val Local) {t u : Tid} (h : t ≠ u) (c : Cfg Loc Val Local) :
    (stepT P u c).loc t = c.loc t := by
  unfold stepT
  split <;> simp [updLocal, h]

/-- a step of a disciplined thread `u` changes memory only at locations `u` owns -/
theorem stepT_mem_other (hD : Disciplined P owner) {u : Tid} (c : Cfg Loc Val Local) {l : Loc}
    (h : owner l ≠ some u) : (stepT P u c).mem l = c.mem l := by
  unfold stepT
  split
  · rfl
  · rfl
  · next l' v next heq =>
    have := hD.store_ok u (c.loc u) l' v next heq
    have hne : l ≠ l' := fun e => h (e ▸ this)
    simp [updMem, hne]

theorem stepT_done {t : Tid} {c : Cfg Loc Val Local} (h : P.step t (c.loc t) = .done) :
    stepT P t c = c := by
  unfold stepT; rw [h]

theorem stepT_load {t : Tid} {c : Cfg Loc Val Local} {l : Loc} {k : Val → Local}
    (h : P.step t (c.loc t) = .load l k) :
    stepT P t c = { loc := updLocal c.loc t (k (c.mem l)), mem := c.mem } := by
  unfold stepT; rw [h]

theorem stepT_store {t : Tid} {c : Cfg Loc Val Local} {l : Loc} {v : Val} {n : Local}
    (h : P.step t (c.loc t) = .store l v n) :
    stepT P t c = { loc := updLocal c.loc t n, mem := updMem c.mem l v } := by
  unfold stepT; rw [h]

/-- **Commutation.**  Steps of two different disciplined threads commute. -/
theorem stepT_comm (hD : Disciplined P owner) {t u : Tid} (htu : t ≠ u) (c : Cfg Loc Val Local) :
    stepT P t (stepT P u c) = stepT P u (stepT P t c) := by
  have hut : u ≠ t := fun e => htu e.symm
  have h1 : (stepT P u c).loc t = c.loc t := stepT_loc_other P htu c
  have h2 : (stepT P t c).loc u = c.loc u := stepT_loc_other P hut c
  cases hat : P.step t (c.loc t) with
  | done =>
    have hs : P.step t ((stepT P u c).loc t) = .done := by rw [h1]; exact hat
    rw [stepT_done hs, stepT_done hat]
  | load l k =>
    have hl := hD.load_ok t (c.loc t) l k hat
    have hlu : owner l ≠ some u := by
      rcases hl with h | h <;> rw [h] <;> simp [htu]
    have hmem : (stepT P u c).mem l = c.mem l := stepT_mem_other hD c hlu
    have hs : P.step t ((stepT P u c).loc t) = .load l k := by rw [h1]; exact hat
    cases hau : P.step u (c.loc u) with
    | done =>
      have hs' : P.step u ((stepT P t c).loc u) = .done := by rw [h2]; exact hau
      rw [stepT_done hs', stepT_done hau]
    | load l' k' =>
      have hs' : P.step u ((stepT P t c).loc u) = .load l' k' := by rw [h2]; exact hau
      rw [stepT_load hs, stepT_load hs', hmem, stepT_load hau, stepT_load hat]
      simp only [updLocal_comm _ _ _ htu]
    | store l' v' n' =>
      have hs' : P.step u ((stepT P t c).loc u) = .store l' v' n' := by rw [h2]; exact hau
      rw [stepT_load hs, stepT_store hs', hmem, stepT_store hau, stepT_load hat]
      simp only [updLocal_comm _ _ _ htu]
  | store l v n =>
    have hl := hD.store_ok t (c.loc t) l v n hat
    have hs : P.step t ((stepT P u c).loc t) = .store l v n := by rw [h1]; exact hat
    cases hau : P.step u (c.loc u) with
    | done =>
      have hs' : P.step u ((stepT P t c).loc u) = .done := by rw [h2]; exact hau
      rw [stepT_done hs', stepT_done hau]
    | load l' k' =>
      have hl' := hD.load_ok u (c.loc u) l' k' hau
      have hlt : owner l' ≠ some t := by
        rcases hl' with h | h <;> rw [h] <;> simp [hut]
      have hmem : (stepT P t c).mem l' = c.mem l' := stepT_mem_other hD c hlt
      have hs' : P.step u ((stepT P t c).loc u) = .load l' k' := by rw [h2]; exact hau
      rw [stepT_store hs, stepT_load hs', hmem, stepT_load hau, stepT_store hat]
      simp only [updLocal_comm _ _ _ htu]
    | store l' v' n' =>
      have hl' := hD.store_ok u (c.loc u) l' v' n' hau
      have hne : l ≠ l' := by
        intro e
        rw [e, hl'] at hl
        exact hut (Option.some.inj hl)
      have hs' : P.step u ((stepT P t c).loc u) = .store l' v' n' := by rw [h2]; exact hau
      rw [stepT_store hs, stepT_store hs', stepT_store hau, stepT_store hat]
      simp only [updLocal_comm _ _ _ htu, updMem_comm _ _ _ hne]

/-- a run depends only on the multiset of steps: permuted schedules end in the same configuration -/
theorem run_perm (hD : Disciplined P owner) {s s' : List Tid} (h : s.Perm s') :
    ∀ c : Cfg Loc Val Local, run P s c = run P s' c := by
  induction h with
  | nil => intro c; rfl
  | cons t _ ih => intro c; exact ih (stepT P t c)
  | swap t u s =>
    intro c
    simp only [run]
    by_cases e : t = u
    · subst e; rfl
    · rw [stepT_comm hD e c]
  | trans _ _ ih1 ih2 => intro c; rw [ih1 c, ih2 c]

theorem run_append (P : Prog Loc Val Local) (s s' : List Tid) (c : Cfg Loc Val Local) :
    run P (s ++ s') c = run P s' (run P s c) := by
  induction s generalizing c with
  | nil => rfl
  | cons t s ih => exact ih (stepT P t c)

/-- once every goroutine has finished, further steps change nothing -/
theorem run_of_complete (P : Prog Loc Val Local) {c : Cfg Loc Val Local} (hc : Complete P c)
    (s : List Tid) : run P s c = c := by
  induction s with
  | nil => rfl
  | cons t s ih =>
    have : stepT P t c = c := stepT_done (hc t)
    simp only [run, this, ih]

/-- every access of a trace respects the discipline: writes go to the writer's own heap, reads to the
reader's own heap or to a package-level cell -/
theorem trace_owner (hD : Disciplined P owner) (s : List Tid) :
    ∀ (c : Cfg Loc Val Local), ∀ e ∈ trace P s c,
      (e.isWrite = true → owner e.loc = some e.tid) ∧
      (e.isWrite = false → owner e.loc = some e.tid ∨ owner e.loc = none) := by
  induction s with
  | nil => intro c e he; simp [trace] at he
  | cons t s ih =>
    intro c e he
    unfold trace at he
    cases hev : eventT P t c with
    | none =>
      rw [hev] at he
      exact ih _ e he
    | some e0 =>
      rw [hev] at he
      rcases List.mem_cons.mp he with h | h
      · subst h
        unfold eventT at hev
        cases hat : P.step t (c.loc t) with
        | done => rw [hat] at hev; cases hev
        | load l k =>
          rw [hat] at hev
          cases hev
          exact ⟨fun h => Bool.noConfusion h, fun _ => hD.load_ok t _ l k hat⟩
        | store l v n =>
          rw [hat] at hev
          cases hev
          exact ⟨fun _ => hD.store_ok t _ l v n hat, fun h => Bool.noConfusion h⟩
      · exact ih _ e h

end AlgoVerif.C20
