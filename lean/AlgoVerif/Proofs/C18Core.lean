import AlgoVerif.Model.C18Run
/-!
# C18 — generic refinement step and list/array facts shared by the three proofs
-/
namespace AlgoVerif.C18
variable {α : Type}

/-- Forward simulation: if a relation `R` between Model and Spec states is preserved by every
operation, and every Model step succeeds with the Spec's output, then every history gives the
Spec's outputs and never fails. -/
theorem runTrace_refines {σ τ ι ω : Type} (mstep : σ → ι → Outcome (σ × ω)) (sstep : τ → ι → τ × ω)
    (R : σ → τ → Prop)
    (hstep : ∀ s t op, R s t → ∃ s', mstep s op = .ok (s', (sstep t op).2) ∧ R s' (sstep t op).1) :
    ∀ ops s t, R s t → runTrace mstep s ops = (runSpec sstep t ops).map Outcome.ok := by
  intro ops
  induction ops with
  | nil => intro s t _; rfl
  | cons op ops ih =>
    intro s t h
    obtain ⟨s', h1, h2⟩ := hstep s t op h
    simp only [runTrace, runSpec, h1, List.map_cons]
    rw [ih s' _ h2]

theorem runSpec_append {σ ι ω : Type} (step : σ → ι → σ × ω) (s : σ) (a b : List ι) :
    runSpec step s (a ++ b) = runSpec step s a ++ runSpec step (specFinal step s a) b := by
  induction a generalizing s with
  | nil => rfl
  | cons x a ih => simp [runSpec, specFinal, ih]

theorem runSpec_length {σ ι ω : Type} (step : σ → ι → σ × ω) (s : σ) (a : List ι) :
    (runSpec step s a).length = a.length := by
  induction a generalizing s with
  | nil => rfl
  | cons x a ih => simp [runSpec, ih]

/-! ### blocks -/

@[simp] theorem newBlock_size (zero : α) (n : Nat) : (newBlock zero n).size = n := by
  simp [newBlock]

theorem newBlock_toList (zero : α) (n : Nat) (h : 1 ≤ n) :
    (newBlock zero n).toList = zero :: List.replicate (n - 1) zero := by
  cases n with
  | zero => omega
  | succ n => simp [newBlock, List.replicate_succ]

theorem set!_size (b : Array α) (i : Nat) (v : α) : (b.set! i v).size = b.size := by
  simp [Array.set!_eq_setIfInBounds]

theorem set!_toList (b : Array α) (i : Nat) (v : α) : (b.set! i v).toList = b.toList.set i v := by
  simp [Array.set!_eq_setIfInBounds]

/-- writing cell `i` and then looking at the first `i+1` cells -/
theorem take_set_succ (l : List α) (i : Nat) (v : α) (h : i < l.length) :
    (l.set i v).take (i + 1) = l.take i ++ [v] := by
  induction l generalizing i with
  | nil => simp at h
  | cons x l ih =>
    cases i with
    | zero => simp
    | succ i => simp at h; simp [ih i h]

theorem take_succ_getElem (l : List α) (i : Nat) (h : i < l.length) :
    l.take (i + 1) = l.take i ++ [l[i]] := by
  rw [List.take_add_one, List.getElem?_eq_getElem h]; rfl

end AlgoVerif.C18
