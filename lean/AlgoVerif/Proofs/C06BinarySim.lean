import AlgoVerif.Proofs.C06BinaryQueries
/-!
# C06 — every step of the binary trie Model is the Spec's step (simulation under `BInv`)
-/
namespace AlgoVerif.C06
variable {V : Type}

theorem option_ext {α : Type} {a b : Option α} (h : ∀ v, a = some v ↔ b = some v) : a = b := by
  cases a with
  | none =>
    cases b with
    | none => rfl
    | some y => exact absurd ((h y).mpr rfl) (by simp)
  | some x => exact ((h x).mp rfl).symm

namespace Spec

theorem Map.put_mem {m : Map V} (hs : Sorted m) (k : Key) (v : V) (e : Key × V) :
    e ∈ Map.put m k v ↔ e = (k, v) ∨ (e ∈ m ∧ e.1 ≠ k) := by
  induction m with
  | nil => simp [Map.put]
  | cons x m ih =>
    obtain ⟨k', v'⟩ := x
    have hlt := hs.head_lt
    simp only [Map.put]
    by_cases h1 : klt k k' = true
    · simp only [h1, if_true, List.mem_cons]
      constructor
      · rintro (h | h | h)
        · exact .inl h
        · subst h; exact .inr ⟨.inl rfl, (klt_ne h1).symm⟩
        · exact .inr ⟨.inr h, (klt_ne (klt_trans h1 (hlt e h))).symm⟩
      · rintro (h | ⟨h | h, _⟩)
        · exact .inl h
        · exact .inr (.inl h)
        · exact .inr (.inr h)
    · simp only [h1, Bool.false_eq_true, if_false]
      by_cases h2 : (k == k') = true
      · have hk : k = k' := by simpa using h2
        subst hk
        simp only [h2, if_true, List.mem_cons]
        constructor
        · rintro (h | h)
          · exact .inl h
          · exact .inr ⟨.inr h, (klt_ne (hlt e h)).symm⟩
        · rintro (h | ⟨h | h, hne⟩)
          · exact .inl h
          · subst h; exact absurd rfl hne
          · exact .inr h
      · have hne : k ≠ k' := by simpa using h2
        simp only [h2, Bool.false_eq_true, if_false, List.mem_cons, ih hs.tail]
        constructor
        · rintro (h | h | ⟨h, hn⟩)
          · subst h; exact .inr ⟨.inl rfl, hne.symm⟩
          · exact .inl h
          · exact .inr ⟨.inr h, hn⟩
        · rintro (h | ⟨h | h, hn⟩)
          · exact .inr (.inl h)
          · exact .inl h
          · exact .inr (.inr ⟨h, hn⟩)

theorem Map.put_sorted {m : Map V} (hs : Sorted m) (k : Key) (v : V) : Sorted (Map.put m k v) := by
  induction m with
  | nil => simp [Map.put, Sorted]
  | cons x m ih =>
    obtain ⟨k', v'⟩ := x
    have hlt := hs.head_lt
    simp only [Map.put]
    by_cases h1 : klt k k' = true
    · simp only [h1, if_true]
      refine List.pairwise_cons.mpr ⟨?_, hs⟩
      intro e he
      rcases List.mem_cons.mp he with rfl | he
      · exact h1
      · exact klt_trans h1 (hlt e he)
    · simp only [h1, Bool.false_eq_true, if_false]
      by_cases h2 : (k == k') = true
      · have hk : k = k' := by simpa using h2
        subst hk
        simp only [h2, if_true]
        exact List.pairwise_cons.mpr ⟨hlt, hs.tail⟩
      · have hne : k ≠ k' := by simpa using h2
        simp only [h2, Bool.false_eq_true, if_false]
        refine List.pairwise_cons.mpr ⟨?_, ih hs.tail⟩
        intro e he
        rcases (Map.put_mem hs.tail k v e).mp he with rfl | ⟨he, _⟩
        · rcases klt_trichotomy k k' with h | h | h
          · exact absurd h h1
          · exact absurd h hne
          · exact h
        · exact hlt e he

theorem Map.get_eq_some {m : Map V} (hs : Sorted m) (k : Key) (v : V) :
    Map.get m k = some v ↔ (k, v) ∈ m := by
  induction m with
  | nil => simp [Map.get]
  | cons x m ih =>
    obtain ⟨k', v'⟩ := x
    have hlt := hs.head_lt
    simp only [Map.get, List.find?_cons, List.mem_cons]
    by_cases h : (k' == k) = true
    · have hk : k' = k := by simpa using h
      subst hk
      simp only [h, Option.map_some, Option.some.injEq]
      constructor
      · intro hv; subst hv; exact .inl rfl
      · rintro (h | h)
        · exact (Prod.mk.inj h).2.symm
        · have := hlt _ h; simp [klt_irrefl] at this
    · have hne : k' ≠ k := by simpa using h
      simp only [h]
      have := ih hs.tail
      simp only [Map.get] at this
      rw [this]
      constructor
      · exact fun h => .inr h
      · rintro (h | h)
        · exact absurd (Prod.mk.inj h).1.symm hne
        · exact h

theorem Map.delete_head {k : Key} {v : V} {m : Map V} (hs : Sorted ((k, v) :: m)) :
    Map.delete ((k, v) :: m) k = m := by
  simp only [Map.delete, List.filter_cons, bne_self_eq_false, Bool.false_eq_true, if_false]
  rw [List.filter_eq_self]
  intro e he
  simpa using klt_ne (hs.head_lt e he) |>.symm

theorem Map.delete_last {m : Map V} (hs : Sorted m) {k : Key} {v : V} (h : m.getLast? = some (k, v)) :
    Map.delete m k = m.dropLast := by
  induction m with
  | nil => simp at h
  | cons x m ih =>
    cases m with
    | nil =>
      simp at h; subst h
      simp [Map.delete]
    | cons y ys =>
      rw [List.getLast?_cons_cons] at h
      have hmem : (k, v) ∈ y :: ys := List.mem_of_getLast? h
      have hx : x.1 ≠ k := klt_ne (hs.head_lt _ hmem)
      have := ih hs.tail h
      simp only [Map.delete] at this ⊢
      rw [List.filter_cons_of_pos (by simpa using hx), this, List.dropLast_cons_cons]

end Spec

/-! ## the invariant -/

structure BInv (t : Binary V) (m : Spec.Map V) : Prop where
  wf : t.root.WF
  ents : t.root.ents = m
  size : t.size = m.length

theorem BInv.sorted {t : Binary V} {m : Spec.Map V} (h : BInv t m) : Sorted m := h.ents ▸ BNode.sorted_ents h.wf

theorem BInv.new : BInv (Binary.new : Binary V) [] := ⟨trivial, rfl, rfl⟩

namespace Binary
open Spec

theorem get_eq [Inhabited V] {t : Binary V} {m : Map V} (h : BInv t m) (k : Key) : t.root.get k = Map.get m k := by
  apply option_ext
  intro v
  rw [BNode.get_mem _ _ _ h.wf, Map.get_eq_some h.sorted, h.ents]

theorem put_sim [Inhabited V] {t : Binary V} {m : Map V} (h : BInv t m) (c : UInt8) (rest : Key) (v : V) :
    BInv { size := (t.root.put c rest v t.size).2, root := (t.root.put c rest v t.size).1 } (Map.put m (c :: rest) v) := by
  have hw := (BNode.put_WF t.root c rest v t.size h.wf).1
  have he : (t.root.put c rest v t.size).1.ents = Map.put m (c :: rest) v := by
    apply Sorted.ext (BNode.sorted_ents hw) (Map.put_sorted h.sorted _ _)
    intro e
    rw [BNode.put_mem _ _ _ _ _ h.wf, Map.put_mem h.sorted, h.ents]
  refine ⟨hw, he, ?_⟩
  show (t.root.put c rest v t.size).2 = _
  rw [BNode.put_size, he, h.size, h.ents]; omega

theorem delete_sim [Inhabited V] {t : Binary V} {m : Map V} (h : BInv t m) (c : UInt8) (rest : Key) :
    BInv { size := (t.root.delete c rest t.size).2.2, root := (t.root.delete c rest t.size).1 } (Map.delete m (c :: rest)) := by
  have hw := (BNode.delete_WF t.root c rest t.size h.wf).1
  have he : (t.root.delete c rest t.size).1.ents = Map.delete m (c :: rest) := by
    apply Sorted.ext (BNode.sorted_ents hw) (h.sorted.filter _)
    intro e
    rw [BNode.delete_mem _ _ _ _ h.wf, h.ents]
    simp [Map.delete]
  refine ⟨hw, he, ?_⟩
  show (t.root.delete c rest t.size).2.2 = _
  rw [BNode.delete_size, he, h.size, h.ents]; omega

/-! ### the queries -/

theorem min_eq {t : Binary V} {m : Map V} (h : BInv t m) : t.min = m.min := by
  unfold Binary.min
  rw [BNode.travAsc_eq _ (fun _ k v => (some (k, v), false)) (fun _ _ _ _ => rfl), map_prep_nil, h.ents, foldE_min]
  rfl

theorem max_eq {t : Binary V} {m : Map V} (h : BInv t m) : t.max = m.max := by
  unfold Binary.max
  rw [BNode.travDesc_eq _ (fun _ k v => (some (k, v), false)) (fun _ _ _ _ => rfl), map_prep_nil, h.ents, foldE_max]
  rfl

theorem floor_eq {t : Binary V} {m : Map V} (h : BInv t m) (key : Key) : t.floor key = m.floor key := by
  unfold Binary.floor
  rw [BNode.travAsc_eq _ (fun s k v => if klt key k then (s, false) else (some (k, v), true)) (fun _ _ _ _ => rfl),
    map_prep_nil, h.ents, foldE_floor key m h.sorted]
  simp [Map.floor]

theorem ceiling_eq {t : Binary V} {m : Map V} (h : BInv t m) (key : Key) : t.ceiling key = m.ceiling key := by
  unfold Binary.ceiling
  rw [BNode.travDesc_eq _ (fun s k v => if klt k key then (s, false) else (some (k, v), true)) (fun _ _ _ _ => rfl),
    map_prep_nil, h.ents, (foldE_ceiling key m h.sorted none).1]
  simp [Map.ceiling]

theorem select_eq {t : Binary V} {m : Map V} (h : BInv t m) (rank : Int) : t.select rank = m.select rank := by
  unfold Binary.select Map.select
  by_cases h1 : rank < 0
  · simp [h1]
  · by_cases h2 : rank ≥ t.size
    · have : m[rank.toNat]? = none := by
        rw [List.getElem?_eq_none_iff]; rw [h.size] at h2; omega
      simp [h1, h2, this]
    · simp only [h1, h2, decide_false, Bool.or_self, Bool.false_eq_true, if_false]
      rw [BNode.travAsc_eq _ (fun (s : Int × Option (Key × V)) k v =>
          if s.1 == rank then ((s.1, some (k, v)), false) else ((s.1 + 1, s.2), true)) (fun _ _ _ _ => rfl),
        map_prep_nil, h.ents, foldE_select rank m 0 (by omega)]
      simp

theorem rank_eq {t : Binary V} {m : Map V} (h : BInv t m) (key : Key) : t.rank key = m.rank key := by
  unfold Binary.rank
  rw [BNode.travAsc_eq _ (fun (i : Int) k _ => if kle key k then (i, false) else (i + 1, true)) (fun _ _ _ _ => rfl),
    map_prep_nil, h.ents, foldE_rank key m h.sorted]
  simp [Map.rank]

theorem range_eq {t : Binary V} {m : Map V} (h : BInv t m) (lo hi : Key) : t.range lo hi = m.range lo hi := by
  unfold Binary.range
  rw [BNode.travAsc_eq _ (fun (kvs : List (Key × V)) k v =>
      if kle lo k && kle k hi then (kvs ++ [(k, v)], true)
      else if klt hi k then (kvs, false) else (kvs, true)) (fun _ _ _ _ => rfl),
    map_prep_nil, h.ents, foldE_range lo hi m h.sorted]
  simp [Map.range]

theorem rangeSize_eq {t : Binary V} {m : Map V} (h : BInv t m) (lo hi : Key) : t.rangeSize lo hi = m.rangeSize lo hi := by
  unfold Binary.rangeSize
  rw [BNode.travAsc_eq _ (fun (i : Int) k _ =>
      if kle lo k && kle k hi then (i + 1, true)
      else if klt hi k then (i, false) else (i, true)) (fun _ _ _ _ => rfl),
    map_prep_nil, h.ents, foldE_rangeSize lo hi m h.sorted]
  simp [Map.rangeSize, Map.range]

theorem all_eq {t : Binary V} {m : Map V} (h : BInv t m) : t.all = m := by
  unfold Binary.all
  rw [BNode.travAsc_eq _ (fun (kvs : List (Key × V)) k v => (kvs ++ [(k, v)], true)) (fun _ _ _ _ => rfl),
    map_prep_nil, h.ents, foldE_all]
  simp

theorem withPrefix_eq {t : Binary V} {m : Map V} (h : BInv t m) (p : Key) : t.withPrefix p = m.withPrefix p := by
  unfold Binary.withPrefix
  rw [BNode.withPrefix_eq _ _ _ h.wf, map_prep_nil, h.ents]; rfl

theorem longestPrefixOf_eq {t : Binary V} {m : Map V} (h : BInv t m) (s : Key) :
    t.longestPrefixOf s = m.longestPrefixOf s := by
  unfold Binary.longestPrefixOf
  rw [BNode.allPrefixOf_eq _ _ _ h.wf, map_prep_nil, h.ents]; rfl

theorem match_eq {t : Binary V} {m : Map V} (h : BInv t m) (pat : Key) : t.match pat = m.match pat := by
  unfold Binary.match
  rw [BNode.match_eq _ _ _ h.wf, map_prep_nil, h.ents]; rfl

/-! ### one step -/

theorem deleteMin_sim [Inhabited V] {t : Binary V} {m : Map V} (h : BInv t m) :
    ∃ t', t.deleteMin = .ok (t', m.min) ∧ BInv t' m.deleteMin := by
  unfold Binary.deleteMin
  rw [min_eq h]
  cases m with
  | nil => exact ⟨t, rfl, h⟩
  | cons e m' =>
    obtain ⟨k, v⟩ := e
    have hmem : (k, v) ∈ t.root.ents := by rw [h.ents]; exact List.mem_cons_self ..
    have hne := BNode.ents_key_ne_nil _ _ hmem
    cases k with
    | nil => exact absurd rfl hne
    | cons c rest =>
      have hval : (t.root.delete c rest t.size).2.1 = some v := by
        rw [BNode.delete_val, BNode.get_mem _ _ _ h.wf]; exact hmem
      have hsim := delete_sim h c rest
      rw [Map.delete_head h.sorted] at hsim
      simp only [Map.min, List.head?_cons, Binary.delete, hval]
      exact ⟨_, rfl, hsim⟩

theorem deleteMax_sim [Inhabited V] {t : Binary V} {m : Map V} (h : BInv t m) :
    ∃ t', t.deleteMax = .ok (t', m.max) ∧ BInv t' m.deleteMax := by
  unfold Binary.deleteMax
  rw [max_eq h]
  cases hm : m.max with
  | none =>
    have : m = [] := by simpa [Map.max] using hm
    subst this
    exact ⟨t, rfl, h⟩
  | some e =>
    obtain ⟨k, v⟩ := e
    have hmem : (k, v) ∈ t.root.ents := by rw [h.ents]; exact List.mem_of_getLast? hm
    have hne := BNode.ents_key_ne_nil _ _ hmem
    cases k with
    | nil => exact absurd rfl hne
    | cons c rest =>
      have hval : (t.root.delete c rest t.size).2.1 = some v := by
        rw [BNode.delete_val, BNode.get_mem _ _ _ h.wf]; exact hmem
      have hsim := delete_sim h c rest
      rw [Map.delete_last h.sorted hm] at hsim
      simp only [Binary.delete, hval]
      exact ⟨_, rfl, hsim⟩

/-- every operation on non-empty keys succeeds, returns what the Spec returns and keeps the invariant -/
theorem step_sim [Inhabited V] {t : Binary V} {m : Map V} (h : BInv t m) (op : Op V) (hk : op.keysNonempty = true) :
    ∃ t', t.step op = .ok (t', (Map.step m op).2) ∧ BInv t' (Map.step m op).1 := by
  cases op with
  | put k v =>
    cases k with
    | nil => simp [Op.keysNonempty, Op.keyArg] at hk
    | cons c rest => exact ⟨_, rfl, put_sim h c rest v⟩
  | get k =>
    cases k with
    | nil => simp [Op.keysNonempty, Op.keyArg] at hk
    | cons c rest =>
      refine ⟨t, ?_, h⟩
      simp [Binary.step, Binary.get, Outcome.map, Map.step, get_eq h]
  | delete k =>
    cases k with
    | nil => simp [Op.keysNonempty, Op.keyArg] at hk
    | cons c rest =>
      refine ⟨_, ?_, delete_sim h c rest⟩
      simp [Binary.step, Binary.delete, Outcome.map, Map.step, BNode.delete_val, get_eq h]
  | deleteMin =>
    obtain ⟨t', h1, h2⟩ := deleteMin_sim h
    exact ⟨t', by simp [Binary.step, h1, Outcome.map, Map.step], h2⟩
  | deleteMax =>
    obtain ⟨t', h1, h2⟩ := deleteMax_sim h
    exact ⟨t', by simp [Binary.step, h1, Outcome.map, Map.step], h2⟩
  | deleteAll => exact ⟨_, rfl, BInv.new⟩
  | size => exact ⟨t, by simp [Binary.step, Map.step, Map.size, h.size], h⟩
  | min => exact ⟨t, by simp [Binary.step, Map.step, min_eq h], h⟩
  | max => exact ⟨t, by simp [Binary.step, Map.step, max_eq h], h⟩
  | floor k => exact ⟨t, by simp [Binary.step, Map.step, floor_eq h], h⟩
  | ceiling k => exact ⟨t, by simp [Binary.step, Map.step, ceiling_eq h], h⟩
  | select i => exact ⟨t, by simp [Binary.step, Map.step, select_eq h], h⟩
  | rank k => exact ⟨t, by simp [Binary.step, Map.step, rank_eq h], h⟩
  | range lo hi => exact ⟨t, by simp [Binary.step, Map.step, range_eq h], h⟩
  | rangeSize lo hi => exact ⟨t, by simp [Binary.step, Map.step, rangeSize_eq h], h⟩
  | all => exact ⟨t, by simp [Binary.step, Map.step, all_eq h], h⟩
  | withPrefix p => exact ⟨t, by simp [Binary.step, Map.step, withPrefix_eq h], h⟩
  | longestPrefixOf s => exact ⟨t, by simp [Binary.step, Map.step, longestPrefixOf_eq h], h⟩
  | «match» pat => exact ⟨t, by simp [Binary.step, Map.step, match_eq h], h⟩

/-- the whole history -/
theorem run_sim [Inhabited V] {t : Binary V} {m : Map V} (h : BInv t m) (ops : List (Op V))
    (hk : ∀ op ∈ ops, op.keysNonempty = true) :
    Binary.run t ops = (Map.run m ops).map Outcome.ok := by
  induction ops generalizing t m with
  | nil => rfl
  | cons op ops ih =>
    obtain ⟨t', h1, h2⟩ := step_sim h op (hk op (List.mem_cons_self ..))
    simp only [Binary.run, runTrace, h1, Map.run, runSpec, List.map_cons]
    congr 1
    exact ih h2 (fun o ho => hk o (List.mem_cons_of_mem _ ho))

end Binary
end AlgoVerif.C06
