import AlgoVerif.Model.C08Aux
import AlgoVerif.Spec.C09
import AlgoVerif.Proofs.C10Verify
/-!
Helper lemmas about the helpers of `Model/C08Aux.lean`: the three-way comparators against the strict orders the
Model sorts by, `Equal` against the language, `IsCNF()`'s error list against the Spec's predicate, `Verify()`'s error
list against `Spec.Valid`.
-/
namespace AlgoVerif.C08
open AlgoVerif AlgoVerif.Gram

theorem cmpOfLt_neg_one {α : Type} (lt : α → α → Bool) (a b : α) : cmpOfLt lt a b = -1 ↔ lt a b = true := by
  unfold cmpOfLt
  by_cases h : lt a b = true
  · simp [h]
  · by_cases h' : lt b a = true <;> simp [h, h']

theorem cmpOfLt_self {α : Type} (lt : α → α → Bool) (a : α) (h : lt a a = false) : cmpOfLt lt a a = 0 := by
  simp [cmpOfLt, h]

theorem bodyLt_irrefl (b : List SSym) : bodyLt b b = false := by
  simp [bodyLt, String.lt_irrefl]

/-! ## `Equal` grammars generate the same language -/

theorem sameSet_mem {α : Type} [DecidableEq α] {a b : List α} (h : sameSet a b = true) (x : α) : x ∈ a ↔ x ∈ b := by
  unfold sameSet at h
  simp only [Bool.and_eq_true, List.all_eq_true, decide_eq_true_eq] at h
  exact ⟨h.1 x, h.2 x⟩

theorem Derives.mono {g h : G} (hp : ∀ p, p ∈ g.prods → p ∈ h.prods) {α β : List SSym} (d : Derives g α β) :
    Derives h α β := by
  induction d with
  | refl => exact Derives.refl _
  | tail _ s ih =>
    cases s with
    | mk u v p hpg => exact Derives.tail ih (Step.mk u v p (hp p hpg))

theorem equalG_language {g h : G} (he : equalG g h = true) (w : List String) : Language g w ↔ Language h w := by
  unfold equalG at he
  simp only [Bool.and_eq_true, decide_eq_true_eq] at he
  obtain ⟨⟨⟨_, _⟩, hps⟩, hs⟩ := he
  unfold Language
  rw [hs]
  exact ⟨Derives.mono (fun p hp => (sameSet_mem hps p).1 hp), Derives.mono (fun p hp => (sameSet_mem hps p).2 hp)⟩

/-! ## `IsCNF()` -/

theorem cnfErrors_nil_iff (g : G) : cnfErrors g = [] ↔ AlgoVerif.C09.Spec.looseCNFB g = true := by
  unfold cnfErrors AlgoVerif.C09.Spec.looseCNFB
  rw [List.filter_eq_nil_iff, List.all_eq_true]
  constructor
  · intro h p hp
    have := h p hp
    unfold AlgoVerif.C09.Spec.looseCnfProd
    unfold isBinary isTerminalProd at this
    rcases hb : p.body with _ | ⟨x, _ | ⟨y, _ | ⟨z, rest⟩⟩⟩
    · rw [hb] at this; simpa using this
    · rw [hb] at this; cases x <;> simp at this ⊢
    · rw [hb] at this; cases x <;> cases y <;> simp at this ⊢
    · rw [hb] at this; cases x <;> cases y <;> simp at this
  · intro h p hp
    have := h p hp
    unfold AlgoVerif.C09.Spec.looseCnfProd at this
    unfold isBinary isTerminalProd
    rcases hb : p.body with _ | ⟨x, _ | ⟨y, _ | ⟨z, rest⟩⟩⟩
    · rw [hb] at this; simpa using this
    · rw [hb] at this; cases x <;> simp at this ⊢
    · rw [hb] at this; cases x <;> cases y <;> simp at this ⊢
    · rw [hb] at this; cases x <;> cases y <;> simp at this

/-! ## `Verify()` -/

theorem validB_iff_Valid (g : G) : AlgoVerif.C10.validB g = true ↔ Spec.Valid g := by
  unfold AlgoVerif.C10.validB Spec.Valid
  simp only [Bool.and_eq_true, decide_eq_true_eq, List.all_eq_true, List.any_eq_true]
  constructor
  · rintro ⟨⟨⟨h1, _⟩, h3⟩, h4⟩
    refine ⟨h1, fun n hn => h3 n hn, fun p hp => ⟨(h4 p hp).1, fun s hs => ?_⟩⟩
    have := (h4 p hp).2 s hs
    cases s <;> simpa [AlgoVerif.C10.symDeclared, Spec.SymDeclared] using this
  · rintro ⟨h1, h2, h3⟩
    refine ⟨⟨⟨h1, h2 _ h1⟩, fun n hn => h2 n hn⟩, fun p hp => ⟨(h3 p hp).1, fun s hs => ?_⟩⟩
    have := (h3 p hp).2 s hs
    cases s <;> simpa [AlgoVerif.C10.symDeclared, Spec.SymDeclared] using this

theorem verifyErrors_nil_iff_Valid (g : G) : AlgoVerif.C10.verifyErrors g = [] ↔ Spec.Valid g :=
  (AlgoVerif.C10.verifyErrors_nil_iff g).trans (validB_iff_Valid g)

end AlgoVerif.C08
