import AlgoVerif.Proofs.C19Lexeme
import AlgoVerif.Proofs.C19Stream
/-!
# C19 — the Model refines the Spec

`Rel`: the simulation relation (buffer invariant + pending lexeme inside the buffer + the rune-level
bookkeeping: sizes stack, offset, line, column, and the column stack as a fold over the pending runes).
`step_refines`: every call — `Next`, `Retract`, `Lexeme`, `Skip` — returns what the Spec returns and keeps `Rel`,
provided the pending lexeme stays within `n` bytes; `run_refines`: by induction, whole call sequences.
-/
set_option maxHeartbeats 400000
namespace AlgoVerif.C19
open AlgoVerif AlgoVerif.Generated

/-! ## columns -/

/-- what `Next` does to (`nextColumn`, `lastColumns`) for one rune -/
def trackStep (a : Int × List Int) (c : Char) : Int × List Int :=
  if c = '\n' then (1, a.1 :: a.2) else (a.1 + 1, a.2)

/-- (`nextColumn`, `lastColumns`) after the pending runes, starting from `column` with an empty stack -/
def track (col : Int) (cs : List Char) : Int × List Int := cs.foldl trackStep (col, [])

theorem track_append (col : Int) (cs : List Char) (c : Char) :
    track col (cs ++ [c]) = trackStep (track col cs) c := by
  simp [track, List.foldl_append]

theorem advance_append (lc : Nat × Nat) (a b : List Char) :
    Spec.advance lc (a ++ b) = Spec.advance (Spec.advance lc a) b := by
  induction a generalizing lc with
  | nil => rfl
  | cons ch cs ih => obtain ⟨l, c⟩ := lc; simp only [List.cons_append, Spec.advance, ih]

theorem advance_track (cs : List Char) : ∀ (l c : Nat) (lc0 : List Int),
    (cs.foldl trackStep ((c : Int), lc0)).1 = ((Spec.advance (l, c) cs).2 : Int) ∧
    l + (cs.foldl trackStep ((c : Int), lc0)).2.length = (Spec.advance (l, c) cs).1 + lc0.length := by
  induction cs with
  | nil => intro l c lc0; simp [Spec.advance]
  | cons ch cs ih =>
    intro l c lc0
    simp only [List.foldl_cons, Spec.advance, trackStep]
    by_cases h : ch = '\n'
    · simp only [h, if_true]
      have := ih (l + 1) 1 ((c : Int) :: lc0)
      simp only [Int.natCast_one, List.length_cons] at this
      refine ⟨this.1, by omega⟩
    · simp only [h, if_false]
      have := ih l (c + 1) lc0
      simp only [Int.natCast_add, Int.natCast_one] at this
      exact this

/-! ## bytes of runes -/

theorem encode_append (a b : List Char) : Spec.encode (a ++ b) = Spec.encode a ++ Spec.encode b := by
  simp [Spec.encode]

theorem encode_singleton (c : Char) : Spec.encode [c] = String.utf8EncodeChar c := by simp [Spec.encode]

theorem encode_cons (c : Char) (cs : List Char) : Spec.encode (c :: cs) = String.utf8EncodeChar c ++ Spec.encode cs := by
  simp [Spec.encode]

theorem length_encodeChar (c : Char) : (String.utf8EncodeChar c).length = c.utf8Size := String.length_utf8EncodeChar c

/-- the first byte of the encoding of a rune is `'\n'` exactly for the newline rune -/
theorem head_encode_eq_nl (c : Char) : (String.utf8EncodeChar c)[0]? = some 10 ↔ c = '\n' := by
  constructor
  · intro h
    have key : c.val.toNat = 10 := by
      simp only [String.utf8EncodeChar] at h
      generalize c.val.toNat = v at *
      have ofn : ∀ x, x < 256 → UInt8.ofNat x = 10 → x = 10 := by
        intro x hx hx10
        have := congrArg UInt8.toNat hx10
        rw [toNat_ofNat_lt x hx] at this
        exact this
      split at h
      · simp only [List.getElem?_cons_zero, Option.some.injEq] at h; exact ofn v (by omega) h
      · split at h
        · simp only [List.getElem?_cons_zero, Option.some.injEq] at h; have := ofn _ (by omega) h; omega
        · split at h
          · simp only [List.getElem?_cons_zero, Option.some.injEq] at h; have := ofn _ (by omega) h; omega
          · simp only [List.getElem?_cons_zero, Option.some.injEq] at h; have := ofn _ (by omega) h; omega
    apply Char.ext
    apply UInt32.toNat_inj.mp
    rw [key]; rfl
  · intro h; subst h; decide

theorem nl_iff (c : Char) : (c.utf8Size = 1 ∧ c.toNat = 10) ↔ c = '\n' := by
  constructor
  · intro h
    apply Char.ext
    apply UInt32.toNat_inj.mp
    have := h.2
    simp only [Char.toNat] at this
    rw [this]; rfl
  · intro h; subst h; decide

/-- The simulation relation between a Model state and a Spec state over the source `S`
(`p`, `B`, `cnt`, `s`: the ghost values of the buffer invariant). -/
structure Rel (S : List UInt8) (n : Nat) (i : Input) (st : Spec.State) (p B cnt s : Nat) : Prop where
  inv : Inv S n i p B cnt s
  /-- the bytes after the last well-formed rune: none, or bytes on which the decoder reports an invalid sequence -/
  tail : st.tail = [] ∨ ∃ k, decodeRune st.tail = .invalid k
  src : S = Spec.encode st.flushed ++ (Spec.encode st.pending ++ (Spec.encode st.rest ++ st.tail))
  lex : LexOK n i p B s (Spec.encode st.flushed).length
  pos : p = (Spec.encode st.flushed).length + (Spec.encode st.pending).length
  sizes : i.runeSizes = (st.pending.map Char.utf8Size).reverse
  offset : i.offset = st.flushed.length
  line : i.line = (Spec.advance (1, 1) st.flushed).1
  column : i.column = ((Spec.advance (1, 1) st.flushed).2 : Nat)
  cols : (i.nextColumn, i.lastColumns) = track i.column st.pending

theorem Rel.drop_p {S n i st p B cnt s} (h : Rel S n i st p B cnt s) :
    S.drop p = Spec.encode st.rest ++ st.tail := by
  rw [h.src, h.pos, ← List.append_assoc, List.drop_left' (by simp)]

/-- the position `Next` puts into an `InputError`: the runes flushed and pending so far -/
theorem Rel.forwardPos_eq {S n i st p B cnt s} (hrel : Rel S n i st p B cnt s) :
    i.forwardPos = Spec.posAfter (st.flushed ++ st.pending) := by
  have hcols := hrel.cols
  have hat := advance_track st.pending (Spec.advance (1, 1) st.flushed).1 (Spec.advance (1, 1) st.flushed).2 []
  simp only [track, hrel.column] at hcols
  rw [← hcols] at hat
  simp only [List.length_nil, Nat.add_zero] at hat
  simp only [Input.forwardPos, Spec.posAfter, advance_append, hrel.offset, hrel.sizes, hrel.line,
    List.length_append, List.length_reverse, List.length_map, Pos.mk.injEq]
  exact ⟨trivial, hat.2, hat.1⟩

/-- is this output the report of an ill-formed sequence -/
def Out.isInvalid : Out → Bool
  | .invalid _ => true
  | _ => false

theorem next_refines {S : List UInt8} {n : Nat} {i : Input} {st : Spec.State} {p B cnt s : Nat}
    (hrel : Rel S n i st p B cnt s) (hnul : NulFree S)
    (hkeep : (Spec.encode (Spec.step st .next).1.pending).length ≤ n) :
    ∃ i', i.step .next = .ok (i', (Spec.step st .next).2) ∧
      ((Spec.step st .next).2.isInvalid = false →
        ∃ p' B' cnt' s', Rel S n i' (Spec.step st .next).1 p' B' cnt' s') := by
  have hN := Next_spec hrel.inv hnul
  rw [hrel.drop_p] at hN
  cases hr : st.rest with
  | nil =>
    rw [hr] at hN
    simp only [Spec.encode, List.flatMap_nil, List.nil_append] at hN
    rcases hrel.tail with ht | ⟨k, ht⟩
    · -- end of input
      rw [ht] at hN
      obtain ⟨i', B', cnt', s', hNext, _, _, hi⟩ := hN
      have : i' = i := hi (by rw [hrel.drop_p, hr, ht]; rfl)
      subst this
      refine ⟨i', ?_, fun _ => ⟨p, B, cnt, s, ?_⟩⟩
      · simp only [step_next_of hNext, Spec.step, hr, ht, if_true]
      · simp only [Spec.step, hr, ht, if_true]; exact hrel
    · -- the ill-formed sequence is reached
      have htne : st.tail ≠ [] := by intro h; rw [h] at ht; simp [decodeRune] at ht
      rw [ht] at hN
      obtain ⟨i', _, _, _, hNext, _, _⟩ := hN
      refine ⟨i', ?_, ?_⟩
      · simp only [step_next_of hNext, Spec.step, hr, htne, if_false, hrel.forwardPos_eq]
      · intro h; simp [Spec.step, hr, htne, Out.isInvalid] at h
  | cons c r =>
    rw [hr, encode_cons, List.append_assoc, decodeRune_encode] at hN
    obtain ⟨i', B', cnt', s', hNext, hinv', _, hpush, hlex'⟩ := hN
    simp only [Spec.step, hr] at hkeep ⊢
    rw [encode_append, encode_singleton, List.length_append, length_encodeChar] at hkeep
    have hpos := hrel.pos
    refine ⟨i', by rw [step_next_of hNext], fun _ => ⟨p + c.utf8Size, B', cnt', s', ?_⟩⟩
    have hnl : (c.utf8Size = 1 ∧ c.toNat = 10) ↔ c = '\n' := nl_iff c
    have hcols := hrel.cols
    exact {
      inv := hinv'
      tail := hrel.tail
      src := by
        simp only [encode_append, encode_singleton]
        rw [hrel.src, hr, encode_cons]; simp
      lex := show LexOK n i' _ B' s' (Spec.encode st.flushed).length from hlex' _ hrel.lex (by omega)
      pos := by simp only [encode_append, encode_singleton, List.length_append, length_encodeChar]; omega
      sizes := by simp [hpush.runeSizes, hrel.sizes]
      offset := by rw [hpush.offset]; exact hrel.offset
      line := by rw [hpush.line]; exact hrel.line
      column := by rw [hpush.column]; exact hrel.column
      cols := by
        rw [track_append, hpush.column, ← hcols, hpush.nextColumn, hpush.lastColumns]
        simp only [trackStep]
        by_cases h : c = '\n'
        · rw [if_pos (hnl.mpr h), if_pos (hnl.mpr h), if_pos h]
        · have : ¬ (c.utf8Size = 1 ∧ c.toNat = 10) := fun h' => h (hnl.mp h')
          rw [if_neg this, if_neg this, if_neg h] }

theorem retract_refines {S : List UInt8} {n : Nat} {i : Input} {st : Spec.State} {p B cnt s : Nat}
    (hrel : Rel S n i st p B cnt s) :
    ∃ i' p' B' cnt' s', i.step .retract = .ok (i', (Spec.step st .retract).2) ∧
      Rel S n i' (Spec.step st .retract).1 p' B' cnt' s' := by
  rcases List.eq_nil_or_concat st.pending with hp | ⟨init, c, hp⟩
  · -- nothing to retract
    have hrs : i.runeSizes = [] := by rw [hrel.sizes, hp]; rfl
    refine ⟨i, p, B, cnt, s, ?_, ?_⟩
    · simp [Input.step, Input.Retract, hrs, Spec.step, hp]
    · simp only [Spec.step, hp, List.getLast?_nil]; exact hrel
  · rw [List.concat_eq_append] at hp
    have hrs : i.runeSizes = c.utf8Size :: (init.map Char.utf8Size).reverse := by
      rw [hrel.sizes, hp]; simp
    have hpos := hrel.pos
    rw [hp, encode_append, encode_singleton, List.length_append, length_encodeChar] at hpos
    obtain ⟨j, x, hR, hx, hinv', hlex', hjrs, hjo, hjl, hjc, hcol⟩ :=
      Retract_spec hrel.inv hrs c.utf8Size_pos _ hrel.lex (by omega)
    have hstep : Spec.step st .retract = ({ st with pending := init, rest := c :: st.rest }, .unit) := by
      simp [Spec.step, hp]
    rw [hstep]
    refine ⟨j, p - c.utf8Size, B, cnt, s, by simp [Input.step, hR], ?_⟩
    -- the byte at the new position is the first byte of `c`
    have hdrop : S.drop (p - c.utf8Size) = String.utf8EncodeChar c ++ (Spec.encode st.rest ++ st.tail) := by
      rw [hrel.src, hp, encode_append, encode_singleton]
      have : p - c.utf8Size = (Spec.encode st.flushed ++ Spec.encode init).length := by simp; omega
      have e : Spec.encode st.flushed ++ ((Spec.encode init ++ String.utf8EncodeChar c) ++ (Spec.encode st.rest ++ st.tail))
          = (Spec.encode st.flushed ++ Spec.encode init) ++ (String.utf8EncodeChar c ++ (Spec.encode st.rest ++ st.tail)) := by
        simp only [List.append_assoc]
      rw [this, e, List.drop_left]
    have hx0 : (String.utf8EncodeChar c)[0]? = some x := by
      have h0 : (S.drop (p - c.utf8Size))[0]? = S[p - c.utf8Size]? := by rw [List.getElem?_drop]; simp
      rw [hdrop, List.getElem?_append_left (by rw [length_encodeChar]; exact c.utf8Size_pos)] at h0
      rw [h0, hx]
    have hxnl : x = 10 ↔ c = '\n' := by
      rw [← head_encode_eq_nl, hx0]; simp
    have hcols := hrel.cols
    rw [hp, track_append] at hcols
    exact {
      inv := hinv'
      tail := hrel.tail
      src := by rw [hrel.src, hp, encode_append, encode_singleton, encode_cons]; simp
      lex := hlex'
      pos := by simp only []; omega
      sizes := by simp only []; exact hjrs
      offset := by rw [hjo]; exact hrel.offset
      line := by rw [hjl]; exact hrel.line
      column := by rw [hjc]; exact hrel.column
      cols := by
        simp only []
        rw [hjc]
        generalize track i.column init = t at *
        obtain ⟨nc0, lc0⟩ := t
        simp only [trackStep] at hcols
        rcases hcol with ⟨hx10, h⟩ | ⟨hx10, hnc, hlc⟩
        · have hc := hxnl.mp hx10
          simp only [hc, if_true, Prod.mk.injEq] at hcols
          rcases h with ⟨y, lc, hl, hnc, hlc⟩ | ⟨hl, _, _⟩
          · rw [hl] at hcols
            simp only [List.cons.injEq] at hcols
            rw [hnc, hlc, hcols.2.1, hcols.2.2]
          · rw [hl] at hcols; simp at hcols
        · have hc : ¬ c = '\n' := fun h => hx10 (hxnl.mpr h)
          simp only [hc, if_false, Prod.mk.injEq] at hcols
          rw [hnc, hlc, hcols.1, hcols.2]; simp }

/-- `Rel` after the common tail of `Lexeme` and `Skip` -/
theorem flush_rel {S : List UInt8} {n : Nat} {i : Input} {st : Spec.State} {p B cnt s : Nat}
    (hrel : Rel S n i st p B cnt s) (lb : Nat) (hlb : lb = idx n s B p) :
    Rel S n ({ i with lexemeBegin := lb }).flush
      { st with flushed := st.flushed ++ st.pending, pending := [] } p B cnt s := by
  have hcols := hrel.cols
  have hat := advance_track st.pending (Spec.advance (1, 1) st.flushed).1 (Spec.advance (1, 1) st.flushed).2 []
  simp only [track, hrel.column] at hcols
  rw [← hcols] at hat
  simp only [List.length_nil, Nat.add_zero] at hat
  exact {
    inv := hrel.inv.of_eq rfl rfl rfl rfl rfl
    tail := hrel.tail
    src := by simp only [encode_append]; rw [hrel.src]; simp [Spec.encode]
    lex := ⟨by rw [encode_append, List.length_append, ← hrel.pos]; exact Nat.le_refl _,
            by rw [encode_append, List.length_append, ← hrel.pos]; exact hrel.inv.p_lo,
            by rw [encode_append, List.length_append, ← hrel.pos]; omega,
            by rw [encode_append, List.length_append, ← hrel.pos]; exact hlb⟩
    pos := by simp only [encode_append, List.length_append]; rw [hrel.pos]; simp [Spec.encode]
    sizes := by simp [Input.flush]
    offset := by simp [Input.flush, hrel.offset, hrel.sizes]
    line := by
      simp only [Input.flush, advance_append, hrel.line]
      exact hat.2
    column := by
      simp only [Input.flush, advance_append]
      exact hat.1
    cols := by simp [Input.flush, track] }

theorem Rel.pos_eq {S n i st p B cnt s} (hrel : Rel S n i st p B cnt s) : i.pos = Spec.posAfter st.flushed := by
  simp [Input.pos, Spec.posAfter, hrel.offset, hrel.line, hrel.column]

theorem skip_refines {S : List UInt8} {n : Nat} {i : Input} {st : Spec.State} {p B cnt s : Nat}
    (hrel : Rel S n i st p B cnt s) :
    ∃ i' p' B' cnt' s', i.step .skip = .ok (i', (Spec.step st .skip).2) ∧
      Rel S n i' (Spec.step st .skip).1 p' B' cnt' s' := by
  refine ⟨_, p, B, cnt, s, ?_, flush_rel hrel i.forward hrel.inv.fw⟩
  simp [Input.step, Input.Skip, Spec.step, hrel.pos_eq]

theorem lexeme_refines {S : List UInt8} {n : Nat} {i : Input} {st : Spec.State} {p B cnt s : Nat}
    (hrel : Rel S n i st p B cnt s) :
    ∃ i' p' B' cnt' s', i.step .lexeme = .ok (i', (Spec.step st .lexeme).2) ∧
      Rel S n i' (Spec.step st .lexeme).1 p' B' cnt' s' := by
  have hl := hrel.lex
  have hloop := lexemeLoop_spec hrel.inv (Spec.encode st.pending).length (Spec.encode st.flushed).length []
    (i.buff.size + 1) (hrel.pos.symm) hl.b_lo (by have := hl.len; have := hrel.pos; omega)
    (by rw [hrel.inv.size]; have := hl.len; have := hrel.pos; omega)
  rw [← hl.lb, ← hrel.inv.fw] at hloop
  have hbytes : (S.drop (Spec.encode st.flushed).length).take (Spec.encode st.pending).length
      = Spec.encode st.pending := by
    rw [hrel.src, List.drop_left, List.take_left]
  refine ⟨_, p, B, cnt, s, ?_, flush_rel hrel i.forward hrel.inv.fw⟩
  simp only [Input.step, Input.Lexeme, hloop, Spec.step, hrel.pos_eq, List.reverse_nil, List.nil_append, hbytes]

theorem step_refines {S : List UInt8} {n : Nat} {i : Input} {st : Spec.State} {p B cnt s : Nat}
    (hrel : Rel S n i st p B cnt s) (hnul : NulFree S) (op : Op)
    (hkeep : (Spec.encode (Spec.step st op).1.pending).length ≤ n) :
    ∃ i', i.step op = .ok (i', (Spec.step st op).2) ∧
      ((Spec.step st op).2.isInvalid = false → ∃ p' B' cnt' s', Rel S n i' (Spec.step st op).1 p' B' cnt' s') := by
  cases op with
  | next => exact next_refines hrel hnul hkeep
  | retract => obtain ⟨i', p', B', cnt', s', h1, h2⟩ := retract_refines hrel; exact ⟨i', h1, fun _ => ⟨p', B', cnt', s', h2⟩⟩
  | lexeme => obtain ⟨i', p', B', cnt', s', h1, h2⟩ := lexeme_refines hrel; exact ⟨i', h1, fun _ => ⟨p', B', cnt', s', h2⟩⟩
  | skip => obtain ⟨i', p', B', cnt', s', h1, h2⟩ := skip_refines hrel; exact ⟨i', h1, fun _ => ⟨p', B', cnt', s', h2⟩⟩

/-- the outputs up to and including the first report of an ill-formed sequence (after it nothing is specified) -/
def upToInvalid : List Out → List Out
  | [] => []
  | o :: os => if o.isInvalid then [o] else o :: upToInvalid os

/-- forward simulation over a whole call sequence that keeps the pending lexeme within `n` bytes: the Model's
trace agrees with the Spec's outputs up to and including the first report of an ill-formed sequence -/
theorem run_refines_upTo {S : List UInt8} {n : Nat} (hnul : NulFree S) : ∀ (ops : List Op) (i : Input)
    (st : Spec.State) (p B cnt s : Nat), Rel S n i st p B cnt s → Spec.Keeps n st ops →
    (i.run ops).take (upToInvalid (Spec.run st ops)).length = (upToInvalid (Spec.run st ops)).map .ok := by
  intro ops
  induction ops with
  | nil => intros; rfl
  | cons op ops ih =>
    intro i st p B cnt s hrel hkeep
    have hk1 : (Spec.encode (Spec.step st op).1.pending).length ≤ n :=
      hkeep _ (by simp [Spec.states])
    obtain ⟨i', hstep, hrel'⟩ := step_refines hrel hnul op hk1
    have hk2 : Spec.Keeps n (Spec.step st op).1 ops := by
      intro s' hs'; exact hkeep s' (by simp [Spec.states, hs'])
    simp only [Input.run, hstep, Spec.run, upToInvalid]
    by_cases hinv : (Spec.step st op).2.isInvalid = true
    · simp [hinv]
    · have hf : (Spec.step st op).2.isInvalid = false := by simpa using hinv
      obtain ⟨p', B', cnt', s', hr⟩ := hrel' hf
      simp only [hf, Bool.false_eq_true, if_false, List.length_cons, List.take_succ_cons, List.map_cons]
      rw [ih i' _ p' B' cnt' s' hr hk2]

theorem Spec.step_tail (s : Spec.State) (op : Op) : (Spec.step s op).1.tail = s.tail := by
  cases op with
  | next => cases hr : s.rest <;> simp only [Spec.step, hr] <;> (try split) <;> rfl
  | retract => cases hg : s.pending.getLast? <;> simp [Spec.step, hg]
  | lexeme => rfl
  | skip => rfl

theorem Spec.step_noInvalid (s : Spec.State) (op : Op) (h : s.tail = []) : (Spec.step s op).2.isInvalid = false := by
  cases op with
  | next => cases hr : s.rest <;> simp [Spec.step, hr, h, Out.isInvalid]
  | retract => cases hg : s.pending.getLast? <;> simp [Spec.step, hg, Out.isInvalid]
  | lexeme => rfl
  | skip => rfl

theorem upToInvalid_run (s : Spec.State) (ops : List Op) (h : s.tail = []) :
    upToInvalid (Spec.run s ops) = Spec.run s ops := by
  induction ops generalizing s with
  | nil => rfl
  | cons op ops ih =>
    simp only [Spec.run, upToInvalid, Spec.step_noInvalid s op h, Bool.false_eq_true, if_false]
    rw [ih _ (by rw [Spec.step_tail]; exact h)]

/-- for a well-formed source (no ill-formed tail) the whole trace is the Spec's -/
theorem run_refines {S : List UInt8} {n : Nat} (hnul : NulFree S) (ops : List Op) (i : Input) (st : Spec.State)
    (p B cnt s : Nat) (hrel : Rel S n i st p B cnt s) (htail : st.tail = []) (hkeep : Spec.Keeps n st ops) :
    i.run ops = (Spec.run st ops).map .ok := by
  have h := run_refines_upTo hnul ops i st p B cnt s hrel hkeep
  rw [upToInvalid_run st ops htail] at h
  have hlen : (i.run ops).length ≤ (Spec.run st ops).length := by
    clear h hrel hkeep htail
    induction ops generalizing i st with
    | nil => simp [Input.run, Spec.run]
    | cons op ops ih =>
      simp only [Input.run, Spec.run]
      split <;> simp
      exact ih _ _
  rw [List.take_of_length_le hlen] at h
  exact h

end AlgoVerif.C19
