import AlgoVerif.Proofs.C12Complete
import AlgoVerif.Proofs.C10Term
/-! The predictive parser's loop returns on EVERY token sequence when the table is conflict-free.

Between two matches the lookahead `c` is fixed.  Either the stack can derive a string that starts with
`c` — then every expansion is the first step of such a derivation (the cell holds one production only),
and the derivation gets shorter; or it cannot — then only productions with a nullable body are used, on a
prefix of the stack that derives ε, and that derivation gets shorter. -/
set_option linter.unusedSectionVars false
namespace AlgoVerif.C10
open AlgoVerif AlgoVerif.Gram
variable {T N : Type} [DecidableEq T] [DecidableEq N]

theorem computeFollow_inv {g : Grammar T N} (hv : validB g = true) {o : IterOrder T N} (ho : o.Fair)
    {first : List (Sym T N) → TE T}
    (hfirst : ∀ β, (∀ s, s ∈ β → symDeclared g s = true) → ∀ a, a ∈ (first β).terms → a ∈ g.terms)
    {R : N → TEnd T} (h : computeFollow g o first = .ok R) : FollowInv g R := by
  unfold computeFollow at h
  rw [followLoop_eq_gen] at h
  refine genLoop_inv (Inv := FollowInv g) (view := followView) (univ := univOf g) ?_ _ _ _ _ ?_ h
  · intro i s
    apply prog_of_inv
    intro hinv
    exact followPass_prog hv hfirst _ s false (fun p hp => (mem_passProds_iff ho i).1 hp) hinv
  · intro n a ha; simp [followInit] at ha

/-- everything the termination argument uses about the table; `Fo A col` reads "column `col` is in the
computed FOLLOW(A)" (the computed set may exceed the semantic one when not every non-terminal is reachable) -/
structure TableLL1 (g : Grammar T N) (M : N → Option T → List (GProd T N)) (Fo : N → Option T → Prop) : Prop where
  followT : ∀ A a, Spec.Follow g A a → Fo A (some a)
  followE : ∀ A, Spec.FollowEnd g A → Fo A none
  /-- a production that belongs into a cell for the textbook reason is the cell's only entry -/
  pick : ∀ (p : GProd T N) (col : Option T), p ∈ g.prods → p.head ∈ g.nonterms → col ∈ columns g →
    ((∃ a, col = some a ∧ Spec.First g p.body a) ∨ (Spec.Eps g p.body ∧ Fo p.head col)) →
    M p.head col = [p]
  /-- a cell of a declared non-terminal is empty or holds one production, which is there for the textbook reason -/
  shape : ∀ (A : N) (col : Option T), A ∈ g.nonterms →
    M A col = [] ∨ ∃ p, M A col = [p] ∧ p ∈ g.prods ∧ p.head = A ∧ col ∈ columns g ∧
      ((∃ a, col = some a ∧ Spec.First g p.body a) ∨ (Spec.Eps g p.body ∧ Fo A col))

/-- stack symbols that can vanish -/
def Vanishes (g : Grammar T N) (X : Sym T N) : Prop := Derives g [X] []

/-- the rest of the stack does not begin with a symbol that can vanish -/
def Blocked (g : Grammar T N) (rest : List (Sym T N)) : Prop :=
  ∀ X ρ, rest = X :: ρ → ¬ Vanishes g X

theorem nullable_prefix (g : Grammar T N) (stack : List (Sym T N)) :
    ∃ π rest m, stack = π ++ rest ∧ DerivesN g m π [] ∧ Blocked g rest := by
  induction stack with
  | nil => exact ⟨[], [], 0, rfl, DerivesN.refl _, by intro X ρ h; cases h⟩
  | cons X σ ih =>
    by_cases hX : Vanishes g X
    · obtain ⟨π, rest, m, hs, hd, hb⟩ := ih
      obtain ⟨k, hk⟩ := Derives.toDerivesN hX
      refine ⟨X :: π, rest, k + m, by simp [hs], ?_, hb⟩
      have := DerivesN.append hk hd
      simpa using this
    · exact ⟨[], X :: σ, 0, rfl, DerivesN.refl _, by intro Y ρ h; cases h; exact hX⟩

section run
variable {g : Grammar T N} {M : N → Option T → List (GProd T N)} {Fo : N → Option T → Prop}

/-- the run from this configuration returns -/
def Halts (M : N → Option T → List (GProd T N)) (stack : List (Sym T N)) (input : List T) : Prop :=
  ∀ (pos : Nat) (evs : List (Event T N)), ∃ fuel r, parseLoop M fuel stack input pos evs = .ok r

theorem halts_expand {A : N} {σ : List (Sym T N)} {input : List T} {p : GProd T N}
    (hM : M A input.head? = [p]) (h : Halts M (p.body ++ σ) input) : Halts M (Sym.nonterm A :: σ) input := by
  intro pos evs
  obtain ⟨fuel, r, hr⟩ := h pos (Event.prod p :: evs)
  exact ⟨fuel + 1, r, by simp [parseLoop, hM, hr]⟩

theorem halts_noentry {A : N} {σ : List (Sym T N)} {input : List T}
    (hM : M A input.head? = []) : Halts M (Sym.nonterm A :: σ) input := by
  intro pos evs
  exact ⟨1, .reject .noEntry, by simp [parseLoop, hM]⟩

theorem halts_term {t : T} {σ : List (Sym T N)} {input : List T}
    (h : ∀ rest, input = t :: rest → Halts M σ rest) : Halts M (Sym.term t :: σ) input := by
  intro pos evs
  cases input with
  | nil => exact ⟨1, .reject .terminal, by simp [parseLoop]⟩
  | cons a rest =>
    by_cases hta : t = a
    · subst hta
      obtain ⟨fuel, r, hr⟩ := h rest rfl (pos + 1) (Event.tok t pos :: evs)
      exact ⟨fuel + 1, r, by simp [parseLoop, hr]⟩
    · exact ⟨1, .reject .terminal, by simp [parseLoop, hta]⟩

theorem halts_nil {input : List T} : Halts M ([] : List (Sym T N)) input := by
  intro pos evs
  cases input with
  | nil => exact ⟨1, .accept evs.reverse, by simp [parseLoop]⟩
  | cons a rest => exact ⟨1, .reject .trailing, by simp [parseLoop]⟩

/-- the sentential-form invariant of a run: consumed input followed by the stack derives from `S` -/
def Ctx (g : Grammar T N) (u : List T) (stack : List (Sym T N)) : Prop :=
  Derives g [Sym.nonterm g.start] (u.map Sym.term ++ stack)

theorem Ctx.declared (hv : validB g = true) {u : List T} {stack : List (Sym T N)} (h : Ctx g u stack) :
    ∀ s, s ∈ stack → symDeclared g s = true := by
  intro s hs
  refine derives_declared hv h ?_ s (by simp [hs])
  intro x hx; simp at hx; subst hx; simpa [symDeclared] using valid_start hv

theorem Ctx.expand {u : List T} {σ : List (Sym T N)} {p : GProd T N} (hp : p ∈ g.prods)
    (h : Ctx g u (Sym.nonterm p.head :: σ)) : Ctx g u (p.body ++ σ) := by
  unfold Ctx at h ⊢
  refine h.trans ?_
  have := Derives.single (Step.mk (g := g) (u.map Sym.term) σ p hp)
  simpa [List.append_assoc] using this

theorem Ctx.shift {u : List T} {σ : List (Sym T N)} {t : T} (h : Ctx g u (Sym.term t :: σ)) :
    Ctx g (u ++ [t]) σ := by
  unfold Ctx at h ⊢
  simpa [List.append_assoc] using h

/-- the stack can produce the lookahead: induct on the length of a derivation that does -/
theorem halts_first (hv : validB g = true) (hM : TableLL1 g M Fo) {a : T} {input' : List T}
    (hshort : ∀ (σ : List (Sym T N)) (u : List T), Ctx g u σ → Halts M σ input') :
    ∀ (n : Nat) (stack : List (Sym T N)) (u : List T) (β : List (Sym T N)),
      DerivesN g n stack (Sym.term a :: β) → Ctx g u stack → Halts M stack (a :: input') := by
  intro n
  induction n using Nat.strongRecOn with
  | _ n ihn =>
    intro stack u β hd hctx
    cases stack with
    | nil => have := hd.of_nil.1; simp at this
    | cons X σ =>
      cases X with
      | term t =>
        apply halts_term
        intro rest hr
        cases hr
        exact hshort σ (u ++ [a]) hctx.shift
      | nonterm A =>
        have hd' : DerivesN g n ([Sym.nonterm A] ++ σ) (Sym.term a :: β) := hd
        obtain ⟨n₁, n₂, γ₁, γ₂, hn, hγ, d₁, d₂⟩ := hd'.split
        cases n₁ with
        | zero =>
          have := d₁.zero_eq
          subst this
          simp at hγ
        | succ k =>
          obtain ⟨q, hq, hqA, dq⟩ := d₁.of_single
          subst hqA
          have hdecl := hctx.declared hv
          have hA : q.head ∈ g.nonterms := by
            have := hdecl (Sym.nonterm q.head) (by simp)
            simpa [symDeclared] using this
          -- the lookahead is a declared terminal
          have hfull : Derives g [Sym.nonterm g.start] (u.map Sym.term ++ (Sym.term a :: β)) :=
            hctx.trans (hd.toDerives.append_left _)
          have ha : a ∈ g.terms := by
            have := derives_declared hv hfull (by
              intro x hx; simp at hx; subst hx; simpa [symDeclared] using valid_start hv)
              (Sym.term a) (by simp)
            simpa [symDeclared] using this
          have hpick : M q.head (some a) = [q] := by
            apply hM.pick q _ hq hA (mem_columns_some ha)
            cases γ₁ with
            | cons c γ₁' =>
              simp at hγ
              left
              refine ⟨a, rfl, γ₁', ?_⟩
              have := dq.toDerives
              rwa [← hγ.1] at this
            | nil =>
              simp at hγ; subst hγ
              right
              refine ⟨dq.toDerives, hM.followT _ a ⟨u.map Sym.term, β, ?_⟩⟩
              have := hctx.trans ((d₂.toDerives.append_left [Sym.nonterm q.head]).append_left (u.map Sym.term))
              simpa [List.append_assoc, Ctx] using this
          apply halts_expand (p := q) (by simpa using hpick)
          have dnew : DerivesN g (k + n₂) (q.body ++ σ) (Sym.term a :: β) := by
            have := DerivesN.append dq d₂
            rw [hγ]; exact this
          exact ihn (k + n₂) (by omega) _ u β dnew (hctx.expand hq)

/-- the stack cannot produce the lookahead: only vanishing expansions happen, on the vanishing prefix -/
theorem halts_doomed (hv : validB g = true) (hM : TableLL1 g M Fo) {input : List T}
    (hshort : ∀ rest t, input = t :: rest → ∀ (σ : List (Sym T N)) (u : List T), Ctx g u σ → Halts M σ rest) :
    ∀ (m : Nat) (π rest : List (Sym T N)) (u : List T),
      DerivesN g m π [] → Blocked g rest →
      (∀ a, input.head? = some a → ¬ Spec.First g (π ++ rest) a) →
      Ctx g u (π ++ rest) → Halts M (π ++ rest) input := by
  intro m
  induction m using Nat.strongRecOn with
  | _ m ihm =>
    intro π rest u hd hblocked hdoom hctx
    have hdecl := hctx.declared hv
    -- what a cell entry for the top non-terminal means here
    have entry : ∀ (A : N) (σ : List (Sym T N)), π ++ rest = Sym.nonterm A :: σ → ∀ p, M A input.head? = [p] →
        p ∈ g.prods → p.head = A →
        ((∃ a, input.head? = some a ∧ Spec.First g p.body a) ∨ (Spec.Eps g p.body ∧ Fo A input.head?)) →
        (Spec.Eps g p.body ∧ Fo A input.head?) := by
      intro A σ hs p _ hp hpA hcase
      rcases hcase with ⟨a, hc, hf⟩ | he
      · exfalso
        apply hdoom a hc
        rw [hs]
        obtain ⟨β, hβ⟩ := hf
        refine ⟨β ++ σ, ?_⟩
        have h1 : Derives g ([Sym.nonterm A] ++ σ) (p.body ++ σ) := by
          have := Derives.single (Step.mk (g := g) [] σ p hp)
          simpa [hpA] using this
        have h2 := hβ.append_right σ
        simpa using h1.trans h2
      · exact he
    cases π with
    | nil =>
      simp only [List.nil_append] at hctx hdoom entry ⊢
      cases rest with
      | nil => exact halts_nil
      | cons X ρ =>
        cases X with
        | term t =>
          apply halts_term
          intro r hr
          exact hshort r t hr ρ (u ++ [t]) hctx.shift
        | nonterm B =>
          have hB : B ∈ g.nonterms := by
            have := hdecl (Sym.nonterm B) (by simp)
            simpa [symDeclared] using this
          rcases hM.shape B input.head? hB with h0 | ⟨p, hp1, hp2, hp3, _, hcase⟩
          · exact halts_noentry h0
          · exfalso
            have he := (entry B ρ rfl p hp1 hp2 hp3 hcase).1
            apply hblocked (Sym.nonterm B) ρ rfl
            have := (Derives.of_prod hp2).trans he
            rwa [hp3] at this
    | cons X π' =>
      have hd' : DerivesN g m ([X] ++ π') [] := hd
      obtain ⟨m₁, m₂, γ₁, γ₂, hm, hγ, d₁, d₂⟩ := hd'.split
      obtain ⟨h1, h2⟩ := List.append_eq_nil_iff.1 hγ.symm
      subst h1; subst h2
      cases X with
      | term t =>
        have := (DerivesN.of_terms (w := [t]) d₁).1
        simp at this
      | nonterm A =>
        cases m₁ with
        | zero => have := d₁.zero_eq; simp at this
        | succ k =>
          obtain ⟨q, hq, hqA, dq⟩ := d₁.of_single
          subst hqA
          have hA : q.head ∈ g.nonterms := by
            have := hdecl (Sym.nonterm q.head) (by simp)
            simpa [symDeclared] using this
          rcases hM.shape q.head input.head? hA with h0 | ⟨p, hp1, hp2, hp3, hcol, hcase⟩
          · exact halts_noentry (σ := π' ++ rest) h0
          · -- the entry is there because its body vanishes; so is `q`, hence `p = q`
            have he := entry q.head (π' ++ rest) (by simp) p hp1 hp2 hp3 hcase
            have hq' : M q.head input.head? = [q] :=
              hM.pick q _ hq hA hcol (Or.inr ⟨dq.toDerives, he.2⟩)
            have hpq : p = q := by
              rw [hp1] at hq'; simpa using hq'
            subst hpq
            apply halts_expand (σ := π' ++ rest) hp1
            have dnew : DerivesN g (k + m₂) (p.body ++ π') [] := by
              have := DerivesN.append dq d₂
              simpa using this
            have := ihm (k + m₂) (by omega) (p.body ++ π') rest u dnew hblocked ?_ ?_
            · simpa [List.append_assoc] using this
            · intro a hc hf
              apply hdoom a hc
              have := spec_first_unfold hp2 [] (π' ++ rest) (a := a) (by simpa [List.append_assoc] using hf)
              simpa using this
            · have := Ctx.expand (u := u) (σ := π' ++ rest) hp2 (by simpa using hctx)
              simpa [List.append_assoc] using this

/-- the loop returns from every configuration that a run can reach -/
theorem halts_all (hv : validB g = true) (hM : TableLL1 g M Fo) :
    ∀ (k : Nat) (input : List T), input.length = k → ∀ (stack : List (Sym T N)) (u : List T),
      Ctx g u stack → Halts M stack input := by
  intro k
  induction k using Nat.strongRecOn with
  | _ k ih =>
    intro input hlen stack u hctx
    by_cases hΦ : ∃ a, input.head? = some a ∧ Spec.First g stack a
    · obtain ⟨a, hc, β, hβ⟩ := hΦ
      cases input with
      | nil => simp at hc
      | cons b input' =>
        simp at hc; subst hc
        obtain ⟨n, hn⟩ := hβ.toDerivesN
        refine halts_first hv hM ?_ n stack u β hn hctx
        intro σ u' hc'
        exact ih input'.length (by simp at hlen; omega) input' rfl σ u' hc'
    · obtain ⟨π, rest, m, hs, hd, hb⟩ := nullable_prefix g stack
      subst hs
      refine halts_doomed hv hM ?_ m π rest u hd hb ?_ hctx
      · intro r t hr σ u' hc'
        subst hr
        exact ih r.length (by simp at hlen; omega) r rfl σ u' hc'
      · intro a hc hf
        exact hΦ ⟨a, hc, hf⟩

end run

/-- "column `col` is in the computed FOLLOW(A)" -/
def FoOf (fo : N → TEnd T) (A : N) : Option T → Prop
  | some a => a ∈ (fo A).terms
  | none => (fo A).endm = true

/-- the conflict-free table built from any fair run of FIRST/FOLLOW has all the properties used above -/
theorem cell_tableLL1 {g : Grammar T N} (hv : validB g = true) (hnd : g.prods.Nodup)
    {o₁ o₂ : IterOrder T N} (h₁ : o₁.Fair) (h₂ : o₂.Fair) {an : Analysis T N}
    (h : analyse g o₁ o₂ = .ok an) (hcf : conflicts g (firstStr an.first) an.follow = []) :
    TableLL1 g (cell g (firstStr an.first) an.follow) (FoOf an.follow) := by
  have hf := (analyse_ok h).1
  have hfo := (analyse_ok h).2
  have hfinv := computeFirst_inv hv h₁ hf
  have hfoinv : FollowInv g an.follow := computeFollow_inv hv h₂ (firstStr_declared hfinv) hfo
  -- cell membership in textbook terms
  have incell : ∀ (p : GProd T N) (col : Option T),
      InCellP (firstStr an.first) an.follow p col ↔
        ((∃ a, col = some a ∧ Spec.First g p.body a) ∨ (Spec.Eps g p.body ∧ FoOf an.follow p.head col)) := by
    intro p col
    cases col with
    | none =>
      simp only [InCellP, FoOf, first_exact_eps h₁ hf]
      constructor
      · intro hh; exact Or.inr hh
      · rintro (⟨a, ha, _⟩ | hh)
        · cases ha
        · exact hh
    | some a =>
      simp only [InCellP, FoOf, first_exact_eps h₁ hf, first_exact_terms h₁ hf]
      constructor
      · rintro (hh | hh)
        · exact Or.inl ⟨a, rfl, hh⟩
        · exact Or.inr hh
      · rintro (⟨b, hb, hh⟩ | hh)
        · cases hb; exact Or.inl hh
        · exact Or.inr hh
  refine ⟨?_, ?_, ?_, ?_⟩
  · intro A a ha; exact (follow_complete h₁ h₂ h A).1 a ha
  · intro A ha; exact (follow_complete h₁ h₂ h A).2 ha
  · intro p col hp hA hcol hcase
    exact cell_singleton hnd hcf hp hA hcol ((incell p col).2 hcase)
  · intro A col hA
    cases hc : cell g (firstStr an.first) an.follow A col with
    | nil => exact Or.inl rfl
    | cons x xs =>
      right
      have hx : x ∈ cell g (firstStr an.first) an.follow A col := by rw [hc]; simp
      obtain ⟨x1, x2, x3⟩ := mem_cell.1 hx
      -- the column is a declared one
      have hcol : col ∈ columns g := by
        cases col with
        | none => exact mem_columns_none
        | some a =>
          apply mem_columns_some
          rcases x3 with h3 | ⟨_, h3⟩
          · exact firstStr_declared hfinv _ (valid_prod hv x1).2 a h3
          · exact hfoinv _ a h3
      have hsing := cell_singleton hnd hcf x1 (x2 ▸ hA) hcol x3
      rw [x2, hc] at hsing
      refine ⟨x, hsing, x1, x2, hcol, ?_⟩
      have := (incell x col).1 x3
      rwa [x2] at this

/-- `Parse` returns on every token sequence -/
theorem parse_terminates {g : Grammar T N} (hv : validB g = true) (hnd : g.prods.Nodup)
    {o₁ o₂ : IterOrder T N} (h₁ : o₁.Fair) (h₂ : o₂.Fair) {an : Analysis T N}
    (h : analyse g o₁ o₂ = .ok an) (hcf : conflicts g (firstStr an.first) an.follow = []) (w : List T) :
    ∃ fuel r, parseLoop (cell g (firstStr an.first) an.follow) fuel [Sym.nonterm g.start] w 0 [] = .ok r := by
  have hM := cell_tableLL1 hv hnd h₁ h₂ h hcf
  exact halts_all hv hM w.length w rfl [Sym.nonterm g.start] [] (by simpa [Ctx] using Derives.refl _) 0 []

end AlgoVerif.C10
