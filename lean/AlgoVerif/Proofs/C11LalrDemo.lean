import AlgoVerif.Proofs.C11LalrComplete
import AlgoVerif.Proofs.C11Demo
import AlgoVerif.Proofs.C11LalrNoPanic
/-!
# C11 — witnesses for the LALR(1) exactness theorem (kernel-evaluated on the Model)
-/
namespace AlgoVerif.C11.Lalr
open AlgoVerif AlgoVerif.Gram AlgoVerif.C11 AlgoVerif.C11.Spec AlgoVerif.C11.Built AlgoVerif.C11.BuiltComplete
  AlgoVerif.C11.Demo

/-- `S → B U | E | c B d | c E e`, `B → b y`, `E → b z`, `U → U c`: well formed, but `U` derives no terminal string -/
def gUnprod : SGrammar :=
  { terms := ["b", "c", "d", "e", "y", "z"], nonterms := ["S", "B", "E", "U"], start := "S",
    prods := [⟨"S", [.nonterm "B", .nonterm "U"]⟩, ⟨"S", [.nonterm "E"]⟩,
      ⟨"S", [.term "c", .nonterm "B", .term "d"]⟩, ⟨"S", [.term "c", .nonterm "E", .term "e"]⟩,
      ⟨"B", [.term "b", .term "y"]⟩, ⟨"E", [.term "b", .term "z"]⟩, ⟨"U", [.nonterm "U", .term "c"]⟩] }

set_option maxRecDepth 1000000 in
/-- why `C11_exact_lalr` asks for productive non-terminals: on `gUnprod` the LALR(1) table of the Model (= of the patched
Go code) has no conflict, yet its parser rejects the sentence `b z`, which the canonical LR(1) parser accepts.  (In state 0
the LR(0) item `B → •b y` has no LR(1) lookahead because FIRST(U) = ∅; the target of the shift of `b` from state 0 has
the core `{E → b•z}`, the only LALR state containing it has the core `{B → b•y, E → b•z}`, and `findSuperset` — which
since the D17 patch requires equal cores — returns ErrState.) -/
theorem unproductive_witness :
    (match build .lalr gUnprod 40 with | .ok b => chkConflictFree b.table | _ => false) = true ∧
    acceptsWith .lalr gUnprod ["b", "z"] = some false ∧ acceptsWith .lr1 gUnprod ["b", "z"] = some true := by
  decide

set_option maxRecDepth 1000000 in
theorem gLR_lalr_conflict_free :
    (match build .lalr gLR 60 with | .ok b => chkConflictFree b.table | _ => false) = true := by decide

theorem gLR_productive : Productive gLR := by
  have hL : Derives gLR [Sym.nonterm "L"] (["id"].map Sym.term) := by
    simpa using Derives.single (Step.mk (g := gLR) [] [] ⟨"L", [.term "id"]⟩ (by simp [gLR]))
  have hR : Derives gLR [Sym.nonterm "R"] (["id"].map Sym.term) := by
    refine Derives.trans ?_ hL
    simpa using Derives.single (Step.mk (g := gLR) [] [] ⟨"R", [.nonterm "L"]⟩ (by simp [gLR]))
  have hS : Derives gLR [Sym.nonterm "S"] (["id"].map Sym.term) := by
    refine Derives.trans ?_ hR
    simpa using Derives.single (Step.mk (g := gLR) [] [] ⟨"S", [.nonterm "R"]⟩ (by simp [gLR]))
  intro B hB
  simp only [gLR, List.mem_cons, List.not_mem_nil, or_false] at hB
  rcases hB with rfl | rfl | rfl
  · exact ⟨_, hS⟩
  · exact ⟨_, hL⟩
  · exact ⟨_, hR⟩

/-- `C11_exact_lalr` at work on the dragon-book grammar `S → L = R | R`, `L → * R | id`, `R → L` (LALR(1), not SLR(1)) -/
example (b : Built) (hb : build .lalr gLR 60 = .ok b) (w : List String) (hend : endmarker ∉ w) :
    Language gLR w ↔ ∃ fuel' π root, parse b.table.toTbl fuel' w = .ok (.accept π root) := by
  have hcf : chkConflictFree b.table = true := by
    have := gLR_lalr_conflict_free
    rw [hb] at this
    exact this
  exact C11_exact_lalr gLR (validG_sound (by decide)) (termsListed_sound (by decide)) gLR_productive 60 b hb hcf w hend

/-- `S → B U | a`, `B → b`, `U → U c`: well formed, `U` unproductive -/
def gUnprod2 : SGrammar :=
  { terms := ["a", "b", "c"], nonterms := ["S", "B", "U"], start := "S",
    prods := [⟨"S", [.nonterm "B", .nonterm "U"]⟩, ⟨"S", [.term "a"]⟩, ⟨"B", [.term "b"]⟩,
              ⟨"U", [.nonterm "U", .term "c"]⟩] }

set_option maxRecDepth 1000000 in
/-- why `np_buildLALR` asks for productive non-terminals: on `gUnprod2` the kernel item `B → b•` never receives a
lookahead (FIRST(U) = ∅), and `ComputeLALR1Kernels` dereferences the nil set — the Model's LALR builder panics, the SLR
builder does not -/
theorem unproductive_panic_witness :
    (match build .lalr gUnprod2 40 with | .panic => true | _ => false) = true ∧
    (match build .slr gUnprod2 40 with | .ok _ => true | _ => false) = true := by decide

end AlgoVerif.C11.Lalr
