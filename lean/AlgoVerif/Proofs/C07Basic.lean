import AlgoVerif.Model.C07
import AlgoVerif.Spec.C07
/-!
# C07 — shared lemmas: the `Outcome` monad, checked slice access, comparator facts,
index-style sortedness and its translation to `List.Pairwise`.
-/
namespace AlgoVerif.C07
open AlgoVerif

variable {α β : Type}

/-! ## Outcome monad -/

@[simp] theorem ok_bind (a : α) (f : α → Outcome β) : (Outcome.ok a >>= f) = f a := rfl
@[simp] theorem panic_bind (f : α → Outcome β) : (Outcome.panic >>= f) = Outcome.panic := rfl
@[simp] theorem diverge_bind (f : α → Outcome β) : (Outcome.diverge >>= f) = Outcome.diverge := rfl
@[simp] theorem pure_eq_ok (a : α) : (pure a : Outcome α) = Outcome.ok a := rfl

theorem bind_eq_ok {x : Outcome α} {f : α → Outcome β} {b : β} :
    (x >>= f) = .ok b ↔ ∃ a, x = .ok a ∧ f a = .ok b := by
  cases x <;> simp

@[simp] theorem map_ok (f : α → β) (a : α) : (Outcome.ok a).map f = .ok (f a) := rfl

/-! ## checked access -/

theorem get_ok {a : Array α} {i : Int} (h0 : 0 ≤ i) (h1 : i < a.size) :
    get a i = .ok (a[i.toNat]'(by omega)) := by
  simp [get, h0, h1]

theorem get_nat {a : Array α} {i : Nat} (h : i < a.size) : get a (i : Int) = .ok a[i] := by
  have : (i : Int) < a.size := by omega
  simp [get, this]

theorem set_ok {a : Array α} {i : Int} {v : α} (h0 : 0 ≤ i) (h1 : i < a.size) :
    set a i v = .ok (a.set i.toNat v (by omega)) := by
  simp [set, h0, h1]

theorem swap_ok {a : Array α} {i j : Int} (hi0 : 0 ≤ i) (hi1 : i < a.size) (hj0 : 0 ≤ j) (hj1 : j < a.size) :
    swap a i j = .ok (a.swap i.toNat j.toNat (by omega) (by omega)) := by
  simp [swap, hi0, hi1, hj0, hj1]

theorem get_eq_ok {a : Array α} {i : Int} {v : α} (h : get a i = .ok v) :
    ∃ (h0 : 0 ≤ i) (h1 : i < a.size), v = a[i.toNat]'(by omega) := by
  unfold get at h
  split at h
  · rename_i hh; exact ⟨hh.1, hh.2, by simpa using h.symm⟩
  · cases h

/-! ## comparator facts -/

namespace TotalPreorder
variable {cmp : α → α → Int} (tp : TotalPreorder cmp)
include tp

omit tp in
theorem le_of_lt {a b : α} (h : cmp a b < 0) : cmp a b ≤ 0 := by omega

/-- `¬ (a < b) → b ≤ a` -/
theorem le_of_not_lt {a b : α} (h : ¬ cmp a b < 0) : cmp b a ≤ 0 := by
  have := tp.flip a b
  omega

theorem le_of_ge {a b : α} (h : cmp a b ≥ 0) : cmp b a ≤ 0 := tp.le_of_not_lt (by omega)

theorem le_of_gt {a b : α} (h : cmp a b > 0) : cmp b a ≤ 0 := tp.le_of_not_lt (by omega)

theorem lt_flip {a b : α} (h : cmp a b < 0) : cmp b a > 0 := (tp.flip a b).1 h

theorem gt_flip {a b : α} (h : cmp a b > 0) : cmp b a < 0 := (tp.flip b a).2 h

theorem total (a b : α) : cmp a b ≤ 0 ∨ cmp b a ≤ 0 := by
  have := tp.flip a b
  omega

theorem refl (a : α) : cmp a a ≤ 0 := by
  have := tp.flip a a
  omega

theorem eq_flip {a b : α} (h : cmp a b = 0) : cmp b a = 0 := by
  have := tp.flip a b
  have := tp.flip b a
  omega

/-- `a < b → b ≤ c → a < c` -/
theorem lt_of_lt_of_le {a b c : α} (h1 : cmp a b < 0) (h2 : cmp b c ≤ 0) : cmp a c < 0 := by
  apply Classical.byContradiction
  intro h
  have hca : cmp c a ≤ 0 := tp.le_of_not_lt h
  have hba := tp.trans _ _ _ h2 hca
  have := tp.flip a b
  omega

/-- `a ≤ b → b < c → a < c` -/
theorem lt_of_le_of_lt {a b c : α} (h1 : cmp a b ≤ 0) (h2 : cmp b c < 0) : cmp a c < 0 := by
  apply Classical.byContradiction
  intro h
  have hca : cmp c a ≤ 0 := tp.le_of_not_lt h
  have hcb := tp.trans _ _ _ hca h1
  have := tp.flip b c
  omega

end TotalPreorder

/-! ## sortedness by indices -/

/-- `a[lo..hi)` is sorted (indices beyond `a.size` are ignored). -/
def SortedSeg (cmp : α → α → Int) (a : Array α) (lo hi : Nat) : Prop :=
  ∀ (p q : Nat), lo ≤ p → (hpq : p < q) → q < hi → (hq : q < a.size) → cmp (a[p]'(by omega)) a[q] ≤ 0

theorem sorted_of_sortedSeg {cmp : α → α → Int} {a : Array α} (h : SortedSeg cmp a 0 a.size) :
    Sorted cmp a.toList := by
  unfold Sorted
  rw [List.pairwise_iff_getElem]
  intro i j hi hj hij
  simp only [Array.length_toList] at hi hj
  simpa using h i j (Nat.zero_le _) hij hj hj

theorem sortedSeg_of_sorted {cmp : α → α → Int} {a : Array α} (h : Sorted cmp a.toList) :
    SortedSeg cmp a 0 a.size := by
  unfold Sorted at h
  rw [List.pairwise_iff_getElem] at h
  intro p q _ hpq _ hq
  have := h p q (by simpa using (by omega : p < a.size)) (by simpa using hq) hpq
  simpa [Array.getElem_toList] using this

/-- adjacent sortedness suffices -/
theorem sortedSeg_of_adjacent {cmp : α → α → Int} (tp : TotalPreorder cmp) {a : Array α} {lo hi : Nat}
    (hhi : hi ≤ a.size)
    (h : ∀ p, lo ≤ p → (hp : p + 1 < hi) → cmp (a[p]'(by omega)) (a[p+1]'(by omega)) ≤ 0) :
    SortedSeg cmp a lo hi := by
  intro p q hlo hpq hqhi hq
  induction q with
  | zero => omega
  | succ q ih =>
    by_cases hpq' : p = q
    · subst hpq'; exact h p hlo hqhi
    · have h1 := ih (by omega) (by omega) (by omega)
      have h2 := h q (by omega) hqhi
      exact tp.trans _ _ _ h1 h2

theorem isSortOf_of {cmp : α → α → Int} {out a : Array α} (hs : SortedSeg cmp out 0 out.size)
    (hp : out.Perm a) : IsSortOf cmp out a :=
  ⟨sorted_of_sortedSeg hs, Array.perm_iff_toList_perm.1 hp⟩

end AlgoVerif.C07
