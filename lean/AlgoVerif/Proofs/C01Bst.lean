import AlgoVerif.Proofs.C01Run
/-!
# C01: the BST mutators refine the abstract map
-/
namespace AlgoVerif.C01
open Tree

variable {K V : Type} {cmp : K → K → Int}

theorem bstPut_toList (h : LawfulCmp cmp) (key : K) (val : V) : ∀ {t : Tree K V}, Spec.Sorted cmp t.toList →
    (bstPut cmp t key val).toList = Spec.upsert cmp key val t.toList
  | .nil, _ => rfl
  | .node l k v s hh c r, hs => by
    obtain ⟨hsl, hsr, hl, hr, -⟩ := sorted_node.1 hs
    simp only [bstPut, toList_node]
    split
    · rename_i hlt
      rw [toList_node, bstPut_toList h key val hsl, upsert_append_lt _ _ hlt]
    · rename_i hnlt
      have hL := ge_left h hl hnlt
      split
      · rename_i hgt
        rw [toList_node, bstPut_toList h key val hsr, upsert_append_gt _ _ hL hgt]
      · rename_i hngt
        rw [toList_node, upsert_append_eq _ _ hL hnlt hngt]

theorem bstPut_sizeOK (key : K) (val : V) : ∀ {t : Tree K V}, SizeOK t → SizeOK (bstPut cmp t key val)
  | .nil, _ => by simp [bstPut, SizeOK]
  | .node l k v s hh c r, hs => by
    obtain ⟨h1, h2, h3⟩ := hs
    simp only [bstPut]
    split
    · exact ⟨rfl, bstPut_sizeOK key val h2, h3⟩
    · split
      · exact ⟨rfl, h2, bstPut_sizeOK key val h3⟩
      · exact ⟨rfl, h2, h3⟩

theorem bstDeleteMin_spec : ∀ (l : Tree K V) (k : K) (v : V) (h : Nat) (c : Bool) (r : Tree K V),
    l.toList ++ (k, v) :: r.toList = (bstDeleteMin l k v h c r).2 :: (bstDeleteMin l k v h c r).1.toList ∧
      (bstDeleteMin l k v h c r).2 = minOf l k v ∧
      (SizeOK l → SizeOK r → SizeOK (bstDeleteMin l k v h c r).1)
  | .nil, k, v, h, c, r => ⟨rfl, rfl, fun _ hr => hr⟩
  | .node ll lk lv ls lh lc lr, k, v, h, c, r => by
    obtain ⟨ih1, ih2, ih3⟩ := bstDeleteMin_spec ll lk lv lh lc lr
    simp only [bstDeleteMin, toList_node, minOf]
    refine ⟨?_, ih2, ?_⟩
    · rw [ih1]; rfl
    · intro hl hr
      exact ⟨rfl, ih3 hl.2.1 hl.2.2, hr⟩

theorem bstDeleteMax_spec : ∀ (r : Tree K V) (l : Tree K V) (k : K) (v : V) (h : Nat) (c : Bool),
    l.toList ++ (k, v) :: r.toList = (bstDeleteMax l k v h c r).1.toList ++ [(bstDeleteMax l k v h c r).2] ∧
      (bstDeleteMax l k v h c r).2 = maxOf r k v ∧
      (SizeOK l → SizeOK r → SizeOK (bstDeleteMax l k v h c r).1)
  | .nil, l, k, v, h, c => ⟨rfl, rfl, fun hl _ => hl⟩
  | .node rl rk rv rs rh rc rr, l, k, v, h, c => by
    obtain ⟨ih1, ih2, ih3⟩ := bstDeleteMax_spec rr rl rk rv rh rc
    simp only [bstDeleteMax, toList_node, maxOf]
    refine ⟨?_, ih2, ?_⟩
    · rw [ih1]; simp
    · intro hl hr
      exact ⟨rfl, hl, ih3 hr.2.1 hr.2.2⟩

theorem bstDelete_snd (key : K) : ∀ (t : Tree K V), (bstDelete cmp t key).2 = get cmp t key
  | .nil => rfl
  | .node l k v s hh c r => by
    simp only [bstDelete, get]
    split
    · exact bstDelete_snd key l
    · split
      · exact bstDelete_snd key r
      · cases l <;> cases r <;> rfl

theorem remove_node_lt (h : LawfulCmp cmp) {key k : K} {v : V} {L R : List (K × V)}
    (hr : ∀ y ∈ R, cmp k y.1 < 0) (hlt : cmp key k < 0) :
    Spec.remove cmp key (L ++ (k, v) :: R) = Spec.remove cmp key L ++ (k, v) :: R := by
  have hR := le_right h hr (by omega : ¬ 0 < cmp key k)
  have h1 : R.filter (fun p => cmp key p.1 != 0) = R :=
    List.filter_eq_self.2 (fun y hy => by have := hR y hy; simp; omega)
  have h2 : (cmp key k != 0) = true := by simp; omega
  simp only [Spec.remove, List.filter_append, List.filter_cons, h1, h2, if_true]

theorem remove_node_gt (h : LawfulCmp cmp) {key k : K} {v : V} {L R : List (K × V)}
    (hl : ∀ x ∈ L, cmp x.1 k < 0) (hgt : cmp key k > 0) :
    Spec.remove cmp key (L ++ (k, v) :: R) = L ++ (k, v) :: Spec.remove cmp key R := by
  have hL := ge_left h hl (by omega : ¬ cmp key k < 0)
  have h1 : L.filter (fun p => cmp key p.1 != 0) = L :=
    List.filter_eq_self.2 (fun y hy => by have := hL y hy; simp; omega)
  have h2 : (cmp key k != 0) = true := by simp; omega
  simp only [Spec.remove, List.filter_append, List.filter_cons, h1, h2, if_true]

theorem remove_node_eq (h : LawfulCmp cmp) {key k : K} {v : V} {L R : List (K × V)}
    (hl : ∀ x ∈ L, cmp x.1 k < 0) (hr : ∀ y ∈ R, cmp k y.1 < 0) (h1 : ¬ cmp key k < 0) (h2 : ¬ cmp key k > 0) :
    Spec.remove cmp key (L ++ (k, v) :: R) = L ++ R := by
  have hL := ge_left h hl h1
  have hR := le_right h hr h2
  have e1 : L.filter (fun p => cmp key p.1 != 0) = L :=
    List.filter_eq_self.2 (fun y hy => by have := hL y hy; simp; omega)
  have e2 : R.filter (fun p => cmp key p.1 != 0) = R :=
    List.filter_eq_self.2 (fun y hy => by have := hR y hy; simp; omega)
  have e3 : (cmp key k != 0) = false := by simp; omega
  simp [Spec.remove, List.filter_append, List.filter_cons, e1, e2, e3]

theorem bstDelete_toList (h : LawfulCmp cmp) (key : K) : ∀ {t : Tree K V}, Spec.Sorted cmp t.toList →
    (bstDelete cmp t key).1.toList = Spec.remove cmp key t.toList
  | .nil, _ => rfl
  | .node l k v s hh c r, hs => by
    obtain ⟨hsl, hsr, hl, hr, -⟩ := sorted_node.1 hs
    simp only [bstDelete, toList_node]
    split
    · rename_i hlt
      rw [toList_node, bstDelete_toList h key hsl, remove_node_lt h hr hlt]
    · rename_i hnlt
      split
      · rename_i hgt
        rw [toList_node, bstDelete_toList h key hsr, remove_node_gt h hl hgt]
      · rename_i hngt
        rw [remove_node_eq h hl hr hnlt hngt]
        cases l with
        | nil => simp
        | node ll lk lv ls lh lc lr =>
          cases r with
          | nil => simp
          | node rl rk rv rs rh rc rr =>
            obtain ⟨e1, e2, -⟩ := bstDeleteMin_spec rl rk rv rh rc rr
            simp only [toList_node]
            rw [← e2, e1]

theorem bstDelete_sizeOK (key : K) : ∀ {t : Tree K V}, SizeOK t → SizeOK (bstDelete cmp t key).1
  | .nil, _ => trivial
  | .node l k v s hh c r, hs => by
    obtain ⟨h1, h2, h3⟩ := hs
    simp only [bstDelete]
    split
    · exact ⟨rfl, bstDelete_sizeOK key h2, h3⟩
    · split
      · exact ⟨rfl, h2, bstDelete_sizeOK key h3⟩
      · cases l with
        | nil => exact h3
        | node ll lk lv ls lh lc lr =>
          cases r with
          | nil => exact h2
          | node rl rk rv rs rh rc rr =>
            exact ⟨rfl, h2, (bstDeleteMin_spec rl rk rv rh rc rr).2.2 h3.2.1 h3.2.2⟩

theorem bst_kindOK (h : LawfulCmp cmp) : KindOK (K := K) (V := V) .bst cmp (Inv cmp) where
  good_nil := inv_nil
  inv := fun _ ht => ht
  put := fun t k v ht =>
    ⟨bstPut cmp t k v, rfl,
      ⟨by rw [bstPut_toList h k v ht.1]; exact sorted_upsert h k v ht.1, bstPut_sizeOK k v ht.2⟩,
      bstPut_toList h k v ht.1⟩
  delete := fun t k ht => by
    refine ⟨(bstDelete cmp t k).1, ?_, ⟨?_, bstDelete_sizeOK k ht.2⟩, bstDelete_toList h k ht.1⟩
    · simp only [delete]
      rw [← get_eq h k ht.1, ← bstDelete_snd]
    · rw [bstDelete_toList h k ht.1]; exact Sorted.filter _ ht.1
  deleteMin := fun t ht => by
    cases t with
    | nil => exact ⟨.nil, rfl, inv_nil, rfl⟩
    | node l k v s hh c r =>
      obtain ⟨e1, -, e3⟩ := bstDeleteMin_spec l k v hh c r
      refine ⟨(bstDeleteMin l k v hh c r).1, ?_, ⟨?_, e3 ht.2.2.1 ht.2.2.2⟩, ?_⟩
      · simp only [deleteMin, Spec.first, toList_node, e1, List.head?_cons]
      · have := Sorted.tail ht.1
        rw [toList_node, e1] at this
        exact this
      · rw [toList_node, e1]; rfl
  deleteMax := fun t ht => by
    cases t with
    | nil => exact ⟨.nil, rfl, inv_nil, rfl⟩
    | node l k v s hh c r =>
      obtain ⟨e1, -, e3⟩ := bstDeleteMax_spec r l k v hh c
      refine ⟨(bstDeleteMax l k v hh c r).1, ?_, ⟨?_, e3 ht.2.2.1 ht.2.2.2⟩, ?_⟩
      · simp only [deleteMax, Spec.last, toList_node, e1, List.getLast?_concat]
      · have := Sorted.dropLast ht.1
        rw [toList_node, e1, List.dropLast_concat] at this
        exact this
      · rw [toList_node, e1, List.dropLast_concat]

end AlgoVerif.C01
