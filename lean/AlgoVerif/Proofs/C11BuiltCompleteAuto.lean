import AlgoVerif.Proofs.C11Valid
/-!
# C11 — the fixpoints of CLOSURE and of the canonical collection (complete-item-set automaton: SLR and canonical LR(1))

* `closure` returns `.ok K` only when a pass over `K` found nothing new: `K` is closed under `closureCands`
  (`closure_closed`), contains its argument, and is the *least* such set (`closure_least`) — hence CLOSURE and GOTO
  respect set equality (`closure_congr`, `goto_congr`);
* `canonicalLoop` returns `.ok C` only when `canonicalNew` found nothing new: every non-empty `GOTO(I, X)`, `I ∈ C`,
  `X` a symbol of the grammar, is (set-equal to) a member of `C` (`canonical_complete`);
* every member of the collection is a closed set whose items all satisfy any property that is preserved by moving the
  dot and by `closureCands` (`canonical_all`): all items are LR(1) items / all are LR(0) items;
* after `BuildStateMap` (sorting) all this holds for the numbered states, and `FindItemSet(GOTO(Iᵢ, X))` succeeds for
  every symbol `X` after a dot of an item of state `i`, in a state that holds the advanced item (`statesComplete`).
-/
namespace AlgoVerif.C11.BuiltComplete
open AlgoVerif AlgoVerif.Gram AlgoVerif.C11 AlgoVerif.C11.Spec AlgoVerif.C11.Built

/-! ## CLOSURE -/

/-- `J` is closed under the CLOSURE rule -/
def ClosedSet (g : SGrammar) (nl : List String) (fe : Env) (J : List Item) : Prop :=
  ∀ i ∈ J, ∀ j ∈ closureCands g nl fe i, j ∈ J

theorem closedSet_congr {g : SGrammar} {nl : List String} {fe : Env} {J K : List Item} (h : ∀ x, x ∈ J ↔ x ∈ K)
    (hJ : ClosedSet g nl fe J) : ClosedSet g nl fe K :=
  fun i hi j hj => (h j).mp (hJ i ((h i).mpr hi) j hj)

theorem foldl_addFresh_nil (J : List Item) : ∀ (l acc : List Item),
    l.foldl (addFresh J) acc = [] → acc = [] ∧ ∀ j ∈ l, j ∈ J
  | [], acc, h => ⟨by simpa using h, by simp⟩
  | x :: l, acc, h => by
    simp only [List.foldl_cons] at h
    obtain ⟨h1, h2⟩ := foldl_addFresh_nil J l _ h
    unfold addFresh at h1
    split at h1
    · rename_i hx
      subst h1
      refine ⟨rfl, ?_⟩
      intro j hj
      rcases List.mem_cons.mp hj with rfl | hj'
      · rcases hx with hx | hx
        · exact hx
        · simp at hx
      · exact h2 j hj'
    · simp at h1

theorem closureNew_nil {g : SGrammar} {nl : List String} {fe : Env} {J : List Item} (h : closureNew g nl fe J = []) :
    ClosedSet g nl fe J := by
  unfold closureNew at h
  obtain ⟨_, h2⟩ := foldl_addFresh_nil J _ [] h
  intro i hi j hj
  exact h2 j (List.mem_flatMap.mpr ⟨i, hi, hj⟩)

theorem closureNew_sub {g : SGrammar} {nl : List String} {fe : Env} {J : List Item} {j : Item}
    (hj : j ∈ closureNew g nl fe J) : ∃ i ∈ J, j ∈ closureCands g nl fe i := by
  unfold closureNew at hj
  rcases foldl_addFresh_mem J _ [] j hj with h1 | h1
  · simp at h1
  · exact List.mem_flatMap.mp h1

/-- the result of CLOSURE: a closed superset of the argument, contained in every closed superset of the argument -/
theorem closure_fix (g : SGrammar) (nl : List String) (fe : Env) : ∀ (fuel : Nat) (J K : List Item),
    closure g nl fe fuel J = Outcome.ok K →
      ClosedSet g nl fe K ∧ (∀ i ∈ J, i ∈ K) ∧
        ∀ M : List Item, (∀ i ∈ J, i ∈ M) → ClosedSet g nl fe M → ∀ i ∈ K, i ∈ M
  | 0, J, K, hc => by simp [closure] at hc
  | fuel + 1, J, K, hc => by
    unfold closure at hc
    split at hc
    · rename_i hnew
      simp only [Outcome.ok.injEq] at hc
      subst hc
      exact ⟨closureNew_nil hnew, fun i hi => hi, fun M hM _ i hi => hM i hi⟩
    · obtain ⟨h1, h2, h3⟩ := closure_fix g nl fe fuel _ K hc
      refine ⟨h1, fun i hi => h2 i (List.mem_append_left _ hi), ?_⟩
      intro M hJM hM
      apply h3 M _ hM
      intro i hi
      rcases List.mem_append.mp hi with h4 | h4
      · exact hJM i h4
      · obtain ⟨i0, hi0, hj⟩ := closureNew_sub h4
        exact hM i0 (hJM i0 hi0) i hj

theorem closure_congr {g : SGrammar} {nl : List String} {fe : Env} {f1 f2 : Nat} {J1 J2 K1 K2 : List Item}
    (h1 : closure g nl fe f1 J1 = Outcome.ok K1) (h2 : closure g nl fe f2 J2 = Outcome.ok K2)
    (hJ : ∀ x, x ∈ J1 ↔ x ∈ J2) : ∀ x, x ∈ K1 ↔ x ∈ K2 := by
  obtain ⟨c1, s1, l1⟩ := closure_fix g nl fe f1 J1 K1 h1
  obtain ⟨c2, s2, l2⟩ := closure_fix g nl fe f2 J2 K2 h2
  intro x
  constructor
  · exact l1 K2 (fun i hi => s2 i ((hJ i).mp hi)) c2 x
  · exact l2 K1 (fun i hi => s1 i ((hJ i).mpr hi)) c1 x

/-- a property of items that moving the dot and the CLOSURE rule preserve -/
structure ItemProp (g : SGrammar) (nl : List String) (fe : Env) (Q : Item → Prop) : Prop where
  next : ∀ i, Q i → Q i.next
  cands : ∀ i, Q i → ∀ j ∈ closureCands g nl fe i, Q j

theorem closure_all {g : SGrammar} {nl : List String} {fe : Env} {Q : Item → Prop} (hQ : ItemProp g nl fe Q) :
    ∀ (fuel : Nat) (J K : List Item), closure g nl fe fuel J = Outcome.ok K → (∀ i ∈ J, Q i) → ∀ i ∈ K, Q i
  | 0, J, K, hc, _ => by simp [closure] at hc
  | fuel + 1, J, K, hc, hJ => by
    unfold closure at hc
    split at hc
    · simp only [Outcome.ok.injEq] at hc
      subst hc
      exact hJ
    · apply closure_all hQ fuel _ K hc
      intro i hi
      rcases List.mem_append.mp hi with h4 | h4
      · exact hJ i h4
      · obtain ⟨i0, hi0, hj⟩ := closureNew_sub h4
        exact hQ.cands i0 (hJ i0 hi0) i hj

/-- LR(1) items stay LR(1) items -/
theorem itemProp_some (g : SGrammar) (nl : List String) (fe : Env) :
    ItemProp g nl fe (fun it => it.la.isSome = true) := by
  refine ⟨fun i hi => hi, ?_⟩
  intro i hi j hj
  unfold closureCands at hj
  split at hj
  · rw [List.mem_flatMap] at hj
    obtain ⟨p, _, hj⟩ := hj
    split at hj
    · rename_i hla; rw [hla] at hi; simp at hi
    · rw [List.mem_map] at hj
      obtain ⟨b, _, rfl⟩ := hj
      rfl
  · simp at hj

/-- LR(0) items stay LR(0) items -/
theorem itemProp_none (g : SGrammar) (nl : List String) (fe : Env) :
    ItemProp g nl fe (fun it => it.la = none) := by
  refine ⟨fun i hi => hi, ?_⟩
  intro i hi j hj
  unfold closureCands at hj
  split at hj
  · rw [List.mem_flatMap] at hj
    obtain ⟨p, _, hj⟩ := hj
    split at hj
    · simp at hj; subst hj; rfl
    · rename_i a hla; rw [hla] at hi; simp at hi
  · simp at hj

/-! ## GOTO -/

theorem advance_congr {I I' : List Item} (h : ∀ x, x ∈ I ↔ x ∈ I') (X : Sy) :
    ∀ x, x ∈ advance I X ↔ x ∈ advance I' X := by
  intro x
  rw [mem_advance, mem_advance]
  constructor
  · rintro ⟨i, hi, h2⟩; exact ⟨i, (h i).mp hi, h2⟩
  · rintro ⟨i, hi, h2⟩; exact ⟨i, (h i).mpr hi, h2⟩

/-- what a set of the collection / a state satisfies -/
def SetOK (A : Auto) (Q : Item → Prop) (I : List Item) : Prop :=
  ClosedSet A.g A.nl A.fe I ∧ ∀ it ∈ I, Q it

theorem setOK_congr {A : Auto} {Q : Item → Prop} {I K : List Item} (h : ∀ x, x ∈ I ↔ x ∈ K) (hI : SetOK A Q I) :
    SetOK A Q K :=
  ⟨closedSet_congr h hI.1, fun it hit => hI.2 it ((h it).mpr hit)⟩

section
variable {A : Auto} (hAk : A.kernel = false)
include hAk

theorem goto_eq (I : List Item) (X : Sy) : A.goto I X = closure A.g A.nl A.fe A.fuel (advance I X) := by
  unfold Auto.goto Auto.closure
  simp [hAk]

theorem goto_congr {I I' J J' : List Item} {X : Sy} (h : ∀ x, x ∈ I ↔ x ∈ I')
    (h1 : A.goto I X = Outcome.ok J) (h2 : A.goto I' X = Outcome.ok J') : ∀ x, x ∈ J ↔ x ∈ J' := by
  rw [goto_eq hAk] at h1 h2
  exact closure_congr h1 h2 (advance_congr h X)

theorem goto_next {I J : List Item} {X : Sy} {it : Item} (h1 : A.goto I X = Outcome.ok J) (hit : it ∈ I)
    (hd : it.dotSym = some X) : it.next ∈ J := by
  rw [goto_eq hAk] at h1
  exact (closure_fix _ _ _ _ _ _ h1).2.1 _ (mem_advance.mpr ⟨it, hit, hd, rfl⟩)

theorem goto_setOK {Q : Item → Prop} (hQ : ItemProp A.g A.nl A.fe Q) {I J : List Item} {X : Sy}
    (hI : SetOK A Q I) (h1 : A.goto I X = Outcome.ok J) : SetOK A Q J := by
  rw [goto_eq hAk] at h1
  refine ⟨(closure_fix _ _ _ _ _ _ h1).1, closure_all hQ _ _ _ h1 ?_⟩
  intro i hi
  obtain ⟨i0, hi0, _, rfl⟩ := mem_advance.mp hi
  exact hQ.next i0 (hI.2 i0 hi0)

end

/-! ## the canonical collection -/

theorem containsSet_iff {C : List (List Item)} {J : List Item} :
    containsSet C J = true ↔ ∃ K ∈ C, ∀ x, x ∈ K ↔ x ∈ J := by
  unfold containsSet
  rw [List.any_eq_true]
  constructor
  · rintro ⟨K, hK, hs⟩; exact ⟨K, hK, sameSet_iff.mp hs⟩
  · rintro ⟨K, hK, hs⟩; exact ⟨K, hK, sameSet_iff.mpr hs⟩

/-- `C` is closed under GOTO for the symbols `syms`, from the sets `C0` -/
def GotoClosed (A : Auto) (syms : List Sy) (C0 C : List (List Item)) : Prop :=
  ∀ I ∈ C0, ∀ X ∈ syms, ∃ J, A.goto I X = Outcome.ok J ∧ (J = [] ∨ ∃ K ∈ C, ∀ x, x ∈ K ↔ x ∈ J)

theorem canonInner_nil (A : Auto) (C : List (List Item)) (I : List Item) : ∀ (syms : List Sy) (acc acc' : List (List Item)),
    syms.foldlM (fun acc X => do
      let J ← A.goto I X
      if J.isEmpty || containsSet C J || containsSet acc J then pure acc else pure (acc ++ [J])) acc = Outcome.ok acc' →
    acc' = [] → acc = [] ∧ GotoClosed A syms [I] C
  | [], acc, acc', h, hn => by
    have : acc = acc' := by simpa [List.foldlM, pure] using h
    exact ⟨this ▸ hn, by intro I' _ X hX; simp at hX⟩
  | X :: syms, acc, acc', h, hn => by
    rw [List.foldlM_cons] at h
    obtain ⟨acc1, hstep, hrest⟩ := bind_eq_ok h
    obtain ⟨h1, h2⟩ := canonInner_nil A C I syms acc1 acc' hrest hn
    obtain ⟨J, hJ, hif⟩ := bind_eq_ok hstep
    split at hif
    · rename_i hcond
      have hacc : acc = acc1 := pure_eq_ok hif
      rw [h1] at hacc
      refine ⟨hacc, ?_⟩
      intro I' hI' Y hY
      rcases List.mem_cons.mp hY with rfl | hY'
      · simp only [List.mem_singleton] at hI'
        subst hI'
        refine ⟨J, hJ, ?_⟩
        rw [hacc] at hcond
        simp only [Bool.or_eq_true, List.isEmpty_iff] at hcond
        rcases hcond with (hc | hc) | hc
        · exact Or.inl hc
        · exact Or.inr (containsSet_iff.mp hc)
        · simp [containsSet] at hc
      · exact h2 I' hI' Y hY'
    · have : acc ++ [J] = acc1 := pure_eq_ok hif
      rw [h1] at this
      simp at this

theorem canonOuter_nil (A : Auto) (C : List (List Item)) : ∀ (C0 acc acc' : List (List Item)),
    C0.foldlM (fun acc I =>
      (allSymbols A.g).foldlM (fun acc X => do
        let J ← A.goto I X
        if J.isEmpty || containsSet C J || containsSet acc J then pure acc else pure (acc ++ [J])) acc) acc
      = Outcome.ok acc' →
    acc' = [] → acc = [] ∧ GotoClosed A (allSymbols A.g) C0 C
  | [], acc, acc', h, hn => by
    have : acc = acc' := by simpa [List.foldlM, pure] using h
    exact ⟨this ▸ hn, by intro I' hI'; simp at hI'⟩
  | I :: C0, acc, acc', h, hn => by
    rw [List.foldlM_cons] at h
    obtain ⟨acc1, hstep, hrest⟩ := bind_eq_ok h
    obtain ⟨h1, h2⟩ := canonOuter_nil A C C0 acc1 acc' hrest hn
    obtain ⟨h3, h4⟩ := canonInner_nil A C I _ acc acc1 hstep h1
    refine ⟨h3, ?_⟩
    intro I' hI'
    rcases List.mem_cons.mp hI' with rfl | hI''
    · exact h4 I' (by simp)
    · exact h2 I' hI''

theorem canonicalNew_nil {A : Auto} {C : List (List Item)} (h : canonicalNew A C = Outcome.ok []) :
    GotoClosed A (allSymbols A.g) C C := by
  unfold canonicalNew at h
  exact (canonOuter_nil A C C [] [] h rfl).2

theorem canonicalLoop_complete {A : Auto} : ∀ (fuel : Nat) (C C' : List (List Item)),
    canonicalLoop A fuel C = Outcome.ok C' → GotoClosed A (allSymbols A.g) C' C'
  | 0, _, _, hc => by simp [canonicalLoop] at hc
  | fuel + 1, C, C', hc => by
    unfold canonicalLoop at hc
    obtain ⟨new, hnew, hrest⟩ := bind_eq_ok hc
    split at hrest
    · rename_i hemp
      have : new = [] := by simpa using hemp
      subst this
      rw [← pure_eq_ok hrest]
      exact canonicalNew_nil hnew
    · exact canonicalLoop_complete fuel _ C' hrest

/-- every set that `canonicalNew` finds satisfies what GOTO preserves -/
theorem canonicalNew_all {A : Auto} (P : List Item → Prop)
    (hgo : ∀ I J X, P I → A.goto I X = Outcome.ok J → P J) {C new : List (List Item)} (hC : ∀ I ∈ C, P I)
    (hn : canonicalNew A C = Outcome.ok new) : ∀ J ∈ new, P J := by
  unfold canonicalNew at hn
  refine foldlM_inv _ (fun acc => ∀ J ∈ acc, P J) C [] new ?_ (by simp) hn
  intro acc I acc' hI hacc hstep
  refine foldlM_inv _ (fun acc => ∀ J ∈ acc, P J) _ acc acc' ?_ hacc hstep
  intro b X b' _ hb hstep'
  obtain ⟨J, hJ, hrest⟩ := bind_eq_ok hstep'
  split at hrest
  · rw [← pure_eq_ok hrest]; exact hb
  · rw [← pure_eq_ok hrest]
    intro J' hJ'
    rcases List.mem_append.mp hJ' with h1 | h1
    · exact hb J' h1
    · simp at h1
      subst h1
      exact hgo _ _ _ (hC I hI) hJ

theorem canonicalLoop_all {A : Auto} (P : List Item → Prop)
    (hgo : ∀ I J X, P I → A.goto I X = Outcome.ok J → P J) : ∀ (fuel : Nat) (C C' : List (List Item)),
    (∀ I ∈ C, P I) → canonicalLoop A fuel C = Outcome.ok C' → ∀ I ∈ C', P I
  | 0, _, _, _, hc => by simp [canonicalLoop] at hc
  | fuel + 1, C, C', hC, hc => by
    unfold canonicalLoop at hc
    obtain ⟨new, hnew, hrest⟩ := bind_eq_ok hc
    split at hrest
    · rw [← pure_eq_ok hrest]; exact hC
    · apply canonicalLoop_all P hgo fuel (C ++ new) C' _ hrest
      intro I hI
      rcases List.mem_append.mp hI with h1 | h1
      · exact hC I h1
      · exact canonicalNew_all P hgo hC hnew I h1

/-- the collection the automaton returns: closed sets of `Q`-items, closed under GOTO -/
theorem canonical_complete {A : Auto} (hAk : A.kernel = false) {Q : Item → Prop} (hQ : ItemProp A.g A.nl A.fe Q)
    (hinit : Q A.initialItem) {C : List (List Item)} (hc : A.canonical = Outcome.ok C) :
    (∀ I ∈ C, SetOK A Q I) ∧ GotoClosed A (allSymbols A.g) C C := by
  unfold Auto.canonical at hc
  obtain ⟨I0, hI0, hrest⟩ := bind_eq_ok hc
  simp only [hAk, Bool.false_eq_true, if_false] at hI0
  unfold Auto.closure at hI0
  refine ⟨?_, canonicalLoop_complete _ _ _ hrest⟩
  apply canonicalLoop_all (SetOK A Q) (fun I J X hI hg => goto_setOK hAk hQ hI hg) _ _ _ _ hrest
  intro I hI
  simp only [List.mem_singleton] at hI
  subst hI
  exact ⟨(closure_fix _ _ _ _ _ _ hI0).1, closure_all hQ _ _ _ hI0 (by
    intro i hi; simp only [List.mem_singleton] at hi; subst hi; exact hinit)⟩

/-! ## the numbered states -/

theorem mem_buildStateMap {start : String} {C : List (List Item)} {K : List Item} :
    K ∈ buildStateMap start C ↔ ∃ I ∈ C, K = sortBy (cmpItem start) I := by
  unfold buildStateMap
  rw [mem_sortBy, List.mem_map]
  constructor
  · rintro ⟨I, hI, rfl⟩; exact ⟨I, hI, rfl⟩
  · rintro ⟨I, hI, rfl⟩; exact ⟨I, hI, rfl⟩

theorem findItemSet_found {S : StateMap} {J K : List Item} (hK : K ∈ S) (hs : ∀ x, x ∈ K ↔ x ∈ J) :
    ∃ (n : Nat) (K' : List Item), findItemSet S J = (n : Int) ∧ S[n]? = some K' ∧ ∀ x, x ∈ K' ↔ x ∈ J := by
  rcases findItemSet_spec S J with hneg | h
  · exfalso
    unfold findItemSet at hneg
    cases hf : S.findIdx? (fun K => sameSet K J) with
    | none =>
      rw [List.findIdx?_eq_none_iff] at hf
      have := hf K hK
      rw [sameSet_iff.mpr hs] at this
      simp at this
    | some n =>
      rw [hf] at hneg
      simp only at hneg
      omega
  · exact h

/-- what the table fill needs to know about the state map -/
structure StatesComplete (A : Auto) (Q : Item → Prop) (S : StateMap) : Prop where
  setOK : ∀ K ∈ S, SetOK A Q K
  found : ∀ K ∈ S, ∀ it ∈ K, ∀ X, it.dotSym = some X → X ∈ allSymbols A.g → ∀ J, A.goto K X = Outcome.ok J →
    ∃ (n : Nat) (K' : List Item), findItemSet S J = (n : Int) ∧ S[n]? = some K' ∧ it.next ∈ K'

theorem statesComplete {A : Auto} (hAk : A.kernel = false) {Q : Item → Prop} (hQ : ItemProp A.g A.nl A.fe Q)
    (hinit : Q A.initialItem) {C : List (List Item)} (hc : A.canonical = Outcome.ok C) (start : String) :
    StatesComplete A Q (buildStateMap start C) := by
  obtain ⟨hsets, hgoto⟩ := canonical_complete hAk hQ hinit hc
  constructor
  · intro K hK
    obtain ⟨I, hI, rfl⟩ := mem_buildStateMap.mp hK
    exact setOK_congr (fun x => (mem_sortBy _ I x).symm) (hsets I hI)
  · intro K hK it hit X hd hX J hJ
    obtain ⟨I, hI, rfl⟩ := mem_buildStateMap.mp hK
    obtain ⟨J', hJ', hor⟩ := hgoto I hI X hX
    have hJJ : ∀ x, x ∈ J ↔ x ∈ J' := goto_congr hAk (fun x => mem_sortBy _ I x) hJ hJ'
    have hnext : it.next ∈ J := goto_next hAk hJ hit hd
    rcases hor with hemp | ⟨K1, hK1, hs1⟩
    · exfalso
      have := (hJJ _).mp hnext
      rw [hemp] at this
      simp at this
    · have hmem : sortBy (cmpItem start) K1 ∈ buildStateMap start C := mem_buildStateMap.mpr ⟨K1, hK1, rfl⟩
      obtain ⟨n, K', hn, hK', hs'⟩ := findItemSet_found (J := J) hmem (fun x => by
        rw [mem_sortBy, hs1 x]; exact (hJJ x).symm)
      exact ⟨n, K', hn, hK', (hs' _).mpr hnext⟩

end AlgoVerif.C11.BuiltComplete
