import AlgoVerif.Proofs.C08Cnf
import AlgoVerif.Proofs.C09Valid
/-!
# The result of `ChomskyNormalForm` is in Chomsky normal form (C09)
-/
namespace AlgoVerif.C08
open AlgoVerif AlgoVerif.Gram AlgoVerif.C08.Spec AlgoVerif.C09.Spec

/-- the start symbol occurs in no body -/
def StartFree (g : G) : Prop := ∀ q ∈ g.prods, Sym.nonterm g.start ∉ q.body

def AllNT (b : List SSym) : Prop := ∀ s ∈ b, isNT s = true

/-- bodies of length ≤ 2 that are a single terminal or consist of non-terminals -/
def BinShape (g : G) : Prop := ∀ p ∈ g.prods, p.body.length ≤ 2 ∧ (isTerminalProd p = true ∨ AllNT p.body)

def TermShape (g : G) : Prop := ∀ p ∈ g.prods, isTerminalProd p = true ∨ AllNT p.body

/-! ## START -/

theorem cnfStart_startFree {g g' : G} (h : cnfStart g = .ok g') (hw : WellFormed g) : StartFree g' := by
  unfold cnfStart at h
  split at h
  · cases hn : addNew g g.start primes with
    | ok r =>
      obtain ⟨g1, s'⟩ := r
      simp only [hn, bind, Outcome.bind, pure] at h
      cases h
      obtain ⟨hf, rfl⟩ := addNew_ok hn
      intro q hq
      rcases mem_ins.mp hq with hq | rfl
      · exact (WellFormed.fresh_not_in hw hf q hq).2
      · simp
        exact fun e => hf (e ▸ hw.1)
    | panic => simp [hn, bind, Outcome.bind] at h
    | diverge => simp [hn, bind, Outcome.bind] at h
  · rename_i hany
    cases h
    intro q hq hm
    apply hany
    exact List.any_eq_true.mpr ⟨q, hq, by simpa using hm⟩

/-! ## TERM -/

theorem cnfTerm_shape {g g' : G} (h : cnfTerm g = .ok g') (hw : WellFormed g) (hsf : StartFree g) :
    TermShape g' ∧ StartFree g' := by
  obtain ⟨store, hc, _⟩ := cnfTerm_spec h
  have hst : g'.start = g.start := hc.start
  constructor
  · intro p' hp'
    rcases hc.prods p' hp' with ⟨_, ht⟩ | ⟨e, _, rfl⟩ | ⟨p, _, _, rfl, hal⟩
    · exact Or.inl ht
    · exact Or.inl rfl
    · right
      intro s hs
      obtain ⟨m, rfl, _⟩ := mem_map_replS hal hs
      rfl
  · intro p' hp' hm
    rw [hst] at hm
    rcases hc.prods p' hp' with ⟨hpg, _⟩ | ⟨e, _, rfl⟩ | ⟨p, hp, _, rfl, hal⟩
    · exact hsf p' hpg hm
    · simp at hm
    · obtain ⟨m, hm1, hm2⟩ := mem_map_replS hal hm
      cases hm1
      rcases hm2 with hm2 | ⟨t, _, hl⟩
      · exact hsf p hp hm2
      · exact hc.freshg _ (store_lookup_mem hl) hw.1

/-! ## BIN -/

theorem cnfBin_shape {g g' : G} (h : cnfBin g = .ok g') (hw : WellFormed g) (hts : TermShape g) (hsf : StartFree g) :
    BinShape g' ∧ StartFree g' := by
  obtain ⟨defs, hc, _, _⟩ := cnfBin_spec hw h
  have hst : g'.start = g.start := hc.start
  -- symbols of chained bodies are non-terminals other than the start symbol
  have hold : ∀ x, OldSym g x → isNT x = true ∧ x ≠ Sym.nonterm g.start := by
    rintro x ⟨p, hp, hsk, hx⟩
    refine ⟨?_, fun e => hsf p hp (e ▸ hx)⟩
    rcases hts p hp with ht | hnt
    · unfold binSkip at hsk; simp [ht] at hsk
    · exact hnt x hx
  have hfresh : ∀ d ∈ defs, d.1 ≠ g.start := fun d hd e => hc.freshg d hd (e ▸ hw.1)
  constructor
  · intro p' hp'
    rcases hc.prods p' hp' with ⟨hpg, hsk⟩ | ⟨β, _, hlb⟩
    · unfold binSkip at hsk
      simp only [Bool.or_eq_true] at hsk
      rcases hsk with ((ht | hb) | he) | hs
      · refine ⟨?_, Or.inl ht⟩
        unfold isTerminalProd at ht
        split at ht
        · rename_i t hb; rw [hb]; simp
        · cases ht
      · unfold isBinary at hb
        split at hb
        · rename_i a b hbb
          rw [hbb]
          exact ⟨by simp, Or.inr (by intro s hs; simp at hs; rcases hs with rfl | rfl <;> rfl)⟩
        · cases hb
      · have : p'.body = [] := by simpa using he
        rw [this]
        exact ⟨by simp, Or.inr (by intro s hs; cases hs)⟩
      · unfold isSingle at hs
        split at hs
        · rename_i a hbb
          rw [hbb]
          exact ⟨by simp, Or.inr (by intro s hs; simp at hs; subst hs; rfl)⟩
        · cases hs
    · rcases hlb with ⟨x, hN, r, hb, _, _, hx⟩ | ⟨x, y, hb, _, hx, hy⟩
      · rw [hb]
        refine ⟨by simp, Or.inr ?_⟩
        intro s hs
        simp at hs
        rcases hs with rfl | rfl
        · exact (hold _ hx).1
        · rfl
      · rw [hb]
        refine ⟨by simp, Or.inr ?_⟩
        intro s hs
        simp at hs
        rcases hs with rfl | rfl
        · exact (hold _ hx).1
        · exact (hold _ hy).1
  · intro p' hp' hm
    rw [hst] at hm
    rcases hc.prods p' hp' with ⟨hpg, _⟩ | ⟨β, _, hlb⟩
    · exact hsf p' hpg hm
    · rcases hlb with ⟨x, hN, r, hb, hmem, _, hx⟩ | ⟨x, y, hb, _, hx, hy⟩
      · rw [hb] at hm
        simp at hm
        rcases hm with rfl | hm
        · exact (hold _ hx).2 rfl
        · exact hfresh _ hmem hm.symm
      · rw [hb] at hm
        simp at hm
        rcases hm with rfl | rfl
        · exact (hold _ hx).2 rfl
        · exact (hold _ hy).2 rfl

/-! ## DEL -/

theorem expandBody_sub_aux (nul : List String) :
    ∀ (rest pre : List SSym) (bodies : List (List SSym)),
      (∀ β ∈ bodies, β.length ≤ pre.length ∧ ∀ s ∈ β, s ∈ pre) →
      ∀ β ∈ rest.foldl (expandStep nul) bodies, β.length ≤ (pre ++ rest).length ∧ ∀ s ∈ β, s ∈ pre ++ rest := by
  intro rest
  induction rest with
  | nil => intro pre bodies h β hβ; simpa using h β hβ
  | cons sym rest ih =>
    intro pre bodies h β hβ
    simp only [List.foldl_cons] at hβ
    have := ih (pre ++ [sym]) (expandStep nul bodies sym) ?_ β hβ
    · simpa [List.append_assoc] using this
    · intro β' hβ'
      unfold expandStep at hβ'
      obtain ⟨β0, hβ0, hβ'⟩ := List.mem_flatMap.mp hβ'
      obtain ⟨hl, hs⟩ := h β0 hβ0
      have keep : (β0 ++ [sym]).length ≤ (pre ++ [sym]).length ∧ ∀ s ∈ β0 ++ [sym], s ∈ pre ++ [sym] := by
        refine ⟨by simp; omega, ?_⟩
        intro s hs'
        rcases List.mem_append.mp hs' with h' | h'
        · exact List.mem_append.mpr (Or.inl (hs s h'))
        · exact List.mem_append.mpr (Or.inr h')
      have drop : β0.length ≤ (pre ++ [sym]).length ∧ ∀ s ∈ β0, s ∈ pre ++ [sym] :=
        ⟨by simp; omega, fun s hs' => List.mem_append.mpr (Or.inl (hs s hs'))⟩
      cases sym with
      | term t =>
        simp at hβ'
        subst hβ'
        exact keep
      | nonterm n =>
        by_cases hn' : n ∈ nul
        · simp [hn'] at hβ'
          rcases hβ' with rfl | rfl
          · exact drop
          · exact keep
        · simp [hn'] at hβ'
          subst hβ'
          exact keep

theorem expandBody_sub (nul : List String) (body : List SSym) :
    ∀ β ∈ expandBody nul body, β.length ≤ body.length ∧ ∀ s ∈ β, s ∈ body := by
  intro β hβ
  rw [expandBody_eq] at hβ
  have := expandBody_sub_aux nul body [] [[]] (by intro β hβ; simp at hβ; subst hβ; simp) β hβ
  simpa using this

/-- every ε-free production is a non-empty, not longer sub-body of a production with the same head -/
def EmptySub (ps : List SProd) (acc : List SProd) : Prop :=
  ∀ p' ∈ acc, p'.body ≠ [] ∧ ∃ p ∈ ps, p.head = p'.head ∧ p'.body.length ≤ p.body.length ∧ ∀ s ∈ p'.body, s ∈ p.body

theorem emptyFreeProds_sub (nul : List String) (ps : List SProd) : EmptySub ps (emptyFreeProds nul ps) := by
  unfold emptyFreeProds
  refine foldl_inv (EmptySub ps) _ ps ?_ [] (by intro p hp; cases hp)
  intro acc p hp hacc
  split
  · exact hacc
  · refine foldl_inv (EmptySub ps) _ (expandBody nul p.body) ?_ acc hacc
    intro acc β hβ hacc
    split
    · exact hacc
    · rename_i hne
      intro p' hp'
      rcases mem_ins.mp hp' with hp' | rfl
      · exact hacc p' hp'
      · obtain ⟨hl, hs⟩ := expandBody_sub nul p.body β hβ
        exact ⟨by simpa using hne, p, hp, rfl, hl, hs⟩

theorem shape_of_sub {p p' : SProd} (hne : p'.body ≠ []) (hl : p'.body.length ≤ p.body.length)
    (hs : ∀ s ∈ p'.body, s ∈ p.body) (hp : p.body.length ≤ 2 ∧ (isTerminalProd p = true ∨ AllNT p.body)) :
    p'.body.length ≤ 2 ∧ (isTerminalProd p' = true ∨ AllNT p'.body) := by
  refine ⟨by omega, ?_⟩
  rcases hp.2 with ht | hnt
  · left
    unfold isTerminalProd at ht
    split at ht
    · rename_i t hb
      rw [hb] at hl hs
      match hb' : p'.body with
      | [] => exact absurd hb' hne
      | [s] =>
        rw [hb'] at hs
        have := hs s (by simp)
        simp at this
        subst this
        unfold isTerminalProd; rw [hb']
      | _ :: _ :: _ => rw [hb'] at hl; simp at hl
    · cases ht
  · exact Or.inr (fun s hs' => hnt s (hs s hs'))

theorem elimEmpty_shape {g g' : G} (h : elimEmpty g = .ok g') (hw : WellFormed g) (hbs : BinShape g)
    (hsf : StartFree g) : BinShape g' ∧ StartFree g' ∧ EpsOnlyStart g' := by
  have heps : EpsOnlyStart g' := by
    intro p hp hpb
    obtain ⟨a, _, c⟩ := elimEmpty_noEmpty h hw p hp hpb
    exact ⟨a, c⟩
  obtain ⟨nul, _, hcase⟩ := elimEmpty_ok h
  have hsub := emptyFreeProds_sub nul g.prods
  have hefp : ∀ p' ∈ emptyFreeProds nul g.prods,
      (p'.body.length ≤ 2 ∧ (isTerminalProd p' = true ∨ AllNT p'.body)) ∧ Sym.nonterm g.start ∉ p'.body := by
    intro p' hp'
    obtain ⟨hne, p, hp, _, hl, hs⟩ := hsub p' hp'
    exact ⟨shape_of_sub hne hl hs (hbs p hp), fun hm => hsf p hp (hs _ hm)⟩
  rcases hcase with ⟨_, rfl⟩ | ⟨_, s', hf, rfl⟩
  · refine ⟨?_, ?_, heps⟩
    · intro p hp; exact (hefp p (prune_prods_subset _ p hp)).1
    · intro p hp; rw [prune_start]; exact (hefp p (prune_prods_subset _ p hp)).2
  · refine ⟨?_, ?_, heps⟩
    · intro p hp
      have hp' := prune_prods_subset _ p hp
      rcases mem_ins.mp hp' with hp' | rfl
      · rcases mem_ins.mp hp' with hp' | rfl
        · exact (hefp p hp').1
        · exact ⟨by simp, Or.inr (by intro s hs; simp at hs; subst hs; rfl)⟩
      · exact ⟨by simp, Or.inr (by intro s hs; cases hs)⟩
    · intro p hp
      rw [prune_start]
      have hp' := prune_prods_subset _ p hp
      simp only
      rcases mem_ins.mp hp' with hp' | rfl
      · rcases mem_ins.mp hp' with hp' | rfl
        · obtain ⟨_, q, hq, _, _, hs⟩ := hsub p hp'
          exact fun hm => (WellFormed.fresh_not_in hw hf q hq).2 (hs _ hm)
        · simp; exact fun e => hf (e ▸ hw.1)
      · simp

/-! ## UNIT, unreachable, and the theorem -/

theorem elimSingle_shape {g g' : G} (h : elimSingle g = .ok g') (hbs : BinShape g) (hsf : StartFree g) :
    BinShape g' ∧ StartFree g' := by
  obtain ⟨cl, hc, rfl⟩ := elimSingle_ok h
  have hspec := singleProds_spec (closureOf_sound hc)
  constructor
  · intro p hp
    obtain ⟨_, B, _, hB⟩ := hspec p (prune_prods_subset _ p hp)
    have := hbs _ hB
    exact ⟨this.1, by
      rcases this.2 with ht | hnt
      · left; unfold isTerminalProd at ht ⊢; exact ht
      · exact Or.inr hnt⟩
  · intro p hp
    rw [prune_start]
    obtain ⟨_, B, _, hB⟩ := hspec p (prune_prods_subset _ p hp)
    exact hsf { head := B, body := p.body } hB

theorem cnf_isCNF {g g' : G} (h : cnf g = .ok g') (hw : WellFormed g) : IsCNF g' := by
  obtain ⟨g1, g2, g3, g4, g5, h1, h2, h3, h4, h5, h6⟩ := cnf_ok h
  have w1 := cnfStart_wf h1 hw
  have w2 := cnfTerm_wf h2 w1
  have w3 := cnfBin_wf h3 w2
  have s1 := cnfStart_startFree h1 hw
  obtain ⟨t2, s2⟩ := cnfTerm_shape h2 w1 s1
  obtain ⟨b3, s3⟩ := cnfBin_shape h3 w2 t2 s2
  obtain ⟨b4, s4, e4⟩ := elimEmpty_shape h4 w3 b3 s3
  obtain ⟨b5, s5⟩ := elimSingle_shape h5 b4 s4
  have e5 := elimSingle_epsOnlyStart h5 e4
  have u5 := elimSingle_noUnit h5
  have hsub := elimUnreachable_prods_subset h6
  obtain ⟨_, _, hst, _, _, _⟩ := elimUnreachable_ok h6
  intro p hp
  have hp5 := hsub p hp
  obtain ⟨hlen, hshape⟩ := b5 p hp5
  unfold cnfProd
  rw [hst]
  match hb : p.body with
  | [] => simpa using (e5 p hp5 hb).1
  | [Sym.term t] => rfl
  | [Sym.nonterm a] =>
    have := u5 p hp5
    unfold isSingle at this
    rw [hb] at this
    cases this
  | [Sym.nonterm a, Sym.nonterm b] =>
    have ha : a ≠ g5.start := fun e => s5 p hp5 (by rw [hb, e]; simp)
    have hbb : b ≠ g5.start := fun e => s5 p hp5 (by rw [hb, e]; simp)
    simp [ha, hbb]
  | [Sym.term t, y] =>
    exfalso
    rcases hshape with ht | hnt
    · unfold isTerminalProd at ht; rw [hb] at ht; cases ht
    · have := hnt (Sym.term t) (by rw [hb]; simp)
      cases this
  | [Sym.nonterm a, Sym.term t] =>
    exfalso
    rcases hshape with ht | hnt
    · unfold isTerminalProd at ht; rw [hb] at ht; cases ht
    · have := hnt (Sym.term t) (by rw [hb]; simp)
      cases this
  | _ :: _ :: _ :: _ => rw [hb] at hlen; simp at hlen

/-! ## the result passes `Verify()` -/

theorem cnfStart_valid {g g' : G} (h : cnfStart g = .ok g') (hv : Valid g) : Valid g' := by
  have hwf := cnfStart_wf h hv.wellFormed
  rcases cnfStart_ok h with rfl | ⟨s', _, rfl⟩
  · exact hv
  · refine ⟨hwf.1, ?_, hwf.2⟩
    intro n hn
    simp at hn
    rcases hn with hn | rfl
    · obtain ⟨p, hp, hh⟩ := hv.2.1 n hn
      exact ⟨p, mem_ins.mpr (Or.inl hp), hh⟩
    · exact ⟨_, mem_ins.mpr (Or.inr rfl), rfl⟩

theorem cnfTerm_valid {g g' : G} (h : cnfTerm g = .ok g') (hv : Valid g) : Valid g' := by
  have hwf := cnfTerm_wf h hv.wellFormed
  obtain ⟨store, hc, him⟩ := cnfTerm_spec h
  refine ⟨hwf.1, ?_, hwf.2⟩
  intro n hn
  have hnt : g'.nonterms = g.nonterms ++ store.map (fun e => e.2) := hc.nonterms
  rw [hnt] at hn
  rcases List.mem_append.mp hn with hn | hn
  · obtain ⟨p, hp, hh⟩ := hv.2.1 n hn
    rcases him p hp with ⟨_, hmem⟩ | ⟨_, hmem, _⟩
    · exact ⟨p, hmem, hh⟩
    · exact ⟨_, hmem, hh⟩
  · obtain ⟨e, he, rfl⟩ := List.mem_map.mp hn
    exact ⟨_, hc.defs e he, rfl⟩

theorem cnfBin_valid {g g' : G} (h : cnfBin g = .ok g') (hv : Valid g) : Valid g' := by
  have hwf := cnfBin_wf h hv.wellFormed
  obtain ⟨defs, hc, hdone, him⟩ := cnfBin_spec hv.wellFormed h
  refine ⟨hwf.1, ?_, hwf.2⟩
  intro n hn
  rw [hc.nonterms] at hn
  rcases List.mem_append.mp hn with hn | hn
  · obtain ⟨p, hp, hh⟩ := hv.2.1 n hn
    rcases him p hp with ⟨_, hmem⟩ | ⟨_, p', hp', hh', _⟩
    · exact ⟨p, hmem, hh⟩
    · exact ⟨p', hp', hh'.trans hh⟩
  · obtain ⟨d, hd, rfl⟩ := List.mem_map.mp hn
    obtain ⟨p', hp', hh', _⟩ := hdone d hd
    exact ⟨p', hp', hh'⟩

theorem cnf_valid {g g' : G} (h : cnf g = .ok g') (hv : Valid g) (hl : ∃ w, Language g w) : Valid g' := by
  obtain ⟨g1, g2, g3, g4, g5, h1, h2, h3, h4, h5, h6⟩ := cnf_ok h
  have v1 := cnfStart_valid h1 hv
  have v2 := cnfTerm_valid h2 v1
  have v3 := cnfBin_valid h3 v2
  obtain ⟨w, hw⟩ := hl
  have l3 : ∃ w, Language g3 w := ⟨w, by
    rw [cnfBin_language h3 v2.wellFormed, cnfTerm_language h2 v1.wellFormed, cnfStart_language h1 hv.wellFormed]
    exact hw⟩
  have v4 := elimEmpty_valid h4 v3 l3
  obtain ⟨w3, hw3⟩ := l3
  have l4 : ∃ w, Language g4 w := ⟨w3, (elimEmpty_language h4 v3.wellFormed w3).mpr hw3⟩
  exact elimUnreachable_valid h6 (elimSingle_valid h5 v4 l4)

end AlgoVerif.C08
