import AlgoVerif.Proofs.C17QU
/-!
The three modelled implementations keep their invariant along every history and, under it, their
queries are what `Spec.Tracks` demands.
-/
namespace AlgoVerif.C17
open AlgoVerif.C17.Spec

theorem decide_valid {n : Nat} {a : Array Int} (hs : a.size = n) (i : Int) :
    (decide (0 ≤ i) && decide (i < (a.size : Int))) = decide (Valid n i) := by
  simp only [Valid, hs]
  by_cases h0 : 0 ≤ i <;> by_cases h1 : i < (n : Int) <;> simp [h0, h1]

/-- the rank-and-representatives view gives everything `Tracks` asks for, for any `find` /
`isConnected` that answer through a representative function of the history's closure -/
theorem tracks_of_represents {n us rt} {find : Int → Outcome (Int × Bool)}
    {isConnected : Int → Int → Outcome Bool} {count : Int} (R : Represents n us rt)
    (hfv : ∀ p, Valid n p → find p = .ok (rt p, true))
    (hfi : ∀ p, ¬ Valid n p → find p = .ok (-1, false))
    (hcv : ∀ p q, Valid n p → Valid n q → isConnected p q = .ok (rt p == rt q))
    (hci : ∀ p q, ¬ (Valid n p ∧ Valid n q) → isConnected p q = .ok false)
    (hcount : count = ((List.range n).countP fun (i : Nat) => rt (i : Int) == (i : Int)))
    (hmerges : count + numMerges n us = n) :
    Tracks n us find isConnected count where
  connected_iff p q := by
    by_cases h : Valid n p ∧ Valid n q
    · refine ⟨_, hcv p q h.1 h.2, ?_⟩
      rw [← R.conn p q h.1 h.2]; simp
    · refine ⟨false, hci p q h, ?_⟩
      constructor
      · intro k; cases k
      · intro k; exact absurd k.valid_left h
  find_valid p hp := ⟨rt p, hfv p hp, R.conn_rt hp⟩
  find_same_iff p q rp rq bp bq hp hq h1 h2 := by
    rw [hfv p hp] at h1; rw [hfv q hq] at h2
    cases h1; cases h2
    exact R.conn p q hp hq
  find_invalid := hfi
  count_classes := by
    refine ⟨by omega, ?_⟩
    have := R.classCount
    rw [hcount]; simpa using this
  count_merges := by omega

/-! ## quick-union -/

theorem QuickUnion.find_valid {n us} {u : QuickUnion} {p r : Int} (I : QUInv n us u.root u.count)
    (h : Reaches n u.root p r) : u.find p = .ok (r, true) := by
  have hv := h.valid_left
  simp [QuickUnion.find, QuickUnion.isValid, decide_valid I.forest.size, hv, I.findLoop_eq h]

theorem QuickUnion.find_invalid {n} {u : QuickUnion} {p : Int} (hs : u.root.size = n)
    (h : ¬ Valid n p) : u.find p = .ok (-1, false) := by
  simp [QuickUnion.find, QuickUnion.isValid, decide_valid hs, h]

theorem QuickUnion.union_inv {n us} {u : QuickUnion} (I : QUInv n us u.root u.count) (p q : Int) :
    ∃ u', u.union p q = .ok u' ∧ QUInv n (us ++ [(p, q)]) u'.root u'.count := by
  by_cases hv : Valid n p ∧ Valid n q
  · obtain ⟨rp, hp⟩ := I.forest.reaches p hv.1
    obtain ⟨rq, hq⟩ := I.forest.reaches q hv.2
    by_cases he : rp = rq
    · refine ⟨u, ?_, I.skip (.inr ?_)⟩
      · simp [QuickUnion.union, QuickUnion.isValid, decide_valid I.forest.size, hv,
          QuickUnion.find_valid I hp, QuickUnion.find_valid I hq, he]
      · obtain ⟨rt, R, hre⟩ := I.repr
        refine (R.conn p q hv.1 hv.2).1 ?_
        rw [(hre p hv.1).unique hp, (hre q hv.2).unique hq, he]
    · refine ⟨{ count := u.count - 1, root := u.root.setIfInBounds rp.toNat rq }, ?_, I.link hp hq he⟩
      simp [QuickUnion.union, QuickUnion.isValid, decide_valid I.forest.size, hv,
        QuickUnion.find_valid I hp, QuickUnion.find_valid I hq, he,
        setIdx_ok I.forest.size hp.is_root.1]
  · refine ⟨u, ?_, I.skip (.inl hv)⟩
    simp only [QuickUnion.union, QuickUnion.isValid, decide_valid I.forest.size]
    by_cases h1 : Valid n p <;> by_cases h2 : Valid n q <;> simp_all

theorem QuickUnion.run_inv {n} (ops : List (Int × Int)) : ∀ {us} {u : QuickUnion},
    QUInv n us u.root u.count →
    ∃ u', u.run ops = .ok u' ∧ QUInv n (us ++ ops) u'.root u'.count := by
  induction ops with
  | nil => intro us u I; exact ⟨u, rfl, by simpa using I⟩
  | cons x ops ih =>
    intro us u I
    obtain ⟨p, q⟩ := x
    obtain ⟨u1, h1, I1⟩ := QuickUnion.union_inv I p q
    obtain ⟨u2, h2, I2⟩ := ih I1
    exact ⟨u2, by simp [QuickUnion.run, h1, h2], by simpa using I2⟩

theorem QuickUnion.tracks {n us} {u : QuickUnion} (I : QUInv n us u.root u.count) :
    Tracks n us u.find u.isConnected u.getCount := by
  obtain ⟨rt, R, hre⟩ := I.repr
  have hs := I.forest.size
  refine tracks_of_represents R (fun p hp => QuickUnion.find_valid I (hre p hp))
    (fun p hp => QuickUnion.find_invalid hs hp) ?_ ?_ ?_ I.merges
  · intro p q hp hq
    simp [QuickUnion.isConnected, QuickUnion.isValid, decide_valid hs, hp, hq,
      QuickUnion.find_valid I (hre p hp), QuickUnion.find_valid I (hre q hq)]
  · intro p q h
    simp only [QuickUnion.isConnected, QuickUnion.isValid, decide_valid hs]
    by_cases h1 : Valid n p <;> by_cases h2 : Valid n q <;> simp_all
  · show u.count = _
    rw [I.forest.roots, rootCount]
    congr 1
    apply List.countP_congr
    intro i hi
    have hv : Valid n (i : Int) := valid_cast.2 (List.mem_range.1 hi)
    simp only [beq_iff_eq]
    constructor
    · intro h; exact (hre _ hv).unique (.root hv h)
    · intro h; have := (hre _ hv).is_root.2; rwa [h] at this

/-! ## weighted quick-union: the same forest, the direction of the link chosen by `size[]` -/

/-- invariant of the weighted structure: the quick-union invariant plus `len(size) = n` (what the
size array holds only decides the direction of a link, never whether classes are merged) -/
structure WQInv (n : Nat) (us : List (Int × Int)) (u : Weighted) : Prop where
  qu : QUInv n us u.root u.count
  sizes : u.size.size = n

theorem Weighted.find_valid {n us} {u : Weighted} {p r : Int} (I : QUInv n us u.root u.count)
    (h : Reaches n u.root p r) : u.find p = .ok (r, true) := by
  have hv := h.valid_left
  simp [Weighted.find, Weighted.isValid, decide_valid I.forest.size, hv, I.findLoop_eq h]

theorem Weighted.find_invalid {n} {u : Weighted} {p : Int} (hs : u.root.size = n)
    (h : ¬ Valid n p) : u.find p = .ok (-1, false) := by
  simp [Weighted.find, Weighted.isValid, decide_valid hs, h]

theorem Weighted.union_inv {n us} {u : Weighted} (W : WQInv n us u) (p q : Int) :
    ∃ u', u.union p q = .ok u' ∧ WQInv n (us ++ [(p, q)]) u' := by
  have I := W.qu
  have hz := W.sizes
  by_cases hv : Valid n p ∧ Valid n q
  · obtain ⟨rp, hp⟩ := I.forest.reaches p hv.1
    obtain ⟨rq, hq⟩ := I.forest.reaches q hv.2
    by_cases he : rp = rq
    · refine ⟨u, ?_, I.skip (.inr ?_), hz⟩
      · simp [Weighted.union, Weighted.isValid, decide_valid I.forest.size, hv,
          Weighted.find_valid I hp, Weighted.find_valid I hq, he]
      · obtain ⟨rt, R, hre⟩ := I.repr
        refine (R.conn p q hv.1 hv.2).1 ?_
        rw [(hre p hv.1).unique hp, (hre q hv.2).unique hq, he]
    · have hvp := hp.is_root.1
      have hvq := hq.is_root.1
      by_cases hlt : par u.size rp < par u.size rq
      · refine ⟨Weighted.mk (u.count - 1) (u.root.setIfInBounds rp.toNat rq)
            (u.size.setIfInBounds rq.toNat (par u.size rq + par u.size rp)), ?_,
          I.link hp hq he, by simp [hz]⟩
        simp [Weighted.union, Weighted.isValid, decide_valid I.forest.size, hv,
          Weighted.find_valid I hp, Weighted.find_valid I hq, he, idx_ok hz hvp, idx_ok hz hvq, hlt,
          setIdx_ok I.forest.size hvp, setIdx_ok hz hvq]
      · refine ⟨Weighted.mk (u.count - 1) (u.root.setIfInBounds rq.toNat rp)
            (u.size.setIfInBounds rp.toNat (par u.size rp + par u.size rq)), ?_,
          I.link_rev hp hq he, by simp [hz]⟩
        simp [Weighted.union, Weighted.isValid, decide_valid I.forest.size, hv,
          Weighted.find_valid I hp, Weighted.find_valid I hq, he, idx_ok hz hvp, idx_ok hz hvq, hlt,
          setIdx_ok I.forest.size hvq, setIdx_ok hz hvp]
  · refine ⟨u, ?_, I.skip (.inl hv), hz⟩
    simp only [Weighted.union, Weighted.isValid, decide_valid I.forest.size]
    by_cases h1 : Valid n p <;> by_cases h2 : Valid n q <;> simp_all

theorem Weighted.run_inv {n} (ops : List (Int × Int)) : ∀ {us} {u : Weighted},
    WQInv n us u → ∃ u', u.run ops = .ok u' ∧ WQInv n (us ++ ops) u' := by
  induction ops with
  | nil => intro us u I; exact ⟨u, rfl, by simpa using I⟩
  | cons x ops ih =>
    intro us u I
    obtain ⟨p, q⟩ := x
    obtain ⟨u1, h1, I1⟩ := Weighted.union_inv I p q
    obtain ⟨u2, h2, I2⟩ := ih I1
    exact ⟨u2, by simp [Weighted.run, h1, h2], by simpa using I2⟩

theorem Weighted.tracks {n us} {u : Weighted} (W : WQInv n us u) :
    Tracks n us u.find u.isConnected u.getCount := by
  have I := W.qu
  obtain ⟨rt, R, hre⟩ := I.repr
  have hs := I.forest.size
  refine tracks_of_represents R (fun p hp => Weighted.find_valid I (hre p hp))
    (fun p hp => Weighted.find_invalid hs hp) ?_ ?_ ?_ I.merges
  · intro p q hp hq
    simp [Weighted.isConnected, Weighted.isValid, decide_valid hs, hp, hq,
      Weighted.find_valid I (hre p hp), Weighted.find_valid I (hre q hq)]
  · intro p q h
    simp only [Weighted.isConnected, Weighted.isValid, decide_valid hs]
    by_cases h1 : Valid n p <;> by_cases h2 : Valid n q <;> simp_all
  · show u.count = _
    rw [I.forest.roots, rootCount]
    congr 1
    apply List.countP_congr
    intro i hi
    have hv : Valid n (i : Int) := valid_cast.2 (List.mem_range.1 hi)
    simp only [beq_iff_eq]
    constructor
    · intro h; exact (hre _ hv).unique (.root hv h)
    · intro h; have := (hre _ hv).is_root.2; rwa [h] at this

theorem WQInv.init (n : Nat) : WQInv n [] (Weighted.new n) :=
  ⟨QUInv.init n, by simp [Weighted.new]⟩

end AlgoVerif.C17
