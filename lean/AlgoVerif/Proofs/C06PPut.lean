import AlgoVerif.Proofs.C06PRep
/-!
# C06 — Patricia `_put` on the represented tree

`putLoop` stops at the link `stopAt` describes; hanging the new node there turns the represented tree
`T` into `ins T …` (new key) — and a value update turns it into `upd T …`.
-/
namespace AlgoVerif.C06
variable {V : Type}
open BitString (xbit Small)

open PT

namespace PT

def idx : PT V → Nat
  | leaf i _ _ => i
  | inner i _ _ _ => i

/-- `(prev, next)` where `_put`'s descent stops when it starts at the link from node `pi` to `T` -/
def stopAt : PT V → Nat → Key → Nat → Nat × Nat
  | leaf i _ _, pi, _, _ => (pi, i)
  | inner i bp l r, pi, key, d =>
    if bp < d then (if xbit key (bp - 1) then stopAt r i key d else stopAt l i key d) else (pi, i)

theorem stopAt_prev (T : PT V) (pi : Nat) (key : Key) (d : Nat) :
    (stopAt T pi key d).1 = pi ∨ (stopAt T pi key d).1 ∈ inners T := by
  induction T generalizing pi with
  | leaf => simp [stopAt]
  | inner i bp l r ihl ihr =>
    simp only [stopAt]
    split
    · split
      · rcases ihr i with h | h
        · right; simp [inners, h]
        · right; simp [inners, h]
      · rcases ihl i with h | h
        · right; simp [inners, h]
        · right; simp [inners, h]
    · simp

theorem mem_inners_ins (T : PT V) (key : Key) (v : V) (d i' : Nat) (j : Nat) :
    j ∈ inners (ins T key v d i') ↔ j = i' ∨ j ∈ inners T := by
  induction T with
  | leaf i k v' => simp only [ins, graft]; split <;> simp [inners]
  | inner i bp l r ihl ihr =>
    simp only [ins]
    split
    · split
      · simp only [inners, List.mem_cons, List.mem_append, ihr]
        constructor
        · rintro (h | h | h | h) <;> simp [h]
        · rintro (h | h | h | h) <;> simp [h]
      · simp only [inners, List.mem_cons, List.mem_append, ihl]
        constructor
        · rintro (h | (h | h) | h) <;> simp [h]
        · rintro (h | h | h | h) <;> simp [h]
    · simp only [graft]; split <;> simp [inners]

theorem nodup_inners_ins {T : PT V} (key : Key) (v : V) (d i' : Nat) (hn : (inners T).Nodup) (hi : i' ∉ inners T) :
    (inners (ins T key v d i')).Nodup := by
  induction T with
  | leaf i k v' => simp only [ins, graft]; split <;> simp [inners]
  | inner i bp l r ihl ihr =>
    have hi1 : i' ≠ i := fun h => hi (by simp [inners, h])
    have hi2 : i' ∉ inners l := fun h => hi (by simp [inners, h])
    have hi3 : i' ∉ inners r := fun h => hi (by simp [inners, h])
    have hn' := hn
    simp only [inners, List.nodup_cons, List.mem_append, List.nodup_append, not_or] at hn
    obtain ⟨⟨hil, hir⟩, hnl, hnr, hdis⟩ := hn
    simp only [ins]
    split
    · split
      · simp only [inners, List.nodup_cons, List.mem_append, List.nodup_append, mem_inners_ins, not_or]
        refine ⟨⟨hil, fun h => hi1 h.symm, hir⟩, hnl, ihr hnr hi3, ?_⟩
        intro a ha b hb
        rcases hb with rfl | hb
        · rintro rfl; exact hi2 ha
        · exact hdis a ha b hb
      · simp only [inners, List.nodup_cons, List.mem_append, List.nodup_append, mem_inners_ins, not_or]
        refine ⟨⟨⟨fun h => hi1 h.symm, hil⟩, hir⟩, ihl hnl hi2, hnr, ?_⟩
        intro a ha b hb
        rcases ha with rfl | ha
        · rintro rfl; exact hi3 hb
        · exact hdis a ha b hb
    · simp only [graft]
      split
      · simp only [inners, List.append_nil]
        exact List.nodup_cons.mpr ⟨hi, hn'⟩
      · simp only [inners, List.nil_append]
        exact List.nodup_cons.mpr ⟨hi, hn'⟩

theorem mem_leafIdx_ins (T : PT V) (key : Key) (v : V) (d i' : Nat) (j : Nat) :
    j ∈ leafIdx (ins T key v d i') ↔ j = i' ∨ j ∈ leafIdx T := by
  induction T with
  | leaf i k v' => simp only [ins, graft]; split <;> simp [leafIdx, or_comm]
  | inner i bp l r ihl ihr =>
    simp only [ins]
    split
    · split
      · simp only [leafIdx, List.mem_append, ihr]
        constructor
        · rintro (h | h | h) <;> simp [h]
        · rintro (h | h | h) <;> simp [h]
      · simp only [leafIdx, List.mem_append, ihl]
        constructor
        · rintro ((h | h) | h) <;> simp [h]
        · rintro (h | h | h) <;> simp [h]
    · simp only [graft]
      split
      · simp only [leafIdx, List.mem_append, List.mem_singleton]
        constructor
        · rintro ((h | h) | h) <;> simp [h]
        · rintro (h | h | h) <;> simp [h]
      · simp only [leafIdx, List.mem_append, List.mem_singleton, List.cons_append, List.nil_append, List.mem_cons]

theorem nodup_leafIdx_ins {T : PT V} (key : Key) (v : V) (d i' : Nat) (hn : (leafIdx T).Nodup) (hi : i' ∉ leafIdx T) :
    (leafIdx (ins T key v d i')).Nodup := by
  induction T with
  | leaf i k v' =>
    have hne : i' ≠ i := fun h => hi (by simp [leafIdx, h])
    simp only [ins, graft]
    split
    · simp [leafIdx]; exact fun h => hne h.symm
    · simp [leafIdx]; exact hne
  | inner i bp l r ihl ihr =>
    have hi2 : i' ∉ leafIdx l := fun h => hi (by simp [leafIdx, h])
    have hi3 : i' ∉ leafIdx r := fun h => hi (by simp [leafIdx, h])
    have hn' := hn
    simp only [leafIdx, List.nodup_append] at hn
    obtain ⟨hnl, hnr, hdis⟩ := hn
    simp only [ins]
    split
    · split
      · simp only [leafIdx, List.nodup_append, mem_leafIdx_ins]
        refine ⟨hnl, ihr hnr hi3, ?_⟩
        intro a ha b hb
        rcases hb with rfl | hb
        · rintro rfl; exact hi2 ha
        · exact hdis a ha b hb
      · simp only [leafIdx, List.nodup_append, mem_leafIdx_ins]
        refine ⟨ihl hnl hi2, hnr, ?_⟩
        intro a ha b hb
        rcases ha with rfl | ha
        · rintro rfl; exact hi3 hb
        · exact hdis a ha b hb
    · simp only [graft]
      split
      · simp only [leafIdx]
        rw [List.nodup_append]
        refine ⟨hn', by simp, ?_⟩
        intro a ha b hb
        simp only [List.mem_singleton] at hb
        subst hb
        rintro rfl
        exact hi ha
      · simp only [leafIdx, List.cons_append, List.nil_append]
        exact List.nodup_cons.mpr ⟨hi, hn'⟩

theorem leafIdx_upd (T : PT V) (key : Key) (v : V) : leafIdx (upd T key v) = leafIdx T := by
  induction T with
  | leaf => rfl
  | inner i bp l r ihl ihr => simp only [upd]; split <;> simp [leafIdx, ihl, ihr]

theorem inners_upd (T : PT V) (key : Key) (v : V) : inners (upd T key v) = inners T := by
  induction T with
  | leaf => rfl
  | inner i bp l r ihl ihr => simp only [upd]; split <;> simp [inners, ihl, ihr]

theorem length_ents_ins (T : PT V) (key : Key) (v : V) (d i' : Nat) :
    (ents (ins T key v d i')).length = (ents T).length + 1 := by
  induction T with
  | leaf => simp only [ins, graft]; split <;> simp [ents]
  | inner i bp l r ihl ihr =>
    simp only [ins]
    split
    · split
      · simp [ents, ihr]; omega
      · simp [ents, ihl]; omega
    · simp only [graft]; split <;> simp [ents]; omega

theorem length_ents_upd (T : PT V) (key : Key) (v : V) : (ents (upd T key v)).length = (ents T).length := by
  have := congrArg List.length (keys_upd T key v)
  simpa [keys] using this

/-- every Patricia node lies above its own thread: the leaf with index `i` is below the inner node `i` -/
def SelfBelow : PT V → Prop
  | leaf _ _ _ => True
  | inner i _ l r => i ∈ leafIdx l ++ leafIdx r ∧ SelfBelow l ∧ SelfBelow r

theorem selfBelow_ins {T : PT V} (key : Key) (v : V) (d i' : Nat) (hs : SelfBelow T) :
    SelfBelow (ins T key v d i') := by
  have hg : ∀ S : PT V, SelfBelow S → SelfBelow (graft S key v d i') := by
    intro S hS
    unfold graft
    split
    · exact ⟨by simp [leafIdx], hS, trivial⟩
    · exact ⟨by simp [leafIdx], trivial, hS⟩
  induction T with
  | leaf i k v' => exact hg _ hs
  | inner i bp l r ihl ihr =>
    obtain ⟨hi, hl, hr⟩ := hs
    simp only [ins]
    split
    · split
      · refine ⟨?_, hl, ihr hr⟩
        rw [List.mem_append, mem_leafIdx_ins]
        rcases List.mem_append.mp hi with h | h
        · exact .inl h
        · exact .inr (.inr h)
      · refine ⟨?_, ihl hl, hr⟩
        rw [List.mem_append, mem_leafIdx_ins]
        rcases List.mem_append.mp hi with h | h
        · exact .inl (.inr h)
        · exact .inr h
    · exact hg _ ⟨hi, hl, hr⟩

theorem selfBelow_upd {T : PT V} (key : Key) (v : V) (hs : SelfBelow T) : SelfBelow (upd T key v) := by
  induction T with
  | leaf => trivial
  | inner i bp l r ihl ihr =>
    obtain ⟨hi, hl, hr⟩ := hs
    simp only [upd]
    split
    · exact ⟨by rw [leafIdx_upd]; exact hi, hl, ihr hr⟩
    · exact ⟨by rw [leafIdx_upd]; exact hi, ihl hl, hr⟩

theorem leafIdx_ins_perm (T : PT V) (key : Key) (v : V) (d i' : Nat) :
    (leafIdx (ins T key v d i')).Perm (i' :: leafIdx T) := by
  have hg : ∀ S : PT V, (leafIdx (graft S key v d i')).Perm (i' :: leafIdx S) := by
    intro S
    unfold graft
    split
    · simp only [leafIdx]
      exact List.perm_append_comm
    · simp [leafIdx]
  induction T with
  | leaf i k v' => exact hg _
  | inner i bp l r ihl ihr =>
    simp only [ins]
    split
    · split
      · simp only [leafIdx]
        exact (List.Perm.append_left _ ihr).trans List.perm_middle
      · simp only [leafIdx]
        exact List.Perm.append_right _ ihl
    · exact hg _

theorem inners_ins_perm (T : PT V) (key : Key) (v : V) (d i' : Nat) :
    (inners (ins T key v d i')).Perm (i' :: inners T) := by
  have hg : ∀ S : PT V, (inners (graft S key v d i')).Perm (i' :: inners S) := by
    intro S
    unfold graft
    split <;> simp [inners]
  induction T with
  | leaf i k v' => exact hg _
  | inner i bp l r ihl ihr =>
    simp only [ins]
    split
    · split
      · simp only [inners]
        refine (List.Perm.cons _ ((List.Perm.append_left _ ihr).trans List.perm_middle)).trans (List.Perm.swap _ _ _)
      · simp only [inners]
        refine (List.Perm.cons _ (List.Perm.append_right _ ihl)).trans (List.Perm.swap _ _ _)
    · exact hg _

theorem keys_ne_nil (T : PT V) : keys T ≠ [] := by
  simp [keys, ents_ne_nil]

end PT

namespace Patricia

theorem Rep.idx_eq {t : Patricia V} {T : PT V} {b : Nat} {p : Option Nat} (h : Rep t b p T) : p = some T.idx := by
  cases T <;> exact h.1

theorem putLoop_rep {t : Patricia V} (key : Key) (d : Nat) (T : PT V) :
    ∀ (b : Nat) (p : Option Nat) (pi : Nat) (pn : PNode V) (f : Nat), Rep t b p T → t.nodes[pi]? = some pn → pn.bp = b →
      above t b < f →
      putLoop t key d f (some pi) p = .ok (some (stopAt T pi key d).1, some (stopAt T pi key d).2) := by
  induction T with
  | leaf i k v =>
    intro b p pi pn f h hpn hpb hf
    obtain ⟨hp, n, hn, hb, _, _⟩ := h
    subst hp
    cases f with
    | zero => omega
    | succ f =>
      have : ¬ n.bp > pn.bp := by omega
      simp [putLoop, node_some hpn, node_some hn, this, stopAt]
  | inner i bp l r ihl ihr =>
    intro b p pi pn f h hpn hpb hf
    obtain ⟨hp, n, hn, hbp, hb, hl, hr⟩ := h
    subst hp; subst hbp
    cases f with
    | zero => omega
    | succ f =>
      have hgt : n.bp > pn.bp := by omega
      have hlt := above_lt hn hb
      simp only [putLoop, node_some hpn, node_some hn, bind_ok, stopAt]
      by_cases hd : n.bp < d
      · simp only [hgt, hd, decide_true, Bool.and_self, if_true]
        rw [BitString.bit_ok_of_pos _ (by omega)]
        simp only [bind_ok]
        cases hbit : xbit key (n.bp - 1)
        · simp only [Bool.false_eq_true, if_false]
          exact ihl n.bp n.left i n f hl hn rfl (by omega)
        · simp only [if_true]
          exact ihr n.bp n.right i n f hr hn rfl (by omega)
      · simp [hd]

/-- the store after `_put` has hung the new node `nw` (stored at index `t.nodes.size`) on the link
`prev → next`; `pn` is the node `prev` as read before the update -/
def linked (t : Patricia V) (nw : PNode V) (prev : Nat) (pn : PNode V) (next : Option Nat) : Patricia V :=
  if pn.left == next then ({ t with nodes := t.nodes.push nw } : Patricia V).setLeft prev (some t.nodes.size)
  else ({ t with nodes := t.nodes.push nw } : Patricia V).setRight prev (some t.nodes.size)

theorem linked_nodes_other (t : Patricia V) (nw : PNode V) (prev : Nat) (pn : PNode V) (next : Option Nat) {j : Nat}
    (hj : j ≠ prev) (hlt : j < t.nodes.size) : (linked t nw prev pn next).nodes[j]? = t.nodes[j]? := by
  have hne : prev ≠ j := fun h => hj h.symm
  have hne2 : j ≠ t.nodes.size := by omega
  unfold linked
  split <;> simp [setLeft, setRight, Array.getElem?_modify, Array.getElem?_push, hne, hne2]

theorem linked_nodes_new (t : Patricia V) (nw : PNode V) (prev : Nat) (pn : PNode V) (next : Option Nat)
    (hlt : prev < t.nodes.size) : (linked t nw prev pn next).nodes[t.nodes.size]? = some nw := by
  have hne : prev ≠ t.nodes.size := by omega
  unfold linked
  split <;> simp only [setLeft, setRight] <;> rw [Array.getElem?_modify] <;> simp [hne, Array.getElem?_push]

theorem linked_nodes_prev (t : Patricia V) (nw : PNode V) (prev : Nat) (pn : PNode V) (next : Option Nat)
    (hpn : t.nodes[prev]? = some pn) :
    (linked t nw prev pn next).nodes[prev]? =
      some (if pn.left == next then { pn with left := some t.nodes.size } else { pn with right := some t.nodes.size }) := by
  have hlt : prev < t.nodes.size := by
    by_cases h : prev < t.nodes.size
    · exact h
    · rw [Array.getElem?_eq_none (by omega)] at hpn; cases hpn
  have hne : prev ≠ t.nodes.size := by omega
  unfold linked
  split <;> simp [setLeft, setRight, Array.getElem?_modify, Array.getElem?_push, hne, hpn]

theorem linked_root (t : Patricia V) (nw : PNode V) (prev : Nat) (pn : PNode V) (next : Option Nat) :
    (linked t nw prev pn next).root = t.root ∧ (linked t nw prev pn next).size = t.size := by
  unfold linked; split <;> simp [setLeft, setRight]

theorem lt_size_of_getElem? {t : Patricia V} {i : Nat} {n : PNode V} (h : t.nodes[i]? = some n) : i < t.nodes.size := by
  by_cases hlt : i < t.nodes.size
  · exact hlt
  · rw [Array.getElem?_eq_none (by omega)] at h; cases h

theorem frame_linked {t : Patricia V} (nw : PNode V) {prev : Nat} {ppn : PNode V} (next : Option Nat)
    (hpp : t.nodes[prev]? = some ppn) {X : PT V} {b : Nat} {p : Option Nat} (hX : Rep t b p X)
    (hni : prev ∉ inners X) : Frame t (linked t nw prev ppn next) X := by
  constructor
  · intro j hj n hn
    have hjp : j ≠ prev := fun h => hni (h ▸ hj)
    exact ⟨n, by rw [linked_nodes_other _ _ _ _ _ hjp (lt_size_of_getElem? hn)]; exact hn, rfl, rfl, rfl⟩
  · intro j hj n hn
    by_cases hjp : j = prev
    · subst hjp
      rw [hpp] at hn; cases hn
      refine ⟨_, linked_nodes_prev t nw j ppn next hpp, ?_, ?_, ?_⟩ <;> split <;> rfl
    · exact ⟨n, by rw [linked_nodes_other _ _ _ _ _ hjp (lt_size_of_getElem? hn)]; exact hn, rfl, rfl, rfl⟩

theorem Rep.left_ne_right {t : Patricia V} {i bp : Nat} {l r : PT V} {pl pr : Option Nat}
    (hl : Rep t bp pl l) (hr : Rep t bp pr r) (hc : Crit (.inner i bp l r)) : pl ≠ pr := by
  intro heq
  subst heq
  have := hl.unique hr
  subst this
  obtain ⟨_, h1, h2, _⟩ := hc
  cases hk : keys l with
  | nil => exact keys_ne_nil l hk
  | cons k ks =>
    have hm : k ∈ keys l := by rw [hk]; exact List.mem_cons_self ..
    have := h1 k hm
    rw [h2 k hm] at this
    cases this

/-- the new node `_put` creates -/
def newNode (key : Key) (v : V) (d : Nat) (next : Option Nat) (self : Nat) : PNode V :=
  if xbit key (d - 1) then { bp := d, key := key, val := v, left := next, right := some self }
  else { bp := d, key := key, val := v, left := some self, right := next }

theorem rep_ins {t t' : Patricia V} (key : Key) (v : V) (d : Nat) (hd : 1 ≤ d) (nw : PNode V) (T : PT V) :
    ∀ (b : Nat) (p : Option Nat) (pi : Nat) (pn : PNode V),
      Rep t b p T → t.nodes[pi]? = some pn → pn.bp = b → b < d →
      (pn.left = p ∨ (pn.right = p ∧ pn.left ≠ p)) →
      Crit T → xbit key (d - 1) ≠ xbit (descend T key).2.1 (d - 1) →
      pi ∉ inners T → (inners T).Nodup →
      (∃ ppn, t.nodes[(stopAt T pi key d).1]? = some ppn ∧
        t' = linked t nw (stopAt T pi key d).1 ppn (some (stopAt T pi key d).2)) →
      nw = newNode key v d (some (stopAt T pi key d).2) t.nodes.size →
      Rep t' b (if (stopAt T pi key d).1 = pi then some t.nodes.size else p) (ins T key v d t.nodes.size) ∧
      (∃ pn', t'.nodes[pi]? = some pn' ∧ pn'.bp = pn.bp ∧ pn'.key = pn.key ∧ pn'.val = pn.val ∧
        ((stopAt T pi key d).1 ≠ pi → pn' = pn) ∧
        ((stopAt T pi key d).1 = pi → pn' = (if pn.left == p then { pn with left := some t.nodes.size } else { pn with right := some t.nodes.size }))) := by
  -- the stopping case, shared by leaves and inner nodes with `bp ≥ d`
  have hstop : ∀ (S : PT V) (b : Nat) (p : Option Nat) (pi : Nat) (pn : PNode V),
      Rep t b p S → t.nodes[pi]? = some pn → b < d →
      (∀ i bp l r, S = .inner i bp l r → d < bp) → pi ∉ inners S →
      t' = linked t nw pi pn (some S.idx) → nw = newNode key v d (some S.idx) t.nodes.size →
      Rep t' b (some t.nodes.size) (graft S key v d t.nodes.size) := by
    intro S b p pi pn hS hpn hbd hbig hni ht' hnw
    have hpS := hS.idx_eq
    have hpilt := lt_size_of_getElem? hpn
    have hnew : t'.nodes[t.nodes.size]? = some nw := by rw [ht']; exact linked_nodes_new _ _ _ _ _ hpilt
    have hS' : Rep t' d p S := by
      apply Rep.frame (hS.raise (by omega) hbig)
      rw [ht']
      exact frame_linked nw _ hpn hS hni
    have hleaf : Rep t' d (some t.nodes.size) (.leaf t.nodes.size key v) := by
      refine ⟨rfl, nw, hnew, ?_, ?_, ?_⟩ <;> rw [hnw] <;> unfold newNode <;> split <;> simp
    unfold graft
    cases hb : xbit key (d - 1)
    · simp only [Bool.false_eq_true, if_false]
      refine ⟨rfl, nw, hnew, ?_, by omega, ?_, ?_⟩
      · rw [hnw]; simp [newNode, hb]
      · have : nw.left = some t.nodes.size ∧ nw.bp = d := by rw [hnw]; simp [newNode, hb]
        rw [this.1]; exact hleaf
      · have : nw.right = p ∧ nw.bp = d := by rw [hnw, hpS]; simp [newNode, hb]
        rw [this.1]; exact hS'
    · simp only [if_true]
      refine ⟨rfl, nw, hnew, ?_, by omega, ?_, ?_⟩
      · rw [hnw]; simp [newNode, hb]
      · have : nw.left = p ∧ nw.bp = d := by rw [hnw, hpS]; simp [newNode, hb]
        rw [this.1]; exact hS'
      · have : nw.right = some t.nodes.size ∧ nw.bp = d := by rw [hnw]; simp [newNode, hb]
        rw [this.1]; exact hleaf
  -- what the update does to the node `pi` the descent started from
  have hpi : ∀ (S : PT V) (p : Option Nat) (pi : Nat) (pn : PNode V), t.nodes[pi]? = some pn → p = some S.idx →
      (∃ ppn, t.nodes[(stopAt S pi key d).1]? = some ppn ∧
        t' = linked t nw (stopAt S pi key d).1 ppn (some (stopAt S pi key d).2)) →
      ((stopAt S pi key d).1 = pi → (stopAt S pi key d).2 = S.idx) →
      (∃ pn', t'.nodes[pi]? = some pn' ∧ pn'.bp = pn.bp ∧ pn'.key = pn.key ∧ pn'.val = pn.val ∧
        ((stopAt S pi key d).1 ≠ pi → pn' = pn) ∧
        ((stopAt S pi key d).1 = pi → pn' = (if pn.left == p then { pn with left := some t.nodes.size } else { pn with right := some t.nodes.size }))) := by
    intro S p pi pn hpn hp ⟨ppn, hppn, ht'⟩ hnx
    by_cases hprev : (stopAt S pi key d).1 = pi
    · rw [hprev] at hppn ht'
      rw [hpn] at hppn; cases hppn
      rw [hnx hprev, ← hp] at ht'
      refine ⟨_, by rw [ht']; exact linked_nodes_prev _ _ _ _ _ hpn, ?_, ?_, ?_, fun h => absurd hprev h, fun _ => rfl⟩ <;>
        split <;> rfl
    · refine ⟨pn, ?_, rfl, rfl, rfl, fun _ => rfl, fun h => absurd h hprev⟩
      rw [ht']
      rw [linked_nodes_other _ _ _ _ _ (fun h => hprev h.symm) (lt_size_of_getElem? hpn)]
      exact hpn
  induction T with
  | leaf i k v' =>
    intro b p pi pn hT hpn hpb hbd hlink _ _ hni _ ht' hnw
    have hp := hT.idx_eq
    refine ⟨?_, hpi _ p pi pn hpn hp ht' (fun _ => rfl)⟩
    obtain ⟨ppn, hppn, ht'⟩ := ht'
    simp only [stopAt] at hppn ht' hnw ⊢
    rw [hpn] at hppn; cases hppn
    simp only [if_true, ins]
    exact hstop _ b p pi pn hT hpn hbd (fun _ _ _ _ h => by cases h) hni ht' hnw
  | inner i bp l r ihl ihr =>
    intro b p pi pn hT hpn hpb hbd hlink hc hdiff hni hnd ht' hnw
    have hp := hT.idx_eq
    have hT0 := hT
    obtain ⟨hp', n, hn, hbp, hb, hl, hr⟩ := hT
    subst hbp
    have hilt := lt_size_of_getElem? hn
    simp only [inners, List.nodup_cons, List.mem_append, List.nodup_append, not_or, List.mem_cons] at hnd hni
    obtain ⟨⟨hil, hir⟩, hnl, hnr, hdis⟩ := hnd
    by_cases hlt : n.bp < d
    · -- continue below node i
      have hne := Rep.left_ne_right hl hr hc
      obtain ⟨hbp1, hcl1, hcr1, _, hcl, hcr⟩ := hc
      cases hbit : xbit key (n.bp - 1)
      · -- left
        simp only [stopAt, hlt, if_true, hbit, Bool.false_eq_true, if_false, ins, descend] at ht' hnw hdiff ⊢
        have hprev := stopAt_prev l i key d
        have hprev_ne : (stopAt l i key d).1 ≠ pi := by
          rcases hprev with h | h
          · rw [h]; exact fun h' => hni.1 h'.symm
          · exact fun h' => hni.2.1 (h' ▸ h)
        obtain ⟨hrep, n', hn', hb', _, _, hsame, hchg⟩ :=
          ihl n.bp n.left i n hl hn rfl hlt (.inl rfl) hcl hdiff hil hnl ht' hnw
        have hsecond := hpi (.inner i n.bp l r) p pi pn hpn hp (by simpa [stopAt, hlt, hbit] using ht')
          (by simp [stopAt, hlt, hbit]; exact fun h => absurd h hprev_ne)
        refine ⟨?_, by simpa [stopAt, hlt, hbit] using hsecond⟩
        simp only [hprev_ne, if_false]
        refine ⟨hp', n', hn', hb', hb, ?_, ?_⟩
        · by_cases hst : (stopAt l i key d).1 = i
          · rw [hchg hst]
            simp only [beq_self_eq_true, if_true]
            simpa [hst] using hrep
          · rw [hsame hst]; simpa [hst] using hrep
        · obtain ⟨ppn, hppn, ht'⟩ := ht'
          have hfr : Frame t t' r := by
            rw [ht']
            apply frame_linked nw _ hppn hr
            rcases hprev with h | h
            · rw [h]; exact hir
            · exact fun h' => hdis _ h _ h' rfl
          have : n'.right = n.right := by
            by_cases hst : (stopAt l i key d).1 = i
            · rw [hchg hst]; simp
            · rw [hsame hst]
          rw [this]
          exact hr.frame hfr
      · -- right
        simp only [stopAt, hlt, if_true, hbit, ins, descend] at ht' hnw hdiff ⊢
        have hprev := stopAt_prev r i key d
        have hprev_ne : (stopAt r i key d).1 ≠ pi := by
          rcases hprev with h | h
          · rw [h]; exact fun h' => hni.1 h'.symm
          · exact fun h' => hni.2.2 (h' ▸ h)
        obtain ⟨hrep, n', hn', hb', _, _, hsame, hchg⟩ :=
          ihr n.bp n.right i n hr hn rfl hlt (.inr ⟨rfl, hne⟩) hcr hdiff hir hnr ht' hnw
        have hsecond := hpi (.inner i n.bp l r) p pi pn hpn hp (by simpa [stopAt, hlt, hbit] using ht')
          (by simp [stopAt, hlt, hbit]; exact fun h => absurd h hprev_ne)
        refine ⟨?_, by simpa [stopAt, hlt, hbit] using hsecond⟩
        simp only [hprev_ne, if_false]
        have hbeq : (n.left == n.right) = false := by simpa using hne
        refine ⟨hp', n', hn', hb', hb, ?_, ?_⟩
        · obtain ⟨ppn, hppn, ht'⟩ := ht'
          have hfr : Frame t t' l := by
            rw [ht']
            apply frame_linked nw _ hppn hl
            rcases hprev with h | h
            · rw [h]; exact hil
            · exact fun h' => hdis _ h' _ h rfl
          have : n'.left = n.left := by
            by_cases hst : (stopAt r i key d).1 = i
            · rw [hchg hst]; simp [hbeq]
            · rw [hsame hst]
          rw [this]
          exact hl.frame hfr
        · by_cases hst : (stopAt r i key d).1 = i
          · rw [hchg hst]
            simp only [hbeq, Bool.false_eq_true, if_false]
            simpa [hst] using hrep
          · rw [hsame hst]; simpa [hst] using hrep
    · -- stop above node i
      have hbig := descend_ins_stop hc key d hlt hdiff
      refine ⟨?_, hpi (.inner i n.bp l r) p pi pn hpn hp ht' (by simp [stopAt, hlt, idx])⟩
      obtain ⟨ppn, hppn, ht'⟩ := ht'
      simp only [stopAt, hlt, if_false] at hppn ht' hnw ⊢
      rw [hpn] at hppn; cases hppn
      simp only [if_true, ins, hlt, if_false]
      have hni' : pi ∉ inners (.inner i n.bp l r) := by
        simp only [inners, List.mem_cons, List.mem_append, not_or]; exact hni
      exact hstop _ b p pi pn hT0 hpn hbd (fun _ _ _ _ h => by cases h; exact hbig) hni' ht' hnw

end Patricia
end AlgoVerif.C06
