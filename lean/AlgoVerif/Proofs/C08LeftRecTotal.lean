import AlgoVerif.Proofs.C09LeftRecMain
import AlgoVerif.Proofs.C08Total6
/-!
# `EliminateLeftRecursion` returns a grammar (C08, totality)

For every valid hygienic grammar with a non-empty language `elimLeftRec` answers `.ok` — no `diverge`
(`elimCycles_total`, `orderNT_total`; `lrLoop` has no fuel) and no `panic`: the only panic path is
`AddNewNonTerminal` running out of the four prime suffixes in `lrImmediate`, and that cannot happen.

Why a prime-suffixed name is always free.  After `EliminateCycles` every declared name is hygienic or is the
start symbol `x` (the `S′` of ε-elimination).  While the loop runs, every declared name is hygienic, or `x`,
or the one name `alloc B = base B ++ s` (`s` a prime suffix, `base` = the name with its prime suffixes
trimmed) given to an already processed `B`.  When `Aᵢ` (not yet processed, base `b`) needs a name, a taken
candidate `b ++ s` is not hygienic, so it is `x`, or `alloc B` with `base B = b` — and then `B = b` (if `B` is
hygienic) or `B = x`.  So at most three of the four candidates `b′ b″ b‴ b⁗` are taken.
-/
set_option linter.unusedSectionVars false
namespace AlgoVerif.C08
open AlgoVerif AlgoVerif.Gram AlgoVerif.C08.Spec AlgoVerif.C09.Spec

/-! ## prime suffixes -/

theorem primes_eq : primes = ["′", "″", "‴", "⁗"] := by decide

theorem primes_single : ∀ s ∈ primes, ∃ c, s.toList = [c] := by
  have h : primes.all (fun s => s.toList.length == 1) = true := by decide
  intro s hs
  have := List.all_eq_true.mp h s hs
  match hl : s.toList, this with
  | [c], _ => exact ⟨c, rfl⟩

theorem append_prime_inj {a b s s' : String} (hs : s ∈ primes) (hs' : s' ∈ primes) (h : a ++ s = b ++ s') :
    a = b ∧ s = s' := by
  obtain ⟨c, hc⟩ := primes_single s hs
  obtain ⟨d, hd⟩ := primes_single s' hs'
  have h' := congrArg String.toList h
  rw [String.toList_append, String.toList_append, hc, hd] at h'
  obtain ⟨h1, h2⟩ := append_single_cancel h'
  refine ⟨h1, ?_⟩
  apply String.toList_inj.mp
  rw [hc, hd, h2]

/-- the base name `AddNewNonTerminal(pre, primes…)` appends to -/
def baseOf (n : String) : String := primes.foldl trimSuffix n

theorem baseOf_hyg {n : String} (h : hygienicName n = true) : baseOf n = n :=
  foldl_trim_hyg h primes primes_reserved

theorem addNew_shape {g g1 : G} {pre n : String} {sufs : List String} (h : addNew g pre sufs = .ok (g1, n)) :
    ∃ s, s ∈ sufs ∧ n = (sufs.foldl trimSuffix pre) ++ s := by
  unfold addNew at h
  split at h
  · rename_i m hm
    cases h
    unfold freshName at hm
    have := List.mem_of_find?_eq_some hm
    obtain ⟨s, hs, rfl⟩ := List.mem_map.1 this
    exact ⟨s, hs, rfl⟩
  · cases h

/-! ## the names `EliminateCycles` leaves -/

theorem pruneN_nonterms_subset (k : Nat) : ∀ (g : G), ∀ n ∈ (pruneN k g).nonterms, n ∈ g.nonterms := by
  induction k with
  | zero => intro g n hn; exact hn
  | succ k ih =>
    intro g n hn
    simp only [pruneN] at hn
    split at hn
    · exact hn
    · rename_i g' hg'
      obtain ⟨m, _, _, _, _, _, hnt, _⟩ := pruneStep_spec hg'
      have := ih g' n hn
      rw [hnt] at this
      exact (List.mem_filter.mp this).1

theorem prune_nonterms_subset (g : G) : ∀ n ∈ (prune g).nonterms, n ∈ g.nonterms := pruneN_nonterms_subset _ g

theorem reach_declared {g : G} (hw : WellFormed g) {n : String} (h : Reach g n) : n ∈ g.nonterms := by
  induction h with
  | start => exact hw.1
  | step p n hp _ hn _ => exact (hw.2 p hp).2 (Sym.nonterm n) hn

/-- after `EliminateCycles` every declared name is hygienic or is the start symbol -/
theorem elimCycles_names {g g0 : G} (h : elimCycles g = .ok g0) (hw : WellFormed g)
    (hh : ∀ n ∈ g.nonterms, hygienicName n = true) :
    ∀ n ∈ g0.nonterms, hygienicName n = true ∨ n = g0.start := by
  obtain ⟨g1, g2, h1, h2, h3⟩ := elimCycles_ok h
  have n1 : ∀ n ∈ g1.nonterms, hygienicName n = true ∨ n = g1.start := by
    obtain ⟨nul, _, hcase⟩ := elimEmpty_ok h1
    rcases hcase with ⟨_, rfl⟩ | ⟨_, s', _, rfl⟩
    · intro n hn
      have := prune_nonterms_subset _ n hn
      exact Or.inl (hh n this)
    · intro n hn
      have := prune_nonterms_subset _ n hn
      simp only [List.mem_append, List.mem_singleton] at this
      rcases this with h | h
      · exact Or.inl (hh n h)
      · right; rw [prune_start]; exact h
  have n2 : ∀ n ∈ g2.nonterms, hygienicName n = true ∨ n = g2.start := by
    obtain ⟨cl, _, rfl⟩ := elimSingle_ok h2
    intro n hn
    rw [prune_start]
    have := prune_nonterms_subset _ n hn
    exact n1 n this
  have w2 : WellFormed g2 := elimSingle_wf h2 (elimEmpty_wf h1 hw)
  obtain ⟨r, hr, hs, hn, _, _⟩ := elimUnreachable_ok h3
  intro n hnm
  rw [hn] at hnm
  rw [hs]
  exact n2 n (reach_declared w2 ((reachable_exact hr n).1 hnm))

/-! ## the names the loop declares -/

/-- every declared name is hygienic, or `x`, or the name given to a processed non-terminal -/
def NamesInv (x : String) (done : List String) (g : G) : Prop :=
  ∃ alloc : String → String,
    (∀ n, n ∈ g.nonterms → hygienicName n = true ∨ n = x ∨ ∃ B, B ∈ done ∧ n = alloc B) ∧
    (∀ B, B ∈ done → ∃ s, s ∈ primes ∧ alloc B = baseOf B ++ s)

theorem lrSubst_nonterms (g : G) (Ai Aj : String) : (lrSubst g Ai Aj).nonterms = g.nonterms := by
  unfold lrSubst
  simp only
  split <;> rfl

theorem lrSubst_fold_nonterms (Ai : String) (done : List String) (g : G) :
    (done.foldl (fun g Aj => lrSubst g Ai Aj) g).nonterms = g.nonterms := by
  induction done generalizing g with
  | nil => rfl
  | cons Aj done ih => simp only [List.foldl_cons]; rw [ih, lrSubst_nonterms]

/-- four pairwise different things do not fit into three -/
theorem four_in_three {α : Type} {c1 c2 c3 c4 u v w : α}
    (h12 : c1 ≠ c2) (h13 : c1 ≠ c3) (h14 : c1 ≠ c4) (h23 : c2 ≠ c3) (h24 : c2 ≠ c4) (h34 : c3 ≠ c4)
    (m1 : c1 = u ∨ c1 = v ∨ c1 = w) (m2 : c2 = u ∨ c2 = v ∨ c2 = w) (m3 : c3 = u ∨ c3 = v ∨ c3 = w)
    (m4 : c4 = u ∨ c4 = v ∨ c4 = w) : False := by
  rcases m1 with rfl | rfl | rfl <;> rcases m2 with rfl | rfl | rfl <;> rcases m3 with rfl | rfl | rfl <;>
    rcases m4 with rfl | rfl | rfl <;> simp_all

/-- a prime-suffixed name is free for `Ai` -/
theorem candidate_free {x : String} {nts done : List String} {g : G} {Ai : String}
    (hnts : ∀ B, B ∈ nts → hygienicName B = true ∨ B = x) (hdone : ∀ B, B ∈ done → B ∈ nts)
    (hinv : NamesInv x done g) :
    ∃ s, s ∈ primes ∧ baseOf Ai ++ s ∉ g.nonterms := by
  obtain ⟨alloc, ha1, ha2⟩ := hinv
  -- a taken candidate is one of three names
  have taken : ∀ s, s ∈ primes → baseOf Ai ++ s ∈ g.nonterms →
      baseOf Ai ++ s = x ∨ baseOf Ai ++ s = alloc (baseOf Ai) ∨ baseOf Ai ++ s = alloc x := by
    intro s hs hm
    rcases ha1 _ hm with hh | he | ⟨B, hB, he⟩
    · rw [not_hyg_append _ (primes_reserved s hs)] at hh; cases hh
    · exact Or.inl he
    · obtain ⟨s', hs', hal⟩ := ha2 B hB
      have hb : baseOf Ai = baseOf B := (append_prime_inj hs hs' (he.trans hal)).1
      rcases hnts B (hdone B hB) with hhB | hBx
      · right; left
        rw [he, hb, baseOf_hyg hhB]
      · right; right
        rw [he, hBx]
  apply Classical.byContradiction
  intro hno
  have all : ∀ s, s ∈ primes → baseOf Ai ++ s ∈ g.nonterms := by
    intro s hs
    apply Classical.byContradiction
    intro hn
    exact hno ⟨s, hs, hn⟩
  have ne : ∀ {s s' : String}, s ∈ primes → s' ∈ primes → s ≠ s' → baseOf Ai ++ s ≠ baseOf Ai ++ s' :=
    fun hs hs' hne e => hne (append_prime_inj hs hs' e).2
  have m1 : "′" ∈ primes := by decide
  have m2 : "″" ∈ primes := by decide
  have m3 : "‴" ∈ primes := by decide
  have m4 : "⁗" ∈ primes := by decide
  exact four_in_three (ne m1 m2 (by decide)) (ne m1 m3 (by decide)) (ne m1 m4 (by decide))
    (ne m2 m3 (by decide)) (ne m2 m4 (by decide)) (ne m3 m4 (by decide))
    (taken _ m1 (all _ m1)) (taken _ m2 (all _ m2)) (taken _ m3 (all _ m3)) (taken _ m4 (all _ m4))

theorem lrImmediate_total {x : String} {nts done : List String} {g : G} {Ai : String}
    (hnts : ∀ B, B ∈ nts → hygienicName B = true ∨ B = x) (hdone : ∀ B, B ∈ done → B ∈ nts)
    (hAi : Ai ∉ done) (hinv : NamesInv x done g) :
    ∃ g', lrImmediate g Ai = .ok g' ∧ NamesInv x (done ++ [Ai]) g' := by
  have widen : NamesInv x (done ++ [Ai]) g := by
    obtain ⟨alloc, ha1, ha2⟩ := hinv
    refine ⟨fun B => if B = Ai then baseOf Ai ++ "′" else alloc B, ?_, ?_⟩
    · intro n hn
      rcases ha1 n hn with h | h | ⟨B, hB, h⟩
      · exact Or.inl h
      · exact Or.inr (Or.inl h)
      · refine Or.inr (Or.inr ⟨B, by simp [hB], ?_⟩)
        have : B ≠ Ai := fun e => hAi (e ▸ hB)
        simp [this, h]
    · intro B hB
      by_cases e : B = Ai
      · subst e; exact ⟨"′", by decide, by simp⟩
      · rcases List.mem_append.1 hB with hB | hB
        · simpa [e] using ha2 B hB
        · simp at hB; exact absurd hB e
  by_cases hany : (prodsOf g.prods Ai).any isLeftRec = true
  · obtain ⟨s, hs, hfree⟩ := candidate_free (Ai := Ai) hnts hdone hinv
    obtain ⟨r, hr⟩ := addNew_total_of_exists (g := g) (pre := Ai) (sufs := primes) ⟨s, hs, hfree⟩
    obtain ⟨g1, A'⟩ := r
    obtain ⟨s', hs', hA'⟩ := addNew_shape hr
    obtain ⟨_, rfl⟩ := addNew_ok hr
    have hres : lrImmediate g Ai = .ok
        { terms := g.terms, nonterms := g.nonterms ++ [A'], start := g.start,
          prods := ins (insAll (insAll (g.prods.filter (fun p => p.head ≠ Ai))
            (((prodsOf g.prods Ai).filter (fun p => !isLeftRec p)).map
              (fun p => ({ head := Ai, body := p.body ++ [Sym.nonterm A'] } : SProd))))
            (((prodsOf g.prods Ai).filter isLeftRec).map
              (fun p => ({ head := A', body := p.body.tail ++ [Sym.nonterm A'] } : SProd))))
            { head := A', body := [] } } := by
      unfold lrImmediate
      simp only [hany, if_true, hr, bind, Outcome.bind, pure]
    refine ⟨_, hres, ?_⟩
    obtain ⟨alloc, ha1, ha2⟩ := hinv
    refine ⟨fun B => if B = Ai then A' else alloc B, ?_, ?_⟩
    · intro n hn
      simp only [List.mem_append, List.mem_singleton] at hn
      rcases hn with hn | hn
      · rcases ha1 n hn with h | h | ⟨B, hB, h⟩
        · exact Or.inl h
        · exact Or.inr (Or.inl h)
        · refine Or.inr (Or.inr ⟨B, by simp [hB], ?_⟩)
          have : B ≠ Ai := fun e => hAi (e ▸ hB)
          simp [this, h]
      · exact Or.inr (Or.inr ⟨Ai, by simp, by simp [hn]⟩)
    · intro B hB
      by_cases e : B = Ai
      · subst e; exact ⟨s', hs', by simpa [baseOf] using hA'⟩
      · rcases List.mem_append.1 hB with hB | hB
        · simpa [e] using ha2 B hB
        · simp at hB; exact absurd hB e
  · refine ⟨g, ?_, widen⟩
    unfold lrImmediate
    simp only [hany, Bool.false_eq_true, if_false, pure]

theorem lrLoop_total {x : String} {nts : List String} (hnd : nts.Nodup)
    (hnts : ∀ B, B ∈ nts → hygienicName B = true ∨ B = x) :
    ∀ (rest done : List String) (g : G), nts = done ++ rest → NamesInv x done g →
      ∃ g', lrLoop done rest g = .ok g' := by
  intro rest
  induction rest with
  | nil => intro done g _ _; exact ⟨g, rfl⟩
  | cons Ai rest ih =>
    intro done g hsplit hinv
    have hnd' : (done ++ Ai :: rest).Nodup := hsplit ▸ hnd
    have hAid : Ai ∉ done := by
      intro hmem
      exact (List.nodup_append.1 hnd').2.2 Ai hmem Ai (by simp) rfl
    have hdone : ∀ B, B ∈ done → B ∈ nts := by intro B hB; rw [hsplit]; simp [hB]
    have hinv1 : NamesInv x done (done.foldl (fun g Aj => lrSubst g Ai Aj) g) := by
      obtain ⟨alloc, ha1, ha2⟩ := hinv
      exact ⟨alloc, by rw [lrSubst_fold_nonterms]; exact ha1, ha2⟩
    obtain ⟨g2, h2, hinv2⟩ := lrImmediate_total hnts hdone hAid hinv1
    obtain ⟨g', hg'⟩ := ih (done ++ [Ai]) g2 (by rw [hsplit]; simp) hinv2
    refine ⟨g', ?_⟩
    simp only [lrLoop, h2, bind, Outcome.bind]
    exact hg'

/-- `EliminateLeftRecursion` returns a grammar -/
theorem elimLeftRec_total {g : G} (hv : Valid g) (hh : Hygienic g) (hl : ∃ w, Language g w) :
    ∃ g', elimLeftRec g = .ok g' := by
  obtain ⟨g0, h0⟩ := elimCycles_total hv hh hl
  obtain ⟨nts, hn⟩ := orderNT_total g0
  have hw0 := elimCycles_wf h0 hv.wellFormed
  obtain ⟨hnd, hmem⟩ := orderNT_spec hn hw0 (elimCycles_nodup h0)
  have names := elimCycles_names h0 hv.wellFormed hh.1
  have hnts : ∀ B, B ∈ nts → hygienicName B = true ∨ B = g0.start :=
    fun B hB => names B ((hmem B).1 hB)
  have hinit : NamesInv g0.start [] g0 :=
    ⟨fun B => B, fun n hn => by
      rcases names n hn with h | h
      · exact Or.inl h
      · exact Or.inr (Or.inl h), fun B hB => by cases hB⟩
  obtain ⟨g1, h1⟩ := lrLoop_total hnd hnts nts [] g0 (by simp) hinit
  refine ⟨prune g1, ?_⟩
  unfold elimLeftRec
  simp only [h0, hn, h1, bind, Outcome.bind, pure]

/-- **Totality and correctness of `EliminateLeftRecursion` in one statement**: for every valid hygienic
grammar with a non-empty language the Model returns a grammar (no panic: a prime-suffixed name is always
free; no divergence), with the same language and without left recursion. -/
theorem C08_leftrec_total (g : G) (hv : Valid g) (hh : Hygienic g) (hl : ∃ w, Language g w) :
    ∃ g', elimLeftRec g = .ok g' ∧ SameLanguage g g' ∧ NoLeftRecursion g' := by
  obtain ⟨g', hg'⟩ := elimLeftRec_total hv hh hl
  exact ⟨g', hg', C08_leftrec g g' hv hg', C09_leftrec_noLeftRecursion g g' hv hg'⟩

end AlgoVerif.C08
