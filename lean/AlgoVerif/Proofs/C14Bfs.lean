import AlgoVerif.Proofs.C14PathsTop
/-!
# C14 proofs — BFS paths have the fewest edges

Level of a visited vertex = length of its `edgeTo` chain.  Invariant of the queue loop: the queue is sorted
by level, every visited vertex is at most one level above any queued vertex, and every arc out of a
processed vertex climbs at most one level.  At the end every arc climbs at most one level, so the level
is at most the length of any walk from the source.
-/
namespace AlgoVerif.C14

theorem Chain.vis_src {g : Graph} {s : Nat} {a : Array Bool} {et : Array Nat} {x k : Nat}
    (h : Chain g s a et x k) : Vis a s := by
  induction h with
  | base h => exact h
  | step _ _ _ _ _ ih => exact ih

theorem Chain.unique {g : Graph} {s : Nat} {a : Array Bool} {et : Array Nat} {x k k' : Nat}
    (h : Chain g s a et x k) (h' : Chain g s a et x k') : k = k' := by
  induction h generalizing k' with
  | base _ =>
    cases h' with
    | base _ => rfl
    | step hne _ _ _ _ => exact absurd rfl hne
  | step hne _ het _ _ ih =>
    cases h' with
    | base _ => exact absurd rfl hne
    | step _ _ het' _ hc' =>
      rw [het] at het'
      cases het'
      rw [ih hc']

section

variable {g : Graph} {s : Nat}

/-- sortedness of the queue by level -/
def QSorted (g : Graph) (s : Nat) (a : Array Bool) (et : Array Nat) (fr : List Nat) : Prop :=
  fr.Pairwise (fun x y => ∀ kx ky, Chain g s a et x kx → Chain g s a et y ky → kx ≤ ky)

structure BfsJ (g : Graph) (s : Nat) (a : Array Bool) (et : Array Nat) (fr : List Nat) : Prop where
  arcs : ∀ x y kx ky, Vis a x → x ∉ fr → g.HasArc x y → Chain g s a et x kx → Chain g s a et y ky → ky ≤ kx + 1
  near : ∀ x ∈ fr, ∀ y kx ky, Chain g s a et x kx → Chain g s a et y ky → ky ≤ kx + 1
  sorted : QSorted g s a et fr

structure BfsJIn (g : Graph) (s v : Nat) (a : Array Bool) (et : Array Nat) (fr : List Nat) : Prop where
  arcs : ∀ x y kx ky, Vis a x → x ∉ fr → x ≠ v → g.HasArc x y → Chain g s a et x kx → Chain g s a et y ky → ky ≤ kx + 1
  near : ∀ y kv ky, Chain g s a et v kv → Chain g s a et y ky → ky ≤ kv + 1
  above : ∀ x ∈ fr, ∀ kv kx, Chain g s a et v kv → Chain g s a et x kx → kv ≤ kx
  sorted : QSorted g s a et fr

/-- levels after discovering `w` from `v` -/
theorem chain_after_disc {a : Array Bool} {et : Array Nat} {v w : Nat}
    (hin : IterIn g s v a et fr) (hunv : a[w]? = some false) (hw : w < g.n) {x k : Nat}
    (h : Chain g s (a.set! w true) (et.set! w v) x k) :
    (x = w ∧ ∃ kv, Chain g s a et v kv ∧ k = kv + 1) ∨ (x ≠ w ∧ Chain g s a et x k) := by
  have hmono : ∀ {y j}, Chain g s a et y j → Chain g s (a.set! w true) (et.set! w v) y j := by
    intro y j hc
    refine hc.mono (fun z hz => vis_set_of_vis hz) ?_
    intro z hz
    have : w ≠ z := by intro e; subst e; exact not_vis_of_false hunv hz
    exact getElem?_set!_ne _ _ this
  by_cases hxw : x = w
  · subst hxw
    left
    refine ⟨rfl, ?_⟩
    obtain ⟨kv, hcv, _⟩ := hin.pinv.2 v hin.self
    refine ⟨kv, hcv, ?_⟩
    cases h with
    | base _ => exact absurd hcv.vis_src (not_vis_of_false hunv)
    | step _ _ het _ hc =>
      have : (et.set! x v)[x]? = some v := getElem?_set!_self _ _ (by rw [hin.pinv.1]; exact hw)
      rw [this] at het
      cases het
      rw [(hmono hcv).unique hc]
  · right
    refine ⟨hxw, ?_⟩
    have hvx : Vis a x := by
      rcases vis_set.1 h.vis with ⟨e, _⟩ | h'
      · exact absurd e.symm hxw
      · exact h'
    obtain ⟨k0, hc0, _⟩ := hin.pinv.2 x hvx
    rw [(hmono hc0).unique h] at hc0
    exact hc0

end

theorem bfs_levels {g : Graph} (hg : g.WF) (s : Nat) (hs : s < g.n) :
    ∃ st, iter pushQueue g pathsVisitors s ⟨Array.replicate g.n false, Array.replicate g.n 0⟩ = .ok st ∧
      PathsOK g s ⟨(s : Int), st.visited, st.s⟩ ∧
      ∀ x y kx ky, Vis st.visited x → g.HasArc x y → Chain g s st.visited st.s x kx →
        Chain g s st.visited st.s y ky → ky ≤ kx + 1 := by
  let a0 := Array.replicate g.n false
  let et0 := Array.replicate g.n 0
  have hunv : a0[s]? = some false := replicate_false_get hs
  have hslt : s < a0.size := by simp [a0, hs]
  have hp := pushQueue_ok
  have hinv0 : IterInv g s (a0.set! s true) et0 (pushQueue s []) :=
    { size := by rw [size_set!]; simp [a0]
      pinv := (pinv_init g s).enter (by simp) hunv (Or.inl rfl)
      front := by
        intro x hx
        rcases (hp.mem _ _ _).1 hx with rfl | h
        · exact vis_set_self hslt
        · simp at h
      closed := by
        intro x hx hnf
        rcases vis_set.1 hx with ⟨rfl, _⟩ | h
        · exact absurd ((hp.mem _ _ _).2 (Or.inl rfl)) hnf
        · exact absurd h vis_replicate_false }
  have hfuel : (pushQueue s []).length + cntF (a0.set! s true) ≤ g.n + 1 := by
    have h1 := cntF_set hunv
    have h2 : cntF a0 ≤ g.n := by
      have := cntF_le_size a0
      simpa [a0] using this
    have h3 := hp.len s []
    simp at h3
    omega
  -- only `s` is visited at the start
  have honly : ∀ x, Vis (a0.set! s true) x → x = s := by
    intro x hx
    rcases vis_set.1 hx with ⟨e, _⟩ | h
    · exact e.symm
    · exact absurd h vis_replicate_false
  have hj0 : BfsJ g s (a0.set! s true) et0 (pushQueue s []) :=
    { arcs := by
        intro x y kx ky hx hnf
        have := honly x hx
        subst this
        exact absurd ((hp.mem _ _ _).2 (Or.inl rfl)) hnf
      near := by
        intro x _ y kx ky hcx hcy
        have e1 := honly x hcx.vis
        have e2 := honly y hcy.vis
        subst e1; subst e2
        rw [hcx.unique hcy]; omega
      sorted := by simp [QSorted, pushQueue] }
  obtain ⟨st, h1, h2, h3, h4⟩ :=
    iterLoop_paths pushQueue hp g hg s (BfsJ g s) (BfsJIn g s)
      (by
        intro a et v fr hinv hj
        exact
          { arcs := fun x y kx ky hx hnf hxv => hj.arcs x y kx ky hx (by simp [hnf, hxv])
            near := fun y kv ky hcv hcy => hj.near v (by simp) y kv ky hcv hcy
            above := by
              intro x hx kv kx hcv hcx
              have := hj.sorted
              simp only [QSorted, List.pairwise_cons] at this
              exact this.1 x hx kv kx hcv hcx
            sorted := by
              have := hj.sorted
              simp only [QSorted, List.pairwise_cons] at this
              exact this.2 })
      (by
        intro v a et fr w hin hj hunvw harc
        have hw : w < g.n := hg.arc_lt harc
        have T := @chain_after_disc g s fr a et v w hin hunvw hw
        obtain ⟨kv0, hcv0, _⟩ := hin.pinv.2 v hin.self
        exact
          { arcs := by
              intro x y kx ky hx hnf hxv hxy hcx hcy
              have hxw : x ≠ w := fun e => hnf ((hp.mem _ _ _).2 (Or.inl e))
              have hxf : x ∉ fr := fun e => hnf ((hp.mem _ _ _).2 (Or.inr e))
              have hxa : Vis a x := by
                rcases vis_set.1 hx with ⟨e, _⟩ | h
                · exact absurd e.symm hxw
                · exact h
              rcases T hcx with ⟨e, _⟩ | ⟨_, hcx'⟩
              · exact absurd e hxw
              rcases T hcy with ⟨e, _⟩ | ⟨_, hcy'⟩
              · subst e
                exact absurd (hin.closed x hxa hxf hxv _ hxy) (not_vis_of_false hunvw)
              · exact hj.arcs x y kx ky hxa hxf hxv hxy hcx' hcy'
            near := by
              intro y kv ky hcv hcy
              rcases T hcv with ⟨e, _⟩ | ⟨_, hcv'⟩
              · subst e; exact absurd hin.self (not_vis_of_false hunvw)
              rcases T hcy with ⟨_, kv', hcv'', e⟩ | ⟨_, hcy'⟩
              · rw [e, hcv'.unique hcv'']; omega
              · exact hj.near y kv ky hcv' hcy'
            above := by
              intro x hx kv kx hcv hcx
              rcases T hcv with ⟨e, _⟩ | ⟨_, hcv'⟩
              · subst e; exact absurd hin.self (not_vis_of_false hunvw)
              rcases T hcx with ⟨_, kv', hcv'', e⟩ | ⟨_, hcx'⟩
              · rw [e, hcv'.unique hcv'']; omega
              · rcases (hp.mem _ _ _).1 hx with e | hxf
                · subst e; exact absurd hcx'.vis (not_vis_of_false hunvw)
                · exact hj.above x hxf kv kx hcv' hcx'
            sorted := by
              show QSorted g s _ _ (fr ++ [w])
              unfold QSorted
              rw [List.pairwise_append]
              refine ⟨?_, by simp, ?_⟩
              · have := hj.sorted
                unfold QSorted at this
                refine this.imp_of_mem ?_
                intro x y hx hy hxy kx ky hcx hcy
                rcases T hcx with ⟨e, _⟩ | ⟨_, hcx'⟩
                · subst e; exact absurd (hin.front _ hx) (not_vis_of_false hunvw)
                rcases T hcy with ⟨e, _⟩ | ⟨_, hcy'⟩
                · subst e; exact absurd (hin.front _ hy) (not_vis_of_false hunvw)
                exact hxy kx ky hcx' hcy'
              · intro x hx y hy kx ky hcx hcy
                have : y = w := by simpa using hy
                subst this
                rcases T hcx with ⟨e, _⟩ | ⟨_, hcx'⟩
                · subst e; exact absurd (hin.front _ hx) (not_vis_of_false hunvw)
                rcases T hcy with ⟨_, kv', hcv'', e⟩ | ⟨ne, _⟩
                · rw [e]
                  have := hj.near x kv' kx hcv'' hcx'
                  omega
                · exact absurd rfl ne })
      (by
        intro v a et fr hin hj _
        obtain ⟨kv, hcv, _⟩ := hin.pinv.2 v hin.self
        exact
          { arcs := by
              intro x y kx ky hx hnf hxy hcx hcy
              by_cases hxv : x = v
              · subst hxv
                exact hj.near y kx ky hcx hcy
              · exact hj.arcs x y kx ky hx hnf hxv hxy hcx hcy
            near := by
              intro x hx y kx ky hcx hcy
              have h1 := hj.above x hx kv kx hcv hcx
              have h2 := hj.near y kv ky hcv hcy
              omega
            sorted := hj.sorted })
      (g.n + 1) ⟨a0.set! s true, et0⟩ (pushQueue s []) hinv0 hj0 hfuel
  refine ⟨st, ?_, ⟨rfl, h2.size, h2.pinv, ?_⟩, ?_⟩
  · unfold iter
    have : s < (Array.replicate g.n false).size := by simp [hs]
    simp only [this, if_true]
    exact h1
  · apply vis_iff_of_closed h2.pinv (h4 s (vis_set_self hslt))
    intro x hx y hy
    exact h2.closed x hx (by simp) y hy
  · intro x y kx ky hx hxy hcx hcy
    exact h3.arcs x y kx ky hx (by simp) hxy hcx hcy

theorem WalkLen.reach {E : Nat → Nat → Prop} {u v m : Nat} (h : WalkLen E u m v) : Reach E u v := by
  induction h with
  | zero => exact .refl _
  | succ _ e ih => exact .tail ih e

/-- the level of a vertex is at most the length of any walk from the source -/
theorem level_le_walk {g : Graph} {s : Nat} {a : Array Bool} {et : Array Nat}
    (hinv : PInv g s a et) (hvis : ∀ v, Vis a v ↔ Reach g.HasArc s v)
    (harcs : ∀ x y kx ky, Vis a x → g.HasArc x y → Chain g s a et x kx → Chain g s a et y ky → ky ≤ kx + 1)
    {m x : Nat} (hw : WalkLen g.HasArc s m x) : ∀ k, Chain g s a et x k → k ≤ m := by
  induction hw with
  | zero =>
    intro k hc
    have := hc.unique (.base hc.vis_src)
    omega
  | @succ m y x hwy e ih =>
    intro k hc
    have hry : Reach g.HasArc s y := hwy.reach
    have hvy := (hvis y).2 hry
    obtain ⟨ky, hcy, _⟩ := hinv.2 y hvy
    have := ih ky hcy
    have := harcs y x ky k hvy e hcy hc
    omega

/-- `To(v)` with the number of vertices of the answer -/
theorem to_spec_len {g : Graph} {s : Nat} (p : Paths) (hps : p.s = (s : Int))
    (hsize : p.visited.size = g.n) (hinv : PInv g s p.visited p.edgeTo) (v : Nat) (hvis : Vis p.visited v) :
    ∃ path k, p.to (v : Int) = .ok (some path) ∧ Chain g s p.visited p.edgeTo v k ∧ path.length = k + 1 := by
  obtain ⟨k, hc, hk⟩ := hinv.2 v hvis
  obtain ⟨l, h1, h2, _⟩ := toLoop_chain hc p hps rfl (p.visited.size + 1) [] (by omega)
  refine ⟨s :: l, k, ?_, hc, by simp [h2]⟩
  have : p.visited[v]? = some true := hvis
  simp [Paths.to, this, h1, hps]

/-- BFS: the answer of `To(v)` has at most as many edges as any walk from `s` to `v` -/
theorem bfs_fewest {g : Graph} (hg : g.WF) (s : Nat) (hs : s < g.n) (p : Paths)
    (hp : g.paths (s : Int) .bfs = .ok p) (v : Nat) (path : List Nat)
    (hto : p.to (v : Int) = .ok (some path)) (m : Nat) (hw : WalkLen g.HasArc s m v) :
    path.length ≤ m + 1 := by
  obtain ⟨st, h1, h2, h3⟩ := bfs_levels hg s hs
  have hvalid : g.isVertexValid (s : Int) = true := by rw [isVertexValid_nat]; simp [hs]
  have hpe : p = ⟨(s : Int), st.visited, st.s⟩ := by
    have : g.paths (s : Int) .bfs = .ok ⟨(s : Int), st.visited, st.s⟩ := by
      simp only [Graph.paths, hvalid, if_true, Int.toNat_natCast, traverse, h1]
    rw [this] at hp
    exact (Outcome.ok.inj hp).symm
  subst hpe
  have hr : Reach g.HasArc s v := hw.reach
  have hvis := (h2.vis_iff v).2 hr
  obtain ⟨path', k, k1, k2, k3⟩ := to_spec_len _ h2.src h2.size h2.pinv v hvis
  rw [k1] at hto
  have : path' = path := by simpa using hto
  subst this
  have := level_le_walk h2.pinv h2.vis_iff h3 hw k k2
  omega

end AlgoVerif.C14
