import AlgoVerif.Proofs.C11Lalr
/-!
# C11 — the LALR(1) table: provenance of its entries and validity

`findSuperset` (since the D17 patch: a superset *with the same core*) is what makes every kernel item of the target
of a transition the advanced version of an item of the source state.
-/
namespace AlgoVerif.C11.Built
open AlgoVerif AlgoVerif.Gram AlgoVerif.C11 AlgoVerif.C11.Spec

/-! ## generic provenance bookkeeping -/

def ProvG (PA : Int → String → Action → Prop) (PG : Int → String → Int → Prop) (T : Table) : Prop :=
  (∀ e ∈ T.actions, ∀ act ∈ e.2, PA e.1.1 e.1.2 act) ∧ (∀ e ∈ T.gotos, PG e.1.1 e.1.2 e.2)

theorem addAction_provG {PA : Int → String → Action → Prop} {PG : Int → String → Int → Prop} {T : Table}
    {s : Int} {a : String} {act : Action} (hT : ProvG PA PG T) (hact : PA s a act) :
    ProvG PA PG (T.addAction s a act) := by
  unfold Table.addAction
  split
  · refine ⟨?_, hT.2⟩
    intro e he x hx
    simp only [List.mem_map] at he
    obtain ⟨e0, he0, rfl⟩ := he
    by_cases hk : (e0.1 == (s, a)) = true
    · simp only [hk, if_true] at hx ⊢
      have hkey : e0.1 = (s, a) := by simpa using hk
      rcases mem_addNew.mp hx with h1 | h1
      · exact hT.1 e0 he0 x h1
      · rw [h1, hkey]; exact hact
    · simp only [hk] at hx ⊢
      exact hT.1 e0 he0 x hx
  · refine ⟨?_, hT.2⟩
    intro e he x hx
    rcases List.mem_append.mp he with h1 | h1
    · exact hT.1 e h1 x hx
    · simp at h1
      subst h1
      simp at hx
      subst hx
      exact hact

theorem setGoto_provG {PA : Int → String → Action → Prop} {PG : Int → String → Int → Prop} {T : Table}
    {s : Int} {X : String} {t : Int} (hT : ProvG PA PG T) (hg : PG s X t) : ProvG PA PG (T.setGoto s X t) := by
  unfold Table.setGoto
  split
  · exact hT
  · split
    · refine ⟨hT.1, ?_⟩
      intro e he
      simp only [List.mem_map] at he
      obtain ⟨e0, he0, rfl⟩ := he
      by_cases hk : (e0.1 == (s, X)) = true
      · simp only [hk, if_true]
        have hkey : e0.1 = (s, X) := by simpa using hk
        rw [hkey]; exact hg
      · simp only [hk]
        exact hT.2 e0 he0
    · refine ⟨hT.1, ?_⟩
      intro e he
      rcases List.mem_append.mp he with h1 | h1
      · exact hT.2 e h1
      · simp at h1; subst h1; exact hg

theorem foldl_addAction_provG {PA : Int → String → Action → Prop} {PG : Int → String → Int → Prop} {s : Int} {p : Pr}
    (hact : ∀ a, PA s a (Action.reduce p)) :
    ∀ (l : List String) (T : Table), ProvG PA PG T →
      ProvG PA PG (l.foldl (fun T a => T.addAction s a (Action.reduce p)) T)
  | [], T, hT => by simpa using hT
  | a :: l, T, hT => by
    simp only [List.foldl_cons]
    exact foldl_addAction_provG hact l _ (addAction_provG hT (hact a))

/-! ## provenance of the LALR table -/

def ActOKL (A : Auto) (S : StateMap) (s : Int) (a : String) (act : Action) : Prop :=
  ∃ (i : Nat) (I c : List Item), s = (i : Int) ∧ S[i]? = some I ∧ A.closure I = Outcome.ok c ∧
    match act with
    | .shift j => ∃ item ∈ c, item.dotSym = some (Sym.term a) ∧
        ∃ J, A.goto I (Sym.term a) = Outcome.ok J ∧ j = findSuperset S J
    | .reduce p => ∃ item ∈ c, item.prod = p ∧ item.isComplete = true ∧ item.isFinal A.g.start = false
    | .accept => a = endmarker ∧ ∃ item ∈ c, item.isFinal A.g.start = true

def GotoOKL (A : Auto) (S : StateMap) (s : Int) (X : String) (t : Int) : Prop :=
  ∃ (i : Nat) (I : List Item), s = (i : Int) ∧ S[i]? = some I ∧
    ∃ J, A.goto I (Sym.nonterm X) = Outcome.ok J ∧ t = findSuperset S J

abbrev ProvL (A : Auto) (S : StateMap) (T : Table) : Prop := ProvG (ActOKL A S) (GotoOKL A S) T

theorem itemActions_provL {A : Auto} {S : StateMap} {T T' : Table} {i : Nat} {I c : List Item} {item : Item}
    (reduceOn : Item → List String) (hT : ProvL A S T) (hI : S[i]? = some I) (hc : A.closure I = Outcome.ok c)
    (hitem : item ∈ c)
    (hr : itemActions A.g.start (i : Int) item
      (fun a => A.goto I (Sym.term a) >>= fun J => pure (findSuperset S J)) reduceOn T = Outcome.ok T') :
    ProvL A S T' := by
  unfold itemActions at hr
  obtain ⟨T1, hT1, hrest⟩ := bind_eq_ok hr
  rw [← pure_eq_ok hrest]
  have hP1 : ProvL A S T1 := by
    unfold itemShift at hT1
    split at hT1
    · rename_i a hd
      obtain ⟨j, hj, hrest1⟩ := bind_eq_ok hT1
      obtain ⟨J, hJ, hrest2⟩ := bind_eq_ok hj
      rw [← pure_eq_ok hrest1]
      have hjeq : findSuperset S J = j := pure_eq_ok hrest2
      exact addAction_provG hT ⟨i, I, c, rfl, hI, hc, item, hitem, hd, J, hJ, hjeq.symm⟩
    · rw [← pure_eq_ok hT1]; exact hT
  unfold itemReduce
  have h1 : ProvL A S (if (item.isComplete && !item.isFinal A.g.start) = true then
      (reduceOn item).foldl (fun T a => T.addAction (i : Int) a (Action.reduce item.prod)) T1 else T1) := by
    split
    · rename_i hcnd
      simp only [Bool.and_eq_true, Bool.not_eq_true'] at hcnd
      exact foldl_addAction_provG (fun a => ⟨i, I, c, rfl, hI, hc, item, hitem, rfl, hcnd.1, hcnd.2⟩) _ T1 hP1
    · exact hP1
  simp only
  split
  · rename_i hf
    exact addAction_provG h1 ⟨i, I, c, rfl, hI, hc, rfl, item, hitem, hf⟩
  · exact h1

/-- the closures recorded for the processed kernels -/
def RowsRel (A : Auto) (start : String) (l cs : List (List Item)) : Prop :=
  cs.length = l.length ∧
    ∀ (k : Nat) (I : List Item), l[k]? = some I →
      ∃ c, A.closure I = Outcome.ok c ∧ cs[k]? = some (sortBy (cmpItem start) c)

theorem rowsL_spec (g' : SGrammar) (A : Auto) (hAg : A.g = g') (S : StateMap) :
    ∀ (l : List (List Item)) (i : Nat) (T : Table) (cl : List (List Item)) (T' : Table) (cl' : List (List Item)),
      (∀ k I, l[k]? = some I → S[i + k]? = some I) → ProvL A S T →
      buildLALR.rows g' A S l i T cl = Outcome.ok (T', cl') →
      ProvL A S T' ∧ ∃ cs, cl' = cl ++ cs ∧ RowsRel A g'.start l cs
  | [], _, T, cl, T', cl', _, hT, hr => by
    unfold buildLALR.rows at hr
    have := pure_eq_ok hr
    simp only [Prod.mk.injEq] at this
    obtain ⟨rfl, rfl⟩ := this
    exact ⟨hT, [], by simp, rfl, by intro k I hk; simp at hk⟩
  | I :: rest, i, T, cl, T', cl', hl, hT, hr => by
    unfold buildLALR.rows at hr
    have hI : S[i]? = some I := by simpa using hl 0 I (by simp)
    obtain ⟨c, hc, hr0⟩ := bind_eq_ok hr
    obtain ⟨T1, hT1, hr1⟩ := bind_eq_ok hr0
    obtain ⟨T2, hT2, hr2⟩ := bind_eq_ok hr1
    have hstart : A.g.start = g'.start := by rw [hAg]
    have hP1 : ProvL A S T1 := by
      refine foldlM_inv _ (ProvL A S) c T T1 ?_ hT hT1
      intro b item b' hitem hb hstep
      rw [← hstart] at hstep
      exact itemActions_provL _ hb hI hc hitem hstep
    have hP2 : ProvL A S T2 := by
      refine foldlM_inv _ (ProvL A S) _ T1 T2 ?_ hP1 hT2
      intro b n b' _ hb hstep
      split at hstep
      · rw [← pure_eq_ok hstep]; exact hb
      · obtain ⟨J, hJ, hrest⟩ := bind_eq_ok hstep
        rw [← pure_eq_ok hrest]
        exact setGoto_provG hb ⟨i, I, rfl, hI, J, hJ, rfl⟩
    obtain ⟨hP3, cs, hcs, hrel⟩ := rowsL_spec g' A hAg S rest (i + 1) T2 _ T' cl' (by
      intro k I' hk
      have := hl (k + 1) I' (by simpa using hk)
      rw [show i + 1 + k = i + (k + 1) by omega]; exact this) hP2 hr2
    refine ⟨hP3, sortBy (cmpItem g'.start) c :: cs, by rw [hcs]; simp, ?_, ?_⟩
    · simp [hrel.1]
    · intro k I' hk
      cases k with
      | zero =>
        simp at hk
        subst hk
        exact ⟨c, hc, by simp⟩
      | succ k =>
        obtain ⟨c', hc', hcs'⟩ := hrel.2 k I' (by simpa using hk)
        exact ⟨c', hc', by simpa using hcs'⟩

end AlgoVerif.C11.Built
