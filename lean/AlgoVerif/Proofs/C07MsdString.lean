import AlgoVerif.Proofs.C07StrCommon
import AlgoVerif.Proofs.C07CountList
/-!
# C07 — MSD string sort (`radixsort/msd.go`, `MSDString`)
-/
namespace AlgoVerif.C07
open AlgoVerif AlgoVerif.Generated

variable {α : Type}

/-! ## the stable bucket concatenation in the order `0, 1, …, R-1` -/

theorem cntLt_mono (k : α → Nat) (l : List α) {r r' : Nat} (h : r ≤ r') : cntLt k l r ≤ cntLt k l r' := by
  unfold cntLt
  apply List.countP_mono_left
  intro x _ hx
  simp only [decide_eq_true_eq] at hx ⊢
  omega

theorem exists_bucket (k : α → Nat) (l : List α) : ∀ (R t : Nat), t < cntLt k l R →
    ∃ r, r < R ∧ cntLt k l r ≤ t ∧ t < cntLt k l (r+1) := by
  intro R
  induction R with
  | zero => intro t h; rw [cntLt_zero] at h; omega
  | succ R ih =>
    intro t h
    by_cases h' : t < cntLt k l R
    · obtain ⟨r, h1, h2, h3⟩ := ih t h'
      exact ⟨r, by omega, h2, h3⟩
    · exact ⟨R, by omega, by omega, h⟩

theorem bucketConcat_succ (k : α → Nat) (l : List α) (R : Nat) :
    bucketConcat k (List.range (R+1)) l = bucketConcat k (List.range R) l ++ bucket k l R := by
  simp [bucketConcat, List.range_succ]

theorem bucketConcat_length (k : α → Nat) (l : List α) (R : Nat) :
    (bucketConcat k (List.range R) l).length = cntLt k l R := by
  induction R with
  | zero => simp [bucketConcat, cntLt_zero]
  | succ R ih => rw [bucketConcat_succ, List.length_append, ih, bucket_length, cntLt_succ]

/-- position `t` of the concatenation lies in the bucket of its key -/
theorem bucketConcat_key (k : α → Nat) (l : List α) : ∀ (R r t : Nat), r < R → cntLt k l r ≤ t →
    t < cntLt k l (r+1) → ∃ x, (bucketConcat k (List.range R) l)[t]? = some x ∧ k x = r := by
  intro R
  induction R with
  | zero => intros; omega
  | succ R ih =>
    intro r t hr h1 h2
    rw [bucketConcat_succ]
    by_cases hrR : r < R
    · obtain ⟨x, hx, hk⟩ := ih r t hrR h1 h2
      refine ⟨x, ?_, hk⟩
      rw [List.getElem?_append_left]
      · exact hx
      · rw [bucketConcat_length]
        exact Nat.lt_of_lt_of_le h2 (cntLt_mono k l (by omega))
    · have : r = R := by omega
      subst this
      rw [List.getElem?_append_right (by rw [bucketConcat_length]; exact h1), bucketConcat_length]
      have hlen : t - cntLt k l r < (bucket k l r).length := by
        rw [bucket_length]; rw [cntLt_succ] at h2; omega
      refine ⟨(bucket k l r)[t - cntLt k l r], List.getElem?_eq_getElem hlen, ?_⟩
      have := List.getElem_mem hlen
      simp only [bucket, List.mem_filter, beq_iff_eq] at this
      exact this.2

theorem bucketConcat_perm_filter_lt (k : α → Nat) (l : List α) (R : Nat) :
    (bucketConcat k (List.range R) l).Perm (l.filter (fun x => decide (k x < R))) := by
  induction R with
  | zero => simp [bucketConcat]
  | succ R ih =>
    rw [bucketConcat_succ]
    have h := List.filter_append_perm (fun x => decide (k x < R)) (l.filter (fun x => decide (k x < R + 1)))
    rw [List.filter_filter, List.filter_filter] at h
    refine List.Perm.trans ?_ h
    have e1 : l.filter (fun x => decide (k x < R) && decide (k x < R + 1)) = l.filter (fun x => decide (k x < R)) := by
      apply List.filter_congr; intro x _
      by_cases hx : k x < R <;> simp [hx]; omega
    have e2 : l.filter (fun x => (!decide (k x < R)) && decide (k x < R + 1)) = bucket k l R := by
      unfold bucket
      apply List.filter_congr; intro x _
      by_cases hx : k x = R
      · simp [hx]
      · have : ¬ (k x == R) = true := by simpa using hx
        simp only [this]
        by_cases hx' : k x < R <;> simp [hx']; omega
    rw [e1, e2]
    exact ih.append_right _

theorem bucketConcat_perm_lt (k : α → Nat) (l : List α) (R : Nat) (h : ∀ x, x ∈ l → k x < R) :
    (bucketConcat k (List.range R) l).Perm l := by
  have := bucketConcat_perm_filter_lt k l R
  rwa [List.filter_eq_self.2 (by intro x hx; simpa using h x hx)] at this

/-! ## from "the segment is replaced by a permutation of itself" to `SegStep` -/

theorem segStep_of_segL {a a1 : Array α} {lo n : Nat} (hsz : lo + n ≤ a.size) (hs : a1.size = a.size)
    (hf : ∀ i, (i < lo ∨ lo + n ≤ i) → a1[i]? = a[i]?)
    (hp : (segL a1 lo (lo + n)).Perm (segL a lo (lo + n))) : SegStep a a1 lo (lo + n) := by
  have dec : ∀ b : Array α, lo + n ≤ b.size →
      b = b.extract 0 lo ++ b.extract lo (lo + n) ++ b.extract (lo + n) b.size := by
    intro b hb
    rw [Array.extract_append_extract, Nat.zero_min, Nat.max_eq_right (by omega : lo ≤ lo + n),
      Array.extract_append_extract, Nat.zero_min, Nat.max_eq_right hb, Array.extract_size]
  have e1 : a1.extract 0 lo = a.extract 0 lo := by
    apply Array.ext_getElem?
    intro i
    by_cases hi : i < lo
    · simp only [Array.getElem?_extract]
      have := hf i (Or.inl hi)
      simp [this, hs]
    · have : ¬ i < min lo a.size := by omega
      simp [hs, this]
  have e2 : a1.extract (lo + n) a1.size = a.extract (lo + n) a.size := by
    rw [hs]
    apply Array.ext_getElem?
    intro i
    simp only [Array.getElem?_extract]
    have := hf (lo + n + i) (Or.inr (by omega))
    simp [this, hs]
  refine ⟨hs, ?_, ?_, ?_⟩
  · rw [Array.perm_iff_toList_perm, dec a hsz, dec a1 (by omega), e1, e2]
    simp only [Array.toList_append]
    exact (List.Perm.append_left _ hp).append_right _
  · intro p hp hpa hpa'
    have := hf p hp
    rw [Array.getElem?_eq_getElem hpa, Array.getElem?_eq_getElem hpa'] at this
    exact Option.some.inj this
  · intro P hP p hp1 hp2 hpa'
    have hmem : a1[p] ∈ segL a1 lo (lo + n) := by
      have hl := segL_length a1 lo (lo + n) (by omega)
      have := segL_getElem a1 lo (lo + n) (p - lo) (by omega) (by omega)
      simp only [(by omega : lo + (p - lo) = p)] at this
      rw [← this]
      exact List.getElem_mem _
    have hmem' := hp.mem_iff.1 hmem
    obtain ⟨t, ht, hh⟩ := List.mem_iff_getElem.1 hmem'
    have hl := segL_length a lo (lo + n) hsz
    rw [← hh, segL_getElem a lo (lo + n) t hsz ht]
    exact hP _ (by omega) (by omega) (by omega)

/-! ## `bucketLoop` -/

theorem bucketLoop_spec {cmp : α → α → Int} (guard : Bool)
    (rec : Array α → Array α → Int → Int → Outcome (Array α × Array α))
    (count : Array Int) (lo R asz : Nat) (C : Nat → Nat) (Pre : Nat → α → Prop)
    (hcount : ∀ r, r ≤ R → count[r]? = some ((C r : Nat) : Int))
    (hmono : ∀ r r', r ≤ r' → r' ≤ R → C r ≤ C r')
    (hsz : lo + C R ≤ asz)
    (hrec : ∀ r, r < R → ∀ a aux : Array α, a.size = asz → aux.size = asz →
      AllSeg (Pre r) a (lo + C r) (lo + C (r+1)) →
      ∃ a' aux', rec a aux ((lo : Int) + ((C r : Nat) : Int)) ((lo : Int) + ((C (r+1) : Nat) : Int) - 1) = .ok (a', aux') ∧
        aux'.size = asz ∧ SegStep a a' (lo + C r) (lo + C (r+1)) ∧
        SortedSeg cmp a' (lo + C r) (lo + C (r+1))) :
    ∀ (f r : Nat) (a aux : Array α), r ≤ R → R - r < f → a.size = asz → aux.size = asz →
      (∀ r', r ≤ r' → r' < R → AllSeg (Pre r') a (lo + C r') (lo + C (r'+1))) →
      ∃ a' aux', bucketLoop guard rec count (lo : Int) (R : Int) f (r : Int) a aux = .ok (a', aux') ∧
        aux'.size = asz ∧ SegStep a a' (lo + C r) (lo + C R) ∧
        (∀ r', r ≤ r' → r' < R → SortedSeg cmp a' (lo + C r') (lo + C (r'+1)) ∧
          ∀ P : α → Prop, AllSeg P a (lo + C r') (lo + C (r'+1)) → AllSeg P a' (lo + C r') (lo + C (r'+1))) := by
  intro f
  induction f with
  | zero => intros; omega
  | succ f ih =>
    intro r a aux hrR hf hsa hsx hpre
    unfold bucketLoop
    by_cases hr : r < R
    · have c1 : (r : Int) < (R : Int) := by omega
      simp only [c1, ↓reduceIte]
      have e1 : (r : Int) + 1 = ((r + 1 : Nat) : Int) := by omega
      have hc1 := hcount (r+1) (by omega)
      have hc0 := hcount r (by omega)
      obtain ⟨g1, g1'⟩ := Array.getElem?_eq_some_iff.1 hc1
      obtain ⟨g0, g0'⟩ := Array.getElem?_eq_some_iff.1 hc0
      rw [e1, get_nat g1, get_nat g0, g1', g0']
      simp only [ok_bind]
      have m1 := hmono r (r+1) (by omega) (by omega)
      have m2 := hmono (r+1) R (by omega) (Nat.le_refl _)
      by_cases hskip : (guard && !decide (((C (r+1) : Nat) : Int) > ((C r : Nat) : Int))) = true
      · simp only [hskip, ↓reduceIte]
        have heq : C (r+1) = C r := by
          simp only [Bool.and_eq_true, Bool.not_eq_true', decide_eq_false_iff_not] at hskip
          omega
        obtain ⟨a', aux', t1, t2, T, t4⟩ := ih (r+1) a aux (by omega) (by omega) hsa hsx
          (fun r' h1 h2 => hpre r' (by omega) h2)
        refine ⟨a', aux', t1, t2, T.widen (by omega) (Nat.le_refl _), ?_⟩
        intro r' h1 h2
        by_cases hr' : r' = r
        · subst hr'
          refine ⟨?_, ?_⟩
          · intro p q _ _ _ _; omega
          · intro P _ p _ _ _; omega
        · exact t4 r' (by omega) h2
      · simp only [hskip, Bool.false_eq_true, ↓reduceIte]
        obtain ⟨a1, aux1, s1, s2, S1, s4⟩ := hrec r hr a aux hsa hsx (hpre r (Nat.le_refl _) hr)
        rw [s1]
        simp only [ok_bind]
        have hsa1 : a1.size = asz := by rw [S1.size]; exact hsa
        have hright : ∀ r', r + 1 ≤ r' → r' < R → lo + C (r+1) ≤ lo + C r' := by
          intro r' h1 h2
          have := hmono (r+1) r' h1 (by omega); omega
        obtain ⟨a', aux', t1, t2, T, t4⟩ := ih (r+1) a1 aux1 (by omega) (by omega) hsa1 s2
          (fun r' h1 h2 => S1.allSeg_disjoint (Or.inr (hright r' h1 h2)) (hpre r' (by omega) h2))
        refine ⟨a', aux', t1, t2,
          (S1.widen (Nat.le_refl _) (by omega)).trans (T.widen (by omega) (Nat.le_refl _)), ?_⟩
        intro r' h1 h2
        by_cases hr' : r' = r
        · subst hr'
          refine ⟨T.sortedSeg_disjoint (Or.inl (Nat.le_refl _)) s4, ?_⟩
          intro P hP
          exact T.allSeg_disjoint (Or.inl (Nat.le_refl _)) (S1.pres P hP)
        · obtain ⟨u1, u2⟩ := t4 r' (by omega) h2
          refine ⟨u1, ?_⟩
          intro P hP
          exact u2 P (S1.allSeg_disjoint (Or.inr (hright r' (by omega) h2)) hP)
    · have c1 : ¬ (r : Int) < (R : Int) := by omega
      simp only [c1, ↓reduceIte]
      have : r = R := by omega
      subst this
      exact ⟨a, aux, rfl, hsx, SegStep.refl _ _ _, by intro r' h1 h2; omega⟩

/-! ## `msdString` -/

/-- the counting key of `msdString` at digit `d`: `charAt(s, d) + 1` -/
def msdKey (d : Nat) (s : List UInt8) : Nat := (chr s d + 1).toNat

theorem msdKey_lt (d : Nat) (s : List UInt8) : msdKey d s < 257 := by
  have := chr_lt s d; unfold msdKey; omega

theorem msdKey_ok (d : Nat) (s : List UInt8) :
    (charAt s (d : Int)).map (· + 1) = .ok ((msdKey d s : Nat) : Int) := by
  have := chr_ge s d
  rw [charAt_nat, map_ok]
  unfold msdKey
  congr 1
  omega

theorem msdStringAux_spec (hcp : CountingPassSpec) (M : Nat) :
    ∀ (f : Nat) (a aux : Array (List UInt8)) (lo hi1 d : Nat) (w : List UInt8),
    lo ≤ hi1 → hi1 ≤ a.size → aux.size = a.size → w.length = d →
    AllSeg (fun s => s.take d = w ∧ s.length ≤ M) a lo hi1 →
    1 ≤ f → (lo + 16 < hi1 → M + 2 ≤ f + d) →
    ∃ a' aux', msdStringAux f a aux (lo : Int) ((hi1 : Int) - 1) (d : Int) = .ok (a', aux') ∧
      aux'.size = a.size ∧ SegStep a a' lo hi1 ∧ SortedSeg bytesCmp a' lo hi1 := by
  intro f
  induction f with
  | zero => intros; omega
  | succ f ih =>
    intro a aux lo hi1 d w hlh hsz hax hw hQ _ hfuel
    obtain ⟨n, rfl⟩ : ∃ n, hi1 = lo + n := ⟨hi1 - lo, by omega⟩
    unfold msdStringAux
    by_cases hcut : n ≤ 16
    · have c1 : (((lo + n : Nat) : Int) - 1 ≤ (lo : Int) + ((radixsort_msdString_CUTOFF : Nat) : Int)) := by
        simp only [radixsort_msdString_CUTOFF]; omega
      simp only [c1, ↓reduceIte]
      obtain ⟨a', h1, h2, h3, h4, h5, h6⟩ := rInsertion_spec' bytesCmp_tp bytesLt_iff a lo n hsz
      rw [h1]
      exact ⟨a', aux, rfl, hax, ⟨h2, h3, h4, h5⟩, h6⟩
    · have c1 : ¬ (((lo + n : Nat) : Int) - 1 ≤ (lo : Int) + ((radixsort_msdString_CUTOFF : Nat) : Int)) := by
        simp only [radixsort_msdString_CUTOFF]; omega
      simp only [c1, ↓reduceIte]
      have eR : ((radixsort_msdString_R : Nat) : Int) + 1 = ((257 : Nat) : Int) := by
        simp [radixsort_msdString_R]
      have eR2 : ((radixsort_msdString_R : Nat) : Int) = ((256 : Nat) : Int) := by
        simp [radixsort_msdString_R]
      have eR3 : ((256 : Nat) : Int).toNat + 1 = 257 := by simp
      rw [eR, eR2, eR3]
      -- the counting pass
      obtain ⟨a1, aux1, count, p1, p2, p3, p4, p5, p6, p7⟩ :=
        hcp (fun s => (charAt s (d : Int)).map (· + 1)) (msdKey d) 257 none a aux lo n (by omega) (by simp)
          hsz (by omega) (fun i _ _ => ⟨msdKey_ok d _, msdKey_lt d _⟩)
      rw [p1]
      simp only [ok_bind]
      have hseg : (a.extract lo (lo + n)).toList = segL a lo (lo + n) := rfl
      have hseg1 : (a1.extract lo (lo + n)).toList = segL a1 lo (lo + n) := rfl
      rw [hseg] at p6 p7
      rw [hseg1] at p6
      have hord : bucketOrder 257 none = List.range 257 := rfl
      rw [hord] at p6
      obtain ⟨B, hB⟩ : ∃ B : Nat → Nat, ∀ r, B r = cntLt (msdKey d) (segL a lo (lo + n)) r := ⟨_, fun _ => rfl⟩
      have hall : ∀ x, x ∈ segL a lo (lo + n) → msdKey d x < 257 := fun x _ => msdKey_lt d x
      have hBn : B 257 = n := by
        rw [hB, cntLt_all _ _ _ hall, segL_length a lo (lo + n) hsz]; omega
      have hBmono : ∀ r r', r ≤ r' → B r ≤ B r' := by
        intro r r' h; rw [hB, hB]; exact cntLt_mono _ _ h
      have S1 : SegStep a a1 lo (lo + n) :=
        segStep_of_segL hsz p2 p5 (by rw [p6]; exact bucketConcat_perm_lt _ _ _ hall)
      have hQ1 := S1.pres _ hQ
      have K1 : ∀ r, r < 257 → AllSeg (fun s => msdKey d s = r) a1 (lo + B r) (lo + B (r+1)) := by
        intro r hr p hp1 hp2 hpa
        rw [hB] at hp1; rw [hB] at hp2
        obtain ⟨x, hx, hk⟩ := bucketConcat_key (msdKey d) (segL a lo (lo + n)) 257 r (p - lo) hr (by omega) (by omega)
        have hp3 : p < lo + n := by
          have := hBmono (r+1) 257 (by omega); rw [hB] at this; omega
        have := segL_getElem? a1 lo (lo + n) (p - lo) (by omega) (by omega)
        rw [p6, hx] at this
        simp only [(by omega : lo + (p - lo) = p)] at this
        rw [← Option.some.inj this]; exact hk
      have hcount : ∀ r, r ≤ 256 → count[r]? = some ((B (r+1) : Nat) : Int) := by
        intro r hr
        rw [p7 r (by omega), hB]
        simp only [countAfter, cntLt]
        congr 3
        funext x
        exact decide_eq_decide.2 (by omega)
      have hdM : d ≤ M := by
        have h1 := hQ lo (Nat.le_refl _) (by omega) (by omega)
        have := congrArg List.length h1.1
        rw [List.length_take] at this
        omega
      -- the recursive calls
      have hrec : ∀ r, r < 256 → ∀ b baux : Array (List UInt8), b.size = a.size → baux.size = a.size →
          AllSeg (fun s => s.take (d+1) = w ++ [r.toUInt8] ∧ s.length ≤ M) b (lo + B (r+1)) (lo + B (r+1+1)) →
          ∃ b' baux', (fun a aux lo hi => msdStringAux f a aux lo hi ((d : Int) + 1)) b baux
              ((lo : Int) + ((B (r+1) : Nat) : Int)) ((lo : Int) + ((B (r+1+1) : Nat) : Int) - 1) = .ok (b', baux') ∧
            baux'.size = a.size ∧ SegStep b b' (lo + B (r+1)) (lo + B (r+1+1)) ∧
            SortedSeg bytesCmp b' (lo + B (r+1)) (lo + B (r+1+1)) := by
        intro r hr b baux hb hbaux hpre
        have hm := hBmono (r+1) (r+1+1) (by omega)
        have hm2 := hBmono (r+1+1) 257 (by omega)
        obtain ⟨b', baux', q1, q2, q3, q4⟩ := ih b baux (lo + B (r+1)) (lo + B (r+1+1)) (d+1) (w ++ [r.toUInt8])
          (by omega) (by omega) (by omega) (by simp [hw]) hpre (by omega) (by omega)
        refine ⟨b', baux', ?_, by omega, q3, q4⟩
        have e1 : ((lo + B (r+1) : Nat) : Int) = (lo : Int) + ((B (r+1) : Nat) : Int) := by omega
        have e2 : ((lo + B (r+1+1) : Nat) : Int) = (lo : Int) + ((B (r+1+1) : Nat) : Int) := by omega
        have e3 : ((d + 1 : Nat) : Int) = (d : Int) + 1 := by omega
        rw [e1, e2, e3] at q1
        exact q1
      have hpre : ∀ r', 0 ≤ r' → r' < 256 →
          AllSeg (fun s => s.take (d+1) = w ++ [r'.toUInt8] ∧ s.length ≤ M) a1 (lo + B (r'+1)) (lo + B (r'+1+1)) := by
        intro r' _ hr' p hp1 hp2 hpa
        have hk := K1 (r'+1) (by omega) p hp1 hp2 hpa
        have hm2 := hBmono (r'+1+1) 257 (by omega)
        have hq := hQ1 p (by omega) (by omega) hpa
        have hc := chr_ge a1[p] d
        simp only [msdKey] at hk
        have hb : (r'.toUInt8).toNat = r' := by
          simp only [Nat.toUInt8_eq, UInt8.toNat_ofNat']; omega
        exact ⟨(take_succ_of_chr hq.1 (by omega)).1, hq.2⟩
      have key := bucketLoop_spec (cmp := bytesCmp) false
        (fun a aux lo hi => msdStringAux f a aux lo hi ((d : Int) + 1)) count lo 256 a.size (fun r => B (r+1))
        (fun r s => s.take (d+1) = w ++ [r.toUInt8] ∧ s.length ≤ M) hcount
        (fun r r' h _ => hBmono _ _ (by omega)) (by simp only [hBn]; omega) hrec 257 0 a1 aux1
        (by omega) (by omega) p2 (by omega) hpre
      obtain ⟨a', aux', l1, l2, L, l4⟩ := key
      have hB0 : B 0 = 0 := by rw [hB, cntLt_zero]
      have e257 : B (256 + 1) = B 257 := rfl
      have e01 : B (0 + 1) = B 1 := rfl
      have hm01 := hBmono 0 1 (by omega)
      have hm1 := hBmono 1 257 (by omega)
      have Lw : SegStep a1 a' lo (lo + n) := L.widen (by omega) (by omega)
      refine ⟨a', aux', l1, l2, S1.trans Lw, ?_⟩
      -- sortedness of the whole segment
      have hQ' := Lw.pres _ hQ1
      have keyfact : ∀ r, r < 257 → AllSeg (fun s => msdKey d s = r) a' (lo + B r) (lo + B (r+1)) := by
        intro r hr
        cases r with
        | zero => exact L.allSeg_disjoint (Or.inl (Nat.le_refl _)) (K1 0 hr)
        | succ r' => exact (l4 r' (Nat.zero_le _) (by omega)).2 _ (K1 (r'+1) hr)
      have sortfact : ∀ r, r < 257 → SortedSeg bytesCmp a' (lo + B r) (lo + B (r+1)) := by
        intro r hr
        cases r with
        | zero =>
          intro p q hp hpq hq hqa
          have k1 := keyfact 0 hr p hp (by omega) (by omega)
          have k2 := keyfact 0 hr q (by omega) hq hqa
          have g1 := hQ' p (by omega) (by omega) (by omega)
          have g2 := hQ' q (by omega) (by omega) hqa
          simp only [msdKey] at k1 k2
          rw [eq_of_chr_neg g1.1 (by omega), eq_of_chr_neg g2.1 (by omega), bytesCmp_self]
          omega
        | succ r' => exact (l4 r' (Nat.zero_le _) (by omega)).1
      intro p q hp hpq hq hqa
      obtain ⟨rp, hrp, bp1, bp2⟩ := exists_bucket (msdKey d) (segL a lo (lo + n)) 257 (p - lo)
        (by rw [← hB, hBn]; omega)
      obtain ⟨rq, hrq, bq1, bq2⟩ := exists_bucket (msdKey d) (segL a lo (lo + n)) 257 (q - lo)
        (by rw [← hB, hBn]; omega)
      rw [← hB] at bp1 bp2 bq1 bq2
      have kp := keyfact rp hrp p (by omega) (by omega) (by omega)
      have kq := keyfact rq hrq q (by omega) (by omega) hqa
      by_cases c1 : rp < rq
      · have g1 := hQ' p (by omega) (by omega) (by omega)
        have g2 := hQ' q (by omega) (by omega) hqa
        have hc1 := chr_ge a'[p] d
        have hc2 := chr_ge a'[q] d
        simp only [msdKey] at kp kq
        exact Int.le_of_lt (bytesCmp_lt_of_chr hw g1.1 g2.1 (by omega))
      · by_cases c2 : rp = rq
        · subst c2
          exact sortfact rp hrp p q (by omega) hpq (by omega) hqa
        · have := hBmono (rq+1) rp (by omega)
          omega

theorem msdString_sorted (hcp : CountingPassSpec) (a : Array (List UInt8)) :
    ∃ out, msdString a = .ok out ∧ out.Perm a ∧ SortedSeg bytesCmp out 0 out.size := by
  obtain ⟨out, aux', h1, _, S, h3⟩ := msdStringAux_spec hcp (maxLen a) (maxLen a + 2) a
    (Array.replicate a.size []) 0 a.size 0 [] (Nat.zero_le _) (Nat.le_refl _) (by simp) rfl
    (by intro p _ _ hpa; exact ⟨by simp, maxLen_ge a p hpa⟩) (by omega) (by omega)
  refine ⟨out, ?_, S.perm, by rw [S.size]; exact h3⟩
  unfold msdString msdStringAt
  have h1' : msdStringAux (maxLen a + 2) a (Array.replicate a.size []) 0 ((a.size : Int) - 1) 0
      = .ok (out, aux') := h1
  rw [h1']
  rfl

theorem msdString_spec (hcp : CountingPassSpec) (a : Array (List UInt8)) :
    ∃ out, msdString a = .ok out ∧ out.toList = a.toList.mergeSort bytesLe := by
  obtain ⟨out, h1, h2, h3⟩ := msdString_sorted hcp a
  exact ⟨out, h1, eq_mergeSort_of_sorted_perm h3 h2⟩

end AlgoVerif.C07
