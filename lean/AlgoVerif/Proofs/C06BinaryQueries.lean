import AlgoVerif.Proofs.C06Binary
import AlgoVerif.Proofs.C06Fold
/-!
# C06 — binary trie: traversals and the string queries as functions of the entry list
-/
namespace AlgoVerif.C06
variable {V σ : Type}

/-- put `pre` in front of an entry's key -/
def prep (pre : Key) (e : Key × V) : Key × V := (pre ++ e.1, e.2)

@[simp] theorem prep_nil (e : Key × V) : prep [] e = e := rfl

theorem map_prep_nil (l : List (Key × V)) : l.map (prep []) = l := by
  simp [show (prep ([] : Key) : Key × V → Key × V) = id from funext prep_nil]

theorem map_prep_consKey (pre : Key) (ch : UInt8) (l : List (Key × V)) :
    (l.map (consKey ch)).map (prep pre) = l.map (prep (pre ++ [ch])) := by
  simp [prep, consKey, Function.comp_def]

theorem filter_const_true {α : Type} (l : List α) : l.filter (fun _ => true) = l := by
  induction l <;> simp_all

namespace BNode

/-- the ascending traversal with a visit that skips non-`term` nodes is a fold over the entries -/
theorem travAsc_eq (visit : σ → Key → V → Bool → σ × Bool) (g : σ → Key → V → σ × Bool)
    (hv : ∀ s k v term, visit s k v term = if term then g s k v else (s, true))
    (n : BNode V) (pre : Key) (s : σ) :
    travAsc visit n pre s = foldE g ((ents n).map (prep pre)) s := by
  induction n generalizing pre s with
  | nil => simp [travAsc, foldE]
  | node ch val term l r ihl ihr =>
    simp only [travAsc, ents, List.map_append, map_prep_consKey, foldE_append, ihl, ihr, hv]
    cases term
    · simp [foldE]
    · simp only [if_true, List.map_cons, List.map_nil, foldE_singleton, prep]
      cases h : (g s (pre ++ [ch]) val).2 <;> simp [h]

/-- the descending traversal is the fold over the reversed entries -/
theorem travDesc_eq (visit : σ → Key → V → Bool → σ × Bool) (g : σ → Key → V → σ × Bool)
    (hv : ∀ s k v term, visit s k v term = if term then g s k v else (s, true))
    (n : BNode V) (pre : Key) (s : σ) :
    travDesc visit n pre s = foldE g ((ents n).map (prep pre)).reverse s := by
  induction n generalizing pre s with
  | nil => simp [travDesc, foldE]
  | node ch val term l r ihl ihr =>
    simp only [travDesc, ents, List.map_append, map_prep_consKey, List.reverse_append, foldE_append, ihl, ihr, hv]
    cases term
    · simp only [Bool.false_eq_true, if_false, List.map_nil, List.reverse_nil, foldE]
    · simp only [if_true, List.map_cons, List.map_nil, List.reverse_cons, List.reverse_nil, List.nil_append,
        foldE_singleton, prep]

/-! ### string queries -/

private theorem right_filter_nil {ch : UInt8} {r : BNode V} (hr : ∀ e ∈ ents r, ∃ x k, e.1 = x :: k ∧ ch < x)
    (p : Key × V → Bool) (hp : ∀ e : Key × V, (∃ x k, e.1 = x :: k ∧ ch < x) → p e = false) :
    (ents r).filter p = [] :=
  filter_eq_nil_of_all_false p _ (fun e he => hp e (hr e he))

theorem withPrefix_eq (n : BNode V) (pre p : Key) (hw : WF n) :
    withPrefix n pre p = ((ents n).filter (fun e => p.isPrefixOf e.1)).map (prep pre) := by
  induction n generalizing pre p with
  | nil => cases p <;> simp [withPrefix]
  | node ch val term l r ihl ihr =>
    have hr := ents_right_head hw
    cases p with
    | nil =>
      simp only [withPrefix, ihl _ _ hw.1, ihr _ _ hw.2.1, List.isPrefixOf_nil_left, filter_const_true, ents,
        List.map_append, map_prep_consKey]
      cases term <;> simp [prep]
    | cons k ks =>
      simp only [withPrefix]
      by_cases hk : (k == ch) = true
      · have hkc : k = ch := by simpa using hk
        subst hkc
        have hR : (ents r).filter (fun e => (k :: ks).isPrefixOf e.1) = [] := by
          apply right_filter_nil hr
          rintro e ⟨x, key, hx, hlt⟩
          have : k ≠ x := by rintro rfl; exact u8_lt_irrefl _ hlt
          simp [hx, List.isPrefixOf, this]
        simp only [hk, if_true, ihl _ _ hw.1, ents, List.filter_append, hR, List.append_nil, List.map_append,
          List.filter_map, map_prep_consKey]
        congr 1
        · cases term <;> cases ks <;> simp [List.isPrefixOf, prep]
        · congr 1
          apply List.filter_congr
          intro e _
          simp [List.isPrefixOf]
      · have hne : k ≠ ch := by simpa using hk
        have hV : (if term then [([ch], val)] else []).filter (fun e => (k :: ks).isPrefixOf e.1) = [] := by
          cases term <;> simp [List.isPrefixOf, hne]
        have hL : ((ents l).map (consKey ch)).filter (fun e => (k :: ks).isPrefixOf e.1) = [] := by
          apply filter_eq_nil_of_all_false
          intro e he
          obtain ⟨e', _, rfl⟩ := List.mem_map.mp he
          simp [List.isPrefixOf, hne]
        simp only [hk, Bool.false_eq_true, if_false, ihr _ _ hw.2.1, ents, List.filter_append, hV, hL, List.nil_append]

theorem allPrefixOf_eq (n : BNode V) (pre s : Key) (hw : WF n) :
    allPrefixOf n pre s = ((ents n).filter (fun e => e.1.isPrefixOf s)).map (prep pre) := by
  induction n generalizing pre s with
  | nil => cases s <;> simp [allPrefixOf]
  | node ch val term l r ihl ihr =>
    have hr := ents_right_head hw
    cases s with
    | nil =>
      simp only [allPrefixOf]
      symm
      rw [List.map_eq_nil_iff]
      apply filter_eq_nil_of_all_false
      intro e he
      have := ents_key_ne_nil _ e he
      cases h : e.1 with
      | nil => exact absurd h this
      | cons => simp [List.isPrefixOf]
    | cons k ks =>
      simp only [allPrefixOf]
      by_cases hk : (k == ch) = true
      · have hkc : k = ch := by simpa using hk
        subst hkc
        have hR : (ents r).filter (fun e => e.1.isPrefixOf (k :: ks)) = [] := by
          apply right_filter_nil hr
          rintro e ⟨x, key, hx, hlt⟩
          have : x ≠ k := by rintro rfl; exact u8_lt_irrefl _ hlt
          simp [hx, List.isPrefixOf, this]
        simp only [hk, if_true, ihl _ _ hw.1, ents, List.filter_append, hR, List.append_nil, List.map_append,
          List.filter_map, map_prep_consKey]
        congr 1
        · cases term <;> simp [List.isPrefixOf, prep]
        · congr 1
          apply List.filter_congr
          intro e _
          simp [List.isPrefixOf]
      · have hne : ch ≠ k := by intro h; apply hk; simp [h]
        have hV : (if term then [([ch], val)] else []).filter (fun e => e.1.isPrefixOf (k :: ks)) = [] := by
          cases term <;> simp [List.isPrefixOf, hne]
        have hL : ((ents l).map (consKey ch)).filter (fun e => e.1.isPrefixOf (k :: ks)) = [] := by
          apply filter_eq_nil_of_all_false
          intro e he
          obtain ⟨e', _, rfl⟩ := List.mem_map.mp he
          simp [List.isPrefixOf, hne]
        simp only [hk, Bool.false_eq_true, if_false, ihr _ _ hw.2.1, ents, List.filter_append, hV, hL, List.nil_append]

theorem match_eq (n : BNode V) (pre pat : Key) (hw : WF n) :
    «match» n pre pat = ((ents n).filter (fun e => kmatches pat e.1)).map (prep pre) := by
  induction n generalizing pre pat with
  | nil => cases pat <;> simp [BNode.match]
  | node ch val term l r ihl ihr =>
    have hr := ents_right_head hw
    cases pat with
    | nil =>
      simp only [BNode.match]
      symm
      rw [List.map_eq_nil_iff]
      apply filter_eq_nil_of_all_false
      intro e he
      have := ents_key_ne_nil _ e he
      cases h : e.1 with
      | nil => exact absurd h this
      | cons => simp [kmatches]
    | cons p ps =>
      simp only [BNode.match, ents, List.filter_append, List.map_append]
      have hL : (((ents l).map (consKey ch)).filter (fun e => kmatches (p :: ps) e.1)).map (prep pre)
          = if p == star || p == ch then ((ents l).filter (fun e => kmatches ps e.1)).map (prep (pre ++ [ch])) else [] := by
        by_cases hc : (p == star || p == ch) = true
        · simp only [hc, if_true, List.filter_map, map_prep_consKey]
          congr 1
          apply List.filter_congr
          intro e _
          simp [kmatches, hc]
        · have hc' : (p == star || p == ch) = false := by simpa using hc
          simp only [hc', Bool.false_eq_true, if_false, List.map_eq_nil_iff]
          apply filter_eq_nil_of_all_false
          intro e he
          obtain ⟨e', _, rfl⟩ := List.mem_map.mp he
          simp [kmatches, hc']
      have hV : ((if term then [([ch], val)] else []).filter (fun e => kmatches (p :: ps) e.1)).map (prep pre)
          = if p == star || p == ch then (if term && ps.isEmpty then [(pre ++ [ch], val)] else []) else [] := by
        cases term <;> cases ps <;> cases hc : (p == star || p == ch) <;> simp [kmatches, hc, prep]
      have hR : ((ents r).filter (fun e => kmatches (p :: ps) e.1)).map (prep pre)
          = if p == star || p != ch then «match» r pre (p :: ps) else [] := by
        by_cases hc : (p == star || p != ch) = true
        · simp only [hc, if_true, ihr _ _ hw.2.1]
        · have hc' : (p == star || p != ch) = false := by simpa using hc
          simp only [hc', Bool.false_eq_true, if_false, List.map_eq_nil_iff]
          simp only [Bool.or_eq_false_iff, bne_eq_false_iff_eq, beq_eq_false_iff_ne, ne_eq, beq_iff_eq] at hc'
          obtain ⟨hs, hpc⟩ := hc'
          subst hpc
          apply right_filter_nil hr
          rintro e ⟨x, key, hx, hlt⟩
          have : p ≠ x := by rintro rfl; exact u8_lt_irrefl _ hlt
          simp [hx, kmatches, hs, this]
      rw [hV, hL, hR, ihl _ _ hw.1]
      by_cases hc : (p == star || p == ch) = true <;> simp [hc]

end BNode
end AlgoVerif.C06
